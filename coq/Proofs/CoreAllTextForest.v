(* The forest of a CoreAll statement list (Spec/CoreAllText.v) against its item tree
   (Spec/CoreAll.v): the port of Proofs/CoreTextForest.v to [ustmt].
     - what the indentation parser must produce for the rendered forest IS [uitems_from n p];
     - the forest of a well-formed list whose heads are "plain" is a well-formed forest. *)
From Coq Require Import NArith ZArith List Bool Lia.
From DS Require Import Base PyStr Values Expr TabParse Tables Constants Interp IdentSpec IdentProofs.
From DS Require Import BlockTree TabProofs TabRoundTrip PipelineProofs ChainProofs CoreLang CoreWf CoreLines CoreText CoreTextForest.
From DS Require Import CoreFunc CoreAll CoreAllText CoreAllLines.
Import ListNotations.

(* ================================================================== induction on statements *)
Definition uopt_each (P : ustmt -> Prop) (els : option (list ustmt)) : Prop :=
  match els with Some b => each P b | None => True end.

Section UStmtInd.
Variable P : ustmt -> Prop.
Hypothesis H_emit : forall name text, P (UEmit name text).
Hypothesis H_eval : forall name e, P (UEmitEval name e).
Hypothesis H_var : forall x e, P (UVar x e).
Hypothesis H_if : forall arms els,
  each (fun cb : str * list ustmt => let (_, b) := cb in each P b) arms ->
  uopt_each P els -> P (UIf arms els).
Hypothesis H_repeat : forall c e b, each P b -> P (URepeat c e b).
Hypothesis H_while : forall c e b, each P b -> P (UWhile c e b).
Hypothesis H_break : P UBreakLoop.
Hypothesis H_continue : P UContinueLoop.
Hypothesis H_func : forall name ps b, each P b -> P (UFunc name ps b).
Hypothesis H_run : forall name args, P (URun name args).
Hypothesis H_return : P UReturn.
Hypothesis H_print : forall t, P (UPrint t).
Hypothesis H_print_eval : forall e, P (UPrintEval e).
Hypothesis H_rem : forall t, P (URem t).
Hypothesis H_unknown : forall w a, P (UUnknown w a).
Hypothesis H_start : forall k m, P (UStart k m).

Fixpoint ustmt_ind2 (s : ustmt) : P s :=
  match s with
  | UEmit name text => H_emit name text
  | UEmitEval name e => H_eval name e
  | UVar x e => H_var x e
  | UIf arms els =>
      H_if arms els
        ((fix go (arms : list (str * list ustmt)) :
            each (fun cb : str * list ustmt => let (_, b) := cb in each P b) arms :=
            match arms with
            | [] => I
            | (c, b) :: r =>
                conj ((fix gl (l : list ustmt) : each P l :=
                         match l with [] => I | s0 :: t => conj (ustmt_ind2 s0) (gl t) end) b) (go r)
            end) arms)
        (match els as o return uopt_each P o with
         | Some b => (fix gl (l : list ustmt) : each P l :=
                        match l with [] => I | s0 :: t => conj (ustmt_ind2 s0) (gl t) end) b
         | None => I
         end)
  | URepeat c e b =>
      H_repeat c e b ((fix gl (l : list ustmt) : each P l :=
                         match l with [] => I | s0 :: t => conj (ustmt_ind2 s0) (gl t) end) b)
  | UWhile c e b =>
      H_while c e b ((fix gl (l : list ustmt) : each P l :=
                        match l with [] => I | s0 :: t => conj (ustmt_ind2 s0) (gl t) end) b)
  | UBreakLoop => H_break
  | UContinueLoop => H_continue
  | UFunc name ps b =>
      H_func name ps b ((fix gl (l : list ustmt) : each P l :=
                           match l with [] => I | s0 :: t => conj (ustmt_ind2 s0) (gl t) end) b)
  | URun name args => H_run name args
  | UReturn => H_return
  | UPrint t => H_print t
  | UPrintEval e => H_print_eval e
  | URem t => H_rem t
  | UUnknown w a => H_unknown w a
  | UStart k m => H_start k m
  end.
End UStmtInd.

(* ================================================================== blocks are not empty *)
Fixpoint ublocks_nonempty (s : ustmt) : Prop :=
  match s with
  | UIf arms els =>
      arms <> [] /\
      each (fun cb : str * list ustmt => let (_, b) := cb in b <> [] /\ each ublocks_nonempty b) arms /\
      match els with Some b => b <> [] /\ each ublocks_nonempty b | None => True end
  | URepeat _ _ b => b <> [] /\ each ublocks_nonempty b
  | UWhile _ _ b => b <> [] /\ each ublocks_nonempty b
  | UFunc _ _ b => b <> [] /\ each ublocks_nonempty b
  | _ => True
  end.
Definition ublocks_nonempty_list (p : list ustmt) : Prop := each ublocks_nonempty p.

(* ================================================================== the forest IS the item tree *)
Definition uagrees (s : ustmt) : Prop :=
  ublocks_nonempty s ->
  ustmt_nodes s <> [] /\
  Z.of_nat (forest_size (ustmt_nodes s)) = usize s /\
  forall n, expected_forest (ustmt_nodes s) n = ustmt_items n s.

Lemma uagrees_list : forall b, each uagrees b -> each ublocks_nonempty b ->
  (b <> [] -> uforest_of b <> []) /\
  Z.of_nat (forest_size (uforest_of b)) = sum_sizes usize b /\
  forall n, expected_forest (uforest_of b) n = seq_items ustmt_items usize n b.
Proof.
  induction b as [|s r IH]; intros Hag Hbn.
  - split; [intro H; contradiction|]. split; [reflexivity|]. intro n. reflexivity.
  - destruct Hag as [Hs Hr]. destruct Hbn as [Bs Br].
    destruct (Hs Bs) as (Hne & Hsz & Hex). destruct (IH Hr Br) as (_ & Hsz' & Hex').
    unfold uforest_of in *. cbn [flat_map]. split; [|split].
    + intros _ E. apply app_eq_nil in E. destruct E as [E _]. exact (Hne E).
    + rewrite forest_size_app, Nat2Z.inj_add, Hsz, Hsz'. reflexivity.
    + intro n. rewrite expected_forest_app, Hex, Hex', Hsz. reflexivity.
Qed.

Lemma uagrees_block_stmt : forall head b n, b <> [] -> each uagrees b -> each ublocks_nonempty b ->
  [Stmt head (uforest_of b)] <> [] /\
  Z.of_nat (forest_size [Stmt head (uforest_of b)]) = (1 + sum_sizes usize b)%Z /\
  expected_forest [Stmt head (uforest_of b)] n = [Ln head n; Blk (seq_items ustmt_items usize (n + 1)%Z b)].
Proof.
  intros head b n Hne Hag Hbn. destruct (uagrees_list b Hag Hbn) as (Hk & Hsz & Hex).
  split; [discriminate|]. split.
  - rewrite forest_size_single, Nat2Z.inj_succ, Hsz. lia.
  - rewrite expected_single, expected_block_node by (apply Hk; exact Hne). rewrite Hex. reflexivity.
Qed.

Lemma uagrees_arms : forall els,
  match els with Some b => each uagrees b | None => True end ->
  match els with Some b => b <> [] /\ each ublocks_nonempty b | None => True end ->
  forall arms,
  each (fun cb : str * list ustmt => let (_, b) := cb in each uagrees b) arms ->
  each (fun cb : str * list ustmt => let (_, b) := cb in b <> [] /\ each ublocks_nonempty b) arms ->
  forall first n,
  Z.of_nat (forest_size (uarms_nodes_gen uforest_of els first arms)) =
  (sum_sizes (fun cb : str * list ustmt => let (_, b) := cb in 1 + sum_sizes usize b) arms
   + match els with Some b => 1 + sum_sizes usize b | None => 0 end)%Z /\
  expected_forest (uarms_nodes_gen uforest_of els first arms) n =
  farms_items_gen (seq_items ustmt_items usize) (sum_sizes usize) els first n arms.
Proof.
  intros els Hae Hbe. induction arms as [|[c b] r IH]; intros Hag Hbn first n.
  - cbn [uarms_nodes_gen farms_items_gen sum_sizes]. destruct els as [b|].
    + destruct Hbe as [Hne Hb]. destruct (uagrees_block_stmt kw_ELSE b n Hne Hae Hb) as (_ & Hsz & Hex).
      split; [rewrite Hsz; lia|exact Hex].
    + split; reflexivity.
  - destruct Hag as [Hb Hr]. destruct Hbn as [[Hne Bb] Br].
    cbn [uarms_nodes_gen farms_items_gen sum_sizes].
    set (head := if_head first c).
    destruct (uagrees_block_stmt head b n Hne Hb Bb) as (_ & Hsz & Hex).
    destruct (uagrees_list b Hb Bb) as (_ & Hszb & _).
    change (Stmt head (uforest_of b) :: uarms_nodes_gen uforest_of els false r)
      with ([Stmt head (uforest_of b)] ++ uarms_nodes_gen uforest_of els false r).
    destruct (IH Hr Br false (n + (1 + sum_sizes usize b))%Z) as [Hsz' Hex'].
    split.
    + rewrite forest_size_app, Nat2Z.inj_add, Hsz. destruct (IH Hr Br false n) as [Hs2 _]. rewrite Hs2. lia.
    + rewrite expected_forest_app, Hex, Hsz, Hex'. cbn [app].
      replace (n + (1 + sum_sizes usize b))%Z with (n + 1 + sum_sizes usize b)%Z by lia. reflexivity.
Qed.

Lemma ustmt_nodes_if : forall arms els, ustmt_nodes (UIf arms els) = uarms_nodes_gen uforest_of els true arms.
Proof. reflexivity. Qed.

Ltac leaf_agrees := intros _; split; [discriminate|]; split; [reflexivity|]; intro n; reflexivity.

Theorem ustmt_agrees : forall s, uagrees s.
Proof.
  apply ustmt_ind2; unfold uagrees.
  - intros name text. leaf_agrees.
  - intros name e. leaf_agrees.
  - intros x e. leaf_agrees.
  - intros arms els Ha He Hbn. cbn [ublocks_nonempty] in Hbn. destruct Hbn as (Hne & Hba & Hbe).
    rewrite ustmt_nodes_if.
    assert (Hbe' : match els with Some b => b <> [] /\ each ublocks_nonempty b | None => True end).
    { destruct els; exact Hbe. }
    split; [|split].
    + destruct arms as [|[c b] r]; [contradiction|]. cbn [uarms_nodes_gen]. discriminate.
    + destruct (uagrees_arms els He Hbe' arms Ha Hba true 0%Z) as [Hsz _]. rewrite Hsz. reflexivity.
    + intro n. destruct (uagrees_arms els He Hbe' arms Ha Hba true n) as [_ Hex]. exact Hex.
  - intros c e b Hb Hbn. cbn [ublocks_nonempty] in Hbn. destruct Hbn as [Hne Bb].
    change (ustmt_nodes (URepeat c e b)) with [Stmt (repeat_head c e) (uforest_of b)].
    split; [discriminate|]. split.
    + destruct (uagrees_block_stmt (repeat_head c e) b 0%Z Hne Hb Bb) as (_ & Hsz & _). exact Hsz.
    + intro n. destruct (uagrees_block_stmt (repeat_head c e) b n Hne Hb Bb) as (_ & _ & Hex). exact Hex.
  - intros c e b Hb Hbn. cbn [ublocks_nonempty] in Hbn. destruct Hbn as [Hne Bb].
    change (ustmt_nodes (UWhile c e b)) with [Stmt (while_head c e) (uforest_of b)].
    split; [discriminate|]. split.
    + destruct (uagrees_block_stmt (while_head c e) b 0%Z Hne Hb Bb) as (_ & Hsz & _). exact Hsz.
    + intro n. destruct (uagrees_block_stmt (while_head c e) b n Hne Hb Bb) as (_ & _ & Hex). exact Hex.
  - leaf_agrees.
  - leaf_agrees.
  - intros name ps b Hb Hbn. cbn [ublocks_nonempty] in Hbn. destruct Hbn as [Hne Bb].
    change (ustmt_nodes (UFunc name ps b)) with [Stmt (func_head name ps) (uforest_of b)].
    split; [discriminate|]. split.
    + destruct (uagrees_block_stmt (func_head name ps) b 0%Z Hne Hb Bb) as (_ & Hsz & _). exact Hsz.
    + intro n. destruct (uagrees_block_stmt (func_head name ps) b n Hne Hb Bb) as (_ & _ & Hex). exact Hex.
  - intros name args. leaf_agrees.
  - leaf_agrees.
  - intros t. leaf_agrees.
  - intros e. leaf_agrees.
  - intros t. leaf_agrees.
  - intros w a. leaf_agrees.
  - intros k m. leaf_agrees.
Qed.

(* THE correspondence: the tree the parser must produce for the forest of p, first line numbered n,
   is uitems_from n p *)
Theorem uexpected_forest_items : forall p n, ublocks_nonempty_list p ->
  expected_forest (uforest_of p) n = uitems_from n p.
Proof.
  intros p n H. destruct (uagrees_list p (each_intro _ _ ustmt_agrees p) H) as (_ & _ & Hex). apply Hex.
Qed.

Theorem uforest_size_program : forall p, ublocks_nonempty_list p ->
  Z.of_nat (forest_size (uforest_of p)) = sum_sizes usize p.
Proof.
  intros p H. destruct (uagrees_list p (each_intro _ _ ustmt_agrees p) H) as (_ & Hsz & _). exact Hsz.
Qed.

(* ================================================================== well-formed programs *)
Theorem uwf_blocks_nonempty : forall s, uwf s -> ublocks_nonempty s.
Proof.
  apply (ustmt_ind2 (fun s => uwf s -> ublocks_nonempty s)); try (intros; exact I).
  - intros arms els Ha He Hwf. apply uwf_if_unfold in Hwf. destruct Hwf as (Hne & Hwa & Hwe).
    cbn [ublocks_nonempty]. split; [exact Hne|]. split.
    + clear Hne. induction arms as [|[c b] r IH]; [exact I|].
      destruct Ha as [Hb Hr]. destruct Hwa as [(_ & Hbne & Hwb) Hwr].
      split; [split; [exact Hbne|exact (each_impl _ _ _ b Hb Hwb)]|exact (IH Hr Hwr)].
    + destruct els as [b|]; [|exact I]. destruct Hwe as [Hbne Hwb].
      split; [exact Hbne|exact (each_impl _ _ _ b He Hwb)].
  - intros c e b Hb (_ & _ & Hne & Hwb). split; [exact Hne|exact (each_impl _ _ _ b Hb Hwb)].
  - intros c e b Hb (_ & _ & Hne & Hwb). split; [exact Hne|exact (each_impl _ _ _ b Hb Hwb)].
  - intros name ps b Hb (_ & _ & Hne & Hwb). split; [exact Hne|exact (each_impl _ _ _ b Hb Hwb)].
Qed.

Theorem uwf_list_blocks_nonempty : forall p, uwf_list p -> ublocks_nonempty_list p.
Proof.
  intros p H. exact (each_impl _ _ _ p (each_intro _ _ uwf_blocks_nonempty p) H).
Qed.

(* ================================================================== the heads are code lines *)
(* PLAIN heads: no head line contains a newline (it would cut the line in two) and none BEGINS with
   three double quotes (the parser would open a quotation).  Both are conditions on free text:
   the strings of a ustmt are arbitrary; [uwf] only constrains their spelling as command lines.
   The second condition can only fail for an unknown word (every other head begins with a keyword,
   a command name of the palette or `$`): see [uheads_plain_no_unknown_quote]. *)
Fixpoint unode_plain (nd : node) : bool :=
  match nd with
  | Stmt c kids => negb (char_in nl c) && negb (startswith triple_quote c) && forallb unode_plain kids
  end.
Definition uheads_plain (p : list ustmt) : bool := forallb unode_plain (uforest_of p).

Lemma unode_plain_one_line : forall nd, unode_plain nd = true -> node_one_line nd = true.
Proof.
  apply (node_ind2 (fun nd => unode_plain nd = true -> node_one_line nd = true)).
  intros c kids IH H. cbn [unode_plain] in H. apply andb_true_iff in H. destruct H as [H Hk].
  apply andb_true_iff in H. destruct H as [Hc _]. cbn [node_one_line]. rewrite Hc. cbn [andb].
  apply forallb_forall. intros k Hin. rewrite Forall_forall in IH. rewrite forallb_forall in Hk.
  exact (IH k Hin (Hk k Hin)).
Qed.

Lemma uheads_plain_one_line : forall f, forallb unode_plain f = true -> forallb node_one_line f = true.
Proof.
  intros f H. apply forallb_forall. intros k Hin. rewrite forallb_forall in H.
  exact (unode_plain_one_line k (H k Hin)).
Qed.

Lemma forallb_app' : forall (A : Type) (f : A -> bool) a b, forallb f (a ++ b) = forallb f a && forallb f b.
Proof. intros A f a b. induction a as [|x a IH]; [reflexivity|]. cbn [app forallb]. rewrite IH, andb_assoc. reflexivity. Qed.

Lemma uheads_plain_cons : forall s r, uheads_plain (s :: r) = forallb unode_plain (ustmt_nodes s) && uheads_plain r.
Proof. intros s r. unfold uheads_plain, uforest_of. cbn [flat_map]. apply forallb_app'. Qed.

Definition first_plain (c : str) : Prop := match c with [] => False | x :: _ => isspace_c x = false end.

Lemma plain_content : forall c, first_plain c -> startswith triple_quote c = false -> wf_content c.
Proof. intros c H1 H2. split; assumption. Qed.

Definition ulines_wf (s : ustmt) : Prop :=
  uwf s -> forallb unode_plain (ustmt_nodes s) = true -> wf_forest (ustmt_nodes s).

Lemma ulines_wf_list : forall b, each ulines_wf b -> uwf_list b -> uheads_plain b = true -> wf_forest (uforest_of b).
Proof.
  induction b as [|s r IH]; intros Hl Hw Hp; [constructor|].
  destruct Hl as [Hs Hr]. destruct Hw as [Ws Wr]. rewrite uheads_plain_cons in Hp.
  apply andb_true_iff in Hp. destruct Hp as [Ps Pr]. unfold uforest_of. cbn [flat_map].
  apply wf_forest_app; [apply Hs; assumption|apply IH; assumption].
Qed.

Lemma leaf_plain : forall c, forallb unode_plain [Stmt c []] = true -> startswith triple_quote c = false.
Proof.
  intros c H. cbn [forallb unode_plain] in H. rewrite !andb_true_r in H.
  apply andb_true_iff in H. destruct H as [_ H]. apply negb_true_iff in H. exact H.
Qed.

Lemma block_plain : forall c kids, forallb unode_plain [Stmt c kids] = true ->
  startswith triple_quote c = false /\ forallb unode_plain kids = true.
Proof.
  intros c kids H. cbn [forallb unode_plain] in H. rewrite andb_true_r in H.
  apply andb_true_iff in H. destruct H as [H Hk]. apply andb_true_iff in H. destruct H as [_ H].
  apply negb_true_iff in H. split; assumption.
Qed.

Lemma uleaf : forall c, first_plain c -> forallb unode_plain [Stmt c []] = true -> wf_forest [Stmt c []].
Proof. intros c H1 H2. apply leaf_forest. apply plain_content; [exact H1|exact (leaf_plain c H2)]. Qed.

Lemma ublock : forall c b, first_plain c -> each ulines_wf b -> uwf_list b ->
  forallb unode_plain [Stmt c (uforest_of b)] = true -> wf_forest [Stmt c (uforest_of b)].
Proof.
  intros c b Hc Hl Hw Hp. destruct (block_plain _ _ Hp) as [Hq Hk].
  constructor; [|constructor]. constructor; [exact (plain_content c Hc Hq)|].
  exact (ulines_wf_list b Hl Hw Hk).
Qed.

Ltac kwp :=
  unfold if_head, repeat_head, while_head, func_head, run_head, print_head, print_eval_head, rem_head, start_head,
         kw_IF, kw_ELIF, kw_ELSE, kw_VAR, kw_REPEAT, kw_WHILE, kw_BREAKLOOP, kw_CONTINUELOOP,
         kw_FUNC, kw_RUN, kw_RETURN, kw_PRINT, kw_REM, dollar_c;
  cbn [app first_plain]; reflexivity.

Lemma word_first_plain : forall w rest, w <> [] -> ChainProofs.no_ws w -> first_plain (w ++ rest).
Proof.
  intros w rest Hne Hws. destruct w as [|c t]; [contradiction|]. cbn [app first_plain].
  unfold ChainProofs.no_ws in Hws. cbn [forallb] in Hws. apply andb_true_iff in Hws. destruct Hws as [Hc _].
  apply negb_true_iff in Hc. exact Hc.
Qed.

Lemma emit_first_plain : forall name text, emit_name_ok name = true -> first_plain (name ++ CoreLang.sp :: text).
Proof.
  intros name text H. destruct (emit_head_content name text H) as [H1 _]. exact H1.
Qed.

Theorem ustmt_lines_wf : forall s, ulines_wf s.
Proof.
  apply ustmt_ind2; unfold ulines_wf.
  - intros name text (Hn & _) Hp. apply uleaf; [apply emit_first_plain; exact Hn|exact Hp].
  - intros name e _ Hp. apply uleaf; [kwp|exact Hp].
  - intros x e _ Hp. apply uleaf; [kwp|exact Hp].
  - intros arms els Ha He Hwf. apply uwf_if_unfold in Hwf. destruct Hwf as (_ & Hwa & Hwe).
    rewrite ustmt_nodes_if.
    cut (forall first, forallb unode_plain (uarms_nodes_gen uforest_of els first arms) = true ->
                       wf_forest (uarms_nodes_gen uforest_of els first arms)); [intro HH; exact (HH true)|].
    induction arms as [|[c b] r IH]; intros first Hp.
    + cbn [uarms_nodes_gen] in Hp |- *. destruct els as [b|]; [|constructor]. destruct Hwe as [_ Hwb].
      apply ublock; [kwp|exact He|exact Hwb|exact Hp].
    + destruct Ha as [Hb Hr]. destruct Hwa as [(_ & _ & Hwb) Hwr]. cbn [uarms_nodes_gen] in Hp |- *.
      change (Stmt ?h (uforest_of b) :: ?rest) with ([Stmt h (uforest_of b)] ++ rest) in Hp |- *.
      rewrite forallb_app' in Hp. apply andb_true_iff in Hp. destruct Hp as [Hp1 Hp2].
      apply wf_forest_app; [|apply IH; assumption].
      apply ublock; [|exact Hb|exact Hwb|exact Hp1].
      destruct first; kwp.
  - intros c e b Hb (_ & _ & _ & Hwb) Hp. apply (ublock _ b); [kwp|exact Hb|exact Hwb|exact Hp].
  - intros c e b Hb (_ & _ & _ & Hwb) Hp. apply (ublock _ b); [kwp|exact Hb|exact Hwb|exact Hp].
  - intros _ Hp. apply uleaf; [kwp|exact Hp].
  - intros _ Hp. apply uleaf; [kwp|exact Hp].
  - intros name ps b Hb (_ & _ & _ & Hwb) Hp. apply (ublock _ b); [kwp|exact Hb|exact Hwb|exact Hp].
  - intros name args _ Hp. apply uleaf; [kwp|exact Hp].
  - intros _ Hp. apply uleaf; [kwp|exact Hp].
  - intros t _ Hp. apply uleaf; [kwp|exact Hp].
  - intros e _ Hp. apply uleaf; [kwp|exact Hp].
  - intros t _ Hp. apply uleaf; [kwp|exact Hp].
  - intros w a ((Hne & Hws & _) & _) Hp. apply uleaf; [|exact Hp].
    unfold unknown_head. apply word_first_plain; assumption.
  - intros k m _ Hp. apply uleaf; [|exact Hp]. destruct k; kwp.
Qed.

Theorem uwf_list_forest : forall p, uwf_list p -> uheads_plain p = true -> wf_forest (uforest_of p).
Proof. intros p H Hp. exact (ulines_wf_list p (each_intro _ _ ustmt_lines_wf p) H Hp). Qed.
