(* The dict invariant (no key twice in a table) is kept by the whole interpreter:
   every monadic action of Interp.v maps a state with a well-formed environment to one. *)
From Coq Require Import NArith ZArith List Bool Lia.
From DS Require Import Base PyStr Values Expr TabParse Tables Constants Interp ScopeProofs.
Import ListNotations.

Section Inv.
Variable fo : FloatOps.
Notation env_wf := (env_wf fo).
Notation s_env := (s_env fo).
Notation M := (M fo).
Notation bindM := (bindM fo).
Notation ret := (ret fo).

Definition pres {A} (m : M A) : Prop :=
  forall s s' r, env_wf (s_env s) -> m s = (s', r) -> env_wf (s_env s').

Lemma pres_ret : forall A (a : A), pres (ret a).
Proof. intros A a s s' r H E. injection E as <- _. exact H. Qed.

Lemma pres_raise : forall cx cur A e, pres (@raise fo cx cur A e).
Proof. intros cx cur A e s s' r H E. injection E as <- _. exact H. Qed.

Lemma pres_crash : forall A k, pres (@crash fo A k).
Proof. intros A k s s' r H E. injection E as <- _. exact H. Qed.

Lemma pres_unmod : forall A, pres (@unmod fo A).
Proof. intros A s s' r H E. injection E as <- _. exact H. Qed.

Lemma pres_lift : forall cx cur A (x : res A), pres (lift fo cx cur x).
Proof. intros cx cur A x s s' r H E. apply lift_state in E. subst. exact H. Qed.

Lemma pres_bind : forall A B (m : M A) (f : A -> M B),
  pres m -> (forall a, pres (f a)) -> pres (bindM m f).
Proof.
  intros A B m f Hm Hf s s' r H E. unfold Interp.bindM in E.
  destruct (m s) as [s1 [a| | |]] eqn:Em; pose proof (Hm _ _ _ H Em) as H1.
  - eapply Hf; eassumption.
  - injection E as <- _. exact H1.
  - injection E as <- _. exact H1.
  - injection E as <- _. exact H1.
Qed.

Lemma pres_bind_get : forall B (f : env fo -> M B),
  (forall e, env_wf e -> pres (f e)) -> pres (bindM (get_env fo) f).
Proof. intros B f Hf s s' r H E. unfold Interp.bindM, get_env in E. eapply Hf; eassumption. Qed.

Lemma pres_set_env : forall e, env_wf e -> pres (set_env fo e).
Proof. intros e He s s' r H E. injection E as <- _. exact He. Qed.

Lemma pres_set_line2 : forall l, pres (set_line2 fo l).
Proof. intros l s s' r H E. injection E as <- _. exact H. Qed.

Lemma pres_mod_glob : forall f, pres (mod_glob fo f).
Proof. intros f s s' r H E. injection E as <- _. exact H. Qed.

Lemma pres_warn : forall cx cur t, pres (warn fo cx cur t).
Proof. intros cx cur t s s' r H E. injection E as <- _. exact H. Qed.

Lemma pres_tokenizeM : forall cx cur a, pres (tokenizeM fo cx cur a).
Proof. intros cx cur a s s' r H E. apply tokenizeM_state in E. subst. exact H. Qed.

Lemma pres_run_child_with : forall child cx cur code file parallel setup pre,
  pres (run_child_with fo child cx cur code file parallel setup pre).
Proof. intros child cx cur code file parallel setup pre s s' r H E. eapply run_child_with_wf; eassumption. Qed.

Ltac pres_step :=
  first
    [ apply pres_ret | apply pres_raise | apply pres_crash | apply pres_unmod | apply pres_lift
    | apply pres_set_line2 | apply pres_mod_glob | apply pres_warn | apply pres_tokenizeM
    | apply pres_run_child_with
    | assumption
    | apply pres_bind_get; intros ? ?
    | apply pres_bind; [|intros ?]
    | match goal with
      | |- pres (if ?b then _ else _) => destruct b
      | |- pres (match ?x with _ => _ end) => destruct x
      | |- pres (let '(_, _) := ?x in _) => destruct x
      end ].
Ltac pres_tac := repeat pres_step.

Lemma pres_run_child : forall child cx cur code file parallel setup,
  pres (run_child fo child cx cur code file parallel setup).
Proof. intros. unfold run_child. pres_tac. Qed.

Lemma pres_new_var : forall cx cur name v, pres (new_var fo cx cur name v).
Proof.
  intros. unfold new_var. pres_tac. apply pres_set_env. apply env_wf_upd_user. assumption.
Qed.

Lemma pres_listify_args : forall cx cur argument code_block num, pres (listify_args fo cx cur argument code_block num).
Proof. intros. unfold listify_args. pres_tac. Qed.

Lemma pres_evaluate_args : forall cx cur at_ args, pres (evaluate_args fo cx cur at_ args).
Proof. intros cx cur at_ args. induction args as [|l r IH]; cbn [evaluate_args]; pres_tac. Qed.

Lemma pres_check_types : forall cx cur at_ args, pres (check_types fo cx cur at_ args).
Proof. intros cx cur at_ args. induction args as [|[l oc] r IH]; cbn [check_types]; pres_tac. Qed.

Lemma pres_verify_each : forall cx cur params v args, pres (verify_each fo cx cur params v args).
Proof. intros cx cur params v args. induction args as [|l r IH]; cbn [verify_each]; pres_tac. Qed.

Lemma pres_verify_plural : forall cx cur pv n, pres (verify_plural fo cx cur pv n).
Proof. intros. unfold verify_plural. pres_tac. Qed.

Lemma pres_format_each : forall cx cur params f args, pres (format_each fo cx cur params f args).
Proof. intros cx cur params f args. induction args as [|l r IH]; cbn [format_each]; pres_tac. Qed.

Lemma pres_add_plain_warning : forall t, pres (add_plain_warning fo t).
Proof. intros. unfold add_plain_warning. pres_tac. Qed.

Lemma pres_check_flipper : forall cx cur b, pres (check_flipper fo cx cur b).
Proof. intros. unfold check_flipper. pres_tac. Qed.

Lemma pres_run_compile : forall child cx cur cname sc name arg,
  pres (run_compile fo child cx cur cname sc name arg).
Proof.
  intros child cx cur cname sc name arg. unfold run_compile.
  destruct (s_run sc).
  - pres_tac.
  - pres_tac.
  - pres_tac.
  - pres_tac.
  - pres_tac. apply pres_set_env. apply env_wf_upd_sys. assumption.
  - pres_tac.
  - pres_tac.
  - pres_tac.
  - pres_tac.
  - pres_tac.
  - (* RUN *)
    destruct arg as [l|]; [|pres_tac].
    destruct (break_arg _) as [fname var_string].
    apply pres_bind; [pres_tac|intros vals].
    apply pres_bind_get; intros e He.
    destruct (lookup fname (e_funcs fo e)) as [f|]; [|pres_tac].
    destruct (negb _); [pres_tac|].
    apply pres_bind; [apply pres_run_child|intros cr]. pres_tac.
  - pres_tac. apply pres_new_var.
  - pres_tac.
  - pres_tac.
  - (* START *)
    destruct arg as [l|]; [|pres_tac]. destruct (c_file cx) as [file|]; [|pres_tac].
    apply pres_bind; [pres_tac|intros target].
    destruct (c_fs cx target) as [text|]; [|pres_tac].
    intros s s' r H E.
    destruct (existsb _ _); [injection E as <- _; exact H|].
    destruct (prepare_text text) as [commands|[| | | |]]; try (injection E as <- _; exact H).
    match type of E with ?m s = _ => assert (Hp : pres m) end; [|exact (Hp s s' r H E)].
    apply pres_bind; [apply pres_run_child|intros cr].
    apply pres_bind; [destruct (s_sig_warning _); [apply pres_add_plain_warning|pres_tac]|intros u].
    pres_tac.
Qed.

Lemma pres_multi_comp : forall child cx cur cname tg sc name args acc,
  pres (multi_comp fo child cx cur cname tg sc name args acc).
Proof.
  intros child cx cur cname tg sc name args. induction args as [|a r IH]; intro acc; cbn [multi_comp].
  - pres_tac.
  - apply pres_bind; [pres_tac|intros u].
    apply pres_bind; [apply pres_run_compile|intros c]. apply IH.
Qed.

Lemma pres_simple_compile : forall child cx cur cname tg sc cmd num argument code_block,
  pres (simple_compile fo child cx cur cname tg sc cmd num argument code_block).
Proof.
  intros. unfold simple_compile.
  apply pres_bind; [apply pres_check_flipper|intros u0].
  apply pres_bind; [apply pres_listify_args|intros args0].
  apply pres_bind.
  { destruct (_ || _); [|pres_tac].
    apply pres_bind; [apply pres_evaluate_args|intros vs].
    induction vs as [|[l v] r IH]; pres_tac. }
  intros args2.
  apply pres_bind; [pres_tac|intros u1].
  apply pres_bind; [apply pres_check_types|intros args3].
  apply pres_bind; [apply pres_verify_plural|intros u2].
  apply pres_bind; [apply pres_verify_each|intros u3].
  apply pres_bind; [apply pres_format_each|intros args4].
  apply pres_multi_comp.
Qed.

Lemma pres_tokenize_count : forall cx cur a, pres (tokenize_count fo cx cur a).
Proof. intros. unfold tokenize_count. pres_tac. Qed.

Lemma pres_repeat_loop : forall child cx cur fuel v a code count acc,
  pres (repeat_loop fo child cx cur fuel v a code count acc).
Proof.
  intros child cx cur fuel. induction fuel as [|f IH]; intros v a code count acc; cbn [repeat_loop].
  - apply pres_bind; [apply pres_tokenize_count|intros n]. pres_tac.
  - apply pres_bind; [apply pres_tokenize_count|intros n].
    destruct (count <? n)%Z; [|pres_tac].
    apply pres_bind; [apply pres_run_child|intros cr].
    destruct (loop_signal _) as [sg brk]. destruct brk; [pres_tac|apply IH].
Qed.

Lemma pres_while_loop : forall child cx cur fuel v a code count acc,
  pres (while_loop fo child cx cur fuel v a code count acc).
Proof.
  intros child cx cur fuel. induction fuel as [|f IH]; intros v a code count acc; cbn [while_loop].
  - pres_tac.
  - destruct (cmp_eval _ _ _); [pres_tac|].
    apply pres_bind; [apply pres_run_child_with|intros [cr|]]; [|pres_tac].
    destruct (loop_signal _) as [sg brk]. destruct brk; [pres_tac|apply IH].
Qed.

Lemma pres_get_temp_flag : pres (get_temp_flag fo).
Proof. unfold get_temp_flag. pres_tac. Qed.

Lemma pres_set_temp_flag : forall b, pres (set_temp_flag fo b).
Proof. intros. unfold set_temp_flag. pres_tac. apply pres_set_env. apply env_wf_upd_temp. assumption. Qed.

Lemma pres_block_compile : forall child cx cur bc cname cmd num argument code_block,
  pres (block_compile fo child cx cur bc cname cmd num argument code_block).
Proof.
  intros. unfold block_compile.
  apply pres_bind; [apply pres_check_flipper|intros u0].
  apply pres_bind; [pres_tac|intros u1].
  set (arg' := if b_strip_arg bc then _ else _). clearbody arg'.
  destruct (b_kind bc).
  - apply pres_bind_get; intros e He.
    apply pres_bind; [destruct (has_key _ _); [pres_tac|apply pres_set_temp_flag]|intros u2].
    apply pres_bind; [pres_tac|intros u3].
    apply pres_bind; [pres_tac|intros tok].
    apply pres_bind; [apply pres_get_temp_flag|intros flag].
    apply pres_bind.
    { destruct (str_eqb _ _); [|pres_tac]. apply pres_bind; [apply pres_set_temp_flag|intros u4]. pres_tac. }
    intros skip. destruct skip; [pres_tac|]. destruct (_ && _); [pres_tac|].
    apply pres_bind; [apply pres_set_temp_flag|intros u5].
    apply pres_bind; [apply pres_run_child|intros cr]. pres_tac.
  - pres_tac.
  - destruct arg' as [a|]; [|pres_tac]. destruct (split_loop_arg a) as [var_name count_expr].
    destruct (match code_block with Some b => b | None => [] end); [pres_tac|].
    destruct (match var_name with Some v => _ | None => _ end); [|pres_tac].
    apply pres_bind; [apply pres_repeat_loop|intros cr]. pres_tac.
  - destruct arg' as [a|]; [|pres_tac]. destruct (split_loop_arg a) as [var_name cond].
    apply pres_bind; [apply pres_while_loop|intros cr]. pres_tac.
  - destruct arg' as [a|]; [|pres_tac]. destruct (break_arg a) as [fname var_string].
    destruct (_ && _); [|pres_tac].
    apply pres_bind_get; intros e He.
    apply pres_bind; [apply pres_set_env; apply env_wf_upd_funcs; exact He|intros u2]. pres_tac.
Qed.

Lemma pres_exec_line : forall child cx c n code_block, pres (exec_line fo child cx c n code_block).
Proof.
  intros. unfold exec_line.
  destruct (split_ws1 c) as [|cmd more]; [pres_tac|].
  destruct (find_command _ _ _) as [[cname cl]|].
  - destruct (_ && _); [pres_tac|]. destruct cl as [sc|bc].
    + apply pres_simple_compile.
    + apply pres_bind; [apply pres_block_compile|intros r]. pres_tac.
  - apply pres_bind; [pres_tac|intros u]. apply pres_simple_compile.
Qed.

Theorem pres_exec_cmds : forall child cx cmds acc, pres (exec_cmds fo child cx cmds acc).
Proof.
  intros child cx cmds. induction cmds as [|[c n|b] rest IH]; intro acc; cbn [exec_cmds].
  - pres_tac.
  - destruct (is_blank c); [apply IH|].
    apply pres_bind; [pres_tac|intros u].
    apply pres_bind; [apply pres_exec_line|intros cr].
    destruct (cr_sig cr); try apply IH; pres_tac.
  - apply IH.
Qed.

(* a stack started on a well-formed environment ends with one, whatever the runner above it does *)
Theorem run_with_wf : forall child cx g e cmds g' cr e',
  env_wf e -> run_with fo child cx g e cmds = (g', IOk _ (cr, e')) -> env_wf e'.
Proof.
  intros child cx g e cmds g' cr e' He H. unfold run_with in H.
  destruct (exec_cmds _ _ _ _ _ _) as [s [c| | |]] eqn:E; try discriminate.
  injection H as _ _ <-. eapply (pres_exec_cmds _ _ _ _ _ _ _ _ E). Unshelve. exact He.
Qed.

Theorem run_wf : forall d cx g e cmds g' cr e',
  env_wf e -> run fo d cx g e cmds = (g', IOk _ (cr, e')) -> env_wf e'.
Proof. intros d. destruct d; cbn [run]; intros; eapply run_with_wf; eassumption. Qed.

Theorem compile_items_wf : forall o fs file cmds g c,
  compile_items fo o fs file cmds = (g, IOk _ c) -> env_wf (final_env fo c).
Proof.
  intros o fs file cmds g c H. unfold compile_items in H.
  destruct (run _ _ _ _ _ _) as [g0 [[cr e]| | |]] eqn:E; try discriminate.
  injection H as _ <-. cbn. eapply run_wf; [|exact E]. apply env_wf_initial.
Qed.

(* the environment handed to a child stack is well formed, for every setup the model uses,
   WHATEVER the parent's environment is *)
Definition setup_wf (setup : env fo -> res (env fo)) : Prop :=
  forall e e', env_wf e -> setup e = Ok e' -> env_wf e'.

Lemma setup_wf_id : setup_wf (fun e => Ok e).
Proof. intros e e' He H. injection H as <-. exact He. Qed.

Lemma setup_wf_bind_counter : forall v count, setup_wf (bind_counter fo v count).
Proof.
  intros v count e e' He H. unfold bind_counter in H. destruct v as [v|]; [|injection H as <-; exact He].
  destruct (is_var v false); [|discriminate]. injection H as <-. apply env_wf_upd_user. exact He.
Qed.

Lemma setup_wf_run_params : forall (args : list str) (vals : list (value fo)),
  setup_wf (fun ce => Ok (mkEnv fo (e_sys fo ce)
                            (fold_left (fun u nv => upd (fst nv) (snd nv) u) (combine args vals) (e_user fo ce))
                            (e_temp fo ce) (e_funcs fo ce))).
Proof. intros args vals e e' He H. injection H as <-. apply env_wf_upd_all_user. exact He. Qed.

Theorem child_starts_wf :
  forall child cx cur code file setup pre s s' cr,
  setup_wf setup ->
  run_child_with fo child cx cur code file false setup pre s = (s', IOk _ (Some cr)) ->
  exists cx' g cenv1 g' cenv2,
    child cx' g cenv1 code = (g', IOk _ (cr, cenv2)) /\ env_wf cenv1.
Proof.
  intros child cx cur code file setup pre s s' cr Hsetup H.
  apply run_child_with_inv in H. destruct H as (cenv1 & Hs & [(Hr & _)|(cr' & g' & cenv2 & Hr & _ & Hchild & _)]).
  - discriminate.
  - injection Hr as <-. do 5 eexists. split; [exact Hchild|].
    eapply Hsetup; [|exact Hs]. apply env_wf_entry.
Qed.

(* ------------------------------------------------------------------ no stack is ever started on an
   ill-formed environment: the interpreter cannot tell two runners apart that agree on the
   well-formed ones *)
Definition agree (c1 c2 : runner fo) : Prop :=
  forall cx g e code, env_wf e -> c1 cx g e code = c2 cx g e code.

Definition eqm {A} (m1 m2 : M A) : Prop := forall s, env_wf (s_env s) -> m1 s = m2 s.

Lemma eqm_refl : forall A (m : M A), eqm m m.
Proof. intros A m s H. reflexivity. Qed.

Lemma eqm_bind : forall A B (m1 m2 : M A) (f1 f2 : A -> M B),
  eqm m1 m2 -> pres m1 -> (forall a, eqm (f1 a) (f2 a)) -> eqm (bindM m1 f1) (bindM m2 f2).
Proof.
  intros A B m1 m2 f1 f2 Hm Hp Hf s H. unfold Interp.bindM. rewrite <- (Hm s H).
  destruct (m1 s) as [s1 [a| | |]] eqn:E; try reflexivity.
  apply Hf. eapply Hp; eassumption.
Qed.

Lemma eqm_bind_get : forall B (f1 f2 : env fo -> M B),
  (forall e, env_wf e -> eqm (f1 e) (f2 e)) -> eqm (bindM (get_env fo) f1) (bindM (get_env fo) f2).
Proof. intros B f1 f2 Hf s H. unfold Interp.bindM, get_env. apply Hf; exact H. Qed.

Section Agree.
Variables c1 c2 : runner fo.
Hypothesis Hagree : agree c1 c2.

Lemma eqm_run_child_with : forall cx cur code file parallel setup pre,
  setup_wf setup ->
  eqm (run_child_with fo c1 cx cur code file parallel setup pre)
      (run_child_with fo c2 cx cur code file parallel setup pre).
Proof.
  intros cx cur code file parallel setup pre Hsetup s H. unfold run_child_with.
  destruct (cmp_eval _ _ _); [reflexivity|].
  destruct (setup _) as [cenv1| | |] eqn:Es; try reflexivity.
  destruct (pre cenv1) as [[|]| | |]; try reflexivity.
  rewrite Hagree; [reflexivity|]. eapply Hsetup; [|exact Es]. apply env_wf_entry.
Qed.

Lemma eqm_run_child : forall cx cur code file parallel setup,
  setup_wf setup ->
  eqm (run_child fo c1 cx cur code file parallel setup) (run_child fo c2 cx cur code file parallel setup).
Proof.
  intros cx cur code file parallel setup Hsetup. unfold run_child.
  apply eqm_bind; [apply eqm_run_child_with; exact Hsetup|apply pres_run_child_with|intros a; apply eqm_refl].
Qed.

Lemma eqm_run_compile : forall cx cur cname sc name arg,
  eqm (run_compile fo c1 cx cur cname sc name arg) (run_compile fo c2 cx cur cname sc name arg).
Proof.
  intros cx cur cname sc name arg. unfold run_compile.
  destruct (s_run sc); try apply eqm_refl.
  - (* RUN *)
    destruct arg as [l|]; [|apply eqm_refl].
    destruct (break_arg _) as [fname var_string].
    apply eqm_bind; [apply eqm_refl|pres_tac|intros vals].
    apply eqm_bind_get; intros e He.
    destruct (lookup fname (e_funcs fo e)) as [f|]; [|apply eqm_refl].
    destruct (negb _); [apply eqm_refl|].
    apply eqm_bind; [apply eqm_run_child; apply setup_wf_run_params|apply pres_run_child|intros cr; apply eqm_refl].
  - (* START *)
    destruct arg as [l|]; [|apply eqm_refl]. destruct (c_file cx) as [file|]; [|apply eqm_refl].
    apply eqm_bind; [apply eqm_refl|pres_tac|intros target].
    destruct (c_fs cx target) as [text|]; [|apply eqm_refl].
    intros s H.
    destruct (existsb _ _); [reflexivity|].
    destruct (prepare_text text) as [commands|[| | | |]]; try reflexivity.
    match goal with |- ?m1 s = ?m2 s => assert (Hp : eqm m1 m2) end; [|exact (Hp s H)].
    apply eqm_bind; [apply eqm_run_child; apply setup_wf_id|apply pres_run_child|intros cr; apply eqm_refl].
Qed.

Lemma eqm_multi_comp : forall cx cur cname tg sc name args acc,
  eqm (multi_comp fo c1 cx cur cname tg sc name args acc) (multi_comp fo c2 cx cur cname tg sc name args acc).
Proof.
  intros cx cur cname tg sc name args. induction args as [|a r IH]; intro acc; cbn [multi_comp].
  - apply eqm_refl.
  - apply eqm_bind; [apply eqm_refl|pres_tac|intros u].
    apply eqm_bind; [apply eqm_run_compile|apply pres_run_compile|intros c]. apply IH.
Qed.

Lemma eqm_simple_compile : forall cx cur cname tg sc cmd num argument code_block,
  eqm (simple_compile fo c1 cx cur cname tg sc cmd num argument code_block)
      (simple_compile fo c2 cx cur cname tg sc cmd num argument code_block).
Proof.
  intros. unfold simple_compile.
  apply eqm_bind; [apply eqm_refl|apply pres_check_flipper|intros u0].
  apply eqm_bind; [apply eqm_refl|apply pres_listify_args|intros args0].
  apply eqm_bind; [apply eqm_refl| |].
  { destruct (_ || _); [|pres_tac].
    apply pres_bind; [apply pres_evaluate_args|intros vs].
    induction vs as [|[l v] r IH]; pres_tac. }
  intros args2.
  apply eqm_bind; [apply eqm_refl|pres_tac|intros u1].
  apply eqm_bind; [apply eqm_refl|apply pres_check_types|intros args3].
  apply eqm_bind; [apply eqm_refl|apply pres_verify_plural|intros u2].
  apply eqm_bind; [apply eqm_refl|apply pres_verify_each|intros u3].
  apply eqm_bind; [apply eqm_refl|apply pres_format_each|intros args4].
  apply eqm_multi_comp.
Qed.

Lemma eqm_repeat_loop : forall cx cur fuel v a code count acc,
  eqm (repeat_loop fo c1 cx cur fuel v a code count acc) (repeat_loop fo c2 cx cur fuel v a code count acc).
Proof.
  intros cx cur fuel. induction fuel as [|f IH]; intros v a code count acc; cbn [repeat_loop].
  - apply eqm_refl.
  - apply eqm_bind; [apply eqm_refl|apply pres_tokenize_count|intros n].
    destruct (count <? n)%Z; [|apply eqm_refl].
    apply eqm_bind; [apply eqm_run_child; apply setup_wf_bind_counter|apply pres_run_child|intros cr].
    destruct (loop_signal _) as [sg brk]. destruct brk; [apply eqm_refl|apply IH].
Qed.

Lemma eqm_while_loop : forall cx cur fuel v a code count acc,
  eqm (while_loop fo c1 cx cur fuel v a code count acc) (while_loop fo c2 cx cur fuel v a code count acc).
Proof.
  intros cx cur fuel. induction fuel as [|f IH]; intros v a code count acc; cbn [while_loop].
  - apply eqm_refl.
  - destruct (cmp_eval _ _ _); [apply eqm_refl|].
    apply eqm_bind; [apply eqm_run_child_with; apply setup_wf_bind_counter|apply pres_run_child_with|intros [cr|]];
      [|apply eqm_refl].
    destruct (loop_signal _) as [sg brk]. destruct brk; [apply eqm_refl|apply IH].
Qed.

Lemma eqm_block_compile : forall cx cur bc cname cmd num argument code_block,
  eqm (block_compile fo c1 cx cur bc cname cmd num argument code_block)
      (block_compile fo c2 cx cur bc cname cmd num argument code_block).
Proof.
  intros. unfold block_compile.
  apply eqm_bind; [apply eqm_refl|apply pres_check_flipper|intros u0].
  apply eqm_bind; [apply eqm_refl|pres_tac|intros u1].
  set (arg' := if b_strip_arg bc then _ else _). clearbody arg'.
  generalize loop_fuel; intro fuel.
  destruct (b_kind bc).
  - apply eqm_bind_get; intros e He.
    apply eqm_bind; [apply eqm_refl|destruct (has_key _ _); [pres_tac|apply pres_set_temp_flag]|intros u2].
    apply eqm_bind; [apply eqm_refl|pres_tac|intros u3].
    apply eqm_bind; [apply eqm_refl|pres_tac|intros tok].
    apply eqm_bind; [apply eqm_refl|apply pres_get_temp_flag|intros flag].
    apply eqm_bind; [apply eqm_refl| |].
    { destruct (str_eqb _ _); [|pres_tac]. apply pres_bind; [apply pres_set_temp_flag|intros u4]. pres_tac. }
    intros skip. destruct skip; [apply eqm_refl|]. destruct (_ && _); [apply eqm_refl|].
    apply eqm_bind; [apply eqm_refl|apply pres_set_temp_flag|intros u5].
    apply eqm_bind; [apply eqm_run_child; apply setup_wf_id|apply pres_run_child|intros cr; apply eqm_refl].
  - apply eqm_refl.
  - destruct arg' as [a|]; [|apply eqm_refl]. destruct (split_loop_arg a) as [var_name count_expr].
    destruct (match code_block with Some b => b | None => [] end); [apply eqm_refl|].
    destruct (match var_name with Some v => _ | None => _ end); [|apply eqm_refl].
    apply eqm_bind; [apply eqm_repeat_loop|apply pres_repeat_loop|intros cr; apply eqm_refl].
  - destruct arg' as [a|]; [|apply eqm_refl]. destruct (split_loop_arg a) as [var_name cond].
    apply eqm_bind; [apply eqm_while_loop|apply pres_while_loop|intros cr; apply eqm_refl].
  - apply eqm_refl.
Qed.

Lemma eqm_exec_line : forall cx c n code_block,
  eqm (exec_line fo c1 cx c n code_block) (exec_line fo c2 cx c n code_block).
Proof.
  intros. unfold exec_line.
  destruct (split_ws1 c) as [|cmd more]; [apply eqm_refl|].
  destruct (find_command _ _ _) as [[cname cl]|].
  - destruct (_ && _); [apply eqm_refl|]. destruct cl as [sc|bc].
    + apply eqm_simple_compile.
    + apply eqm_bind; [apply eqm_block_compile|apply pres_block_compile|intros r; apply eqm_refl].
  - apply eqm_bind; [apply eqm_refl|pres_tac|intros u]. apply eqm_simple_compile.
Qed.

Lemma eqm_exec_cmds : forall cx cmds acc, eqm (exec_cmds fo c1 cx cmds acc) (exec_cmds fo c2 cx cmds acc).
Proof.
  intros cx cmds. induction cmds as [|[c n|b] rest IH]; intro acc; cbn [exec_cmds].
  - apply eqm_refl.
  - destruct (is_blank c); [apply IH|].
    apply eqm_bind; [apply eqm_refl|pres_tac|intros u].
    apply eqm_bind; [apply eqm_exec_line|apply pres_exec_line|intros cr].
    destruct (cr_sig cr); try apply IH; apply eqm_refl.
  - apply IH.
Qed.

Lemma agree_run_with : agree (run_with fo c1) (run_with fo c2).
Proof.
  intros cx g e code He. unfold run_with. rewrite (eqm_exec_cmds cx code [] (mkSt fo g e None) He). reflexivity.
Qed.

End Agree.

(* the interpreter with an arbitrary behaviour [bad] substituted for every stack that would be started
   on an ill-formed environment *)
Definition guard (wfb : env fo -> bool) (bad child : runner fo) : runner fo :=
  fun cx g e code => if wfb e then child cx g e code else bad cx g e code.

Fixpoint run_guarded (wfb : env fo -> bool) (bad : runner fo) (d : nat) : runner fo :=
  guard wfb bad (run_with fo (match d with O => no_child fo | S d' => run_guarded wfb bad d' end)).

Theorem run_never_starts_ill_formed :
  forall (wfb : env fo -> bool) (bad : runner fo),
  (forall e, env_wf e -> wfb e = true) ->
  forall d, agree (run fo d) (run_guarded wfb bad d).
Proof.
  intros wfb bad Hwfb d. induction d as [|d IH]; intros cx g e code He; cbn [run run_guarded]; unfold guard;
    rewrite (Hwfb e He).
  - reflexivity.
  - apply agree_run_with; assumption.
Qed.

(* a boolean test of the invariant, so that the guard above can be the real thing *)
Fixpoint nodupb (l : list str) : bool :=
  match l with [] => true | x :: r => negb (str_in x r) && nodupb r end.

Lemma str_in_In : forall x l, str_in x l = true <-> In x l.
Proof.
  intros x l. induction l as [|y r IH]; cbn [str_in In]; [split; [discriminate|intros []]|].
  rewrite orb_true_iff, IH, str_eqb_eq. split; intros [H|H]; auto.
Qed.

Lemma nodupb_spec : forall l, nodupb l = true <-> NoDup l.
Proof.
  induction l as [|x r IH]; cbn [nodupb]; [split; [constructor|reflexivity]|].
  rewrite andb_true_iff, negb_true_iff, IH. split.
  - intros [Hx Hr]. constructor; [|exact Hr]. intro Hin. apply str_in_In in Hin. congruence.
  - intro H. inversion H as [|a b Hx Hr]; subst. split; [|exact Hr].
    destruct (str_in x r) eqn:E; [|reflexivity]. apply str_in_In in E. contradiction.
Qed.

Definition env_wfb (e : env fo) : bool :=
  nodupb (map fst (e_sys fo e)) && nodupb (map fst (e_user fo e)) &&
  nodupb (map fst (e_temp fo e)) && nodupb (map fst (e_funcs fo e)).

Lemma env_wfb_spec : forall e, env_wfb e = true <-> env_wf e.
Proof.
  intro e. unfold env_wfb, ScopeProofs.env_wf, nodup_keys.
  rewrite !andb_true_iff, !nodupb_spec. tauto.
Qed.

Theorem run_guarded_eq : forall bad d cx g e code,
  env_wf e -> run fo d cx g e code = run_guarded env_wfb bad d cx g e code.
Proof.
  intros bad d cx g e code He. apply run_never_starts_ill_formed; [|exact He].
  intros e' He'. apply env_wfb_spec. exact He'.
Qed.

End Inv.
