(* C06 at the level of Stack.run: a REPEAT / WHILE line followed by its block runs the loop of
   Interp.v with [loop_fuel] fuel, appends what the loop emitted, and goes on with the commands
   after the block unless the loop was left by RETURN.  Together with LoopUnroll.v: BREAK ends
   this loop only (the enclosing stack continues), output before the break is kept. *)
From Coq Require Import NArith ZArith List Bool Lia.
From DS Require Import Base PyStr Values Expr TabParse Tables Constants Interp ScopeProofs LimitProofs.
From DS Require Import ChainProofs LoopUnroll.
Import ListNotations.

Definition s_WHILE : str := [87;72;73;76;69]%N.
Definition s_Repeat : str := [82;101;112;101;97;116]%N.
Definition s_While : str := [87;104;105;108;101]%N.

Lemma norm_arg_lstrip : forall c, is_blank c = false -> norm_arg (lstrip c) = strip c.
Proof.
  intros c Hb. unfold is_blank in Hb. unfold norm_arg. destruct (lstrip c) as [|x r] eqn:E; [discriminate|].
  rewrite <- E. unfold strip. rewrite lstrip_idem'. reflexivity.
Qed.

Lemma kw_split : forall kw c, kw <> [] -> no_ws kw -> is_blank c = false ->
  split_ws1 (kw ++ 32%N :: c) = [kw; lstrip c].
Proof.
  intros kw c H1 H2 Hb. rewrite (split_ws1_kw kw c H1 H2).
  unfold is_blank in Hb. destruct (lstrip c); [discriminate|reflexivity].
Qed.

(* the generated palette: REPEAT / WHILE followed by a non-empty block *)
Definition is_repeat_class (bc : block_cls) : Prop :=
  b_kind bc = BKRepeat /\ b_arg_req bc = Required /\ b_strip_arg bc = true /\ b_flipper_only bc = false.
Definition is_while_class (bc : block_cls) : Prop :=
  b_kind bc = BKWhile /\ b_arg_req bc = Required /\ b_strip_arg bc = true /\ b_flipper_only bc = false.

Lemma repeat_dispatch :
  exists bc, is_repeat_class bc /\
    forall i r, find_command palette s_REPEAT (Some (i :: r)) = Some (s_Repeat, Block bc).
Proof.
  eexists. split; [|intros i r; vm_compute; reflexivity]. repeat split.
Qed.

Lemma while_dispatch :
  exists bc, is_while_class bc /\
    forall i r, find_command palette s_WHILE (Some (i :: r)) = Some (s_While, Block bc).
Proof.
  eexists. split; [|intros i r; vm_compute; reflexivity]. repeat split.
Qed.

Section LoopLine.
Variable fo : FloatOps.
Variable child : runner fo.
Variable cx : ctx.

Notation exec_cmds := (exec_cmds fo child cx).
Notation block_compile := (block_compile fo child cx).
Notation after_branch := (after_branch fo child cx).
Notation clear_line2 := (clear_line2 fo).

(* a line claimed by a block class, followed by its block *)
Lemma block_line_step : forall c n b tail acc s cmd more cname bc,
  split_ws1 c = cmd :: more -> find_command palette cmd (Some b) = Some (cname, Block bc) ->
  exec_cmds (Ln c n :: Blk b :: tail) acc s =
  bindM fo (block_compile (c, n) bc cname cmd n (match more with a :: _ => Some a | [] => None end) (Some b))
    (fun r => match r with
              | RNone => exec_cmds tail acc
              | RLines ls => exec_cmds tail (acc ++ map (mkO (ByCommand cname)) ls)
              | RComp cr => after_branch tail acc cr
              end) (clear_line2 s).
Proof.
  intros c n b tail acc s cmd more cname bc Hsp Hfind.
  cbn [Interp.exec_cmds].
  assert (Hb : is_blank c = false) by (apply is_blank_split; rewrite Hsp; discriminate).
  rewrite Hb. unfold bindM at 1. unfold set_line2 at 1. fold (clear_line2 s).
  unfold Interp.exec_line. rewrite Hsp, Hfind. cbn [is_start_class andb].
  unfold bindM.
  destruct (Interp.block_compile _ _ _ _ _ _ _ _ _ _ (clear_line2 s)) as [s1 [r| | |]]; try reflexivity.
  destruct r as [|ls|cr]; unfold ret.
  - cbn [cr_data cr_sig]. rewrite app_nil_r. reflexivity.
  - cbn [cr_data cr_sig]. reflexivity.
  - unfold ChainProofs.after_branch. destruct (cr_sig cr); reflexivity.
Qed.

Definition counter_ok (var_name : option str) : Prop :=
  match var_name with Some v => is_var v false = true | None => True end.

(* REPEAT [var,]count  +  block *)
Theorem repeat_line_lemma : forall a n body rest acc s var_name count_expr,
  is_blank a = false -> body <> [] ->
  split_loop_arg (strip a) = (var_name, count_expr) -> counter_ok var_name ->
  exec_cmds (Ln (s_REPEAT ++ 32%N :: a) n :: Blk body :: rest) acc s =
  bindM fo (repeat_loop fo child cx (s_REPEAT ++ 32%N :: a, n) loop_fuel var_name count_expr body 0
                        (mkCret [] SNormal))
        (after_branch rest acc) (clear_line2 s).
Proof.
  intros a n body rest acc s var_name count_expr Ha Hbody Hsplit Hvar.
  destruct repeat_dispatch as [bc [(Hk & Hreq & Hstrip & Hflip) Hd]].
  destruct body as [|i r]; [contradiction|].
  assert (Hsp : split_ws1 (s_REPEAT ++ 32%N :: a) = [s_REPEAT; lstrip a]).
  { apply kw_split; [discriminate|vm_compute; reflexivity|exact Ha]. }
  assert (Hs : strip (lstrip a) = strip a) by (unfold strip; rewrite lstrip_idem'; reflexivity).
  unfold is_blank in Ha. destruct (lstrip a) as [|x t] eqn:El; [discriminate Ha|].
  rewrite (block_line_step _ n (i :: r) rest acc s s_REPEAT [x :: t] s_Repeat bc Hsp (Hd i r)).
  unfold Interp.block_compile. rewrite Hk, Hreq, Hstrip, Hflip.
  unfold check_flipper. cbn [andb option_map]. cbv iota. rewrite Hs, Hsplit.
  assert (Hv : match var_name with Some v => is_var v false | None => true end = true).
  { destruct var_name; [exact Hvar|reflexivity]. }
  rewrite Hv.
  unfold bindM, ret.
  destruct (Interp.repeat_loop _ _ _ _ _ _ _ _ _ _ (clear_line2 s)) as [s1 [cr| | |]]; reflexivity.
Qed.

(* WHILE [var,]cond  +  block *)
Theorem while_line_lemma : forall a n body rest acc s var_name cond,
  is_blank a = false -> body <> [] ->
  split_loop_arg (strip a) = (var_name, cond) ->
  exec_cmds (Ln (s_WHILE ++ 32%N :: a) n :: Blk body :: rest) acc s =
  bindM fo (while_loop fo child cx (s_WHILE ++ 32%N :: a, n) loop_fuel var_name cond body 0
                       (mkCret [] SNormal))
        (after_branch rest acc) (clear_line2 s).
Proof.
  intros a n body rest acc s var_name cond Ha Hbody Hsplit.
  destruct while_dispatch as [bc [(Hk & Hreq & Hstrip & Hflip) Hd]].
  destruct body as [|i r]; [contradiction|].
  assert (Hsp : split_ws1 (s_WHILE ++ 32%N :: a) = [s_WHILE; lstrip a]).
  { apply kw_split; [discriminate|vm_compute; reflexivity|exact Ha]. }
  assert (Hs : strip (lstrip a) = strip a) by (unfold strip; rewrite lstrip_idem'; reflexivity).
  unfold is_blank in Ha. destruct (lstrip a) as [|x t] eqn:El; [discriminate Ha|].
  rewrite (block_line_step _ n (i :: r) rest acc s s_WHILE [x :: t] s_While bc Hsp (Hd i r)).
  unfold Interp.block_compile. rewrite Hk, Hreq, Hstrip, Hflip.
  unfold check_flipper. cbn [andb option_map]. cbv iota. rewrite Hs, Hsplit.
  unfold bindM, ret.
  destruct (Interp.while_loop _ _ _ _ _ _ _ _ _ _ (clear_line2 s)) as [s1 [cr| | |]]; reflexivity.
Qed.

(* ---- the two layers together, along an execution of REPEAT.  [sts 0] is the state in which
        the loop starts (the state of the line, line_2 cleared), [sts k] the state in which
        iteration k starts, [crs k] what its body returned. *)
Section RepeatLine.
Variables (a : str) (n : Z) (body rest : list item) (acc : list oline) (s : st fo).
Variables (var_name : option str) (count_expr : str) (m : nat).
Variables (sts : nat -> st fo) (crs : nat -> cret).
Let cur : preline := (s_REPEAT ++ 32%N :: a, n).
Hypothesis Ha : is_blank a = false.
Hypothesis Hbody : body <> [].
Hypothesis Hsplit : split_loop_arg (strip a) = (var_name, count_expr).
Hypothesis Hvar : counter_ok var_name.
Hypothesis Hstart : sts 0%nat = clear_line2 s.
Hypothesis Hcount : forall k, (k <= m)%nat ->
  tokenize_count fo cx cur count_expr (sts k) = (sts k, IOk _ (Z.of_nat m)).

(* REPEAT m: the body runs m times, counter 0..m-1, outputs in order, then the stack goes on *)
Theorem repeat_line_all_lemma :
  (forall k, (k < m)%nat ->
     run_child fo child cx cur body (c_file cx) false (bind_counter fo var_name (Z.of_nat k)) (sts k)
     = (sts (S k), IOk _ (crs k))) ->
  (forall k, (k < m)%nat -> cr_sig (crs k) = SNormal \/ cr_sig (crs k) = SContinue) ->
  exec_cmds (Ln (s_REPEAT ++ 32%N :: a) n :: Blk body :: rest) acc s =
  exec_cmds rest (acc ++ outputs crs m) (sts m).
Proof.
  intros Hrun Hsig.
  rewrite (repeat_line_lemma a n body rest acc s var_name count_expr Ha Hbody Hsplit Hvar).
  pose proof (repeat_all_iterations_lemma fo child cx cur var_name count_expr body m sts crs
                Hcount Hrun Hsig 0%nat (mkCret [] SNormal) eq_refl) as H.
  rewrite Nat.add_0_r in H. unfold bindM. rewrite <- Hstart. fold cur. rewrite H.
  reflexivity.
Qed.

(* BREAK in iteration j: iterations 0..j ran, their output is kept, later ones do not run, and
   the enclosing stack goes on normally: only this loop was left *)
Theorem repeat_line_break_lemma : forall j, (j < m)%nat ->
  (forall k, (k <= j)%nat ->
     run_child fo child cx cur body (c_file cx) false (bind_counter fo var_name (Z.of_nat k)) (sts k)
     = (sts (S k), IOk _ (crs k))) ->
  (forall k, (k < j)%nat -> cr_sig (crs k) = SNormal \/ cr_sig (crs k) = SContinue) ->
  cr_sig (crs j) = SBreak ->
  exec_cmds (Ln (s_REPEAT ++ 32%N :: a) n :: Blk body :: rest) acc s =
  exec_cmds rest (acc ++ outputs crs (S j)) (sts (S j)).
Proof.
  intros j Hj Hrun Hsig Hbrk.
  rewrite (repeat_line_lemma a n body rest acc s var_name count_expr Ha Hbody Hsplit Hvar).
  pose proof (repeat_stops_at_lemma fo child cx cur var_name count_expr body m sts crs
                Hcount j Hj Hrun Hsig (or_introl Hbrk) 0%nat (mkCret [] SNormal)) as H.
  rewrite Nat.add_0_r in H. unfold bindM. rewrite <- Hstart. fold cur. rewrite H, Hbrk.
  reflexivity.
Qed.

(* RETURN in iteration j: the loop stops and the signal is handed on: this stack ends too *)
Theorem repeat_line_return_lemma : forall j, (j < m)%nat ->
  (forall k, (k <= j)%nat ->
     run_child fo child cx cur body (c_file cx) false (bind_counter fo var_name (Z.of_nat k)) (sts k)
     = (sts (S k), IOk _ (crs k))) ->
  (forall k, (k < j)%nat -> cr_sig (crs k) = SNormal \/ cr_sig (crs k) = SContinue) ->
  cr_sig (crs j) = SReturn ->
  exec_cmds (Ln (s_REPEAT ++ 32%N :: a) n :: Blk body :: rest) acc s =
  (sts (S j), IOk _ (mkCret (acc ++ outputs crs (S j)) SReturn)).
Proof.
  intros j Hj Hrun Hsig Hret.
  rewrite (repeat_line_lemma a n body rest acc s var_name count_expr Ha Hbody Hsplit Hvar).
  pose proof (repeat_stops_at_lemma fo child cx cur var_name count_expr body m sts crs
                Hcount j Hj Hrun Hsig (or_intror Hret) 0%nat (mkCret [] SNormal)) as H.
  rewrite Nat.add_0_r in H. unfold bindM. rewrite <- Hstart. fold cur. rewrite H, Hret.
  reflexivity.
Qed.

End RepeatLine.

End LoopLine.
