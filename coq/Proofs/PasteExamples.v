(* C12c: concrete evidence (dummy FloatOps, vm_compute) that the side conditions of the paste
   theorem are needed: the unrestricted claim "START f = the text of f pasted in" is FALSE of the model.
   main file: ["main.txt"]; `START lib` resolves to ["lib.txt"]. *)
From Coq Require Import NArith ZArith List Bool.
From DS Require Import Base PyStr Values Expr TabParse Tables Constants Interp.
Import ListNotations.

Definition fo0 : FloatOps := {| F := unit; f_of_Z := fun _ => Some tt; f_of_dec := fun _ _ _ => tt;
  f_add := fun _ _ => tt; f_sub := fun _ _ => tt; f_mul := fun _ _ => tt; f_div := fun _ _ => tt;
  f_floordiv := fun _ _ => tt; f_mod := fun _ _ => tt; f_pow := fun _ _ => PowOk tt;
  f_is_integer := fun _ => false; f_to_Z := fun _ => 0%Z; f_eqb := fun _ _ => true; f_ltb := fun _ _ => false;
  f_is_zero := fun _ => false; f_repr := fun _ => [] |}.
Definition o0 : options := mkOptions 20 false false false false.

Definition main_path : path := [[109;97;105;110;46;116;120;116]%N].
Definition lib_path : path := [[108;105;98;46;116;120;116]%N].
Definition fs_with (lib : str) : fsys := fun p => if path_eqb p lib_path then Some lib else None.

Definition show (r : glob * ires (compiled fo0)) : (list str * list str) + option errcls :=
  match snd r with
  | IOk _ c => inl (map o_text (out fo0 c), map p_text (prints fo0 c))
  | IErr _ e _ => inr (Some e)
  | _ => inr None
  end.
Definition run_main (lib main : str) := show (compile_text fo0 o0 (fs_with lib) (Some main_path) main).

(* the good case: variables flow both ways, prints and output in place *)
(* lib: 'VAR y x+1\nSTRING hi\nPRINT p' | importing: 'VAR x 1\nSTART lib\n$STRING y' | pasted: 'VAR x 1\nVAR y x+1\nSTRING hi\nPRINT p\n$STRING y' *)
Example ok_agree_import : run_main [86;65;82;32;121;32;120;43;49;10;83;84;82;73;78;71;32;104;105;10;80;82;73;78;84;32;112]%N [86;65;82;32;120;32;49;10;83;84;65;82;84;32;108;105;98;10;36;83;84;82;73;78;71;32;121]%N = inl ([[83;84;82;73;78;71;32;104;105]%N; [83;84;82;73;78;71;32;50]%N], [[112]%N]).
Proof. vm_compute. reflexivity. Qed.
Example ok_agree_pasted : run_main [86;65;82;32;121;32;120;43;49;10;83;84;82;73;78;71;32;104;105;10;80;82;73;78;84;32;112]%N [86;65;82;32;120;32;49;10;86;65;82;32;121;32;120;43;49;10;83;84;82;73;78;71;32;104;105;10;80;82;73;78;84;32;112;10;36;83;84;82;73;78;71;32;121]%N = inl ([[83;84;82;73;78;71;32;104;105]%N; [83;84;82;73;78;71;32;50]%N], [[112]%N]).
Proof. vm_compute. reflexivity. Qed.

(* (1) the importer's $IF_SUCCESS flag is set before the START: f starts WITHOUT a flag, pasted text shares it *)
(* lib: 'ELSE\n    STRING b' | importing: 'IF TRUE\n    STRING a\nSTART lib' | pasted: 'IF TRUE\n    STRING a\nELSE\n    STRING b' *)
Example flag_before_import : run_main [69;76;83;69;10;32;32;32;32;83;84;82;73;78;71;32;98]%N [73;70;32;84;82;85;69;10;32;32;32;32;83;84;82;73;78;71;32;97;10;83;84;65;82;84;32;108;105;98]%N = inl ([[83;84;82;73;78;71;32;97]%N; [83;84;82;73;78;71;32;98]%N], []).
Proof. vm_compute. reflexivity. Qed.
Example flag_before_pasted : run_main [69;76;83;69;10;32;32;32;32;83;84;82;73;78;71;32;98]%N [73;70;32;84;82;85;69;10;32;32;32;32;83;84;82;73;78;71;32;97;10;69;76;83;69;10;32;32;32;32;83;84;82;73;78;71;32;98]%N = inl ([[83;84;82;73;78;71;32;97]%N], []).
Proof. vm_compute. reflexivity. Qed.

(* (2) f leaves a flag: the importer does not see it, pasted text does *)
(* lib: 'IF TRUE\n    STRING a' | importing: 'START lib\nELSE\n    STRING b' | pasted: 'IF TRUE\n    STRING a\nELSE\n    STRING b' *)
Example flag_after_import : run_main [73;70;32;84;82;85;69;10;32;32;32;32;83;84;82;73;78;71;32;97]%N [83;84;65;82;84;32;108;105;98;10;69;76;83;69;10;32;32;32;32;83;84;82;73;78;71;32;98]%N = inl ([[83;84;82;73;78;71;32;97]%N; [83;84;82;73;78;71;32;98]%N], []).
Proof. vm_compute. reflexivity. Qed.
Example flag_after_pasted : run_main [73;70;32;84;82;85;69;10;32;32;32;32;83;84;82;73;78;71;32;97]%N [73;70;32;84;82;85;69;10;32;32;32;32;83;84;82;73;78;71;32;97;10;69;76;83;69;10;32;32;32;32;83;84;82;73;78;71;32;98]%N = inl ([[83;84;82;73;78;71;32;97]%N], []).
Proof. vm_compute. reflexivity. Qed.

(* (3) RETURN ends only f in the import, the whole stack when pasted *)
(* lib: 'RETURN' | importing: 'START lib\nSTRING after' | pasted: 'RETURN\nSTRING after' *)
Example ret_import : run_main [82;69;84;85;82;78]%N [83;84;65;82;84;32;108;105;98;10;83;84;82;73;78;71;32;97;102;116;101;114]%N = inl ([[83;84;82;73;78;71;32;97;102;116;101;114]%N], []).
Proof. vm_compute. reflexivity. Qed.
Example ret_pasted : run_main [82;69;84;85;82;78]%N [82;69;84;85;82;78;10;83;84;82;73;78;71;32;97;102;116;101;114]%N = inl ([], []).
Proof. vm_compute. reflexivity. Qed.

Lemma flag_before_differs : run_main [69;76;83;69;10;32;32;32;32;83;84;82;73;78;71;32;98]%N [73;70;32;84;82;85;69;10;32;32;32;32;83;84;82;73;78;71;32;97;10;83;84;65;82;84;32;108;105;98]%N <> run_main [69;76;83;69;10;32;32;32;32;83;84;82;73;78;71;32;98]%N [73;70;32;84;82;85;69;10;32;32;32;32;83;84;82;73;78;71;32;97;10;69;76;83;69;10;32;32;32;32;83;84;82;73;78;71;32;98]%N.
Proof. rewrite flag_before_import, flag_before_pasted. discriminate. Qed.

Lemma flag_after_differs : run_main [73;70;32;84;82;85;69;10;32;32;32;32;83;84;82;73;78;71;32;97]%N [83;84;65;82;84;32;108;105;98;10;69;76;83;69;10;32;32;32;32;83;84;82;73;78;71;32;98]%N <> run_main [73;70;32;84;82;85;69;10;32;32;32;32;83;84;82;73;78;71;32;97]%N [73;70;32;84;82;85;69;10;32;32;32;32;83;84;82;73;78;71;32;97;10;69;76;83;69;10;32;32;32;32;83;84;82;73;78;71;32;98]%N.
Proof. rewrite flag_after_import, flag_after_pasted. discriminate. Qed.

Lemma ret_differs : run_main [82;69;84;85;82;78]%N [83;84;65;82;84;32;108;105;98;10;83;84;82;73;78;71;32;97;102;116;101;114]%N <> run_main [82;69;84;85;82;78]%N [82;69;84;85;82;78;10;83;84;82;73;78;71;32;97;102;116;101;114]%N.
Proof. rewrite ret_import, ret_pasted. discriminate. Qed.
