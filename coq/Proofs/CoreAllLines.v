(* Well-formed CoreAll programs, and one lemma per NEW line form (PRINT, $PRINT, REM, unknown
   word, START family): what Stack.run (exec_cmds) does with the line written by
   CoreAll.ustmt_items.  Strings and dispatch only; the semantics is in CoreAllRefine.v.
   The old line forms: Proofs/CoreLines.v, Proofs/CoreFuncLines.v. *)
From Coq Require Import NArith ZArith List Bool Lia.
From DS Require Import Base PyStr Values Expr TabParse Tables Constants Interp IdentSpec IdentProofs.
From DS Require Import ScopeProofs LimitProofs ChainProofs LoopUnroll LoopBlock.
From DS Require Import PipelineProofs GroupProofs DollarForm NameChecks UnknownWarn RunProofs FuncProofs.
From DS Require Import FlatPipeline PrintLines ResolveSpec StartLaws StartLines ImportGraph GraphText.
From DS Require Import CoreLang CoreWf CoreLines CoreFunc CoreFuncLines CoreAll.
Import ListNotations.

Arguments IOk {A}. Arguments IErr {A}. Arguments ICrash {A}. Arguments IUnmod {A}.
Arguments s_g {fo}. Arguments s_env {fo}. Arguments s_line2 {fo}. Arguments mkSt {fo}.

(* ================================================================== well-formedness *)
(* an unknown word: not empty, no blank, not written with `$`, and NOT a command of the palette *)
Definition unknown_word_ok (w : str) : Prop :=
  w <> [] /\ ChainProofs.no_ws w /\ no_dollar w /\ find_command palette w None = None.

Fixpoint uwf (s : ustmt) : Prop :=
  match s with
  | UEmit name text => emit_ok name text
  | UEmitEval name e => eval_name_ok name = true /\ expr_ok e
  | UVar x e => identb x = true /\ expr_ok e
  | UIf arms els =>
      arms <> [] /\
      all_list (fun cb : str * list ustmt => let (c, b) := cb in expr_ok c /\ b <> [] /\ all_list uwf b) arms /\
      match els with Some b => b <> [] /\ all_list uwf b | None => True end
  | URepeat c e b => CoreWf.counter_ok c /\ loop_expr_ok c e /\ b <> [] /\ all_list uwf b
  | UWhile c e b => CoreWf.counter_ok c /\ loop_expr_ok c e /\ b <> [] /\ all_list uwf b
  | UBreakLoop => True
  | UContinueLoop => True
  | UFunc name ps b => identb name = true /\ all_list (fun p => identb p = true) ps /\ b <> [] /\ all_list uwf b
  | URun name args => identb name = true /\ (args = [] \/ expr_ok (comma_list args))
  | UReturn => True
  (* texts are written without surrounding blanks *)
  | UPrint text => expr_ok text
  | UPrintEval e => expr_ok e
  | URem text => expr_ok text
  | UUnknown w args => unknown_word_ok w /\ expr_ok args
  (* a file name: letters, digits, underscore *)
  | UStart _ name => name_ok name = true
  end.

Definition uwf_list (p : list ustmt) : Prop := all_list uwf p.
Definition uwf_arm (cb : str * list ustmt) : Prop := let (c, b) := cb in expr_ok c /\ b <> [] /\ uwf_list b.
Definition uwf_else (els : option (list ustmt)) : Prop :=
  match els with Some b => b <> [] /\ uwf_list b | None => True end.

Lemma uwf_if_unfold : forall arms els,
  uwf (UIf arms els) <-> (arms <> [] /\ all_list uwf_arm arms /\ uwf_else els).
Proof. intros. reflexivity. Qed.

(* ================================================================== the palette entries *)
Definition rem_cname : str := [82;101;109]%N.
Definition rem_sc : simple_cls :=
  mkSimple [kw_REM] Allowed true false ATStr false [] (mkValidator [] true) PVNone (mkFormatter [] SContent) RKRem.

Lemma find_rem : find_command palette kw_REM None = Some (rem_cname, Simple rem_sc).
Proof. vm_compute. reflexivity. Qed.

Lemma find_dollar_print : find_command palette (dollar_c :: kw_PRINT) None = Some (print_cname, Simple print_sc).
Proof. vm_compute. reflexivity. Qed.

Definition variant_of (k : kind) : variant := match k with KStart => VStart | KCode => VCode | KEnv => VEnv end.

Lemma start_head_edge : forall k m, start_head k m = edge_ln (variant_of k) m.
Proof. intros [] m; reflexivity. Qed.

Lemma kind_word_word : forall k, kind_word k = word (variant_of k).
Proof. intros []; reflexivity. Qed.

Lemma expr_ok_split : forall w a, w <> [] -> ChainProofs.no_ws w -> expr_ok a -> split_ws1 (w ++ sp :: a) = [w; a].
Proof. intros w a Hw Hws (Hne & Hl & _). apply word_arg_split; assumption. Qed.

Lemma no_ws_kw_PRINT : ChainProofs.no_ws kw_PRINT. Proof. vm_compute. reflexivity. Qed.
Lemma no_ws_kw_REM : ChainProofs.no_ws kw_REM. Proof. vm_compute. reflexivity. Qed.
Lemma no_ws_dollar_PRINT : ChainProofs.no_ws (dollar_c :: kw_PRINT). Proof. vm_compute. reflexivity. Qed.

Section Lines.
Variable fo : FloatOps.
Variable child : runner fo.
Variable cx : ctx.

Notation exec_cmds := (exec_cmds fo child cx).
Notation clear_line2 := (clear_line2 fo).
Notation st := (st fo).

(* the state after a PRINT: one more print record *)
Definition printed (text : str) (n : Z) (cur : preline) (s : st) : st :=
  mkSt (mkGlob (mkPrint text n (c_file cx) :: g_prints (s_g s)) (g_warnings (s_g s))) (s_env s) (Some cur).

(* ---- PRINT text *)
Lemma print_line : forall text n rest acc s,
  expr_ok text -> head_ok rest ->
  exec_cmds (Ln (print_head text) n :: rest) acc s =
  exec_cmds rest (acc ++ []) (printed text n (print_head text, n) s).
Proof.
  intros text n rest acc s Ht Hh.
  pose proof (expr_ok_split kw_PRINT text ltac:(discriminate) no_ws_kw_PRINT Ht) as Hsp.
  fold (print_head text) in Hsp.
  rewrite simple_line_step; [|apply is_blank_split; rewrite Hsp; discriminate|exact Hh].
  unfold bindM.
  destruct Ht as (Hne & Hl & Hr).
  rewrite (print_line_exec fo child cx (print_head text) n None kw_PRINT [text]
             [mkLine (AStr text) n (print_head text, n)] (clear_line2 s) Hsp eq_refl).
  - unfold go_on. cbn [cr_sig cr_data map rev app print_of strip_line l_content l_num l_orig content_text].
    unfold printed. cbn [ChainProofs.clear_line2 Interp.s_g Interp.s_env].
    assert (Hs : strip text = text) by (unfold strip; rewrite Hl; exact Hr).
    unfold print_of, strip_line. cbn [l_content l_num l_orig content_text]. rewrite Hs. reflexivity.
  - cbn [listify_pure line_argument first_arg]. destruct text; [contradiction|reflexivity].
Qed.

(* ---- $PRINT e *)
Lemma dollar_print_compile : forall cur tg n expr (s : st) v t,
  expr <> [] ->
  tokenize fo (all_vars fo (s_env s)) (strip expr) = Ok v -> py_str fo v = Some t ->
  simple_compile fo child cx cur print_cname tg print_sc (dollar_c :: kw_PRINT) n (Some expr) None s =
  (printed t n cur s, IOk (mkCret [] SNormal)).
Proof.
  intros cur tg n expr s v t Hne Hv Ht.
  unfold simple_compile, check_flipper, print_sc.
  cbn [s_flipper_only s_tokenize_args s_strip_args s_arg_type s_arg_req s_verify_args s_params s_verify_arg s_format_arg s_run andb orb].
  change (upper (dollar_c :: kw_PRINT)) with (dollar_c :: kw_PRINT). unfold dollar_c at 1 2. cbv iota. cbn [tl].
  unfold listify_args. destruct expr as [|e0 er]; [contradiction|].
  set (expr := e0 :: er) in *.
  unfold bindM at 1. unfold ret at 1.
  unfold bindM at 1. unfold ret at 1. cbv beta iota.
  cbn [map strip_line l_content l_num l_orig evaluate_args].
  unfold tokenizeM, get_env, set_line2, lift, bindM, ret.
  cbn [l_content content_text l_orig Interp.s_env Interp.s_g Interp.s_line2].
  rewrite Hv. unfold typed_content. rewrite Ht.
  cbn. reflexivity.
Qed.

Lemma print_eval_line : forall e n rest acc s v t,
  expr_ok e -> head_ok rest ->
  tokenize fo (all_vars fo (s_env s)) e = Ok v -> py_str fo v = Some t ->
  exec_cmds (Ln (print_eval_head e) n :: rest) acc s =
  exec_cmds rest (acc ++ []) (printed t n (print_eval_head e, n) s).
Proof.
  intros e n rest acc s v t He Hh Hv Ht.
  pose proof (expr_ok_split (dollar_c :: kw_PRINT) e ltac:(discriminate) no_ws_dollar_PRINT He) as Hsp.
  change ((dollar_c :: kw_PRINT) ++ sp :: e) with (print_eval_head e) in Hsp.
  rewrite simple_line_step; [|apply is_blank_split; rewrite Hsp; discriminate|exact Hh].
  unfold bindM.
  rewrite (exec_line_simple fo child cx _ n None (dollar_c :: kw_PRINT) [e] print_cname print_sc _ Hsp find_dollar_print
             ltac:(discriminate)).
  cbv iota.
  destruct He as (Hne & Hl & Hr).
  assert (Hs : strip e = e) by (unfold strip; rewrite Hl; exact Hr).
  pose proof (dollar_print_compile (print_eval_head e, n) (ByCommand print_cname) n e (clear_line2 s) v t Hne) as HH.
  unfold str in HH |- *. rewrite HH; clear HH.
  - reflexivity.
  - unfold str in Hs. rewrite Hs. exact Hv.
  - exact Ht.
Qed.

(* ---- REM text *)
Lemma rem_line : forall text n rest acc s,
  expr_ok text -> head_ok rest ->
  exec_cmds (Ln (rem_head text) n :: rest) acc s =
  exec_cmds rest (acc ++ (if include_comments (c_opts cx) then [mkO (ByCommand rem_cname) (rem_head text)] else []))
            (at_line fo (rem_head text, n) s).
Proof.
  intros text n rest acc s Ht Hh.
  pose proof (expr_ok_split kw_REM text ltac:(discriminate) no_ws_kw_REM Ht) as Hsp.
  fold (rem_head text) in Hsp.
  rewrite simple_line_step; [|apply is_blank_split; rewrite Hsp; discriminate|exact Hh].
  unfold bindM.
  rewrite (exec_line_simple fo child cx _ n None kw_REM [text] rem_cname rem_sc _ Hsp find_rem ltac:(discriminate)).
  cbv iota.
  destruct Ht as (Hne & Hl & Hr).
  assert (Hs : strip text = text) by (unfold strip; rewrite Hl; exact Hr).
  pose proof (str_pipeline fo child cx (rem_head text, n) rem_cname (ByCommand rem_cname) rem_sc kw_REM n text
             (clear_line2 s) text text eq_refl eq_refl eq_refl (or_introl eq_refl) I ltac:(discriminate) Hne
             ltac:(cbn [rem_sc s_strip_args]; symmetry; exact Hs) eq_refl eq_refl) as HH.
  unfold str in HH |- *. rewrite HH; clear HH.
  pose proof (mc_rem fo child cx (rem_head text, n) rem_cname (ByCommand rem_cname) rem_sc kw_REM
             (Some (mkLine (AStr text) n (rem_head text, n))) (mkSt (s_g (clear_line2 s)) (s_env (clear_line2 s)) None) eq_refl) as HH.
  unfold str in HH |- *. rewrite HH; clear HH.
  unfold go_on. cbn [cr_sig cr_data l_orig].
  destruct (include_comments (c_opts cx)); reflexivity.
Qed.

(* ---- an unknown word *)
Definition unknown_warned (c : str) (n : Z) (s : st) : st :=
  mkSt (if supress_command_not_exist (c_opts cx) then s_g s
        else add_warning (mkWarn (unknown_warning_text n) (Some (here cx (c, n) None))) (s_g s))
       (s_env s) (Some (c, n)).

Lemma unknown_line_lemma : forall w args n rest acc s,
  unknown_word_ok w -> expr_ok args -> head_ok rest ->
  exec_cmds (Ln (unknown_head w args) n :: rest) acc s =
  exec_cmds rest (acc ++ [mkO ByUnknown (upper w ++ sp :: args)]) (unknown_warned (unknown_head w args) n s).
Proof.
  intros w args n rest acc s (Hw & Hws & Hnd & Hf) Ha Hh.
  pose proof (expr_ok_split w args Hw Hws Ha) as Hsp. fold (unknown_head w args) in Hsp.
  rewrite simple_line_step; [|apply is_blank_split; rewrite Hsp; discriminate|exact Hh].
  destruct Ha as (Hne & Hl & Hr).
  assert (Hs : strip args = args) by (unfold strip; rewrite Hl; exact Hr).
  unfold bindM at 1. unfold exec_line. rewrite Hsp, Hf.
  pose proof (plain_inline_passthrough fo child cx (unknown_head w args, n) [] ByUnknown generic_simple w n args)
    as HH.
  unfold unknown_warned.
  destruct (supress_command_not_exist (c_opts cx)).
  - unfold bindM at 1. unfold ret at 1.
    unfold str in HH |- *. rewrite (HH (clear_line2 s) generic_simple_plain Hnd Hne ltac:(discriminate)).
    unfold go_on. cbn [cr_sig cr_data generic_simple s_strip_args]. unfold str in Hs. rewrite Hs. reflexivity.
  - unfold bindM at 1. unfold warn at 1. cbn [ChainProofs.clear_line2 Interp.s_line2 Interp.s_g Interp.s_env].
    unfold str in HH |- *. rewrite (HH _ generic_simple_plain Hnd Hne ltac:(discriminate)).
    unfold go_on. cbn [cr_sig cr_data generic_simple s_strip_args Interp.s_g Interp.s_env]. unfold str in Hs. rewrite Hs. reflexivity.
Qed.

(* ---- START / STARTCODE / STARTENV name *)
Lemma start_line_lemma : forall k m n rest acc s file target text commands g' cr cenv,
  name_ok m = true -> head_ok rest ->
  c_file cx = Some file -> resolve_start file m = Ok target ->
  c_fs cx target = Some text ->
  circ cx target = false -> prepare_text text = TOk commands -> below_stack_limit cx ->
  child (start_ctx cx (start_head k m, n) (Some (start_head k m, n)) target)
        (s_g s) (append_env fo (empty_env fo) (s_env s)) commands = (g', IOk (cr, cenv)) ->
  exec_cmds (Ln (start_head k m) n :: rest) acc s =
  exec_cmds rest (acc ++ (match k with KEnv => [] | _ => cr_data cr end))
    (mkSt (sig_warned (cr_sig cr) g')
          (match k with KCode => update_from_env fo (s_env s) cenv | _ => append_env fo (s_env s) cenv end)
          (Some (start_head k m, n))).
Proof.
  intros k m n rest acc s file target text commands g' cr cenv Hm Hh Hfile Hres Hfs Hcirc Hparse Hlim Hchild.
  assert (Hsl : start_line cx (start_head k m) (kind_word k) m [83;116;97;114;116]%N start_cls).
  { rewrite start_head_edge, kind_word_word. apply edge_start_line; [exact Hm|rewrite Hfile; discriminate]. }
  rewrite (start_line_then_rest fo child cx (start_head k m) n rest acc (kind_word k) m _ _ s file
             target text commands g' cr cenv Hsl).
  - destruct k; reflexivity.
  - rewrite start_head_edge. apply edge_not_blank.
  - destruct rest as [|[c' n'|b] r]; try exact I. contradiction.
  - exact Hfile.
  - rewrite (name_strip m Hm). exact Hres.
  - exact Hfs.
  - exact Hcirc.
  - exact Hparse.
  - exact Hlim.
  - exact Hchild.
Qed.

End Lines.
