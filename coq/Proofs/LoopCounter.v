(* C06: "with a counter name the counter takes the values 0..n-1 and exists only inside the
   body" -- REPEAT and WHILE.  A successful run of a loop is a chain of iterations with
   consecutive counter values; iteration k enters the child stack with the counter bound to k;
   a name that was not defined before the loop is not defined after it (whatever the outcome);
   a name that WAS defined is assigned (binding is assignment). *)
From Coq Require Import NArith ZArith List Bool Lia.
From DS Require Import Base PyStr Values Expr TabParse Tables Constants Interp ScopeProofs LoopUnroll.
Import ListNotations.

Arguments IOk {A}. Arguments IErr {A}. Arguments ICrash {A}. Arguments IUnmod {A}.

Section LC.
Variable fo : FloatOps.
Variable child : runner fo.
Variable cx : ctx.
Variable cur : preline.

Notation st := (st fo).
Notation env := (env fo).
Notation s_env := (s_env fo).
Notation s_g := (s_g fo).
Notation s_line2 := (s_line2 fo).
Notation mkSt := (mkSt fo).
Notation e_user := (e_user fo).
Notation append_env := (append_env fo).
Notation empty_env := (empty_env fo).
Notation update_from_env := (update_from_env fo).
Notation bind_counter := (bind_counter fo).
Notation run_child := (run_child fo child cx cur).
Notation run_child_with := (run_child_with fo child cx cur).
Notation repeat_loop := (repeat_loop fo child cx cur).
Notation while_loop := (while_loop fo child cx cur).
Notation tokenize_count := (tokenize_count fo cx cur).

(* ================================================================== small facts *)
Lemma tokenize_count_state : forall a s s' (x : ires Z), tokenize_count a s = (s', x) -> s' = s.
Proof.
  intros a s s' x H. unfold Interp.tokenize_count in H. unfold bindM at 1 in H.
  destruct (tokenizeM fo cx cur a s) as [s1 r] eqn:E. apply tokenizeM_state in E. subst s1.
  destruct r as [v| | |]; try (injection H as <- _; reflexivity).
  unfold bindM at 1 in H.
  destruct v as [z|f|str0|b|l|]; cbv [ret raise] in H;
    repeat (match type of H with context [if ?b then _ else _] => destruct b end);
    injection H as <- _; reflexivity.
Qed.

Lemma has_key_exit : forall (parent c : env) x,
  has_key x (e_user (update_from_env parent c)) = has_key x (e_user parent) && has_key x (e_user c).
Proof.
  intros parent c x. unfold has_key at 1. rewrite exit_values.
  destruct (has_key x (e_user parent)); [|reflexivity]. reflexivity.
Qed.

Lemma bind_counter_some : forall v k (ce ce1 : env),
  bind_counter (Some v) k ce = Ok ce1 ->
  is_var v false = true /\
  ce1 = mkEnv fo (e_sys fo ce) (upd v (VInt k) (e_user ce)) (e_temp fo ce) (e_funcs fo ce).
Proof.
  intros v k ce ce1 H. unfold Interp.bind_counter in H.
  destruct (is_var v false); [|discriminate]. injection H as <-. split; reflexivity.
Qed.

(* the counter is bound to k; every other user variable is as copied in *)
Lemma bind_counter_lookup : forall v k (ce ce1 : env),
  bind_counter (Some v) k ce = Ok ce1 ->
  lookup v (e_user ce1) = Some (VInt k) /\
  (forall x, x <> v -> lookup x (e_user ce1) = lookup x (e_user ce)).
Proof.
  intros v k ce ce1 H. apply bind_counter_some in H. destruct H as [_ ->]. cbn [Interp.e_user]. split.
  - apply lookup_upd_same.
  - intros x Hne. apply lookup_upd_other. apply str_eqb_neq. exact Hne.
Qed.

(* ================================================================== the domain never grows *)
Definition dom_le (s s' : st) : Prop :=
  forall x, has_key x (e_user (s_env s)) = false -> has_key x (e_user (s_env s')) = false.

Lemma dom_le_refl : forall s, dom_le s s.
Proof. intros s x H. exact H. Qed.

Lemma dom_le_trans : forall a b c, dom_le a b -> dom_le b c -> dom_le a c.
Proof. intros a b c H1 H2 x H. apply H2. apply H1. exact H. Qed.

Lemma run_child_with_dom : forall code file setup pre s s' (r : ires (option cret)),
  run_child_with code file false setup pre s = (s', r) -> dom_le s s'.
Proof.
  intros code file setup pre s s' r H x Hx.
  destruct r as [o| | |].
  - apply run_child_with_inv in H.
    destruct H as (cenv1 & _ & [(_ & _ & ->)|(cr & g' & cenv2 & _ & _ & _ & ->)]);
      cbn [Interp.s_env]; rewrite has_key_exit, Hx; reflexivity.
  - apply run_child_with_fail_env in H; [|intros r; discriminate]. destruct H as [-> _]. exact Hx.
  - apply run_child_with_fail_env in H; [|intros r; discriminate]. destruct H as [-> _]. exact Hx.
  - apply run_child_with_fail_env in H; [|intros r; discriminate]. destruct H as [-> _]. exact Hx.
Qed.

Lemma run_child_dom : forall code file setup s s' (r : ires cret),
  run_child code file false setup s = (s', r) -> dom_le s s'.
Proof.
  intros code file setup s s' r H. unfold Interp.run_child, bindM in H.
  destruct (run_child_with code file false setup (fun _ => Ok true) s) as [s1 r1] eqn:E.
  apply run_child_with_dom in E.
  destruct r1 as [[c|]| | |]; cbv [ret crash] in H; injection H as <- _; exact E.
Qed.

(* REPEAT: whatever the outcome (success, compile error, ...), no user variable is created *)
Lemma repeat_loop_dom : forall fuel vn a code count acc s s' (r : ires cret),
  repeat_loop fuel vn a code count acc s = (s', r) -> dom_le s s'.
Proof.
  induction fuel as [|f IH]; intros vn a code count acc s s' r H.
  - cbn [Interp.repeat_loop] in H. unfold bindM at 1 in H.
    destruct (tokenize_count a s) as [s1 r1] eqn:E. apply tokenize_count_state in E. subst s1.
    destruct r1 as [n| | |]; try (injection H as <- _; apply dom_le_refl).
    destruct (count <? n)%Z; cbv [ret crash] in H; injection H as <- _; apply dom_le_refl.
  - cbn [Interp.repeat_loop] in H. unfold bindM at 1 in H.
    destruct (tokenize_count a s) as [s1 r1] eqn:E. apply tokenize_count_state in E. subst s1.
    destruct r1 as [n| | |]; try (injection H as <- _; apply dom_le_refl).
    destruct (count <? n)%Z; [|cbv [ret] in H; injection H as <- _; apply dom_le_refl].
    unfold bindM at 1 in H.
    destruct (run_child code (c_file cx) false (bind_counter vn count) s) as [s2 r2] eqn:E2.
    apply run_child_dom in E2.
    destruct r2 as [c| | |]; try (injection H as <- _; exact E2).
    destruct (loop_signal (cr_sig c)) as [sg brk]. destruct brk.
    + cbv [ret] in H. injection H as <- _. exact E2.
    + apply IH in H. eapply dom_le_trans; eassumption.
Qed.

Lemma while_loop_dom : forall fuel vn a code count acc s s' (r : ires cret),
  while_loop fuel vn a code count acc s = (s', r) -> dom_le s s'.
Proof.
  induction fuel as [|f IH]; intros vn a code count acc s s' r H.
  - cbn [Interp.while_loop] in H.
    destruct (cmp_eval _ _ _); cbv [raise crash] in H; injection H as <- _; apply dom_le_refl.
  - cbn [Interp.while_loop] in H.
    destruct (cmp_eval _ _ _); [cbv [raise] in H; injection H as <- _; apply dom_le_refl|].
    unfold bindM at 1 in H.
    match type of H with (let (_, _) := ?m in _) = _ => destruct m as [s2 r2] eqn:E2 end.
    apply run_child_with_dom in E2.
    destruct r2 as [[c|]| | |]; try (cbv [ret] in H; injection H as <- _; exact E2).
    destruct (loop_signal (cr_sig c)) as [sg brk]. destruct brk.
    + cbv [ret] in H. injection H as <- _. exact E2.
    + apply IH in H. eapply dom_le_trans; eassumption.
Qed.

(* ================================================================== iterations *)
(* the context of the child stack pushed from state s *)
Definition cx_child (s : st) : ctx := mkCtx (c_opts cx) (c_fs cx) (here cx cur (s_line2 s)) (c_file cx).

(* one iteration: counter value, the state it starts in, the environment the child stack is
   entered with, what it returned and the environment and globals it left *)
Record iter := mkIter {
  it_count : Z; it_start : st; it_entry : env; it_cr : cret; it_exit : env; it_glob : glob }.

Definition iter_ok (vn : option str) (code : list item) (i : iter) : Prop :=
  bind_counter vn (it_count i) (append_env empty_env (s_env (it_start i))) = Ok (it_entry i) /\
  child (cx_child (it_start i)) (s_g (it_start i)) (it_entry i) code = (it_glob i, IOk (it_cr i, it_exit i)).

(* the state after the iteration: copy-back into the parent *)
Definition iter_end (i : iter) : st :=
  mkSt (it_glob i) (update_from_env (s_env (it_start i)) (it_exit i)) (s_line2 (it_start i)).

(* a chain of iterations with consecutive counters k, k+1, ..., from state s to state s' *)
Fixpoint chain (vn : option str) (code : list item) (k : Z) (s : st) (its : list iter) (s' : st) : Prop :=
  match its with
  | [] => s' = s
  | i :: r => it_count i = k /\ it_start i = s /\ iter_ok vn code i /\
              chain vn code (k + 1)%Z (iter_end i) r s'
  end.

Definition outputs_of (its : list iter) : list oline := flat_map (fun i => cr_data (it_cr i)) its.

(* in every iteration the child stack is entered with the counter bound to its number *)
Lemma iter_entry_counter : forall v code i, iter_ok (Some v) code i ->
  lookup v (e_user (it_entry i)) = Some (VInt (it_count i)) /\
  (forall x, x <> v ->
     lookup x (e_user (it_entry i)) = lookup x (e_user (append_env empty_env (s_env (it_start i))))).
Proof. intros v code i [Hb _]. apply bind_counter_lookup in Hb. exact Hb. Qed.

Lemma chain_counts : forall vn code its k s s', chain vn code k s its s' ->
  map it_count its = map (fun j => (k + Z.of_nat j)%Z) (seq 0 (length its)).
Proof.
  intros vn code. induction its as [|i r IH]; intros k s s' H; [reflexivity|].
  cbn [chain] in H. destruct H as (Hc & _ & _ & Hr).
  cbn [map length seq]. f_equal; [lia|].
  rewrite (IH _ _ _ Hr). rewrite <- seq_shift. rewrite map_map. apply map_ext. intro j. lia.
Qed.

Lemma chain_entries : forall v code its k s s', chain (Some v) code k s its s' ->
  Forall (fun i => lookup v (e_user (it_entry i)) = Some (VInt (it_count i))) its.
Proof.
  intros v code. induction its as [|i r IH]; intros k s s' H; [constructor|].
  cbn [chain] in H. destruct H as (_ & _ & Hok & Hr).
  constructor; [exact (proj1 (iter_entry_counter v code i Hok))|exact (IH _ _ _ Hr)].
Qed.

Lemma chain_snoc : forall vn code its k s s' i,
  chain vn code k s its s' -> it_count i = (k + Z.of_nat (length its))%Z -> it_start i = s' ->
  iter_ok vn code i -> chain vn code k s (its ++ [i]) (iter_end i).
Proof.
  intros vn code. induction its as [|j r IH]; intros k s s' i H Hc Hs Hok.
  - cbn [chain] in H. subst s'. cbn [app chain length Z.of_nat] in *.
    split; [lia|]. split; [exact Hs|]. split; [exact Hok|reflexivity].
  - cbn [chain] in H. destruct H as (Hjc & Hjs & Hjok & Hr).
    cbn [app chain]. split; [exact Hjc|]. split; [exact Hjs|]. split; [exact Hjok|].
    apply (IH _ _ _ _ Hr); [|exact Hs|exact Hok]. cbn [length] in Hc. lia.
Qed.

Lemma chain_cons_run : forall vn code k s i its s',
  it_count i = k -> it_start i = s -> iter_ok vn code i -> chain vn code (k + 1)%Z (iter_end i) its s' ->
  chain vn code k s (i :: its) s'.
Proof. intros vn code k s i its s' H1 H2 H3 H4. cbn [chain]. split; [exact H1|]. split; [exact H2|]. split; [exact H3|exact H4]. Qed.

(* the last iteration of a non-empty chain *)
Lemma chain_last : forall vn code pre i k s s',
  chain vn code k s (pre ++ [i]) s' ->
  s' = iter_end i /\ iter_ok vn code i /\ it_count i = (k + Z.of_nat (length pre))%Z /\
  chain vn code k s pre (it_start i).
Proof.
  intros vn code. induction pre as [|j r IH]; intros i k s s' H.
  - cbn [app chain] in H. destruct H as (Hc & Hs & Hok & He).
    cbn [length Z.of_nat chain].
    split; [exact He|]. split; [exact Hok|]. split; [lia|]. exact Hs.
  - cbn [app chain] in H. destruct H as (Hc & Hs & Hok & Hr).
    apply IH in Hr. destruct Hr as (He & Hiok & Hic & Hch).
    cbn [length chain].
    split; [exact He|]. split; [exact Hiok|]. split; [lia|].
    split; [exact Hc|]. split; [exact Hs|]. split; [exact Hok|exact Hch].
Qed.

(* a defined name stays defined along a chain as long as the bodies leave it defined *)
Lemma chain_has_key : forall vn code x its k s s',
  chain vn code k s its s' ->
  has_key x (e_user (s_env s)) = true ->
  (forall i, In i its -> has_key x (e_user (it_exit i)) = true) ->
  has_key x (e_user (s_env s')) = true.
Proof.
  intros vn code x. induction its as [|i r IH]; intros k s s' H Hk Hall.
  - cbn [chain] in H. subst s'. exact Hk.
  - cbn [chain] in H. destruct H as (_ & Hs & _ & Hr).
    apply (IH _ _ _ Hr).
    + unfold iter_end. cbn [Interp.s_env]. rewrite has_key_exit. rewrite Hs, Hk.
      rewrite (Hall i (or_introl eq_refl)). reflexivity.
    + intros j Hj. apply Hall. right. exact Hj.
Qed.

(* ================================================================== one iteration, inverted *)
Lemma iteration_inv : forall vn code k pre s s' cr,
  run_child_with code (c_file cx) false (bind_counter vn k) pre s = (s', IOk (Some cr)) ->
  exists i, it_count i = k /\ it_start i = s /\ it_cr i = cr /\ iter_ok vn code i /\
            pre (it_entry i) = Ok true /\ s' = iter_end i.
Proof.
  intros vn code k pre s s' cr H. apply run_child_with_inv in H.
  destruct H as (cenv1 & Hsetup & [(Hr & _)|(cr' & g' & cenv2 & Hr & Hpre & Hchild & Hs')]); [discriminate|].
  injection Hr as <-.
  exists (mkIter k s cenv1 cr cenv2 g'). unfold iter_ok, iter_end, cx_child.
  cbn [it_count it_start it_entry it_cr it_exit it_glob].
  split; [reflexivity|]. split; [reflexivity|]. split; [reflexivity|].
  split; [split; [exact Hsetup|exact Hchild]|]. split; [exact Hpre|exact Hs'].
Qed.

Lemma run_child_iteration_inv : forall vn code k s s' cr,
  run_child code (c_file cx) false (bind_counter vn k) s = (s', IOk cr) ->
  exists i, it_count i = k /\ it_start i = s /\ it_cr i = cr /\ iter_ok vn code i /\ s' = iter_end i.
Proof.
  intros vn code k s s' cr H. unfold Interp.run_child, bindM in H.
  destruct (run_child_with code (c_file cx) false (bind_counter vn k) (fun _ => Ok true) s)
    as [s1 [[c|]| | |]] eqn:E; try discriminate.
  cbv [ret] in H. injection H as <- <-.
  apply iteration_inv in E. destruct E as (i & H1 & H2 & H3 & H4 & _ & H6).
  exists i. split; [exact H1|]. split; [exact H2|]. split; [exact H3|]. split; [exact H4|exact H6].
Qed.

(* ================================================================== REPEAT *)
(* a successful REPEAT loop is a chain of iterations with counters count, count+1, ...; the
   state it ends in is the state the last iteration left; its output is the outputs in order *)
Lemma repeat_loop_chain : forall fuel vn a code count acc s s' cr,
  repeat_loop fuel vn a code count acc s = (s', IOk cr) ->
  exists its, chain vn code count s its s' /\ cr_data cr = cr_data acc ++ outputs_of its.
Proof.
  induction fuel as [|f IH]; intros vn a code count acc s s' cr H.
  - cbn [Interp.repeat_loop] in H. unfold bindM at 1 in H.
    destruct (tokenize_count a s) as [s1 r1] eqn:E. apply tokenize_count_state in E. subst s1.
    destruct r1 as [n| | |]; try discriminate.
    destruct (count <? n)%Z; [discriminate|]. cbv [ret] in H. injection H as <- <-.
    exists []. split; [reflexivity|]. cbn. rewrite app_nil_r. reflexivity.
  - cbn [Interp.repeat_loop] in H. unfold bindM at 1 in H.
    destruct (tokenize_count a s) as [s1 r1] eqn:E. apply tokenize_count_state in E. subst s1.
    destruct r1 as [n| | |]; try discriminate.
    destruct (count <? n)%Z.
    + unfold bindM at 1 in H.
      destruct (run_child code (c_file cx) false (bind_counter vn count) s) as [s2 [c| | |]] eqn:E2; try discriminate.
      apply run_child_iteration_inv in E2. destruct E2 as (i & Hc & Hs & Hcr & Hok & He).
      destruct (loop_signal (cr_sig c)) as [sg brk]. destruct brk.
      * cbv [ret] in H. injection H as <- <-. exists [i]. split.
        -- cbn [chain]. split; [exact Hc|]. split; [exact Hs|]. split; [exact Hok|exact He].
        -- cbn. rewrite Hcr, app_nil_r. reflexivity.
      * apply IH in H. destruct H as (its & Hch & Hd). exists (i :: its). split.
        -- apply chain_cons_run; try assumption. rewrite <- He. exact Hch.
        -- rewrite Hd. cbn [cr_data]. unfold outputs_of. cbn [flat_map]. rewrite Hcr, app_assoc. reflexivity.
    + cbv [ret] in H. injection H as <- <-.
      exists []. split; [reflexivity|]. cbn. rewrite app_nil_r. reflexivity.
Qed.

(* C06, REPEAT, values: iteration number j (from 0) enters the child stack with the counter
   bound to count + j *)
Theorem repeat_counter_values : forall fuel v a code count acc s s' cr,
  repeat_loop fuel (Some v) a code count acc s = (s', IOk cr) ->
  exists its,
    chain (Some v) code count s its s' /\
    map it_count its = map (fun j => (count + Z.of_nat j)%Z) (seq 0 (length its)) /\
    Forall (fun i => lookup v (e_user (it_entry i)) = Some (VInt (it_count i))) its /\
    cr_data cr = cr_data acc ++ outputs_of its.
Proof.
  intros fuel v a code count acc s s' cr H.
  apply repeat_loop_chain in H. destruct H as (its & Hch & Hd).
  exists its. repeat split; [exact Hch|eapply chain_counts; exact Hch|eapply chain_entries; exact Hch|exact Hd].
Qed.

(* C06, REPEAT, "exists only inside the body": not defined before => not defined after,
   whatever the number of iterations and whatever the outcome *)
Theorem repeat_counter_dies : forall fuel vn a code count acc s s' (r : ires cret) x,
  repeat_loop fuel vn a code count acc s = (s', r) ->
  has_key x (e_user (s_env s)) = false -> has_key x (e_user (s_env s')) = false.
Proof. intros fuel vn a code count acc s s' r x H. apply (repeat_loop_dom _ _ _ _ _ _ _ _ _ H). Qed.

(* C06, REPEAT, binding is assignment: a name that was defined before holds, after the loop,
   what the LAST iteration's stack left in it; that stack was entered with the name bound to the
   counter of the last iteration (count + number of earlier iterations) -- so the final value is
   that counter unless the body assigned the name afterwards.  No iteration: nothing changes. *)
Theorem repeat_counter_assigns_outer : forall fuel v a code count acc s s' cr,
  repeat_loop fuel (Some v) a code count acc s = (s', IOk cr) ->
  has_key v (e_user (s_env s)) = true ->
  exists its, chain (Some v) code count s its s' /\
    (its = [] -> s' = s) /\
    (forall pre i, its = pre ++ [i] ->
       (forall j, In j pre -> has_key v (e_user (it_exit j)) = true) ->
       lookup v (e_user (it_entry i)) = Some (VInt (count + Z.of_nat (length pre))) /\
       lookup v (e_user (s_env s')) = lookup v (e_user (it_exit i))).
Proof.
  intros fuel v a code count acc s s' cr H Hk.
  apply repeat_loop_chain in H. destruct H as (its & Hch & _).
  exists its. split; [exact Hch|]. split.
  - intros ->. exact Hch.
  - intros pre i -> Hkeep.
    apply chain_last in Hch. destruct Hch as (He & Hok & Hc & Hpre).
    split.
    + rewrite <- Hc. exact (proj1 (iter_entry_counter v code i Hok)).
    + subst s'. unfold iter_end. cbn [Interp.s_env]. rewrite exit_values.
      rewrite (chain_has_key _ _ v _ _ _ _ Hpre Hk Hkeep). reflexivity.
Qed.

(* the body does not touch the name: the value afterwards is the last counter *)
Corollary repeat_counter_last_value : forall fuel v a code count acc s s' cr pre i,
  repeat_loop fuel (Some v) a code count acc s = (s', IOk cr) ->
  has_key v (e_user (s_env s)) = true ->
  forall its, chain (Some v) code count s its s' -> its = pre ++ [i] ->
  (forall j, In j its -> lookup v (e_user (it_exit j)) = lookup v (e_user (it_entry j))) ->
  lookup v (e_user (s_env s')) = Some (VInt (count + Z.of_nat (length pre))).
Proof.
  intros fuel v a code count acc s s' cr pre i _ Hk its Hch -> Hun.
  pose proof (chain_entries _ _ _ _ _ _ Hch) as Hent. rewrite Forall_forall in Hent.
  apply chain_last in Hch. destruct Hch as (He & Hok & Hc & Hpre).
  subst s'. unfold iter_end. cbn [Interp.s_env]. rewrite exit_values.
  rewrite (chain_has_key _ _ v _ _ _ _ Hpre Hk).
  - rewrite (Hun i) by (apply in_or_app; right; left; reflexivity).
    rewrite (Hent i) by (apply in_or_app; right; left; reflexivity). rewrite Hc. reflexivity.
  - intros j Hj. unfold has_key. rewrite (Hun j) by (apply in_or_app; left; exact Hj).
    rewrite (Hent j) by (apply in_or_app; left; exact Hj). reflexivity.
Qed.

(* ================================================================== WHILE *)
(* how a successful WHILE loop ends: an iteration stopped it (BREAK / RETURN), or the
   condition -- evaluated in a fresh child environment in which the counter is bound to the
   number of completed iterations -- was false; that environment is copied back *)
Definition while_end (vn : option str) (cond : str) (k : Z) (s_m s' : st) (stopped : bool) : Prop :=
  if stopped then s' = s_m
  else exists cenv1, bind_counter vn k (append_env empty_env (s_env s_m)) = Ok cenv1 /\
                     while_pre fo cond cenv1 = Ok false /\
                     s' = mkSt (s_g s_m) (update_from_env (s_env s_m) cenv1) (s_line2 s_m).

Lemma while_loop_chain : forall fuel vn cond code count acc s s' cr,
  while_loop fuel vn cond code count acc s = (s', IOk cr) ->
  exists its s_m stopped,
    chain vn code count s its s_m /\
    Forall (fun i => while_pre fo cond (it_entry i) = Ok true) its /\
    while_end vn cond (count + Z.of_nat (length its))%Z s_m s' stopped /\
    (stopped = true -> its <> []) /\
    cr_data cr = cr_data acc ++ outputs_of its.
Proof.
  induction fuel as [|f IH]; intros vn cond code count acc s s' cr H.
  - cbn [Interp.while_loop] in H. destruct (cmp_eval _ _ _); discriminate.
  - cbn [Interp.while_loop] in H. destruct (cmp_eval _ _ _); [discriminate|].
    unfold bindM at 1 in H.
    match type of H with (let (_, _) := ?m in _) = _ => destruct m as [s2 r2] eqn:E2 end.
    destruct r2 as [[c|]| | |]; try discriminate.
    + fold (while_pre fo cond) in E2.
      apply iteration_inv in E2. destruct E2 as (i & Hc & Hs & Hcr & Hok & Hpre & He).
      destruct (loop_signal (cr_sig c)) as [sg brk]. destruct brk.
      * cbv [ret] in H. injection H as <- <-. exists [i], (iter_end i), true.
        split; [cbn [chain]; split; [exact Hc|]; split; [exact Hs|]; split; [exact Hok|reflexivity]|].
        split; [constructor; [exact Hpre|constructor]|].
        split; [cbn [while_end]; exact He|].
        split; [intros _; discriminate|].
        cbn. rewrite Hcr, app_nil_r. reflexivity.
      * apply IH in H. destruct H as (its & s_m & stopped & Hch & Hall & Hend & Hne & Hd).
        exists (i :: its), s_m, stopped.
        split; [cbn [chain]; split; [exact Hc|]; split; [exact Hs|]; split; [exact Hok|rewrite <- He; exact Hch]|].
        split; [constructor; assumption|].
        split.
        { cbn [length]. replace (count + Z.of_nat (S (length its)))%Z
            with (count + 1 + Z.of_nat (length its))%Z by lia. exact Hend. }
        split; [intros _; discriminate|].
        rewrite Hd. cbn [cr_data]. unfold outputs_of. cbn [flat_map]. rewrite Hcr, app_assoc. reflexivity.
    + fold (while_pre fo cond) in E2. cbv [ret] in H. injection H as <- <-.
      apply run_child_with_inv in E2.
      destruct E2 as (cenv1 & Hsetup & [(_ & Hpre & Hs')|(cr' & g' & cenv2 & Hr & _)]); [|discriminate].
      exists [], s, false.
      split; [reflexivity|]. split; [constructor|].
      split.
      { cbn [length Z.of_nat while_end]. exists cenv1. replace (count + 0)%Z with count by lia.
        split; [exact Hsetup|]. split; [exact Hpre|exact Hs']. }
      split; [intro Hf; discriminate|].
      cbn. rewrite app_nil_r. reflexivity.
Qed.

(* C06, WHILE, values: iteration number j enters the child stack with the counter bound to
   count + j -- the number of iterations completed so far (count = 0 in block_compile) *)
Theorem while_counter_values : forall fuel v cond code count acc s s' cr,
  while_loop fuel (Some v) cond code count acc s = (s', IOk cr) ->
  exists its s_m stopped,
    chain (Some v) code count s its s_m /\
    map it_count its = map (fun j => (count + Z.of_nat j)%Z) (seq 0 (length its)) /\
    Forall (fun i => lookup v (e_user (it_entry i)) = Some (VInt (it_count i)) /\
                     while_pre fo cond (it_entry i) = Ok true) its /\
    while_end (Some v) cond (count + Z.of_nat (length its))%Z s_m s' stopped /\
    cr_data cr = cr_data acc ++ outputs_of its.
Proof.
  intros fuel v cond code count acc s s' cr H.
  apply while_loop_chain in H. destruct H as (its & s_m & stopped & Hch & Hall & Hend & _ & Hd).
  exists its, s_m, stopped. repeat split; try assumption.
  - eapply chain_counts; exact Hch.
  - pose proof (chain_entries _ _ _ _ _ _ Hch) as Hent.
    rewrite Forall_forall in *. intros i Hi. split; [apply Hent|apply Hall]; exact Hi.
Qed.

Theorem while_counter_dies : forall fuel vn cond code count acc s s' (r : ires cret) x,
  while_loop fuel vn cond code count acc s = (s', r) ->
  has_key x (e_user (s_env s)) = false -> has_key x (e_user (s_env s')) = false.
Proof. intros fuel vn cond code count acc s s' r x H. apply (while_loop_dom _ _ _ _ _ _ _ _ _ H). Qed.

(* C06, WHILE, binding is assignment.  DIFFERENT from REPEAT: when the loop ends because the
   condition is false, the counter was bound once more for that last check, so a name defined
   before the loop holds the NUMBER OF COMPLETED ITERATIONS (not the counter of the last
   iteration, which is one less); when an iteration stopped the loop (BREAK / RETURN) it holds
   what that iteration's stack left, as for REPEAT. *)
Theorem while_counter_assigns_outer : forall fuel v cond code count acc s s' cr,
  while_loop fuel (Some v) cond code count acc s = (s', IOk cr) ->
  has_key v (e_user (s_env s)) = true ->
  exists its s_m stopped,
    chain (Some v) code count s its s_m /\
    while_end (Some v) cond (count + Z.of_nat (length its))%Z s_m s' stopped /\
    ((forall i, In i its -> has_key v (e_user (it_exit i)) = true) ->
     if stopped
     then forall pre i, its = pre ++ [i] ->
            lookup v (e_user (it_entry i)) = Some (VInt (count + Z.of_nat (length pre))) /\
            lookup v (e_user (s_env s')) = lookup v (e_user (it_exit i))
     else lookup v (e_user (s_env s')) = Some (VInt (count + Z.of_nat (length its)))).
Proof.
  intros fuel v cond code count acc s s' cr H Hk.
  apply while_loop_chain in H. destruct H as (its & s_m & stopped & Hch & Hall & Hend & Hne & Hd).
  exists its, s_m, stopped. split; [exact Hch|]. split; [exact Hend|]. intros Hkeep.
  destruct stopped; cbn [while_end] in Hend.
  - subst s_m. intros pre i ->.
    apply chain_last in Hch. destruct Hch as (He & Hok & Hc & Hpre). split.
    + rewrite <- Hc. exact (proj1 (iter_entry_counter v code i Hok)).
    + subst s'. unfold iter_end. cbn [Interp.s_env]. rewrite exit_values.
      rewrite (chain_has_key _ _ v _ _ _ _ Hpre Hk); [reflexivity|].
      intros j Hj. apply Hkeep. apply in_or_app. left. exact Hj.
  - destruct Hend as (cenv1 & Hb & _ & ->). cbn [Interp.s_env]. rewrite exit_values.
    rewrite (chain_has_key _ _ v _ _ _ _ Hch Hk Hkeep).
    exact (proj1 (bind_counter_lookup v _ _ _ Hb)).
Qed.


(* ================================================================== the REPEAT / WHILE block command *)
(* at the level of the command (block_compile of a REPEAT / WHILE class): whatever the outcome,
   a name that is not defined before the loop line is not defined after it *)
Theorem block_compile_loop_dom : forall bc cname cmd num argument code_block s s' (r : ires rc),
  b_kind bc = BKRepeat \/ b_kind bc = BKWhile ->
  block_compile fo child cx cur bc cname cmd num argument code_block s = (s', r) -> dom_le s s'.
Proof.
  intros bc cname cmd num argument code_block s s' r Hk H.
  unfold Interp.block_compile in H.
  unfold bindM at 1 in H.
  destruct (check_flipper fo cx cur (b_flipper_only bc) s) as [s1 r1] eqn:E1.
  assert (Hs1 : s1 = s).
  { unfold check_flipper in E1. destruct (b_flipper_only bc && negb (flipper_commands (c_opts cx)));
      cbv [raise ret] in E1; injection E1 as <- _; reflexivity. }
  subst s1.
  destruct r1 as [u| | |]; try (injection H as <- _; apply dom_le_refl).
  unfold bindM at 1 in H.
  match type of H with (let (_, _) := ?m s in _) = _ => destruct (m s) as [s2 r2] eqn:E2 end.
  assert (Hs2 : s2 = s).
  { destruct (b_arg_req bc);
      repeat (match type of E2 with context [if ?b then _ else _] => destruct b end);
      cbv [raise ret] in E2; injection E2 as <- _; reflexivity. }
  subst s2.
  destruct r2 as [u2| | |]; try (injection H as <- _; apply dom_le_refl).
  set (arg' := if b_strip_arg bc then _ else _) in H. clearbody arg'.
  destruct Hk as [Hk|Hk]; rewrite Hk in H.
  - destruct arg' as [a|]; [|cbv [crash] in H; injection H as <- _; apply dom_le_refl].
    destruct (split_loop_arg a) as [var_name count_expr].
    destruct (match code_block with Some b => b | None => [] end) as [|i code].
    + destruct var_name; cbv [raise ret] in H; injection H as <- _; apply dom_le_refl.
    + destruct (match var_name with Some v => is_var v false | None => true end);
        [|cbv [raise] in H; injection H as <- _; apply dom_le_refl].
      unfold bindM at 1 in H.
      destruct (repeat_loop loop_fuel var_name count_expr (i :: code) 0%Z (mkCret [] SNormal) s) as [s3 r3] eqn:E.
      apply repeat_loop_dom in E.
      destruct r3 as [c| | |]; cbv [ret] in H; injection H as <- _; exact E.
  - destruct arg' as [a|]; [|cbv [crash] in H; injection H as <- _; apply dom_le_refl].
    destruct (split_loop_arg a) as [var_name cond].
    unfold bindM at 1 in H.
    match type of H with (let (_, _) := ?m in _) = _ => destruct m as [s3 r3] eqn:E end.
    apply while_loop_dom in E.
    destruct r3 as [c| | |]; cbv [ret] in H; injection H as <- _; exact E.
Qed.

End LC.
