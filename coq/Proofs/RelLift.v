(* A RELATIONAL lifting library (two-run simulation), in the style of StackLift.v.
   Two runs of the same commands under two option records [o1], [o2] (same stack limit), the same
   file system, the same pile and file, related states.  The related states have EQUAL environments
   and line_2, and globs related by [Rg]; produced output is related by [Rd]; the second run may
   additionally "escape" with an error satisfying [Esc] (used for the Flipper gate).
   The options are read at exactly three places besides the limit check: RKRem in run_compile,
   check_flipper, and the unknown-command fall-back of exec_line; each is a hypothesis here.
   Instances: TwoRuns.v (comments, suppressed warnings, Flipper gate). *)
From Coq Require Import NArith ZArith List Bool Lia.
From DS Require Import Base PyStr Values Expr TabParse Tables Constants Interp.
Import ListNotations.
Arguments IOk {A}. Arguments IErr {A}. Arguments ICrash {A}. Arguments IUnmod {A}.

(* accumulation step of multi_comp *)
Definition accum (tg : tag) (acc : cret) (c : rc) : cret :=
  match c with
  | RNone => acc
  | RLines ls => mkCret (cr_data acc ++ map (mkO tg) ls) (cr_sig acc)
  | RComp cr => mkCret (cr_data acc ++ cr_data cr) (cr_sig cr)
  end.

Definition cls_flipper_only (c : cls) : bool :=
  match c with Simple sc => s_flipper_only sc | Block bc => b_flipper_only bc end.

Section Rel.
Variable fo : FloatOps.
Notation M := (M fo).
Notation st := (st fo).
Notation env := (env fo).
Notation bindM := (bindM fo).
Notation ret := (ret fo).

Variables o1 o2 : options.
Hypothesis Hlimit : stack_limit o1 = stack_limit o2.

(* relation on the shared glob *)
Variable Rg : glob -> glob -> Prop.
(* relation on produced output *)
Variable Rd : list oline -> list oline -> Prop.
Hypothesis Rd_nil : Rd [] [].
Hypothesis Rd_app : forall a1 a2 b1 b2, Rd a1 a2 -> Rd b1 b2 -> Rd (a1 ++ b1) (a2 ++ b2).
(* tags whose lines are emitted identically by both runs *)
Variable GT : tag -> Prop.
Hypothesis Rd_refl_tag : forall d, Forall (fun l => GT (o_tag l)) d -> Rd d d.
Hypothesis GT_ignore : GT ByIgnore.
Hypothesis GT_legacy : GT ByLegacyRepeat.
(* errors by which the second run may leave the simulation *)
Variable Esc : errcls -> option (list frame) -> Prop.
(* lines at which check_flipper is called with [true] *)
Variable FL : preline -> Prop.
(* warning texts emitted identically by both runs *)
Variable Wok : str -> Prop.

Hypothesis Rg_print : forall p g1 g2, Rg g1 g2 ->
  Rg (mkGlob (p :: g_prints g1) (g_warnings g1)) (mkGlob (p :: g_prints g2) (g_warnings g2)).
Hypothesis Rg_warn : forall t tr g1 g2, Wok t -> Rg g1 g2 ->
  Rg (add_warning (mkWarn t tr) g1) (add_warning (mkWarn t tr) g2).
Hypothesis Wok_sig : forall sg w, s_sig_warning sg = Some w -> Wok w.

Definition RC (c1 c2 : cret) : Prop := Rd (cr_data c1) (cr_data c2) /\ cr_sig c1 = cr_sig c2.
Definition Rrc (tg : tag) (r1 r2 : rc) : Prop :=
  forall acc1 acc2, RC acc1 acc2 -> RC (accum tg acc1 r1) (accum tg acc2 r2).
Definition Rrcb (r1 r2 : rc) : Prop :=
  match r1, r2 with RNone, RNone => True | RComp c1, RComp c2 => RC c1 c2 | _, _ => False end.
Definition Ropt (r1 r2 : option cret) : Prop :=
  match r1, r2 with None, None => True | Some c1, Some c2 => RC c1 c2 | _, _ => False end.

(* which (tag, class) pairs reach simple_compile *)
Variable TS : tag -> simple_cls -> Prop.
Hypothesis TS_unknown : TS ByUnknown generic_simple.
Hypothesis TS_found : forall cmd cb cname sc,
  find_command palette cmd cb = Some (cname, Simple sc) -> TS (ByCommand cname) sc.
Hypothesis TS_plural : forall tg sc op k msg, TS tg sc -> s_verify_args sc = PVWarnIfLen op k msg -> Wok msg.
(* ... unless both runs refuse the class at check_flipper, before any line is produced *)
Hypothesis TS_lines : forall tg sc, TS tg sc -> s_run sc <> RKRem ->
  GT tg \/ (s_flipper_only sc = true /\ flipper_commands o1 = false /\ flipper_commands o2 = false).
(* site 1: RKRem *)
Hypothesis H_rem : forall tg sc, TS tg sc -> s_run sc = RKRem -> forall l,
  Rrc tg (if include_comments o1 then RLines [l] else RNone) (if include_comments o2 then RLines [l] else RNone).
(* site 2: check_flipper *)
Hypothesis H_flip : flipper_commands o1 = flipper_commands o2 \/
  (flipper_commands o1 = true /\
   forall pile file cur l2, FL cur -> Esc EInvalidCommand (Some (pile ++ [mkFrame file cur l2]))).
Hypothesis H_FL : forall c n cb cmd more cname cl,
  split_ws1 c = cmd :: more -> find_command palette cmd cb = Some (cname, cl) ->
  cls_flipper_only cl = true -> FL (c, n).
(* site 3: the unknown-command warning *)
Hypothesis H_sup :
  (supress_command_not_exist o1 = supress_command_not_exist o2 /\ forall n, Wok (unknown_warning_text n)) \/
  (supress_command_not_exist o1 = false /\ supress_command_not_exist o2 = true /\
   forall n tr g1 g2, Rg g1 g2 -> Rg (add_warning (mkWarn (unknown_warning_text n) tr) g1) g2).

(* ------------------------------------------------------------------ results *)
Definition rres {A} (RA : A -> A -> Prop) (r1 r2 : ires A) : Prop :=
  match r1, r2 with
  | IOk a1, IOk a2 => RA a1 a2
  | IErr e1 t1, IErr e2 t2 => e1 = e2 /\ t1 = t2
  | ICrash k1, ICrash k2 => k1 = k2
  | IUnmod, IUnmod => True
  | _, _ => False
  end.

Definition esc {A} (r : ires A) : Prop := match r with IErr e t => Esc e t | _ => False end.

Definition Rs (s1 s2 : st) : Prop :=
  Rg (s_g fo s1) (s_g fo s2) /\ s_env fo s1 = s_env fo s2 /\ s_line2 fo s1 = s_line2 fo s2.

Definition post {A} (RA : A -> A -> Prop) (x1 x2 : st * ires A) : Prop :=
  (Rs (fst x1) (fst x2) /\ rres RA (snd x1) (snd x2)) \/ esc (snd x2).

Definition relM {A} (RA : A -> A -> Prop) (m1 m2 : M A) : Prop :=
  forall s1 s2, Rs s1 s2 -> post RA (m1 s1) (m2 s2).

(* runners *)
Definition Rce (x1 x2 : cret * env) : Prop := RC (fst x1) (fst x2) /\ snd x1 = snd x2.
Definition postR (x1 x2 : glob * ires (cret * env)) : Prop :=
  (Rg (fst x1) (fst x2) /\ rres Rce (snd x1) (snd x2)) \/ esc (snd x2).

Lemma RC_nil : forall sg, RC (mkCret [] sg) (mkCret [] sg).
Proof. intro sg. split; [exact Rd_nil|reflexivity]. Qed.

Lemma Rrc_none : forall tg, Rrc tg RNone RNone.
Proof. intros tg a1 a2 H. exact H. Qed.

Lemma Rrc_lines : forall tg ls, GT tg -> Rrc tg (RLines ls) (RLines ls).
Proof.
  intros tg ls Hg a1 a2 [Hd Hs]. split; cbn [accum cr_data cr_sig]; [|exact Hs].
  apply Rd_app; [exact Hd|]. apply Rd_refl_tag. apply Forall_forall. intros l Hin.
  apply in_map_iff in Hin. destruct Hin as (x & <- & _). exact Hg.
Qed.

Lemma Rrc_comp : forall tg c1 c2, RC c1 c2 -> Rrc tg (RComp c1) (RComp c2).
Proof.
  intros tg c1 c2 [Hd Hs] a1 a2 [Hd' _]. split; cbn [accum cr_data cr_sig]; [|exact Hs].
  apply Rd_app; assumption.
Qed.

Section Stack.
Variables child1 child2 : runner fo.
Variable fs : fsys.
Variable pile : list frame.
Variable file : option path.
Notation cx1 := (mkCtx o1 fs pile file).
Notation cx2 := (mkCtx o2 fs pile file).

Hypothesis Hchild : forall cur l2 file' g1 g2 e code, Rg g1 g2 ->
  postR (child1 (mkCtx o1 fs (here cx1 cur l2) file') g1 e code)
        (child2 (mkCtx o2 fs (here cx2 cur l2) file') g2 e code).

Lemma here_o : forall cur l2, here cx1 cur l2 = here cx2 cur l2.
Proof. reflexivity. Qed.

(* ---------------------------------------------------------------- primitives *)
Lemma rel_ret : forall A (RA : A -> A -> Prop) a1 a2, RA a1 a2 -> relM RA (ret a1) (ret a2).
Proof. intros A RA a1 a2 H s1 s2 Hs. left. split; [exact Hs|exact H]. Qed.

Lemma rel_ret_eq : forall A (a : A), relM eq (ret a) (ret a).
Proof. intros. apply rel_ret. reflexivity. Qed.

Lemma rel_bind : forall A B (RA : A -> A -> Prop) (RB : B -> B -> Prop) (m1 m2 : M A) (f1 f2 : A -> M B),
  relM RA m1 m2 -> (forall a1 a2, RA a1 a2 -> relM RB (f1 a1) (f2 a2)) ->
  relM RB (bindM m1 f1) (bindM m2 f2).
Proof.
  intros A B RA RB m1 m2 f1 f2 Hm Hf s1 s2 Hs. unfold Interp.bindM.
  specialize (Hm s1 s2 Hs). destruct (m1 s1) as [s1' r1]. destruct (m2 s2) as [s2' r2].
  unfold post in Hm. cbn [fst snd] in Hm. destruct Hm as [[Hs' Hr]|He].
  - destruct r1 as [a1|e1 t1|k1|], r2 as [a2|e2 t2|k2|]; cbn [rres] in Hr; try contradiction.
    + apply Hf; assumption.
    + left. split; [exact Hs'|exact Hr].
    + left. split; [exact Hs'|exact Hr].
    + left. split; [exact Hs'|exact I].
  - destruct r2 as [a2|e2 t2|k2|]; cbn [esc] in He; try contradiction. right. exact He.
Qed.

Lemma rel_bind_eq : forall A B (RB : B -> B -> Prop) (m1 m2 : M A) (f1 f2 : A -> M B),
  relM eq m1 m2 -> (forall a, relM RB (f1 a) (f2 a)) -> relM RB (bindM m1 f1) (bindM m2 f2).
Proof.
  intros A B RB m1 m2 f1 f2 Hm Hf. eapply rel_bind; [exact Hm|]. intros a1 a2 <-. apply Hf.
Qed.

Lemma rel_raise : forall cur A (RA : A -> A -> Prop) e, relM RA (@raise fo cx1 cur A e) (@raise fo cx2 cur A e).
Proof.
  intros cur A RA e s1 s2 Hs. left. split; [exact Hs|]. cbn [snd Interp.raise rres].
  destruct Hs as (_ & _ & ->). split; reflexivity.
Qed.

Lemma rel_crash : forall A (RA : A -> A -> Prop) k, relM RA (@crash fo A k) (@crash fo A k).
Proof. intros A RA k s1 s2 Hs. left. split; [exact Hs|reflexivity]. Qed.

Lemma rel_unmod : forall A (RA : A -> A -> Prop), relM RA (@unmod fo A) (@unmod fo A).
Proof. intros A RA s1 s2 Hs. left. split; [exact Hs|exact I]. Qed.

Lemma rel_lift : forall cur A (x : res A), relM eq (lift fo cx1 cur x) (lift fo cx2 cur x).
Proof.
  intros cur A x. destruct x; cbn [lift]; [apply rel_ret_eq|apply rel_raise|apply rel_crash|apply rel_unmod].
Qed.

Lemma rel_get_env : relM eq (get_env fo) (get_env fo).
Proof. intros s1 s2 Hs. left. split; [exact Hs|]. destruct Hs as (_ & He & _). exact He. Qed.

Lemma rel_set_env : forall e, relM eq (set_env fo e) (set_env fo e).
Proof.
  intros e s1 s2 (Hg & He & Hl). left. split; [|reflexivity]. split; [exact Hg|]. split; [reflexivity|exact Hl].
Qed.

Lemma rel_set_line2 : forall l, relM eq (set_line2 fo l) (set_line2 fo l).
Proof.
  intros l s1 s2 (Hg & He & Hl). left. split; [|reflexivity]. split; [exact Hg|]. split; [exact He|reflexivity].
Qed.

Lemma rel_warn : forall cur t, Wok t -> relM eq (warn fo cx1 cur t) (warn fo cx2 cur t).
Proof.
  intros cur t Hw s1 s2 (Hg & He & Hl). left. split; [|reflexivity].
  unfold warn. cbn [fst Interp.s_g Interp.s_env Interp.s_line2]. rewrite Hl.
  split; [|split; [exact He|reflexivity]]. cbn [Interp.s_g]. apply Rg_warn; assumption.
Qed.

Lemma rel_add_plain_warning : forall t, Wok t -> relM eq (add_plain_warning fo t) (add_plain_warning fo t).
Proof.
  intros t Hw s1 s2 (Hg & He & Hl). left. split; [|reflexivity].
  split; [|split; [exact He|exact Hl]]. apply Rg_warn; assumption.
Qed.

Lemma rel_print : forall p,
  relM eq (mod_glob fo (fun g => mkGlob (p :: g_prints g) (g_warnings g)))
          (mod_glob fo (fun g => mkGlob (p :: g_prints g) (g_warnings g))).
Proof.
  intros p s1 s2 (Hg & He & Hl). left. split; [|reflexivity].
  split; [|split; [exact He|exact Hl]]. apply Rg_print; assumption.
Qed.

Lemma rel_tokenizeM : forall cur a, relM eq (tokenizeM fo cx1 cur a) (tokenizeM fo cx2 cur a).
Proof. intros. unfold tokenizeM. apply rel_bind_eq; [apply rel_get_env|intros e; apply rel_lift]. Qed.

Ltac rel_step :=
  first
    [ apply rel_ret_eq | apply rel_raise | apply rel_crash | apply rel_unmod | apply rel_lift
    | apply rel_get_env | apply rel_set_env | apply rel_set_line2
    | apply rel_print | apply rel_tokenizeM
    | assumption
    | apply rel_bind_eq; [|intros ?]
    | match goal with
      | |- relM _ (if ?b then _ else _) (if ?b then _ else _) => destruct b
      | |- relM _ (match ?x with _ => _ end) (match ?x with _ => _ end) => destruct x
      | |- relM _ (let '(_, _) := ?x in _) (let '(_, _) := ?x in _) => destruct x
      end ].
Ltac rel_tac := repeat rel_step.

(* ---------------------------------------------------------------- running a child stack *)
Lemma rel_run_child_with : forall cur code file' parallel setup pre,
  relM Ropt (run_child_with fo child1 cx1 cur code file' parallel setup pre)
            (run_child_with fo child2 cx2 cur code file' parallel setup pre).
Proof.
  intros cur code file' parallel setup pre [g1 e1 l1] [g2 e2 l2] (Hg & He & Hl).
  cbn [Interp.s_g Interp.s_env Interp.s_line2] in Hg, He, Hl. subst e2 l2.
  unfold run_child_with. cbn [c_opts Interp.s_g Interp.s_env Interp.s_line2].
  change (pile_len cx2) with (pile_len cx1). rewrite <- Hlimit.
  assert (HRs : Rs (mkSt fo g1 e1 l1) (mkSt fo g2 e1 l1)) by (split; [exact Hg|split; reflexivity]).
  destruct (cmp_eval _ _ _).
  { left. split; [exact HRs|]. split; reflexivity. }
  destruct (setup _) as [cenv1|e|k|].
  2:{ left. split; [exact HRs|]. split; reflexivity. }
  2:{ left. split; [exact HRs|]. reflexivity. }
  2:{ left. split; [exact HRs|]. exact I. }
  destruct (pre cenv1) as [[|]|e|k|].
  2:{ left. split; [|exact I]. split; [exact Hg|split; reflexivity]. }
  2:{ left. split; [exact HRs|]. split; reflexivity. }
  2:{ left. split; [exact HRs|]. reflexivity. }
  2:{ left. split; [exact HRs|]. exact I. }
  cbn [c_fs]. specialize (Hchild cur l1 file' g1 g2 cenv1 code Hg).
  destruct (child1 _ _ _ _) as [g1' r1]. destruct (child2 _ _ _ _) as [g2' r2].
  unfold postR in Hchild. cbn [fst snd] in Hchild. destruct Hchild as [[Hg' Hr]|He].
  - destruct r1 as [[cr1 ce1]|er1 t1|k1|], r2 as [[cr2 ce2]|er2 t2|k2|]; cbn [rres] in Hr; try contradiction.
    + destruct Hr as [Hc Hee]. cbn [fst snd] in Hc, Hee. subst ce2.
      left. split; [|exact Hc]. split; [exact Hg'|split; reflexivity].
    + left. split; [|exact Hr]. split; [exact Hg'|split; reflexivity].
    + left. split; [|exact Hr]. split; [exact Hg'|split; reflexivity].
    + left. split; [|exact I]. split; [exact Hg'|split; reflexivity].
  - destruct r2 as [[cr2 ce2]|er2 t2|k2|]; cbn [esc] in He; try contradiction. right. exact He.
Qed.

Lemma rel_run_child : forall cur code file' parallel setup,
  relM RC (run_child fo child1 cx1 cur code file' parallel setup)
          (run_child fo child2 cx2 cur code file' parallel setup).
Proof.
  intros. unfold run_child. eapply rel_bind; [apply rel_run_child_with|].
  intros [c1|] [c2|] H; cbn [Ropt] in H; try contradiction.
  - apply rel_ret. exact H.
  - apply rel_crash.
Qed.

Lemma rel_new_var : forall cur name v, relM eq (new_var fo cx1 cur name v) (new_var fo cx2 cur name v).
Proof. intros. unfold new_var. rel_tac. Qed.

Lemma rel_listify_args : forall cur argument code_block num,
  relM eq (listify_args fo cx1 cur argument code_block num) (listify_args fo cx2 cur argument code_block num).
Proof. intros. unfold listify_args. rel_tac. Qed.

Lemma rel_evaluate_args : forall cur at_ args,
  relM eq (evaluate_args fo cx1 cur at_ args) (evaluate_args fo cx2 cur at_ args).
Proof. intros cur at_ args. induction args as [|l r IH]; cbn [evaluate_args]; rel_tac. Qed.

Lemma rel_check_types : forall cur at_ args,
  relM eq (check_types fo cx1 cur at_ args) (check_types fo cx2 cur at_ args).
Proof. intros cur at_ args. induction args as [|[l oc] r IH]; cbn [check_types]; rel_tac. Qed.

Lemma rel_verify_each : forall cur params v args,
  relM eq (verify_each fo cx1 cur params v args) (verify_each fo cx2 cur params v args).
Proof. intros cur params v args. induction args as [|l r IH]; cbn [verify_each]; rel_tac. Qed.

Lemma rel_verify_plural : forall cur pv n,
  (forall op k msg, pv = PVWarnIfLen op k msg -> Wok msg) ->
  relM eq (verify_plural fo cx1 cur pv n) (verify_plural fo cx2 cur pv n).
Proof.
  intros cur pv n Hw. unfold verify_plural. destruct pv as [|op k msg|op k]; rel_tac.
  apply rel_warn. eapply Hw. reflexivity.
Qed.

Lemma rel_format_each : forall cur params f args,
  relM eq (format_each fo cx1 cur params f args) (format_each fo cx2 cur params f args).
Proof. intros cur params f args. induction args as [|l r IH]; cbn [format_each]; rel_tac. Qed.

Lemma rel_check_flipper : forall cur b, (b = true -> FL cur) ->
  relM eq (check_flipper fo cx1 cur b) (check_flipper fo cx2 cur b).
Proof.
  intros cur b Hb. unfold check_flipper. cbn [c_opts].
  destruct H_flip as [Hf|[Hf HE]].
  - rewrite Hf. rel_tac.
  - rewrite Hf. destruct b; cbn [andb negb]; [|rel_tac].
    destruct (flipper_commands o2); cbn [negb]; [rel_tac|].
    intros s1 s2 Hs. right. cbn [snd Interp.raise esc]. apply HE. apply Hb. reflexivity.
Qed.

(* ---------------------------------------------------------------- run_compile *)
Lemma rel_run_compile : forall cur cname tg sc name arg, TS tg sc -> (s_run sc <> RKRem -> GT tg) ->
  relM (Rrc tg) (run_compile fo child1 cx1 cur cname sc name arg) (run_compile fo child2 cx2 cur cname sc name arg).
Proof.
  intros cur cname tg sc name arg HT HGT. unfold run_compile.
  destruct (s_run sc) eqn:Ek;
    try (assert (HG : GT tg) by (apply HGT; discriminate)).
  - apply rel_ret. apply Rrc_lines. exact HG.
  - destruct arg as [l|]; [|apply rel_ret; apply Rrc_lines; exact HG].
    destruct (l_content l); [apply rel_crash|]. destruct (_ <=? _)%Z; [|apply rel_unmod].
    apply rel_ret. apply Rrc_lines. exact HG.
  - destruct arg as [l|]; [|apply rel_ret; apply Rrc_lines; exact HG].
    destruct (l_content l); [apply rel_crash|]. destruct (_ <=? _)%Z; [|apply rel_unmod].
    apply rel_ret. apply Rrc_lines. exact HG.
  - (* REM *)
    cbn [c_opts]. pose proof (H_rem tg sc HT Ek (name_line name arg)) as Hr.
    destruct (include_comments o1), (include_comments o2); apply rel_ret; exact Hr.
  - destruct arg as [l|]; [|apply rel_crash].
    eapply rel_bind; [apply rel_get_env|intros e ? <-].
    destruct (l_content l); [apply rel_unmod|]. destruct (has_key _ _); [|apply rel_raise].
    eapply rel_bind; [apply rel_set_env|intros ? ? _]. apply rel_ret. apply Rrc_lines. exact HG.
  - apply rel_ret. apply Rrc_none.
  - destruct arg as [l|]; [|apply rel_ret; apply Rrc_none].
    eapply rel_bind; [apply rel_print|intros ? ? _]. apply rel_ret. apply Rrc_comp. apply RC_nil.
  - apply rel_ret. apply Rrc_comp. apply RC_nil.
  - apply rel_ret. apply Rrc_comp. apply RC_nil.
  - apply rel_ret. apply Rrc_comp. apply RC_nil.
  - (* RUN *)
    destruct arg as [l|]; [|apply rel_crash].
    destruct (break_arg _) as [fname var_string].
    eapply rel_bind with (RA := eq).
    { destruct var_string as [vs|]; [|apply rel_ret_eq]. destruct (is_blank vs); [apply rel_ret_eq|].
      apply rel_bind_eq; [apply rel_tokenizeM|intros v]. apply rel_ret_eq. }
    intros vals ? <-.
    eapply rel_bind; [apply rel_get_env|intros e ? <-].
    destruct (lookup fname (e_funcs fo e)) as [f|]; [|apply rel_raise].
    destruct (negb _); [apply rel_raise|]. cbn [c_file].
    eapply rel_bind; [apply rel_run_child|intros cr1 cr2 [Hd Hs]]. rewrite Hs.
    destruct (cr_sig cr2); try apply rel_raise; apply rel_ret; apply Rrc_comp; (split; [exact Hd|reflexivity]).
  - destruct arg as [l|]; [|apply rel_crash].
    destruct (split_ws1 _) as [|vname [|expr [|x y]]]; try apply rel_crash.
    eapply rel_bind; [apply rel_tokenizeM|intros v ? <-].
    eapply rel_bind; [apply rel_new_var|intros ? ? _]. apply rel_ret. apply Rrc_none.
  - destruct arg as [l|]; [|apply rel_crash].
    eapply rel_bind; [apply rel_get_env|intros e ? <-].
    destruct (has_key _ _); [apply rel_ret; apply Rrc_none|apply rel_raise].
  - destruct arg as [l|]; [|apply rel_crash].
    eapply rel_bind; [apply rel_get_env|intros e ? <-].
    destruct (has_key _ _); [apply rel_raise|apply rel_ret; apply Rrc_none].
  - (* START *)
    change (c_file cx2) with (c_file cx1). change (c_fs cx2) with (c_fs cx1).
    destruct arg as [l|]; [|apply rel_crash]. destruct (c_file cx1) as [thefile|]; [|apply rel_crash].
    eapply rel_bind; [apply rel_lift|intros target ? <-].
    destruct (c_fs cx1 target) as [text|]; [|apply rel_raise].
    intros s1 s2 Hs.
    change (here cx2 cur None) with (here cx1 cur None).
    destruct (existsb _ _).
    { left. split; [exact Hs|]. destruct Hs as (_ & _ & ->). split; reflexivity. }
    destruct (prepare_text text) as [commands|[| | | |]];
      try (left; split; [exact Hs|]; first [split; reflexivity|reflexivity]).
    revert s1 s2 Hs.
    match goal with |- forall s1 s2, Rs s1 s2 -> post ?R (?m1 s1) (?m2 s2) => change (relM R m1 m2) end.
    eapply rel_bind; [apply rel_run_child|intros cr1 cr2 [Hd Hs]]. rewrite Hs.
    eapply rel_bind with (RA := eq).
    { destruct (s_sig_warning _) eqn:Ew; [apply rel_add_plain_warning; eapply Wok_sig; exact Ew|apply rel_ret_eq]. }
    intros ? ? _. destruct (str_eqb _ _).
    + apply rel_ret. apply Rrc_lines. exact HG.
    + apply rel_ret. apply Rrc_comp. split; [exact Hd|reflexivity].
Qed.

Lemma RC_accum : forall tg a1 a2 c1 c2, RC a1 a2 -> Rrc tg c1 c2 -> RC (accum tg a1 c1) (accum tg a2 c2).
Proof. intros tg a1 a2 c1 c2 Ha Hc. apply Hc. exact Ha. Qed.

Lemma rel_multi_comp : forall cur cname tg sc name args acc1 acc2, TS tg sc -> (s_run sc <> RKRem -> GT tg) ->
  RC acc1 acc2 ->
  relM RC (multi_comp fo child1 cx1 cur cname tg sc name args acc1)
          (multi_comp fo child2 cx2 cur cname tg sc name args acc2).
Proof.
  intros cur cname tg sc name args acc1 acc2 HT HGT. revert acc1 acc2.
  induction args as [|a r IH]; intros acc1 acc2 Hacc; cbn [multi_comp].
  - apply rel_ret. exact Hacc.
  - eapply rel_bind; [apply rel_set_line2|intros ? ? _].
    eapply rel_bind; [apply rel_run_compile; [exact HT|exact HGT]|intros c1 c2 Hc].
    apply IH. exact (RC_accum tg _ _ _ _ Hacc Hc).
Qed.

Lemma rel_simple_compile : forall cur cname tg sc cmd num argument code_block,
  TS tg sc -> (s_flipper_only sc = true -> FL cur) ->
  relM RC (simple_compile fo child1 cx1 cur cname tg sc cmd num argument code_block)
          (simple_compile fo child2 cx2 cur cname tg sc cmd num argument code_block).
Proof.
  intros cur cname tg sc cmd num argument code_block HT HF.
  assert (Hcase : (s_run sc <> RKRem -> GT tg) \/
                  (s_flipper_only sc = true /\ flipper_commands o1 = false /\ flipper_commands o2 = false)).
  { assert (Hdec : s_run sc = RKRem \/ s_run sc <> RKRem)
      by (destruct (s_run sc); first [left; reflexivity|right; discriminate]).
    destruct Hdec as [Hr|Hr]; [left; intro Hn; contradiction|].
    destruct (TS_lines tg sc HT Hr) as [G|F]; [left; intros _; exact G|right; exact F]. }
  destruct Hcase as [HGT|(Hf & Hf1 & Hf2)].
  2:{ (* refused by both runs *)
      intros s1 s2 Hs. unfold simple_compile, Interp.bindM, check_flipper. cbn [c_opts].
      rewrite Hf, Hf1, Hf2. cbn [andb negb]. unfold Interp.raise. cbn beta iota.
      exact (rel_raise cur cret RC EInvalidCommand s1 s2 Hs). }
  unfold simple_compile.
  apply rel_bind_eq; [apply rel_check_flipper; exact HF|intros u0].
  apply rel_bind_eq; [apply rel_listify_args|intros args0].
  apply rel_bind_eq.
  { destruct (_ || _); [|rel_tac].
    apply rel_bind_eq; [apply rel_evaluate_args|intros vs].
    induction vs as [|[l v] r IH]; rel_tac. }
  intros args2.
  apply rel_bind_eq; [rel_tac|intros u1].
  apply rel_bind_eq; [apply rel_check_types|intros args3].
  apply rel_bind_eq; [apply rel_verify_plural; intros op k msg; apply (TS_plural tg sc op k msg HT)|intros u2].
  apply rel_bind_eq; [apply rel_verify_each|intros u3].
  apply rel_bind_eq; [apply rel_format_each|intros args4].
  apply rel_multi_comp; [exact HT|exact HGT|apply RC_nil].
Qed.

(* ---------------------------------------------------------------- block commands *)
Lemma rel_tokenize_count : forall cur a, relM eq (tokenize_count fo cx1 cur a) (tokenize_count fo cx2 cur a).
Proof.
  intros. unfold tokenize_count.
  apply rel_bind_eq; [apply rel_tokenizeM|intros v]. rel_tac.
Qed.

Lemma RC_loop : forall acc1 acc2 cr1 cr2 sg, RC acc1 acc2 -> RC cr1 cr2 ->
  RC (mkCret (cr_data acc1 ++ cr_data cr1) sg) (mkCret (cr_data acc2 ++ cr_data cr2) sg).
Proof. intros acc1 acc2 cr1 cr2 sg [Ha _] [Hc _]. split; [apply Rd_app; assumption|reflexivity]. Qed.

Lemma rel_repeat_loop : forall cur fuel v a code count acc1 acc2, RC acc1 acc2 ->
  relM RC (repeat_loop fo child1 cx1 cur fuel v a code count acc1)
          (repeat_loop fo child2 cx2 cur fuel v a code count acc2).
Proof.
  intros cur fuel. induction fuel as [|f IH]; intros v a code count acc1 acc2 Hacc; cbn [repeat_loop].
  - apply rel_bind_eq; [apply rel_tokenize_count|intros n].
    destruct (count <? n)%Z; [apply rel_crash|apply rel_ret; exact Hacc].
  - apply rel_bind_eq; [apply rel_tokenize_count|intros n].
    destruct (count <? n)%Z; [|apply rel_ret; exact Hacc]. cbn [c_file].
    eapply rel_bind; [apply rel_run_child|intros cr1 cr2 Hc].
    assert (Hs : cr_sig cr1 = cr_sig cr2) by (destruct Hc as [_ Hs]; exact Hs). rewrite Hs.
    destruct (loop_signal _) as [sg brk].
    pose proof (RC_loop _ _ _ _ sg Hacc Hc) as Hacc'.
    destruct brk; [apply rel_ret; exact Hacc'|apply IH; exact Hacc'].
Qed.

Lemma rel_while_loop : forall cur fuel v a code count acc1 acc2, RC acc1 acc2 ->
  relM RC (while_loop fo child1 cx1 cur fuel v a code count acc1)
          (while_loop fo child2 cx2 cur fuel v a code count acc2).
Proof.
  intros cur fuel. induction fuel as [|f IH]; intros v a code count acc1 acc2 Hacc; cbn [while_loop].
  - destruct (cmp_eval _ _ _); [apply rel_raise|apply rel_crash].
  - destruct (cmp_eval _ _ _); [apply rel_raise|]. cbn [c_file].
    eapply rel_bind; [apply rel_run_child_with|intros [cr1|] [cr2|] Hc]; cbn [Ropt] in Hc; try contradiction.
    2:{ apply rel_ret; exact Hacc. }
    assert (Hs : cr_sig cr1 = cr_sig cr2) by (destruct Hc as [_ Hs]; exact Hs). rewrite Hs.
    destruct (loop_signal _) as [sg brk].
    pose proof (RC_loop _ _ _ _ sg Hacc Hc) as Hacc'.
    destruct brk; [apply rel_ret; exact Hacc'|apply IH; exact Hacc'].
Qed.

Lemma rel_get_temp_flag : relM eq (get_temp_flag fo) (get_temp_flag fo).
Proof. unfold get_temp_flag. rel_tac. Qed.

Lemma rel_set_temp_flag : forall b, relM eq (set_temp_flag fo b) (set_temp_flag fo b).
Proof. intros. unfold set_temp_flag. rel_tac. Qed.

Lemma rel_block_compile : forall cur bc cname cmd num argument code_block,
  (b_flipper_only bc = true -> FL cur) ->
  relM Rrcb (block_compile fo child1 cx1 cur bc cname cmd num argument code_block)
            (block_compile fo child2 cx2 cur bc cname cmd num argument code_block).
Proof.
  intros cur bc cname cmd num argument code_block HF. unfold block_compile.
  apply rel_bind_eq; [apply rel_check_flipper; exact HF|intros u0].
  apply rel_bind_eq; [rel_tac|intros u1].
  set (arg' := if b_strip_arg bc then _ else _). clearbody arg'. cbn [c_file].
  destruct (b_kind bc).
  - apply rel_bind_eq; [apply rel_get_env|intros e].
    apply rel_bind_eq; [destruct (has_key _ _); [rel_tac|apply rel_set_temp_flag]|intros u2].
    apply rel_bind_eq; [rel_tac|intros u3].
    apply rel_bind_eq.
    { destruct arg' as [a|]; [|rel_tac]. destruct (str_eqb _ _); [rel_tac|].
      apply rel_bind_eq; [apply rel_tokenizeM|intros v]. rel_tac. }
    intros tok.
    apply rel_bind_eq; [apply rel_get_temp_flag|intros flag].
    apply rel_bind_eq.
    { destruct (str_eqb _ _); [|rel_tac]. apply rel_bind_eq; [apply rel_set_temp_flag|intros u4]. rel_tac. }
    intros skip. destruct skip; [apply rel_ret; exact I|]. destruct (_ && _); [apply rel_ret; exact I|].
    apply rel_bind_eq; [apply rel_set_temp_flag|intros u5].
    eapply rel_bind; [apply rel_run_child|intros cr1 cr2 Hc]. apply rel_ret. exact Hc.
  - destruct (block_lines _) as [ls|]; [|apply rel_raise]. apply rel_ret. cbn [Rrcb].
    split; [|reflexivity]. cbn [cr_data]. apply Rd_refl_tag. apply Forall_forall. intros l Hin.
    apply in_map_iff in Hin. destruct Hin as (x & <- & _). exact GT_ignore.
  - destruct arg' as [a|]; [|apply rel_crash]. destruct (split_loop_arg a) as [var_name count_expr].
    destruct (match code_block with Some b => b | None => [] end) eqn:Ecode.
    { destruct var_name; [apply rel_raise|]. apply rel_ret. cbn [Rrcb]. split; [|reflexivity]. cbn [cr_data].
      apply Rd_refl_tag. constructor; [exact GT_legacy|constructor]. }
    destruct (match var_name with Some v => _ | None => _ end); [|apply rel_raise].
    eapply rel_bind; [apply rel_repeat_loop; apply RC_nil|intros cr1 cr2 Hc]. apply rel_ret. exact Hc.
  - destruct arg' as [a|]; [|apply rel_crash]. destruct (split_loop_arg a) as [var_name cond].
    eapply rel_bind; [apply rel_while_loop; apply RC_nil|intros cr1 cr2 Hc]. apply rel_ret. exact Hc.
  - destruct arg' as [a|]; [|apply rel_crash]. destruct (break_arg a) as [fname var_string].
    destruct (_ && _); [|apply rel_raise].
    apply rel_bind_eq; [apply rel_get_env|intros e].
    apply rel_bind_eq; [apply rel_set_env|intros u]. apply rel_ret. exact I.
Qed.

(* ---------------------------------------------------------------- one line, the stack *)
Theorem rel_exec_line : forall c n code_block,
  relM RC (exec_line fo child1 cx1 c n code_block) (exec_line fo child2 cx2 c n code_block).
Proof.
  intros c n code_block. unfold exec_line.
  destruct (split_ws1 c) as [|cmd more] eqn:Es; [apply rel_crash|].
  destruct (find_command _ _ _) as [[cname cl]|] eqn:Ef.
  - cbn [c_file]. destruct (_ && _); [apply rel_raise|]. destruct cl as [sc|bc].
    + apply rel_simple_compile; [eapply TS_found; exact Ef|].
      intro Hf. eapply H_FL; [exact Es|exact Ef|exact Hf].
    + eapply rel_bind; [apply rel_block_compile; intro Hf; eapply H_FL; [exact Es|exact Ef|exact Hf]|].
      intros [|l1|c1] [|l2|c2] Hr; cbn [Rrcb] in Hr; try contradiction.
      * apply rel_ret. apply RC_nil.
      * apply rel_ret. exact Hr.
  - cbn [c_opts]. eapply rel_bind with (RA := eq).
    + destruct H_sup as [[Hsup Hw]|(Hs1 & Hs2 & Hw)].
      * rewrite Hsup. destruct (supress_command_not_exist o2); [apply rel_ret_eq|apply rel_warn; apply Hw].
      * rewrite Hs1, Hs2. intros s1 s2 (Hg & He & Hl). left. split; [|reflexivity].
        split; [|split; [exact He|exact Hl]]. cbn [fst Interp.s_g Interp.warn]. apply Hw. exact Hg.
    + intros ? ? _. apply rel_simple_compile; [exact TS_unknown|]. cbn [generic_simple s_flipper_only]. discriminate.
Qed.

Theorem rel_exec_cmds : forall cmds acc1 acc2, Rd acc1 acc2 ->
  relM RC (exec_cmds fo child1 cx1 cmds acc1) (exec_cmds fo child2 cx2 cmds acc2).
Proof.
  intros cmds. induction cmds as [|[c n|b] rest IH]; intros acc1 acc2 Hacc; cbn [exec_cmds].
  - apply rel_ret. split; [exact Hacc|reflexivity].
  - destruct (is_blank c); [apply IH; exact Hacc|].
    eapply rel_bind; [apply rel_set_line2|intros ? ? _].
    eapply rel_bind; [apply rel_exec_line|intros cr1 cr2 [Hd Hs]]. rewrite Hs.
    assert (Hacc' : Rd (acc1 ++ cr_data cr1) (acc2 ++ cr_data cr2)) by (apply Rd_app; assumption).
    destruct (cr_sig cr2); try (apply rel_ret; split; [exact Hacc'|reflexivity]).
    apply IH. exact Hacc'.
  - apply IH. exact Hacc.
Qed.

Theorem rel_run_with : forall g1 g2 e cmds, Rg g1 g2 ->
  postR (run_with fo child1 cx1 g1 e cmds) (run_with fo child2 cx2 g2 e cmds).
Proof.
  intros g1 g2 e cmds Hg. unfold run_with.
  assert (Hs : Rs (mkSt fo g1 e None) (mkSt fo g2 e None)) by (split; [exact Hg|split; reflexivity]).
  pose proof (rel_exec_cmds cmds [] [] Rd_nil _ _ Hs) as H.
  destruct (exec_cmds fo child1 _ _ _ _) as [s1 r1]. destruct (exec_cmds fo child2 _ _ _ _) as [s2 r2].
  unfold post in H. cbn [fst snd] in H. destruct H as [[(Hg' & He & Hl) Hr]|He].
  - left. destruct r1 as [cr1|e1 t1|k1|], r2 as [cr2|e2 t2|k2|]; cbn [rres] in Hr; try contradiction;
      cbn [fst snd]; (split; [exact Hg'|]); cbn [rres]; try exact Hr.
    split; [exact Hr|exact He].
  - right. destruct r2 as [cr2|e2 t2|k2|]; cbn [esc] in He; try contradiction. exact He.
Qed.

End Stack.

(* ------------------------------------------------------------------ the depth-indexed interpreter *)
Theorem rel_run : forall d fs pile file g1 g2 e cmds, Rg g1 g2 ->
  postR (run fo d (mkCtx o1 fs pile file) g1 e cmds) (run fo d (mkCtx o2 fs pile file) g2 e cmds).
Proof.
  induction d as [|d IH]; intros fs pile file g1 g2 e cmds Hg; cbn [run].
  - apply rel_run_with; [|exact Hg]. intros cur l2 file' g1' g2' e' code Hg'. left. split; [exact Hg'|reflexivity].
  - apply rel_run_with; [|exact Hg]. intros cur l2 file' g1' g2' e' code Hg'. apply IH. exact Hg'.
Qed.

(* ------------------------------------------------------------------ Compiler.compile *)
Hypothesis Rg_init : Rg (mkGlob [] []) (mkGlob [] []).

Definition Rcomp (g1 g2 : glob) (c1 c2 : compiled fo) : Prop :=
  Rd (out fo c1) (out fo c2) /\ final_env fo c1 = final_env fo c2 /\
  warnings fo c1 = rev (g_warnings g1) /\ warnings fo c2 = rev (g_warnings g2) /\
  prints fo c1 = rev (g_prints g1) /\ prints fo c2 = rev (g_prints g2).

Theorem rel_compile_items : forall fs file cmds g1 r1 g2 r2,
  compile_items fo o1 fs file cmds = (g1, r1) ->
  compile_items fo o2 fs file cmds = (g2, r2) ->
  (Rg g1 g2 /\ rres (Rcomp g1 g2) r1 r2) \/ esc r2.
Proof.
  intros fs file cmds g1 r1 g2 r2 E1 E2. unfold compile_items in E1, E2.
  assert (Hd : run_depth o1 = run_depth o2) by (unfold run_depth; rewrite Hlimit; reflexivity).
  rewrite Hd in E1.
  pose proof (rel_run (run_depth o2) fs [] file _ _ (initial_env fo) cmds Rg_init) as H.
  destruct (run fo _ (mkCtx o1 _ _ _) _ _ _) as [g1' x1]. destruct (run fo _ (mkCtx o2 _ _ _) _ _ _) as [g2' x2].
  unfold postR in H. cbn [fst snd] in H. destruct H as [[Hg Hr]|He].
  - left. destruct x1 as [[cr1 e1]|er1 t1|k1|], x2 as [[cr2 e2]|er2 t2|k2|]; cbn [rres] in Hr; try contradiction;
      injection E1 as <- <-; injection E2 as <- <-.
    + destruct Hr as [[Hdd Hs] Hee]. cbn [fst snd] in Hdd, Hs, Hee. subst e2. rewrite Hs.
      assert (Hg' : Rg (match s_sig_warning (cr_sig cr2) with Some w => add_warning (mkWarn w None) g1' | None => g1' end)
                       (match s_sig_warning (cr_sig cr2) with Some w => add_warning (mkWarn w None) g2' | None => g2' end)).
      { destruct (s_sig_warning _) eqn:Ew; [|exact Hg]. apply Rg_warn; [eapply Wok_sig; exact Ew|exact Hg]. }
      split; [exact Hg'|]. cbn [rres]. unfold Rcomp. cbn [out final_env warnings prints].
      repeat split; try reflexivity. exact Hdd.
    + split; [exact Hg|exact Hr].
    + split; [exact Hg|exact Hr].
    + split; [exact Hg|exact I].
  - right. destruct x2 as [[cr2 e2]|er2 t2|k2|]; cbn [esc] in He; try contradiction.
    injection E2 as <- <-. exact He.
Qed.

End Rel.
