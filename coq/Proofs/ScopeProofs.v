(* Scope / environment proofs: association lists (S1), block entry (S2) and exit (S3),
   run_child_with frame properties (S4), loop signals (S5), the $IF_SUCCESS flag (S6). *)
From Coq Require Import NArith ZArith List Bool Lia.
From DS Require Import Base PyStr Values Expr TabParse Tables Constants Interp.
Import ListNotations.

(* ================================================================== S1: association lists *)

Lemma str_eqb_refl : forall a : str, str_eqb a a = true.
Proof.
  induction a as [|x a IH]; cbn [str_eqb]; [reflexivity|].
  rewrite N.eqb_refl, IH. reflexivity.
Qed.

Lemma str_eqb_eq : forall a b : str, str_eqb a b = true <-> a = b.
Proof.
  induction a as [|x a IH]; intros [|y b]; cbn [str_eqb]; split; intro H;
    try reflexivity; try discriminate.
  - apply andb_true_iff in H. destruct H as [Hx Hr].
    apply N.eqb_eq in Hx. apply IH in Hr. subst. reflexivity.
  - injection H as Hx Hr. subst. rewrite N.eqb_refl. cbn. apply IH. reflexivity.
Qed.

Lemma str_eqb_neq : forall a b : str, str_eqb a b = false <-> a <> b.
Proof.
  intros a b. split.
  - intros H Heq. apply str_eqb_eq in Heq. congruence.
  - intro Hne. destruct (str_eqb a b) eqn:E; [|reflexivity].
    apply str_eqb_eq in E. contradiction.
Qed.

Lemma str_eqb_sym : forall a b : str, str_eqb a b = str_eqb b a.
Proof.
  intros a b. destruct (str_eqb a b) eqn:E.
  - apply str_eqb_eq in E. subst. symmetry. apply str_eqb_refl.
  - symmetry. apply str_eqb_neq. apply str_eqb_neq in E. congruence.
Qed.

Lemma NoDup_snoc : forall (T : Type) (l : list T) (a : T), NoDup l -> ~ In a l -> NoDup (l ++ [a]).
Proof.
  intros T l a Hnd Hn. induction Hnd as [|x l Hx Hnd IH]; cbn [app].
  - constructor; [intros []|constructor].
  - constructor.
    + intro Hin. apply in_app_or in Hin. destruct Hin as [Hin|[Heq|[]]]; [contradiction|].
      apply Hn. left. symmetry. exact Heq.
    + apply IH. intro Hin. apply Hn. right. exact Hin.
Qed.

Section Assoc.
Context {A : Type}.
Implicit Types (l src dst self other : list (str * A)) (k x : str) (v : A).

Definition nodup_keys l : Prop := NoDup (map fst l).

Lemma lookup_upd_same : forall k v l, lookup k (upd k v l) = Some v.
Proof.
  intros k v l. induction l as [|[k' v'] r IH]; cbn [upd lookup].
  - rewrite str_eqb_refl. reflexivity.
  - destruct (str_eqb k k') eqn:E; cbn [lookup].
    + rewrite str_eqb_refl. reflexivity.
    + rewrite E. exact IH.
Qed.

Lemma lookup_upd_other : forall k k' v l,
  str_eqb k k' = false -> lookup k (upd k' v l) = lookup k l.
Proof.
  intros k k' v l Hne. induction l as [|[k2 v2] r IH]; cbn [upd lookup].
  - rewrite Hne. reflexivity.
  - destruct (str_eqb k' k2) eqn:E; cbn [lookup].
    + apply str_eqb_eq in E. subst k2. rewrite Hne. reflexivity.
    + destruct (str_eqb k k2); [reflexivity|exact IH].
Qed.

Lemma lookup_upd : forall k k' v l,
  lookup k (upd k' v l) = if str_eqb k k' then Some v else lookup k l.
Proof.
  intros k k' v l. destruct (str_eqb k k') eqn:E.
  - apply str_eqb_eq in E. subst. apply lookup_upd_same.
  - apply lookup_upd_other. exact E.
Qed.

Lemma lookup_None_notin : forall k l, lookup k l = None <-> ~ In k (map fst l).
Proof.
  intros k l. induction l as [|[k' v'] r IH]; cbn [lookup map fst In].
  - split; [intros _ []|reflexivity].
  - destruct (str_eqb k k') eqn:E.
    + apply str_eqb_eq in E. subst. split; [discriminate|]. intro H. exfalso. apply H. left. reflexivity.
    + apply str_eqb_neq in E. rewrite IH. split.
      * intros Hn [Heq|Hin]; [congruence|contradiction].
      * intros Hn Hin. apply Hn. right. exact Hin.
Qed.

Lemma has_key_In : forall k l, has_key k l = true <-> In k (map fst l).
Proof.
  intros k l. unfold has_key. destruct (lookup k l) eqn:E.
  - split; [intros _|reflexivity].
    destruct (in_dec (list_eq_dec N.eq_dec) k (map fst l)) as [Hin|Hn]; [exact Hin|].
    apply lookup_None_notin in Hn. congruence.
  - split; [discriminate|]. intro Hin. apply lookup_None_notin in E. contradiction.
Qed.

Lemma has_key_false_notin : forall k l, has_key k l = false <-> ~ In k (map fst l).
Proof.
  intros k l. rewrite <- has_key_In. destruct (has_key k l); split; congruence.
Qed.

Lemma has_key_upd : forall k k' v l, has_key k (upd k' v l) = str_eqb k k' || has_key k l.
Proof.
  intros k k' v l. unfold has_key. rewrite lookup_upd. destruct (str_eqb k k'); reflexivity.
Qed.

(* dict.update keeps the position of an existing key and appends a new one *)
Lemma keys_upd : forall k v l,
  map fst (upd k v l) = if has_key k l then map fst l else map fst l ++ [k].
Proof.
  intros k v l. induction l as [|[k' v'] r IH]; cbn [upd map fst]; [reflexivity|].
  unfold has_key in *. cbn [lookup]. destruct (str_eqb k k') eqn:E; cbn [map fst].
  - apply str_eqb_eq in E. subst. reflexivity.
  - rewrite IH. destruct (lookup k r); reflexivity.
Qed.

Lemma nodup_keys_upd : forall k v l, nodup_keys l -> nodup_keys (upd k v l).
Proof.
  intros k v l H. unfold nodup_keys in *. rewrite keys_upd.
  destruct (has_key k l) eqn:E; [exact H|].
  apply has_key_false_notin in E.
  apply NoDup_snoc; assumption.
Qed.

Lemma nodup_keys_upd_all : forall src dst, nodup_keys dst -> nodup_keys (upd_all src dst).
Proof.
  unfold upd_all. induction src as [|[k v] src IH]; intros dst H; cbn [fold_left fst snd].
  - exact H.
  - apply IH. apply nodup_keys_upd. exact H.
Qed.

Lemma nodup_keys_nil : nodup_keys ([] : list (str * A)).
Proof. constructor. Qed.

Lemma lookup_app : forall k l1 l2,
  lookup k (l1 ++ l2) = match lookup k l1 with Some v => Some v | None => lookup k l2 end.
Proof.
  intros k l1 l2. induction l1 as [|[k' v'] r IH]; cbn [app lookup]; [reflexivity|].
  destruct (str_eqb k k'); [reflexivity|exact IH].
Qed.

(* the LAST write wins in upd_all *)
Lemma lookup_upd_all : forall k src dst,
  lookup k (upd_all src dst) =
  match lookup k (rev src) with Some v => Some v | None => lookup k dst end.
Proof.
  unfold upd_all. intros k src. induction src as [|[k' v'] src IH]; intro dst; cbn [fold_left fst snd rev].
  - reflexivity.
  - rewrite IH, lookup_app. destruct (lookup k (rev src)); [reflexivity|].
    cbn [lookup]. rewrite lookup_upd. destruct (str_eqb k k'); reflexivity.
Qed.

Lemma lookup_rev_nodup : forall k l, nodup_keys l -> lookup k (rev l) = lookup k l.
Proof.
  intros k l H. unfold nodup_keys in H. induction l as [|[k' v'] r IH]; [reflexivity|].
  cbn [map fst] in H. inversion H as [|a b Hn Hnd]; subst.
  cbn [rev lookup]. rewrite lookup_app, (IH Hnd). cbn [lookup].
  destruct (str_eqb k k') eqn:E.
  - apply str_eqb_eq in E. subst k'. apply lookup_None_notin in Hn. rewrite Hn. reflexivity.
  - destruct (lookup k r); reflexivity.
Qed.

Lemma lookup_upd_all_nodup : forall k src dst, nodup_keys src ->
  lookup k (upd_all src dst) =
  match lookup k src with Some v => Some v | None => lookup k dst end.
Proof.
  intros k src dst H. rewrite lookup_upd_all, lookup_rev_nodup by exact H. reflexivity.
Qed.

Lemma lookup_upd_all_nil : forall k src, nodup_keys src -> lookup k (upd_all src []) = lookup k src.
Proof.
  intros k src H. rewrite lookup_upd_all_nodup by exact H. destruct (lookup k src); reflexivity.
Qed.

(* restrict_from: the keys of [self] that [other] still has, with [other]'s values *)
Lemma lookup_restrict_from : forall x self other,
  lookup x (restrict_from self other) = if has_key x self then lookup x other else None.
Proof.
  intros x self other. unfold restrict_from, has_key.
  induction self as [|[k v] r IH]; cbn [flat_map fst lookup]; [reflexivity|].
  rewrite lookup_app, IH. destruct (str_eqb x k) eqn:E.
  - apply str_eqb_eq in E. subst k. destruct (lookup x other) eqn:Eo; cbn [lookup].
    + rewrite str_eqb_refl. reflexivity.
    + destruct (lookup x r); reflexivity.
  - destruct (lookup k other); cbn [lookup]; [rewrite E|]; reflexivity.
Qed.

Lemma keys_restrict_from : forall self other,
  map fst (restrict_from self other) = filter (fun k => has_key k other) (map fst self).
Proof.
  intros self other. unfold restrict_from, has_key.
  induction self as [|[k v] r IH]; cbn [flat_map map fst filter]; [reflexivity|].
  rewrite map_app, IH. destruct (lookup k other); reflexivity.
Qed.

Lemma keys_restrict_from_all : forall self other,
  (forall k, has_key k self = true -> has_key k other = true) ->
  map fst (restrict_from self other) = map fst self.
Proof.
  intros self other H. rewrite keys_restrict_from.
  assert (Hall : forall k, In k (map fst self) -> has_key k other = true).
  { intros k Hin. apply H. apply has_key_In. exact Hin. }
  clear H. induction (map fst self) as [|k ks IH]; cbn [filter]; [reflexivity|].
  rewrite (Hall k (or_introl eq_refl)). f_equal. apply IH.
  intros k' Hin. apply Hall. right. exact Hin.
Qed.

Lemma NoDup_filter : forall (T : Type) (f : T -> bool) (l : list T), NoDup l -> NoDup (filter f l).
Proof.
  intros T f l H. induction H as [|x l Hx Hnd IH]; cbn [filter]; [constructor|].
  destruct (f x); [|exact IH]. constructor; [|exact IH].
  intro Hin. apply filter_In in Hin. destruct Hin as [Hin _]. contradiction.
Qed.

Lemma nodup_keys_restrict_from : forall self other, nodup_keys self -> nodup_keys (restrict_from self other).
Proof.
  intros self other H. unfold nodup_keys in *. rewrite keys_restrict_from. apply NoDup_filter. exact H.
Qed.

Lemma upd_upd : forall k v v' l, upd k v (upd k v' l) = upd k v l.
Proof.
  intros k v v' l. induction l as [|[k2 v2] r IH]; cbn [upd].
  - rewrite str_eqb_refl. reflexivity.
  - destruct (str_eqb k k2) eqn:E; cbn [upd].
    + rewrite str_eqb_refl. reflexivity.
    + rewrite E, IH. reflexivity.
Qed.

End Assoc.

(* ================================================================== environments *)
Section Env.
Variable fo : FloatOps.
Notation value := (value fo).
Notation env := (env fo).
Notation st := (st fo).
Notation e_sys := (e_sys fo).
Notation e_user := (e_user fo).
Notation e_temp := (e_temp fo).
Notation e_funcs := (e_funcs fo).
Notation mkEnv := (mkEnv fo).
Notation empty_env := (empty_env fo).
Notation append_env := (append_env fo).
Notation update_from_env := (update_from_env fo).
Notation initial_env := (initial_env fo).
Notation s_env := (s_env fo).
Notation s_g := (s_g fo).
Notation s_line2 := (s_line2 fo).
Notation mkSt := (mkSt fo).

(* the invariant: no key occurs twice in a table (a Python dict) *)
Definition env_wf (e : env) : Prop :=
  nodup_keys (e_sys e) /\ nodup_keys (e_user e) /\ nodup_keys (e_temp e) /\ nodup_keys (e_funcs e).

Lemma env_wf_empty : env_wf empty_env.
Proof. repeat split; constructor. Qed.

Lemma env_wf_initial : env_wf initial_env.
Proof.
  repeat split; try constructor.
  - intros [].
  - constructor.
Qed.

Lemma env_wf_upd_sys : forall e k v, env_wf e -> env_wf (mkEnv (upd k v (e_sys e)) (e_user e) (e_temp e) (e_funcs e)).
Proof. intros e k v (H1 & H2 & H3 & H4). repeat split; cbn; try assumption. apply nodup_keys_upd. exact H1. Qed.
Lemma env_wf_upd_user : forall e k v, env_wf e -> env_wf (mkEnv (e_sys e) (upd k v (e_user e)) (e_temp e) (e_funcs e)).
Proof. intros e k v (H1 & H2 & H3 & H4). repeat split; cbn; try assumption. apply nodup_keys_upd. exact H2. Qed.
Lemma env_wf_upd_temp : forall e k v, env_wf e -> env_wf (mkEnv (e_sys e) (e_user e) (upd k v (e_temp e)) (e_funcs e)).
Proof. intros e k v (H1 & H2 & H3 & H4). repeat split; cbn; try assumption. apply nodup_keys_upd. exact H3. Qed.
Lemma env_wf_upd_funcs : forall e k f, env_wf e -> env_wf (mkEnv (e_sys e) (e_user e) (e_temp e) (upd k f (e_funcs e))).
Proof. intros e k v (H1 & H2 & H3 & H4). repeat split; cbn; try assumption. apply nodup_keys_upd. exact H4. Qed.

Lemma env_wf_upd_all_user : forall e (src : list (str * value)),
  env_wf e -> env_wf (mkEnv (e_sys e) (fold_left (fun u nv => upd (fst nv) (snd nv) u) src (e_user e)) (e_temp e) (e_funcs e)).
Proof.
  intros e src (H1 & H2 & H3 & H4). repeat split; cbn; try assumption.
  apply (nodup_keys_upd_all src). exact H2.
Qed.

(* append_env needs the invariant of [self] only *)
Lemma env_wf_append_env : forall self other, env_wf self -> env_wf (append_env self other).
Proof.
  intros self other (H1 & H2 & H3 & H4). unfold append_env.
  repeat split; cbn; try assumption; apply nodup_keys_upd_all; assumption.
Qed.

Lemma env_wf_update_from_env : forall self other, env_wf self -> env_wf (update_from_env self other).
Proof.
  intros self other (H1 & H2 & H3 & H4). unfold update_from_env.
  repeat split; cbn; try assumption; apply nodup_keys_restrict_from; assumption.
Qed.

(* the environment a block starts with is always well formed, whatever the parent is *)
Lemma env_wf_entry : forall parent, env_wf (append_env empty_env parent).
Proof. intro parent. apply env_wf_append_env. apply env_wf_empty. Qed.

(* ------------------------------------------------------------------ S2: entry *)
Lemma entry_sees_outer : forall parent x, nodup_keys (e_user parent) ->
  lookup x (e_user (append_env empty_env parent)) = lookup x (e_user parent).
Proof. intros parent x H. cbn. apply lookup_upd_all_nil. exact H. Qed.

Lemma entry_sees_outer_sys : forall parent x, nodup_keys (e_sys parent) ->
  lookup x (e_sys (append_env empty_env parent)) = lookup x (e_sys parent).
Proof. intros parent x H. cbn. apply lookup_upd_all_nil. exact H. Qed.

Lemma entry_sees_outer_funcs : forall parent x, nodup_keys (e_funcs parent) ->
  lookup x (e_funcs (append_env empty_env parent)) = lookup x (e_funcs parent).
Proof. intros parent x H. cbn. apply lookup_upd_all_nil. exact H. Qed.

(* without the invariant the statement is false: the copy keeps the LAST binding, lookup the FIRST *)
Lemma entry_sees_outer_needs_nodup :
  let parent := mkEnv [] [([97%N], VInt 1); ([97%N], VInt 2)] [] [] in
  lookup [97%N] (e_user (append_env empty_env parent)) = Some (VInt 2) /\
  lookup [97%N] (e_user parent) = Some (VInt 1).
Proof. split; reflexivity. Qed.

Lemma entry_temp_empty : forall parent, e_temp (append_env empty_env parent) = [].
Proof. reflexivity. Qed.

(* IF chains inside a block decide independently: there is no flag at the start *)
Lemma entry_no_flag : forall parent, lookup if_success (e_temp (append_env empty_env parent)) = None.
Proof. reflexivity. Qed.

(* same keys as the parent: a block starts with exactly the parent's variables *)
Lemma entry_has_key : forall parent x,
  has_key x (e_user (append_env empty_env parent)) = has_key x (e_user parent).
Proof.
  intros parent x. cbn. unfold has_key. rewrite lookup_upd_all. cbn [lookup].
  destruct (lookup x (rev (e_user parent))) eqn:E.
  - destruct (lookup x (e_user parent)) eqn:E2; [reflexivity|].
    apply lookup_None_notin in E2. exfalso. apply E2.
    apply in_rev. rewrite <- map_rev. apply has_key_In. unfold has_key. rewrite E. reflexivity.
  - apply lookup_None_notin in E. destruct (lookup x (e_user parent)) eqn:E2; [|reflexivity].
    exfalso. apply E. rewrite map_rev. apply -> in_rev. apply has_key_In. unfold has_key. rewrite E2. reflexivity.
Qed.

(* ------------------------------------------------------------------ S3: exit *)
Lemma exit_values : forall parent child x,
  lookup x (e_user (update_from_env parent child)) =
  if has_key x (e_user parent) then lookup x (e_user child) else None.
Proof. intros parent child x. cbn. apply lookup_restrict_from. Qed.

Lemma exit_values_sys : forall parent child x,
  lookup x (e_sys (update_from_env parent child)) =
  if has_key x (e_sys parent) then lookup x (e_sys child) else None.
Proof. intros parent child x. cbn. apply lookup_restrict_from. Qed.

Lemma exit_dom : forall parent child,
  (forall k, has_key k (e_user parent) = true -> has_key k (e_user child) = true) ->
  map fst (e_user (update_from_env parent child)) = map fst (e_user parent).
Proof. intros parent child H. cbn. apply keys_restrict_from_all. exact H. Qed.

(* in general: the parent's keys, in the parent's order, minus those the child lost *)
Lemma exit_dom_general : forall parent child,
  map fst (e_user (update_from_env parent child)) =
  filter (fun k => has_key k (e_user child)) (map fst (e_user parent)).
Proof. intros parent child. cbn. apply keys_restrict_from. Qed.

Lemma exit_funcs : forall parent child, e_funcs (update_from_env parent child) = e_funcs parent.
Proof. reflexivity. Qed.

Lemma exit_temp : forall parent child, e_temp (update_from_env parent child) = e_temp parent.
Proof. reflexivity. Qed.

(* what a block creates dies with it *)
Lemma exit_created_dies : forall parent child x,
  has_key x (e_user parent) = false -> lookup x (e_user (update_from_env parent child)) = None.
Proof. intros parent child x H. rewrite exit_values, H. reflexivity. Qed.

(* assignments to outer variables survive *)
Lemma exit_assignment_survives : forall parent child x,
  has_key x (e_user parent) = true ->
  lookup x (e_user (update_from_env parent child)) = lookup x (e_user child).
Proof. intros parent child x H. rewrite exit_values, H. reflexivity. Qed.

(* ------------------------------------------------------------------ S4: run_child_with *)
Notation run_child_with := (run_child_with fo).
Notation run_child := (run_child fo).

Lemma run_child_with_frame :
  forall child cx cur code file parallel setup pre s s' r,
  run_child_with child cx cur code file parallel setup pre s = (s', IOk _ r) ->
  e_temp (s_env s') = e_temp (s_env s) /\
  s_line2 s' = s_line2 s /\
  (parallel = false -> e_funcs (s_env s') = e_funcs (s_env s)).
Proof.
  intros child cx cur code file parallel setup pre s s' r H.
  unfold Interp.run_child_with in H.
  destruct (cmp_eval _ _ _); [discriminate|].
  destruct (setup _) as [cenv1| | |]; try discriminate.
  destruct (pre cenv1) as [[|]| | |]; try discriminate.
  - destruct (child _ _ _ _) as [g' [[cr cenv2]| | |]]; try discriminate.
    injection H as Hs Hr. subst s'. cbn. destruct parallel; cbn; repeat split; try reflexivity.
    intro Hf. discriminate.
  - injection H as Hs Hr. subst s'. cbn. destruct parallel; cbn; repeat split; try reflexivity.
    intro Hf. discriminate.
Qed.

Lemma child_preserves_parent_temp :
  forall child cx cur code file parallel setup pre s s' r,
  run_child_with child cx cur code file parallel setup pre s = (s', IOk _ r) ->
  e_temp (s_env s') = e_temp (s_env s).
Proof. intros. eapply run_child_with_frame. eassumption. Qed.

Lemma child_preserves_parent_funcs :
  forall child cx cur code file setup pre s s' r,
  run_child_with child cx cur code file false setup pre s = (s', IOk _ r) ->
  e_funcs (s_env s') = e_funcs (s_env s).
Proof. intros. eapply run_child_with_frame; [eassumption|reflexivity]. Qed.

Lemma child_preserves_line2 :
  forall child cx cur code file parallel setup pre s s' r,
  run_child_with child cx cur code file parallel setup pre s = (s', IOk _ r) ->
  s_line2 s' = s_line2 s.
Proof. intros. eapply run_child_with_frame. eassumption. Qed.

(* on failure the environment is untouched altogether *)
Lemma run_child_with_fail_env :
  forall child cx cur code file parallel setup pre s s' res,
  run_child_with child cx cur code file parallel setup pre s = (s', res) ->
  (forall r, res <> IOk _ r) ->
  s_env s' = s_env s /\ s_line2 s' = s_line2 s.
Proof.
  intros child cx cur code file parallel setup pre s s' res H Hne.
  unfold Interp.run_child_with in H.
  destruct (cmp_eval _ _ _); [injection H as <- <-; split; reflexivity|].
  destruct (setup _) as [cenv1| | |]; try (injection H as <- <-; split; reflexivity).
  destruct (pre cenv1) as [[|]| | |]; try (injection H as <- <-; split; reflexivity).
  - destruct (child _ _ _ _) as [g' [[cr cenv2]| | |]]; injection H as <- <-; try (split; reflexivity).
    exfalso. eapply Hne. reflexivity.
  - injection H as <- <-. exfalso. eapply Hne. reflexivity.
Qed.

Lemma run_child_frame :
  forall child cx cur code file parallel setup s s' cr,
  run_child child cx cur code file parallel setup s = (s', IOk _ cr) ->
  e_temp (s_env s') = e_temp (s_env s) /\
  s_line2 s' = s_line2 s /\
  (parallel = false -> e_funcs (s_env s') = e_funcs (s_env s)).
Proof.
  intros child cx cur code file parallel setup s s' cr H.
  unfold Interp.run_child, bindM in H.
  destruct (run_child_with _ _ _ _ _ _ _ _ s) as [s1 [[c|]| | |]] eqn:E; try discriminate.
  unfold ret in H. injection H as <- <-. eapply run_child_with_frame. exact E.
Qed.

(* the well-formedness invariant goes through a block, whatever the setup and the child do
   (copy-back and parallel append only need the parent's invariant) *)
Lemma run_child_with_wf :
  forall child cx cur code file parallel setup pre s s' r,
  env_wf (s_env s) ->
  run_child_with child cx cur code file parallel setup pre s = (s', r) ->
  env_wf (s_env s').
Proof.
  intros child cx cur code file parallel setup pre s s' r Hwf H.
  unfold Interp.run_child_with in H.
  destruct (cmp_eval _ _ _); [injection H as <- <-; exact Hwf|].
  destruct (setup _) as [cenv1| | |]; try (injection H as <- <-; exact Hwf).
  destruct (pre cenv1) as [[|]| | |]; try (injection H as <- <-; exact Hwf).
  - destruct (child _ _ _ _) as [g' [[cr cenv2]| | |]]; injection H as <- <-; try exact Hwf.
    cbn. destruct parallel; [apply env_wf_append_env|apply env_wf_update_from_env]; exact Hwf.
  - injection H as <- <-. cbn.
    destruct parallel; [apply env_wf_append_env|apply env_wf_update_from_env]; exact Hwf.
Qed.

(* ------------------------------------------------------------------ S5: loops absorb BREAK / CONTINUE *)
Notation repeat_loop := (repeat_loop fo).
Notation while_loop := (while_loop fo).

Definition absorbed (sg : signal) : Prop := sg = SNormal \/ sg = SReturn.

Lemma loop_signal_absorbs : forall sg, fst (loop_signal sg) = SNormal \/ fst (loop_signal sg) = SReturn.
Proof. intros [| | |]; cbn; auto. Qed.

(* a loop goes on only after a Normal/Continue body, and RETURN always stops it *)
Lemma loop_signal_continues : forall sg, snd (loop_signal sg) = false -> fst (loop_signal sg) = SNormal.
Proof. intros [| | |]; cbn; intro H; try reflexivity; discriminate. Qed.

Lemma loop_signal_return : forall sg, fst (loop_signal sg) = SReturn <-> sg = SReturn.
Proof. intros [| | |]; cbn; split; intro H; try reflexivity; discriminate. Qed.

Lemma repeat_loop_spec :
  forall child cx cur fuel v a code count acc s s' cr,
  repeat_loop child cx cur fuel v a code count acc s = (s', IOk _ cr) ->
  (absorbed (cr_sig acc) -> absorbed (cr_sig cr)) /\
  (exists suffix, cr_data cr = cr_data acc ++ suffix).
Proof.
  intros child cx cur fuel. induction fuel as [|f IH]; intros v a code count acc s s' cr H.
  - cbn [Interp.repeat_loop] in H. unfold bindM at 1 in H.
    destruct (tokenize_count _ _ _ _ s) as [s1 [n| | |]]; try discriminate.
    destruct (count <? n)%Z.
    + unfold crash in H. discriminate.
    + unfold ret in H. injection H as <- <-. split; [auto|]. exists []. rewrite app_nil_r. reflexivity.
  - cbn [Interp.repeat_loop] in H. unfold bindM at 1 in H.
    destruct (tokenize_count _ _ _ _ s) as [s1 [n| | |]]; try discriminate.
    destruct (count <? n)%Z.
    + unfold bindM at 1 in H.
      destruct (Interp.run_child _ _ _ _ _ _ _ _ s1) as [s2 [c| | |]]; try discriminate.
      pose proof (loop_signal_absorbs (cr_sig c)) as Habs.
      destruct (loop_signal (cr_sig c)) as [sg brk]. cbn [fst] in Habs. destruct brk.
      * unfold ret in H. injection H as <- <-. cbn. split; [intros _; exact Habs|].
        exists (cr_data c). reflexivity.
      * apply IH in H. cbn in H. destruct H as [H1 [suf H2]]. split.
        -- intros _. apply H1. exact Habs.
        -- exists (cr_data c ++ suf). rewrite H2, app_assoc. reflexivity.
    + unfold ret in H. injection H as <- <-. split; [auto|]. exists []. rewrite app_nil_r. reflexivity.
Qed.

Lemma repeat_loop_absorbs :
  forall child cx cur fuel v a code count acc s s' cr,
  (cr_sig acc = SNormal \/ cr_sig acc = SReturn) ->
  repeat_loop child cx cur fuel v a code count acc s = (s', IOk _ cr) ->
  cr_sig cr = SNormal \/ cr_sig cr = SReturn.
Proof. intros child cx cur fuel v a code count acc s s' cr Hacc H. apply repeat_loop_spec in H. apply H. exact Hacc. Qed.

Lemma repeat_loop_output_prefix :
  forall child cx cur fuel v a code count acc s s' cr,
  repeat_loop child cx cur fuel v a code count acc s = (s', IOk _ cr) ->
  exists suffix, cr_data cr = cr_data acc ++ suffix.
Proof. intros child cx cur fuel v a code count acc s s' cr H. apply repeat_loop_spec in H. apply H. Qed.

Lemma while_loop_spec :
  forall child cx cur fuel v a code count acc s s' cr,
  while_loop child cx cur fuel v a code count acc s = (s', IOk _ cr) ->
  (absorbed (cr_sig acc) -> absorbed (cr_sig cr)) /\
  (exists suffix, cr_data cr = cr_data acc ++ suffix).
Proof.
  intros child cx cur fuel. induction fuel as [|f IH]; intros v a code count acc s s' cr H.
  - cbn [Interp.while_loop] in H. destruct (cmp_eval _ _ _); [unfold raise in H|unfold crash in H]; discriminate.
  - cbn [Interp.while_loop] in H. destruct (cmp_eval _ _ _); [unfold raise in H; discriminate|].
    unfold bindM at 1 in H.
    destruct (Interp.run_child_with _ _ _ _ _ _ _ _ _ s) as [s2 [[c|]| | |]]; try discriminate.
    + pose proof (loop_signal_absorbs (cr_sig c)) as Habs.
      destruct (loop_signal (cr_sig c)) as [sg brk]. cbn [fst] in Habs. destruct brk.
      * unfold ret in H. injection H as <- <-. cbn. split; [intros _; exact Habs|].
        exists (cr_data c). reflexivity.
      * apply IH in H. cbn in H. destruct H as [H1 [suf H2]]. split.
        -- intros _. apply H1. exact Habs.
        -- exists (cr_data c ++ suf). rewrite H2, app_assoc. reflexivity.
    + unfold ret in H. injection H as <- <-. split; [auto|]. exists []. rewrite app_nil_r. reflexivity.
Qed.

Lemma while_loop_absorbs :
  forall child cx cur fuel v a code count acc s s' cr,
  (cr_sig acc = SNormal \/ cr_sig acc = SReturn) ->
  while_loop child cx cur fuel v a code count acc s = (s', IOk _ cr) ->
  cr_sig cr = SNormal \/ cr_sig cr = SReturn.
Proof. intros child cx cur fuel v a code count acc s s' cr Hacc H. apply while_loop_spec in H. apply H. exact Hacc. Qed.

Lemma while_loop_output_prefix :
  forall child cx cur fuel v a code count acc s s' cr,
  while_loop child cx cur fuel v a code count acc s = (s', IOk _ cr) ->
  exists suffix, cr_data cr = cr_data acc ++ suffix.
Proof. intros child cx cur fuel v a code count acc s s' cr H. apply while_loop_spec in H. apply H. Qed.

(* ------------------------------------------------------------------ S6: the $IF_SUCCESS flag *)
Notation tokenizeM := (tokenizeM fo).
Notation block_compile := (block_compile fo).

Lemma lift_state : forall cx cur (T : Type) (r : res T) s s' x, lift fo cx cur r s = (s', x) -> s' = s.
Proof.
  intros cx cur T r s s' x H. destruct r; cbn in H; injection H as <- _; reflexivity.
Qed.

(* evaluating an expression never changes the state *)
Lemma tokenizeM_state : forall cx cur a s s' x, tokenizeM cx cur a s = (s', x) -> s' = s.
Proof.
  intros cx cur a s s' x H. unfold Interp.tokenizeM, bindM, get_env in H.
  eapply lift_state. exact H.
Qed.

Lemma tokenizeM_ok : forall cx cur a s v,
  tokenizeM cx cur a s = (s, IOk _ v) <-> tokenize fo (all_vars fo (s_env s)) a = Ok v.
Proof.
  intros cx cur a s v. unfold Interp.tokenizeM, bindM, get_env.
  destruct (tokenize fo (all_vars fo (s_env s)) a) as [w| | |]; cbn; split; intro H; try discriminate.
  - injection H as ->. reflexivity.
  - injection H as ->. reflexivity.
Qed.

(* the state with the flag set to b *)
Definition with_flag (b : bool) (s : st) : st :=
  mkSt (s_g s)
       (mkEnv (e_sys (s_env s)) (e_user (s_env s)) (upd if_success (VBool b) (e_temp (s_env s))) (e_funcs (s_env s)))
       (s_line2 s).

(* an IF-family command first makes sure the flag exists *)
Definition ensure_flag (s : st) : st :=
  if has_key if_success (e_temp (s_env s)) then s else with_flag false s.

Definition flag_of (s : st) : bool :=
  match lookup if_success (e_temp (s_env s)) with Some v => truthy fo v | None => false end.

(* the argument after strip_arg *)
Definition norm_arg (a : str) : str := match a with [] => a | _ => strip a end.

Lemma norm_arg_nonempty : forall a, a <> [] -> norm_arg a = strip a.
Proof. intros [|c a] H; [contradiction|reflexivity]. Qed.

Lemma set_temp_flag_eq : forall b s, set_temp_flag fo b s = (with_flag b s, IOk _ tt).
Proof. reflexivity. Qed.

Lemma get_temp_flag_eq : forall s, get_temp_flag fo s = (s, IOk _ (flag_of s)).
Proof. reflexivity. Qed.

Lemma with_flag_with_flag : forall b b' s, with_flag b (with_flag b' s) = with_flag b s.
Proof. intros b b' s. unfold with_flag. cbn. rewrite upd_upd. reflexivity. Qed.

Lemma with_flag_ensure_flag : forall b s, with_flag b (ensure_flag s) = with_flag b s.
Proof.
  intros b s. unfold ensure_flag. destruct (has_key _ _); [reflexivity|apply with_flag_with_flag].
Qed.

Lemma flag_of_with_flag : forall b s, flag_of (with_flag b s) = b.
Proof. intros b s. unfold flag_of, with_flag. cbn. rewrite lookup_upd_same. reflexivity. Qed.

Lemma lookup_with_flag : forall b s, lookup if_success (e_temp (s_env (with_flag b s))) = Some (VBool b).
Proof. intros b s. unfold with_flag. cbn. apply lookup_upd_same. Qed.

Lemma flag_of_ensure_flag : forall s, flag_of (ensure_flag s) = flag_of s.
Proof.
  intros s. unfold ensure_flag. destruct (has_key _ _) eqn:E; [reflexivity|].
  rewrite flag_of_with_flag. unfold flag_of. unfold has_key in E.
  destruct (lookup if_success (e_temp (s_env s))); [discriminate|reflexivity].
Qed.

Lemma ensure_flag_has : forall s v, lookup if_success (e_temp (s_env s)) = Some v -> ensure_flag s = s.
Proof. intros s v H. unfold ensure_flag, has_key. rewrite H. reflexivity. Qed.

(* with_flag / ensure_flag touch nothing but the temp table *)
Lemma with_flag_frame : forall b s,
  s_g (with_flag b s) = s_g s /\ s_line2 (with_flag b s) = s_line2 s /\
  e_sys (s_env (with_flag b s)) = e_sys (s_env s) /\ e_user (s_env (with_flag b s)) = e_user (s_env s) /\
  e_funcs (s_env (with_flag b s)) = e_funcs (s_env s) /\
  (forall k, str_eqb k if_success = false ->
             lookup k (e_temp (s_env (with_flag b s))) = lookup k (e_temp (s_env s))).
Proof.
  intros b s. unfold with_flag. cbn. repeat split. intros k Hk. apply lookup_upd_other. exact Hk.
Qed.

(* the class named "If" of the generated palette is of the kind the lemmas below talk about *)
Definition is_if_class (bc : block_cls) : Prop :=
  b_kind bc = BKIf /\ b_arg_req bc = Allowed /\ b_strip_arg bc = true /\ b_flipper_only bc = false.

Definition s_If : str := [73;102]%N.

Lemma palette_if_class :
  exists bc, lookup s_If palette = Some (Block bc) /\ is_if_class bc /\
             b_names bc = [s_IF; [69;76;73;70]%N; s_ELSE].
Proof. eexists. split; [vm_compute; reflexivity|]. split; [repeat split|]; vm_compute; reflexivity. Qed.

(* the only block class of the palette with kind BKIf is that one *)
Lemma palette_if_unique :
  forallb (fun nc => match snd nc with
                     | Block bc => match b_kind bc with
                                   | BKIf => str_eqb (fst nc) s_If
                                   | _ => true end
                     | Simple _ => true end) palette = true.
Proof. vm_compute. reflexivity. Qed.

(* the head of block_compile for an If-class, with the flag made to exist *)
Lemma block_compile_if_unfold :
  forall child cx cur bc cname cmd num argument code_block s,
  is_if_class bc ->
  block_compile child cx cur bc cname cmd num argument code_block s =
  (let name := upper cmd in
   let argument := option_map norm_arg argument in
   let code := match code_block with Some b => b | None => [] end in
   let is_else := str_eqb name s_ELSE in
   bindM fo (match argument, is_else with
          | None, false => raise fo cx cur EInvalidArguments
          | Some _, true => raise fo cx cur EInvalidArguments
          | _, _ => ret fo tt
          end)
     (fun _ =>
      bindM fo (match argument with
             | Some a => if is_else then ret fo true else bindM fo (tokenizeM cx cur a) (fun v => ret fo (truthy fo v))
             | None => ret fo true
             end)
        (fun tok =>
         bindM fo (get_temp_flag fo)
           (fun flag =>
            bindM fo (if str_eqb name s_IF then bindM fo (set_temp_flag fo false) (fun _ => ret fo false) else ret fo flag)
              (fun skip =>
               if skip then ret fo RNone
               else if negb is_else && negb tok then ret fo RNone
               else bindM fo (set_temp_flag fo true)
                      (fun _ => bindM fo (run_child child cx cur code (c_file cx) false (fun e => Ok e))
                                  (fun cr => ret fo (RComp cr)))))))) (ensure_flag s).
Proof.
  intros child cx cur bc cname cmd num argument code_block s (Hk & Hreq & Hstrip & Hflip).
  unfold Interp.block_compile. rewrite Hk, Hreq, Hstrip, Hflip.
  unfold check_flipper. cbn [andb].
  unfold bindM at 1. unfold ret at 1.
  unfold bindM at 1. unfold ret at 1.
  unfold bindM at 1. unfold get_env at 1.
  unfold bindM at 1. unfold ensure_flag.
  destruct (has_key if_success (e_temp (s_env s))); reflexivity.
Qed.

Lemma flag_of_true_has : forall s, flag_of s = true -> ensure_flag s = s.
Proof.
  intros s H. unfold flag_of in H. destruct (lookup if_success (e_temp (s_env s))) eqn:E; [|discriminate].
  eapply ensure_flag_has. exact E.
Qed.

(* (a) ELIF after a successful branch: the condition is evaluated, then the block is skipped *)
Lemma elif_skipped_when_flag_gen :
  forall child cx cur bc cname cmd num a code_block s v,
  is_if_class bc ->
  str_eqb (upper cmd) s_IF = false -> str_eqb (upper cmd) s_ELSE = false ->
  flag_of s = true ->
  tokenizeM cx cur (norm_arg a) s = (s, IOk _ v) ->
  block_compile child cx cur bc cname cmd num (Some a) code_block s = (s, IOk _ RNone).
Proof.
  intros child cx cur bc cname cmd num a code_block s v Hbc Hif Helse Hflag Htok.
  rewrite block_compile_if_unfold by exact Hbc. cbv zeta.
  rewrite (flag_of_true_has s Hflag), Hif, Helse. cbn [option_map].
  unfold bindM, ret. rewrite Htok. rewrite get_temp_flag_eq, Hflag. reflexivity.
Qed.

Lemma elif_skipped_when_flag :
  forall child cx cur bc cname cmd num a code_block s v,
  is_if_class bc ->
  str_eqb (upper cmd) s_IF = false -> str_eqb (upper cmd) s_ELSE = false ->
  a <> [] ->
  lookup if_success (e_temp (s_env s)) = Some (VBool true) ->
  tokenizeM cx cur (strip a) s = (s, IOk _ v) ->
  block_compile child cx cur bc cname cmd num (Some a) code_block s = (s, IOk _ RNone).
Proof.
  intros child cx cur bc cname cmd num a code_block s v Hbc Hif Helse Ha Hflag Htok.
  eapply elif_skipped_when_flag_gen; try eassumption.
  - unfold flag_of. rewrite Hflag. reflexivity.
  - rewrite norm_arg_nonempty by exact Ha. exact Htok.
Qed.

(* (b) ELSE after a successful branch is skipped *)
Lemma else_skipped_when_flag_gen :
  forall child cx cur bc cname cmd num code_block s,
  is_if_class bc ->
  str_eqb (upper cmd) s_ELSE = true ->
  flag_of s = true ->
  block_compile child cx cur bc cname cmd num None code_block s = (s, IOk _ RNone).
Proof.
  intros child cx cur bc cname cmd num code_block s Hbc Helse Hflag.
  assert (Hif : str_eqb (upper cmd) s_IF = false).
  { apply str_eqb_eq in Helse. rewrite Helse. reflexivity. }
  rewrite block_compile_if_unfold by exact Hbc. cbv zeta.
  rewrite (flag_of_true_has s Hflag), Hif, Helse. cbn [option_map].
  unfold bindM, ret. rewrite get_temp_flag_eq, Hflag. reflexivity.
Qed.

Lemma else_skipped_when_flag :
  forall child cx cur bc cname cmd num code_block s,
  is_if_class bc ->
  str_eqb (upper cmd) s_ELSE = true ->
  lookup if_success (e_temp (s_env s)) = Some (VBool true) ->
  block_compile child cx cur bc cname cmd num None code_block s = (s, IOk _ RNone).
Proof.
  intros child cx cur bc cname cmd num code_block s Hbc Helse Hflag.
  eapply else_skipped_when_flag_gen; try eassumption.
  unfold flag_of. rewrite Hflag. reflexivity.
Qed.

(* (c) IF with a false condition: nothing runs, the flag is false afterwards, nothing else changes.
   The condition is evaluated in [ensure_flag s]: $IF_SUCCESS is itself readable in expressions. *)
Lemma if_resets_flag :
  forall child cx cur bc cname cmd num a code_block s v,
  is_if_class bc ->
  str_eqb (upper cmd) s_IF = true ->
  tokenizeM cx cur (norm_arg a) (ensure_flag s) = (ensure_flag s, IOk _ v) ->
  truthy fo v = false ->
  block_compile child cx cur bc cname cmd num (Some a) code_block s = (with_flag false s, IOk _ RNone).
Proof.
  intros child cx cur bc cname cmd num a code_block s v Hbc Hif Htok Hv.
  assert (Helse : str_eqb (upper cmd) s_ELSE = false).
  { apply str_eqb_eq in Hif. rewrite Hif. reflexivity. }
  rewrite block_compile_if_unfold by exact Hbc. cbv zeta.
  rewrite Hif, Helse. cbn [option_map].
  unfold bindM, ret. rewrite Htok. rewrite get_temp_flag_eq, set_temp_flag_eq, Hv.
  cbn [negb andb]. rewrite with_flag_ensure_flag. reflexivity.
Qed.

Lemma if_resets_flag_after :
  forall child cx cur bc cname cmd num a code_block s v,
  is_if_class bc ->
  str_eqb (upper cmd) s_IF = true ->
  tokenizeM cx cur (norm_arg a) (ensure_flag s) = (ensure_flag s, IOk _ v) ->
  truthy fo v = false ->
  exists s', block_compile child cx cur bc cname cmd num (Some a) code_block s = (s', IOk _ RNone) /\
             lookup if_success (e_temp (s_env s')) = Some (VBool false) /\
             s_g s' = s_g s /\ s_line2 s' = s_line2 s /\
             e_sys (s_env s') = e_sys (s_env s) /\ e_user (s_env s') = e_user (s_env s) /\
             e_funcs (s_env s') = e_funcs (s_env s) /\
             (forall k, str_eqb k if_success = false ->
                        lookup k (e_temp (s_env s')) = lookup k (e_temp (s_env s))).
Proof.
  intros child cx cur bc cname cmd num a code_block s v Hbc Hif Htok Hv.
  exists (with_flag false s). split; [eapply if_resets_flag; eassumption|].
  split; [apply lookup_with_flag|]. apply with_flag_frame.
Qed.

(* what "run the block" means: set the flag, run the child stack, wrap its result *)
Definition run_branch child cx cur (code_block : option (list item)) : M fo rc :=
  bindM fo (run_child child cx cur (match code_block with Some b => b | None => [] end) (c_file cx) false (fun e => Ok e))
        (fun cr => ret fo (RComp cr)).

(* (d) IF with a true condition runs the block in the state where the flag is true *)
Lemma if_taken :
  forall child cx cur bc cname cmd num a code_block s v,
  is_if_class bc ->
  str_eqb (upper cmd) s_IF = true ->
  tokenizeM cx cur (norm_arg a) (ensure_flag s) = (ensure_flag s, IOk _ v) ->
  truthy fo v = true ->
  block_compile child cx cur bc cname cmd num (Some a) code_block s =
  run_branch child cx cur code_block (with_flag true s).
Proof.
  intros child cx cur bc cname cmd num a code_block s v Hbc Hif Htok Hv.
  assert (Helse : str_eqb (upper cmd) s_ELSE = false).
  { apply str_eqb_eq in Hif. rewrite Hif. reflexivity. }
  rewrite block_compile_if_unfold by exact Hbc. cbv zeta.
  rewrite Hif, Helse. cbn [option_map].
  unfold run_branch, bindM, ret. rewrite Htok. rewrite get_temp_flag_eq, set_temp_flag_eq, Hv.
  cbn [negb andb]. rewrite set_temp_flag_eq, with_flag_with_flag, with_flag_ensure_flag. reflexivity.
Qed.

(* (e) ELSE with no successful branch before it runs the block *)
Lemma else_runs_when_no_flag :
  forall child cx cur bc cname cmd num code_block s,
  is_if_class bc ->
  str_eqb (upper cmd) s_ELSE = true ->
  flag_of s = false ->
  block_compile child cx cur bc cname cmd num None code_block s =
  run_branch child cx cur code_block (with_flag true s).
Proof.
  intros child cx cur bc cname cmd num code_block s Hbc Helse Hflag.
  assert (Hif : str_eqb (upper cmd) s_IF = false).
  { apply str_eqb_eq in Helse. rewrite Helse. reflexivity. }
  rewrite block_compile_if_unfold by exact Hbc. cbv zeta.
  rewrite Hif, Helse. cbn [option_map].
  unfold run_branch, bindM, ret. rewrite get_temp_flag_eq, flag_of_ensure_flag, Hflag.
  cbn [negb andb]. rewrite set_temp_flag_eq, with_flag_ensure_flag. reflexivity.
Qed.

(* ELIF with no successful branch before it: behaves like IF, except that a false condition
   leaves the (false) flag as it is *)
Lemma elif_taken :
  forall child cx cur bc cname cmd num a code_block s v,
  is_if_class bc ->
  str_eqb (upper cmd) s_IF = false -> str_eqb (upper cmd) s_ELSE = false ->
  flag_of s = false ->
  tokenizeM cx cur (norm_arg a) (ensure_flag s) = (ensure_flag s, IOk _ v) ->
  truthy fo v = true ->
  block_compile child cx cur bc cname cmd num (Some a) code_block s =
  run_branch child cx cur code_block (with_flag true s).
Proof.
  intros child cx cur bc cname cmd num a code_block s v Hbc Hif Helse Hflag Htok Hv.
  rewrite block_compile_if_unfold by exact Hbc. cbv zeta.
  rewrite Hif, Helse. cbn [option_map].
  unfold run_branch, bindM, ret. rewrite Htok. rewrite get_temp_flag_eq, flag_of_ensure_flag, Hflag, Hv.
  cbn [negb andb]. rewrite set_temp_flag_eq, with_flag_ensure_flag. reflexivity.
Qed.

Lemma elif_not_taken :
  forall child cx cur bc cname cmd num a code_block s v,
  is_if_class bc ->
  str_eqb (upper cmd) s_IF = false -> str_eqb (upper cmd) s_ELSE = false ->
  flag_of s = false ->
  tokenizeM cx cur (norm_arg a) (ensure_flag s) = (ensure_flag s, IOk _ v) ->
  truthy fo v = false ->
  block_compile child cx cur bc cname cmd num (Some a) code_block s = (ensure_flag s, IOk _ RNone).
Proof.
  intros child cx cur bc cname cmd num a code_block s v Hbc Hif Helse Hflag Htok Hv.
  rewrite block_compile_if_unfold by exact Hbc. cbv zeta.
  rewrite Hif, Helse. cbn [option_map].
  unfold bindM, ret. rewrite Htok. rewrite get_temp_flag_eq, flag_of_ensure_flag, Hflag, Hv.
  reflexivity.
Qed.

(* after a branch that ran to completion the flag is true in the parent: the rest of the chain is skipped
   (the child stack cannot touch the parent's temp table, S4) *)
Lemma run_branch_flag_after :
  forall child cx cur code_block s s' r,
  run_branch child cx cur code_block (with_flag true s) = (s', IOk _ r) ->
  lookup if_success (e_temp (s_env s')) = Some (VBool true) /\
  (exists cr, r = RComp cr) /\
  e_temp (s_env s') = e_temp (s_env (with_flag true s)) /\
  e_funcs (s_env s') = e_funcs (s_env s) /\
  s_line2 s' = s_line2 s.
Proof.
  intros child cx cur code_block s s' r H. unfold run_branch in H. unfold bindM at 1 in H.
  destruct (Interp.run_child _ _ _ _ _ _ _ _ _) as [s1 [cr| | |]] eqn:E; try discriminate.
  unfold ret in H. injection H as <- <-.
  apply run_child_frame in E. destruct E as (Ht & Hl & Hf).
  split; [rewrite Ht; apply lookup_with_flag|]. split; [eexists; reflexivity|].
  split; [exact Ht|]. split; [rewrite (Hf eq_refl); reflexivity|]. rewrite Hl. reflexivity.
Qed.

Lemma if_taken_flag_after :
  forall child cx cur bc cname cmd num a code_block s v s' r,
  is_if_class bc ->
  str_eqb (upper cmd) s_IF = true ->
  tokenizeM cx cur (norm_arg a) (ensure_flag s) = (ensure_flag s, IOk _ v) ->
  truthy fo v = true ->
  block_compile child cx cur bc cname cmd num (Some a) code_block s = (s', IOk _ r) ->
  lookup if_success (e_temp (s_env s')) = Some (VBool true).
Proof.
  intros child cx cur bc cname cmd num a code_block s v s' r Hbc Hif Htok Hv H.
  rewrite (if_taken child cx cur bc cname cmd num a code_block s v Hbc Hif Htok Hv) in H.
  apply run_branch_flag_after in H. apply H.
Qed.

(* an IF-family command, whatever it does, never fails to leave a flag behind on success *)
Lemma block_compile_if_flag_exists :
  forall child cx cur bc cname cmd num argument code_block s s' r,
  is_if_class bc ->
  block_compile child cx cur bc cname cmd num argument code_block s = (s', IOk _ r) ->
  has_key if_success (e_temp (s_env s')) = true.
Proof.
  intros child cx cur bc cname cmd num argument code_block s s' r Hbc H.
  rewrite block_compile_if_unfold in H by exact Hbc. cbv zeta in H.
  assert (Hens : has_key if_success (e_temp (s_env (ensure_flag s))) = true).
  { unfold ensure_flag. destruct (has_key if_success (e_temp (s_env s))) eqn:E; [exact E|].
    unfold has_key. rewrite lookup_with_flag. reflexivity. }
  assert (Hwf : forall b t, has_key if_success (e_temp (s_env (with_flag b t))) = true).
  { intros b t. unfold has_key. rewrite lookup_with_flag. reflexivity. }
  set (s0 := ensure_flag s) in *. clearbody s0.
  assert (Htail : forall tok,
    bindM fo (get_temp_flag fo)
      (fun flag => bindM fo (if str_eqb (upper cmd) s_IF then bindM fo (set_temp_flag fo false) (fun _ => ret fo false) else ret fo flag)
        (fun skip => if skip then ret fo RNone
                     else if negb (str_eqb (upper cmd) s_ELSE) && negb tok then ret fo RNone
                     else bindM fo (set_temp_flag fo true) (fun _ => run_branch child cx cur code_block))) s0 = (s', IOk _ r) ->
    has_key if_success (e_temp (s_env s')) = true).
  { intros tok Ht. unfold bindM at 1 in Ht. rewrite get_temp_flag_eq in Ht.
    unfold bindM at 1 in Ht.
    destruct (str_eqb (upper cmd) s_IF).
    - unfold bindM at 1 in Ht. rewrite set_temp_flag_eq in Ht. unfold ret at 1 in Ht.
      destruct (negb (str_eqb (upper cmd) s_ELSE) && negb tok).
      + unfold ret in Ht. injection Ht as <- _. apply Hwf.
      + unfold bindM at 1 in Ht. rewrite set_temp_flag_eq in Ht.
        apply run_branch_flag_after in Ht. destruct Ht as [Ht _]. unfold has_key. rewrite Ht. reflexivity.
    - unfold ret at 1 in Ht. destruct (flag_of s0).
      + unfold ret in Ht. injection Ht as <- _. exact Hens.
      + destruct (negb (str_eqb (upper cmd) s_ELSE) && negb tok).
        * unfold ret in Ht. injection Ht as <- _. exact Hens.
        * unfold bindM at 1 in Ht. rewrite set_temp_flag_eq in Ht.
          apply run_branch_flag_after in Ht. destruct Ht as [Ht _]. unfold has_key. rewrite Ht. reflexivity. }
  destruct (option_map norm_arg argument) as [a'|]; destruct (str_eqb (upper cmd) s_ELSE) eqn:Eelse.
  - discriminate.
  - unfold bindM at 1, ret at 1 in H. unfold bindM at 1 in H. unfold bindM at 1 in H.
    destruct (tokenizeM cx cur a' s0) as [s2 x] eqn:E3.
    apply tokenizeM_state in E3. subst s2. destruct x as [v| | |]; try discriminate.
    unfold ret at 1 in H. eapply (Htail (truthy fo v)). exact H.
  - unfold bindM at 1, ret at 1 in H. unfold bindM at 1, ret at 1 in H.
    eapply (Htail true). exact H.
  - discriminate.
Qed.

(* ------------------------------------------------------------------ blocks, end to end *)
(* inversion of a successful non-parallel block: the child stack was run on the copied-in
   environment (after setup) and the parent got the copy-back of what the child left *)
Lemma run_child_with_inv :
  forall child cx cur code file setup pre s s' r,
  run_child_with child cx cur code file false setup pre s = (s', IOk _ r) ->
  exists cenv1, setup (append_env empty_env (s_env s)) = Ok cenv1 /\
  ((r = None /\ pre cenv1 = Ok false /\ s' = mkSt (s_g s) (update_from_env (s_env s) cenv1) (s_line2 s)) \/
   (exists cr g' cenv2,
      r = Some cr /\ pre cenv1 = Ok true /\
      child (mkCtx (c_opts cx) (c_fs cx) (here cx cur (s_line2 s)) file) (s_g s) cenv1 code = (g', IOk _ (cr, cenv2)) /\
      s' = mkSt g' (update_from_env (s_env s) cenv2) (s_line2 s))).
Proof.
  intros child cx cur code file setup pre s s' r H.
  unfold Interp.run_child_with in H.
  destruct (cmp_eval _ _ _); [discriminate|].
  destruct (setup _) as [cenv1| | |]; try discriminate.
  exists cenv1. split; [reflexivity|].
  destruct (pre cenv1) as [[|]| | |]; try discriminate.
  - right. destruct (child _ _ _ _) as [g' [[cr cenv2]| | |]]; try discriminate.
    injection H as <- <-. exists cr, g', cenv2. repeat split.
  - left. injection H as <- <-. repeat split.
Qed.

(* C08 in one statement, for a plain block (no setup): every user variable of the parent is
   readable in the child's initial environment; on exit the parent has exactly its old variables
   that the child still has, with the child's values, and nothing the child created *)
Lemma block_scope :
  forall child cx cur code file s s' cr,
  nodup_keys (e_user (s_env s)) ->
  run_child child cx cur code file false (fun e => Ok e) s = (s', IOk _ cr) ->
  exists g' cenv1 cenv2,
    (forall x, lookup x (e_user cenv1) = lookup x (e_user (s_env s))) /\
    e_temp cenv1 = [] /\
    child (mkCtx (c_opts cx) (c_fs cx) (here cx cur (s_line2 s)) file) (s_g s) cenv1 code = (g', IOk _ (cr, cenv2)) /\
    (forall x, lookup x (e_user (s_env s')) =
               if has_key x (e_user (s_env s)) then lookup x (e_user cenv2) else None) /\
    e_temp (s_env s') = e_temp (s_env s) /\ e_funcs (s_env s') = e_funcs (s_env s).
Proof.
  intros child cx cur code file s s' cr Hnd H.
  unfold Interp.run_child, bindM in H.
  destruct (run_child_with _ _ _ _ _ _ _ _ s) as [s1 [[c|]| | |]] eqn:E; try discriminate.
  unfold ret in H. injection H as <- <-.
  apply run_child_with_inv in E. destruct E as (cenv1 & Hsetup & [(Hr & _)|(cr' & g' & cenv2 & Hr & _ & Hchild & Hs')]).
  - discriminate.
  - injection Hsetup as <-. injection Hr as <-. subst s1.
    exists g', (append_env empty_env (s_env s)), cenv2. repeat split.
    + intro x. apply entry_sees_outer. exact Hnd.
    + exact Hchild.
    + intro x. cbn [Interp.s_env]. apply exit_values.
Qed.

(* C06 at the level of the block command: a REPEAT / WHILE block never hands BREAK or CONTINUE on *)
Lemma block_compile_loop_absorbs :
  forall child cx cur bc cname cmd num argument code_block s s' cr,
  b_kind bc = BKRepeat \/ b_kind bc = BKWhile ->
  block_compile child cx cur bc cname cmd num argument code_block s = (s', IOk _ (RComp cr)) ->
  cr_sig cr = SNormal \/ cr_sig cr = SReturn.
Proof.
  intros child cx cur bc cname cmd num argument code_block s s' cr Hk H.
  unfold Interp.block_compile in H.
  unfold bindM at 1 in H. destruct (check_flipper _ _ _ _ s) as [s1 [u| | |]]; try discriminate.
  unfold bindM at 1 in H.
  match type of H with (let (_, _) := ?m s1 in _) = _ => destruct (m s1) as [s2 [u2| | |]] end;
    try discriminate.
  set (arg' := if b_strip_arg bc then _ else _) in H. clearbody arg'.
  destruct Hk as [Hk|Hk]; rewrite Hk in H.
  - destruct arg' as [a|]; [|discriminate].
    destruct (split_loop_arg a) as [var_name count_expr].
    destruct (match code_block with Some b => b | None => [] end) as [|i code].
    + destruct var_name; [discriminate|]. unfold ret in H. injection H as _ <-. left. reflexivity.
    + destruct (match var_name with Some v => is_var v false | None => true end); [|discriminate].
      unfold bindM at 1 in H.
      destruct (Interp.repeat_loop _ _ _ _ _ _ _ _ _ _ s2) as [s3 [c| | |]] eqn:E; try discriminate.
      unfold ret in H. injection H as _ <-.
      eapply repeat_loop_absorbs; [|exact E]. left. reflexivity.
  - destruct arg' as [a|]; [|discriminate].
    destruct (split_loop_arg a) as [var_name cond].
    unfold bindM at 1 in H.
    destruct (Interp.while_loop _ _ _ _ _ _ _ _ _ _ s2) as [s3 [c| | |]] eqn:E; try discriminate.
    unfold ret in H. injection H as _ <-.
    eapply while_loop_absorbs; [|exact E]. left. reflexivity.
Qed.

End Env.
