(* C04d o C19c: two programs that differ only in the layout of their expressions, each on disk in
   its own world with the same options: if the first has a success derivation (within the limit),
   `compile` succeeds in BOTH worlds and writes THE SAME output file content. *)
From Coq Require Import NArith ZArith List Bool Lia.
From DS Require Import Base PyStr Values Expr TabParse Tables Constants Interp Options Cli CliWorld ImportGraph.
From DS Require Import CliWorldSpec CliWorldProofs BlockTree CoreLang CoreFunc CoreText CoreTextParse.
From DS Require Import CoreAll CoreAllText CoreAllTextParse CoreAllErase CliSpecCompose ExprSpecCompose LayoutCongruence.
Import ListNotations.

Theorem cli_layout_independent : forall (fo : FloatOps) w w' u u' dir prog prog' entry output limit comments d sg Fs f vs out ev,
  wf_unit u -> no_nl u -> prog_wf prog -> on_disk w u dir prog ->
  wf_unit u' -> no_nl u' -> prog_wf prog' -> on_disk w' u' dir prog' ->
  progrel (lay_eq fo) prog prog' ->
  effective_options w' (file_of dir entry) limit comments = effective_options w (file_of dir entry) limit comments ->
  uruns fo prog (include_comments (effective_options w (file_of dir entry) limit comments))
        (supress_command_not_exist (effective_options w (file_of dir entry) limit comments))
        entry d sg Fs f vs out ev ->
  (Z.of_nat d < stack_limit (effective_options w (file_of dir entry) limit comments))%Z ->
  exists w1 w1' ev',
    cli_step fo w (OpCompile (file_of dir entry) output limit comments) = (w1, RSuccess (length (warnings_of ev))) /\
    cli_step fo w' (OpCompile (file_of dir entry) output limit comments) = (w1', RSuccess (length (warnings_of ev'))) /\
    w_files w1 output = Some (join [10%N] (map line_text out)) /\
    w_files w1' output = Some (join [10%N] (map line_text out)) /\
    prints_of ev' = prints_of ev /\ map shape ev' = map shape ev.
Proof.
  intros fo w w' u u' dir prog prog' entry output limit comments d sg Fs f vs out ev
         Hu Hnl Hp Hd Hu' Hnl' Hp' Hd' Hrel Ho Hrun Hlim.
  destruct (cli_writes_spec_output fo w u dir prog entry output limit comments d sg Fs f vs out ev Hu Hnl Hp Hd Hrun Hlim)
    as (w1 & E1 & O1 & _).
  destruct (layout_independent_programs_events fo _ _ prog prog' entry d sg Fs f vs out ev Hrel Hrun)
    as (F' & ev' & Hrun' & _ & _ & Hpr & Hsh).
  destruct (cli_writes_spec_output fo w' u' dir prog' entry output limit comments d sg F' f vs out ev' Hu' Hnl' Hp' Hd')
    as (w1' & E1' & O1' & _).
  - rewrite Ho. exact Hrun'.
  - rewrite Ho. exact Hlim.
  - exists w1, w1', ev'. repeat split; try assumption; symmetry; assumption.
Qed.
