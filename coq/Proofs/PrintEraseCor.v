(* C18 `print_invisible`: readable corollaries of PrintErase.erase_compile_items. *)
From Coq Require Import NArith ZArith List Bool Lia.
From DS Require Import Base PyStr Values Expr TabParse Tables Constants Interp PipelineProofs
  StartLaws PrintLines PrintErase.
Import ListNotations.

Section Cor.
Variable fo : FloatOps.
Variable Add : Prop.

(* what related environments share: every variable, and the name / parameters / defining file of
   every function, in the same order; only the function bodies may differ (by the same relation) *)
Definition func_sig (kf : str * func) : str * list str * option path :=
  (fst kf, fn_args (snd kf), fn_file (snd kf)).

Lemma erel_shape : forall E (e1 e2 : env fo), erel fo E Add e1 e2 ->
  e_sys fo e1 = e_sys fo e2 /\ e_user fo e1 = e_user fo e2 /\ e_temp fo e1 = e_temp fo e2 /\
  all_vars fo e1 = all_vars fo e2 /\
  map func_sig (e_funcs fo e1) = map func_sig (e_funcs fo e2) /\
  Forall2 (fun a b => perase E Add (fn_file (snd a)) (fn_code (snd a)) (fn_code (snd b))) (e_funcs fo e1) (e_funcs fo e2).
Proof.
  intros E e1 e2 He. pose proof (erel_all_vars fo E Add _ _ He) as Hv.
  destruct He as (Hs & Hu & Ht & Hf). repeat (split; [assumption|]).
  split.
  - induction Hf as [|[k1 f1] [k2 f2] l1 l2 [Hk (Ha & Hfl & _)] _ IH]; [reflexivity|].
    cbn [map]. rewrite IH. unfold func_sig. cbn [fst snd] in *. rewrite Hk, Ha, Hfl. reflexivity.
  - induction Hf as [|[k1 f1] [k2 f2] l1 l2 [Hk (Ha & Hfl & Hc)] _ IH]; constructor; [exact Hc|exact IH].
Qed.

(* the lines that may differ are given by their numbers (in any file) *)
Theorem print_invisible_numbers : forall (S : Z -> bool) o fs file cmds1 cmds2 g1 r1 g2 r2,
  perase (fun _ n => S n = true) Add file cmds1 cmds2 ->
  compile_items fo o fs file cmds1 = (g1, r1) ->
  compile_items fo o fs file cmds2 = (g2, r2) ->
  g_warnings g1 = g_warnings g2 /\
  filter (fun p => negb (S (p_num p))) (g_prints g1) = filter (fun p => negb (S (p_num p))) (g_prints g2) /\
  match r1, r2 with
  | IOk c1, IOk c2 =>
      out fo c1 = out fo c2 /\ warnings fo c1 = warnings fo c2 /\
      all_vars fo (final_env fo c1) = all_vars fo (final_env fo c2) /\
      map func_sig (e_funcs fo (final_env fo c1)) = map func_sig (e_funcs fo (final_env fo c2)) /\
      filter (fun p => negb (S (p_num p))) (prints fo c1) = filter (fun p => negb (S (p_num p))) (prints fo c2)
  | IErr e1 t1, IErr e2 t2 => e1 = e2 /\ t1 = t2
  | ICrash k1, ICrash k2 => k1 = k2
  | IUnmod, IUnmod => True
  | _, _ => False
  end.
Proof.
  intros S o fs file cmds1 cmds2 g1 r1 g2 r2 Hp E1 E2.
  set (E := fun (_ : option path) (n : Z) => S n = true) in *.
  assert (En : forall n f, E None n -> E f n) by (intros n f H; exact H).
  destruct (erase_compile_items fo E Add En o fs file cmds1 cmds2 g1 r1 g2 r2 Hp E1 E2) as [[Hw Hpr] Hr].
  assert (Hfil : forall l1 l2, prel E Add l1 l2 ->
            filter (fun p => negb (S (p_num p))) l1 = filter (fun p => negb (S (p_num p))) l2).
  { intros l1 l2 H. apply (prel_filter E Add (fun p => S (p_num p))); [|exact H]. intros p Hp'. exact Hp'. }
  split; [exact Hw|]. split; [apply Hfil; exact Hpr|].
  destruct r1 as [c1|e1 t1|k1|], r2 as [c2|e2 t2|k2|]; cbn [rres] in Hr; try contradiction; try exact Hr.
  destruct Hr as (Ho & Hws & He & Hps).
  destruct (erel_shape E _ _ He) as (_ & _ & _ & Hv & Hsig & _).
  repeat (split; [assumption|]). apply Hfil. exact Hps.
Qed.

(* the program has a file: the records that may disappear / change are those of that file at the
   given numbers; records of imported files are kept whatever their numbers *)
Theorem print_invisible_file : forall (S : Z -> bool) o fs (pth : path) cmds1 cmds2 g1 r1 g2 r2,
  perase (fun f n => f = Some pth /\ S n = true) Add (Some pth) cmds1 cmds2 ->
  compile_items fo o fs (Some pth) cmds1 = (g1, r1) ->
  compile_items fo o fs (Some pth) cmds2 = (g2, r2) ->
  let kept := fun p => negb (opt_eqb path_eqb (p_file p) (Some pth) && S (p_num p)) in
  g_warnings g1 = g_warnings g2 /\
  filter kept (g_prints g1) = filter kept (g_prints g2) /\
  match r1, r2 with
  | IOk c1, IOk c2 =>
      out fo c1 = out fo c2 /\ warnings fo c1 = warnings fo c2 /\
      all_vars fo (final_env fo c1) = all_vars fo (final_env fo c2) /\
      map func_sig (e_funcs fo (final_env fo c1)) = map func_sig (e_funcs fo (final_env fo c2)) /\
      filter kept (prints fo c1) = filter kept (prints fo c2)
  | IErr e1 t1, IErr e2 t2 => e1 = e2 /\ t1 = t2
  | ICrash k1, ICrash k2 => k1 = k2
  | IUnmod, IUnmod => True
  | _, _ => False
  end.
Proof.
  intros S o fs pth cmds1 cmds2 g1 r1 g2 r2 Hp E1 E2 kept.
  set (E := fun (f : option path) (n : Z) => f = Some pth /\ S n = true) in *.
  assert (En : forall n f, E None n -> E f n) by (intros n f [H _]; discriminate H).
  destruct (erase_compile_items fo E Add En o fs (Some pth) cmds1 cmds2 g1 r1 g2 r2 Hp E1 E2) as [[Hw Hpr] Hr].
  assert (Hfil : forall l1 l2, prel E Add l1 l2 -> filter kept l1 = filter kept l2).
  { intros l1 l2 H. apply (prel_filter E Add (fun p => opt_eqb path_eqb (p_file p) (Some pth) && S (p_num p))); [|exact H].
    intros p [Hf Hs]. rewrite Hf, Hs. cbn [opt_eqb]. rewrite (proj2 (list_eqb_str_eq pth pth) eq_refl). reflexivity. }
  split; [exact Hw|]. split; [apply Hfil; exact Hpr|].
  destruct r1 as [c1|e1 t1|k1|], r2 as [c2|e2 t2|k2|]; cbn [rres] in Hr; try contradiction; try exact Hr.
  destruct Hr as (Ho & Hws & He & Hps).
  destruct (erel_shape E _ _ He) as (_ & _ & _ & Hv & Hsig & _).
  repeat (split; [assumption|]). apply Hfil. exact Hps.
Qed.

End Cor.

(* pure erasure (silent lines become PASS lines, nothing else): the prints of the second program
   are those of the first with some records of the modified lines removed, nothing added *)
Theorem print_erase_only : forall (fo : FloatOps) (E : option path -> Z -> Prop),
  (forall n f, E None n -> E f n) ->
  forall o fs file cmds1 cmds2 g1 c1 g2 c2,
  perase E False file cmds1 cmds2 ->
  compile_items fo o fs file cmds1 = (g1, IOk c1) ->
  compile_items fo o fs file cmds2 = (g2, IOk c2) ->
  out fo c1 = out fo c2 /\ warnings fo c1 = warnings fo c2 /\ removed E (prints fo c1) (prints fo c2).
Proof.
  intros fo E En o fs file cmds1 cmds2 g1 c1 g2 c2 Hp E1 E2.
  destruct (erase_compile_items fo E False En o fs file cmds1 cmds2 g1 _ g2 _ Hp E1 E2) as [_ (Ho & Hw & _ & Hps)].
  split; [exact Ho|]. split; [exact Hw|]. apply (prel_removed E False); [tauto|exact Hps].
Qed.

