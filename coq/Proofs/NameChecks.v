(* C20: every defining construct checks the name FIRST (nothing is stored on rejection); `$`-names
   can never be stored by user code; e_sys keeps its keys. *)
From Coq Require Import NArith ZArith List Bool Lia.
From DS Require Import Base PyStr Values Expr TabParse Tables Constants Interp ScopeProofs LimitProofs
  IdentSpec IdentProofs NamesInv.
Import ListNotations.

(* ------------------------------------------------------------------ `$` is not an identifier character *)
Lemma dollar_not_ident : forall r : str, identb (36%N :: r) = false.
Proof. intro r. reflexivity. Qed.

Lemma forallb_is_var : forall l : list str, forallb (fun v => is_var v false) l = forallb identb l.
Proof. induction l as [|x l IH]; cbn [forallb]; [reflexivity|]. rewrite is_var_spec_lemma, IH. reflexivity. Qed.

(* FUNC: the name and the parameter list, as block_compile reads them from the (stripped) argument *)
Definition func_sig (a : str) : str * list str :=
  let '(fname, var_string) := break_arg a in
  (fname, match var_string with
          | None => []
          | Some vs => match vs with [] => [] | _ => map strip (split_char comma vs) end
          end).

(* the three defining block classes of the palette share these attributes *)
Definition std_block (bc : block_cls) : Prop :=
  b_flipper_only bc = false /\ b_arg_req bc = Required /\ b_strip_arg bc = true.

Definition defining_kind (k : blockkind) : bool :=
  match k with BKFunc | BKRepeat | BKWhile => true | _ => false end.

Lemma palette_defining_std : forall n bc,
  In (n, Block bc) palette -> defining_kind (b_kind bc) = true -> std_block bc.
Proof.
  assert (H : forallb (fun nc => match snd nc with
                                 | Block bc => if defining_kind (b_kind bc)
                                               then negb (b_flipper_only bc) && b_strip_arg bc &&
                                                    match b_arg_req bc with Required => true | _ => false end
                                               else true
                                 | Simple _ => true end) palette = true) by (vm_compute; reflexivity).
  intros n bc Hin Hk. rewrite forallb_forall in H. specialize (H _ Hin). cbn [snd] in H. rewrite Hk in H.
  apply andb_true_iff in H. destruct H as [H H3]. apply andb_true_iff in H. destruct H as [H1 H2].
  unfold std_block. apply negb_true_iff in H1. repeat split; try assumption.
  destruct (b_arg_req bc); try discriminate. reflexivity.
Qed.

(* ... and each of the three kinds does occur *)
Lemma palette_has_defining : forall k, defining_kind k = true ->
  exists n bc, In (n, Block bc) palette /\ b_kind bc = k.
Proof.
  intros k Hk.
  assert (H : existsb (fun nc => match snd nc with
                                 | Block bc => match b_kind bc, k with
                                               | BKFunc, BKFunc | BKRepeat, BKRepeat | BKWhile, BKWhile => true
                                               | _, _ => false end
                                 | Simple _ => false end) palette = true)
    by (destruct k; try discriminate Hk; vm_compute; reflexivity).
  apply existsb_exists in H. destruct H as [[n [sc|bc]] [Hin H]]; cbn [snd] in H; [discriminate|].
  exists n, bc. split; [exact Hin|]. destruct (b_kind bc), k; try discriminate; reflexivity.
Qed.

Section WithFloats.
Variable fo : FloatOps.
Notation value := (value fo).
Notation env := (env fo).
Notation st := (st fo).
Notation s_env := (s_env fo).
Notation s_g := (s_g fo).
Notation s_line2 := (s_line2 fo).
Notation mkSt := (mkSt fo).
Notation mkEnv := (mkEnv fo).
Notation e_sys := (e_sys fo).
Notation e_user := (e_user fo).
Notation e_temp := (e_temp fo).
Notation e_funcs := (e_funcs fo).
Notation all_vars := (all_vars fo).
Notation run_compile := (run_compile fo).
Notation block_compile := (block_compile fo).

(* the state after a successful store *)
Definition store_user (k : str) (v : value) (s : st) : st :=
  mkSt (s_g s) (mkEnv (e_sys (s_env s)) (upd k v (e_user (s_env s))) (e_temp (s_env s)) (e_funcs (s_env s)))
       (s_line2 s).
Definition store_func (k : str) (f : func) (s : st) : st :=
  mkSt (s_g s) (mkEnv (e_sys (s_env s)) (e_user (s_env s)) (e_temp (s_env s)) (upd k f (e_funcs (s_env s))))
       (s_line2 s).

(* ------------------------------------------------------------------ new_var *)
Lemma new_var_accept : forall cx cur name v s,
  identb name = true -> new_var fo cx cur name v s = (store_user name v s, IOk _ tt).
Proof.
  intros cx cur name v s H. unfold new_var. rewrite is_var_spec_lemma, H. reflexivity.
Qed.

Lemma new_var_reject : forall cx cur name v s,
  identb name = false ->
  new_var fo cx cur name v s = (s, IErr _ EUnacceptableVarName (Some (here cx cur (s_line2 s)))).
Proof.
  intros cx cur name v s H. unfold new_var. rewrite is_var_spec_lemma, H. reflexivity.
Qed.

(* ------------------------------------------------------------------ VAR *)
Lemma var_accept : forall child cx cur cname sc name l vname expr s v,
  s_run sc = RKVar ->
  split_ws1 (content_text (l_content l)) = [vname; expr] ->
  tokenize fo (all_vars (s_env s)) expr = Ok v ->
  identb vname = true ->
  run_compile child cx cur cname sc name (Some l) s = (store_user vname v s, IOk _ RNone).
Proof.
  intros child cx cur cname sc name l vname expr s v Hk Hsp Htok Hid.
  unfold Interp.run_compile. rewrite Hk, Hsp.
  unfold bindM at 1. rewrite (proj2 (tokenizeM_ok fo cx cur expr s v) Htok).
  unfold bindM at 1. rewrite (new_var_accept cx cur vname v s Hid). reflexivity.
Qed.

Lemma var_reject : forall child cx cur cname sc name l vname expr s v,
  s_run sc = RKVar ->
  split_ws1 (content_text (l_content l)) = [vname; expr] ->
  tokenize fo (all_vars (s_env s)) expr = Ok v ->
  identb vname = false ->
  run_compile child cx cur cname sc name (Some l) s =
  (s, IErr _ EUnacceptableVarName (Some (here cx cur (s_line2 s)))).
Proof.
  intros child cx cur cname sc name l vname expr s v Hk Hsp Htok Hid.
  unfold Interp.run_compile. rewrite Hk, Hsp.
  unfold bindM at 1. rewrite (proj2 (tokenizeM_ok fo cx cur expr s v) Htok).
  unfold bindM at 1. rewrite (new_var_reject cx cur vname v s Hid). reflexivity.
Qed.

(* whatever the expression does: a rejected name never succeeds and never changes the state *)
Lemma var_reject_any : forall child cx cur cname sc name l vname expr s s' r,
  s_run sc = RKVar ->
  split_ws1 (content_text (l_content l)) = [vname; expr] ->
  identb vname = false ->
  run_compile child cx cur cname sc name (Some l) s = (s', r) ->
  s' = s /\ (forall x, r <> IOk _ x).
Proof.
  intros child cx cur cname sc name l vname expr s s' r Hk Hsp Hid H.
  unfold Interp.run_compile in H. rewrite Hk, Hsp in H.
  unfold bindM at 1 in H.
  destruct (tokenizeM fo cx cur expr s) as [s1 r1] eqn:Et.
  pose proof (tokenizeM_state fo _ _ _ _ _ _ Et) as ->.
  destruct r1 as [v|e t|k|]; try (injection H as <- <-; split; [reflexivity|intros x; discriminate]).
  unfold bindM at 1 in H. rewrite (new_var_reject cx cur vname v s Hid) in H.
  injection H as <- <-. split; [reflexivity|intros x; discriminate].
Qed.

(* what the store means for look-ups *)
Lemma store_user_lookup_same : forall k v s, lookup k (e_user (s_env (store_user k v s))) = Some v.
Proof. intros. cbn. apply lookup_upd_same. Qed.

Lemma store_user_lookup_other : forall k v s y, y <> k ->
  lookup y (e_user (s_env (store_user k v s))) = lookup y (e_user (s_env s)).
Proof. intros k v s y Hne. cbn. apply lookup_upd_other. apply str_eqb_neq. exact Hne. Qed.

Lemma store_user_frame : forall k v s,
  e_sys (s_env (store_user k v s)) = e_sys (s_env s) /\
  e_temp (s_env (store_user k v s)) = e_temp (s_env s) /\
  e_funcs (s_env (store_user k v s)) = e_funcs (s_env s) /\
  s_g (store_user k v s) = s_g s /\ s_line2 (store_user k v s) = s_line2 s.
Proof. intros. repeat split. Qed.

(* ------------------------------------------------------------------ the block classes *)
Definition block_of (cb : option (list item)) : list item := match cb with Some b => b | None => [] end.

Lemma block_compile_std : forall child cx cur bc cname cmd num c a cb s,
  std_block bc ->
  block_compile child cx cur bc cname cmd num (Some (c :: a)) cb s =
  block_compile child cx cur (mkBlock (b_names bc) Allowed (b_code_block_required bc) false false (b_kind bc))
                cname cmd num (Some (strip (c :: a))) cb s.
Proof.
  intros child cx cur bc cname cmd num c a cb s (Hf & Hr & Hs).
  unfold Interp.block_compile. cbn [b_flipper_only b_arg_req b_strip_arg b_kind].
  rewrite Hf, Hr, Hs. cbn [option_map]. reflexivity.
Qed.


(* ------------------------------------------------------------------ FUNC *)
Lemma func_accept : forall child cx cur bc cname cmd num c a cb s fname fvars,
  std_block bc -> b_kind bc = BKFunc ->
  func_sig (strip (c :: a)) = (fname, fvars) ->
  identb fname = true -> forallb identb fvars = true ->
  block_compile child cx cur bc cname cmd num (Some (c :: a)) cb s =
  (store_func fname (mkFunc fvars (block_of cb) (c_file cx)) s, IOk _ RNone).
Proof.
  intros child cx cur bc cname cmd num c a cb s fname fvars Hstd Hk Hsig Hf Hv.
  rewrite block_compile_std by exact Hstd.
  unfold Interp.block_compile. cbn [b_flipper_only b_arg_req b_strip_arg b_kind]. rewrite Hk.
  unfold func_sig in Hsig. destruct (break_arg (strip (c :: a))) as [f vs]. injection Hsig as <- <-.
  rewrite is_var_spec_lemma, forallb_is_var, Hf, Hv. reflexivity.
Qed.

Lemma func_reject : forall child cx cur bc cname cmd num c a cb s fname fvars,
  std_block bc -> b_kind bc = BKFunc ->
  func_sig (strip (c :: a)) = (fname, fvars) ->
  identb fname && forallb identb fvars = false ->
  block_compile child cx cur bc cname cmd num (Some (c :: a)) cb s =
  (s, IErr _ EUnacceptableVarName (Some (here cx cur (s_line2 s)))).
Proof.
  intros child cx cur bc cname cmd num c a cb s fname fvars Hstd Hk Hsig Hbad.
  rewrite block_compile_std by exact Hstd.
  unfold Interp.block_compile. cbn [b_flipper_only b_arg_req b_strip_arg b_kind]. rewrite Hk.
  unfold func_sig in Hsig. destruct (break_arg (strip (c :: a))) as [f vs]. injection Hsig as <- <-.
  rewrite is_var_spec_lemma, forallb_is_var, Hbad. reflexivity.
Qed.

Lemma store_func_lookup_same : forall k f s, lookup k (e_funcs (s_env (store_func k f s))) = Some f.
Proof. intros. cbn. apply lookup_upd_same. Qed.

Lemma store_func_lookup_other : forall k f s y, y <> k ->
  lookup y (e_funcs (s_env (store_func k f s))) = lookup y (e_funcs (s_env s)).
Proof. intros k f s y Hne. cbn. apply lookup_upd_other. apply str_eqb_neq. exact Hne. Qed.

Lemma store_func_frame : forall k f s,
  e_sys (s_env (store_func k f s)) = e_sys (s_env s) /\
  e_user (s_env (store_func k f s)) = e_user (s_env s) /\
  e_temp (s_env (store_func k f s)) = e_temp (s_env s) /\
  s_g (store_func k f s) = s_g s /\ s_line2 (store_func k f s) = s_line2 s.
Proof. intros. repeat split. Qed.

(* ------------------------------------------------------------------ loop counters *)
Lemma bind_counter_accept : forall v count ce, identb v = true ->
  bind_counter fo (Some v) count ce =
  Ok (mkEnv (e_sys ce) (upd v (VInt count) (e_user ce)) (e_temp ce) (e_funcs ce)).
Proof. intros v count ce H. unfold bind_counter. rewrite is_var_spec_lemma, H. reflexivity. Qed.

Lemma bind_counter_reject : forall v count ce, identb v = false ->
  bind_counter fo (Some v) count ce = Err EUnacceptableVarName.
Proof. intros v count ce H. unfold bind_counter. rewrite is_var_spec_lemma, H. reflexivity. Qed.

(* REPEAT: the explicit check before the loop -- the count expression is not even evaluated *)
Lemma repeat_counter_reject : forall child cx cur bc cname cmd num c a cb s v count_expr,
  std_block bc -> b_kind bc = BKRepeat ->
  split_loop_arg (strip (c :: a)) = (Some v, count_expr) ->
  identb v = false -> block_of cb <> [] ->
  block_compile child cx cur bc cname cmd num (Some (c :: a)) cb s =
  (s, IErr _ EUnacceptableVarName (Some (here cx cur (s_line2 s)))).
Proof.
  intros child cx cur bc cname cmd num c a cb s v count_expr Hstd Hk Hsp Hid Hcode.
  rewrite block_compile_std by exact Hstd.
  unfold Interp.block_compile. cbn [b_flipper_only b_arg_req b_strip_arg b_kind]. rewrite Hk, Hsp.
  unfold block_of in Hcode. destruct cb as [[|i b]|]; try contradiction.
  rewrite is_var_spec_lemma, Hid. reflexivity.
Qed.

(* REPEAT v,count WITHOUT a block: a counter makes no sense for the legacy form -- rejected with
   EInvalidArguments whatever the name is; nothing stored *)
Lemma repeat_counter_noblock : forall child cx cur bc cname cmd num c a cb s v count_expr,
  std_block bc -> b_kind bc = BKRepeat ->
  split_loop_arg (strip (c :: a)) = (Some v, count_expr) ->
  block_of cb = [] ->
  block_compile child cx cur bc cname cmd num (Some (c :: a)) cb s =
  (s, IErr _ EInvalidArguments (Some (here cx cur (s_line2 s)))).
Proof.
  intros child cx cur bc cname cmd num c a cb s v count_expr Hstd Hk Hsp Hcode.
  rewrite block_compile_std by exact Hstd.
  unfold Interp.block_compile. cbn [b_flipper_only b_arg_req b_strip_arg b_kind]. rewrite Hk, Hsp.
  unfold block_of in Hcode. rewrite Hcode. reflexivity.
Qed.

Lemma repeat_counter_accept : forall child cx cur bc cname cmd num c a cb s v count_expr,
  std_block bc -> b_kind bc = BKRepeat ->
  split_loop_arg (strip (c :: a)) = (Some v, count_expr) ->
  identb v = true -> block_of cb <> [] ->
  block_compile child cx cur bc cname cmd num (Some (c :: a)) cb s =
  bindM fo (repeat_loop fo child cx cur loop_fuel (Some v) count_expr (block_of cb) 0%Z (mkCret [] SNormal))
        (fun cr => ret fo (RComp cr)) s.
Proof.
  intros child cx cur bc cname cmd num c a cb s v count_expr Hstd Hk Hsp Hid Hcode.
  rewrite block_compile_std by exact Hstd.
  unfold Interp.block_compile. cbn [b_flipper_only b_arg_req b_strip_arg b_kind]. rewrite Hk, Hsp.
  unfold block_of in *. destruct cb as [[|i b]|]; try contradiction.
  rewrite is_var_spec_lemma, Hid. reflexivity.
Qed.

(* WHILE: no explicit check; the first attempt to start the block binds the counter and fails there,
   before the condition is evaluated and before the child stack is run -- unless the pile is already
   at the stack limit, which is checked even earlier *)
Lemma while_counter_reject : forall child cx cur bc cname cmd num c a cb s v cond,
  std_block bc -> b_kind bc = BKWhile ->
  split_loop_arg (strip (c :: a)) = (Some v, cond) ->
  identb v = false ->
  block_compile child cx cur bc cname cmd num (Some (c :: a)) cb s =
  (s, IErr _ (if cmp_eval stack_limit_op (pile_len cx) (stack_limit (c_opts cx))
              then EStackOverflow else EUnacceptableVarName)
           (Some (here cx cur (s_line2 s)))).
Proof.
  intros child cx cur bc cname cmd num c a cb s v cond Hstd Hk Hsp Hid.
  rewrite block_compile_std by exact Hstd.
  unfold Interp.block_compile. cbn [b_flipper_only b_arg_req b_strip_arg b_kind]. rewrite Hk, Hsp.
  destruct loop_fuel as [|f] eqn:Ef.
  { pose proof loop_fuel_value as Hv. rewrite Ef in Hv. discriminate Hv. }
  cbn [while_loop].
  replace (cmp_eval while_limit_op 0 while_limit) with false by reflexivity.
  unfold bindM, run_child_with, check_flipper, ret. cbn [andb].
  destruct (cmp_eval stack_limit_op (pile_len cx) (stack_limit (c_opts cx))); [reflexivity|].
  rewrite (bind_counter_reject v 0%Z _ Hid). reflexivity.
Qed.

(* ------------------------------------------------------------------ `$`-names cannot be stored by user code *)
Corollary var_dollar_rejected : forall child cx cur cname sc name l rest expr s s' r,
  s_run sc = RKVar ->
  split_ws1 (content_text (l_content l)) = [36%N :: rest; expr] ->
  run_compile child cx cur cname sc name (Some l) s = (s', r) ->
  s' = s /\ (forall x, r <> IOk _ x).
Proof.
  intros child cx cur cname sc name l rest expr s s' r Hk Hsp H.
  exact (var_reject_any child cx cur cname sc name l (36%N :: rest) expr s s' r Hk Hsp (dollar_not_ident rest) H).
Qed.

Lemma forallb_identb_dollar : forall rest fvars, In (36%N :: rest) fvars -> forallb identb fvars = false.
Proof.
  intros rest fvars Hin. destruct (forallb identb fvars) eqn:E; [|reflexivity].
  rewrite forallb_forall in E. specialize (E _ Hin). rewrite dollar_not_ident in E. discriminate E.
Qed.

Corollary func_dollar_rejected : forall child cx cur bc cname cmd num c a cb s fname fvars rest,
  std_block bc -> b_kind bc = BKFunc ->
  func_sig (strip (c :: a)) = (fname, fvars) ->
  fname = 36%N :: rest \/ In (36%N :: rest) fvars ->
  block_compile child cx cur bc cname cmd num (Some (c :: a)) cb s =
  (s, IErr _ EUnacceptableVarName (Some (here cx cur (s_line2 s)))).
Proof.
  intros child cx cur bc cname cmd num c a cb s fname fvars rest Hstd Hk Hsig Hd.
  apply (func_reject child cx cur bc cname cmd num c a cb s fname fvars Hstd Hk Hsig).
  destruct Hd as [->|Hin].
  - rewrite dollar_not_ident. reflexivity.
  - rewrite (forallb_identb_dollar rest fvars Hin). apply andb_false_r.
Qed.

End WithFloats.
