(* C11: "$CMD expr" gives the line "CMD v" where v is the printed value of expr; "$ENTER n". *)
From Coq Require Import NArith ZArith List Bool Lia.
From DS Require Import Base PyStr Values Expr TabParse Tables Constants Interp.
From DS Require Import PipelineProofs IgnoreProofs GroupProofs.
Import ListNotations.

Arguments IOk {A}. Arguments IErr {A}. Arguments ICrash {A}. Arguments IUnmod {A}.
Arguments s_g {fo}. Arguments s_env {fo}. Arguments s_line2 {fo}. Arguments mkSt {fo}.

Definition dollar : N := 36.

Lemma upper_dollar : forall name, upper (dollar :: name) = dollar :: upper name.
Proof. intro name. reflexivity. Qed.

(* the ENTER class: integer argument, base-class hooks, its own run_compile *)
Definition enter_class (sc : simple_cls) : Prop :=
  s_flipper_only sc = false /\ s_arg_type sc = ATInt /\ s_verify_arg sc = mkValidator [] true /\
  s_verify_args sc = PVNone /\ s_format_arg sc = mkFormatter [] SContent /\ s_run sc = RKEnter /\
  s_arg_req sc <> NotAllowed.

Section Dollar.
Variable fo : FloatOps.
Variable child : runner fo.
Variable cx : ctx.

(* ------------------------------------------------------------------ plain classes *)
(* the text that is tokenized is [norm sc expr]: stripped iff the class strips its arguments
   (STRING / STRINGLN do not; the unknown-word fall-back and the other plain classes do) *)
Lemma dollar_form : forall cur cname tg sc name n expr s v t,
  plain_class sc -> s_arg_req sc <> NotAllowed -> expr <> [] ->
  tokenize fo (all_vars fo (s_env s)) (norm sc expr) = Ok v ->
  py_str fo v = Some t ->
  simple_compile fo child cx cur cname tg sc (dollar :: name) n (Some expr) None s =
  (mkSt (s_g s) (s_env s) (Some cur),
   IOk (mkCret [mkO tg (upper name ++ [32%N] ++ t)] SNormal)).
Proof.
  intros cur cname tg sc name n expr s v t (Htok & Hflip & Hva & Hvas & Hfa & Hrun & Hat) Hreq Hne Hv Ht.
  unfold simple_compile, check_flipper. rewrite Hflip. cbn [andb].
  rewrite upper_dollar. unfold dollar at 1 2. cbv iota. cbn [tl].
  rewrite orb_true_r.
  unfold listify_args. destruct expr as [|e0 er]; [contradiction|].
  set (expr := e0 :: er) in *.
  rewrite Hva, Hvas, Hfa, Hat.
  unfold bindM at 1. unfold ret at 1. unfold bindM at 1. unfold ret at 1. cbv beta iota.
  assert (Hargs : (if s_strip_args sc then map strip_line [mkLine (AStr expr) n cur]
                   else [mkLine (AStr expr) n cur]) = [mkLine (AStr (norm sc expr)) n cur]).
  { unfold norm. destruct (s_strip_args sc); reflexivity. }
  rewrite Hargs. clear Hargs.
  cbn [evaluate_args]. unfold tokenizeM, get_env, set_line2, lift, bindM, ret.
  cbn [l_content content_text l_orig Interp.s_env Interp.s_g Interp.s_line2].
  rewrite Hv. unfold typed_content. rewrite Ht.
  cbn [length Z.of_nat].
  destruct (s_arg_req sc); try contradiction; cbn; unfold run_compile; rewrite Hrun; reflexivity.
Qed.

(* an expression that fails to evaluate: the error of the tokenizer, located on the line *)
Lemma dollar_form_error : forall cur cname tg sc name n expr s e,
  plain_class sc -> expr <> [] ->
  tokenize fo (all_vars fo (s_env s)) (norm sc expr) = Err e ->
  simple_compile fo child cx cur cname tg sc (dollar :: name) n (Some expr) None s =
  (mkSt (s_g s) (s_env s) (Some cur), IErr e (Some (here cx cur (Some cur)))).
Proof.
  intros cur cname tg sc name n expr s e (Htok & Hflip & Hva & Hvas & Hfa & Hrun & Hat) Hne Hv.
  unfold simple_compile, check_flipper. rewrite Hflip. cbn [andb].
  rewrite upper_dollar. unfold dollar at 1 2. cbv iota. cbn [tl].
  rewrite orb_true_r.
  unfold listify_args. destruct expr as [|e0 er]; [contradiction|].
  set (expr := e0 :: er) in *.
  unfold bindM at 1. unfold ret at 1. unfold bindM at 1. unfold ret at 1. cbv beta iota.
  assert (Hargs : (if s_strip_args sc then map strip_line [mkLine (AStr expr) n cur]
                   else [mkLine (AStr expr) n cur]) = [mkLine (AStr (norm sc expr)) n cur]).
  { unfold norm. destruct (s_strip_args sc); reflexivity. }
  rewrite Hargs. clear Hargs.
  cbn [evaluate_args]. unfold tokenizeM, get_env, set_line2, lift, bindM, ret, raise.
  cbn [l_content content_text l_orig Interp.s_env Interp.s_g Interp.s_line2].
  rewrite Hv. reflexivity.
Qed.

(* the unknown-command fall-back is a plain class that strips *)
Corollary dollar_form_unknown : forall cur name n expr s v t,
  expr <> [] ->
  tokenize fo (all_vars fo (s_env s)) (strip expr) = Ok v -> py_str fo v = Some t ->
  simple_compile fo child cx cur [] ByUnknown generic_simple (dollar :: name) n (Some expr) None s =
  (mkSt (s_g s) (s_env s) (Some cur),
   IOk (mkCret [mkO ByUnknown (upper name ++ [32%N] ++ t)] SNormal)).
Proof.
  intros cur name n expr s v t Hne Hv Ht.
  apply (dollar_form cur [] ByUnknown generic_simple name n expr s v t generic_simple_plain);
    [discriminate|exact Hne|exact Hv|exact Ht].
Qed.

(* ------------------------------------------------------------------ $ENTER n *)
Definition enter_text (sc : simple_cls) (expr : str) : str := if s_strip_args sc then strip expr else expr.

Lemma dollar_enter_gen : forall cur cname tg sc name n expr s v,
  enter_class sc -> expr <> [] ->
  tokenize fo (all_vars fo (s_env s)) (enter_text sc expr) = Ok v ->
  simple_compile fo child cx cur cname tg sc (dollar :: name) n (Some expr) None s =
  (mkSt (s_g s) (s_env s) (Some cur),
   match v with
   | VInt z => if (z <=? count_limit)%Z then IOk (mkCret (map (mkO tg) (repeat s_ENTER (Z.to_nat z))) SNormal)
               else IUnmod
   | _ => IErr EInvalidArguments (Some (here cx cur (Some cur)))
   end).
Proof.
  intros cur cname tg sc name n expr s v (Hflip & Hat & Hva & Hvas & Hfa & Hrun & Hreq) Hne Hv.
  unfold simple_compile, check_flipper. rewrite Hflip. cbn [andb].
  rewrite upper_dollar. unfold dollar at 1 2. cbv iota. cbn [tl].
  rewrite orb_true_r.
  unfold listify_args. destruct expr as [|e0 er]; [contradiction|].
  set (expr := e0 :: er) in *.
  rewrite Hva, Hvas, Hfa, Hat.
  unfold bindM at 1. unfold ret at 1. unfold bindM at 1. unfold ret at 1. cbv beta iota.
  assert (Hargs : (if s_strip_args sc then map strip_line [mkLine (AStr expr) n cur]
                   else [mkLine (AStr expr) n cur]) = [mkLine (AStr (enter_text sc expr)) n cur]).
  { unfold enter_text. destruct (s_strip_args sc); reflexivity. }
  rewrite Hargs. clear Hargs.
  cbn [evaluate_args]. unfold tokenizeM, get_env, set_line2, lift, bindM, ret.
  cbn [l_content content_text l_orig Interp.s_env Interp.s_g Interp.s_line2].
  rewrite Hv. unfold typed_content.
  cbn [length Z.of_nat].
  destruct v as [z|f|str0|b|l|];
    destruct (s_arg_req sc); try contradiction; cbn -[Z.leb count_limit Z.to_nat repeat]; try reflexivity;
    unfold run_compile; rewrite Hrun; cbn -[Z.leb count_limit Z.to_nat repeat];
    destruct (z <=? count_limit)%Z; cbn -[Z.leb count_limit Z.to_nat repeat]; reflexivity.
Qed.

(* 0 <= z <= count_limit: exactly z lines ENTER *)
Lemma dollar_enter : forall cur cname tg sc name n expr s z,
  enter_class sc -> expr <> [] ->
  tokenize fo (all_vars fo (s_env s)) (enter_text sc expr) = Ok (VInt z) ->
  (0 <= z <= count_limit)%Z ->
  simple_compile fo child cx cur cname tg sc (dollar :: name) n (Some expr) None s =
  (mkSt (s_g s) (s_env s) (Some cur),
   IOk (mkCret (repeat (mkO tg s_ENTER) (Z.to_nat z)) SNormal)).
Proof.
  intros cur cname tg sc name n expr s z Hc Hne Hv Hz.
  rewrite (dollar_enter_gen cur cname tg sc name n expr s (VInt z) Hc Hne Hv).
  assert (Hle : (z <=? count_limit)%Z = true) by (apply Z.leb_le; lia).
  rewrite Hle. f_equal. f_equal. f_equal.
  induction (Z.to_nat z) as [|k IH]; [reflexivity|]. cbn [repeat map]. rewrite IH. reflexivity.
Qed.

(* z < 0: no line at all (and no error) *)
Lemma dollar_enter_negative : forall cur cname tg sc name n expr s z,
  enter_class sc -> expr <> [] ->
  tokenize fo (all_vars fo (s_env s)) (enter_text sc expr) = Ok (VInt z) ->
  (z < 0)%Z ->
  simple_compile fo child cx cur cname tg sc (dollar :: name) n (Some expr) None s =
  (mkSt (s_g s) (s_env s) (Some cur), IOk (mkCret [] SNormal)).
Proof.
  intros cur cname tg sc name n expr s z Hc Hne Hv Hz.
  rewrite (dollar_enter_gen cur cname tg sc name n expr s (VInt z) Hc Hne Hv).
  assert (Hle : (z <=? count_limit)%Z = true) by (apply Z.leb_le; unfold count_limit; lia).
  rewrite Hle. destruct z as [|p|p]; try lia. reflexivity.
Qed.

(* a value that is not an integer (a bool included): InvalidArguments, located on the line *)
Lemma dollar_enter_not_int : forall cur cname tg sc name n expr s v,
  enter_class sc -> expr <> [] ->
  tokenize fo (all_vars fo (s_env s)) (enter_text sc expr) = Ok v ->
  (forall z, v <> VInt z) ->
  simple_compile fo child cx cur cname tg sc (dollar :: name) n (Some expr) None s =
  (mkSt (s_g s) (s_env s) (Some cur), IErr EInvalidArguments (Some (here cx cur (Some cur)))).
Proof.
  intros cur cname tg sc name n expr s v Hc Hne Hv Hni.
  rewrite (dollar_enter_gen cur cname tg sc name n expr s v Hc Hne Hv).
  destruct v as [z|f|str0|b|l|]; try reflexivity. exfalso. apply (Hni z). reflexivity.
Qed.

End Dollar.

(* ------------------------------------------------------------------ the palette classes *)
Definition d_ENTER : str := dollar :: s_ENTER.
Definition d_STRING : str := dollar :: s_STRING.

Definition is_enterb (sc : simple_cls) : bool :=
  negb (s_flipper_only sc)
  && match s_arg_type sc with ATInt => true | _ => false end
  && match s_verify_arg sc with mkValidator [] true => true | _ => false end
  && match s_verify_args sc with PVNone => true | _ => false end
  && match s_format_arg sc with mkFormatter [] SContent => true | _ => false end
  && match s_run sc with RKEnter => true | _ => false end
  && match s_arg_req sc with NotAllowed => false | _ => true end
  && s_strip_args sc.

Lemma palette_dollar_enter :
  match find_command palette d_ENTER None with
  | Some (_, Simple sc) => is_enterb sc
  | _ => false
  end = true.
Proof. vm_compute. reflexivity. Qed.

Lemma is_enterb_sound : forall sc, is_enterb sc = true -> enter_class sc /\ s_strip_args sc = true.
Proof.
  intros sc H. unfold is_enterb in H.
  repeat (apply andb_true_iff in H; destruct H as [H ?]).
  unfold enter_class.
  destruct (s_flipper_only sc); [discriminate|].
  destruct (s_arg_type sc); try discriminate.
  destruct (s_verify_arg sc) as [[|? ?] [|]]; try discriminate.
  destruct (s_verify_args sc); try discriminate.
  destruct (s_format_arg sc) as [[|? ?] []]; try discriminate.
  destruct (s_run sc); try discriminate.
  destruct (s_arg_req sc); try discriminate; repeat split; try assumption; discriminate.
Qed.

Lemma palette_dollar_string :
  match find_command palette d_STRING None with
  | Some (_, Simple sc) => is_plainb sc && negb (s_strip_args sc) && takes_args sc
  | _ => false
  end = true.
Proof. vm_compute. reflexivity. Qed.
