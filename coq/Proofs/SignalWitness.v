(* The signal paths are inhabited: for a concrete program the derivation of [if_nest] (and hence
   [raises]) is built rule by rule, every hypothesis being discharged by computation, and the
   "any depth" theorems then give the result of Compiler.compile -- which is also what
   vm_compute gives directly. *)
From Coq Require Import String Ascii NArith ZArith List Bool Lia.
From DS Require Import Base PyStr Values Expr TabParse Tables Constants Interp.
From DS Require Import ScopeProofs LimitProofs ChainProofs LoopUnroll LoopBlock UnknownWarn PipelineProofs.
From DS Require Import RunProofs FuncProofs PasteTop SignalPath SignalProofs SignalTheorems.
From DS Require Import ChainLoopExamples C07Examples.
Import ListNotations.
Open Scope string_scope.
Open Scope list_scope.

Arguments IOk {A}. Arguments IErr {A}. Arguments ICrash {A}. Arguments IUnmod {A}.
Arguments s_g {fo}. Arguments s_env {fo}. Arguments s_line2 {fo}. Arguments mkSt {fo}.

(*   STRING a
     IF TRUE
         STRING b
         IF TRUE
             RETURN
             STRING never
     STRING never                                                       *)
Definition w_text : str :=
  prog ["STRING a"; "IF TRUE"; T "STRING b"; T "IF TRUE"; T (T "RETURN"); T (T "STRING never"); "STRING never"].

Definition w_inner : list item := [] ++ Ln (lit "RETURN") 5 :: [Ln (lit "STRING never") 6].
Definition w_mid : list item :=
  [Ln (lit "STRING b") 3] ++ chain_items [cond_arm AIf (lit "TRUE") 4 w_inner] ++ [].
Definition w_top : list item :=
  [Ln (lit "STRING a") 1] ++ chain_items [cond_arm AIf (lit "TRUE") 2 w_mid] ++ [Ln (lit "STRING never") 7].

Lemma w_parse : prepare_text w_text = TOk w_top.
Proof. vm_compute. reflexivity. Qed.

Definition w_cx : ctx := mkCtx o0 (fun _ => None) [] None.
Definition w_s0 : st fo0 := mkSt (mkGlob [] []) (initial_env fo0) None.

Lemma w_arm_chain : forall n body, body <> [] -> chain_ok [cond_arm AIf (lit "TRUE") n body].
Proof.
  intros n body Hb. split; [reflexivity|]. split; [|constructor].
  constructor; [|constructor]. apply cond_arm_ok; [discriminate|reflexivity|exact Hb].
Qed.

Lemma w_evals_true : forall (s : st fo0) n body, evals fo0 s (cond_arm AIf (lit "TRUE") n body) true.
Proof.
  intros s n body. apply evals_cond_arm; [reflexivity|].
  exists (VBool true). split; [|reflexivity]. vm_compute. reflexivity.
Qed.

Lemma w_path : exists s1,
  if_nest fo0 2 20 w_cx w_s0 w_top SReturn
          [[mkO (ByCommand (lit "String")) (lit "STRING a")]; [mkO (ByCommand (lit "String")) (lit "STRING b")]; []] s1.
Proof.
  eexists. unfold w_top.
  eapply (N_if fo0 1 19 w_cx w_s0 [Ln (lit "STRING a") 1] _ [] _ [] [Ln (lit "STRING never") 7]).
  - unfold runs. vm_compute. reflexivity.
  - apply w_arm_chain. discriminate.
  - reflexivity.
  - exact I.
  - apply w_evals_true.
  - reflexivity.
  - cbn [a_body cond_arm]. unfold w_mid.
    eapply (N_if fo0 0 18 _ _ [Ln (lit "STRING b") 3] _ [] _ [] []).
    + unfold runs. vm_compute. reflexivity.
    + apply w_arm_chain. discriminate.
    + reflexivity.
    + exact I.
    + apply w_evals_true.
    + reflexivity.
    + cbn [a_body cond_arm]. unfold w_inner.
      eapply (N_ctl fo0 18 _ _ [] (lit "RETURN") (lit "RETURN") 5 [Ln (lit "STRING never") 6] SReturn).
      * unfold runs. cbn [exec_cmds]. reflexivity.
      * vm_compute. reflexivity.
      * split; [vm_compute; left; reflexivity|reflexivity].
      * reflexivity.
Qed.

(* the theorem applied to the path ... *)
Theorem w_by_theorem :
  texts fo0 (compile_text fo0 o0 (fun _ => None) None w_text) = Some [lit "STRING a"; lit "STRING b"].
Proof.
  destruct w_path as [s1 Hpath].
  unfold compile_text. rewrite w_parse.
  assert (Hd : run_depth o0 = 20%nat) by reflexivity.
  apply if_nest_raises in Hpath. rewrite <- Hd in Hpath.
  rewrite (return_ends_the_program fo0 o0 (fun _ => None) None w_top _ s1 Hpath).
  reflexivity.
Qed.

(* ... and the same by evaluation *)
Example w_by_computation :
  texts fo0 (compile_text fo0 o0 (fun _ => None) None w_text) = Some [lit "STRING a"; lit "STRING b"].
Proof. vm_compute. reflexivity. Qed.

Lemma w_witness :
  prepare_text w_text = TOk w_top /\
  texts fo0 (compile_text fo0 o0 (fun _ => None) None w_text) = Some [lit "STRING a"; lit "STRING b"].
Proof. exact (conj w_parse w_by_theorem). Qed.
