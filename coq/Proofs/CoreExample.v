(* Non-vacuity of the refinement theorem, and the findings (!) of Spec/CoreLang.v on concrete
   programs: each program has a derivation in the reference semantics, is well formed, and the
   interpreter (Compiler.compile of the model, default options, vm_compute) gives the same lines
   and the same final variables. *)
From Coq Require Import String Ascii NArith ZArith List Bool Lia.
From DS Require Import Base PyStr Values Expr TabParse Tables Constants Interp IdentSpec.
From DS Require Import ChainLoopExamples CoreLang CoreWf CoreRefine.
Import ListNotations.
Open Scope string_scope.
Open Scope list_scope.

Arguments IOk {A}. Arguments IErr {A}.

(* ------------------------------------------------------------------ building derivations *)
Ltac ev := unfold eval; vm_compute; reflexivity.
Ltac dec := vm_compute; reflexivity.
Ltac rng := unfold loop_max; lia.

Ltac derive :=
  lazymatch goal with
  | |- exec _ _ _ _ (SEmit _ _) _ _ _ _ => eapply E_Emit
  | |- exec _ _ _ _ (SEmitEval _ _) _ _ _ _ => eapply E_EmitEval; [ev|dec]
  | |- exec _ _ _ _ (SVar _ _) _ _ _ _ => eapply E_Var; ev
  | |- exec _ _ _ _ (SIf _ _) _ _ _ _ => eapply E_If; derive
  | |- exec _ _ _ _ (SRepeat _ _ _) _ _ _ _ => eapply E_Repeat; derive
  | |- exec _ _ _ _ (SWhile _ _ _) _ _ _ _ => eapply E_While; derive
  | |- exec _ _ _ _ SBreakLoop _ _ _ _ => eapply E_Break
  | |- exec _ _ _ _ SContinueLoop _ _ _ _ => eapply E_Continue
  | |- exec_list _ _ _ _ [] _ _ _ _ => eapply L_Nil
  | |- exec_list _ _ _ _ (_ :: _) _ _ _ _ =>
      first [ eapply L_Cons; [solve [derive]|derive]
            | eapply L_Stop; [solve [derive]|discriminate] ]
  | |- exec_arms _ _ _ _ ((_, _) :: _) _ _ _ _ _ =>
      first [ eapply A_Take; [ev|dec|solve [derive]|intros _; repeat (constructor; [eexists; ev|]); constructor]
            | eapply A_Skip; [ev|dec|derive] ]
  | |- exec_arms _ _ _ _ [] (Some _) _ _ _ _ => eapply A_Else; derive
  | |- exec_arms _ _ _ _ [] None _ _ _ _ => eapply A_None
  | |- exec_repeat _ _ _ _ _ _ _ _ _ _ =>
      first [ eapply R_Done; [ev|dec|rng|lia]
            | eapply R_Iter; [ev|dec|rng|lia|solve [derive]|discriminate|derive]
            | eapply R_Break; [ev|dec|rng|lia|solve [derive]] ]
  | |- exec_while _ _ _ _ _ _ _ _ _ =>
      first [ eapply W_Done; [rng|ev|dec]
            | eapply W_Iter; [rng|ev|dec|solve [derive]|discriminate|derive]
            | eapply W_Break; [rng|ev|dec|solve [derive]] ]
  end.

Section Examples.
Variable fo : FloatOps.

Definition result (p : list stmt) : option (list str * list (str * value fo) * list (str * value fo) * list warning) :=
  match compile_items fo default_options (fun _ => None) None (items_of p) with
  | (_, IOk c) => Some (map o_text (out fo c), e_user fo (final_env fo c), e_temp fo (final_env fo c), warnings fo c)
  | _ => None
  end.

Definition S_ (t : string) := lit t.

(* ------------------------------------------------------------------ the main example
     VAR total 0
     REPEAT i,3
         VAR tmp i*2                  -- created in the iteration's block: gone afterwards
         IF i==1
             VAR total total+10       -- assignment to an outer variable, two blocks up
         ELSE
             VAR total total+tmp
         $STRING total
     $STRING total                                                                          *)
Definition prog_main : list stmt :=
  [ SVar (S_ "total") (S_ "0");
    SRepeat (Some (S_ "i")) (S_ "3")
      [ SVar (S_ "tmp") (S_ "i*2");
        SIf [ (S_ "i==1", [SVar (S_ "total") (S_ "total+10")]) ]
            (Some [SVar (S_ "total") (S_ "total+tmp")]);
        SEmitEval (S_ "STRING") (S_ "total") ];
    SEmitEval (S_ "STRING") (S_ "total") ].

Definition out_main : list str := [S_ "STRING 0"; S_ "STRING 10"; S_ "STRING 14"; S_ "STRING 14"].
Definition vars_main : store fo := [(S_ "total", VInt 14)].

Lemma main_derivation : exists f', runs fo prog_main Normal f' vars_main out_main.
Proof.
  assert (H : exists f' vs' out, runs fo prog_main Normal f' vs' out /\ vs' = vars_main /\ out = out_main).
  { eexists. eexists. eexists. split; [unfold runs, prog_main; derive|]. split; vm_compute; reflexivity. }
  destruct H as (f' & vs' & out & H & -> & ->). exists f'. exact H.
Qed.

Ltac wf_dec := repeat (first [exact I | discriminate | reflexivity | split]).

Lemma main_wf : wf_list prog_main.
Proof. unfold prog_main. cbn. wf_dec. Qed.

Lemma main_interpreter : result prog_main = Some (out_main, vars_main, [], []).
Proof. vm_compute. reflexivity. Qed.

(* ... and the same through the theorem *)
Lemma main_by_theorem : exists ol f',
  map o_text ol = out_main /\
  compile_items fo default_options (fun _ => None) None (items_of prog_main) =
  (mkGlob [] [], IOk (mkCompiled fo ol [] (mkEnv fo (initial_sys fo) vars_main (flag_var fo f') []) [])).
Proof.
  destruct main_derivation as [f' Hrun].
  destruct (refine_compile_items fo default_options (fun _ => None) None prog_main Normal f' vars_main out_main
              Hrun main_wf) as (ol & Ho & E).
  { vm_compute. reflexivity. }
  exists ol, f'. split; [exact Ho|exact E].
Qed.

(* ------------------------------------------------------------------ the findings, one program each *)
(* (!) the IF flag is a variable that expressions can read:
     IF TRUE
         STRING a
     $STRING $IF_SUCCESS          -> "STRING True" *)
Definition prog_flag : list stmt :=
  [ SIf [ (S_ "TRUE", [SEmit (S_ "STRING") (S_ "a")]) ] None;
    SEmitEval (S_ "STRING") (S_ "$IF_SUCCESS") ].

Lemma flag_is_readable :
  (exists f', runs fo prog_flag Normal f' [] [S_ "STRING a"; S_ "STRING True"]) /\
  result prog_flag = Some ([S_ "STRING a"; S_ "STRING True"], [], [(if_success, VBool true)], []).
Proof.
  split.
  - assert (H : exists f' vs' out', runs fo prog_flag Normal f' vs' out' /\ vs' = [] /\ out' = [S_ "STRING a"; S_ "STRING True"]).
    { eexists. eexists. eexists. split; [unfold runs, prog_flag; derive|]. split; vm_compute; reflexivity. }
    destruct H as (f' & vs' & out' & H & -> & ->). exists f'. exact H.
  - vm_compute. reflexivity.
Qed.

(* (!) the REPEAT count is evaluated again before every iteration:
     VAR n 3
     REPEAT n
         VAR n n-1
         STRING x                 -> two lines, not three; n ends as 1 *)
Definition prog_recount : list stmt :=
  [ SVar (S_ "n") (S_ "3");
    SRepeat None (S_ "n") [ SVar (S_ "n") (S_ "n-1"); SEmit (S_ "STRING") (S_ "x") ] ].

Lemma count_is_reevaluated :
  (exists f', runs fo prog_recount Normal f' [(S_ "n", VInt 1)] [S_ "STRING x"; S_ "STRING x"]) /\
  result prog_recount = Some ([S_ "STRING x"; S_ "STRING x"], [(S_ "n", VInt 1)], [], []).
Proof.
  split.
  - assert (H : exists f' vs' out', runs fo prog_recount Normal f' vs' out' /\ vs' = [(S_ "n", VInt 1)] /\
                                    out' = [S_ "STRING x"; S_ "STRING x"]).
    { eexists. eexists. eexists. split; [unfold runs, prog_recount; derive|]. split; vm_compute; reflexivity. }
    destruct H as (f' & vs' & out' & H & -> & ->). exists f'. exact H.
  - vm_compute. reflexivity.
Qed.

(* (!) a counter named like an outer variable overwrites it (copy-back), and is otherwise gone:
     VAR i 7
     REPEAT i,2
         STRING x
     $STRING i                    -> "STRING 1" *)
Definition prog_counter : list stmt :=
  [ SVar (S_ "i") (S_ "7");
    SRepeat (Some (S_ "i")) (S_ "2") [ SEmit (S_ "STRING") (S_ "x") ];
    SEmitEval (S_ "STRING") (S_ "i") ].

Lemma counter_overwrites_outer :
  (exists f', runs fo prog_counter Normal f' [(S_ "i", VInt 1)] [S_ "STRING x"; S_ "STRING x"; S_ "STRING 1"]) /\
  result prog_counter = Some ([S_ "STRING x"; S_ "STRING x"; S_ "STRING 1"], [(S_ "i", VInt 1)], [], []).
Proof.
  split.
  - assert (H : exists f' vs' out', runs fo prog_counter Normal f' vs' out' /\ vs' = [(S_ "i", VInt 1)] /\
                                    out' = [S_ "STRING x"; S_ "STRING x"; S_ "STRING 1"]).
    { eexists. eexists. eexists. split; [unfold runs, prog_counter; derive|]. split; vm_compute; reflexivity. }
    destruct H as (f' & vs' & out' & H & -> & ->). exists f'. exact H.
  - vm_compute. reflexivity.
Qed.

(* (!) ... even by a WHILE whose condition is false at once (the condition is evaluated inside
   the iteration's block, after the counter is bound):
     VAR i 7
     WHILE i,FALSE
         STRING x
     $STRING i                    -> "STRING 0" *)
Definition prog_while0 : list stmt :=
  [ SVar (S_ "i") (S_ "7");
    SWhile (Some (S_ "i")) (S_ "FALSE") [ SEmit (S_ "STRING") (S_ "x") ];
    SEmitEval (S_ "STRING") (S_ "i") ].

Lemma while_false_still_binds :
  (exists f', runs fo prog_while0 Normal f' [(S_ "i", VInt 0)] [S_ "STRING 0"]) /\
  result prog_while0 = Some ([S_ "STRING 0"], [(S_ "i", VInt 0)], [], []).
Proof.
  split.
  - assert (H : exists f' vs' out', runs fo prog_while0 Normal f' vs' out' /\ vs' = [(S_ "i", VInt 0)] /\
                                    out' = [S_ "STRING 0"]).
    { eexists. eexists. eexists. split; [unfold runs, prog_while0; derive|]. split; vm_compute; reflexivity. }
    destruct H as (f' & vs' & out' & H & -> & ->). exists f'. exact H.
  - vm_compute. reflexivity.
Qed.

(* a stray BREAKLOOP at top level ends the program there; what was emitted is kept; one warning *)
Definition prog_stray : list stmt :=
  [ SEmit (S_ "STRING") (S_ "a"); SBreakLoop; SEmit (S_ "STRING") (S_ "b") ].

Lemma stray_break :
  (exists f', runs fo prog_stray Broke f' [] [S_ "STRING a"]) /\
  result prog_stray = Some ([S_ "STRING a"], [], [], stray_warnings Broke).
Proof.
  split.
  - assert (H : exists f' vs' out', runs fo prog_stray Broke f' vs' out' /\ vs' = [] /\ out' = [S_ "STRING a"]).
    { eexists. eexists. eexists. split; [unfold runs, prog_stray; derive|]. split; vm_compute; reflexivity. }
    destruct H as (f' & vs' & out' & H & -> & ->). exists f'. exact H.
  - vm_compute. reflexivity.
Qed.

(* WHILE with a counter, CONTINUELOOP and BREAKLOOP inside an IF:
     WHILE i,i<10
         IF i==1
             CONTINUELOOP
         IF i==3
             BREAKLOOP
         $STRING i                -> 0, 2 *)
Definition prog_signals : list stmt :=
  [ SWhile (Some (S_ "i")) (S_ "i<10")
      [ SIf [ (S_ "i==1", [SContinueLoop]) ] None;
        SIf [ (S_ "i==3", [SBreakLoop]) ] None;
        SEmitEval (S_ "STRING") (S_ "i") ];
    SEmit (S_ "STRING") (S_ "end") ].

Lemma signals_example :
  (exists f', runs fo prog_signals Normal f' [] [S_ "STRING 0"; S_ "STRING 2"; S_ "STRING end"]) /\
  wf_list prog_signals /\
  result prog_signals = Some ([S_ "STRING 0"; S_ "STRING 2"; S_ "STRING end"], [], [], []).
Proof.
  split; [|split].
  - assert (H : exists f' vs' out', runs fo prog_signals Normal f' vs' out' /\ vs' = [] /\
                                    out' = [S_ "STRING 0"; S_ "STRING 2"; S_ "STRING end"]).
    { eexists. eexists. eexists. split; [unfold runs, prog_signals; derive|]. split; vm_compute; reflexivity. }
    destruct H as (f' & vs' & out' & H & -> & ->). exists f'. exact H.
  - unfold prog_signals. cbn. wf_dec.
  - vm_compute. reflexivity.
Qed.

(* (!) the condition of an ELIF after the taken arm is still evaluated:
     IF TRUE
         STRING a
     ELIF nope
         STRING b                 the program FAILS: no derivation, and the interpreter raises *)
Definition prog_elif : list stmt :=
  [ SIf [ (S_ "TRUE", [SEmit (S_ "STRING") (S_ "a")]); (S_ "nope", [SEmit (S_ "STRING") (S_ "b")]) ] None ].

Lemma emit_list_normal : forall sys f vs name text sg f1 vs1 out,
  exec_list fo sys f vs [SEmit name text] sg f1 vs1 out -> sg = Normal /\ vs1 = vs.
Proof.
  intros sys f vs name text sg f1 vs1 out H.
  inversion H as [|? ? ? ? ? ? ? ? ? ? ? He Hl|? ? ? ? ? ? ? ? He Hne]; subst.
  - inversion He; subst. inversion Hl; subst. split; reflexivity.
  - inversion He; subst. contradiction.
Qed.

Lemma arms_elif_fail : forall sg taken vs' out,
  ~ exec_arms fo (initial_sys fo) false []
      [ (S_ "TRUE", [SEmit (S_ "STRING") (S_ "a")]); (S_ "nope", [SEmit (S_ "STRING") (S_ "b")]) ] None
      sg taken vs' out.
Proof.
  intros sg taken vs' out H.
  inversion H as [? ? ? ? ? ? ? ? ? ? ? Hev Ht Hbody Hlater|? ? ? ? ? ? ? ? ? ? ? Hev Ht Hrest| |]; subst.
  - destruct (emit_list_normal _ _ _ _ _ _ _ _ _ Hbody) as [-> ->].
    specialize (Hlater eq_refl). inversion Hlater as [|? ? [v' Hv'] _]; subst.
    unfold eval in Hv'. vm_compute in Hv'. discriminate.
  - unfold eval in Hev. vm_compute in Hev. injection Hev as <-. vm_compute in Ht. discriminate.
Qed.

Lemma later_elif_is_evaluated :
  (forall sg f' vs' out, ~ runs fo prog_elif sg f' vs' out) /\
  wf_list prog_elif /\
  result prog_elif = None /\
  snd (compile_items fo default_options (fun _ => None) None (items_of prog_elif)) =
  IErr EExpectedToken (Some [mkFrame None (S_ "ELIF nope", 3%Z) None]).
Proof.
  split; [|split; [|split]].
  - intros sg f' vs' out H. unfold runs, prog_elif in H.
    inversion H as [|? ? ? ? ? ? ? ? ? ? ? He Hl|? ? ? ? ? ? ? ? He Hne]; subst;
      inversion He; subst; eapply arms_elif_fail; eassumption.
  - unfold prog_elif. cbn. wf_dec.
  - vm_compute. reflexivity.
  - vm_compute. reflexivity.
Qed.

End Examples.
