(* C09 (tokenizer part), E5: the step budget [scan_fuel] of the scanner model is never exhausted.
   Potential argument: every iteration of the scanner loop decreases

     Phi = q(phase, |start|) + 2 * W(phase, blacklist, |start|) + 2 * |rest|

   by at least 2, where W charges every class that is not yet blacklisted at the current start
   position for the characters it can consume before it gives up (IResetContinue), and q pays for
   all later start positions. *)
From Coq Require Import NArith ZArith List Bool Lia.
From DS Require Import Base PyStr Values Tables Constants Expr ExprSafety.
Import ListNotations.

(* ------------------------------------------------------------------ string helpers *)
Definition maxlen (l : list str) : nat := fold_right (fun w m => Nat.max (length w) m) 0 l.

Lemma maxlen_in : forall (l : list str) w, In w l -> length w <= maxlen l.
Proof.
  induction l as [|x l IH]; intros w Hin; [contradiction|].
  unfold maxlen. cbn [fold_right]. fold (maxlen l).
  destruct Hin as [->|Hin]; [lia|]. apply IH in Hin. lia.
Qed.

Lemma startswith_length : forall p s : str, startswith p s = true -> length p <= length s.
Proof.
  induction p as [|x p IH]; intros [|y s] H; cbn in *; try lia; try discriminate.
  apply andb_true_iff in H. destruct H as [_ H]. apply IH in H. lia.
Qed.

(* a keyword token that answers ITrue holds a prefix of one of its keywords *)
Lemma kw_step_true_len : forall k c k' it,
  kw_step k c = (k', it) -> exp_incl k -> it = ITrue ->
  length (kw_cur k ++ [c]) <= maxlen (kw_list k).
Proof.
  intros k c k' it H Hk Hit. unfold kw_step in H.
  set (cur' := kw_cur k ++ [c]) in *.
  set (listable := match kw_expected k with Some e => e | None => kw_list k end) in *.
  assert (Hl : incl listable (kw_list k)).
  { unfold listable. destruct (kw_expected k) as [e|] eqn:He.
    - apply (Hk e He).
    - apply incl_refl. }
  destruct (filter (fun w => startswith cur' w) listable) as [|w more] eqn:Hf.
  - destruct (kw_expected k) as [ev|];
      [destruct (existsb (fun w => str_eqb w (kw_cur k)) ev)|];
      inversion H; subst it; discriminate.
  - assert (Hin : In w (filter (fun w => startswith cur' w) listable)) by (rewrite Hf; left; reflexivity).
    apply filter_In in Hin. destruct Hin as [Hin Hsw].
    apply startswith_length in Hsw. apply Hl in Hin. apply maxlen_in in Hin. lia.
Qed.

(* ------------------------------------------------------------------ the potential *)
(* characters a class may consume from a start position with [a] characters left before it
   gives up, plus one *)
Definition wk (c : tclass) (a : nat) : nat :=
  match c with
  | CStr => 0
  | CNum => 2
  | CBool => 6
  | CVar => a + 1
  | CGroup => a + 1
  | COp OCMath => 3
  | COp OCCond => 3
  | COp OCComma => 2
  end.

Definition wterm (c : tclass) (B : list tclass) (a : nat) : nat :=
  if in_black c B then 0 else wk c a.

Definition W (p : bool) (B : list tclass) (a : nat) : nat :=
  if p then wterm (COp OCMath) B a + wterm (COp OCCond) B a + wterm (COp OCComma) B a
  else wterm CStr B a + wterm CNum B a + wterm CBool B a + wterm CVar B a + wterm CGroup B a.

Definition qp (p : bool) (a : nat) : nat := if p then a * a + 20 * a + 1 else a * a + 18 * a.

Lemma wk_mono : forall c a a', a' <= a -> wk c a' <= wk c a.
Proof. intros [| | | | |[| |]] a a' H; cbn; lia. Qed.

Lemma wterm_mono : forall c B a a', a' <= a -> wterm c B a' <= wterm c B a.
Proof. intros c B a a' H. unfold wterm. destruct (in_black c B); [lia|apply wk_mono; exact H]. Qed.

Lemma W_mono_a : forall p B a a', a' <= a -> W p B a' <= W p B a.
Proof.
  intros p B a a' H. unfold W. destruct p.
  - pose proof (wterm_mono (COp OCMath) B a a' H) as Hpp1. pose proof (wterm_mono (COp OCCond) B a a' H) as Hpp2.
    pose proof (wterm_mono (COp OCComma) B a a' H) as Hpp3. lia.
  - pose proof (wterm_mono CStr B a a' H) as Hpp4. pose proof (wterm_mono CNum B a a' H) as Hpp5.
    pose proof (wterm_mono CBool B a a' H) as Hpp6. pose proof (wterm_mono CVar B a a' H) as Hpp7.
    pose proof (wterm_mono CGroup B a a' H) as Hpp8. lia.
Qed.

Lemma wterm_cons : forall c c' B a, wterm c (c' :: B) a <= wterm c B a.
Proof.
  intros c c' B a. unfold wterm, in_black. cbn [existsb].
  destruct (tclass_eqb c c'); cbn [orb]; [lia|]. destruct (existsb (tclass_eqb c) B); lia.
Qed.

Lemma W_mono_black : forall p c B a, W p (c :: B) a <= W p B a.
Proof.
  intros p c B a. unfold W. destruct p.
  - pose proof (wterm_cons (COp OCMath) c B a) as Hpp9. pose proof (wterm_cons (COp OCCond) c B a) as Hpp10.
    pose proof (wterm_cons (COp OCComma) c B a) as Hpp11. lia.
  - pose proof (wterm_cons CStr c B a) as Hpp12. pose proof (wterm_cons CNum c B a) as Hpp13.
    pose proof (wterm_cons CBool c B a) as Hpp14. pose proof (wterm_cons CVar c B a) as Hpp15.
    pose proof (wterm_cons CGroup c B a) as Hpp16. lia.
Qed.

Lemma wterm_self : forall c B a, in_black c B = false -> wterm c (c :: B) a + wk c a <= wterm c B a.
Proof.
  intros c B a H. unfold wterm. rewrite H. unfold in_black. cbn [existsb].
  assert (Hr : tclass_eqb c c = true) by (destruct c as [| | | | |[| |]]; reflexivity).
  rewrite Hr. cbn. lia.
Qed.

(* blacklisting the class of the current phase that gave up releases its charge *)
Lemma W_reset : forall p c B a,
  is_op_class c = p -> in_black c B = false -> W p (c :: B) a + wk c a <= W p B a.
Proof.
  intros p c B a Hp Hb. unfold W.
  pose proof (wterm_self c B a Hb) as Hs.
  pose proof (wterm_cons (COp OCMath) c B a) as Hpp17. pose proof (wterm_cons (COp OCCond) c B a) as Hpp18.
  pose proof (wterm_cons (COp OCComma) c B a) as Hpp19.
  pose proof (wterm_cons CStr c B a) as Hpp20. pose proof (wterm_cons CNum c B a) as Hpp21.
  pose proof (wterm_cons CBool c B a) as Hpp22. pose proof (wterm_cons CVar c B a) as Hpp23.
  pose proof (wterm_cons CGroup c B a) as Hpp24.
  destruct c as [| | | | |[| |]]; cbn in Hp; subst p; lia.
Qed.

Lemma W_full_val : forall a, W false [] a = 2 * a + 10.
Proof. intro a. unfold W, wterm. cbn. lia. Qed.

Lemma W_full_op : forall a, W true [] a = 8.
Proof. intro a. reflexivity. Qed.

(* switching to the other phase at a strictly later start position *)
Lemma phi_append : forall p a b B r,
  r + 1 <= a -> r <= b ->
  qp (negb p) r + 2 * W (negb p) [] r + 2 * r + 2 <= qp p a + 2 * W p B a + 2 * b.
Proof.
  intros p a b B r Ha Hb. destruct p; cbn [negb].
  - rewrite W_full_val. unfold qp. nia.
  - rewrite W_full_op. unfold qp. nia.
Qed.

(* ------------------------------------------------------------------ what the held token knows *)
(* [n] = number of characters the token has consumed *)
Definition tok5 (t : tok) (n : nat) : Prop :=
  match t with
  | TNum idx _ _ _ => (idx + 1)%Z = Z.of_nat n
  | TKw c k =>
      length (kw_cur k) = n /\ exp_incl k /\ n <= maxlen (kw_list k) /\
      (c <> CVar -> forall a, maxlen (kw_list k) + 1 <= wk c a)
  | _ => True
  end.

Definition okP {A} (P : A -> Prop) (r : res A) : Prop :=
  match r with Ok a => P a | _ => True end.

Lemma okP_bind : forall A B (P : A -> Prop) (Q : B -> Prop) (r : res A) (f : A -> res B),
  okP P r -> (forall a, P a -> okP Q (f a)) -> okP Q (bind r f).
Proof. intros A B P Q [a|e|k|] f Hr Hf; cbn in *; auto. Qed.

Definition add_char_post5 (t : tok) (n : nat) (r : tok * istoken) : Prop :=
  let '(t', it) := r in
  (it = ITrue \/ it = ITrueContinue -> tok5 t' (S n)) /\
  (it = IResetContinue -> forall a, n <= a -> n + 1 <= wk (tok_class t) a).

Ltac triv5 :=
  cbn; split;
  [ try (let H := fresh "H" in intros [H|H]; discriminate H); auto
  | try (let H := fresh "H" in intro H; discriminate H) ].

Lemma add_char_spec5 : forall t n c, tok5 t n -> okP (add_char_post5 t n) (add_char t c).
Proof.
  intros t n c H5. destruct t as [in_s closed|idx is_fp is_neg closed|cl k|depth ign closed opp].
  - cbn [add_char].
    destruct (negb (c =? Expr.q)%N && in_s); [triv5|].
    destruct in_s; [triv5|].
    destruct (c =? Expr.q)%N; triv5.
  - cbn [add_char]. cbn in H5.
    destruct (isnumeric_c c); [triv5; intros _; lia|].
    destruct (Z.eqb (idx + 1) 0 && (c =? dash)%N); [triv5; intros _; lia|].
    destruct ((c =? dot)%N && negb is_fp); [triv5; intros _; lia|].
    destruct (is_neg && Z.eqb (idx + 1) 1) eqn:Hr; [|triv5].
    cbn. split; [intros [H|H]; discriminate H|]. intros _ a Ha.
    apply andb_true_iff in Hr. destruct Hr as [_ Hr]. apply Z.eqb_eq in Hr. lia.
  - cbn [add_char]. destruct (kw_list k) as [|w0 ws] eqn:Hkl; [triv5|].
    destruct (kw_step k c) as [k' it] eqn:Hks.
    pose proof (kw_step_true_len k c k' it Hks) as Hlen.
    apply kw_step_spec in Hks.
    destruct Hks as [Hlist [Hcur [Hexp [_ [_ [_ Hnt]]]]]].
    cbn in H5. destruct H5 as [Hn [He [Hmax Hbound]]].
    cbn. split.
    + intros [-> | ->]; [|exfalso; apply Hnt; reflexivity].
      rewrite Hlist, Hcur. specialize (Hlen He eq_refl).
      rewrite app_length in *. cbn [length] in *. repeat split; auto; lia.
    + intros _ a Ha. destruct cl as [| | | | |oc];
        try (specialize (Hbound ltac:(discriminate) a); lia).
      cbn. lia.
  - cbn [add_char].
    destruct ((negb ((c =? lpar)%N || (c =? rpar)%N) || ign) && negb (Z.eqb depth 0)); [triv5|].
    set (depth' := if ((c =? lpar)%N || (c =? rpar)%N) then _ else depth).
    destruct (depth' <? 0)%Z; [exact I|].
    destruct (cmp_eval paren_limit_op depth' paren_limit); [exact I|].
    destruct (0 <? depth')%Z; [triv5|].
    destruct (negb ((c =? lpar)%N || (c =? rpar)%N)); [|triv5].
    destruct (c =? bang)%N; [triv5|].
    cbn. split; [intros [H|H]; discriminate H|]. intros _ a Ha. lia.
Qed.

Section WithFloats.
Variable fo : FloatOps.
Notation value := (value fo).
Notation ptok := (ptok fo).
Notation sd := (sd fo).
Notation vars_t := (vars_t fo).
Notation sd_start := (Expr.sd_start fo).
Notation sd_rest := (Expr.sd_rest fo).
Notation sd_token := (Expr.sd_token fo).
Notation sd_is_op := (Expr.sd_is_op fo).
Notation sd_string := (Expr.sd_string fo).
Notation sd_out := (Expr.sd_out fo).
Notation sd_black := (Expr.sd_black fo).
Notation Inv := (Inv fo).

Lemma new_tok_tok5 : forall (vars : vars_t) c, tok5 (new_tok fo vars c) 0.
Proof.
  intros vars [| | | | |oc]; cbn; auto.
  - split; [reflexivity|]. split; [intros e He; discriminate He|]. split; [lia|].
    intros _ a. vm_compute. lia.
  - split; [reflexivity|]. split; [intros e He; discriminate He|]. split; [lia|].
    intro H. exfalso. apply H. reflexivity.
  - split; [reflexivity|]. split; [intros e He; discriminate He|]. split; [lia|].
    intros _ a. destruct oc; vm_compute; lia.
Qed.

Definition Phi (s : sd) : nat :=
  qp (sd_is_op s) (length (sd_start s)) +
  2 * W (sd_is_op s) (sd_black s) (length (sd_start s)) +
  2 * length (sd_rest s).

Definition Inv5 (s : sd) : Prop :=
  match sd_token s with
  | None => length (sd_rest s) = length (sd_start s)
  | Some t =>
      length (sd_rest s) < length (sd_start s) /\
      in_black (tok_class t) (sd_black s) = false /\
      tok5 t (length (sd_start s) - length (sd_rest s))
  end.

Definition step_post (s s' : sd) : Prop := Inv5 s' /\ Phi s' + 2 <= Phi s.

Lemma append_post5 : forall (vars : vars_t) (s : sd) t rest string,
  length rest + 1 <= length (sd_start s) -> length rest <= length (sd_rest s) ->
  okP (step_post s) (append_and_switch fo vars s t rest string).
Proof.
  intros vars s t rest string Ha Hb. unfold append_and_switch.
  destruct (set_value fo vars t (rev string)) as [p|e|k|]; cbn; auto.
  split.
  - reflexivity.
  - unfold Phi. cbn. apply phi_append; assumption.
Qed.

Definition try_post5 (s : sd) (r : sd + sd) : Prop :=
  match r with
  | inl s' => step_post s s'
  | inr s1 =>
      length (sd_rest s1) = length (sd_rest s) /\
      length (sd_start s1) = length (sd_start s) /\
      Phi s1 <= Phi s
  end.

Lemma try_class_spec5 : forall (vars : vars_t) (s : sd) c rest' cl,
  in_black cl (sd_black s) = false ->
  length (sd_rest s) = S (length rest') ->
  length (sd_start s) = length (sd_rest s) ->
  okP (try_post5 s) (try_class fo vars s c rest' cl).
Proof.
  intros vars s c rest' cl Hb Hrest Hstart. unfold try_class.
  pose proof (add_char_spec5 (new_tok fo vars cl) 0 c (new_tok_tok5 vars cl)) as H5.
  pose proof (add_char_spec (new_tok fo vars cl) [] c (new_tok_inv fo vars cl)) as Ha.
  pose proof (add_char_new_not_skip fo vars cl c) as Hns.
  destruct (add_char (new_tok fo vars cl) c) as [[t it]|e|k|]; cbn [bind]; cbn in H5, Ha; auto.
  destruct Ha as [Hc _]. rewrite new_tok_class in Hc. destruct H5 as [Htrue Hreset].
  destruct it; cbn.
  - (* IFalse *) unfold Phi. cbn. repeat split; lia.
  - (* ITrue *) split.
    + unfold Inv5. cbn. split; [lia|]. split; [rewrite Hc; assumption|].
      replace (length (sd_start s) - length rest') with 1 by lia. auto.
    + unfold Phi. cbn. lia.
  - (* IContinue *)
    eapply okP_bind.
    + apply append_post5 with (rest := rest'); lia.
    + intros s' Hs'. exact Hs'.
  - (* IFalseSkip *) exfalso. apply (Hns t). reflexivity.
  - (* IResetContinue *) unfold Phi. cbn. repeat split; try lia.
    pose proof (W_mono_black (sd_is_op s) (tok_class t) (sd_black s) (length (sd_start s))) as Hpp25. lia.
  - (* ITrueContinue *) split.
    + unfold Inv5. cbn. split; [lia|]. split; [rewrite Hc; assumption|].
      replace (length (sd_start s) - length rest') with 1 by lia. auto.
    + unfold Phi. cbn. lia.
Qed.

Lemma verify_char_spec5 : forall (vars : vars_t) c rest' cls (s : sd),
  length (sd_rest s) = S (length rest') ->
  length (sd_start s) = length (sd_rest s) ->
  okP (step_post s) (verify_char fo vars s c rest' cls).
Proof.
  intros vars c rest'. induction cls as [|cl more IH]; intros s Hrest Hstart; cbn [verify_char].
  - exact I.
  - destruct (in_black cl (sd_black s)) eqn:Hb.
    + apply IH; assumption.
    + eapply okP_bind; [apply try_class_spec5; assumption|].
      intros [s'|s1] Hpost; cbn in Hpost.
      * exact Hpost.
      * destruct Hpost as [Hr1 [Hs1 Hphi]].
        assert (H1 : okP (step_post s1) (verify_char fo vars s1 c rest' more)) by (apply IH; lia).
        destruct (verify_char fo vars s1 c rest' more) as [s'|e|k|]; cbn in *; auto.
        destruct H1 as [Hi Hp]. split; [exact Hi|lia].
Qed.

(* every iteration of the scanner loop pays two units of the potential *)
Lemma scan_step_spec5 : forall (vars : vars_t) (s : sd) r,
  Inv s -> Inv5 s -> scan_step fo vars s = Some r -> okP (step_post s) r.
Proof.
  intros vars s r [Hpre Htok] H5 Hstep. unfold scan_step in Hstep.
  destruct (sd_rest s) as [|c rest'] eqn:Hrest; [discriminate Hstep|].
  inversion Hstep as [Hr]; clear Hstep Hr.
  unfold Inv5 in H5.
  destruct (sd_token s) as [t|] eqn:Ht.
  - destruct Htok as [Hcl Hinv]. destruct H5 as [Hlt [Hblack Ht5]].
    rewrite Hrest in Hlt, Ht5. cbn [length] in Hlt, Ht5.
    pose proof (add_char_spec t (sd_string s) c Hinv) as Ha.
    pose proof (add_char_spec5 t _ c Ht5) as Hb.
    destruct (add_char t c) as [[t' it]|e|k|]; cbn [bind]; cbn in Ha, Hb; auto.
    destruct Ha as [Hc _]. destruct Hb as [Htrue Hreset].
    destruct it.
    + (* IFalse *) apply append_post5; rewrite ?Hrest; cbn [length]; lia.
    + (* ITrue *) cbn. split.
      * unfold Inv5. cbn. split; [lia|]. split; [rewrite Hc; assumption|].
        replace (length (sd_start s) - length rest') with (S (length (sd_start s) - S (length rest'))) by lia.
        auto.
      * unfold Phi. cbn. rewrite Hrest. cbn [length]. lia.
    + (* IContinue *) apply append_post5; rewrite ?Hrest; cbn [length]; lia.
    + (* IFalseSkip *) apply append_post5; rewrite ?Hrest; cbn [length]; lia.
    + (* IResetContinue *) cbn. split.
      * unfold Inv5. cbn. reflexivity.
      * unfold Phi. cbn. rewrite Hrest. cbn [length].
        specialize (Hreset eq_refl (length (sd_start s)) ltac:(lia)).
        rewrite Hc.
        pose proof (W_reset (sd_is_op s) (tok_class t) (sd_black s) (length (sd_start s)) Hcl Hblack) as Hpp26.
        lia.
    + (* ITrueContinue *) cbn. split.
      * unfold Inv5. cbn. split; [lia|]. split; [rewrite Hc; assumption|].
        replace (length (sd_start s) - length rest') with (S (length (sd_start s) - S (length rest'))) by lia.
        auto.
      * unfold Phi. cbn. rewrite Hrest. cbn [length]. lia.
  - rewrite Hrest in H5. cbn [length] in H5.
    destruct (isspace_c c).
    + cbn. split.
      * unfold Inv5. cbn. reflexivity.
      * unfold Phi. cbn. rewrite Hrest. cbn [length]. rewrite <- H5.
        pose proof (W_mono_a (sd_is_op s) (sd_black s) (S (length rest')) (length rest') ltac:(lia)) as Hpp27.
        assert (Hq : qp (sd_is_op s) (length rest') <= qp (sd_is_op s) (S (length rest'))).
        { unfold qp. destruct (sd_is_op s); nia. }
        lia.
    + apply verify_char_spec5; rewrite ?Hrest; cbn [length]; lia.
Qed.

Lemma scan_loop_fuel : forall (vars : vars_t) fuel (s : sd),
  Inv s -> Inv5 s -> Phi s <= 2 * fuel -> scan_loop fo fuel vars s <> Crash KOutOfFuel.
Proof.
  intros vars. induction fuel as [|f IH]; intros s Hinv H5 Hphi; cbn [scan_loop];
    destruct (scan_step fo vars s) as [r|] eqn:Hstep.
  - exfalso. unfold scan_step in Hstep. unfold Phi in Hphi.
    destruct (sd_rest s); [discriminate Hstep|]. cbn [length] in Hphi. lia.
  - pose proof (scan_finish_spec fo vars s Hinv) as Hf. intro Hc. rewrite Hc in Hf. exact Hf.
  - pose proof (scan_step_spec fo vars s r Hinv Hstep) as H1.
    pose proof (scan_step_spec5 vars s r Hinv H5 Hstep) as H2.
    destruct r as [s'|e|k|]; cbn [bind]; cbn in H1, H2; try discriminate; [|contradiction].
    destruct H2 as [H5' Hdec]. apply IH; auto. lia.
  - pose proof (scan_finish_spec fo vars s Hinv) as Hf. intro Hc. rewrite Hc in Hf. exact Hf.
Qed.

(* E5 *)
Theorem convert_string_fuel : forall (vars : vars_t) (s : str),
  convert_string fo vars s <> Crash KOutOfFuel.
Proof.
  intros vars s. unfold convert_string. apply scan_loop_fuel.
  - apply Inv_init.
  - reflexivity.
  - unfold Phi, scan_fuel. cbn [Expr.sd_is_op Expr.sd_start Expr.sd_rest Expr.sd_black].
    rewrite W_full_val. unfold qp. nia.
Qed.

Theorem convert_string_never_crashes : forall (vars : vars_t) (s : str) k,
  convert_string fo vars s <> Crash k.
Proof.
  intros vars s k H. pose proof (convert_string_crash fo vars s k H) as Hk. subst k.
  exact (convert_string_fuel vars s H).
Qed.

End WithFloats.
