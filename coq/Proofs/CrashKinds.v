(* Crash-kind lifting library.
   For a set of allowed crash kinds  K : crashkind -> Prop  we define
     res_ok K r   : a [res] outcome is a crash only with a kind in K
     ires_ok K x  : an interpreter outcome (state, ires) is a crash only with a kind in K
     M_ok K m     : the monadic computation m satisfies ires_ok K from every state
   and prove, definition by definition, which kinds every function of Model/Values.v,
   Model/Expr.v and Model/Interp.v can produce.  Each lemma is stated for an arbitrary K and
   lists exactly the kinds it needs as premises  K KOther, K KIndexError, ...  *)
From Coq Require Import NArith ZArith List Bool Lia.
From DS Require Import Base PyStr Values Expr TabParse Tables Constants Interp.
Import ListNotations.

Definition res_ok (K : crashkind -> Prop) {A} (r : res A) : Prop :=
  forall k, r = Crash k -> K k.

(* leaves: Ok / Err / Unmodelled are never crashes; Crash k needs K k from the context *)
Ltac ok_leaf :=
  let k := fresh "k" in let H := fresh "H" in
  intros k H; first [ discriminate H | injection H as <-; assumption ].

Lemma res_ok_bind : forall K A B (r : res A) (f : A -> res B),
  res_ok K r -> (forall a, res_ok K (f a)) -> res_ok K (bind r f).
Proof.
  intros K A B r f Hr Hf. destruct r as [a|e|k|]; cbn [bind].
  - apply Hf.
  - ok_leaf.
  - intros k' Hk'. injection Hk' as <-. apply Hr. reflexivity.
  - ok_leaf.
Qed.

(* generic driver: split binds, case on every scrutinee, close leaves *)
Ltac res_step :=
  match goal with
  | |- res_ok _ (bind _ _) => apply res_ok_bind; [ | intros ? ]
  | |- res_ok _ (match ?x with _ => _ end) => destruct x
  | |- res_ok _ (Ok _) => ok_leaf
  | |- res_ok _ (Err _) => ok_leaf
  | |- res_ok _ Unmodelled => ok_leaf
  | |- res_ok _ (Crash _) => ok_leaf
  end.
Ltac res_auto := repeat first [ res_step | solve [ auto ] ].

(* ------------------------------------------------------------------ Values.v *)
Section ValuesKinds.
Variable fo : FloatOps.
Variable K : crashkind -> Prop.
Notation value := (value fo).

(* induction principle for the nested type [value] *)
Section ValueInd.
Variable P : value -> Prop.
Hypothesis hInt : forall z, P (VInt z).
Hypothesis hFlt : forall f, P (VFlt f).
Hypothesis hStr : forall s, P (VStr s).
Hypothesis hBool : forall b, P (VBool b).
Hypothesis hNone : P VNone.
Hypothesis hList : forall l, Forall P l -> P (VList l).
Fixpoint value_ind' (v : value) : P v :=
  match v with
  | VInt z => hInt z
  | VFlt f => hFlt f
  | VStr s => hStr s
  | VBool b => hBool b
  | VNone => hNone
  | VList l => hList l ((fix go (l : list value) : Forall P l :=
                           match l with
                           | [] => Forall_nil P
                           | x :: r => Forall_cons x (value_ind' x) (go r)
                           end) l)
  end.
End ValueInd.

Lemma to_float_ok : forall n, res_ok K (to_float fo n).
Proof. intros [z|f]; cbn [to_float]; [unfold of_option|]; res_auto. Qed.
Hint Resolve to_float_ok : core.

Lemma arith2_ok : forall fz ff x y, res_ok K (arith2 fo fz ff x y).
Proof. intros fz ff x y. unfold arith2. res_auto. Qed.
Hint Resolve arith2_ok : core.

Lemma py_pow_ok : forall x y, res_ok K (py_pow fo x y).
Proof. intros x y. unfold py_pow. res_auto. Qed.
Hint Resolve py_pow_ok : core.

Lemma py_eq_ok : forall a b, res_ok K (py_eq fo a b).
Proof.
  intro a. induction a as [z|f|s|b0| |l IH] using value_ind'; intro b;
    try (destruct b; cbn; res_auto; fail).
  destruct b as [z|f|s|b0|l'|]; cbn; try ok_leaf.
  revert l'. induction IH as [|x l Hx Hl IHl]; intros [|y l']; try ok_leaf.
  apply res_ok_bind; [apply Hx|]. intros [|]; [apply IHl | ok_leaf].
Qed.
Hint Resolve py_eq_ok : core.

Lemma py_lt_ok : forall a b, res_ok K (py_lt fo a b).
Proof. intros a b. unfold py_lt. res_auto. Qed.
Hint Resolve py_lt_ok : core.

Lemma math_op_ok : forall sym l r, res_ok K (math_op fo sym l r).
Proof. intros sym l r. unfold math_op. res_auto. Qed.

Lemma comma_op_ok : forall l r, res_ok K (comma_op fo l r).
Proof. intros l r. unfold comma_op. res_auto. Qed.

(* the only crash of Values.v: an operator symbol outside the table (NotImplementedError) *)
Hypothesis HOther : K KOther.

Lemma cond_op_ok : forall sym l r, res_ok K (cond_op fo sym l r).
Proof. intros sym l r. unfold cond_op. res_auto. Qed.

Lemma apply_op_ok : forall oc sym l r, res_ok K (apply_op fo oc sym l r).
Proof.
  intros oc sym l r. unfold apply_op. apply res_ok_bind; [|intro; ok_leaf].
  destruct oc; [apply math_op_ok | apply cond_op_ok | apply comma_op_ok].
Qed.

End ValuesKinds.

(* ------------------------------------------------------------------ Expr.v *)
Section ExprKinds.
Variable fo : FloatOps.
Variable K : crashkind -> Prop.
Notation value := (value fo).

Lemma add_char_ok : forall t c, res_ok K (add_char t c).
Proof. intros t c. destruct t; cbn [add_char]; res_auto. Qed.
Hint Resolve add_char_ok : core.

Lemma number_value_ok : forall s, res_ok K (number_value fo s).
Proof. intro s. unfold number_value. res_auto. Qed.
Hint Resolve number_value_ok : core.

(* kinds produced by the tokenizer: KOther (unreachable token class / operator),
   KOutOfFuel (model fuel), KIndexError (malformed token alternation) *)
Hypothesis HOther : K KOther.

Lemma set_value_ok : forall vars t s, res_ok K (set_value fo vars t s).
Proof. intros vars t s. unfold set_value. res_auto. Qed.
Hint Resolve set_value_ok : core.

Lemma append_and_switch_ok : forall vars s t rest string,
  res_ok K (append_and_switch fo vars s t rest string).
Proof. intros. unfold append_and_switch. res_auto. Qed.
Hint Resolve append_and_switch_ok : core.

Lemma try_class_ok : forall vars s c rest' cl, res_ok K (try_class fo vars s c rest' cl).
Proof. intros. unfold try_class. res_auto. Qed.
Hint Resolve try_class_ok : core.

Lemma verify_char_ok : forall vars cls s c rest', res_ok K (verify_char fo vars s c rest' cls).
Proof.
  intros vars cls. induction cls as [|cl more IH]; intros s c rest'; cbn [verify_char].
  - ok_leaf.
  - destruct (in_black _ _); [apply IH|].
    apply res_ok_bind; [apply try_class_ok|]. intros [s'|s']; [ok_leaf | apply IH].
Qed.
Hint Resolve verify_char_ok : core.

Lemma scan_step_ok : forall vars s r, scan_step fo vars s = Some r -> res_ok K r.
Proof.
  intros vars s r H. unfold scan_step in H. destruct (sd_rest _ _) as [|c rest']; [discriminate|].
  injection H as <-. res_auto.
Qed.

Lemma scan_finish_ok : forall vars s, res_ok K (scan_finish fo vars s).
Proof. intros. unfold scan_finish. res_auto. Qed.
Hint Resolve scan_finish_ok : core.

Hypothesis HFuel : K KOutOfFuel.

Lemma scan_loop_ok : forall fuel vars s, res_ok K (scan_loop fo fuel vars s).
Proof.
  induction fuel as [|f IH]; intros vars s; cbn [scan_loop];
    destruct (scan_step fo vars s) as [r|] eqn:Hstep; auto.
  - ok_leaf.
  - apply res_ok_bind; [exact (scan_step_ok _ _ _ Hstep) | intro; apply IH].
Qed.

Lemma convert_string_ok : forall vars s, res_ok K (convert_string fo vars s).
Proof. intros. unfold convert_string. apply scan_loop_ok. Qed.
Hint Resolve convert_string_ok : core.

Hypothesis HIndex : K KIndexError.

Lemma build_tree_ok : forall l, res_ok K (build_tree fo l).
Proof. intro l. unfold build_tree. res_auto. Qed.
Hint Resolve build_tree_ok : core.

Lemma solve_ok : forall rec, (forall s, res_ok K (rec s)) -> forall t, res_ok K (solve fo rec t).
Proof.
  intros rec Hrec t. induction t as [p|oc sym l IHl r IHr]; cbn [solve].
  - destruct p; res_auto.
  - apply res_ok_bind; [exact IHl|]. intro lv. apply res_ok_bind; [exact IHr|]. intro rv.
    apply apply_op_ok. exact HOther.
Qed.

Lemma tokenize_fuel_ok : forall fuel vars s, res_ok K (tokenize_fuel fo fuel vars s).
Proof.
  induction fuel as [|f IH]; intros vars s; cbn [tokenize_fuel].
  - ok_leaf.
  - apply res_ok_bind; [auto|]. intro toks. apply res_ok_bind; [auto|]. intro tree.
    apply res_ok_bind; [|intro; ok_leaf]. apply solve_ok. intro s'. apply IH.
Qed.

Theorem tokenize_ok : forall vars s, res_ok K (tokenize fo vars s).
Proof. intros. unfold tokenize. apply tokenize_fuel_ok. Qed.

End ExprKinds.

(* ------------------------------------------------------------------ Interp.v: the monad *)
Definition ires_ok (K : crashkind -> Prop) {S A} (x : S * ires A) : Prop :=
  forall k, snd x = @ICrash A k -> K k.

Definition M_ok (K : crashkind -> Prop) {fo A} (m : M fo A) : Prop :=
  forall s, ires_ok K (m s).

Ltac iok_leaf :=
  let k := fresh "k" in let H := fresh "H" in
  intros k H; cbn [snd] in H; first [ discriminate H | injection H as <-; assumption ].

Lemma ires_ok_intro : forall (K : crashkind -> Prop) S A (s : S) (r : ires A),
  (forall k, r = @ICrash A k -> K k) -> ires_ok K (s, r).
Proof. intros K S A s r H k Hk. apply H. exact Hk. Qed.

Section MonadKinds.
Variable fo : FloatOps.
Variable K : crashkind -> Prop.

Lemma M_ok_ret : forall A (a : A), M_ok K (ret fo a).
Proof. intros A a s. unfold ret. iok_leaf. Qed.

Lemma M_ok_bind : forall A B (m : M fo A) (f : A -> M fo B),
  M_ok K m -> (forall a, M_ok K (f a)) -> M_ok K (bindM fo m f).
Proof.
  intros A B m f Hm Hf s. unfold bindM. specialize (Hm s).
  destruct (m s) as [s' [a|e t|k|]].
  - apply Hf.
  - iok_leaf.
  - intros k' Hk'. cbn [snd] in Hk'. injection Hk' as <-. apply Hm. reflexivity.
  - iok_leaf.
Qed.

Lemma M_ok_raise : forall cx cur A e, M_ok K (raise fo cx cur (A:=A) e).
Proof. intros cx cur A e s. unfold raise. iok_leaf. Qed.

Lemma M_ok_crash : forall A k, K k -> M_ok K (crash fo (A:=A) k).
Proof. intros A k Hk s. unfold crash. iok_leaf. Qed.

Lemma M_ok_unmod : forall A, M_ok K (unmod fo (A:=A)).
Proof. intros A s. unfold unmod. iok_leaf. Qed.

Lemma M_ok_lift : forall cx cur A (r : res A), res_ok K r -> M_ok K (lift fo cx cur r).
Proof.
  intros cx cur A r Hr. destruct r as [a|e|k|]; cbn [lift].
  - apply M_ok_ret.
  - apply M_ok_raise.
  - apply M_ok_crash. apply Hr. reflexivity.
  - apply M_ok_unmod.
Qed.

Lemma M_ok_get_env : M_ok K (get_env fo).
Proof. intro s. unfold get_env. iok_leaf. Qed.
Lemma M_ok_set_env : forall e, M_ok K (set_env fo e).
Proof. intros e s. unfold set_env. iok_leaf. Qed.
Lemma M_ok_set_line2 : forall l, M_ok K (set_line2 fo l).
Proof. intros l s. unfold set_line2. iok_leaf. Qed.
Lemma M_ok_mod_glob : forall f, M_ok K (mod_glob fo f).
Proof. intros f s. unfold mod_glob. iok_leaf. Qed.
Lemma M_ok_warn : forall cx cur text, M_ok K (warn fo cx cur text).
Proof. intros cx cur text s. unfold warn. iok_leaf. Qed.

End MonadKinds.

Ltac m_step :=
  match goal with
  | |- M_ok _ (bindM _ _ _) => apply M_ok_bind; [ | intros ? ]
  | |- M_ok _ (ret _ _) => apply M_ok_ret
  | |- M_ok _ (raise _ _ _ _) => apply M_ok_raise
  | |- M_ok _ (crash _ _) => apply M_ok_crash; assumption
  | |- M_ok _ (unmod _) => apply M_ok_unmod
  | |- M_ok _ (lift _ _ _ _) => apply M_ok_lift
  | |- M_ok _ (get_env _) => apply M_ok_get_env
  | |- M_ok _ (set_env _ _) => apply M_ok_set_env
  | |- M_ok _ (set_line2 _ _) => apply M_ok_set_line2
  | |- M_ok _ (mod_glob _ _) => apply M_ok_mod_glob
  | |- M_ok _ (warn _ _ _ _) => apply M_ok_warn
  | |- M_ok _ (match ?x with _ => _ end) => destruct x
  end.
Ltac m_auto := repeat first [ m_step | res_step | solve [ auto ] ].

(* ------------------------------------------------------------------ Interp.v: pure helpers *)
Section PureKinds.
Variable fo : FloatOps.
Variable K : crashkind -> Prop.

Lemma resolve_start_ok : forall file rel, res_ok K (resolve_start file rel).
Proof. intros. unfold resolve_start. res_auto. Qed.

Lemma bind_counter_ok : forall v count ce, res_ok K (bind_counter fo v count ce).
Proof. intros. unfold bind_counter. res_auto. Qed.

Lemma typed_content_ok : forall at_ v, res_ok K (typed_content fo at_ v).
Proof. intros. unfold typed_content. res_auto. Qed.

(* the validator DSL applied to a content of the wrong type: AttributeError / TypeError *)
Hypothesis HAttr : K KAttributeError.

Hypothesis HType : K KTypeError.

Lemma eval_bexpr_ok : forall params b a, res_ok K (eval_bexpr params b a).
Proof.
  intros params b a. induction b; cbn [eval_bexpr]; res_auto.
Qed.
Hint Resolve eval_bexpr_ok : core.

Lemma eval_validator_rules_ok : forall params rules dflt a,
  res_ok K (eval_validator_rules params rules dflt a).
Proof.
  intros params rules dflt a. induction rules as [|[b verdict] r IH]; cbn [eval_validator_rules]; res_auto.
Qed.

Lemma eval_validator_ok : forall params v a, res_ok K (eval_validator params v a).
Proof. intros. unfold eval_validator. apply eval_validator_rules_ok. Qed.

Lemma eval_formatter_rules_ok : forall params rules dflt s,
  res_ok K (eval_formatter_rules params rules dflt s).
Proof.
  intros params rules dflt s. induction rules as [|[b e] r IH]; cbn [eval_formatter_rules]; res_auto.
Qed.
Hint Resolve eval_formatter_rules_ok : core.

Lemma eval_formatter_ok : forall params f a, res_ok K (eval_formatter params f a).
Proof. intros. unfold eval_formatter. res_auto. Qed.

End PureKinds.

(* ------------------------------------------------------------------ Interp.v: Section Stack *)
(* a runner crashes only with kinds in K *)
Definition runner_ok (K : crashkind -> Prop) {fo} (r : runner fo) : Prop :=
  forall cx g e cmds, ires_ok K (r cx g e cmds).

Section StackKinds.
Variable fo : FloatOps.
Variable K : crashkind -> Prop.
Variable child : runner fo.
Variable cx : ctx.

(* what is needed of [child]: only calls made AFTER the stack-limit check passed, on this
   stack's options and file system, with the pile extended by exactly one frame *)
Definition child_ok : Prop :=
  cmp_eval stack_limit_op (pile_len cx) (stack_limit (c_opts cx)) = false ->
  forall cur l2 file g e code,
    ires_ok K (child (mkCtx (c_opts cx) (c_fs cx) (here cx cur l2) file) g e code).

Hypothesis Hchild : child_ok.

(* the expression tokenizer is kept abstract here (discharged by [tokenize_ok] below), so that
   the loop lemmas can be reused with a K that excludes KOutOfFuel *)
Hypothesis Htok : forall vars s, res_ok K (tokenize fo vars s).

Hypothesis HOther : K KOther.
Hypothesis HFuel : K KOutOfFuel.
Hypothesis HIndex : K KIndexError.
Hypothesis HAttr : K KAttributeError.
Hypothesis HType : K KTypeError.
Hypothesis HValue : K KValueError.

Lemma tokenizeM_ok : forall cur s, M_ok K (tokenizeM fo cx cur s).
Proof. intros. unfold tokenizeM. m_auto. Qed.
Hint Resolve tokenizeM_ok : core.

Lemma new_var_ok : forall cur name v, M_ok K (new_var fo cx cur name v).
Proof. intros. unfold new_var. m_auto. Qed.
Hint Resolve new_var_ok : core.

Lemma run_child_with_ok : forall cur code file parallel setup pre,
  (forall e, res_ok K (setup e)) -> (forall e, res_ok K (pre e)) ->
  M_ok K (run_child_with fo child cx cur code file parallel setup pre).
Proof.
  intros cur code file parallel setup pre Hsetup Hpre s. unfold run_child_with.
  destruct (cmp_eval stack_limit_op (pile_len cx) (stack_limit (c_opts cx))) eqn:Hcmp; [iok_leaf|].
  specialize (Hsetup (append_env fo (empty_env fo) (s_env fo s))).
  destruct (setup _) as [cenv1|er|k|]; try iok_leaf.
  2:{ intros k' Hk'. cbn [snd] in Hk'. injection Hk' as <-. apply Hsetup. reflexivity. }
  specialize (Hpre cenv1).
  destruct (pre cenv1) as [[|]|er|k|]; try iok_leaf.
  2:{ intros k' Hk'. cbn [snd] in Hk'. injection Hk' as <-. apply Hpre. reflexivity. }
  pose proof (Hchild Hcmp cur (s_line2 fo s) file (s_g fo s) cenv1 code) as Hc.
  destruct (child _ _ _ _) as [g' [[cr cenv2]|er t|k|]]; try iok_leaf.
  intros k' Hk'. cbn [snd] in Hk'. injection Hk' as <-. apply Hc. reflexivity.
Qed.

Lemma run_child_ok : forall cur code file parallel setup,
  (forall e, res_ok K (setup e)) -> M_ok K (run_child fo child cx cur code file parallel setup).
Proof.
  intros. unfold run_child. apply M_ok_bind.
  - apply run_child_with_ok; [assumption | intro; ok_leaf].
  - intros [cr|]; m_auto.
Qed.

Lemma listify_args_ok : forall cur argument code_block num,
  M_ok K (listify_args fo cx cur argument code_block num).
Proof. intros. unfold listify_args. m_auto. Qed.
Hint Resolve listify_args_ok : core.

Lemma evaluate_args_ok : forall cur at_ args, M_ok K (evaluate_args fo cx cur at_ args).
Proof. intros cur at_ args. induction args as [|l r IH]; cbn [evaluate_args]; m_auto. Qed.
Hint Resolve evaluate_args_ok : core.

Lemma check_types_ok : forall cur at_ args, M_ok K (check_types fo cx cur at_ args).
Proof. intros cur at_ args. induction args as [|[l oc] r IH]; cbn [check_types]; m_auto. Qed.
Hint Resolve check_types_ok : core.

Lemma verify_each_ok : forall cur params v args, M_ok K (verify_each fo cx cur params v args).
Proof.
  intros cur params v args. induction args as [|l r IH]; cbn [verify_each]; m_auto.
  apply eval_validator_ok; assumption.
Qed.
Hint Resolve verify_each_ok : core.

Lemma verify_plural_ok : forall cur pv n, M_ok K (verify_plural fo cx cur pv n).
Proof. intros. unfold verify_plural. m_auto. Qed.
Hint Resolve verify_plural_ok : core.

Lemma format_each_ok : forall cur params f args, M_ok K (format_each fo cx cur params f args).
Proof.
  intros cur params f args. induction args as [|l r IH]; cbn [format_each]; m_auto.
  apply eval_formatter_ok; assumption.
Qed.
Hint Resolve format_each_ok : core.

Lemma add_plain_warning_ok : forall text, M_ok K (add_plain_warning fo text).
Proof. intros. unfold add_plain_warning. m_auto. Qed.
Hint Resolve add_plain_warning_ok : core.

Lemma check_flipper_ok : forall cur b, M_ok K (check_flipper fo cx cur b).
Proof. intros. unfold check_flipper. m_auto. Qed.
Hint Resolve check_flipper_ok : core.

Lemma get_temp_flag_ok : M_ok K (get_temp_flag fo).
Proof. unfold get_temp_flag. m_auto. Qed.
Lemma set_temp_flag_ok : forall b, M_ok K (set_temp_flag fo b).
Proof. intros. unfold set_temp_flag. m_auto. Qed.
Hint Resolve get_temp_flag_ok set_temp_flag_ok : core.

Lemma tokenize_count_ok : forall cur argument, M_ok K (tokenize_count fo cx cur argument).
Proof. intros. unfold tokenize_count. m_auto. Qed.
Hint Resolve tokenize_count_ok : core.

Lemma run_compile_ok : forall cur cname sc name arg,
  M_ok K (run_compile fo child cx cur cname sc name arg).
Proof.
  intros cur cname sc name arg. unfold run_compile.
  destruct (s_run sc).
  all: try (m_auto; fail).
  - (* RKRun *)
    destruct arg as [l|]; [|m_auto].
    destruct (break_arg _) as [fname var_string].
    apply M_ok_bind; [m_auto|]. intro vals. apply M_ok_bind; [m_auto|]. intro e.
    destruct (lookup _ _) as [f|]; [|m_auto].
    destruct (negb _); [m_auto|].
    apply M_ok_bind; [|intro; m_auto].
    apply run_child_ok. intro; ok_leaf.
  - (* RKStart *)
    destruct arg as [l|]; [|m_auto]. destruct (c_file cx) as [file|]; [|m_auto].
    apply M_ok_bind; [m_auto; apply resolve_start_ok|]. intro target.
    destruct (c_fs cx target) as [text|]; [|m_auto].
    intro s. destruct (existsb _ _); [iok_leaf|].
    destruct (prepare_text text) as [commands|[| | | |]]; try iok_leaf.
    revert s. apply M_ok_bind; [apply run_child_ok; intro; ok_leaf|]. intro cr. m_auto.
Qed.
Hint Resolve run_compile_ok : core.

Lemma multi_comp_ok : forall cur cname tg sc name args acc,
  M_ok K (multi_comp fo child cx cur cname tg sc name args acc).
Proof.
  intros cur cname tg sc name args. induction args as [|a r IH]; intro acc; cbn [multi_comp].
  - m_auto.
  - apply M_ok_bind; [m_auto|]. intros _. apply M_ok_bind; [auto|]. intro c. apply IH.
Qed.
Hint Resolve multi_comp_ok : core.

Lemma simple_compile_ok : forall cur cname tg sc cmd num argument code_block,
  M_ok K (simple_compile fo child cx cur cname tg sc cmd num argument code_block).
Proof.
  intros. unfold simple_compile.
  apply M_ok_bind; [auto|]. intros _.
  apply M_ok_bind; [auto|]. intro args0.
  apply M_ok_bind.
  { destruct (_ || _); [|m_auto].
    apply M_ok_bind; [auto|]. intro vs.
    induction vs as [|[l v] r IH]; [m_auto|].
    apply M_ok_bind; [apply M_ok_lift; apply typed_content_ok|]. intro c.
    apply M_ok_bind; [exact IH|]. intro t. m_auto. }
  intro args2.
  apply M_ok_bind; [m_auto|]. intros _.
  apply M_ok_bind; [auto|]. intro args3.
  apply M_ok_bind; [auto|]. intros _.
  apply M_ok_bind; [auto|]. intros _.
  apply M_ok_bind; [auto|]. intro args4.
  auto.
Qed.
Hint Resolve simple_compile_ok : core.

Lemma repeat_loop_ok : forall cur fuel var_name argument code count acc,
  M_ok K (repeat_loop fo child cx cur fuel var_name argument code count acc).
Proof.
  intros cur fuel var_name argument code.
  induction fuel as [|f IH]; intros count acc; cbn [repeat_loop].
  - m_auto.
  - apply M_ok_bind; [auto|]. intro n. destruct (_ <? _)%Z; [|m_auto].
    apply M_ok_bind; [apply run_child_ok; intro; apply bind_counter_ok|]. intro cr.
    destruct (loop_signal _) as [sg brk]. destruct brk; [m_auto | apply IH].
Qed.

Lemma while_loop_ok : forall cur fuel var_name argument code count acc,
  M_ok K (while_loop fo child cx cur fuel var_name argument code count acc).
Proof.
  intros cur fuel var_name argument code.
  induction fuel as [|f IH]; intros count acc; cbn [while_loop].
  - m_auto.
  - destruct (cmp_eval _ _ _); [m_auto|].
    apply M_ok_bind.
    + apply run_child_with_ok; [intro; apply bind_counter_ok|].
      intro ce. apply res_ok_bind; [apply Htok | intro; ok_leaf].
    + intros [cr|]; [|m_auto].
      destruct (loop_signal _) as [sg brk]. destruct brk; [m_auto | apply IH].
Qed.

Lemma block_compile_ok : forall cur bc cname cmd num argument code_block,
  M_ok K (block_compile fo child cx cur bc cname cmd num argument code_block).
Proof.
  intros. unfold block_compile.
  apply M_ok_bind; [auto|]. intros _.
  apply M_ok_bind; [m_auto|]. intros _.
  destruct (b_kind bc).
  - (* IF / ELSE_IF / ELSE *)
    repeat (apply M_ok_bind; [m_auto | intros ?]).
    destruct (_ : bool); [m_auto|]. destruct (_ && _); [m_auto|].
    apply M_ok_bind; [auto|]. intros _.
    apply M_ok_bind; [apply run_child_ok; intro; ok_leaf|]. intro; m_auto.
  - m_auto.
  - (* REPEAT *)
    destruct (if b_strip_arg bc then _ else _) as [a|]; [|m_auto].
    destruct (split_loop_arg a) as [var_name count_expr].
    destruct (match code_block with Some b => b | None => [] end); [m_auto|].
    destruct (match var_name with Some v => is_var v false | None => true end); [|m_auto].
    apply M_ok_bind; [apply repeat_loop_ok | intro; m_auto].
  - (* WHILE *)
    destruct (if b_strip_arg bc then _ else _) as [a|]; [|m_auto].
    destruct (split_loop_arg a) as [var_name cond].
    apply M_ok_bind; [apply while_loop_ok | intro; m_auto].
  - m_auto.
Qed.

Lemma exec_line_ok : forall c n code_block, M_ok K (exec_line fo child cx c n code_block).
Proof.
  intros. unfold exec_line.
  destruct (split_ws1 c) as [|cmd more]; [m_auto|].
  destruct (find_command _ _ _) as [[cname cl]|].
  - destruct (_ && _); [m_auto|]. destruct cl as [sc|bc]; [auto|].
    apply M_ok_bind; [apply block_compile_ok|]. intro r; m_auto.
  - apply M_ok_bind; [m_auto|]. intros _. auto.
Qed.

Theorem exec_cmds_ok : forall cmds acc, M_ok K (exec_cmds fo child cx cmds acc).
Proof.
  intro cmds. induction cmds as [|[c n|b] rest IH]; intro acc; cbn [exec_cmds].
  - m_auto.
  - destruct (is_blank c); [apply IH|].
    apply M_ok_bind; [m_auto|]. intros _.
    apply M_ok_bind; [apply exec_line_ok|]. intro cr.
    destruct (cr_sig cr); first [apply IH | m_auto].
  - apply IH.
Qed.

(* Stack.run on top of [child] *)
Theorem run_with_ok : forall g e cmds, ires_ok K (run_with fo child cx g e cmds).
Proof.
  intros g e cmds. unfold run_with.
  pose proof (exec_cmds_ok cmds [] (mkSt fo g e None)) as H.
  destruct (exec_cmds _ _ _ _ _ _) as [s [cr|er t|k|]]; try iok_leaf.
  intros k' Hk'. cbn [snd] in Hk'. injection Hk' as <-. apply H. reflexivity.
Qed.

End StackKinds.

(* the same with the tokenizer discharged: everything Stack.run can crash with *)
Theorem run_with_kinds : forall fo (K : crashkind -> Prop) child cx,
  child_ok fo K child cx ->
  K KOther -> K KOutOfFuel -> K KIndexError -> K KAttributeError -> K KTypeError -> K KValueError ->
  forall g e cmds, ires_ok K (run_with fo child cx g e cmds).
Proof.
  intros fo K child cx Hc HO HF HI HA HT HV. apply run_with_ok; try assumption.
  intros vars s. apply tokenize_ok; assumption.
Qed.

Theorem exec_cmds_kinds : forall fo (K : crashkind -> Prop) child cx,
  child_ok fo K child cx ->
  K KOther -> K KOutOfFuel -> K KIndexError -> K KAttributeError -> K KTypeError -> K KValueError ->
  forall cmds acc, M_ok K (exec_cmds fo child cx cmds acc).
Proof.
  intros fo K child cx Hc HO HF HI HA HT HV. apply exec_cmds_ok; try assumption.
  intros vars s. apply tokenize_ok; assumption.
Qed.
