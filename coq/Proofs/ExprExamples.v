(* C04 (end to end): concrete witnesses, evaluated on the model with a dummy FloatOps.  The hypotheses
   of [tokenize_print] are satisfiable, its conclusion is what the tokenizer does, and each hypothesis
   is needed. *)
From Coq Require Import NArith ZArith List Bool Arith Lia.
From DS Require Import Base Unicode PyStr Values Tables Constants Expr Spelling ExprLang ExprPrint
  ExprCorollaries.
Import ListNotations.

(* every float is "integral" with int value 2 and repr "2.0" *)
Definition fo1 : FloatOps := {| F := unit; f_of_Z := fun _ => Some tt; f_of_dec := fun _ _ _ => tt;
  f_add := fun _ _ => tt; f_sub := fun _ _ => tt; f_mul := fun _ _ => tt; f_div := fun _ _ => tt;
  f_floordiv := fun _ _ => tt; f_mod := fun _ _ => tt; f_pow := fun _ _ => PowOk tt;
  f_is_integer := fun _ => true; f_to_Z := fun _ => 2%Z; f_eqb := fun _ _ => true; f_ltb := fun _ _ => false;
  f_is_zero := fun _ => false; f_repr := fun _ => [50;46;48]%N |}.

Definition i1 := ELit (SInt [49%N]).
Definition i2 := ELit (SInt [50%N]).
Definition i3 := ELit (SInt [51%N]).
Definition plus := EBin OCMath sym_plus.
Definition minus := EBin OCMath sym_minus.
Definition times := EBin OCMath sym_times.

(* (1 + 2) * 3 is printed "(1+2)*3" and evaluates to 9 *)
Lemma ex_left_paren :
  print [] (times (plus i1 i2) i3) = [40; 49; 43; 50; 41; 42; 51]%N /\
  tokenize fo1 [] (print [] (times (plus i1 i2) i3)) = Ok (VInt 9) /\
  eval_ref fo1 [] (times (plus i1 i2) i3) = Ok (VInt 9).
Proof. vm_compute. repeat split. Qed.

(* 1 - (2 - 3), layout " ", "\t ": printed " 1\t -(2-3)", value 2 (not -4) *)
Lemma ex_right_paren :
  print [[32]; [9; 32]]%N (minus i1 (minus i2 i3)) = [32; 49; 9; 32; 45; 40; 50; 45; 51; 41]%N /\
  tokenize fo1 [] (print [[32]; [9; 32]]%N (minus i1 (minus i2 i3))) = Ok (VInt 2) /\
  eval_ref fo1 [] (minus i1 (minus i2 i3)) = Ok (VInt 2).
Proof. vm_compute. repeat split. Qed.

(* !((1) == 3 - 2), layout " ", "", "", " ": printed " !((1 )==3-2)", value FALSE *)
Definition ex_not_expr := ENot (EBin OCCond sym_eq (EParen i1) (minus i3 i2)).
Lemma ex_not :
  print [[32]; []; []; [32]]%N ex_not_expr = [32; 33; 40; 40; 49; 32; 41; 61; 61; 51; 45; 50; 41]%N /\
  tokenize fo1 [] (print [[32]; []; []; [32]]%N ex_not_expr) = Ok (VBool false) /\
  eval_ref fo1 [] ex_not_expr = Ok (VBool false).
Proof. vm_compute. repeat split. Qed.

(* the depth bound is tight: 100 nested pairs are accepted, 101 raise StackOverflowError *)
Fixpoint nest (n : nat) (e : expr) : expr := match n with O => e | S k => EParen (nest k e) end.
Lemma ex_depth_tight :
  depth (nest 100 i1) = 100 /\ tokenize fo1 [] (print [] (nest 100 i1)) = Ok (VInt 1) /\
  depth (nest 101 i1) = 101 /\ tokenize fo1 [] (print [] (nest 101 i1)) = Err EStackOverflow.
Proof. vm_compute. repeat split. Qed.

(* [vars_ident] is needed (the theorem as first stated, without it, is FALSE): with a variable named
   "(1)" defined, the text "(1)" is that variable, not the parenthesised literal *)
Lemma ex_vars_ident_needed :
  let vars : vars_t fo1 := [([40; 49; 41]%N, VInt 7)] in
  expr_ok fo1 vars (EParen i1) /\ depth (EParen i1) <= 100 /\
  tokenize fo1 vars (print [] (EParen i1)) = Ok (VInt 7) /\
  eval_ref fo1 vars (EParen i1) = Ok (VInt 1).
Proof. cbn zeta. repeat split; try (vm_compute; reflexivity). vm_compute. lia. Qed.

(* [layout_ok] is needed: a layout of non-blank characters changes the text *)
Lemma ex_layout_ok_needed :
  tokenize fo1 [] (print [[49]]%N i1) = Ok (VInt 11) /\ eval_ref fo1 [] i1 = Ok (VInt 1).
Proof. vm_compute. repeat split. Qed.

(* [vars_normal] is needed for paren_independent: x holds an integral float; x + "a" concatenates
   repr(2.0) = "2.0", (x) + "a" concatenates "2" *)
Definition vx : vars_t fo1 := [([120]%N, @VFlt fo1 tt)].
Lemma ex_vars_normal_needed :
  eval_ref fo1 vx (plus (EVar [120]%N) (ELit (SStr [97]%N))) = Ok (VStr [50; 46; 48; 97]%N) /\
  eval_ref fo1 vx (plus (EParen (EVar [120]%N)) (ELit (SStr [97]%N))) = Ok (VStr [50; 97]%N) /\
  tokenize fo1 vx (print [] (plus (EVar [120]%N) (ELit (SStr [97]%N)))) = Ok (VStr [50; 46; 48; 97]%N) /\
  tokenize fo1 vx (print [] (plus (EParen (EVar [120]%N)) (ELit (SStr [97]%N)))) = Ok (VStr [50; 97]%N).
Proof. vm_compute. repeat split. Qed.

(* no whitespace is allowed between "!" and "(" (the printer puts none); "!!(1)" is "!(1)" *)
Lemma ex_bang_space :
  tokenize fo1 [] [33; 32; 40; 49; 41]%N = Err EExpectedToken /\
  tokenize fo1 [] [33; 40; 49; 41]%N = Ok (VBool false) /\
  tokenize fo1 [] [33; 33; 40; 49; 41]%N = Ok (VBool false).
Proof. vm_compute. repeat split. Qed.

(* a parenthesis inside a string literal does not count: ("(" + "a") *)
Lemma ex_paren_in_string :
  let e := EParen (plus (ELit (SStr [40]%N)) (ELit (SStr [97]%N))) in
  print [] e = [40; 34; 40; 34; 43; 34; 97; 34; 41]%N /\
  tokenize fo1 [] (print [] e) = Ok (VStr [40; 97]%N).
Proof. vm_compute. repeat split. Qed.

(* precedence without parentheses: 1 + 2 * 3 is printed "1+2*3" (7);  (2 ^ 3) ^ 2 is printed "2^3^2"
   (operators of equal rank associate left: 64, not 512);  1 + 2 < 3 * 3 is printed "1+2<3*3" *)
Definition pow := EBin OCMath sym_pow.
Lemma ex_no_paren :
  print [] (plus i1 (times i2 i3)) = [49; 43; 50; 42; 51]%N /\
  tokenize fo1 [] (print [] (plus i1 (times i2 i3))) = Ok (VInt 7) /\
  print [] (pow (pow i2 i3) i2) = [50; 94; 51; 94; 50]%N /\
  tokenize fo1 [] (print [] (pow (pow i2 i3) i2)) = Ok (VInt 64) /\
  print [] (pow i2 (pow i3 i2)) = [50; 94; 40; 51; 94; 50; 41]%N /\
  tokenize fo1 [] (print [] (pow i2 (pow i3 i2))) = Ok (VInt 512) /\
  print [] (EBin OCCond sym_lt (plus i1 i2) (times i3 i3)) = [49; 43; 50; 60; 51; 42; 51]%N /\
  tokenize fo1 [] (print [] (EBin OCCond sym_lt (plus i1 i2) (times i3 i3))) = Ok (VBool true).
Proof. vm_compute. repeat split. Qed.
