From Coq Require Import NArith ZArith List Bool Lia.
From DS Require Import Base PyStr Values Expr Interp Constants IdentSpec.
Import ListNotations.
Local Open Scope N_scope.

Fixpoint nrange (n : nat) : list N :=
  match n with O => [] | S k => nrange k ++ [N.of_nat k] end.

Lemma nrange_in : forall n c, (c < N.of_nat n) -> In c (nrange n).
Proof.
  induction n as [|n IH]; intros c Hc.
  - lia.
  - cbn [nrange]. apply in_or_app.
    destruct (N.eq_dec c (N.of_nat n)) as [->|Hne].
    + right. left. reflexivity.
    + left. apply IH. lia.
Qed.

Lemma char_in_In : forall c s, char_in c s = true -> In c s.
Proof.
  induction s as [|x s IH]; cbn [char_in]; intro H; [discriminate|].
  apply orb_true_iff in H. destruct H as [H|H].
  - left. apply N.eqb_eq in H. congruence.
  - right. auto.
Qed.

Lemma acceptable_ascii : forall c, In c acceptable_vars -> c < 128.
Proof.
  assert (H : forallb (fun c => c <? 128) acceptable_vars = true) by (vm_compute; reflexivity).
  intros c Hin. rewrite forallb_forall in H. apply H in Hin. apply N.ltb_lt in Hin. exact Hin.
Qed.

Lemma sweep_acceptable :
  forallb (fun c => Bool.eqb (char_in c acceptable_vars) (ident_char c)) (nrange 128) = true.
Proof. vm_compute. reflexivity. Qed.

Lemma sweep_digit :
  forallb (fun c => Bool.eqb (isdigit_c c) (is_ascii_digit c)) (nrange 128) = true.
Proof. vm_compute. reflexivity. Qed.

Lemma ident_char_ascii : forall c, ident_char c = true -> c < 128.
Proof.
  intros c H. unfold ident_char, is_ascii_letter, is_ascii_digit in H.
  repeat (apply orb_true_iff in H; destruct H as [H|H]);
    repeat (apply andb_true_iff in H; destruct H as [? H]);
    repeat match goal with
           | X : (_ <=? _) = true |- _ => apply N.leb_le in X
           | X : (_ =? _) = true |- _ => apply N.eqb_eq in X
           end; lia.
Qed.

Lemma acceptable_spec : forall c, char_in c acceptable_vars = ident_char c.
Proof.
  intro c. destruct (N.ltb_spec c 128) as [Hlt|Hge].
  - pose proof sweep_acceptable as H. rewrite forallb_forall in H.
    specialize (H c (nrange_in 128 c Hlt)). apply Bool.eqb_prop in H. exact H.
  - destruct (char_in c acceptable_vars) eqn:E1; destruct (ident_char c) eqn:E2; try reflexivity.
    + apply char_in_In, acceptable_ascii in E1. lia.
    + apply ident_char_ascii in E2. lia.
Qed.

Lemma isdigit_ascii : forall c, c < 128 -> isdigit_c c = is_ascii_digit c.
Proof.
  intros c Hlt. pose proof sweep_digit as H. rewrite forallb_forall in H.
  specialize (H c (nrange_in 128 c Hlt)). apply Bool.eqb_prop in H. exact H.
Qed.

Lemma is_var_chars_rest : forall s, is_var_chars s false false = forallb ident_char s.
Proof.
  induction s as [|c s IH]; [reflexivity|].
  cbn [is_var_chars forallb andb]. rewrite acceptable_spec, IH.
  destruct (ident_char c); reflexivity.
Qed.

Lemma is_var_spec_lemma : forall s, is_var s false = identb s.
Proof.
  intros [|c s]; [reflexivity|].
  unfold is_var, identb. cbn [is_var_chars andb].
  rewrite acceptable_spec, is_var_chars_rest.
  destruct (c =? 36) eqn:E36.
  - apply N.eqb_eq in E36. subst c. reflexivity.
  - destruct (ident_char c) eqn:Eid.
    + pose proof (ident_char_ascii c Eid) as Hlt. rewrite (isdigit_ascii c Hlt).
      unfold ident_char in Eid. unfold ident_start.
      destruct (is_ascii_digit c) eqn:Ed.
      * (* a digit is not a letter or underscore *)
        unfold is_ascii_digit in Ed. apply andb_true_iff in Ed. destruct Ed as [E1 E2].
        apply N.leb_le in E1. apply N.leb_le in E2.
        assert (is_ascii_letter c = false) as ->.
        { unfold is_ascii_letter. apply orb_false_iff. split; apply andb_false_iff;
            left; apply N.leb_gt; lia. }
        assert ((c =? 95) = false) as -> by (apply N.eqb_neq; lia).
        reflexivity.
      * cbn [negb andb]. rewrite orb_false_r in Eid. rewrite Eid. reflexivity.
    + cbn [negb]. destruct (isdigit_c c); cbn; unfold ident_start;
        unfold ident_char in Eid; apply orb_false_iff in Eid; destruct Eid as [Eid E95];
        apply orb_false_iff in Eid; destruct Eid as [El Ed]; rewrite El, E95; reflexivity.
Qed.
