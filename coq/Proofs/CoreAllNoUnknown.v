(* C16 on the specification Spec/CoreAll.v alone: a program in which no UUnknown statement occurs
   (in any file, in any function body) raises no "may not exist" warning; and the prints of a
   statement list without calls and imports all carry the current file. *)
From Coq Require Import NArith ZArith List Bool Lia.
From DS Require Import Base PyStr Values Expr TabParse CoreLang CoreFunc CoreText CoreAll CoreAllCor.
Import ListNotations.

Fixpoint unknown_free (s : ustmt) : Prop :=
  match s with
  | UIf arms els =>
      each (fun cb : str * list ustmt => let (_, b) := cb in each unknown_free b) arms /\
      match els with Some b => each unknown_free b | None => True end
  | URepeat _ _ b => each unknown_free b
  | UWhile _ _ b => each unknown_free b
  | UFunc _ _ b => each unknown_free b
  | UUnknown _ _ => False
  | _ => True
  end.

Definition tab_free (F : utable) : Prop := Forall (fun xd => each unknown_free (d_body (snd xd))) F.

Lemma tab_free_set : forall F x d, tab_free F -> each unknown_free (d_body d) -> tab_free (set_def x d F).
Proof.
  induction F as [|[y w] r IH]; intros x d HF Hd.
  - constructor; [exact Hd|constructor].
  - inversion HF as [|? ? Hy Hr]; subst. cbn [set_def]. destruct (str_eqb x y); constructor; try assumption.
    apply IH; assumption.
Qed.

Lemma tab_free_lookup : forall F x d, tab_free F -> lookup x F = Some d -> each unknown_free (d_body d).
Proof.
  induction F as [|[y w] r IH]; intros x d HF Hl; [discriminate|].
  inversion HF as [|? ? Hy Hr]; subst. cbn [lookup] in Hl. destruct (str_eqb x y).
  - injection Hl as <-. exact Hy.
  - exact (IH x d Hr Hl).
Qed.

Lemma tab_free_overlay : forall F1 F, tab_free F1 -> tab_free F -> tab_free (overlay_defs F1 F).
Proof.
  induction F1 as [|[y w] r IH]; intros F H1 HF; [exact HF|].
  inversion H1 as [|? ? Hy Hr]; subst. unfold overlay_defs. cbn [fold_left fst snd].
  apply IH; [exact Hr|]. apply tab_free_set; assumption.
Qed.

Definition quiet (ev : list event) : Prop := Forall (fun e => is_unknown_ev e = false) ev.

Lemma quiet_app : forall a b, quiet a -> quiet b -> quiet (a ++ b).
Proof. intros a b Ha Hb. apply Forall_app. split; assumption. Qed.

Lemma quiet_stray : forall sg, quiet (stray sg).
Proof. intros []; repeat constructor. Qed.

Section NoUnknown.
Variable fo : FloatOps.
Variable sys : store fo.
Variable prog : program.
Variables inc sup : bool.

Hypothesis prog_free : forall m stmts, lookup m prog = Some stmts -> each unknown_free stmts.

Notation exec := (CoreAll.exec fo sys prog inc sup).
Notation exec_list := (CoreAll.exec_list fo sys prog inc sup).
Notation exec_arms := (CoreAll.exec_arms fo sys prog inc sup).
Notation exec_repeat := (CoreAll.exec_repeat fo sys prog inc sup).
Notation exec_while := (CoreAll.exec_while fo sys prog inc sup).

Definition N_exec (d : nat) (pile : list sframe) (cf : str) (n : Z) (F : utable) (f : option bool) (vs : store fo)
  (s : ustmt) (sg : fsig) (F' : utable) (f' : option bool) (vs' : store fo) (out : list uline) (ev : list event) : Prop :=
  unknown_free s -> tab_free F -> tab_free F' /\ quiet ev.
Definition N_list (d : nat) (pile : list sframe) (cf : str) (n : Z) (F : utable) (f : option bool) (vs : store fo)
  (p : list ustmt) (sg : fsig) (F' : utable) (f' : option bool) (vs' : store fo) (out : list uline) (ev : list event) : Prop :=
  each unknown_free p -> tab_free F -> tab_free F' /\ quiet ev.
Definition N_arms (d : nat) (pile : list sframe) (cf : str) (first : bool) (n : Z) (F : utable) (b : bool) (vs : store fo)
  (arms : list (str * list ustmt)) (els : option (list ustmt)) (sg : fsig) (taken : bool) (vs' : store fo)
  (out : list uline) (ev : list event) : Prop :=
  each (fun cb : str * list ustmt => let (_, b) := cb in each unknown_free b) arms ->
  match els with Some b => each unknown_free b | None => True end -> tab_free F -> quiet ev.
Definition N_repeat (d : nat) (pile : list sframe) (cf : str) (n : Z) (F : utable) (f : option bool)
  (c : option str) (e : str) (body : list ustmt) (k : Z) (vs : store fo) (sg : fsig) (vs' : store fo)
  (out : list uline) (ev : list event) : Prop :=
  each unknown_free body -> tab_free F -> quiet ev.
Definition N_while (d : nat) (pile : list sframe) (cf : str) (n : Z) (F : utable)
  (c : option str) (e : str) (body : list ustmt) (k : Z) (vs : store fo) (sg : fsig) (vs' : store fo)
  (out : list uline) (ev : list event) : Prop :=
  each unknown_free body -> tab_free F -> quiet ev.

Theorem no_unknown_all :
  (forall d pile cf n F f vs s sg F' f' vs' out ev,
     exec d pile cf n F f vs s sg F' f' vs' out ev -> N_exec d pile cf n F f vs s sg F' f' vs' out ev) /\
  (forall d pile cf n F f vs p sg F' f' vs' out ev,
     exec_list d pile cf n F f vs p sg F' f' vs' out ev -> N_list d pile cf n F f vs p sg F' f' vs' out ev) /\
  (forall d pile cf first n F b vs arms els sg taken vs' out ev,
     exec_arms d pile cf first n F b vs arms els sg taken vs' out ev ->
     N_arms d pile cf first n F b vs arms els sg taken vs' out ev) /\
  (forall d pile cf n F f c e body k vs sg vs' out ev,
     exec_repeat d pile cf n F f c e body k vs sg vs' out ev -> N_repeat d pile cf n F f c e body k vs sg vs' out ev) /\
  (forall d pile cf n F c e body k vs sg vs' out ev,
     exec_while d pile cf n F c e body k vs sg vs' out ev -> N_while d pile cf n F c e body k vs sg vs' out ev).
Proof.
  apply (CoreAll.exec_all_mind fo sys prog inc sup N_exec N_list N_arms N_repeat N_while);
    unfold N_exec, N_list, N_arms, N_repeat, N_while.
  - (* Emit *) intros. split; [assumption|constructor].
  - intros. split; [assumption|constructor].
  - intros. split; [assumption|constructor].
  - (* If *) intros d pile cf n F f vs arms els sg taken vs' out ev _ IH [Ha He] HF. split; [exact HF|]. exact (IH Ha He HF).
  - (* Repeat *) intros d pile cf n F f vs c e body sg vs' out ev _ IH Hb HF. split; [exact HF|]. exact (IH Hb HF).
  - (* While *) intros d pile cf n F f vs c e body sg vs' out ev _ IH Hb HF. split; [exact HF|]. exact (IH Hb HF).
  - intros. split; [assumption|constructor].
  - intros. split; [assumption|constructor].
  - intros. split; [assumption|constructor].
  - (* Func *) intros d pile cf n F f vs name ps body Hb HF. split; [|constructor]. apply tab_free_set; assumption.
  - (* Run *) intros d pile cf n F f vs name args vals df sg F1 f1 vs1 out ev _ Hl _ _ IH _ _ HF.
    split; [exact HF|]. exact (proj2 (IH (tab_free_lookup F name df HF Hl) HF)).
  - (* Print *) intros. split; [assumption|repeat constructor].
  - intros. split; [assumption|repeat constructor].
  - (* Rem *) intros. split; [assumption|constructor].
  - (* Unknown *) intros d pile cf n F f vs w args [].
  - (* Start *) intros d pile cf n F f vs k name stmts sg F1 f1 vs1 out ev Hl _ _ IH _ HF.
    destruct (IH (prog_free name stmts Hl) HF) as [HF1 Hq]. split.
    + destruct k; [apply tab_free_overlay; assumption|exact HF|apply tab_free_overlay; assumption].
    + apply quiet_app; [exact Hq|apply quiet_stray].
  - (* Nil *) intros. split; [assumption|constructor].
  - (* Cons *) intros d pile cf n F f vs s r F1 f1 vs1 o1 e1 sg F2 f2 vs2 o2 e2 _ IH1 _ IH2 [Hs Hr] HF.
    destruct (IH1 Hs HF) as [HF1 Hq1]. destruct (IH2 Hr HF1) as [HF2 Hq2]. split; [exact HF2|apply quiet_app; assumption].
  - (* Stop *) intros d pile cf n F f vs s r sg F1 f1 vs1 o1 e1 _ IH1 _ [Hs Hr] HF. exact (IH1 Hs HF).
  - (* Take *) intros d pile cf first n F b vs c body rest els v sg F1 f1 vs1 out ev _ _ _ IH _ [Hb Hr] He HF.
    exact (proj2 (IH Hb HF)).
  - (* Skip *) intros d pile cf first n F b vs c body rest els v sg taken vs' out ev _ _ _ IH [Hb Hr] He HF.
    exact (IH Hr He HF).
  - (* Else *) intros d pile cf first n F b vs body sg F1 f1 vs1 out ev _ IH _ He HF. exact (proj2 (IH He HF)).
  - intros. constructor.
  - (* R_Done *) intros. constructor.
  - (* R_Iter *) intros d pile cf n F f c e body k vs v m sg F1 f1 vs1 o1 e1 sg' vs' o2 e2 _ _ _ _ _ IHb _ _ IHr Hb HF.
    apply quiet_app; [exact (proj2 (IHb Hb HF))|exact (IHr Hb HF)].
  - (* R_Stop *) intros d pile cf n F f c e body k vs v m sg F1 f1 vs1 o1 e1 _ _ _ _ _ IHb _ Hb HF. exact (proj2 (IHb Hb HF)).
  - (* W_Done *) intros. constructor.
  - (* W_Iter *) intros d pile cf n F c e body k vs v sg F1 f1 vs1 o1 e1 sg' vs' o2 e2 _ _ _ _ IHb _ _ IHw Hb HF.
    apply quiet_app; [exact (proj2 (IHb Hb HF))|exact (IHw Hb HF)].
  - (* W_Stop *) intros d pile cf n F c e body k vs v sg F1 f1 vs1 o1 e1 _ _ _ _ IHb _ Hb HF. exact (proj2 (IHb Hb HF)).
Qed.

End NoUnknown.

Theorem no_unknown_list : forall (fo : FloatOps) (sys : store fo) prog inc sup,
  (forall m stmts, lookup m prog = Some stmts -> each unknown_free stmts) ->
  forall d pile cf n F f vs p sg F' f' vs' out ev,
  CoreAll.exec_list fo sys prog inc sup d pile cf n F f vs p sg F' f' vs' out ev ->
  each unknown_free p -> tab_free F -> tab_free F' /\ quiet ev.
Proof. intros fo sys prog inc sup H. exact (proj1 (proj2 (no_unknown_all fo sys prog inc sup H))). Qed.

(* a whole program without UUnknown statements yields no "may not exist" warning *)
Theorem no_unknown_no_warning : forall fo prog inc sup entry d sg F' f' vs' out ev,
  (forall m stmts, lookup m prog = Some stmts -> each unknown_free stmts) ->
  uruns fo prog inc sup entry d sg F' f' vs' out ev ->
  forall p f t n, ~ In (WUnknown p f t n) (warnings_of ev) /\ ~ In (EvWarn (WUnknown p f t n)) ev.
Proof.
  intros fo prog inc sup entry d sg F' f' vs' out ev Hfree (stmts & ev0 & Hl & Hrun & ->) p f t n.
  destruct (proj1 (proj2 (no_unknown_all fo (initial_sys fo) prog inc sup Hfree)) _ _ _ _ _ _ _ _ _ _ _ _ _ _ Hrun
              (Hfree entry stmts Hl) (Forall_nil _)) as [_ Hq].
  assert (Hq' : quiet (ev0 ++ stray sg)) by (apply quiet_app; [exact Hq|apply quiet_stray]).
  assert (Hnot : ~ In (EvWarn (WUnknown p f t n)) (ev0 ++ stray sg)).
  { intro Hin. unfold quiet in Hq'. rewrite Forall_forall in Hq'. specialize (Hq' _ Hin). discriminate. }
  split; [|exact Hnot].
  (* the warnings are among the warning events *)
  assert (Hsub : forall evs ws w, In w (fold_left (fun ws e => match e with EvWarn w => add_uwarning w ws | EvPrint _ _ _ => ws end) evs ws) ->
                 In w ws \/ In (EvWarn w) evs).
  { induction evs as [|e evs IH]; intros ws w Hin; [left; exact Hin|].
    cbn [fold_left] in Hin. destruct (IH _ _ Hin) as [H|H]; [|right; right; exact H].
    destruct e as [t0 n0 f0|w0]; [left; exact H|].
    unfold add_uwarning in H. destruct (existsb (uwarning_eqb w0) ws); [left; exact H|].
    apply in_app_or in H. destruct H as [H|[<-|[]]]; [left; exact H|right; left; reflexivity]. }
  intro Hin. destruct (Hsub _ _ _ Hin) as [[]|H]. exact (Hnot H).
Qed.
