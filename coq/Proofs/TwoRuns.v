(* C15 (two-run simulations): instances of the relational lifting library RelLift.v.
   (1) comments_interleave : include_comments true vs false -- the output with comments, with its
       REM-tagged lines erased, is the output without comments; nothing else changes.
   (2) suppress_warnings   : supress_command_not_exist false vs true -- exactly the unknown-command
       warnings disappear; nothing else changes.
   (3) flipper_gate        : flipper_commands true vs false -- the disabled run equals the enabled
       run, or fails with InvalidCommand while a line whose command is Flipper-only is current. *)
From Coq Require Import String Ascii NArith ZArith List Bool Lia.
From DS Require Import Base PyStr Values Expr TabParse Tables Constants Interp.
From DS Require Import SmallProofs RelLift DuckyGrammar.
Import ListNotations.
Arguments IOk {A}. Arguments IErr {A}. Arguments ICrash {A}. Arguments IUnmod {A}.

(* ------------------------------------------------------------------ option records differing in one field *)
Definition set_comments (o : options) (b : bool) : options :=
  mkOptions (stack_limit o) b (flipper_commands o) (supress_command_not_exist o) (use_project_config o).
Definition set_suppress (o : options) (b : bool) : options :=
  mkOptions (stack_limit o) (include_comments o) (flipper_commands o) b (use_project_config o).
Definition set_flipper (o : options) (b : bool) : options :=
  mkOptions (stack_limit o) (include_comments o) b (supress_command_not_exist o) (use_project_config o).

Lemma set_comments_id : forall o, set_comments o (include_comments o) = o.
Proof. intros []; reflexivity. Qed.
Lemma set_suppress_id : forall o, set_suppress o (supress_command_not_exist o) = o.
Proof. intros []; reflexivity. Qed.
Lemma set_flipper_id : forall o, set_flipper o (flipper_commands o) = o.
Proof. intros []; reflexivity. Qed.

(* ------------------------------------------------------------------ small facts *)
Lemma str_eqb_true : forall a b : str, str_eqb a b = true -> a = b.
Proof.
  induction a as [|x a IH]; intros [|y b] H; cbn [str_eqb] in H; try reflexivity; try discriminate.
  apply andb_true_iff in H. destruct H as [Hx Hr]. apply N.eqb_eq in Hx. apply IH in Hr. subst. reflexivity.
Qed.

Lemma str_eqb_refl : forall a : str, str_eqb a a = true.
Proof. induction a as [|x a IH]; cbn [str_eqb]; [reflexivity|]. rewrite N.eqb_refl. exact IH. Qed.

Lemma filter_rev_comm : forall A (f : A -> bool) l, filter f (rev l) = rev (filter f l).
Proof.
  intros A f l. induction l as [|x r IH]; [reflexivity|]. cbn [rev filter]. rewrite filter_app, IH.
  cbn [filter]. destruct (f x); [reflexivity|]. cbn [rev]. rewrite app_nil_r. reflexivity.
Qed.

Lemma palette_In_check : forall (chk : str * cls -> bool), forallb chk palette = true ->
  forall cmd cb cname cl, find_command palette cmd cb = Some (cname, cl) -> chk (cname, cl) = true.
Proof.
  intros chk H cmd cb cname cl Hf. apply find_command_some in Hf. destruct Hf as [Hin _].
  rewrite forallb_forall in H. exact (H _ Hin).
Qed.

(* the final relation on whole results *)
Definition same_failure {A} (r1 r2 : ires A) : Prop :=
  match r1, r2 with
  | IOk _, IOk _ => True
  | IErr e1 t1, IErr e2 t2 => e1 = e2 /\ t1 = t2
  | ICrash k1, ICrash k2 => k1 = k2
  | IUnmod, IUnmod => True
  | _, _ => False
  end.

(* ================================================================== (1) comments *)
Definition rem_name : str := [82;101;109]%N.     (* "Rem" *)

Definition is_rem_tag (t : tag) : bool :=
  match t with ByCommand n => str_eqb n rem_name | _ => false end.

Definition erase_rem (d : list oline) : list oline :=
  filter (fun l => negb (is_rem_tag (o_tag l))) d.

Definition is_rem_class (c : cls) : bool :=
  match c with Simple sc => match s_run sc with RKRem => true | _ => false end | Block _ => false end.

(* exactly one class of the generated palette has run kind RKRem; its name is "Rem" *)
Lemma rem_class_unique : map fst (filter (fun p => is_rem_class (snd p)) palette) = [rem_name].
Proof. vm_compute. reflexivity. Qed.

Lemma rem_name_text : rem_name = map N_of_ascii (list_ascii_of_string "Rem").
Proof. reflexivity. Qed.

Definition rem_check (p : str * cls) : bool := Bool.eqb (str_eqb (fst p) rem_name) (is_rem_class (snd p)).

Lemma rem_check_palette : forallb rem_check palette = true.
Proof. vm_compute. reflexivity. Qed.

Lemma found_rem : forall cmd cb cname cl, find_command palette cmd cb = Some (cname, cl) ->
  str_eqb cname rem_name = is_rem_class cl.
Proof.
  intros cmd cb cname cl H. pose proof (palette_In_check rem_check rem_check_palette _ _ _ _ H) as Hc.
  unfold rem_check in Hc. cbn [fst snd] in Hc. apply eqb_prop in Hc. exact Hc.
Qed.

Lemma erase_rem_app : forall a b, erase_rem (a ++ b) = erase_rem a ++ erase_rem b.
Proof. intros. unfold erase_rem. apply filter_app. Qed.

Lemma erase_rem_id : forall d, Forall (fun l => is_rem_tag (o_tag l) = false) d -> erase_rem d = d.
Proof.
  intros d H. induction H as [|x r Hx Hr IH]; [reflexivity|]. unfold erase_rem. cbn [filter].
  rewrite Hx. cbn [negb]. fold (erase_rem r). rewrite IH. reflexivity.
Qed.

Lemma erase_rem_no_rem : forall d l, In l (erase_rem d) -> is_rem_tag (o_tag l) = false.
Proof.
  intros d l H. unfold erase_rem in H. apply filter_In in H. destruct H as [_ H].
  apply negb_true_iff in H. exact H.
Qed.

Definition Rd_rem (d1 d2 : list oline) : Prop := erase_rem d1 = d2.
Definition TS_rem (tg : tag) (sc : simple_cls) : Prop :=
  is_rem_tag tg = match s_run sc with RKRem => true | _ => false end.

Section Comments.
Variable fo : FloatOps.

Theorem comments_rel : forall o fs file cmds g1 r1 g2 r2,
  compile_items fo (set_comments o true) fs file cmds = (g1, r1) ->
  compile_items fo (set_comments o false) fs file cmds = (g2, r2) ->
  (g1 = g2 /\ rres (Rcomp fo Rd_rem g1 g2) r1 r2) \/ esc (fun _ _ => False) r2.
Proof.
  intros o fs file cmds g1 r1 g2 r2.
  apply (rel_compile_items fo (set_comments o true) (set_comments o false) eq_refl eq Rd_rem)
    with (GT := fun tg => is_rem_tag tg = false) (FL := fun _ => True) (Wok := fun _ => True) (TS := TS_rem).
  - reflexivity.
  - intros a1 a2 b1 b2 <- <-. apply erase_rem_app.
  - intros d H. apply erase_rem_id. exact H.
  - reflexivity.
  - reflexivity.
  - intros p g1' g2' <-. reflexivity.
  - intros t tr g1' g2' _ <-. reflexivity.
  - intros; exact I.
  - reflexivity.
  - intros cmd cb cname sc H. unfold TS_rem. cbn [is_rem_tag]. rewrite (found_rem _ _ _ _ H). reflexivity.
  - intros; exact I.
  - intros tg sc H Hk. left. unfold TS_rem in H. rewrite H. destruct (s_run sc); try reflexivity. contradiction.
  - intros tg sc H Hk l. unfold TS_rem in H. rewrite Hk in H. cbn [set_comments include_comments].
    intros a1 a2 [Hd Hs]. split; [|exact Hs]. cbn [accum cr_data]. unfold Rd_rem in *.
    rewrite erase_rem_app. unfold erase_rem at 2. cbn [map filter o_tag]. rewrite H. cbn [negb].
    rewrite app_nil_r. exact Hd.
  - left. reflexivity.
  - intros; exact I.
  - left. split; [reflexivity|intros; exact I].
  - reflexivity.
Qed.

(* the headline statement *)
Theorem comments_interleave : forall o fs file cmds g1 r1 g2 r2,
  compile_items fo (set_comments o true) fs file cmds = (g1, r1) ->
  compile_items fo (set_comments o false) fs file cmds = (g2, r2) ->
  g1 = g2 /\ same_failure r1 r2 /\
  forall c1 c2, r1 = IOk c1 -> r2 = IOk c2 ->
    erase_rem (out fo c1) = out fo c2 /\
    (forall l, In l (out fo c2) -> is_rem_tag (o_tag l) = false) /\
    final_env fo c1 = final_env fo c2 /\ prints fo c1 = prints fo c2 /\ warnings fo c1 = warnings fo c2.
Proof.
  intros o fs file cmds g1 r1 g2 r2 E1 E2.
  destruct (comments_rel o fs file cmds g1 r1 g2 r2 E1 E2) as [[Hg Hr]|He].
  2:{ destruct r2; cbn [esc] in He; contradiction. }
  split; [exact Hg|]. subst g2.
  destruct r1 as [c1|e1 t1|k1|], r2 as [c2|e2 t2|k2|]; cbn [rres] in Hr; try contradiction;
    (split; [cbn [same_failure]; first [exact Hr|exact I]|]); intros c1' c2' H1 H2; try discriminate.
  injection H1 as <-. injection H2 as <-.
  destruct Hr as (Hd & He & Hw1 & Hw2 & Hp1 & Hp2). unfold Rd_rem in Hd.
  split; [exact Hd|]. split; [|split; [exact He|split; congruence]].
  intros l Hin. rewrite <- Hd in Hin. exact (erase_rem_no_rem _ _ Hin).
Qed.

(* the same for source text *)
Theorem comments_interleave_text : forall o fs file text g1 r1 g2 r2,
  compile_text fo (set_comments o true) fs file text = (g1, r1) ->
  compile_text fo (set_comments o false) fs file text = (g2, r2) ->
  g1 = g2 /\ same_failure r1 r2 /\
  forall c1 c2, r1 = IOk c1 -> r2 = IOk c2 ->
    erase_rem (out fo c1) = out fo c2 /\
    (forall l, In l (out fo c2) -> is_rem_tag (o_tag l) = false) /\
    final_env fo c1 = final_env fo c2 /\ prints fo c1 = prints fo c2 /\ warnings fo c1 = warnings fo c2.
Proof.
  intros o fs file text g1 r1 g2 r2 E1 E2. unfold compile_text in E1, E2.
  destruct (prepare_text text) as [cmds|[| | | |]].
  - exact (comments_interleave o fs file cmds g1 r1 g2 r2 E1 E2).
  - injection E1 as <- <-. injection E2 as <- <-. split; [reflexivity|]. split; [split; reflexivity|]. discriminate.
  - injection E1 as <- <-. injection E2 as <- <-. split; [reflexivity|]. split; [split; reflexivity|]. discriminate.
  - injection E1 as <- <-. injection E2 as <- <-. split; [reflexivity|]. split; [split; reflexivity|]. discriminate.
  - injection E1 as <- <-. injection E2 as <- <-. split; [reflexivity|]. split; [split; reflexivity|]. discriminate.
  - injection E1 as <- <-. injection E2 as <- <-. split; [reflexivity|]. split; [reflexivity|]. discriminate.
Qed.

End Comments.

(* ================================================================== (2) suppressed unknown-command warnings *)
(* "The command on line " *)
Definition unknown_prefix : str :=
  [84;104;101;32;99;111;109;109;97;110;100;32;111;110;32;108;105;110;101;32]%N.

Definition is_unknown_warning (w : warning) : bool := startswith unknown_prefix (w_text w).
Definition keepw (w : warning) : bool := negb (is_unknown_warning w).

Lemma startswith_app : forall p r, startswith p (p ++ r) = true.
Proof. induction p as [|x p IH]; intro r; cbn [startswith app]; [reflexivity|]. rewrite N.eqb_refl. apply IH. Qed.

(* the fall-back warning of exec_line is recognised ... *)
Lemma unknown_text_prefix : forall n, startswith unknown_prefix (unknown_warning_text n) = true.
Proof. intro n. unfold unknown_warning_text. apply (startswith_app unknown_prefix). Qed.

Lemma unknown_text_recognised : forall n tr, is_unknown_warning (mkWarn (unknown_warning_text n) tr) = true.
Proof. intros. unfold is_unknown_warning. cbn [w_text]. apply unknown_text_prefix. Qed.

(* ... and no other source of warnings produces a recognised text: the messages of the plural
   validators of the generated palette, and the two "exited using" warnings *)
Definition plural_check (p : str * cls) : bool :=
  match snd p with
  | Simple sc => match s_verify_args sc with PVWarnIfLen _ _ msg => negb (startswith unknown_prefix msg) | _ => true end
  | Block _ => true
  end.

Lemma plural_check_palette : forallb plural_check palette = true.
Proof. vm_compute. reflexivity. Qed.

Lemma sig_warning_not_unknown : forall sg w, s_sig_warning sg = Some w -> startswith unknown_prefix w = false.
Proof. intros [| | |] w H; cbn in H; try discriminate; injection H as <-; vm_compute; reflexivity. Qed.

Definition Rg_sup (g1 g2 : glob) : Prop :=
  g_prints g1 = g_prints g2 /\ g_warnings g2 = filter keepw (g_warnings g1).
Definition Wok_sup (t : str) : Prop := startswith unknown_prefix t = false.
Definition TS_sup (tg : tag) (sc : simple_cls) : Prop :=
  forall op k msg, s_verify_args sc = PVWarnIfLen op k msg -> Wok_sup msg.

Lemma warning_eqb_text : forall a b, warning_eqb a b = true -> w_text a = w_text b.
Proof.
  intros a b H. unfold warning_eqb in H. apply andb_true_iff in H. destruct H as [H _].
  apply str_eqb_true. exact H.
Qed.

Lemma existsb_filter_keepw : forall w l, keepw w = true ->
  existsb (warning_eqb w) (filter keepw l) = existsb (warning_eqb w) l.
Proof.
  intros w l Hw. induction l as [|a r IH]; [reflexivity|]. cbn [filter existsb].
  destruct (keepw a) eqn:Ka.
  - cbn [existsb]. rewrite IH. reflexivity.
  - destruct (warning_eqb w a) eqn:E.
    + exfalso. apply warning_eqb_text in E. unfold keepw, is_unknown_warning in Hw, Ka.
      rewrite E in Hw. rewrite Hw in Ka. discriminate.
    + cbn [orb]. exact IH.
Qed.

Lemma Rg_sup_warn : forall t tr g1 g2, Wok_sup t -> Rg_sup g1 g2 ->
  Rg_sup (add_warning (mkWarn t tr) g1) (add_warning (mkWarn t tr) g2).
Proof.
  intros t tr [p1 w1] [p2 w2] Ht [Hp Hw]. cbn [g_prints g_warnings] in Hp, Hw. subst p2 w2.
  assert (Hk : keepw (mkWarn t tr) = true).
  { unfold keepw, is_unknown_warning. cbn [w_text]. unfold Wok_sup in Ht. rewrite Ht. reflexivity. }
  unfold add_warning. cbn [g_prints g_warnings]. rewrite (existsb_filter_keepw _ _ Hk).
  destruct (existsb _ w1); split; cbn [g_prints g_warnings]; try reflexivity.
  cbn [filter]. rewrite Hk. reflexivity.
Qed.

Lemma Rg_sup_unknown : forall n tr g1 g2, Rg_sup g1 g2 ->
  Rg_sup (add_warning (mkWarn (unknown_warning_text n) tr) g1) g2.
Proof.
  intros n tr [p1 w1] [p2 w2] [Hp Hw]. cbn [g_prints g_warnings] in Hp, Hw. subst p2 w2.
  unfold add_warning. cbn [g_prints g_warnings].
  destruct (existsb _ w1); split; cbn [g_prints g_warnings]; try reflexivity.
Qed.

Lemma Rrc_eq_refl : forall tg r, Rrc eq tg r r.
Proof.
  intros tg r a1 a2 [Hd Hs]. destruct a1 as [d1 s1], a2 as [d2 s2]. cbn [cr_data cr_sig] in Hd, Hs. subst.
  split; reflexivity.
Qed.

Section Suppress.
Variable fo : FloatOps.

Theorem suppress_rel : forall o fs file cmds g1 r1 g2 r2,
  compile_items fo (set_suppress o false) fs file cmds = (g1, r1) ->
  compile_items fo (set_suppress o true) fs file cmds = (g2, r2) ->
  (Rg_sup g1 g2 /\ rres (Rcomp fo eq g1 g2) r1 r2) \/ esc (fun _ _ => False) r2.
Proof.
  intros o fs file cmds g1 r1 g2 r2.
  apply (rel_compile_items fo (set_suppress o false) (set_suppress o true) eq_refl Rg_sup eq)
    with (GT := fun _ => True) (FL := fun _ => True) (Wok := Wok_sup) (TS := TS_sup).
  - reflexivity.
  - intros a1 a2 b1 b2 <- <-. reflexivity.
  - reflexivity.
  - exact I.
  - exact I.
  - intros p g1' g2' [Hp Hw]. split; cbn [g_prints g_warnings]; [rewrite Hp; reflexivity|exact Hw].
  - exact Rg_sup_warn.
  - exact sig_warning_not_unknown.
  - intros op k msg H. discriminate H.
  - intros cmd cb cname sc H op k msg Hv.
    pose proof (palette_In_check plural_check plural_check_palette _ _ _ _ H) as Hc.
    unfold plural_check in Hc. cbn [snd] in Hc. rewrite Hv in Hc. apply negb_true_iff in Hc. exact Hc.
  - intros tg sc op k msg H Hv. exact (H op k msg Hv).
  - intros; left; exact I.
  - intros tg sc _ _ l. cbn [set_suppress include_comments]. apply Rrc_eq_refl.
  - left. reflexivity.
  - intros; exact I.
  - right. split; [reflexivity|]. split; [reflexivity|]. exact Rg_sup_unknown.
  - split; reflexivity.
Qed.

Theorem suppress_warnings : forall o fs file cmds g1 r1 g2 r2,
  compile_items fo (set_suppress o false) fs file cmds = (g1, r1) ->
  compile_items fo (set_suppress o true) fs file cmds = (g2, r2) ->
  g_prints g1 = g_prints g2 /\ g_warnings g2 = filter keepw (g_warnings g1) /\ same_failure r1 r2 /\
  forall c1 c2, r1 = IOk c1 -> r2 = IOk c2 ->
    out fo c1 = out fo c2 /\ final_env fo c1 = final_env fo c2 /\ prints fo c1 = prints fo c2 /\
    warnings fo c2 = filter keepw (warnings fo c1).
Proof.
  intros o fs file cmds g1 r1 g2 r2 E1 E2.
  destruct (suppress_rel o fs file cmds g1 r1 g2 r2 E1 E2) as [[[Hgp Hgw] Hr]|He].
  2:{ destruct r2; cbn [esc] in He; contradiction. }
  split; [exact Hgp|]. split; [exact Hgw|].
  destruct r1 as [c1|e1 t1|k1|], r2 as [c2|e2 t2|k2|]; cbn [rres] in Hr; try contradiction;
    (split; [cbn [same_failure]; first [exact Hr|exact I]|]); intros c1' c2' H1 H2; try discriminate.
  injection H1 as <-. injection H2 as <-.
  destruct Hr as (Hd & He & Hw1 & Hw2 & Hp1 & Hp2).
  split; [exact Hd|]. split; [exact He|]. split; [congruence|].
  rewrite Hw2, Hw1, Hgw. symmetry. apply filter_rev_comm.
Qed.

(* classification of the warnings of ANY run (a diagonal instance of the relational library):
   a warning is recognised by [is_unknown_warning] iff its text is an unknown-command text *)
Definition unknown_or_other (w : warning) : Prop :=
  (exists n, w_text w = unknown_warning_text n) \/ is_unknown_warning w = false.

Lemma add_warning_Forall : forall (P : warning -> Prop) w g, P w -> Forall P (g_warnings g) ->
  Forall P (g_warnings (add_warning w g)).
Proof.
  intros P w g Hw Hg. unfold add_warning. destruct (existsb _ _); [exact Hg|]. cbn [g_warnings].
  constructor; assumption.
Qed.

Theorem warnings_classified : forall o fs file cmds g r,
  compile_items fo o fs file cmds = (g, r) -> Forall unknown_or_other (g_warnings g).
Proof.
  intros o fs file cmds g r E.
  pose (Rg := fun g1 g2 : glob => g1 = g2 /\ Forall unknown_or_other (g_warnings g1)).
  pose (Wok := fun t : str => (exists n, t = unknown_warning_text n) \/ startswith unknown_prefix t = false).
  assert (H : (Rg g g /\ rres (Rcomp fo eq g g) r r) \/ esc (fun _ _ => False) r).
  { apply (rel_compile_items fo o o eq_refl Rg eq)
      with (GT := fun _ => True) (FL := fun _ => True) (Wok := Wok)
           (TS := fun _ sc => forall op k msg, s_verify_args sc = PVWarnIfLen op k msg -> Wok msg)
           (fs := fs) (file := file) (cmds := cmds); try exact E.
    - reflexivity.
    - intros a1 a2 b1 b2 <- <-. reflexivity.
    - reflexivity.
    - exact I.
    - exact I.
    - intros p g1' g2' [<- Hf]. split; [reflexivity|exact Hf].
    - intros t tr g1' g2' Ht [<- Hf]. split; [reflexivity|]. apply add_warning_Forall; [|exact Hf].
      unfold unknown_or_other, is_unknown_warning. cbn [w_text]. exact Ht.
    - intros sg w Hs. right. exact (sig_warning_not_unknown sg w Hs).
    - intros op k msg H. discriminate H.
    - intros cmd cb cname sc H op k msg Hv. right.
      pose proof (palette_In_check plural_check plural_check_palette _ _ _ _ H) as Hc.
      unfold plural_check in Hc. cbn [snd] in Hc. rewrite Hv in Hc. apply negb_true_iff in Hc. exact Hc.
    - intros tg sc op k msg H Hv. exact (H op k msg Hv).
    - intros; left; exact I.
    - intros tg sc _ _ l. apply Rrc_eq_refl.
    - left. reflexivity.
    - intros; exact I.
    - left. split; [reflexivity|]. intro n. left. exists n. reflexivity.
    - split; [reflexivity|constructor]. }
  destruct H as [[[_ Hf] _]|He]; [exact Hf|]. destruct r; cbn [esc] in He; contradiction.
Qed.

Corollary unknown_warning_iff : forall o fs file cmds g r w,
  compile_items fo o fs file cmds = (g, r) -> In w (g_warnings g) ->
  (is_unknown_warning w = true <-> exists n, w_text w = unknown_warning_text n).
Proof.
  intros o fs file cmds g r w E Hin. pose proof (warnings_classified o fs file cmds g r E) as Hf.
  rewrite Forall_forall in Hf. specialize (Hf w Hin). split.
  - intro Hu. destruct Hf as [Hn|Hn]; [exact Hn|]. rewrite Hu in Hn. discriminate.
  - intros [n Hn]. unfold is_unknown_warning. rewrite Hn. apply unknown_text_prefix.
Qed.

End Suppress.

(* ================================================================== (3) the Flipper gate *)
(* the command word of the line is claimed (for some following block) by a Flipper-only class *)
Definition flipper_line (cur : preline) : Prop :=
  exists cmd more cb cname cl,
    split_ws1 (fst cur) = cmd :: more /\ find_command palette cmd cb = Some (cname, cl) /\
    cls_flipper_only cl = true.

(* an InvalidCommand error raised while a Flipper-only line is the current line of the innermost stack *)
Definition flipper_refusal (e : errcls) (t : option (list frame)) : Prop :=
  e = EInvalidCommand /\ exists pile fr, t = Some (pile ++ [fr]) /\ flipper_line (fr_line fr).

(* the Flipper-only classes of the generated palette: five simple classes, all with the default
   run_compile (one output line per argument, or one for the bare command) *)
Definition flipper_class_check (p : str * cls) : bool :=
  match snd p with
  | Simple sc => if s_flipper_only sc then match s_run sc with RKDefault => true | _ => false end else true
  | Block bc => negb (b_flipper_only bc)
  end.

Lemma flipper_class_palette : forallb flipper_class_check palette = true.
Proof. vm_compute. reflexivity. Qed.

Lemma flipper_class_count : length (filter (fun p => cls_flipper_only (snd p)) palette) = 5.
Proof. vm_compute. reflexivity. Qed.

Section Flipper.
Variable fo : FloatOps.

Theorem flipper_rel : forall o fs file cmds g1 r1 g2 r2,
  compile_items fo (set_flipper o true) fs file cmds = (g1, r1) ->
  compile_items fo (set_flipper o false) fs file cmds = (g2, r2) ->
  (g1 = g2 /\ rres (Rcomp fo eq g1 g2) r1 r2) \/ esc flipper_refusal r2.
Proof.
  intros o fs file cmds g1 r1 g2 r2.
  apply (rel_compile_items fo (set_flipper o true) (set_flipper o false) eq_refl eq eq)
    with (GT := fun _ => True) (FL := flipper_line) (Wok := fun _ => True) (TS := fun _ _ => True).
  - reflexivity.
  - intros a1 a2 b1 b2 <- <-. reflexivity.
  - reflexivity.
  - exact I.
  - exact I.
  - intros p g1' g2' <-. reflexivity.
  - intros t tr g1' g2' _ <-. reflexivity.
  - intros; exact I.
  - exact I.
  - intros; exact I.
  - intros; exact I.
  - intros; left; exact I.
  - intros tg sc _ _ l. cbn [set_flipper include_comments]. apply Rrc_eq_refl.
  - right. split; [reflexivity|]. intros pile file' cur l2 Hf. split; [reflexivity|].
    exists pile, (mkFrame file' cur l2). split; [reflexivity|exact Hf].
  - intros c n cb cmd more cname cl Hs Hf Hfl. exists cmd, more, cb, cname, cl. cbn [fst]. repeat split; assumption.
  - left. split; [reflexivity|intros; exact I].
  - reflexivity.
Qed.

(* the disabled run is the enabled run, or it is refused at a Flipper-only line *)
Theorem flipper_gate : forall o fs file cmds g1 r1 g2 r2,
  compile_items fo (set_flipper o true) fs file cmds = (g1, r1) ->
  compile_items fo (set_flipper o false) fs file cmds = (g2, r2) ->
  (g1 = g2 /\ r1 = r2) \/
  (exists t pile fr, r2 = IErr EInvalidCommand t /\ t = Some (pile ++ [fr]) /\ flipper_line (fr_line fr)).
Proof.
  intros o fs file cmds g1 r1 g2 r2 E1 E2.
  destruct (flipper_rel o fs file cmds g1 r1 g2 r2 E1 E2) as [[Hg Hr]|He].
  - left. split; [exact Hg|].
    destruct r1 as [c1|e1 t1|k1|], r2 as [c2|e2 t2|k2|]; cbn [rres] in Hr; try contradiction.
    + destruct Hr as (Hd & He & Hw1 & Hw2 & Hp1 & Hp2). subst g2.
      destruct c1 as [o1 w1 e1 p1], c2 as [o2 w2 e2 p2]. cbn [out warnings final_env prints] in *.
      subst. reflexivity.
    + destruct Hr as [-> ->]. reflexivity.
    + subst. reflexivity.
    + reflexivity.
  - right. destruct r2 as [c2|e2 t2|k2|]; cbn [esc] in He; try contradiction.
    destruct He as [-> (pile & fr & Ht & Hf)]. exists t2, pile, fr. repeat split; assumption.
Qed.

(* conversely, executing (exec_line) a Flipper-only line with Flipper commands disabled is refused
   right there, before anything else happens *)
Theorem flipper_line_refused : forall child cx c n cb cmd more cname cl s,
  flipper_commands (c_opts cx) = false ->
  split_ws1 c = cmd :: more -> find_command palette cmd cb = Some (cname, cl) ->
  cls_flipper_only cl = true ->
  exec_line fo child cx c n cb s = (s, IErr EInvalidCommand (Some (here cx (c, n) (s_line2 fo s)))).
Proof.
  intros child cx c n cb cmd more cname cl s Hopt Hs Hf Hfl.
  pose proof (palette_In_check flipper_class_check flipper_class_palette _ _ _ _ Hf) as Hc.
  unfold flipper_class_check in Hc. cbn [snd] in Hc.
  unfold exec_line. rewrite Hs, Hf.
  destruct cl as [sc|bc]; cbn [cls_flipper_only] in Hfl.
  - rewrite Hfl in Hc. unfold is_start_class. destruct (s_run sc); try discriminate. cbn [andb].
    unfold simple_compile, check_flipper. rewrite Hfl, Hopt. reflexivity.
  - rewrite Hfl in Hc. discriminate.
Qed.

End Flipper.


(* ================================================================== witnesses (non-vacuity) *)
Definition wit_opts : options := mkOptions 20 false true false false.
Definition wit_prog : list item :=
  [Ln (DuckyGrammar.lit "REM hello") 1; Ln (DuckyGrammar.lit "STRING x") 2; Ln (DuckyGrammar.lit "FOO bar") 3;
   Ln (DuckyGrammar.lit "REM") 4; Blk [Ln (DuckyGrammar.lit "a") 5; Ln (DuckyGrammar.lit "b") 6]].

Example comments_witness : forall fo : FloatOps,
  exists g1 c1 g2 c2,
    compile_items fo (set_comments wit_opts true) (fun _ => None) None wit_prog = (g1, IOk c1) /\
    compile_items fo (set_comments wit_opts false) (fun _ => None) None wit_prog = (g2, IOk c2) /\
    map o_text (out fo c1) =
      [DuckyGrammar.lit "REM hello"; DuckyGrammar.lit "STRING x"; DuckyGrammar.lit "FOO bar";
       DuckyGrammar.lit "REM a"; DuckyGrammar.lit "REM b"] /\
    map o_text (out fo c2) = [DuckyGrammar.lit "STRING x"; DuckyGrammar.lit "FOO bar"].
Proof.
  intro fo. eexists. eexists. eexists. eexists.
  split; [vm_compute; reflexivity|]. split; [vm_compute; reflexivity|]. split; vm_compute; reflexivity.
Qed.

Example suppress_witness : forall fo : FloatOps,
  exists g1 c1 g2 c2,
    compile_items fo (set_suppress wit_opts false) (fun _ => None) None wit_prog = (g1, IOk c1) /\
    compile_items fo (set_suppress wit_opts true) (fun _ => None) None wit_prog = (g2, IOk c2) /\
    map w_text (warnings fo c1) = [unknown_warning_text 3] /\ warnings fo c2 = [].
Proof.
  intro fo. eexists. eexists. eexists. eexists.
  split; [vm_compute; reflexivity|]. split; [vm_compute; reflexivity|]. split; vm_compute; reflexivity.
Qed.
