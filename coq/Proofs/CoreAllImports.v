(* C12 / C13 / C18 on the specification Spec/CoreAll.v alone: START as "paste with a precise list of
   differences" (the rule read both ways), diamonds and repeated imports have derivations, cycles
   have none, prints of an imported file carry that file. *)
From Coq Require Import String Ascii NArith ZArith List Bool Lia.
From DS Require Import Base PyStr Values Expr TabParse ChainLoopExamples CoreLang CoreFunc CoreAll CoreAllCor CoreAllExample.
Import ListNotations.
Open Scope string_scope.
Open Scope list_scope.

Section Imports.
Variable fo : FloatOps.
Variable sys : store fo.

(* ------------------------------------------------------------------ the import rule, both ways.
   `START name` at line n of file cf  =  the statements of `name`, run
     - as ONE new stack (one more unit of depth; frame (cf, "START name", n) on the pile),
     - "in" file name from line 1 (prints, warnings and later FUNC definitions carry name / its lines),
     - on copies of the store and function table, WITH NO IF FLAG, the importer's flag untouched,
     - any final signal turned into Normal (Returned: silently; Broke / Continued: warning [stray]),
     - then every variable / function of the file assigned in the importer (START, STARTENV) or
       only the assignments to existing variables kept (STARTCODE),
     - the output spliced (START, STARTCODE) or dropped (STARTENV); the events always kept. *)
Theorem start_iff : forall prog inc sup d pile cf n F f vs k name sg F' f' vs' out ev,
  CoreAll.exec fo sys prog inc sup d pile cf n F f vs (UStart k name) sg F' f' vs' out ev <->
  exists d' stmts sg1 F1 f1 vs1 out1 ev1,
    d = S d' /\ lookup name prog = Some stmts /\ ~ In name (live_files pile cf) /\
    CoreAll.exec_list fo sys prog inc sup d' (pile ++ [mkSF cf (start_head k name) n true]) name 1 F None vs stmts
                      sg1 F1 f1 vs1 out1 ev1 /\
    sg = Normal /\ f' = f /\
    F' = (match k with KCode => F | _ => overlay_defs F1 F end) /\
    vs' = (match k with KCode => copy_back fo vs vs1 | _ => overlay fo vs1 vs end) /\
    out = (match k with KEnv => [] | _ => out1 end) /\
    ev = ev1 ++ stray sg1.
Proof.
  intros. split; [apply start_law|].
  intros (d' & stmts & sg1 & F1 & f1 & vs1 & out1 & ev1 & -> & Hl & Hn & Hx & -> & -> & -> & -> & -> & ->).
  eapply CoreAll.E_Start; eassumption.
Qed.

(* a one-statement list *)
Lemma exec_list_single : forall prog inc sup d pile cf n F f vs s sg F' f' vs' out ev,
  CoreAll.exec_list fo sys prog inc sup d pile cf n F f vs [s] sg F' f' vs' out ev ->
  exists out1 ev1, CoreAll.exec fo sys prog inc sup d pile cf n F f vs s sg F' f' vs' out1 ev1.
Proof.
  intros prog inc sup d pile cf n F f vs s sg F' f' vs' out ev H. inversion H; subst.
  - match goal with H2 : CoreAll.exec_list _ _ _ _ _ _ _ _ _ _ _ _ [] _ _ _ _ _ _ |- _ => inversion H2; subst end.
    eauto.
  - eauto.
Qed.

(* the first statement of a list is executed *)
Lemma exec_list_head : forall prog inc sup d pile cf n F f vs s r sg F' f' vs' out ev,
  CoreAll.exec_list fo sys prog inc sup d pile cf n F f vs (s :: r) sg F' f' vs' out ev ->
  exists sg1 F1 f1 vs1 out1 ev1 ev2,
    CoreAll.exec fo sys prog inc sup d pile cf n F f vs s sg1 F1 f1 vs1 out1 ev1 /\ ev = ev1 ++ ev2.
Proof.
  intros prog inc sup d pile cf n F f vs s r sg F' f' vs' out ev H. inversion H; subst.
  - do 7 eexists. split; [eassumption|reflexivity].
  - do 6 eexists. exists []. split; [eassumption|]. rewrite app_nil_r. reflexivity.
Qed.

(* C18: a PRINT at the head of an imported file is reported with THAT file and its line there *)
Theorem imported_print_carries_file : forall prog inc sup d pile cf n F f vs k name t rest sg F' f' vs' out ev,
  lookup name prog = Some (UPrint t :: rest) ->
  CoreAll.exec fo sys prog inc sup d pile cf n F f vs (UStart k name) sg F' f' vs' out ev ->
  exists ev', ev = EvPrint t 1 name :: ev'.
Proof.
  intros prog inc sup d pile cf n F f vs k name t rest sg F' f' vs' out ev Hl H.
  apply start_law in H.
  destruct H as (d' & stmts & sg1 & F1 & f1 & vs1 & out1 & ev1 & -> & Hl' & _ & Hx & _ & _ & _ & _ & _ & ->).
  rewrite Hl in Hl'. injection Hl' as <-.
  apply exec_list_head in Hx. destruct Hx as (sg2 & F2 & f2 & vs2 & o2 & e1 & e2 & Hp & ->).
  apply print_law in Hp. destruct Hp as (_ & _ & _ & _ & _ & ->).
  eexists. cbn [app]. reflexivity.
Qed.

End Imports.

(* ================================================================== graphs of imports *)
Definition S_ (t : string) := lit t.
Definition n_a := S_ "a". Definition n_b := S_ "b". Definition n_c := S_ "c". Definition n_d := S_ "d".

(* a diamond: a imports b and c, both import d; d is compiled twice *)
Definition diamond : program :=
  [ (n_a, [UStart KStart n_b; UStart KStart n_c]);
    (n_b, [UStart KStart n_d]);
    (n_c, [UStart KStart n_d]);
    (n_d, [UEmit (S_ "STRING") (S_ "leaf"); UPrint (S_ "in d")]) ].

Lemma diamond_has_derivation : forall fo inc sup,
  uruns fo diamond inc sup n_a 2 Normal [] None []
        [LCode (S_ "STRING leaf"); LCode (S_ "STRING leaf")]
        [EvPrint (S_ "in d") 2 n_d; EvPrint (S_ "in d") 2 n_d].
Proof.
  intros fo inc sup.
  assert (H : exists F' f' vs' out ev, uruns fo diamond inc sup n_a 2 Normal F' f' vs' out ev /\
            F' = [] /\ f' = None /\ vs' = [] /\
            out = [LCode (S_ "STRING leaf"); LCode (S_ "STRING leaf")] /\
            ev = [EvPrint (S_ "in d") 2 n_d; EvPrint (S_ "in d") 2 n_d]).
  { do 5 eexists. split.
    - unfold uruns. eexists. eexists. split; [reflexivity|]. split; [|reflexivity]. uderive.
    - repeat split; vm_compute; reflexivity. }
  destruct H as (F' & f' & vs' & out & ev & H & -> & -> & -> & -> & ->). exact H.
Qed.

(* the same file imported twice in a row *)
Definition twice : program :=
  [ (n_a, [UStart KStart n_d; UStart KCode n_d; UStart KEnv n_d]);
    (n_d, [UVar (S_ "v") (S_ "1"); UEmit (S_ "STRING") (S_ "leaf")]) ].

Lemma twice_has_derivation : forall fo inc sup,
  uruns fo twice inc sup n_a 1 Normal [] None [(S_ "v", VInt 1)]
        [LCode (S_ "STRING leaf"); LCode (S_ "STRING leaf")] [].
Proof.
  intros fo inc sup.
  assert (H : exists F' f' vs' out ev, uruns fo twice inc sup n_a 1 Normal F' f' vs' out ev /\
            F' = [] /\ f' = None /\ vs' = [(S_ "v", VInt 1)] /\
            out = [LCode (S_ "STRING leaf"); LCode (S_ "STRING leaf")] /\ ev = []).
  { do 5 eexists. split.
    - unfold uruns. eexists. eexists. split; [reflexivity|]. split; [|reflexivity]. uderive.
    - repeat split; vm_compute; reflexivity. }
  destruct H as (F' & f' & vs' & out & ev & H & -> & -> & -> & -> & ->). exact H.
Qed.

(* a cycle: a imports b, b imports a: NO derivation, whatever the options, depth and result *)
Definition cycle : program := [ (n_a, [UStart KStart n_b]); (n_b, [UStart KEnv n_a]) ].

Lemma cycle_has_no_derivation : forall fo inc sup d sg F' f' vs' out ev,
  ~ uruns fo cycle inc sup n_a d sg F' f' vs' out ev.
Proof.
  intros fo inc sup d sg F' f' vs' out ev (stmts & ev0 & Hl & Hrun & _).
  injection Hl as <-.
  apply exec_list_single in Hrun. destruct Hrun as (o1 & e1 & Hs).
  apply start_law in Hs.
  destruct Hs as (d' & stmts & sg1 & F1 & f1 & vs1 & out1 & ev1 & _ & Hl & _ & Hx & _).
  injection Hl as <-.
  apply exec_list_single in Hx. destruct Hx as (o2 & e2 & Hs2).
  revert Hs2. apply start_live_no_derivation. right. left. reflexivity.
Qed.

(* a file that imports itself *)
Definition self_import : program := [ (n_a, [UStart KCode n_a]) ].

Lemma self_import_has_no_derivation : forall fo inc sup d sg F' f' vs' out ev,
  ~ uruns fo self_import inc sup n_a d sg F' f' vs' out ev.
Proof.
  intros fo inc sup d sg F' f' vs' out ev (stmts & ev0 & Hl & Hrun & _).
  injection Hl as <-.
  apply exec_list_single in Hrun. destruct Hrun as (o1 & e1 & Hs).
  revert Hs. apply start_live_no_derivation. left. reflexivity.
Qed.

(* (!) the files of FUNCTIONS being called count as live: lib defines f which imports main;
   main imports lib (fine) and calls f: the call has no derivation although no file imports a
   file that is being imported *)
Definition via_function : program :=
  [ (n_a, [UStart KStart n_b; URun (S_ "f") []]);
    (n_b, [UFunc (S_ "f") [] [UStart KStart n_a]]) ].

Lemma via_function_has_no_derivation : forall fo inc sup d sg F' f' vs' out ev,
  ~ uruns fo via_function inc sup n_a d sg F' f' vs' out ev.
Proof.
  intros fo inc sup d sg F' f' vs' out ev (stmts & ev0 & Hl & Hrun & _).
  injection Hl as <-.
  inversion Hrun; subst.
  - (* START b ended Normal: the table now holds f, defined in b *)
    match goal with H1 : CoreAll.exec _ _ _ _ _ _ _ _ _ _ _ _ (UStart _ _) _ _ _ _ _ _ |- _ =>
      apply start_law in H1;
      destruct H1 as (d' & stmts & sg1 & F1' & f1' & vs1' & out1 & ev1 & _ & Hl & _ & Hx & _ & _ & HF & _) end.
    injection Hl as <-.
    apply exec_list_single in Hx. destruct Hx as (oo2 & ee2 & Hf). inversion Hf; subst.
    match goal with H2 : CoreAll.exec_list _ _ _ _ _ _ _ _ _ _ _ _ [URun _ _] _ _ _ _ _ _ |- _ =>
      apply exec_list_single in H2; destruct H2 as (oo3 & ee3 & Hr) end.
    inversion Hr; subst.
    match goal with Hlk : lookup _ _ = Some ?df |- _ => vm_compute in Hlk; injection Hlk as <- end.
    match goal with Hb : CoreAll.exec_list _ _ _ _ _ _ _ _ _ _ _ _ (d_body _) _ _ _ _ _ _ |- _ =>
      cbn [d_body d_file d_line d_params] in Hb; apply exec_list_single in Hb; destruct Hb as (oo4 & ee4 & Hs) end.
    revert Hs. apply start_live_no_derivation. right. vm_compute. left. reflexivity.
  - match goal with H1 : CoreAll.exec _ _ _ _ _ _ _ _ _ _ _ _ (UStart _ _) _ _ _ _ _ _ |- _ =>
      apply start_law in H1; destruct H1 as (? & ? & ? & ? & ? & ? & ? & ? & _ & _ & _ & _ & Hsg & _) end.
    contradiction.
Qed.
