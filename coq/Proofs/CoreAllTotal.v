(* TOTALITY of the UNIFIED reference semantics (Spec/CoreAll.v + Spec/CoreAllErr.v): for every
   program (all its files) whose VAR names are identifiers and whose expressions stay inside the
   modelled evaluator ([utame]), from every room d, pile, file, line, function table (whose bodies
   are good), flag and store, EITHER there is a success derivation (CoreAll.exec_list, within the
   room d) OR there is a failure derivation (CoreAllErr.fails_list, possibly EStackOverflow).
   Proved on the specifications alone.

   Termination: the room d decreases at every block / call / import (induction on d); loops are
   bounded by [loop_max] (explicit fuel); statement lists and IF arm lists by structural induction.

   (!!) THE INVARIANT ON THE FUNCTION TABLE IS ON EVERY ENTRY ([good_tab], a Forall), NOT ONLY ON
   THE BODIES THAT lookup FINDS ([good_tab_lookup]).  With the lookup form on an ARBITRARY table F
   the theorem is FALSE: lookup sees only the FIRST entry of each name, a table may hold a second,
   shadowed, entry under the same name, and START / STARTENV re-define EVERY entry of the imported
   file's final table in order ([overlay_defs] is a fold of [set_def]), so the LAST entry of a name
   wins.  Counterexample:
       F    = [(x, good body); (x, BAD body)]      good_tab_lookup F holds
       prog = [(lib, [])]
       p    = [UStart KStart lib; URun x []]       d = 1
   the import ends with F1 = F and the importer's table becomes
       overlay_defs F F = [(x, BAD body); (x, BAD body)],
   then RUN x runs the BAD body; if this is [UVar y e] with an expression e on which the evaluator
   answers Unmodelled there is neither a success nor a failure derivation
   (proved at the end: [cx_neither], [uall_total_lookup_form_false], for any such e).
   The Forall form is preserved by set_def and overlay_defs and implies the lookup form
   ([good_tab_lookup_of]); the two coincide on tables in which no name stands twice
   ([good_tab_of_lookup_nodup]), hence [uall_total_lookup_nodup]. *)
From Coq Require Import NArith ZArith List Bool Lia.
From DS Require Import ExprTotal.
From DS Require Import Base PyStr Values Expr TabParse IdentSpec CoreLang CoreFunc CoreErr CoreAll CoreAllErr.
Import ListNotations.

(* ================================================================== definitions *)
Section Defs.
Variable fo : FloatOps.

(* the evaluator answers Ok or Err on e, whatever the variables (not Crash, not Unmodelled) *)
Definition utame_expr (e : str) : Prop :=
  forall vars, (exists v, tokenize fo vars e = Ok v) \/ (exists er, tokenize fo vars e = Err er).
(* ... and its values can be printed *)
Definition uprints (e : str) : Prop :=
  forall vars v, tokenize fo vars e = Ok v -> exists t, py_str fo v = Some t.

Fixpoint utame (s : ustmt) : Prop :=
  match s with
  | UEmitEval _ e => utame_expr e /\ uprints e
  | UVar _ e => utame_expr e
  | UPrintEval e => utame_expr e /\ uprints e
  | UIf arms els =>
      every (fun cb : str * list ustmt => let (c, b) := cb in utame_expr c /\ every utame b) arms /\
      match els with Some b => every utame b | None => True end
  | URepeat _ e b => utame_expr e /\ every utame b
  | UWhile _ e b => utame_expr e /\ every utame b
  | UFunc _ _ b => every utame b
  | URun _ args => args = [] \/ utame_expr (comma_list args)
  | _ => True
  end.

Definition good_list (p : list ustmt) : Prop := unames_ok_list p /\ every utame p.
(* the bodies of ALL the entries of the table, also the shadowed ones *)
Definition good_tab (F : utable) : Prop := Forall (fun yd : str * udef => good_list (d_body (snd yd))) F.
Definition good_prog (prog : program) : Prop := forall m stmts, lookup m prog = Some stmts -> good_list stmts.
(* the weaker form: the bodies that lookup finds *)
Definition good_tab_lookup (F : utable) : Prop := forall x df, lookup x F = Some df -> good_list (d_body df).

End Defs.

(* the evaluator never crashes (Proofs/ExprTotal.v): "tame" only excludes the Unmodelled answer *)
Lemma utame_expr_of_modelled : forall fo e,
  (forall vars, tokenize fo vars e <> Unmodelled) -> utame_expr fo e.
Proof.
  intros fo e H vars. specialize (H vars).
  destruct (tokenize fo vars e) as [v|er|k|] eqn:E.
  - left. exists v. reflexivity.
  - right. exists er. reflexivity.
  - exfalso. exact (ExprTotal.tokenize_never_crashes fo vars e k E).
  - exfalso. apply H. reflexivity.
Qed.

(* ================================================================== tables *)
Lemma ustr_eqb_refl : forall a : str, str_eqb a a = true.
Proof.
  induction a as [|x a IH]; cbn [str_eqb]; [reflexivity|].
  rewrite N.eqb_refl, IH. reflexivity.
Qed.

Lemma ustr_eqb_true : forall a b : str, str_eqb a b = true -> a = b.
Proof.
  induction a as [|x a IH]; intros [|y b] H; cbn [str_eqb] in H; try reflexivity; try discriminate H.
  apply andb_true_iff in H. destruct H as [Hx Hr].
  apply N.eqb_eq in Hx. apply IH in Hr. subst. reflexivity.
Qed.

Lemma good_tab_nil : forall fo, good_tab fo [].
Proof. intros fo. constructor. Qed.

(* what lookup finds in a good table is good *)
Lemma good_tab_lookup_of : forall fo F, good_tab fo F -> good_tab_lookup fo F.
Proof.
  intros fo. unfold good_tab, good_tab_lookup. induction F as [|[k w] r IH]; intros HF x df Hl; cbn [lookup] in Hl.
  - discriminate Hl.
  - inversion HF as [|yd r0 Hw Hr]. subst yd r0. destruct (str_eqb x k).
    + injection Hl as <-. exact Hw.
    + exact (IH Hr x df Hl).
Qed.

Lemma good_set_def : forall fo x d F,
  good_list fo (d_body d) -> good_tab fo F -> good_tab fo (set_def x d F).
Proof.
  intros fo x d. unfold good_tab. induction F as [|[k w] r IH]; intros Hd HF; cbn [set_def].
  - constructor; [exact Hd|constructor].
  - inversion HF as [|yd r0 Hw Hr]. subst yd r0. destruct (str_eqb x k).
    + constructor; [exact Hd|exact Hr].
    + constructor; [exact Hw|exact (IH Hd Hr)].
Qed.

Lemma good_overlay_defs : forall fo top bottom,
  good_tab fo top -> good_tab fo bottom -> good_tab fo (overlay_defs top bottom).
Proof.
  intros fo. unfold overlay_defs. induction top as [|[k w] r IH]; intros bottom Ht Hb; cbn [fold_left].
  - exact Hb.
  - inversion Ht as [|yd r0 Hw Hr]. subst yd r0. apply IH; [exact Hr|].
    cbn [fst snd]. apply good_set_def; [exact Hw|exact Hb].
Qed.

(* on a table in which no name stands twice the two forms coincide *)
Lemma In_lookup_nodup : forall A (l : list (str * A)) x a,
  NoDup (map fst l) -> In (x, a) l -> lookup x l = Some a.
Proof.
  intros A. induction l as [|[k w] r IH]; intros x a Hnd Hin; [destruct Hin|].
  cbn [map fst] in Hnd. inversion Hnd as [|k0 r0 Hnotin Hnd']. subst k0 r0.
  cbn [lookup]. destruct Hin as [Heq|Hin].
  - injection Heq as -> ->. rewrite ustr_eqb_refl. reflexivity.
  - destruct (str_eqb x k) eqn:E.
    + apply ustr_eqb_true in E. subst k. exfalso. apply Hnotin.
      apply in_map_iff. exists (x, a). split; [reflexivity|exact Hin].
    + apply IH; assumption.
Qed.

Lemma good_tab_of_lookup_nodup : forall fo F, NoDup (map fst F) -> good_tab_lookup fo F -> good_tab fo F.
Proof.
  intros fo F Hnd HF. unfold good_tab. apply Forall_forall. intros [x df] Hin. cbn [snd].
  apply (HF x df). apply In_lookup_nodup; assumption.
Qed.

(* ================================================================== totality *)
Section Total.
Variable fo : FloatOps.
Variable sys : store fo.
Variable prog : program.
Variable inc : bool.
Variable sup : bool.
Hypothesis Hprog : good_prog fo prog.

Notation ex := (CoreAll.exec fo sys prog inc sup).
Notation ex_list := (CoreAll.exec_list fo sys prog inc sup).
Notation ex_arms := (CoreAll.exec_arms fo sys prog inc sup).
Notation ex_repeat := (CoreAll.exec_repeat fo sys prog inc sup).
Notation ex_while := (CoreAll.exec_while fo sys prog inc sup).
Notation fl := (CoreAllErr.fails fo sys prog inc sup).
Notation fl_list := (CoreAllErr.fails_list fo sys prog inc sup).
Notation fl_arms := (CoreAllErr.fails_arms fo sys prog inc sup).
Notation fl_repeat := (CoreAllErr.fails_repeat fo sys prog inc sup).
Notation fl_while := (CoreAllErr.fails_while fo sys prog inc sup).
Notation Normal := CoreFunc.Normal.
Notation Broke := CoreFunc.Broke.
Notation Continued := CoreFunc.Continued.

Definition outcome_stmt (d : nat) (pile : list sframe) (cf : str) (n : Z) (F : utable)
           (f : option bool) (vs : store fo) (s : ustmt) : Prop :=
  (exists sg F' f' vs' out ev, ex d pile cf n F f vs s sg F' f' vs' out ev /\ good_tab fo F') \/
  (exists er ch ev, fl d pile cf n F f vs s er ch ev).

Definition outcome_list (d : nat) (pile : list sframe) (cf : str) (n : Z) (F : utable)
           (f : option bool) (vs : store fo) (p : list ustmt) : Prop :=
  (exists sg F' f' vs' out ev, ex_list d pile cf n F f vs p sg F' f' vs' out ev /\ good_tab fo F') \/
  (exists er ch ev, fl_list d pile cf n F f vs p er ch ev).

(* totality with the room d *)
Definition T (d : nat) : Prop :=
  forall p, good_list fo p -> forall pile cf n F f vs, good_tab fo F -> outcome_list d pile cf n F f vs p.
(* ... with the room of the stacks entered from the room d *)
Definition Tprev (d : nat) : Prop := match d with O => True | S d' => T d' end.

Lemma ulater_total : forall rest,
  every (fun cb : str * list ustmt => let (c, b) := cb in utame_expr fo c /\ every (utame fo) b) rest ->
  forall cf vs n,
    Forall (fun cb : str * list ustmt => exists v', eval fo sys (Some true) vs (fst cb) v') rest \/
    exists er fr, later_fails fo sys cf vs n rest er fr.
Proof.
  induction rest as [|[c b] r IH]; intros Ht cf vs n; [left; constructor|].
  destruct Ht as [[Hc _] Hr].
  destruct (Hc (visible fo sys (Some true) vs)) as [[v Hv]|[er He]].
  - destruct (IH Hr cf vs (n + 1 + sum_sizes usize b)%Z) as [Hall|(er & fr & Hl)].
    + left. constructor; [exists v; exact Hv|exact Hall].
    + right. exists er, fr. eapply LF_Next; eassumption.
  - right. exists er, (mkSF cf (if_head false c) n false). apply LF_Here. exact He.
Qed.

Lemma uarms_total : forall d, Tprev d -> forall els,
  match els with Some b0 => good_list fo b0 | None => True end ->
  forall arms,
  every (fun cb : str * list ustmt => let (_, b) := cb in every unames_ok b) arms ->
  every (fun cb : str * list ustmt => let (c, b) := cb in utame_expr fo c /\ every (utame fo) b) arms ->
  forall pile cf F, good_tab fo F -> forall first b vs n,
    (exists sg taken vs' out ev, ex_arms d pile cf first n F b vs arms els sg taken vs' out ev) \/
    (exists er ch ev, fl_arms d pile cf first n F b vs arms els er ch ev).
Proof.
  intros d HT els Hels. induction arms as [|[c body] rest IH]; intros Hn Ht pile cf F HF first b vs n.
  - destruct els as [b0|].
    + destruct d as [|d'].
      * right. do 3 eexists. apply CoreAllErr.FA_ElseOverflow.
      * destruct (HT b0 Hels (pile ++ [mkSF cf kw_ELSE n false]) cf (n + 1)%Z F None vs HF)
          as [(sg & F1 & f1 & vs1 & out & ev & Hl & _)|(er & ch & ev & Hf)].
        -- left. exists sg, true, (copy_back fo vs vs1), out, ev. eapply CoreAll.A_Else. exact Hl.
        -- right. do 3 eexists. apply CoreAllErr.FA_Else. exact Hf.
    + left. exists Normal, false, vs, [], []. apply CoreAll.A_None.
  - destruct Hn as [Hnb Hnr]. destruct Ht as [[Htc Htb] Htr].
    destruct (Htc (visible fo sys (Some b) vs)) as [[v Hv]|[er He]];
      [|right; do 3 eexists; apply CoreAllErr.FA_Cond; exact He].
    destruct (truthy fo v) eqn:Et.
    + destruct d as [|d'].
      * right. do 3 eexists. eapply CoreAllErr.FA_Overflow; eassumption.
      * destruct (HT body (conj Hnb Htb) (pile ++ [mkSF cf (if_head first c) n false]) cf (n + 1)%Z F None vs HF)
          as [(sg & F1 & f1 & vs1 & out & ev & Hl & _)|(er & ch & ev & Hf)];
          [|right; do 3 eexists; eapply CoreAllErr.FA_Body; eassumption].
        destruct sg.
        -- destruct (ulater_total rest Htr cf (copy_back fo vs vs1) (n + 1 + sum_sizes usize body)%Z)
             as [Hall|(er & fr & Hlf)].
           ++ left. exists Normal, true, (copy_back fo vs vs1), out, ev.
              eapply CoreAll.A_Take; try eassumption. intros _. exact Hall.
           ++ right. do 3 eexists. eapply CoreAllErr.FA_Later; eassumption.
        -- left. exists Broke, true, (copy_back fo vs vs1), out, ev.
           eapply CoreAll.A_Take; try eassumption. intro H; discriminate H.
        -- left. exists Continued, true, (copy_back fo vs vs1), out, ev.
           eapply CoreAll.A_Take; try eassumption. intro H; discriminate H.
        -- left. exists Returned, true, (copy_back fo vs vs1), out, ev.
           eapply CoreAll.A_Take; try eassumption. intro H; discriminate H.
    + destruct (IH Hnr Htr pile cf F HF false false vs (n + 1 + sum_sizes usize body)%Z)
        as [(sg & taken & vs' & out & ev & Ha)|(er & ch & ev & Hf)].
      * left. exists sg, taken, vs', out, ev. eapply CoreAll.A_Skip; eassumption.
      * right. exists er, ch, ev. eapply CoreAllErr.FA_Skip; eassumption.
Qed.

Lemma urepeat_total : forall d, Tprev d -> forall pile cf n F f c e body,
  good_tab fo F -> good_list fo body -> utame_expr fo e ->
  forall fuel k vs, (loop_max - k < Z.of_nat fuel)%Z ->
    (exists sg vs' out ev, ex_repeat d pile cf n F f c e body k vs sg vs' out ev) \/
    (exists er ch ev, fl_repeat d pile cf n F f c e body k vs er ch ev).
Proof.
  intros d HT pile cf n F f c e body HF Hbody Hte. induction fuel as [|fuel IH]; intros k vs Hfuel;
    (destruct (Hte (visible fo sys f vs)) as [[v Hv]|[er He]];
       [|right; do 3 eexists; apply CoreAllErr.FR_Count; exact He]);
    (destruct (count_of fo v) as [m|] eqn:Ec;
       [|right; do 3 eexists; eapply CoreAllErr.FR_NotCount; eassumption]);
    (assert (Hd : (0 <= m <= loop_max)%Z \/ ~ (0 <= m <= loop_max)%Z) by lia;
     destruct Hd as [Hin|Hout];
       [|right; do 3 eexists; eapply CoreAllErr.FR_Range; eassumption]);
    (destruct (Z_lt_le_dec k m) as [Hlt|Hge];
       [|left; exists Normal, vs, [], []; eapply CoreAll.R_Done; eassumption]).
  - exfalso. unfold loop_max in *. lia.
  - destruct d as [|d']; [right; do 3 eexists; eapply CoreAllErr.FR_Overflow; eassumption|].
    destruct (HT body Hbody (pile ++ [mkSF cf (repeat_head c e) n false]) cf (n + 1)%Z F None
                 (with_counter fo c k vs) HF)
      as [(sg & F1 & f1 & vs1 & o1 & e1 & Hl & _)|(er & ch & ev & Hf)];
      [|right; do 3 eexists; eapply CoreAllErr.FR_Body; eassumption].
    destruct Hbody as [Hnm _].
    destruct sg.
    + destruct (IH (k + 1)%Z (copy_back fo vs vs1) ltac:(lia)) as [(sg' & vs' & o2 & e2 & Hr)|(er & ch & e2 & Hf)].
      * left. exists sg', vs', (o1 ++ o2), (e1 ++ e2). eapply CoreAll.R_Iter; try eassumption. left. reflexivity.
      * right. do 3 eexists. eapply CoreAllErr.FR_Iter; try eassumption. left. reflexivity.
    + left. exists (loop_end Broke), (copy_back fo vs vs1), o1, e1.
      eapply CoreAll.R_Stop; try eassumption. left. reflexivity.
    + destruct (IH (k + 1)%Z (copy_back fo vs vs1) ltac:(lia)) as [(sg' & vs' & o2 & e2 & Hr)|(er & ch & e2 & Hf)].
      * left. exists sg', vs', (o1 ++ o2), (e1 ++ e2). eapply CoreAll.R_Iter; try eassumption. right. reflexivity.
      * right. do 3 eexists. eapply CoreAllErr.FR_Iter; try eassumption. right. reflexivity.
    + left. exists (loop_end Returned), (copy_back fo vs vs1), o1, e1.
      eapply CoreAll.R_Stop; try eassumption. right. reflexivity.
Qed.

Lemma uwhile_total : forall d, Tprev d -> forall pile cf n F c e body,
  good_tab fo F -> good_list fo body -> utame_expr fo e ->
  forall fuel k vs, (loop_max - k < Z.of_nat fuel)%Z ->
    (exists sg vs' out ev, ex_while d pile cf n F c e body k vs sg vs' out ev) \/
    (exists er ch ev, fl_while d pile cf n F c e body k vs er ch ev).
Proof.
  intros d HT pile cf n F c e body HF Hbody Hte. induction fuel as [|fuel IH]; intros k vs Hfuel;
    (destruct (Z_le_gt_dec k loop_max) as [Hk|Hk];
       [|right; do 3 eexists; apply CoreAllErr.FW_Limit; lia]).
  - exfalso. lia.
  - destruct d as [|d']; [right; do 3 eexists; apply CoreAllErr.FW_Overflow; exact Hk|].
    destruct (Hte (visible fo sys None (with_counter fo c k vs))) as [[v Hv]|[er He]];
      [|right; do 3 eexists; apply CoreAllErr.FW_Cond; [exact Hk|exact He]].
    destruct (truthy fo v) eqn:Et;
      [|left; exists Normal, (copy_back fo vs (with_counter fo c k vs)), [], []; eapply CoreAll.W_Done; eassumption].
    destruct (HT body Hbody (pile ++ [mkSF cf (while_head c e) n false]) cf (n + 1)%Z F None
                 (with_counter fo c k vs) HF)
      as [(sg & F1 & f1 & vs1 & o1 & e1 & Hl & _)|(er & ch & ev & Hf)];
      [|right; do 3 eexists; eapply CoreAllErr.FW_Body; eassumption].
    destruct Hbody as [Hnm _].
    destruct sg.
    + destruct (IH (k + 1)%Z (copy_back fo vs vs1) ltac:(lia)) as [(sg' & vs' & o2 & e2 & Hr)|(er & ch & e2 & Hf)].
      * left. exists sg', vs', (o1 ++ o2), (e1 ++ e2). eapply CoreAll.W_Iter; try eassumption. left. reflexivity.
      * right. do 3 eexists. eapply CoreAllErr.FW_Iter; try eassumption. left. reflexivity.
    + left. exists (loop_end Broke), (copy_back fo vs vs1), o1, e1.
      eapply CoreAll.W_Stop; try eassumption. left. reflexivity.
    + destruct (IH (k + 1)%Z (copy_back fo vs vs1) ltac:(lia)) as [(sg' & vs' & o2 & e2 & Hr)|(er & ch & e2 & Hf)].
      * left. exists sg', vs', (o1 ++ o2), (e1 ++ e2). eapply CoreAll.W_Iter; try eassumption. right. reflexivity.
      * right. do 3 eexists. eapply CoreAllErr.FW_Iter; try eassumption. right. reflexivity.
    + left. exists (loop_end Returned), (copy_back fo vs vs1), o1, e1.
      eapply CoreAll.W_Stop; try eassumption. right. reflexivity.
Qed.

Lemma ufuel_enough : forall k, (0 <= k)%Z -> (loop_max - k < Z.of_nat (Z.to_nat (loop_max + 1)))%Z.
Proof. intros k H. unfold loop_max. rewrite Z2Nat.id; lia. Qed.

(* the argument text of a RUN evaluates, or it does not *)
Lemma urun_args_total : forall f vs args,
  (args = [] \/ utame_expr fo (comma_list args)) ->
  (exists vals, run_args fo sys f vs args vals) \/ (exists er, run_args_err fo sys f vs args er).
Proof.
  intros f vs args Ht. destruct args as [|a r].
  - left. exists []. reflexivity.
  - destruct Ht as [Habs|Hte]; [discriminate Habs|].
    destruct (Hte (visible fo sys f vs)) as [[v Hv]|[er He]].
    + left. exists (spread fo v). exists v. split; [exact Hv|reflexivity].
    + right. exists er. split; [discriminate|exact He].
Qed.

Lemma urun_total : forall d, Tprev d -> forall pile cf n F f vs name args,
  (args = [] \/ utame_expr fo (comma_list args)) -> good_tab fo F ->
  outcome_stmt d pile cf n F f vs (URun name args).
Proof.
  intros d HT pile cf n F f vs name args Ht HF.
  destruct (urun_args_total f vs args Ht) as [[vals Hv]|[er He]];
    [|right; do 3 eexists; apply CoreAllErr.F_RunArgs; exact He].
  destruct (lookup name F) as [df|] eqn:El;
    [|right; do 3 eexists; eapply CoreAllErr.F_RunUnknown; eassumption].
  destruct (Nat.eq_dec (length (d_params df)) (length vals)) as [Hlen|Hlen];
    [|right; do 3 eexists; eapply CoreAllErr.F_RunArity; eassumption].
  destruct d as [|d']; [right; do 3 eexists; eapply CoreAllErr.F_RunOverflow; eassumption|].
  assert (Hbody : good_list fo (d_body df)).
  { exact (good_tab_lookup_of fo F HF name df El). }
  destruct (HT (d_body df) Hbody (pile ++ [mkSF cf (run_head name args) n true]) (d_file df) (d_line df + 1)%Z
               F None (bind_params fo (d_params df) vals vs) HF)
    as [(sg & F1 & f1 & vs1 & out & ev & Hl & _)|(er & ch & ev & Hf)];
    [|right; do 3 eexists; eapply CoreAllErr.F_RunBody; eassumption].
  destruct sg.
  - left. exists Normal, F, f, (copy_back fo vs vs1), out, ev. split; [|exact HF].
    eapply CoreAll.E_Run; try eassumption. left. reflexivity.
  - right. do 3 eexists. eapply CoreAllErr.F_RunEscape; try eassumption. left. reflexivity.
  - right. do 3 eexists. eapply CoreAllErr.F_RunEscape; try eassumption. right. reflexivity.
  - left. exists Normal, F, f, (copy_back fo vs vs1), out, ev. split; [|exact HF].
    eapply CoreAll.E_Run; try eassumption. right. reflexivity.
Qed.

Lemma ustart_total : forall d, Tprev d -> forall pile cf n F f vs k name,
  good_tab fo F -> outcome_stmt d pile cf n F f vs (UStart k name).
Proof.
  intros d HT pile cf n F f vs k name HF.
  destruct (lookup name prog) as [stmts|] eqn:El;
    [|right; do 3 eexists; apply CoreAllErr.F_StartMissing; exact El].
  destruct (in_dec (list_eq_dec N.eq_dec) name (live_files pile cf)) as [Hin|Hnin];
    [right; do 3 eexists; eapply CoreAllErr.F_StartCircular; eassumption|].
  destruct d as [|d']; [right; do 3 eexists; eapply CoreAllErr.F_StartOverflow; eassumption|].
  destruct (HT stmts (Hprog name stmts El) (pile ++ [mkSF cf (start_head k name) n true]) name 1%Z F None vs HF)
    as [(sg & F1 & f1 & vs1 & out & ev & Hl & HF1)|(er & ch & ev & Hf)];
    [|right; do 3 eexists; eapply CoreAllErr.F_StartBody; eassumption].
  left. do 6 eexists. split; [eapply CoreAll.E_Start; eassumption|].
  destruct k; try exact HF; apply good_overlay_defs; assumption.
Qed.

(* one statement *)
Lemma ustmt_total : forall d, Tprev d -> forall s, unames_ok s -> utame fo s ->
  forall pile cf n F f vs, good_tab fo F -> outcome_stmt d pile cf n F f vs s.
Proof.
  intros d HT s Hn Ht pile cf n F f vs HF.
  destruct s as [name text|name e|x e|arms els|c e b|c e b| | |name ps b|name args| |text|e|text|w args|k name].
  - left. do 6 eexists. split; [apply CoreAll.E_Emit|exact HF].
  - destruct Ht as [Hte Hpr]. destruct (Hte (visible fo sys f vs)) as [[v Hv]|[er He]].
    + destruct (Hpr _ _ Hv) as [t Hpt]. left. do 6 eexists. split; [eapply CoreAll.E_EmitEval; eassumption|exact HF].
    + right. do 3 eexists. apply CoreAllErr.F_EmitEval. exact He.
  - cbn [utame] in Ht. destruct (Ht (visible fo sys f vs)) as [[v Hv]|[er He]].
    + left. do 6 eexists. split; [apply CoreAll.E_Var; exact Hv|exact HF].
    + right. do 3 eexists. apply CoreAllErr.F_VarExpr. exact He.
  - cbn [unames_ok] in Hn. cbn [utame] in Ht. destruct Hn as [Hna Hne]. destruct Ht as [Hta Hte].
    assert (Hels : match els with Some b0 => good_list fo b0 | None => True end).
    { destruct els as [b0|]; [split; assumption|exact I]. }
    destruct (uarms_total d HT els Hels arms Hna Hta pile cf F HF true
                (match f with Some b => b | None => false end) vs n)
      as [(sg & taken & vs' & out & ev & Ha)|(er & ch & ev & Hf)].
    + left. exists sg, F, (Some taken), vs', out, ev. split; [apply CoreAll.E_If; exact Ha|exact HF].
    + right. exists er, ch, ev. apply CoreAllErr.F_If. exact Hf.
  - cbn [unames_ok] in Hn. destruct Ht as [Hte Htb].
    destruct (urepeat_total d HT pile cf n F f c e b HF (conj Hn Htb) Hte _ 0%Z vs (ufuel_enough 0 ltac:(lia)))
      as [(sg & vs' & out & ev & Hr)|(er & ch & ev & Hf)].
    + left. exists sg, F, f, vs', out, ev. split; [apply CoreAll.E_Repeat; exact Hr|exact HF].
    + right. exists er, ch, ev. apply CoreAllErr.F_Repeat. exact Hf.
  - cbn [unames_ok] in Hn. destruct Ht as [Hte Htb].
    destruct (uwhile_total d HT pile cf n F c e b HF (conj Hn Htb) Hte _ 0%Z vs (ufuel_enough 0 ltac:(lia)))
      as [(sg & vs' & out & ev & Hr)|(er & ch & ev & Hf)].
    + left. exists sg, F, f, vs', out, ev. split; [apply CoreAll.E_While; exact Hr|exact HF].
    + right. exists er, ch, ev. apply CoreAllErr.F_While. exact Hf.
  - left. do 6 eexists. split; [apply CoreAll.E_Break|exact HF].
  - left. do 6 eexists. split; [apply CoreAll.E_Continue|exact HF].
  - cbn [unames_ok] in Hn. cbn [utame] in Ht.
    left. do 6 eexists. split; [apply CoreAll.E_Func|]. apply good_set_def; [|exact HF].
    cbn [d_body]. split; assumption.
  - cbn [utame] in Ht. apply urun_total; assumption.
  - left. do 6 eexists. split; [apply CoreAll.E_Return|exact HF].
  - left. do 6 eexists. split; [apply CoreAll.E_Print|exact HF].
  - destruct Ht as [Hte Hpr]. destruct (Hte (visible fo sys f vs)) as [[v Hv]|[er He]].
    + destruct (Hpr _ _ Hv) as [t Hpt]. left. do 6 eexists. split; [eapply CoreAll.E_PrintEval; eassumption|exact HF].
    + right. do 3 eexists. apply CoreAllErr.F_PrintEval. exact He.
  - left. do 6 eexists. split; [apply CoreAll.E_Rem|exact HF].
  - left. do 6 eexists. split; [apply CoreAll.E_Unknown|exact HF].
  - apply ustart_total; assumption.
Qed.

(* THE STEP: totality in the stacks entered from the room d gives totality with the room d *)
Lemma ulist_step : forall d, Tprev d -> T d.
Proof.
  intros d HT. unfold T. induction p as [|s r IH]; intros Hg pile cf n F f vs HF.
  - left. exists Normal, F, f, vs, [], []. split; [apply CoreAll.L_Nil|exact HF].
  - destruct Hg as [[Hns Hnr] [Hts Htr]].
    destruct (ustmt_total d HT s Hns Hts pile cf n F f vs HF)
      as [(sg & F1 & f1 & vs1 & o1 & e1 & He & HF1)|(er & ch & ev & Hf)];
      [|right; exists er, ch, ev; apply CoreAllErr.FL_Here; exact Hf].
    destruct sg.
    + destruct (IH (conj Hnr Htr) pile cf (n + usize s)%Z F1 f1 vs1 HF1)
        as [(sg2 & F2 & f2 & vs2 & o2 & e2 & Hl & HF2)|(er & ch & e2 & Hf)].
      * left. exists sg2, F2, f2, vs2, (o1 ++ o2), (e1 ++ e2). split; [eapply CoreAll.L_Cons; eassumption|exact HF2].
      * right. exists er, ch, (e1 ++ e2). eapply CoreAllErr.FL_Later; eassumption.
    + left. exists Broke, F1, f1, vs1, o1, e1. split; [eapply CoreAll.L_Stop; [exact He|discriminate]|exact HF1].
    + left. exists Continued, F1, f1, vs1, o1, e1. split; [eapply CoreAll.L_Stop; [exact He|discriminate]|exact HF1].
    + left. exists Returned, F1, f1, vs1, o1, e1. split; [eapply CoreAll.L_Stop; [exact He|discriminate]|exact HF1].
Qed.

Lemma uT_all : forall d, T d.
Proof.
  induction d as [|d IH]; apply ulist_step; [exact I|exact IH].
Qed.

(* TOTALITY: every program either succeeds within the room d or fails (possibly with
   EStackOverflow); nothing else *)
Theorem uall_total : forall d p, good_list fo p -> forall pile cf n F f vs, good_tab fo F ->
  (exists sg F' f' vs' out ev,
     CoreAll.exec_list fo sys prog inc sup d pile cf n F f vs p sg F' f' vs' out ev /\ good_tab fo F') \/
  (exists er ch ev, CoreAllErr.fails_list fo sys prog inc sup d pile cf n F f vs p er ch ev).
Proof. intros d p Hg pile cf n F f vs HF. exact (uT_all d p Hg pile cf n F f vs HF). Qed.

(* the same for one statement *)
Theorem uall_total_stmt : forall d s, unames_ok s -> utame fo s -> forall pile cf n F f vs, good_tab fo F ->
  (exists sg F' f' vs' out ev,
     CoreAll.exec fo sys prog inc sup d pile cf n F f vs s sg F' f' vs' out ev /\ good_tab fo F') \/
  (exists er ch ev, CoreAllErr.fails fo sys prog inc sup d pile cf n F f vs s er ch ev).
Proof.
  intros d s Hn Ht pile cf n F f vs HF. apply ustmt_total; try assumption.
  destruct d as [|d']; [exact I|exact (uT_all d')].
Qed.

(* with the lookup form of the invariant, for the tables in which no name stands twice *)
Theorem uall_total_lookup_nodup : forall d p, good_list fo p -> forall pile cf n F f vs,
  good_tab_lookup fo F -> NoDup (map fst F) ->
  (exists sg F' f' vs' out ev,
     CoreAll.exec_list fo sys prog inc sup d pile cf n F f vs p sg F' f' vs' out ev /\ good_tab_lookup fo F') \/
  (exists er ch ev, CoreAllErr.fails_list fo sys prog inc sup d pile cf n F f vs p er ch ev).
Proof.
  intros d p Hg pile cf n F f vs HF Hnd.
  destruct (uall_total d p Hg pile cf n F f vs (good_tab_of_lookup_nodup fo F Hnd HF))
    as [(sg & F' & f' & vs' & out & ev & Hl & HF')|Hf]; [left|right; exact Hf].
  exists sg, F', f', vs', out, ev. split; [exact Hl|apply good_tab_lookup_of; exact HF'].
Qed.

End Total.

(* whole programs: compiling the file [entry] of a good program with room d either succeeds or fails *)
Theorem uprogram_total : forall fo prog inc sup entry d stmts,
  good_prog fo prog -> lookup entry prog = Some stmts ->
  (exists sg F' f' vs' out ev, uruns fo prog inc sup entry d sg F' f' vs' out ev) \/
  (exists er ch ev, ufails fo prog inc sup entry d er ch ev).
Proof.
  intros fo prog inc sup entry d stmts Hprog El.
  destruct (uall_total fo (initial_sys fo) prog inc sup Hprog d stmts (Hprog entry stmts El) [] entry 1%Z [] None []
              (good_tab_nil fo))
    as [(sg & F' & f' & vs' & out & ev & Hl & _)|(er & ch & ev & Hf)].
  - left. exists sg, F', f', vs', out, (ev ++ stray sg). exists stmts, ev.
    split; [exact El|]. split; [exact Hl|reflexivity].
  - right. exists er, ch, ev. exists stmts. split; [exact El|exact Hf].
Qed.

(* ================================================================== the lookup form is not enough *)
(* the counterexample of the header, for any expression e on which the evaluator answers Unmodelled *)
Section Counter.
Variable fo : FloatOps.
Variable sys : store fo.
Variable inc sup : bool.
Variable e : str.
Hypothesis Hunmod : forall vars, tokenize fo vars e = Unmodelled.

Definition cx_lib : str := [108%N].
Definition cx_main : str := [109%N].
Definition cx_x : str := [120%N].
Definition cx_y : str := [121%N].
Definition cx_prog : program := [(cx_lib, [])].
Definition cx_F : utable := [(cx_x, mkDef [] [] cx_main 0); (cx_x, mkDef [] [UVar cx_y e] cx_main 0)].
Definition cx_p : list ustmt := [UStart KStart cx_lib; URun cx_x []].

Lemma cx_good_prog : good_prog fo cx_prog.
Proof.
  intros m stmts H. unfold cx_prog in H. cbn [lookup] in H. destruct (str_eqb m cx_lib); [|discriminate H].
  injection H as <-. split; exact I.
Qed.

Lemma cx_good_p : good_list fo cx_p.
Proof. unfold cx_p. split; cbn; repeat split; try exact I. left. reflexivity. Qed.

Lemma cx_good_F : good_tab_lookup fo cx_F.
Proof.
  intros x df H. unfold cx_F in H. cbn [lookup] in H. destruct (str_eqb x cx_x).
  - injection H as <-. split; exact I.
  - discriminate H.
Qed.

Lemma cx_no_eval : forall f vs v, ~ eval fo sys f vs e v.
Proof. intros f vs v H. unfold eval in H. rewrite Hunmod in H. discriminate H. Qed.
Lemma cx_no_eval_err : forall f vs er, ~ eval_err fo sys f vs e er.
Proof. intros f vs er H. unfold eval_err in H. rewrite Hunmod in H. discriminate H. Qed.

Lemma cx_bad_no_exec : forall d pile cf n F f vs sg F' f' vs' out ev,
  ~ CoreAll.exec_list fo sys cx_prog inc sup d pile cf n F f vs [UVar cx_y e] sg F' f' vs' out ev.
Proof.
  intros d pile cf n F f vs sg F' f' vs' out ev H.
  inversion H as [|? ? ? ? ? ? ? ? ? ? ? ? ? ? ? ? ? ? ? ? Hs|? ? ? ? ? ? ? ? ? ? ? ? ? ? ? Hs]; subst;
    inversion Hs; subst; eapply cx_no_eval; eassumption.
Qed.

Lemma cx_bad_no_fails : forall d pile cf n F f vs er ch ev,
  ~ CoreAllErr.fails_list fo sys cx_prog inc sup d pile cf n F f vs [UVar cx_y e] er ch ev.
Proof.
  intros d pile cf n F f vs er ch ev H.
  inversion H as [? ? ? ? ? ? ? ? ? ? ? ? Hs|? ? ? ? ? ? ? ? ? ? ? ? ? ? ? ? ? Hs]; subst; inversion Hs; subst.
  - eapply cx_no_eval_err; eassumption.
  - eapply cx_no_eval; eassumption.
  - eapply cx_no_eval; eassumption.
Qed.


Definition cx_F2 : utable := [(cx_x, mkDef [] [UVar cx_y e] cx_main 0); (cx_x, mkDef [] [UVar cx_y e] cx_main 0)].
Lemma cx_overlay : overlay_defs cx_F cx_F = cx_F2.
Proof. reflexivity. Qed.

Lemma cx_lookup_F2 : forall df, lookup cx_x cx_F2 = Some df -> df = mkDef [] [UVar cx_y e] cx_main 0.
Proof. intros df H. cbn in H. injection H as <-. reflexivity. Qed.

Lemma cx_start_exec : forall d pile cf n f vs sg F1 f1 vs1 o1 e1,
  CoreAll.exec fo sys cx_prog inc sup d pile cf n cx_F f vs (UStart KStart cx_lib) sg F1 f1 vs1 o1 e1 ->
  sg = CoreFunc.Normal /\ F1 = cx_F2.
Proof.
  intros d pile cf n f vs sg F1 f1 vs1 o1 e1 H. inversion H as [| | | | | | | | | | | | | | |
     ? ? ? ? ? ? ? ? ? ? ? ? ? ? ? ? Hl Hnin Hb]; subst.
  cbn in Hl. injection Hl as <-. inversion Hb; subst. split; reflexivity.
Qed.

Ltac cx_df :=
  match goal with Hx : lookup _ _ = Some ?df |- _ => apply cx_lookup_F2 in Hx; subst df end.

Lemma cx_run_no_exec : forall d pile cf n f vs sg F1 f1 vs1 o1 e1,
  ~ CoreAll.exec fo sys cx_prog inc sup d pile cf n cx_F2 f vs (URun cx_x []) sg F1 f1 vs1 o1 e1.
Proof.
  intros d pile cf n f vs sg F1 f1 vs1 o1 e1 H. inversion H; subst. cx_df.
  match goal with Hb : CoreAll.exec_list _ _ _ _ _ _ _ _ _ _ _ _ _ _ _ _ _ _ _ |- _ =>
    cbn [d_body] in Hb; eapply cx_bad_no_exec; exact Hb end.
Qed.

Lemma cx_run_no_fails : forall d pile cf n f vs er ch ev,
  ~ CoreAllErr.fails fo sys cx_prog inc sup (S d) pile cf n cx_F2 f vs (URun cx_x []) er ch ev.
Proof.
  intros d pile cf n f vs er ch ev H. inversion H; subst.
  - match goal with Hx : run_args_err _ _ _ _ _ _ |- _ => destruct Hx as [Hx _]; apply Hx; reflexivity end.
  - match goal with Hx : lookup _ _ = None |- _ => cbn in Hx; discriminate Hx end.
  - cx_df.
    match goal with Hx : run_args _ _ _ _ _ ?vals |- _ => cbn in Hx; subst vals end.
    match goal with Hx : _ <> _ |- _ => apply Hx; reflexivity end.
  - cx_df.
    match goal with Hb : CoreAllErr.fails_list _ _ _ _ _ _ _ _ _ _ _ _ _ _ _ _ |- _ =>
      cbn [d_body] in Hb; eapply cx_bad_no_fails; exact Hb end.
  - cx_df.
    match goal with Hb : CoreAll.exec_list _ _ _ _ _ _ _ _ _ _ _ _ _ _ _ _ _ _ _ |- _ =>
      cbn [d_body] in Hb; eapply cx_bad_no_exec; exact Hb end.
Qed.

(* the planned statement, with the lookup form of the invariant, fails at d = 1 *)
Theorem cx_neither :
  ~ ((exists sg F' f' vs' out ev,
        CoreAll.exec_list fo sys cx_prog inc sup 1 [] cx_main 1 cx_F None [] cx_p sg F' f' vs' out ev) \/
     (exists er ch ev, CoreAllErr.fails_list fo sys cx_prog inc sup 1 [] cx_main 1 cx_F None [] cx_p er ch ev)).
Proof.
  unfold cx_p. intros [(sg & F' & f' & vs' & out & ev & H)|(er & ch & ev & H)].
  - inversion H; subst.
    + match goal with Hs : CoreAll.exec _ _ _ _ _ _ _ _ _ _ _ _ (UStart _ _) _ _ _ _ _ _ |- _ =>
        destruct (cx_start_exec _ _ _ _ _ _ _ _ _ _ _ _ Hs) as [_ ->] end.
      match goal with Hr : CoreAll.exec_list _ _ _ _ _ _ _ _ _ _ _ _ [URun _ _] _ _ _ _ _ _ |- _ =>
        inversion Hr; subst end;
      match goal with Hs : CoreAll.exec _ _ _ _ _ _ _ _ _ _ _ _ (URun _ _) _ _ _ _ _ _ |- _ =>
        exact (cx_run_no_exec _ _ _ _ _ _ _ _ _ _ _ _ Hs) end.
    + match goal with Hs : CoreAll.exec _ _ _ _ _ _ _ _ _ _ _ _ (UStart _ _) _ _ _ _ _ _ |- _ =>
        destruct (cx_start_exec _ _ _ _ _ _ _ _ _ _ _ _ Hs) as [Hsg _] end. contradiction.
  - inversion H; subst.
    + match goal with Hs : CoreAllErr.fails _ _ _ _ _ _ _ _ _ _ _ _ (UStart _ _) _ _ _ |- _ =>
        inversion Hs; subst end.
      * match goal with Hx : lookup _ _ = None |- _ => cbn in Hx; discriminate Hx end.
      * match goal with Hx : In _ _ |- _ => cbn in Hx; destruct Hx as [Hx|[]]; discriminate Hx end.
      * match goal with Hx : lookup _ _ = Some _ |- _ => cbn in Hx; injection Hx as <- end.
        match goal with Hb : CoreAllErr.fails_list _ _ _ _ _ _ _ _ _ _ _ _ [] _ _ _ |- _ => inversion Hb end.
    + match goal with Hs : CoreAll.exec _ _ _ _ _ _ _ _ _ _ _ _ (UStart _ _) _ _ _ _ _ _ |- _ =>
        destruct (cx_start_exec _ _ _ _ _ _ _ _ _ _ _ _ Hs) as [_ ->] end.
      match goal with Hr : CoreAllErr.fails_list _ _ _ _ _ _ _ _ _ _ _ _ [URun _ _] _ _ _ |- _ =>
        inversion Hr; subst end.
      * match goal with Hs : CoreAllErr.fails _ _ _ _ _ _ _ _ _ _ _ _ (URun _ _) _ _ _ |- _ =>
          exact (cx_run_no_fails 0 _ _ _ _ _ _ _ _ Hs) end.
      * match goal with Hs : CoreAll.exec _ _ _ _ _ _ _ _ _ _ _ _ (URun _ _) _ _ _ _ _ _ |- _ =>
          exact (cx_run_no_exec _ _ _ _ _ _ _ _ _ _ _ _ Hs) end.
Qed.

End Counter.

Theorem uall_total_lookup_form_false : forall fo sys inc sup e,
  (forall vars, tokenize fo vars e = Unmodelled) ->
  exists prog F p pile cf n f vs d,
    good_prog fo prog /\ good_list fo p /\ good_tab_lookup fo F /\
    ~ ((exists sg F' f' vs' out ev,
          CoreAll.exec_list fo sys prog inc sup d pile cf n F f vs p sg F' f' vs' out ev) \/
       (exists er ch ev, CoreAllErr.fails_list fo sys prog inc sup d pile cf n F f vs p er ch ev)).
Proof.
  intros fo sys inc sup e He.
  exists cx_prog, (cx_F e), cx_p, [], cx_main, 1%Z, None, [], 1.
  split; [apply cx_good_prog|]. split; [apply cx_good_p|]. split; [apply cx_good_F|].
  apply cx_neither. exact He.
Qed.

Print Assumptions uprogram_total.
Print Assumptions uall_total.
