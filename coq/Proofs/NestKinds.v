(* C14 (extension) -- the depth limit is exact for chains of nested IF TRUE / REPEAT 1 / WHILE TRUE
   in any mix, and chains that follow one another consume no depth: a sequence of chains compiles
   iff EACH chain is shallower than the limit (the depth reached is the maximum, not the sum). *)
From Coq Require Import NArith ZArith List Bool Lia ZifyBool.
From DS Require Import Base PyStr Values Expr TabParse Tables Constants Interp LimitSpec NestSpec.
From DS Require Import CrashKinds LimitProofs UnknownWarn.
Import ListNotations.
Arguments IOk {A}. Arguments IErr {A}. Arguments ICrash {A}. Arguments IUnmod {A}.

Lemma loop_fuel_SS : exists f, loop_fuel = S (S f).
Proof.
  pose proof loop_fuel_value as H. destruct loop_fuel as [|[|f]]; try (cbn in H; lia). exists f. reflexivity.
Qed.

Lemma knest_head : forall ks n, exists c m rest, knest n ks = Ln c m :: rest.
Proof. intros [|k r] n; cbn [knest]; do 3 eexists; reflexivity. Qed.

Lemma knest_nonempty : forall ks n, knest n ks <> [].
Proof. intros ks n. destruct (knest_head ks n) as (c & m & rest & ->). discriminate. Qed.

Lemma kseq_cons : forall n ks kss, kseq n (ks :: kss) = knest n ks ++ kseq n kss.
Proof. reflexivity. Qed.

Lemma kseq_head : forall kss n, kseq n kss = [] \/ exists c m rest, kseq n kss = Ln c m :: rest.
Proof.
  intros [|ks kss] n; [left; reflexivity|right]. rewrite kseq_cons.
  destruct (knest_head ks n) as (c & m & rest & ->). do 3 eexists. reflexivity.
Qed.

Section Nest.
Variable fo : FloatOps.
Notation initial_env := (initial_env fo).
Notation env_if := (env_if fo).

(* the environments a stack of these programs can be in between two chains *)
Definition start_ok (e : env fo) : Prop := e = initial_env \/ e = env_if.
Definition good (e : env fo) : Prop := e_sys fo e = [(default_delay_var, VInt 0)].

Lemma start_ok_good : forall e, start_ok e -> good e.
Proof. intros e [-> | ->]; reflexivity. Qed.

Lemma update_good : forall e0 e', start_ok e0 -> good e' -> update_from_env fo e0 e' = e0.
Proof.
  intros e0 e' H0 H. unfold good in H. unfold update_from_env. rewrite H.
  destruct H0 as [-> | ->]; cbn; reflexivity.
Qed.

Lemma entry_env : forall e0, start_ok e0 -> append_env fo (empty_env fo) e0 = initial_env.
Proof. intros e0 [-> | ->]; reflexivity. Qed.

(* ------------------------------------------------------------------ one stack: generalities *)
Definition fin (x : st fo * ires cret) : glob * ires (cret * env fo) :=
  match x with
  | (s, IOk cr) => (s_g fo s, IOk (cr, s_env fo s))
  | (s, IErr er t) => (s_g fo s, IErr er t)
  | (s, ICrash k) => (s_g fo s, ICrash k)
  | (s, IUnmod) => (s_g fo s, IUnmod)
  end.

Definition prepend (acc : list oline) (x : glob * ires (cret * env fo)) : glob * ires (cret * env fo) :=
  match x with
  | (g, IOk (cr, e)) => (g, IOk (mkCret (acc ++ cr_data cr) (cr_sig cr), e))
  | other => other
  end.

Lemma prepend_prepend : forall a b x, prepend a (prepend b x) = prepend (a ++ b) x.
Proof.
  intros a b [g [[cr e]|er t|k|]]; try reflexivity. cbn [prepend cr_data cr_sig]. rewrite app_assoc. reflexivity.
Qed.

Lemma prepend_nil : forall x, prepend [] x = x.
Proof. intros [g [[[dat sg] e]|er t|k|]]; reflexivity. Qed.

Section Step.
Variable child : runner fo.
Variable cx : ctx.

Lemma run_with_fin : forall g e cmds,
  run_with fo child cx g e cmds = fin (exec_cmds fo child cx cmds [] (mkSt fo g e None)).
Proof. intros. unfold run_with, fin. destruct (exec_cmds _ _ _ _ _ _) as [s [cr|er t|k|]]; reflexivity. Qed.

(* a stack neither looks at the accumulated output nor at the second line of the previous command *)
Lemma fin_exec_cmds : forall cmds acc s,
  fin (exec_cmds fo child cx cmds acc s) = prepend acc (run_with fo child cx (s_g fo s) (s_env fo s) cmds).
Proof.
  intros cmds. induction cmds as [|[c n|b] rest IH]; intros acc s.
  - rewrite run_with_fin. cbn. rewrite app_nil_r. reflexivity.
  - rewrite run_with_fin. cbn [exec_cmds]. destruct (is_blank c).
    + rewrite IH. rewrite <- run_with_fin. reflexivity.
    + unfold bindM at 1 3. unfold set_line2. cbn [s_g s_env].
      unfold bindM.
      destruct (exec_line _ _ _ _ _ _ _) as [s1 [cr|er t|k|]]; try reflexivity.
      destruct (cr_sig cr) eqn:Es.
      * rewrite IH. rewrite (IH ([] ++ cr_data cr) s1). rewrite prepend_prepend. reflexivity.
      * cbn. reflexivity.
      * cbn. reflexivity.
      * cbn. reflexivity.
  - rewrite run_with_fin. cbn [exec_cmds]. rewrite IH, <- run_with_fin. reflexivity.
Qed.

(* blocks that follow one another: the second runs in the SAME stack (same cx, same child), from
   the state the first left *)
Lemma run_with_app_ok : forall g e pre c n rest g1 out e1,
  run_with fo child cx g e pre = (g1, IOk (mkCret out SNormal, e1)) ->
  run_with fo child cx g e (pre ++ Ln c n :: rest) = prepend out (run_with fo child cx g1 e1 (Ln c n :: rest)).
Proof.
  intros g e pre c n rest g1 out e1 H. rewrite run_with_fin in H. rewrite run_with_fin, exec_cmds_app.
  destruct (exec_cmds fo child cx pre [] _) as [s1 [cr|er t|k|]]; try discriminate H.
  cbn [fin] in H. injection H as Hg Hcr He. subst g1 cr e1. cbn [continue_with cr_sig cr_data].
  apply fin_exec_cmds.
Qed.

Lemma run_with_app_err : forall g e pre c n rest g1 er t,
  run_with fo child cx g e pre = (g1, IErr er t) ->
  run_with fo child cx g e (pre ++ Ln c n :: rest) = (g1, IErr er t).
Proof.
  intros g e pre c n rest g1 er t H. rewrite run_with_fin in H. rewrite run_with_fin, exec_cmds_app.
  destruct (exec_cmds fo child cx pre [] _) as [s1 [cr|er' t'|k|]]; try discriminate H.
  cbn [continue_with]. exact H.
Qed.

Lemma run_with_break : forall m g e,
  run_with fo child cx g e [Ln s_BREAKLOOP m] = (g, IOk (mkCret [] SBreak, e)).
Proof. intros. unfold run_with. cbn. reflexivity. Qed.

Lemma run_with_then_break : forall g e b m g1 out e1,
  run_with fo child cx g e b = (g1, IOk (mkCret out SNormal, e1)) ->
  run_with fo child cx g e (b ++ [Ln s_BREAKLOOP m]) = (g1, IOk (mkCret out SBreak, e1)).
Proof.
  intros g e b m g1 out e1 H. rewrite (run_with_app_ok _ _ _ _ _ _ _ _ _ H), run_with_break.
  cbn. rewrite app_nil_r. reflexivity.
Qed.

Lemma run_with_string_any : forall n g e0, start_ok e0 ->
  run_with fo child cx g e0 [Ln s_STRING_x n] =
  (g, IOk (mkCret [mkO (ByCommand s_String) s_STRING_x] SNormal, e0)).
Proof. intros n g e0 [-> | ->]; unfold run_with; cbn; reflexivity. Qed.

(* ------------------------------------------------------------------ (c) the limit test *)
Definition limit_test : bool := cmp_eval stack_limit_op (pile_len cx) (stack_limit (c_opts cx)).

Definition cx_in (cur : preline) (l2 : option preline) (file : option path) : ctx :=
  mkCtx (c_opts cx) (c_fs cx) (here cx cur l2) file.

(* the test is the first thing every push does, whichever line pushes and whatever is pushed *)
Lemma run_child_with_refused : forall cur code file par setup pre s, limit_test = true ->
  run_child_with fo child cx cur code file par setup pre s =
  (s, IErr EStackOverflow (Some (here cx cur (s_line2 fo s)))).
Proof. intros cur code file par setup pre s H. unfold run_child_with. fold limit_test. rewrite H. reflexivity. Qed.

(* ------------------------------------------------------------------ REPEAT 1 *)
Lemma run_with_repeat_unfold : forall n b g e0, b <> [] ->
  run_with fo child cx g e0 [Ln s_REPEAT_1 n; Blk b] =
  fin (repeat_loop fo child cx (s_REPEAT_1, n) loop_fuel None [49]%N b 0 (mkCret [] SNormal) (mkSt fo g e0 None)).
Proof.
  intros n b g e0 Hb. destruct b as [|x r]; [contradiction|]. unfold run_with.
  cbn -[repeat_loop loop_fuel]. unfold block_compile. cbn -[repeat_loop loop_fuel].
  unfold bindM, ret.
  destruct (repeat_loop _ _ _ _ _ _ _ _ _ _ _) as [s [cr|e t|k|]]; try reflexivity.
  cbn. destruct cr as [dat sg]. destruct sg; reflexivity.
Qed.

Lemma tok_1 : forall e0, start_ok e0 -> tokenize fo (all_vars fo e0) [49]%N = Ok (VInt 1).
Proof. intros e0 [-> | ->]; vm_compute; reflexivity. Qed.

Lemma tokenize_count_1 : forall cur g e0 l2, start_ok e0 ->
  tokenize_count fo cx cur [49]%N (mkSt fo g e0 l2) = (mkSt fo g e0 l2, IOk 1%Z).
Proof.
  intros cur g e0 l2 He. unfold tokenize_count, tokenizeM, bindM, get_env. cbn [s_env].
  rewrite (tok_1 e0 He). reflexivity.
Qed.

Lemma repeat_ok : forall n b g e0 out e', b <> [] -> start_ok e0 -> limit_test = false ->
  child (cx_in (s_REPEAT_1, n) None (c_file cx)) g initial_env b = (g, IOk (mkCret out SNormal, e')) -> good e' ->
  run_with fo child cx g e0 [Ln s_REPEAT_1 n; Blk b] = (g, IOk (mkCret out SNormal, e0)).
Proof.
  intros n b g e0 out e' Hb He0 Hlim Hc Hg. rewrite run_with_repeat_unfold by exact Hb.
  destruct loop_fuel_SS as [f ->]. cbn [repeat_loop].
  unfold bindM at 1. rewrite tokenize_count_1 by exact He0. cbn [Z.ltb Z.compare].
  unfold bindM at 1. unfold run_child, bindM at 1. unfold run_child_with. fold limit_test. rewrite Hlim.
  cbn [s_env s_line2 s_g bind_counter]. rewrite (entry_env e0 He0).
  unfold cx_in in Hc. rewrite Hc. rewrite (update_good e0 e' He0 Hg).
  cbn [ret cr_sig loop_signal cr_data app].
  unfold bindM at 1. rewrite tokenize_count_1 by exact He0. cbn. reflexivity.
Qed.

Lemma repeat_err : forall n b g e0 g' er t, b <> [] -> start_ok e0 -> limit_test = false ->
  child (cx_in (s_REPEAT_1, n) None (c_file cx)) g initial_env b = (g', IErr er t) ->
  run_with fo child cx g e0 [Ln s_REPEAT_1 n; Blk b] = (g', IErr er t).
Proof.
  intros n b g e0 g' er t Hb He0 Hlim Hc. rewrite run_with_repeat_unfold by exact Hb.
  destruct loop_fuel_SS as [f ->]. cbn [repeat_loop].
  unfold bindM at 1. rewrite tokenize_count_1 by exact He0. cbn [Z.ltb Z.compare].
  unfold bindM at 1. unfold run_child, bindM at 1. unfold run_child_with. fold limit_test. rewrite Hlim.
  cbn [s_env s_line2 s_g bind_counter]. rewrite (entry_env e0 He0).
  unfold cx_in in Hc. rewrite Hc. reflexivity.
Qed.

Lemma repeat_overflow : forall n b g e0, b <> [] -> start_ok e0 -> limit_test = true ->
  run_with fo child cx g e0 [Ln s_REPEAT_1 n; Blk b] =
  (g, IErr EStackOverflow (Some (here cx (s_REPEAT_1, n) None))).
Proof.
  intros n b g e0 Hb He0 Hlim. rewrite run_with_repeat_unfold by exact Hb.
  destruct loop_fuel_SS as [f ->]. cbn [repeat_loop].
  unfold bindM at 1. rewrite tokenize_count_1 by exact He0. cbn [Z.ltb Z.compare].
  unfold bindM at 1. unfold run_child, bindM at 1. rewrite run_child_with_refused by exact Hlim. reflexivity.
Qed.

(* ------------------------------------------------------------------ WHILE TRUE ... BREAKLOOP *)
Lemma run_with_while_unfold : forall n b g e0, b <> [] ->
  run_with fo child cx g e0 [Ln s_WHILE_TRUE n; Blk b] =
  fin (while_loop fo child cx (s_WHILE_TRUE, n) loop_fuel None [84;82;85;69]%N b 0 (mkCret [] SNormal) (mkSt fo g e0 None)).
Proof.
  intros n b g e0 Hb. destruct b as [|x r]; [contradiction|]. unfold run_with.
  cbn -[while_loop loop_fuel]. unfold block_compile. cbn -[while_loop loop_fuel].
  unfold bindM, ret.
  destruct (while_loop _ _ _ _ _ _ _ _ _ _ _) as [s [cr|e t|k|]]; try reflexivity.
  cbn. destruct cr as [dat sg]. destruct sg; reflexivity.
Qed.

Lemma tok_TRUE0 : tokenize fo (all_vars fo initial_env) [84;82;85;69]%N = Ok (VBool true).
Proof. vm_compute. reflexivity. Qed.

Lemma while_ok : forall n b g e0 out e', b <> [] -> start_ok e0 -> limit_test = false ->
  child (cx_in (s_WHILE_TRUE, n) None (c_file cx)) g initial_env b = (g, IOk (mkCret out SBreak, e')) -> good e' ->
  run_with fo child cx g e0 [Ln s_WHILE_TRUE n; Blk b] = (g, IOk (mkCret out SNormal, e0)).
Proof.
  intros n b g e0 out e' Hb He0 Hlim Hc Hg. rewrite run_with_while_unfold by exact Hb.
  destruct loop_fuel_SS as [f ->]. cbn [while_loop].
  change (cmp_eval while_limit_op 0 while_limit) with false. cbn iota.
  unfold bindM at 1. unfold run_child_with. fold limit_test. rewrite Hlim.
  cbn [s_env s_line2 s_g bind_counter]. rewrite (entry_env e0 He0). rewrite tok_TRUE0.
  cbn [Values.bind truthy]. unfold cx_in in Hc. rewrite Hc. rewrite (update_good e0 e' He0 Hg).
  cbn. reflexivity.
Qed.

Lemma while_err : forall n b g e0 g' er t, b <> [] -> start_ok e0 -> limit_test = false ->
  child (cx_in (s_WHILE_TRUE, n) None (c_file cx)) g initial_env b = (g', IErr er t) ->
  run_with fo child cx g e0 [Ln s_WHILE_TRUE n; Blk b] = (g', IErr er t).
Proof.
  intros n b g e0 g' er t Hb He0 Hlim Hc. rewrite run_with_while_unfold by exact Hb.
  destruct loop_fuel_SS as [f ->]. cbn [while_loop].
  change (cmp_eval while_limit_op 0 while_limit) with false. cbn iota.
  unfold bindM at 1. unfold run_child_with. fold limit_test. rewrite Hlim.
  cbn [s_env s_line2 s_g bind_counter]. rewrite (entry_env e0 He0). rewrite tok_TRUE0.
  cbn [Values.bind truthy]. unfold cx_in in Hc. rewrite Hc. reflexivity.
Qed.

Lemma while_overflow : forall n b g e0, b <> [] -> start_ok e0 -> limit_test = true ->
  run_with fo child cx g e0 [Ln s_WHILE_TRUE n; Blk b] =
  (g, IErr EStackOverflow (Some (here cx (s_WHILE_TRUE, n) None))).
Proof.
  intros n b g e0 Hb He0 Hlim. rewrite run_with_while_unfold by exact Hb.
  destruct loop_fuel_SS as [f ->]. cbn [while_loop].
  change (cmp_eval while_limit_op 0 while_limit) with false. cbn iota.
  unfold bindM at 1. rewrite run_child_with_refused by exact Hlim. reflexivity.
Qed.

End Step.
End Nest.

(* ------------------------------------------------------------------ IF TRUE, and the three kinds at once *)
Section Kinds.
Variable fo : FloatOps.
Notation initial_env := (initial_env fo).
Notation env_if := (env_if fo).
Notation start_ok := (start_ok fo).
Notation good := (good fo).

Lemma tok_TRUE_f : tokenize fo [(default_delay_var, VInt 0); (if_success, VBool false)] [84;82;85;69]%N = Ok (VBool true).
Proof. vm_compute. reflexivity. Qed.
Lemma tok_TRUE_t : tokenize fo [(default_delay_var, VInt 0); (if_success, VBool true)] [84;82;85;69]%N = Ok (VBool true).
Proof. vm_compute. reflexivity. Qed.

Lemma start_ok_if : start_ok env_if.
Proof. right. reflexivity. Qed.
Lemma start_ok_initial : start_ok initial_env.
Proof. left. reflexivity. Qed.

Section Step.
Variable child : runner fo.
Variable cx : ctx.
Notation limit_test := (limit_test cx).
Notation cx_in := (cx_in cx).

Lemma run_with_if_unfold : forall n b g e0, b <> [] -> start_ok e0 ->
  run_with fo child cx g e0 [Ln s_IF_TRUE n; Blk b] =
  fin fo (run_child fo child cx (s_IF_TRUE, n) b (c_file cx) false (fun e => Ok e) (mkSt fo g env_if None)).
Proof.
  intros n b g e0 Hb He0. destruct b as [|x r]; [contradiction|]. unfold run_with.
  destruct He0 as [-> | ->].
  - cbn -[run_child]. unfold block_compile.
    unfold bindM, ret, get_env, set_temp_flag, get_temp_flag, tokenizeM, lift, set_env.
    cbn -[run_child tokenize]. rewrite tok_TRUE_f. cbn -[run_child].
    destruct (run_child _ _ _ _ _ _ _ _ _) as [s [cr|e t|k|]]; try reflexivity.
    cbn. destruct cr as [dat sg]. destruct sg; reflexivity.
  - cbn -[run_child]. unfold block_compile.
    unfold bindM, ret, get_env, set_temp_flag, get_temp_flag, tokenizeM, lift, set_env.
    cbn -[run_child tokenize]. rewrite tok_TRUE_t. cbn -[run_child].
    destruct (run_child _ _ _ _ _ _ _ _ _) as [s [cr|e t|k|]]; try reflexivity.
    cbn. destruct cr as [dat sg]. destruct sg; reflexivity.
Qed.

Lemma if_ok : forall n b g e0 out e', b <> [] -> start_ok e0 -> limit_test = false ->
  child (cx_in (s_IF_TRUE, n) None (c_file cx)) g initial_env b = (g, IOk (mkCret out SNormal, e')) -> good e' ->
  run_with fo child cx g e0 [Ln s_IF_TRUE n; Blk b] = (g, IOk (mkCret out SNormal, env_if)).
Proof.
  intros n b g e0 out e' Hb He0 Hlim Hc Hg. rewrite run_with_if_unfold by assumption.
  unfold run_child, bindM at 1. unfold run_child_with. fold limit_test. rewrite Hlim.
  cbn [s_env s_line2 s_g]. rewrite (entry_env fo env_if start_ok_if).
  unfold NestKinds.cx_in in Hc. rewrite Hc. rewrite (update_good fo env_if e' start_ok_if Hg). reflexivity.
Qed.

Lemma if_err : forall n b g e0 g' er t, b <> [] -> start_ok e0 -> limit_test = false ->
  child (cx_in (s_IF_TRUE, n) None (c_file cx)) g initial_env b = (g', IErr er t) ->
  run_with fo child cx g e0 [Ln s_IF_TRUE n; Blk b] = (g', IErr er t).
Proof.
  intros n b g e0 g' er t Hb He0 Hlim Hc. rewrite run_with_if_unfold by assumption.
  unfold run_child, bindM at 1. unfold run_child_with. fold limit_test. rewrite Hlim.
  cbn [s_env s_line2 s_g]. rewrite (entry_env fo env_if start_ok_if).
  unfold NestKinds.cx_in in Hc. rewrite Hc. reflexivity.
Qed.

Lemma if_overflow : forall n b g e0, b <> [] -> start_ok e0 -> limit_test = true ->
  run_with fo child cx g e0 [Ln s_IF_TRUE n; Blk b] =
  (g, IErr EStackOverflow (Some (here cx (s_IF_TRUE, n) None))).
Proof.
  intros n b g e0 Hb He0 Hlim. rewrite run_with_if_unfold by assumption.
  unfold run_child, bindM at 1. rewrite run_child_with_refused by exact Hlim. reflexivity.
Qed.

(* ---- the three kinds *)
Definition inner_sig (k : kind) : signal := match k with KWhile => SBreak | _ => SNormal end.
Definition after1 (k : kind) (e0 : env fo) : env fo := match k with KIf => env_if | _ => e0 end.

Lemma start_ok_after1 : forall k e0, start_ok e0 -> start_ok (after1 k e0).
Proof. intros [| |] e0 H; cbn [after1]; [apply start_ok_if|exact H|exact H]. Qed.

Lemma kind_ok : forall k n b g e0 out e', b <> [] -> start_ok e0 -> limit_test = false ->
  child (cx_in (hdr k, n) None (c_file cx)) g initial_env b = (g, IOk (mkCret out (inner_sig k), e')) -> good e' ->
  run_with fo child cx g e0 [Ln (hdr k) n; Blk b] = (g, IOk (mkCret out SNormal, after1 k e0)).
Proof.
  intros [| |] n b g e0 out e'; cbn [hdr inner_sig after1]; [apply if_ok|apply repeat_ok|apply while_ok].
Qed.

Lemma kind_err : forall k n b g e0 g' er t, b <> [] -> start_ok e0 -> limit_test = false ->
  child (cx_in (hdr k, n) None (c_file cx)) g initial_env b = (g', IErr er t) ->
  run_with fo child cx g e0 [Ln (hdr k) n; Blk b] = (g', IErr er t).
Proof.
  intros [| |] n b g e0 g' er t; cbn [hdr]; [apply if_err|apply repeat_err|apply while_err].
Qed.

Lemma kind_overflow : forall k n b g e0, b <> [] -> start_ok e0 -> limit_test = true ->
  run_with fo child cx g e0 [Ln (hdr k) n; Blk b] =
  (g, IErr EStackOverflow (Some (here cx (hdr k, n) None))).
Proof.
  intros [| |] n b g e0; cbn [hdr]; [apply if_overflow|apply repeat_overflow|apply while_overflow].
Qed.

(* the block of a construct: the inner chain, then the construct's own last line *)
Lemma body_ok : forall k m g e b g1 out e1,
  run_with fo child cx g e b = (g1, IOk (mkCret out SNormal, e1)) ->
  run_with fo child cx g e (b ++ tail_of k m) = (g1, IOk (mkCret out (inner_sig k), e1)).
Proof.
  intros [| |] m g e b g1 out e1 H; cbn [tail_of inner_sig]; rewrite ?app_nil_r; try exact H.
  apply run_with_then_break. exact H.
Qed.

Lemma body_err : forall k m g e b g1 er t,
  run_with fo child cx g e b = (g1, IErr er t) ->
  run_with fo child cx g e (b ++ tail_of k m) = (g1, IErr er t).
Proof.
  intros [| |] m g e b g1 er t H; cbn [tail_of]; rewrite ?app_nil_r; try exact H.
  apply run_with_app_err. exact H.
Qed.

End Step.

Lemma run_unfold : forall d, run fo d = run_with fo (match d with O => no_child fo | S d' => run fo d' end).
Proof. destruct d; reflexivity. Qed.

Definition after (e0 : env fo) (ks : list kind) : env fo :=
  match ks with [] => e0 | k :: _ => after1 k e0 end.

Lemma start_ok_after : forall ks e0, start_ok e0 -> start_ok (after e0 ks).
Proof. intros [|k r] e0 H; cbn [after]; [exact H|apply start_ok_after1; exact H]. Qed.

Definition x_line : oline := mkO (ByCommand s_String) s_STRING_x.

Lemma body_nonempty : forall k n r m, knest n r ++ tail_of k m <> [].
Proof.
  intros k n r m H. apply app_eq_nil in H. destruct H as [H _]. exact (knest_nonempty r n H).
Qed.

Section Chain.
Variable o : options.
Variable fs : fsys.
Variable file : option path.
Notation L := (stack_limit o).

Lemma limit_test_false : forall pile,
  (Z.of_nat (length pile) + 1 < L)%Z -> NestKinds.limit_test (mkCtx o fs pile file) = false.
Proof. intros pile H. apply limit_check_passes. cbn [c_pile c_opts]. exact H. Qed.

Lemma limit_test_true : forall pile,
  (L <= Z.of_nat (length pile) + 1)%Z -> NestKinds.limit_test (mkCtx o fs pile file) = true.
Proof. intros pile H. apply limit_check_refuses. cbn [c_pile c_opts]. exact H. Qed.

(* (B) within the limit: a chain compiles, to the single line STRING x *)
Lemma knest_within : forall ks d pile n g e0, start_ok e0 ->
  (Z.of_nat (length pile) + Z.of_nat (length ks) < L)%Z -> (length ks <= d)%nat ->
  run fo d (mkCtx o fs pile file) g e0 (knest n ks) = (g, IOk (mkCret [x_line] SNormal, after e0 ks)).
Proof.
  induction ks as [|k r IH]; intros d pile n g e0 He0 HL Hd.
  - cbn [knest after]. rewrite run_unfold. apply run_with_string_any. exact He0.
  - destruct d as [|d']; [cbn [length] in Hd; lia|]. cbn [knest after length] in *. cbn [run].
    eapply kind_ok.
    + apply body_nonempty.
    + exact He0.
    + apply limit_test_false. lia.
    + unfold NestKinds.cx_in. cbn [c_opts c_fs c_file]. rewrite run_unfold. apply body_ok. rewrite <- run_unfold.
      apply IH; [apply start_ok_initial| |lia]. rewrite here_length. cbn [c_pile]. lia.
    + apply start_ok_good. apply start_ok_after. apply start_ok_initial.
Qed.

(* (A) too deep: StackOverflowError, whatever the model depth beyond what the limit can use *)
Lemma knest_overflow : forall ks d pile n g e0, start_ok e0 ->
  (1 <= length ks)%nat ->
  (L <= Z.of_nat (length pile) + Z.of_nat (length ks))%Z ->
  (L - Z.of_nat (length pile) - 1 <= Z.of_nat d)%Z ->
  exists t, run fo d (mkCtx o fs pile file) g e0 (knest n ks) = (g, IErr EStackOverflow (Some t)).
Proof.
  induction ks as [|k r IH]; intros d pile n g e0 He0 Hk HL Hd; [cbn [length] in Hk; lia|].
  cbn [knest length] in *. rewrite run_unfold.
  destruct (NestKinds.limit_test (mkCtx o fs pile file)) eqn:Hlim.
  - eexists. apply kind_overflow; [apply body_nonempty|exact He0|exact Hlim].
  - unfold NestKinds.limit_test, stack_limit_op, pile_len in Hlim. cbn [cmp_eval c_pile c_opts] in Hlim.
    apply Z.leb_gt in Hlim.
    destruct d as [|d']; [lia|].
    destruct (IH d' (here (mkCtx o fs pile file) (hdr k, n) None) (n + 1)%Z g initial_env) as [t Ht].
    + apply start_ok_initial.
    + lia.
    + rewrite here_length. cbn [c_pile]. lia.
    + rewrite here_length. cbn [c_pile]. lia.
    + exists t. eapply kind_err.
      * apply body_nonempty.
      * exact He0.
      * unfold NestKinds.limit_test, stack_limit_op, pile_len. cbn [cmp_eval c_pile c_opts]. apply Z.leb_gt. lia.
      * unfold NestKinds.cx_in. cbn [c_opts c_fs c_file]. rewrite run_unfold. apply body_err. rewrite <- run_unfold.
        exact Ht.
Qed.

(* ---- chains one after the other: every chain runs in the same stack *)
Lemma kseq_within : forall kss d pile n g e0, start_ok e0 ->
  Forall (fun ks => (Z.of_nat (length pile) + Z.of_nat (length ks) < L)%Z) kss ->
  (L - Z.of_nat (length pile) - 1 <= Z.of_nat d)%Z ->
  exists e1, start_ok e1 /\
    run fo d (mkCtx o fs pile file) g e0 (kseq n kss) = (g, IOk (mkCret (repeat x_line (length kss)) SNormal, e1)).
Proof.
  induction kss as [|ks kss IH]; intros d pile n g e0 He0 HF Hd.
  - exists e0. split; [exact He0|]. rewrite run_unfold. reflexivity.
  - inversion HF as [|x l Hks HF']; subst x l.
    assert (Hfirst : run fo d (mkCtx o fs pile file) g e0 (knest n ks)
                     = (g, IOk (mkCret [x_line] SNormal, after e0 ks))).
    { apply knest_within; [exact He0|exact Hks|lia]. }
    destruct (IH d pile n g (after e0 ks) (start_ok_after ks e0 He0) HF' Hd) as (e1 & He1 & Hrest).
    exists e1. split; [exact He1|]. rewrite kseq_cons.
    destruct (kseq_head kss n) as [Hnil|(c & m & rest & Hcons)].
    + rewrite Hnil in *. rewrite app_nil_r. rewrite Hfirst.
      destruct kss as [|ks' kss']; [|rewrite kseq_cons in Hnil; apply app_eq_nil in Hnil;
        destruct Hnil as [Hnil _]; exfalso; exact (knest_nonempty _ _ Hnil)].
      rewrite run_unfold in Hrest. cbn in Hrest. injection Hrest as <-. reflexivity.
    + rewrite Hcons in *. rewrite run_unfold in *. rewrite (run_with_app_ok _ _ _ _ _ _ _ _ _ _ _ _ Hfirst).
      rewrite Hrest. reflexivity.
Qed.

Lemma kseq_overflow : forall kss d pile n g e0, start_ok e0 ->
  (Z.of_nat (length pile) < L)%Z ->
  Exists (fun ks => (L <= Z.of_nat (length pile) + Z.of_nat (length ks))%Z) kss ->
  (L - Z.of_nat (length pile) - 1 <= Z.of_nat d)%Z ->
  exists t, run fo d (mkCtx o fs pile file) g e0 (kseq n kss) = (g, IErr EStackOverflow (Some t)).
Proof.
  induction kss as [|ks kss IH]; intros d pile n g e0 He0 Hpile HE Hd; [inversion HE|].
  rewrite kseq_cons.
  destruct (Z_lt_le_dec (Z.of_nat (length pile) + Z.of_nat (length ks)) L) as [Hlt|Hge].
  - (* this chain fits: the failure is further on *)
    assert (HE' : Exists (fun ks => (L <= Z.of_nat (length pile) + Z.of_nat (length ks))%Z) kss).
    { inversion HE as [x l H|x l H]; subst x l; [lia|exact H]. }
    assert (Hfirst : run fo d (mkCtx o fs pile file) g e0 (knest n ks)
                     = (g, IOk (mkCret [x_line] SNormal, after e0 ks))).
    { apply knest_within; [exact He0|exact Hlt|lia]. }
    destruct (IH d pile n g (after e0 ks) (start_ok_after ks e0 He0) Hpile HE' Hd) as [t Ht].
    exists t.
    destruct (kseq_head kss n) as [Hnil|(c & m & rest & Hcons)].
    + destruct kss as [|ks' kss']; [inversion HE'|]. rewrite kseq_cons in Hnil. apply app_eq_nil in Hnil.
      destruct Hnil as [Hnil _]. exfalso. exact (knest_nonempty _ _ Hnil).
    + rewrite Hcons in *. rewrite run_unfold in *. rewrite (run_with_app_ok _ _ _ _ _ _ _ _ _ _ _ _ Hfirst).
      rewrite Ht. reflexivity.
  - assert (Hks1 : (1 <= length ks)%nat) by lia.
    destruct (knest_overflow ks d pile n g e0 He0 Hks1 Hge Hd) as [t Ht]. exists t.
    destruct (kseq_head kss n) as [Hnil|(c & m & rest & Hcons)].
    + rewrite Hnil, app_nil_r. exact Ht.
    + rewrite Hcons. rewrite run_unfold in *. apply run_with_app_err. exact Ht.
Qed.

End Chain.
End Kinds.

(* ================================================================== through Compiler.compile *)
Section Compile.
Variable fo : FloatOps.
Notation L o := (stack_limit o).

Theorem nest_mixed_within_lemma : forall o fs file n ks,
  (Z.of_nat (length ks) < L o)%Z ->
  compile_items fo o fs file (knest n ks) =
  (mkGlob [] [], IOk (mkCompiled fo [x_line] [] (after fo (initial_env fo) ks) [])).
Proof.
  intros o fs file n ks H. unfold compile_items.
  rewrite knest_within; [reflexivity|apply start_ok_initial|cbn [length]; lia|unfold run_depth; lia].
Qed.

Theorem nest_mixed_overflow_lemma : forall o fs file n ks,
  (1 <= L o)%Z -> (L o <= Z.of_nat (length ks))%Z ->
  exists t, compile_items fo o fs file (knest n ks) = (mkGlob [] [], IErr EStackOverflow (Some t)).
Proof.
  intros o fs file n ks H1 H. unfold compile_items.
  destruct (knest_overflow fo o fs file ks (run_depth o) [] n (mkGlob [] []) (initial_env fo)) as [t Ht].
  - apply start_ok_initial.
  - lia.
  - cbn [length]. lia.
  - unfold run_depth. cbn [length]. lia.
  - rewrite Ht. exists t. reflexivity.
Qed.

Theorem nest_exact_mixed_lemma : forall o fs file n ks,
  (1 <= L o)%Z ->
  ((exists g c, compile_items fo o fs file (knest n ks) = (g, IOk c)) <-> (Z.of_nat (length ks) < L o)%Z).
Proof.
  intros o fs file n ks H1. split.
  - intros [g [c Hc]]. destruct (Z_lt_le_dec (Z.of_nat (length ks)) (L o)) as [Hlt|Hge]; [exact Hlt|].
    destruct (nest_mixed_overflow_lemma o fs file n ks H1 Hge) as [t Ht].
    rewrite Ht in Hc. discriminate Hc.
  - intro Hlt. eexists. eexists. apply nest_mixed_within_lemma. exact Hlt.
Qed.

(* the pure chains, with their own (explicit) definitions *)
Fixpoint rnest (n : Z) (k : nat) : list item :=
  match k with
  | O => [Ln s_STRING_x n]
  | S k' => [Ln s_REPEAT_1 n; Blk (rnest (n + 1) k')]
  end.

Fixpoint wnest (n : Z) (k : nat) : list item :=
  match k with
  | O => [Ln s_STRING_x n]
  | S k' => [Ln s_WHILE_TRUE n; Blk (wnest (n + 1) k' ++ [Ln s_BREAKLOOP (n + 1 + (2 * Z.of_nat k' + 1))])]
  end.

Lemma rnest_knest : forall k n, rnest n k = knest n (repeat KRepeat k).
Proof.
  induction k as [|k IH]; intro n; cbn [rnest repeat knest hdr tail_of]; [reflexivity|].
  rewrite IH, app_nil_r. reflexivity.
Qed.

Lemma nlines_while : forall k, nlines (repeat KWhile k) = (2 * Z.of_nat k + 1)%Z.
Proof. induction k as [|k IH]; cbn [repeat nlines]; [reflexivity|]. rewrite IH. lia. Qed.

Lemma wnest_knest : forall k n, wnest n k = knest n (repeat KWhile k).
Proof.
  induction k as [|k IH]; intro n; cbn [wnest repeat knest hdr tail_of]; [reflexivity|].
  rewrite IH, nlines_while. reflexivity.
Qed.

Lemma nest_at_knest : forall k n, nest_at n k = knest n (repeat KIf k).
Proof.
  induction k as [|k IH]; intro n; cbn [nest_at repeat knest hdr tail_of]; [reflexivity|].
  rewrite IH, app_nil_r. reflexivity.
Qed.

Theorem nest_exact_repeat_lemma : forall o fs file n k,
  (1 <= L o)%Z ->
  ((exists g c, compile_items fo o fs file (rnest n k) = (g, IOk c)) <-> (Z.of_nat k < L o)%Z).
Proof.
  intros o fs file n k H1. rewrite rnest_knest.
  rewrite (nest_exact_mixed_lemma o fs file n (repeat KRepeat k) H1), repeat_length. reflexivity.
Qed.

Theorem nest_exact_while_lemma : forall o fs file n k,
  (1 <= L o)%Z ->
  ((exists g c, compile_items fo o fs file (wnest n k) = (g, IOk c)) <-> (Z.of_nat k < L o)%Z).
Proof.
  intros o fs file n k H1. rewrite wnest_knest.
  rewrite (nest_exact_mixed_lemma o fs file n (repeat KWhile k) H1), repeat_length. reflexivity.
Qed.

(* sequences of chains: the depth reached is the maximum *)
Theorem seq_within_lemma : forall o fs file n kss,
  Forall (fun ks => (Z.of_nat (length ks) < L o)%Z) kss ->
  exists e1,
    compile_items fo o fs file (kseq n kss) =
    (mkGlob [] [], IOk (mkCompiled fo (repeat x_line (length kss)) [] e1 [])).
Proof.
  intros o fs file n kss HF. unfold compile_items.
  destruct (kseq_within fo o fs file kss (run_depth o) [] n (mkGlob [] []) (initial_env fo)) as (e1 & _ & H).
  - apply start_ok_initial.
  - eapply Forall_impl; [|exact HF]. intros ks Hks. cbn beta in Hks |- *. cbn [length]. lia.
  - unfold run_depth. cbn [length]. lia.
  - exists e1. rewrite H. reflexivity.
Qed.

Theorem seq_overflow_lemma : forall o fs file n kss,
  (1 <= L o)%Z -> Exists (fun ks => (L o <= Z.of_nat (length ks))%Z) kss ->
  exists t, compile_items fo o fs file (kseq n kss) = (mkGlob [] [], IErr EStackOverflow (Some t)).
Proof.
  intros o fs file n kss H1 HE. unfold compile_items.
  destruct (kseq_overflow fo o fs file kss (run_depth o) [] n (mkGlob [] []) (initial_env fo)) as [t Ht].
  - apply start_ok_initial.
  - cbn [length]. lia.
  - eapply Exists_impl; [|exact HE]. intros ks Hks. cbn beta in Hks |- *. cbn [length]. lia.
  - unfold run_depth. cbn [length]. lia.
  - exists t. rewrite Ht. reflexivity.
Qed.

Theorem seq_exact_lemma : forall o fs file n kss,
  (1 <= L o)%Z ->
  ((exists g c, compile_items fo o fs file (kseq n kss) = (g, IOk c)) <->
   Forall (fun ks => (Z.of_nat (length ks) < L o)%Z) kss).
Proof.
  intros o fs file n kss H1. split.
  - intros [g [c Hc]].
    destruct (Forall_Exists_dec (fun ks => (Z.of_nat (length ks) < L o)%Z)
                (fun ks => Z_lt_dec (Z.of_nat (length ks)) (L o)) kss) as [HF|HE]; [exact HF|].
    assert (HE' : Exists (fun ks => (L o <= Z.of_nat (length ks))%Z) kss).
    { eapply Exists_impl; [|exact HE]. intros ks Hks. cbn beta in Hks. lia. }
    destruct (seq_overflow_lemma o fs file n kss H1 HE') as [t Ht]. rewrite Ht in Hc. discriminate Hc.
  - intro HF. destruct (seq_within_lemma o fs file n kss HF) as [e1 H]. eexists. eexists. exact H.
Qed.

(* m copies of a chain that compiles at limit L, one after the other, compile at limit L *)
Theorem sequential_blocks_ok_lemma : forall o fs file n ks m,
  (1 <= L o)%Z ->
  (exists g c, compile_items fo o fs file (knest n ks) = (g, IOk c)) ->
  exists e1, compile_items fo o fs file (kseq n (repeat ks m)) =
             (mkGlob [] [], IOk (mkCompiled fo (repeat x_line m) [] e1 [])).
Proof.
  intros o fs file n ks m H1 Hone.
  assert (Hlt : (Z.of_nat (length ks) < L o)%Z).
  { apply (nest_exact_mixed_lemma o fs file n ks); [exact H1|exact Hone]. }
  destruct (seq_within_lemma o fs file n (repeat ks m)) as [e1 H].
  - apply Forall_forall. intros x Hx. apply repeat_spec in Hx. subst x. exact Hlt.
  - exists e1. rewrite repeat_length in H. exact H.
Qed.

End Compile.

(* ================================================================== (c) siblings, in general *)
Section Siblings.
Variable fo : FloatOps.

(* what a push does once the limit test has let it through (the else-branch of run_child_with) *)
Definition push_unchecked (child : runner fo) (cx : ctx) (cur : preline) (code : list item) (file : option path)
           (parallel : bool) (setup : env fo -> res (env fo)) (pre : env fo -> res bool) : M fo (option cret) :=
  fun s =>
    let parent := s_env fo s in
    let cenv0 := append_env fo (empty_env fo) parent in
    match setup cenv0 with
    | Err e => (s, IErr e (Some (here cx cur (s_line2 fo s))))
    | Crash k => (s, ICrash k)
    | Unmodelled => (s, IUnmod)
    | Ok cenv1 =>
        let finish (g : glob) (cenv : env fo) (r : option cret) :=
          let penv := if parallel then append_env fo parent cenv else update_from_env fo parent cenv in
          (mkSt fo g penv (s_line2 fo s), IOk r) in
        match pre cenv1 with
        | Err e => (s, IErr e (Some (here cx cur (s_line2 fo s))))
        | Crash k => (s, ICrash k)
        | Unmodelled => (s, IUnmod)
        | Ok false => finish (s_g fo s) cenv1 None
        | Ok true =>
            match child (mkCtx (c_opts cx) (c_fs cx) (here cx cur (s_line2 fo s)) file) (s_g fo s) cenv1 code with
            | (g', IOk (cr, cenv2)) => finish g' cenv2 (Some cr)
            | (g', IErr e t) => (mkSt fo g' (s_env fo s) (s_line2 fo s), IErr e t)
            | (g', ICrash k) => (mkSt fo g' (s_env fo s) (s_line2 fo s), ICrash k)
            | (g', IUnmod) => (mkSt fo g' (s_env fo s) (s_line2 fo s), IUnmod)
            end
        end
    end.

(* every push made by a stack -- by whichever of its lines, for whatever code -- meets the SAME test *)
Theorem limit_test_same_for_siblings_lemma : forall child cx cur code file par setup pre s,
  run_child_with fo child cx cur code file par setup pre s =
  if limit_test cx then (s, IErr EStackOverflow (Some (here cx cur (s_line2 fo s))))
  else push_unchecked child cx cur code file par setup pre s.
Proof. intros. unfold run_child_with, push_unchecked. fold (limit_test cx). reflexivity. Qed.

(* ... which looks at nothing but the number of stacks below and the configured limit *)
Theorem limit_test_depends_on_depth_lemma : forall cx,
  limit_test cx = (stack_limit (c_opts cx) <=? Z.of_nat (length (c_pile cx)) + 1)%Z.
Proof. intros. unfold limit_test, stack_limit_op, pile_len. cbn [cmp_eval]. f_equal. lia. Qed.

(* ... and is one deeper for every stack pushed from it *)
Theorem limit_test_child_lemma : forall cx cur l2 file,
  limit_test (cx_in cx cur l2 file) = (stack_limit (c_opts cx) <=? Z.of_nat (length (c_pile cx)) + 2)%Z.
Proof.
  intros. rewrite limit_test_depends_on_depth_lemma. unfold cx_in. cbn [c_opts c_pile].
  rewrite here_length. f_equal. lia.
Qed.

(* any block (starting with a line) that runs to completion from every state of an invariant set
   and re-establishes it: m copies, one after the other, do too -- in the same stack, same depth *)
Theorem sequential_blocks_generic_lemma : forall child cx (Inv : glob -> env fo -> Prop) c n r,
  (forall g e, Inv g e -> exists g' out e',
     run_with fo child cx g e (Ln c n :: r) = (g', IOk (mkCret out SNormal, e')) /\ Inv g' e') ->
  forall m g e, Inv g e -> exists g' out e',
     run_with fo child cx g e (concat (repeat (Ln c n :: r) m)) = (g', IOk (mkCret out SNormal, e')) /\ Inv g' e'.
Proof.
  intros child cx Inv c n r Hone. induction m as [|m IH]; intros g e HI.
  - exists g, [], e. split; [reflexivity|exact HI].
  - destruct (Hone g e HI) as (g1 & out1 & e1 & H1 & HI1).
    destruct (IH g1 e1 HI1) as (g2 & out2 & e2 & H2 & HI2).
    cbn [repeat concat]. destruct m as [|m'].
    + cbn [repeat concat]. rewrite app_nil_r. exists g1, out1, e1. split; assumption.
    + cbn [repeat concat] in *. rewrite <- app_comm_cons.
      change (Ln c n :: r ++ (Ln c n :: r) ++ concat (repeat (Ln c n :: r) m'))
        with ((Ln c n :: r) ++ Ln c n :: (r ++ concat (repeat (Ln c n :: r) m'))).
      rewrite (run_with_app_ok fo child cx _ _ _ _ _ _ _ _ _ H1).
      rewrite <- app_comm_cons in H2. rewrite H2. cbn [prepend cr_data cr_sig].
      exists g2, (out1 ++ out2), e2. split; [reflexivity|exact HI2].
Qed.

End Siblings.

(* sanity: the chains are what the tab parser produces for the tab-indented source texts *)
Example knest_is_parsed_text :
  prepare_text (s_IF_TRUE ++ [10;9] ++ s_REPEAT_1 ++ [10;9;9] ++ s_WHILE_TRUE ++ [10;9;9;9] ++ s_STRING_x
                ++ [10;9;9;9] ++ s_BREAKLOOP)%N = TOk (knest 1 [KIf; KRepeat; KWhile]).
Proof. vm_compute. reflexivity. Qed.

Example wnest_is_parsed_text :
  prepare_text (s_WHILE_TRUE ++ [10;9] ++ s_WHILE_TRUE ++ [10;9;9] ++ s_STRING_x ++ [10;9;9] ++ s_BREAKLOOP
                ++ [10;9] ++ s_BREAKLOOP)%N = TOk (wnest 1 2).
Proof. vm_compute. reflexivity. Qed.

(* why every WHILE TRUE of [knest] carries its own BREAKLOOP: with one BREAKLOOP at the very bottom
   only, a chain of two already fails -- not with a depth error but with ExceededLimitError, after
   the outer loop's 20001st iteration (evaluated on the model with a dummy FloatOps, limit 20) *)
From DS Require Import C07Examples.
Definition while_bottom_break_only : list item :=
  [Ln s_WHILE_TRUE 1; Blk [Ln s_WHILE_TRUE 2; Blk [Ln s_STRING_x 3; Ln s_BREAKLOOP 4]]].
Example while_bottom_break_only_fails :
  (match snd (compile_items fo0 o0 (fun _ => None) None while_bottom_break_only) with
   | IErr e _ => Some e | _ => None end) = Some EExceededLimit.
Proof. vm_compute. reflexivity. Qed.
