(* The file system [fs_of] of Spec/CoreAllText.v against [prog_ok] (the hypothesis of the refinement
   theorem): prog_ok is reduced to the round trip of each file's text through the indentation
   parser.  PARTIAL: the general round trip "prepare_text (utext_of u p) = TOk (uitems_from 1 p) for
   every well-formed p" (the analogue of Proofs/CoreTextParse.v [prepare_text_core] for ustmt) is
   NOT proved here; it is checked by computation on the witness. *)
From Coq Require Import String NArith ZArith List Bool Lia.
From DS Require Import Base PyStr Values Expr TabParse Tables Constants Interp ScopeProofs StartLaws ImportGraph GraphText.
From DS Require Import ChainLoopExamples CoreLang CoreFunc CoreText CoreAll CoreAllText CoreAllLines CoreAllBase CoreAllRefine CoreAllExample.
Import ListNotations.

Lemma path_eq_eq : forall a b, path_eq a b = true <-> a = b.
Proof.
  induction a as [|x a IH]; intros [|y b]; cbn; split; intro H; try reflexivity; try discriminate.
  - apply andb_true_iff in H. destruct H as [H1 H2]. apply ScopeProofs.str_eqb_eq in H1. apply IH in H2. subst. reflexivity.
  - injection H as -> ->. rewrite ScopeProofs.str_eqb_refl. apply IH. reflexivity.
Qed.

Lemma file_path_file_of : forall dir m, file_path dir m = file_of dir m.
Proof. reflexivity. Qed.

Lemma fs_of_file : forall u dir prog m,
  fs_of u dir prog (file_of dir m) = option_map (utext_of u) (lookup m prog).
Proof.
  intros u dir prog m. induction prog as [|[k stmts] r IH]; [reflexivity|].
  cbn [fs_of lookup]. change (file_path dir k) with (file_of dir k).
  destruct (str_eqb m k) eqn:E.
  - apply ScopeProofs.str_eqb_eq in E. subst k. rewrite (proj2 (path_eq_eq _ _) eq_refl). reflexivity.
  - destruct (path_eq (file_of dir m) (file_of dir k)) eqn:E2; [|exact IH].
    apply path_eq_eq in E2. apply file_of_inj in E2. subst k. rewrite ScopeProofs.str_eqb_refl in E. discriminate.
Qed.

(* prog_ok for the rendered file system, given the round trip of each file's text *)
Theorem prog_ok_fs_of_partial : forall u dir prog,
  (forall m stmts, lookup m prog = Some stmts ->
     uwf_list stmts /\ prepare_text (utext_of u stmts) = TOk (uitems_from 1 stmts)) ->
  prog_ok dir prog (fs_of u dir prog).
Proof.
  intros u dir prog H m stmts Hl. destruct (H m stmts Hl) as [Hwf Hp]. split; [exact Hwf|].
  exists (utext_of u stmts). split; [|exact Hp]. rewrite fs_of_file, Hl. reflexivity.
Qed.

(* the witness: the texts written by hand in Proofs/CoreAllExample.v ARE the rendering of the
   two-file program with a four-space indent unit *)
Definition four_spaces : str := [32;32;32;32]%N.

Lemma two_files_texts :
  utext_of four_spaces main_stmts = main_text /\ utext_of four_spaces lib_stmts = lib_text.
Proof. split; vm_compute; reflexivity. Qed.

Lemma two_files_fs_of_ok : prog_ok ex_dir two_files (fs_of four_spaces ex_dir two_files).
Proof.
  apply prog_ok_fs_of_partial. intros m stmts Hl.
  destruct (two_files_ok m stmts Hl) as [Hwf _]. split; [exact Hwf|].
  unfold two_files in Hl. cbn [lookup] in Hl.
  destruct (str_eqb m n_main); [injection Hl as <-; vm_compute; reflexivity|].
  destruct (str_eqb m n_lib); [injection Hl as <-; vm_compute; reflexivity|discriminate].
Qed.
