(* C15 / C19 over the CLI world: the CLI cannot tell apart two worlds whose config files denote the
   same options.  Consequences: rewriting the config files in full is unobservable, and an invocation
   that reported a failure has no effect on anything a later invocation reports or writes. *)
From Coq Require Import NArith ZArith List Bool Lia.
From DS Require Import Base PyStr Values TabParse Interp Options Constants Cli CliWorld.
From DS Require Import SmallProofs MoreProofs CliWorldSpec CliWorldProofs CliWorldHistory CliWorldNew.
Import ListNotations.

Lemma same_meaning_refl : forall a, same_meaning a a.
Proof. intro a. repeat split. Qed.

Lemma same_meaning_sym : forall a b, same_meaning a b -> same_meaning b a.
Proof.
  intros a b [Hf [Hc [Hg Hd]]]. repeat split; [symmetry; exact Hf| |symmetry; exact Hg|];
    intro d; symmetry; [apply Hc|apply Hd].
Qed.

Lemma same_meaning_trans : forall a b c, same_meaning a b -> same_meaning b c -> same_meaning a c.
Proof.
  intros a b c [Hf [Hc [Hg Hd]]] [Hf' [Hc' [Hg' Hd']]]. repeat split.
  - rewrite Hf. exact Hf'.
  - intro d. rewrite Hc. apply Hc'.
  - rewrite Hg. exact Hg'.
  - intro d. rewrite Hd. apply Hd'.
Qed.

Lemma same_meaning_dir_exists : forall a b d, same_meaning a b -> dir_exists a d = dir_exists b d.
Proof. intros a b d [Hf [_ [_ Hd]]]. unfold dir_exists. rewrite Hf, Hd. reflexivity. Qed.

Lemma same_meaning_effective_options : forall a b file limit comments,
  same_meaning a b -> effective_options a file limit comments = effective_options b file limit comments.
Proof.
  intros a b file limit comments [_ [Hc [Hg _]]]. unfold effective_options. rewrite Hg.
  apply calculate_options_meaning. apply Hc.
Qed.

Lemma same_meaning_only_global : forall a b, same_meaning a b -> same_meaning (only_global a) (only_global b).
Proof.
  intros a b [Hf [Hc [Hg Hd]]]. unfold only_global. rewrite !load_global_spec. cbn [fst].
  repeat split; cbn [w_files w_cfg w_global w_dirs]; try assumption.
  rewrite !global_meaning_full. exact Hg.
Qed.

Lemma same_meaning_normalised : forall a b f l c,
  same_meaning a b -> same_meaning (normalised a f l c) (normalised b f l c).
Proof.
  intros a b f l c [Hf [Hc [Hg Hd]]]. repeat split.
  - exact Hf.
  - intro d. rewrite !normalised_cfg_meaning. apply Hc.
  - rewrite !normalised_global, !global_meaning_full. exact Hg.
  - exact Hd.
Qed.

(* the world itself and its normalisations mean the same *)
Lemma only_global_same_meaning : forall w, same_meaning (only_global w) w.
Proof.
  intro w. unfold only_global. rewrite load_global_spec. cbn [fst].
  repeat split. cbn [w_global]. apply global_meaning_full.
Qed.

Lemma normalised_same_meaning : forall w f l c, same_meaning (normalised w f l c) w.
Proof.
  intros w f l c. repeat split.
  - intro d. apply normalised_cfg_meaning.
  - rewrite normalised_global. apply global_meaning_full.
Qed.

Section Equiv.
Variable fo : FloatOps.

(* one invocation: same report, and the resulting worlds again mean the same *)
Theorem step_same_meaning : forall a b op,
  same_meaning a b ->
  snd (cli_step fo a op) = snd (cli_step fo b op) /\
  same_meaning (fst (cli_step fo a op)) (fst (cli_step fo b op)).
Proof.
  intros a b [file output limit comments|dir name] Hab.
  - rewrite !cli_step_compile. unfold compile_outcome.
    rewrite (same_meaning_effective_options a b file limit comments Hab).
    pose proof (same_meaning_normalised a b file limit comments Hab) as Hn.
    pose proof (same_meaning_only_global a b Hab) as Ho.
    destruct Hab as [Hf [Hc [Hg Hd]]]. rewrite Hf.
    destruct (w_files b file) as [text|]; [|split; [reflexivity|exact Ho]].
    destruct (compile_text fo _ (w_files b) (Some file) text) as [gl [c|e t|k|]]; cbn [fst snd];
      (split; [reflexivity|]); try exact Hn.
    destruct Hn as [_ [Hnc [Hng _]]]. repeat split; cbn [w_files w_cfg w_global w_dirs]; assumption.
  - rewrite !cli_step_new. unfold new_outcome, new_accepts.
    rewrite (same_meaning_dir_exists a b _ Hab).
    pose proof (same_meaning_only_global a b Hab) as Ho.
    destruct (isascii_s name && forallb valid_project_char (normalise_name name)
              && negb (dir_exists b (new_project_dir dir name))); cbn [fst snd];
      (split; [reflexivity|]); [|exact Ho].
    destruct Hab as [Hf [Hc [Hg Hd]]]. unfold new_world.
    repeat split; cbn [w_files w_cfg w_global w_dirs].
    + rewrite Hf. reflexivity.
    + intro d. unfold set_cfg. destruct (path_eqb d (new_project_dir dir name)); [reflexivity|apply Hc].
    + rewrite !global_meaning_full. exact Hg.
    + intro d. cbn [existsb]. rewrite Hd. reflexivity.
Qed.

(* a whole history: same reports, same text files at the end *)
Theorem cli_history_same_meaning : forall ops a b,
  same_meaning a b ->
  snd (cli_run fo a ops) = snd (cli_run fo b ops) /\
  same_meaning (fst (cli_run fo a ops)) (fst (cli_run fo b ops)).
Proof.
  induction ops as [|op r IH]; intros a b Hab.
  - split; [reflexivity|exact Hab].
  - rewrite !cli_run_cons. cbn [fst snd].
    destruct (step_same_meaning a b op Hab) as [Hr Hw].
    destruct (IH _ _ Hw) as [Hrs Hws]. rewrite Hr, Hrs. split; [reflexivity|exact Hws].
Qed.

(* every invocation leaves the configs of the directories that exist with their meaning; an
   invocation that reports a failure leaves a world that means the same as the one it started in *)
Theorem failed_step_same_meaning : forall w op,
  is_failure (snd (cli_step fo w op)) = true -> same_meaning (fst (cli_step fo w op)) w.
Proof.
  intros w op Hf. destruct (cli_step fo w op) as [w' r] eqn:E. cbn [fst snd] in *.
  apply cli_step_inv in E.
  destruct E as [op r _|file output limit comments r _|file output limit comments text gl c Hff Hcc|dir name Ha Hv Hd].
  - apply only_global_same_meaning.
  - apply normalised_same_meaning.
  - discriminate.
  - discriminate.
Qed.

(* ... so it can be deleted from the history: the other reports and the final text files are the same *)
Theorem cli_history_failure_invisible : forall pre op post w,
  is_failure (snd (cli_step fo (fst (cli_run fo w pre)) op)) = true ->
  snd (cli_run fo w (pre ++ op :: post)) =
    snd (cli_run fo w pre) ++ snd (cli_step fo (fst (cli_run fo w pre)) op) :: snd (cli_run fo (fst (cli_run fo w pre)) post)
  /\ snd (cli_run fo w (pre ++ post)) = snd (cli_run fo w pre) ++ snd (cli_run fo (fst (cli_run fo w pre)) post)
  /\ w_files (fst (cli_run fo w (pre ++ op :: post))) = w_files (fst (cli_run fo w (pre ++ post))).
Proof.
  intros pre op post w Hf.
  pose proof (failed_step_same_meaning _ op Hf) as Hs.
  destruct (cli_history_same_meaning post _ _ Hs) as [Hr [Hw _]].
  rewrite !cli_run_app. cbn [fst snd]. rewrite cli_run_cons. cbn [fst snd].
  rewrite Hr. repeat split. exact Hw.
Qed.

(* 4: loading and saving the global config once more is unobservable *)
Corollary load_global_unobservable : forall w ops,
  snd (cli_run fo (only_global w) ops) = snd (cli_run fo w ops) /\
  w_files (fst (cli_run fo (only_global w) ops)) = w_files (fst (cli_run fo w ops)).
Proof.
  intros w ops. destruct (cli_history_same_meaning ops _ _ (only_global_same_meaning w)) as [Hr [Hw _]].
  split; assumption.
Qed.

End Equiv.
