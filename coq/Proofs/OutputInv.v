(* C02 (whole program): an invariant on the produced output.
   Every output line tagged [ByCommand cname] was emitted by run_compile of the palette class named
   [cname], for a command word that is one of the names of that class, and for an argument that is
   typed and is the formatted image of a content the validator of the class accepted -- whatever
   route the argument took (inline, block, `$` expression, variable, parameter, loop counter).
   The invariant is carried through every action of Model/Interp.v for an arbitrary child runner,
   then through the depth-indexed interpreter and Compiler.compile. *)
From Coq Require Import NArith ZArith List Bool Lia.
From DS Require Import Base Unicode PyStr Values Expr TabParse Tables Constants Interp.
From DS Require Import CrashKinds CrashFree GrammarProofs.
Import ListNotations.

(* ================================================================== the `$` prefix and upper() *)
Definition starts36 (s : str) : bool := match s with 36%N :: _ => true | _ => false end.
Definition drop36 (s : str) : str := match s with 36%N :: r => r | _ => s end.

Lemma starts36_spec : forall s,
  (exists r, s = 36%N :: r /\ starts36 s = true /\ drop36 s = r) \/ (starts36 s = false /\ drop36 s = s).
Proof.
  intros [|x r]; [right; split; reflexivity|].
  destruct x as [|p]; [right; split; reflexivity|].
  repeat (destruct p as [p|p|]; try (right; split; reflexivity)).
  left. exists r. repeat split.
Qed.

Definition runs_ok : bool :=
  forallb (fun r : N * N * Z => let '(lo, hi, d) := r in (36 <? Z.of_N lo + d)%Z) upper_runs.
Definition multi_ok : bool :=
  forallb (fun m : N * list N => match snd m with [] => false | x :: _ => negb (x =? 36)%N end) upper_multi.

Lemma runs_ok_true : runs_ok = true.
Proof. vm_compute. reflexivity. Qed.
Lemma multi_ok_true : multi_ok = true.
Proof. vm_compute. reflexivity. Qed.

Lemma upper_run_not36 : forall runs c u,
  forallb (fun r : N * N * Z => let '(lo, hi, d) := r in (36 <? Z.of_N lo + d)%Z) runs = true ->
  upper_run c runs = Some u -> u <> 36%N.
Proof.
  induction runs as [|[[lo hi] d] r IH]; intros c u Hall Hu; cbn [upper_run] in Hu; [discriminate Hu|].
  cbn [forallb] in Hall. apply andb_true_iff in Hall. destruct Hall as [Hh Hr].
  destruct ((lo <=? c)%N && (c <=? hi)%N) eqn:Ein.
  - injection Hu as <-. apply andb_true_iff in Ein. destruct Ein as [Hlo _].
    apply N.leb_le in Hlo. apply Z.ltb_lt in Hh. lia.
  - exact (IH c u Hr Hu).
Qed.

Lemma upper_mul_head : forall m c u,
  forallb (fun m : N * list N => match snd m with [] => false | x :: _ => negb (x =? 36)%N end) m = true ->
  upper_mul c m = Some u -> exists x r, u = x :: r /\ x <> 36%N.
Proof.
  induction m as [|[k v] r IH]; intros c u Hall Hu; cbn [upper_mul] in Hu; [discriminate Hu|].
  cbn [forallb snd] in Hall. apply andb_true_iff in Hall. destruct Hall as [Hh Hr].
  destruct (k =? c)%N.
  - injection Hu as <-. destruct v as [|x t]; [discriminate Hh|].
    exists x, t. split; [reflexivity|]. apply negb_true_iff in Hh. apply N.eqb_neq. exact Hh.
  - exact (IH c u Hr Hu).
Qed.

(* upper() of one code point is never empty, and starts with `$` only for `$` itself *)
Lemma upper_c_head : forall c, exists x r, upper_c c = x :: r /\ (x = 36%N -> c = 36%N /\ r = []).
Proof.
  intro c. unfold upper_c. destruct (c <? 128)%N eqn:Elt.
  - destruct ((97 <=? c)%N && (c <=? 122)%N) eqn:Elow.
    + exists (c - 32)%N, []. split; [reflexivity|]. intro H.
      apply andb_true_iff in Elow. destruct Elow as [Ha _]. apply N.leb_le in Ha. lia.
    + exists c, []. split; [reflexivity|]. intro H. split; [exact H | reflexivity].
  - apply N.ltb_ge in Elt.
    destruct (upper_run c upper_runs) as [u|] eqn:Er.
    + exists u, []. split; [reflexivity|]. intro H. exfalso.
      exact (upper_run_not36 _ _ _ runs_ok_true Er H).
    + destruct (upper_mul c upper_multi) as [u|] eqn:Em.
      * destruct (upper_mul_head _ _ _ multi_ok_true Em) as [x [r [-> Hx]]].
        exists x, r. split; [reflexivity|]. intro H. contradiction.
      * exists c, []. split; [reflexivity|]. intro H. lia.
Qed.

Lemma upper_dollar_tl : forall cmd r, upper cmd = 36%N :: r -> upper (tl cmd) = r.
Proof.
  intros [|c r0] r H; [discriminate H|].
  unfold upper in H. cbn [flat_map] in H.
  destruct (upper_c_head c) as [x [r1 [Hc Hx]]]. rewrite Hc in H. cbn [app] in H.
  injection H as Hx36 Hr. destruct (Hx Hx36) as [_ ->]. cbn [app] in Hr. cbn [tl]. exact Hr.
Qed.

Lemma str_eqb_refl : forall a : str, str_eqb a a = true.
Proof. induction a as [|x a IH]; [reflexivity|]. cbn [str_eqb]. rewrite N.eqb_refl, IH. reflexivity. Qed.

(* the name handed to run_compile (the `$` removed), upper-cased, is the word isThisCommand tests *)
Lemma upper_name_drop36 : forall cmd,
  upper (if starts36 (upper cmd) then tl cmd else cmd) = drop36 (upper cmd).
Proof.
  intro cmd. destruct (starts36_spec (upper cmd)) as [[r [Hu [Hs Hd]]] | [Hs Hd]]; rewrite Hs, Hd.
  - exact (upper_dollar_tl cmd r Hu).
  - reflexivity.
Qed.

Lemma is_this_simple : forall sc cmd cb,
  is_this_command (Simple sc) cmd cb = str_in (drop36 (upper cmd)) (s_names sc).
Proof.
  intros sc cmd cb. unfold is_this_command.
  change (match upper cmd with 36%N :: r => r | _ => upper cmd end) with (drop36 (upper cmd)).
  destruct (s_names sc); reflexivity.
Qed.

(* SimpleCommand.isThisCommand: the name handed to run_compile is, upper-cased, a name of the class *)
Lemma simple_name_in : forall sc cmd cb,
  is_this_command (Simple sc) cmd cb = true ->
  In (upper (if starts36 (upper cmd) then tl cmd else cmd)) (s_names sc).
Proof.
  intros sc cmd cb H. rewrite is_this_simple in H. rewrite upper_name_drop36.
  exact (str_in_In _ _ H).
Qed.

Lemma In_str_in : forall (s : str) (l : list str), In s l -> str_in s l = true.
Proof.
  induction l as [|k l IH]; intro H; [contradiction H|]. cbn [str_in].
  destruct H as [-> | H]; [rewrite str_eqb_refl; reflexivity | rewrite (IH H); apply orb_true_r].
Qed.

(* ================================================================== class names of the palette are distinct *)
Fixpoint distinct_names (pal : list (str * cls)) : bool :=
  match pal with
  | [] => true
  | (n, _) :: r => negb (existsb (fun q : str * cls => str_eqb (fst q) n) r) && distinct_names r
  end.

Lemma palette_distinct : distinct_names palette = true.
Proof. vm_compute. reflexivity. Qed.

Lemma distinct_find : forall pal n c, distinct_names pal = true -> In (n, c) pal ->
  find (fun p : str * cls => str_eqb (fst p) n) pal = Some (n, c).
Proof.
  induction pal as [|[n0 c0] r IH]; intros n c Hd Hin; [contradiction Hin|].
  cbn [distinct_names] in Hd. apply andb_true_iff in Hd. destruct Hd as [Hh Hr].
  cbn [find fst]. destruct Hin as [Heq | Hin].
  - injection Heq as -> ->. rewrite str_eqb_refl. reflexivity.
  - destruct (str_eqb n0 n) eqn:E.
    + exfalso. apply str_eqb_eq in E. subst n0. apply negb_true_iff in Hh.
      assert (Hex : existsb (fun q : str * cls => str_eqb (fst q) n) r = true).
      { apply existsb_exists. exists (n, c). split; [exact Hin | apply str_eqb_refl]. }
      rewrite Hex in Hh. discriminate Hh.
    + exact (IH n c Hr Hin).
Qed.

(* the class record dispatched by find_command is the one find_class returns for its name *)
Lemma find_command_class : forall cmd cb cname sc,
  find_command palette cmd cb = Some (cname, Simple sc) -> find_class cname = Some sc.
Proof.
  intros cmd cb cname sc H. apply find_command_In in H.
  unfold find_class. rewrite (distinct_find palette cname (Simple sc) palette_distinct H). reflexivity.
Qed.

Lemma find_command_this : forall pal cmd cb n c,
  find_command pal cmd cb = Some (n, c) -> is_this_command c cmd cb = true.
Proof.
  induction pal as [|[n0 c0] r IH]; intros cmd cb n c H; cbn [find_command] in H; [discriminate H|].
  destruct (is_this_command c0 cmd cb) eqn:E.
  - injection H as _ <-. exact E.
  - exact (IH _ _ _ _ H).
Qed.

Lemma find_command_none : forall pal cmd cb,
  find_command pal cmd cb = None -> forall n c, In (n, c) pal -> is_this_command c cmd cb = false.
Proof.
  induction pal as [|[n0 c0] r IH]; intros cmd cb H n c Hin; [contradiction Hin|].
  cbn [find_command] in H. destruct (is_this_command c0 cmd cb) eqn:E; [discriminate H|].
  destruct Hin as [Heq | Hin]; [injection Heq as _ <-; exact E | exact (IH _ _ H _ _ Hin)].
Qed.

(* a word without white space (what split() returns) *)
Definition no_ws (s : str) : Prop := forallb (fun c => negb (isspace_c c)) s = true.

(* a word that no simple class of the palette answers to *)
Definition unknown_word (name : str) : Prop :=
  forall n sc, In (n, Simple sc) palette -> ~ In (upper name) (s_names sc).

Lemma find_command_unknown : forall cmd cb, find_command palette cmd cb = None ->
  unknown_word (if starts36 (upper cmd) then tl cmd else cmd).
Proof.
  intros cmd cb H n sc Hin Hname.
  pose proof (find_command_none _ _ _ H _ _ Hin) as Hf. rewrite is_this_simple in Hf.
  rewrite upper_name_drop36 in Hname. rewrite (In_str_in _ _ Hname) in Hf. discriminate Hf.
Qed.

Lemma take_word_no_ws : forall s, no_ws (fst (take_word s)).
Proof.
  induction s as [|c r IH]; [reflexivity|]. cbn [take_word].
  destruct (isspace_c c) eqn:E; [reflexivity|].
  destruct (take_word r) as [w rest]. cbn [fst] in *. unfold no_ws. cbn [forallb]. rewrite E. exact IH.
Qed.

Lemma split_ws1_no_ws : forall c cmd more, split_ws1 c = cmd :: more -> no_ws cmd.
Proof.
  intros c cmd more H. unfold split_ws1 in H. destruct (lstrip c) as [|a r]; [discriminate H|].
  pose proof (take_word_no_ws (a :: r)) as Hw. destruct (take_word (a :: r)) as [w rest]. cbn [fst] in Hw.
  destruct (lstrip rest); injection H as <- _; exact Hw.
Qed.

Lemma no_ws_tl : forall s, no_ws s -> no_ws (tl s).
Proof.
  intros [|c r] H; [exact H|]. unfold no_ws in H. cbn [forallb] in H. apply andb_true_iff in H. exact (proj2 H).
Qed.

(* ================================================================== post-conditions on success *)
Section Post.
Variable fo : FloatOps.

Definition post {A} (P : A -> Prop) (m : M fo A) : Prop :=
  forall s s' a, m s = (s', IOk _ a) -> P a.

Definition anyK (k : crashkind) : Prop := True.

Lemma post_of_M_post : forall A K (P : A -> Prop) (m : M fo A), M_post K P m -> post P m.
Proof. intros A K P m H s s' a E. specialize (H s). rewrite E in H. exact H. Qed.

Lemma post_ret : forall A (P : A -> Prop) (a : A), P a -> post P (ret fo a).
Proof. intros A P a H s s' a' E. injection E as _ <-. exact H. Qed.

Lemma post_raise : forall cx cur A (P : A -> Prop) e, post P (raise fo cx cur (A:=A) e).
Proof. intros cx cur A P e s s' a E. discriminate E. Qed.

Lemma post_crash : forall A (P : A -> Prop) k, post P (crash fo (A:=A) k).
Proof. intros A P k s s' a E. discriminate E. Qed.

Lemma post_unmod : forall A (P : A -> Prop), post P (unmod fo (A:=A)).
Proof. intros A P s s' a E. discriminate E. Qed.

Lemma post_lift : forall cx cur A (P : A -> Prop) (r : res A),
  (forall a, r = Ok a -> P a) -> post P (lift fo cx cur r).
Proof.
  intros cx cur A P r H. destruct r as [a|e|k|]; cbn [lift].
  - apply post_ret. apply H. reflexivity.
  - apply post_raise.
  - apply post_crash.
  - apply post_unmod.
Qed.

Lemma post_bind : forall A B (P : A -> Prop) (Q : B -> Prop) (m : M fo A) (f : A -> M fo B),
  post P m -> (forall a, P a -> post Q (f a)) -> post Q (bindM fo m f).
Proof.
  intros A B P Q m f Hm Hf s s' b E. unfold bindM in E.
  destruct (m s) as [s1 [a|e t|k|]] eqn:Em; try discriminate E.
  exact (Hf a (Hm _ _ _ Em) _ _ _ E).
Qed.

Lemma post_true : forall A (m : M fo A), post (fun _ => True) m.
Proof. intros A m s s' a E. exact I. Qed.

Lemma post_bind_any : forall A B (Q : B -> Prop) (m : M fo A) (f : A -> M fo B),
  (forall a, post Q (f a)) -> post Q (bindM fo m f).
Proof. intros A B Q m f Hf. apply (post_bind _ _ (fun _ => True)); [apply post_true | intros a _; apply Hf]. Qed.

Lemma post_weaken : forall A (P Q : A -> Prop) (m : M fo A),
  (forall a, P a -> Q a) -> post P m -> post Q m.
Proof. intros A P Q m HPQ H s s' a E. apply HPQ. exact (H _ _ _ E). Qed.

End Post.

Ltac post_step :=
  first
    [ apply post_raise | apply post_crash | apply post_unmod
    | apply post_bind_any; intro
    | match goal with
      | |- post _ _ (if ?b then _ else _) => destruct b
      | |- post _ _ (match ?x with _ => _ end) => destruct x
      | |- post _ _ (let '(_, _) := ?x in _) => destruct x
      end ].

(* ================================================================== the invariant *)
Definition arg_pre2 (sc : simple_cls) (a : option line) : Prop :=
  arg_pre sc a /\ (s_arg_req sc = NotAllowed -> a = None).

(* the text lines run_compile of class [sc] can emit for the command word [name] *)
Definition emits (sc : simple_cls) (name : str) (text : str) : Prop :=
  match s_run sc with
  | RKDefault | RKRem | RKDefaultDelay => exists arg, arg_pre2 sc arg /\ text = name_line name arg
  | RKEnter => text = upper name \/ text = s_ENTER
  | RKWhitespace => text = []
  | _ => False
  end.

Definition line_inv (l : oline) : Prop :=
  match o_tag l with
  | ByCommand cn =>
      exists sc name, find_class cn = Some sc /\ In (upper name) (s_names sc) /\ emits sc name (o_text l)
  | ByUnknown =>
      exists name arg, no_ws name /\ unknown_word name /\ o_text l = name_line name arg
  | ByLegacyRepeat => exists a, o_text l = s_REPEAT ++ [space] ++ a
  | ByIgnore => True
  end.

Definition data_ok (d : list oline) : Prop := Forall line_inv d.
Definition cret_ok (cr : cret) : Prop := data_ok (cr_data cr).

Definition tag_ok (tg : tag) (sc : simple_cls) (name : str) : Prop :=
  match tg with
  | ByCommand cn => find_class cn = Some sc /\ In (upper name) (s_names sc)
  | ByUnknown => s_run sc = RKDefault /\ no_ws name /\ unknown_word name
  | ByIgnore => True
  | ByLegacyRepeat => False
  end.

Lemma data_ok_nil : data_ok [].
Proof. constructor. Qed.

Lemma cret_ok_nil : forall sg, cret_ok (mkCret [] sg).
Proof. intro sg. exact data_ok_nil. Qed.

Lemma data_ok_app : forall a b, data_ok a -> data_ok b -> data_ok (a ++ b).
Proof. intros a b Ha Hb. apply Forall_app. split; assumption. Qed.

Lemma Forall_repeat : forall A (P : A -> Prop) x n, P x -> Forall P (repeat x n).
Proof. intros A P x n H. induction n as [|n IH]; cbn [repeat]; constructor; assumption. Qed.

Lemma tagged_ok : forall tg sc name ls, tag_ok tg sc name -> Forall (emits sc name) ls ->
  data_ok (map (mkO tg) ls).
Proof.
  intros tg sc name ls Ht Hls. unfold data_ok. apply Forall_forall. intros l Hl.
  apply in_map_iff in Hl. destruct Hl as [t [<- Hin]].
  rewrite Forall_forall in Hls. specialize (Hls t Hin).
  unfold line_inv. cbn [o_tag o_text]. destruct tg as [cn| | |].
  - destruct Ht as [Hc Hn]. exists sc, name. repeat split; assumption.
  - destruct Ht as [Hrun [Hws Hunk]]. unfold emits in Hls. rewrite Hrun in Hls.
    destruct Hls as [arg [_ ->]]. exists name, arg. repeat split; assumption.
  - exact I.
  - contradiction Ht.
Qed.

Section Inv.
Variable fo : FloatOps.

(* a runner whose successful runs return only data satisfying the invariant *)
Definition runner_data_ok (r : runner fo) : Prop :=
  forall cx g e code g' cr e', r cx g e code = (g', IOk _ (cr, e')) -> cret_ok cr.

Section Stack.
Variable child : runner fo.
Variable cx : ctx.
Hypothesis Hchild : runner_data_ok child.

Lemma run_child_with_post : forall cur code file parallel setup pre,
  post fo (fun r => match r with Some cr => cret_ok cr | None => True end)
       (run_child_with fo child cx cur code file parallel setup pre).
Proof.
  intros cur code file parallel setup pre s s' r E. unfold run_child_with in E.
  destruct (cmp_eval _ _ _); [discriminate E|].
  destruct (setup _) as [cenv1|er|k|]; try discriminate E.
  destruct (pre cenv1) as [[|]|er|k|]; try discriminate E.
  - destruct (child _ _ _ _) as [g' [[cr cenv2]|er t|k|]] eqn:Ec; try discriminate E.
    injection E as _ <-. exact (Hchild _ _ _ _ _ _ _ Ec).
  - injection E as _ <-. exact I.
Qed.

Lemma run_child_post : forall cur code file parallel setup,
  post fo cret_ok (run_child fo child cx cur code file parallel setup).
Proof.
  intros cur code file parallel setup. unfold run_child.
  apply (post_bind _ _ _ _ _ _ _ (run_child_with_post cur code file parallel setup _)).
  intros [cr|] H; [apply post_ret; exact H | apply post_crash].
Qed.

(* ---------------------------------------------------------------- run_compile *)
Definition rc_ok (sc : simple_cls) (name : str) (r : rc) : Prop :=
  match r with
  | RNone => True
  | RLines ls => Forall (emits sc name) ls
  | RComp cr => cret_ok cr
  end.

Lemma run_compile_post : forall cur cname sc name arg,
  arg_pre2 sc arg -> post fo (rc_ok sc name) (run_compile fo child cx cur cname sc name arg).
Proof.
  intros cur cname sc name arg Harg. unfold run_compile, rc_ok, emits.
  destruct (s_run sc) eqn:Hrun.
  - (* RKDefault *) apply post_ret. constructor; [|constructor]. exists arg. split; [exact Harg | reflexivity].
  - (* RKEnter *)
    destruct arg as [l|].
    + destruct (l_content l) as [s|n]; [apply post_crash|].
      destruct (n <=? count_limit)%Z; [|apply post_unmod].
      apply post_ret. apply Forall_repeat. right. reflexivity.
    + apply post_ret. constructor; [|constructor]. left. reflexivity.
  - (* RKWhitespace *)
    destruct arg as [l|].
    + destruct (l_content l) as [s|n]; [apply post_crash|].
      destruct (n <=? count_limit)%Z; [|apply post_unmod].
      apply post_ret. apply Forall_repeat. reflexivity.
    + apply post_ret. constructor; [reflexivity | constructor].
  - (* RKRem *)
    destruct (include_comments (c_opts cx)); apply post_ret; [|exact I].
    constructor; [|constructor]. exists arg. split; [exact Harg | reflexivity].
  - (* RKDefaultDelay *)
    destruct arg as [l|]; [|apply post_crash].
    apply post_bind_any. intro e. destruct (l_content l) as [s|n]; [apply post_unmod|].
    destruct (has_key _ _); [|apply post_raise].
    apply post_bind_any. intros _. apply post_ret.
    constructor; [|constructor]. exists (Some l). split; [exact Harg | reflexivity].
  - (* RKPass *) apply post_ret. exact I.
  - (* RKPrint *)
    destruct arg as [l|]; [|apply post_ret; exact I].
    apply post_bind_any. intros _. apply post_ret. exact data_ok_nil.
  - apply post_ret. exact data_ok_nil.
  - apply post_ret. exact data_ok_nil.
  - apply post_ret. exact data_ok_nil.
  - (* RKRun *)
    destruct arg as [l|]; [|apply post_crash].
    destruct (break_arg _) as [fname var_string].
    apply post_bind_any. intro vals. apply post_bind_any. intro e.
    destruct (lookup _ _) as [f|]; [|apply post_raise].
    destruct (negb _); [apply post_raise|].
    apply (post_bind _ _ _ _ _ _ _ (run_child_post cur _ _ _ _)). intros cr Hcr.
    destruct (cr_sig cr); first [apply post_raise | apply post_ret; exact Hcr].
  - (* RKVar *)
    destruct arg as [l|]; [|apply post_crash].
    destruct (split_ws1 _) as [|vname [|expr [|x y]]]; try apply post_crash.
    apply post_bind_any. intro v. apply post_bind_any. intros _. apply post_ret. exact I.
  - (* RKExist *)
    destruct arg as [l|]; [|apply post_crash].
    apply post_bind_any. intro e. destruct (has_key _ _); [apply post_ret; exact I | apply post_raise].
  - (* RKNotExist *)
    destruct arg as [l|]; [|apply post_crash].
    apply post_bind_any. intro e. destruct (has_key _ _); [apply post_raise | apply post_ret; exact I].
  - (* RKStart *)
    destruct arg as [l|]; [|apply post_crash].
    destruct (c_file cx) as [file|]; [|apply post_crash].
    apply post_bind_any. intro target.
    destruct (c_fs cx target) as [text|]; [|apply post_raise].
    intro s. destruct (existsb _ _); [intros s' a E; discriminate E|].
    destruct (prepare_text text) as [commands|[| | | |]]; try (intros s' a E; discriminate E).
    revert s.
    apply (post_bind _ _ _ _ _ _ _ (run_child_post cur _ _ _ _)). intros cr Hcr.
    apply post_bind_any. intros _.
    destruct (str_eqb _ _); apply post_ret; [constructor | exact Hcr].
Qed.

Lemma multi_comp_post : forall cur cname tg sc name args acc,
  Forall (arg_pre2 sc) args -> tag_ok tg sc name -> cret_ok acc ->
  post fo cret_ok (multi_comp fo child cx cur cname tg sc name args acc).
Proof.
  intros cur cname tg sc name args. induction args as [|a r IH]; intros acc Hargs Htg Hacc; cbn [multi_comp].
  - apply post_ret. exact Hacc.
  - inversion Hargs as [|x y Ha Hr]; subst.
    apply post_bind_any. intros _.
    apply (post_bind _ _ _ _ _ _ _ (run_compile_post cur cname sc name a Ha)). intros c Hc.
    apply IH; [exact Hr | exact Htg|].
    destruct c as [|ls|cr]; cbn [rc_ok] in Hc.
    + exact Hacc.
    + unfold cret_ok. cbn [cr_data]. apply data_ok_app; [exact Hacc|]. exact (tagged_ok tg sc name ls Htg Hc).
    + unfold cret_ok. cbn [cr_data]. apply data_ok_app; [exact Hacc | exact Hc].
Qed.


(* ---------------------------------------------------------------- SimpleCommand.compile *)
Lemma simple_compile_post : forall cur cname tg sc cmd num argument code_block,
  simple_ok sc = true ->
  tag_ok tg sc (if starts36 (upper cmd) then tl cmd else cmd) ->
  post fo cret_ok (simple_compile fo child cx cur cname tg sc cmd num argument code_block).
Proof.
  intros cur cname tg sc cmd num argument code_block Hok Htg. unfold simple_compile.
  change (match upper cmd with 36%N :: _ => true | _ => false end) with (starts36 (upper cmd)).
  apply post_bind_any. intros _.
  apply (post_bind _ _ _ _ _ _ _
           (post_of_M_post _ _ anyK _ _ (listify_args_post fo anyK cx cur argument code_block num))).
  intros args0 Hargs0.
  set (args1 := if s_strip_args sc then map strip_line args0 else args0).
  assert (Hargs1 : Forall (fun l => strc (l_content l)) args1).
  { subst args1. destruct (s_strip_args sc); [|exact Hargs0].
    apply Forall_forall. intros l Hl. apply in_map_iff in Hl. destruct Hl as [l0 [<- Hl0]].
    apply strip_line_str. rewrite Forall_forall in Hargs0. exact (Hargs0 _ Hl0). }
  clearbody args1.
  apply (post_bind _ _ _ (Forall (opt_typed (s_arg_type sc)))).
  { destruct (_ || _).
    - apply post_bind_any. intro vs.
      induction vs as [|[l v] r IH]; [apply post_ret; constructor|].
      apply (post_bind _ _ _ (fun c => match c with Some c' => CrashFree.typed (s_arg_type sc) c' | None => True end)).
      { apply post_lift. intros [c|] Hc; [|exact I]. exact (CrashFree.typed_content_typed _ _ _ _ Hc). }
      intros c Hc. apply (post_bind _ _ _ _ _ _ _ IH). intros t Ht. apply post_ret.
      constructor; [exact Hc | exact Ht].
    - apply post_ret. apply Forall_forall. intros lc Hlc. apply in_map_iff in Hlc.
      destruct Hlc as [l [<- Hl]]. unfold opt_typed. cbn [snd].
      rewrite Forall_forall in Hargs1. specialize (Hargs1 _ Hl).
      destruct (s_arg_type sc); [apply strc_typed; [reflexivity | exact Hargs1] | exact I
                                | apply strc_typed; [reflexivity | exact Hargs1]]. }
  intros args2 Hargs2.
  apply (post_bind _ _ _ (fun _ => (s_arg_req sc = Required -> args2 <> [])
                                   /\ (s_arg_req sc = NotAllowed -> args2 = []))).
  { destruct args2 as [|x y]; destruct (s_arg_req sc);
      first [apply post_raise | apply post_ret; split; intro Hq; first [discriminate Hq | reflexivity | discriminate]]. }
  intros _ [Hreq Hnot].
  apply (post_bind _ _ _ _ _ _ _
           (post_of_M_post _ _ anyK _ _ (check_types_post fo anyK cx cur _ _ Hargs2))).
  intros args3 [Hargs3 Hlen3].
  apply post_bind_any. intros _.
  apply (post_bind _ _ _ _ _ _ _
           (post_of_M_post _ _ anyK _ _
              (verify_each_post fo anyK cx cur (s_params sc) _ _ _ (simple_ok_validator sc Hok) Hargs3))).
  intros _ Hver.
  assert (Hboth : Forall (fun l => CrashFree.typed (s_arg_type sc) (l_content l)
                   /\ eval_validator (s_params sc) (s_verify_arg sc) (l_content l) = Ok true) args3).
  { rewrite Forall_forall in *. intros l Hl. split; [exact (Hargs3 _ Hl) | exact (Hver _ Hl)]. }
  apply (post_bind _ _ _ _ _ _ _
           (post_of_M_post _ _ anyK _ _
              (format_each_post fo anyK cx cur sc _ (simple_ok_formatter sc Hok) Hboth))).
  intros args4 [Hargs4 Hlen4].
  apply multi_comp_post; [|exact Htg|exact data_ok_nil].
  destruct args4 as [|l4 r4].
  - constructor; [|constructor]. split; [|intro; reflexivity]. cbn [arg_pre]. intro Hr.
    apply (Hreq Hr). apply length_zero_nil. rewrite <- Hlen3, <- Hlen4. reflexivity.
  - apply Forall_forall. intros a Ha. apply in_map_iff in Ha. destruct Ha as [l [<- Hl]].
    rewrite Forall_forall in Hargs4. split; [exact (Hargs4 _ Hl)|].
    intro Hna. exfalso. rewrite (Hnot Hna) in Hlen3. cbn [length] in Hlen3.
    rewrite Hlen3 in Hlen4. discriminate Hlen4.
Qed.

(* ---------------------------------------------------------------- loops and block commands *)
Lemma repeat_loop_post : forall cur var_name argument code fuel count acc,
  cret_ok acc -> post fo cret_ok (repeat_loop fo child cx cur fuel var_name argument code count acc).
Proof.
  intros cur var_name argument code fuel.
  induction fuel as [|f IH]; intros count acc Hacc; cbn [repeat_loop];
    apply post_bind_any; intro n; (destruct (count <? n)%Z; [|apply post_ret; exact Hacc]).
  - apply post_crash.
  - apply (post_bind _ _ _ _ _ _ _ (run_child_post cur _ _ _ _)). intros cr Hcr.
    destruct (loop_signal (cr_sig cr)) as [sg brk].
    assert (Hacc' : cret_ok (mkCret (cr_data acc ++ cr_data cr) sg)).
    { unfold cret_ok. cbn [cr_data]. apply data_ok_app; assumption. }
    destruct brk; [apply post_ret; exact Hacc' | apply IH; exact Hacc'].
Qed.

Lemma while_loop_post : forall cur var_name argument code fuel count acc,
  cret_ok acc -> post fo cret_ok (while_loop fo child cx cur fuel var_name argument code count acc).
Proof.
  intros cur var_name argument code fuel.
  induction fuel as [|f IH]; intros count acc Hacc; cbn [while_loop];
    (destruct (cmp_eval while_limit_op count while_limit); [apply post_raise|]).
  - apply post_crash.
  - apply (post_bind _ _ _ _ _ _ _ (run_child_with_post cur _ _ _ _ _)). intros [cr|] Hcr.
    + destruct (loop_signal (cr_sig cr)) as [sg brk].
      assert (Hacc' : cret_ok (mkCret (cr_data acc ++ cr_data cr) sg)).
      { unfold cret_ok. cbn [cr_data]. apply data_ok_app; assumption. }
      destruct brk; [apply post_ret; exact Hacc' | apply IH; exact Hacc'].
    + apply post_ret. exact Hacc.
Qed.

(* block commands never emit text lines of their own; what they return is child data, raw IGNORE
   lines or the legacy REPEAT line *)
Definition brc_ok (r : rc) : Prop :=
  match r with
  | RNone => True
  | RLines ls => ls = []
  | RComp cr => cret_ok cr
  end.

Lemma untagged_ok : forall A (f : A -> str) (ls : list A),
  data_ok (map (fun l => mkO ByIgnore (f l)) ls).
Proof.
  intros A f ls. unfold data_ok. apply Forall_forall. intros l Hl. apply in_map_iff in Hl.
  destruct Hl as [x [<- _]]. exact I.
Qed.

Lemma block_compile_post : forall cur bc cname cmd num argument code_block,
  post fo brc_ok (block_compile fo child cx cur bc cname cmd num argument code_block).
Proof.
  intros cur bc cname cmd num argument code_block. unfold block_compile.
  apply post_bind_any. intros _. apply post_bind_any. intros _.
  destruct (b_kind bc).
  - (* IF *)
    apply post_bind_any. intro e. apply post_bind_any. intros _. apply post_bind_any. intros _.
    apply post_bind_any. intro tok. apply post_bind_any. intro flag. apply post_bind_any. intro skip.
    destruct skip; [apply post_ret; exact I|].
    destruct (_ && _); [apply post_ret; exact I|].
    apply post_bind_any. intros _.
    apply (post_bind _ _ _ _ _ _ _ (run_child_post cur _ _ _ _)). intros cr Hcr.
    apply post_ret. exact Hcr.
  - (* IGNORE *)
    destruct (block_lines _) as [ls|]; [|apply post_raise].
    apply post_ret. cbn [brc_ok]. unfold cret_ok. cbn [cr_data]. apply untagged_ok.
  - (* REPEAT *)
    destruct (if b_strip_arg bc then _ else _) as [a|]; [|apply post_crash].
    destruct (split_loop_arg a) as [var_name count_expr].
    destruct (match code_block with Some b => b | None => [] end).
    + destruct var_name; [apply post_raise|]. apply post_ret.
      cbn [brc_ok]. unfold cret_ok. cbn [cr_data]. constructor; [exists a; reflexivity | constructor].
    + destruct (match var_name with Some v => is_var v false | None => true end); [|apply post_raise].
      apply (post_bind _ _ _ _ _ _ _ (repeat_loop_post cur _ _ _ _ _ _ (cret_ok_nil SNormal))). intros cr Hcr.
      apply post_ret. exact Hcr.
  - (* WHILE *)
    destruct (if b_strip_arg bc then _ else _) as [a|]; [|apply post_crash].
    destruct (split_loop_arg a) as [var_name cond].
    apply (post_bind _ _ _ _ _ _ _ (while_loop_post cur _ _ _ _ _ _ (cret_ok_nil SNormal))). intros cr Hcr.
    apply post_ret. exact Hcr.
  - (* FUNC *)
    destruct (if b_strip_arg bc then _ else _) as [a|]; [|apply post_crash].
    destruct (break_arg a) as [fname var_string].
    destruct (_ && _); [|apply post_raise].
    apply post_bind_any. intro e. apply post_bind_any. intros _. apply post_ret. exact I.
Qed.

(* ---------------------------------------------------------------- dispatch, Stack.run *)
Lemma exec_line_post : forall c n code_block, post fo cret_ok (exec_line fo child cx c n code_block).
Proof.
  intros c n code_block. unfold exec_line.
  destruct (split_ws1 c) as [|cmd more] eqn:Hsp; [apply post_crash|].
  destruct (find_command palette cmd code_block) as [[cname cl]|] eqn:Hfind.
  - destruct (is_start_class cl && _); [apply post_raise|].
    destruct cl as [sc|bc].
    + apply simple_compile_post.
      * exact (find_command_ok _ _ _ _ Hfind).
      * cbn [tag_ok]. split; [exact (find_command_class _ _ _ _ Hfind)|].
        exact (simple_name_in sc cmd code_block (find_command_this _ _ _ _ _ Hfind)).
    + apply (post_bind _ _ _ _ _ _ _ (block_compile_post (c, n) bc cname cmd n _ code_block)).
      intros [|ls|cr] Hr; cbn [brc_ok] in Hr; apply post_ret.
      * exact data_ok_nil.
      * subst ls. exact data_ok_nil.
      * exact Hr.
  - apply post_bind_any. intros _.
    apply simple_compile_post; [exact generic_simple_ok|].
    cbn [tag_ok]. split; [reflexivity|]. split; [|exact (find_command_unknown _ _ Hfind)].
    pose proof (split_ws1_no_ws _ _ _ Hsp) as Hws.
    destruct (starts36 (upper cmd)); [exact (no_ws_tl _ Hws) | exact Hws].
Qed.

Lemma exec_cmds_post : forall cmds acc, data_ok acc -> post fo cret_ok (exec_cmds fo child cx cmds acc).
Proof.
  intro cmds. induction cmds as [|[c n|b] rest IH]; intros acc Hacc; cbn [exec_cmds].
  - apply post_ret. exact Hacc.
  - destruct (is_blank c); [apply IH; exact Hacc|].
    apply post_bind_any. intros _.
    apply (post_bind _ _ _ _ _ _ _ (exec_line_post c n _)). intros cr Hcr.
    assert (Hacc' : data_ok (acc ++ cr_data cr)) by (apply data_ok_app; assumption).
    destruct (cr_sig cr); first [apply IH; exact Hacc' | apply post_ret; exact Hacc'].
  - apply IH. exact Hacc.
Qed.

End Stack.

(* ================================================================== the depth-indexed interpreter *)
Lemma run_with_data_ok : forall child, runner_data_ok child -> runner_data_ok (run_with fo child).
Proof.
  intros child Hc cx g e cmds g' cr e' H. unfold run_with in H.
  destruct (exec_cmds fo child cx cmds [] _) as [s [cr0|er t|k|]] eqn:E; try discriminate H.
  injection H as _ <- _.
  exact (exec_cmds_post child cx Hc cmds [] data_ok_nil _ _ _ E).
Qed.

Lemma no_child_data_ok : runner_data_ok (no_child fo).
Proof. intros cx g e cmds g' cr e' H. discriminate H. Qed.

Lemma run_data_ok : forall d, runner_data_ok (run fo d).
Proof.
  induction d as [|d IH]; cbn [run]; apply run_with_data_ok; [exact no_child_data_ok | exact IH].
Qed.

(* ================================================================== Compiler.compile *)
Theorem compile_items_inv : forall o fs file cmds g c,
  compile_items fo o fs file cmds = (g, IOk _ c) -> Forall line_inv (out fo c).
Proof.
  intros o fs file cmds g c H. unfold compile_items in H.
  destruct (run fo (run_depth o) _ _ _ cmds) as [g1 [[cr e1]|er t|k1|]] eqn:Hrun; try discriminate H.
  injection H as _ <-. cbn [out]. exact (run_data_ok _ _ _ _ _ _ _ _ Hrun).
Qed.

Theorem compile_raw_inv : forall o fs file lines g c,
  compile_raw fo o fs file lines = (g, IOk _ c) -> Forall line_inv (out fo c).
Proof. intros o fs file lines g c H. exact (compile_items_inv _ _ _ _ _ _ H). Qed.

Theorem compile_text_inv : forall o fs file text g c,
  compile_text fo o fs file text = (g, IOk _ c) -> Forall line_inv (out fo c).
Proof.
  intros o fs file text g c H. unfold compile_text in H.
  destruct (prepare_text text) as [cmds|[| | | |]]; try discriminate H.
  exact (compile_items_inv _ _ _ _ _ _ H).
Qed.

End Inv.
