(* The forest of a core program (Spec/CoreText.v) against its item tree (Spec/CoreLang.v):
   what the indentation parser must produce for the rendered forest IS [items_from n p]
   (same lines, same blocks, same consecutive numbers) when no block is empty; and the forest
   of a well-formed program is a well-formed forest (every head is a proper code line). *)
From Coq Require Import NArith ZArith List Bool Lia.
From DS Require Import Base PyStr Values Expr TabParse Tables Constants Interp IdentSpec.
From DS Require Import BlockTree TabProofs TabRoundTrip PipelineProofs CoreLang CoreWf CoreLines CoreText.
Import ListNotations.

(* ================================================================== induction on statements *)
Definition opt_each (P : stmt -> Prop) (els : option (list stmt)) : Prop :=
  match els with Some b => each P b | None => True end.

Section StmtInd.
Variable P : stmt -> Prop.
Hypothesis H_emit : forall name text, P (SEmit name text).
Hypothesis H_eval : forall name e, P (SEmitEval name e).
Hypothesis H_var : forall x e, P (SVar x e).
Hypothesis H_if : forall arms els,
  each (fun cb : str * list stmt => let (_, b) := cb in each P b) arms ->
  opt_each P els -> P (SIf arms els).
Hypothesis H_repeat : forall c e b, each P b -> P (SRepeat c e b).
Hypothesis H_while : forall c e b, each P b -> P (SWhile c e b).
Hypothesis H_break : P SBreakLoop.
Hypothesis H_continue : P SContinueLoop.

Fixpoint stmt_ind2 (s : stmt) : P s :=
  match s with
  | SEmit name text => H_emit name text
  | SEmitEval name e => H_eval name e
  | SVar x e => H_var x e
  | SIf arms els =>
      H_if arms els
        ((fix go (arms : list (str * list stmt)) :
            each (fun cb : str * list stmt => let (_, b) := cb in each P b) arms :=
            match arms with
            | [] => I
            | (c, b) :: r =>
                conj ((fix gl (l : list stmt) : each P l :=
                         match l with [] => I | s0 :: t => conj (stmt_ind2 s0) (gl t) end) b) (go r)
            end) arms)
        (match els as o return opt_each P o with
         | Some b => (fix gl (l : list stmt) : each P l :=
                        match l with [] => I | s0 :: t => conj (stmt_ind2 s0) (gl t) end) b
         | None => I
         end)
  | SRepeat c e b =>
      H_repeat c e b ((fix gl (l : list stmt) : each P l :=
                         match l with [] => I | s0 :: t => conj (stmt_ind2 s0) (gl t) end) b)
  | SWhile c e b =>
      H_while c e b ((fix gl (l : list stmt) : each P l :=
                        match l with [] => I | s0 :: t => conj (stmt_ind2 s0) (gl t) end) b)
  | SBreakLoop => H_break
  | SContinueLoop => H_continue
  end.
End StmtInd.

Lemma each_all_list : forall (A : Type) (P : A -> Prop) l, each P l <-> all_list P l.
Proof. intros A P l. reflexivity. Qed.

Lemma each_impl : forall (A : Type) (P Q : A -> Prop) l,
  each (fun a => P a -> Q a) l -> each P l -> each Q l.
Proof.
  intros A P Q. induction l as [|a r IH]; intros H1 H2; [exact I|].
  destruct H1 as [Ha Hr]. destruct H2 as [Pa Pr]. split; [apply Ha; exact Pa|apply IH; assumption].
Qed.

(* ================================================================== forests: sizes and appends *)
Lemma forest_size_app : forall a b, forest_size (a ++ b) = forest_size a + forest_size b.
Proof.
  intros a b. induction a as [|k a IH]; [reflexivity|].
  cbn [app]. rewrite !forest_size_cons, IH. lia.
Qed.

Lemma expected_forest_app : forall a b n,
  expected_forest (a ++ b) n = expected_forest a n ++ expected_forest b (n + Z.of_nat (forest_size a))%Z.
Proof.
  induction a as [|k a IH]; intros b n.
  - cbn [app expected_forest]. change (forest_size []) with 0.
    replace (n + Z.of_nat 0)%Z with n by lia. reflexivity.
  - cbn [app expected_forest]. rewrite IH. rewrite <- app_assoc. f_equal. f_equal.
    rewrite forest_size_cons. f_equal. lia.
Qed.

Lemma wf_forest_app : forall a b, wf_forest a -> wf_forest b -> wf_forest (a ++ b).
Proof. intros a b Ha Hb. unfold wf_forest in *. apply Forall_app. split; assumption. Qed.

Lemma expected_block_node : forall c kids n, kids <> [] ->
  expected_node (Stmt c kids) n = [Ln c n; Blk (expected_forest kids (n + 1)%Z)].
Proof. intros c kids n H. rewrite expected_node_eq. destruct kids; [contradiction|reflexivity]. Qed.

Lemma expected_single : forall nd n, expected_forest [nd] n = expected_node nd n.
Proof. intros nd n. cbn [expected_forest]. apply app_nil_r. Qed.

Lemma forest_size_single : forall c kids, forest_size [Stmt c kids] = S (forest_size kids).
Proof. intros c kids. rewrite forest_size_cons, node_size_eq. change (forest_size []) with 0. lia. Qed.

(* ================================================================== the forest IS the item tree *)
(* the two facts carried by the induction, for one statement and for a list *)
Definition agrees (s : stmt) : Prop :=
  blocks_nonempty s ->
  stmt_nodes s <> [] /\
  Z.of_nat (forest_size (stmt_nodes s)) = size s /\
  forall n, expected_forest (stmt_nodes s) n = stmt_items n s.

Lemma agrees_list : forall b, each agrees b -> each blocks_nonempty b ->
  (b <> [] -> forest_of b <> []) /\
  Z.of_nat (forest_size (forest_of b)) = sum_sizes size b /\
  forall n, expected_forest (forest_of b) n = seq_items stmt_items size n b.
Proof.
  induction b as [|s r IH]; intros Hag Hbn.
  - split; [intro H; contradiction|]. split; [reflexivity|]. intro n. reflexivity.
  - destruct Hag as [Hs Hr]. destruct Hbn as [Bs Br].
    destruct (Hs Bs) as (Hne & Hsz & Hex). destruct (IH Hr Br) as (_ & Hsz' & Hex').
    unfold forest_of in *. cbn [flat_map]. split; [|split].
    + intros _ E. apply app_eq_nil in E. destruct E as [E _]. exact (Hne E).
    + rewrite forest_size_app, Nat2Z.inj_add, Hsz, Hsz'. reflexivity.
    + intro n. rewrite expected_forest_app, Hex, Hex', Hsz. reflexivity.
Qed.

Lemma agrees_block_stmt : forall head b n, b <> [] -> each agrees b -> each blocks_nonempty b ->
  [Stmt head (forest_of b)] <> [] /\
  Z.of_nat (forest_size [Stmt head (forest_of b)]) = (1 + sum_sizes size b)%Z /\
  expected_forest [Stmt head (forest_of b)] n = [Ln head n; Blk (seq_items stmt_items size (n + 1)%Z b)].
Proof.
  intros head b n Hne Hag Hbn. destruct (agrees_list b Hag Hbn) as (Hk & Hsz & Hex).
  split; [discriminate|]. split.
  - rewrite forest_size_single, Nat2Z.inj_succ, Hsz. lia.
  - rewrite expected_single, expected_block_node by (apply Hk; exact Hne). rewrite Hex. reflexivity.
Qed.

Lemma agrees_arms : forall els,
  match els with Some b => each agrees b | None => True end ->
  match els with Some b => b <> [] /\ each blocks_nonempty b | None => True end ->
  forall arms,
  each (fun cb : str * list stmt => let (_, b) := cb in each agrees b) arms ->
  each (fun cb : str * list stmt => let (_, b) := cb in b <> [] /\ each blocks_nonempty b) arms ->
  forall first n,
  Z.of_nat (forest_size (arms_nodes_gen forest_of els first arms)) =
  (sum_sizes (fun cb : str * list stmt => let (_, b) := cb in 1 + sum_sizes size b) arms
   + match els with Some b => 1 + sum_sizes size b | None => 0 end)%Z /\
  expected_forest (arms_nodes_gen forest_of els first arms) n =
  arms_items_gen (seq_items stmt_items size) (sum_sizes size) els first n arms.
Proof.
  intros els Hae Hbe. induction arms as [|[c b] r IH]; intros Hag Hbn first n.
  - cbn [arms_nodes_gen arms_items_gen sum_sizes]. destruct els as [b|].
    + destruct Hbe as [Hne Hb]. destruct (agrees_block_stmt kw_ELSE b n Hne Hae Hb) as (_ & Hsz & Hex).
      split; [rewrite Hsz; lia|exact Hex].
    + split; reflexivity.
  - destruct Hag as [Hb Hr]. destruct Hbn as [[Hne Bb] Br].
    cbn [arms_nodes_gen arms_items_gen sum_sizes].
    set (head := (if first then kw_IF else kw_ELIF) ++ CoreLang.sp :: c).
    destruct (agrees_block_stmt head b n Hne Hb Bb) as (_ & Hsz & Hex).
    destruct (agrees_list b Hb Bb) as (_ & Hszb & _).
    change (Stmt head (forest_of b) :: arms_nodes_gen forest_of els false r)
      with ([Stmt head (forest_of b)] ++ arms_nodes_gen forest_of els false r).
    destruct (IH Hr Br false (n + (1 + sum_sizes size b))%Z) as [Hsz' Hex'].
    split.
    + rewrite forest_size_app, Nat2Z.inj_add, Hsz. destruct (IH Hr Br false n) as [Hs2 _]. rewrite Hs2. lia.
    + rewrite expected_forest_app, Hex, Hsz, Hex'. cbn [app].
      replace (n + (1 + sum_sizes size b))%Z with (n + 1 + sum_sizes size b)%Z by lia. reflexivity.
Qed.

Lemma stmt_nodes_if : forall arms els, stmt_nodes (SIf arms els) = arms_nodes_gen forest_of els true arms.
Proof. reflexivity. Qed.

Theorem stmt_agrees : forall s, agrees s.
Proof.
  apply stmt_ind2.
  - intros name text _. split; [discriminate|]. split; [reflexivity|]. intro n. reflexivity.
  - intros name e _. split; [discriminate|]. split; [reflexivity|]. intro n. reflexivity.
  - intros x e _. split; [discriminate|]. split; [reflexivity|]. intro n. reflexivity.
  - intros arms els Ha He Hbn. cbn [blocks_nonempty] in Hbn. destruct Hbn as (Hne & Hba & Hbe).
    rewrite stmt_nodes_if.
    assert (Hbe' : match els with Some b => b <> [] /\ each blocks_nonempty b | None => True end).
    { destruct els; exact Hbe. }
    split; [|split].
    + destruct arms as [|[c b] r]; [contradiction|]. cbn [arms_nodes_gen]. discriminate.
    + destruct (agrees_arms els He Hbe' arms Ha Hba true 0%Z) as [Hsz _]. rewrite Hsz. reflexivity.
    + intro n. destruct (agrees_arms els He Hbe' arms Ha Hba true n) as [_ Hex]. exact Hex.
  - intros c e b Hb Hbn. cbn [blocks_nonempty] in Hbn. destruct Hbn as [Hne Bb].
    change (stmt_nodes (SRepeat c e b)) with [Stmt (kw_REPEAT ++ CoreLang.sp :: loop_arg c e) (forest_of b)].
    split; [discriminate|]. split.
    + destruct (agrees_block_stmt (kw_REPEAT ++ CoreLang.sp :: loop_arg c e) b 0%Z Hne Hb Bb) as (_ & Hsz & _). exact Hsz.
    + intro n. destruct (agrees_block_stmt (kw_REPEAT ++ CoreLang.sp :: loop_arg c e) b n Hne Hb Bb) as (_ & _ & Hex). exact Hex.
  - intros c e b Hb Hbn. cbn [blocks_nonempty] in Hbn. destruct Hbn as [Hne Bb].
    change (stmt_nodes (SWhile c e b)) with [Stmt (kw_WHILE ++ CoreLang.sp :: loop_arg c e) (forest_of b)].
    split; [discriminate|]. split.
    + destruct (agrees_block_stmt (kw_WHILE ++ CoreLang.sp :: loop_arg c e) b 0%Z Hne Hb Bb) as (_ & Hsz & _). exact Hsz.
    + intro n. destruct (agrees_block_stmt (kw_WHILE ++ CoreLang.sp :: loop_arg c e) b n Hne Hb Bb) as (_ & _ & Hex). exact Hex.
  - intros _. split; [discriminate|]. split; [reflexivity|]. intro n. reflexivity.
  - intros _. split; [discriminate|]. split; [reflexivity|]. intro n. reflexivity.
Qed.

Lemma each_intro : forall (A : Type) (P : A -> Prop), (forall a, P a) -> forall l, each P l.
Proof. intros A P H. induction l as [|a r IH]; [exact I|split; [apply H|exact IH]]. Qed.

(* THE correspondence: the tree the parser must produce for the forest of p, first line
   numbered n, is items_from n p *)
Theorem expected_forest_items : forall p n, blocks_nonempty_list p ->
  expected_forest (forest_of p) n = items_from n p.
Proof.
  intros p n H. destruct (agrees_list p (each_intro _ _ stmt_agrees p) H) as (_ & _ & Hex). apply Hex.
Qed.

Theorem forest_size_program : forall p, blocks_nonempty_list p ->
  Z.of_nat (forest_size (forest_of p)) = sum_sizes size p.
Proof.
  intros p H. destruct (agrees_list p (each_intro _ _ stmt_agrees p) H) as (_ & Hsz & _). exact Hsz.
Qed.

(* ================================================================== well-formed programs *)
Theorem wf_blocks_nonempty : forall s, wf s -> blocks_nonempty s.
Proof.
  apply (stmt_ind2 (fun s => wf s -> blocks_nonempty s)); try (intros; exact I).
  - intros arms els Ha He Hwf. apply wf_if_unfold in Hwf. destruct Hwf as (Hne & Hwa & Hwe).
    cbn [blocks_nonempty]. split; [exact Hne|]. split.
    + clear Hne. induction arms as [|[c b] r IH]; [exact I|].
      destruct Ha as [Hb Hr]. destruct Hwa as [(_ & Hbne & Hwb) Hwr].
      split; [split; [exact Hbne|exact (each_impl _ _ _ b Hb Hwb)]|exact (IH Hr Hwr)].
    + destruct els as [b|]; [|exact I]. destruct Hwe as [Hbne Hwb].
      split; [exact Hbne|exact (each_impl _ _ _ b He Hwb)].
  - intros c e b Hb (_ & _ & Hne & Hwb). split; [exact Hne|exact (each_impl _ _ _ b Hb Hwb)].
  - intros c e b Hb (_ & _ & Hne & Hwb). split; [exact Hne|exact (each_impl _ _ _ b Hb Hwb)].
Qed.

Theorem wf_list_blocks_nonempty : forall p, wf_list p -> blocks_nonempty_list p.
Proof.
  intros p H. exact (each_impl _ _ _ p (each_intro _ _ wf_blocks_nonempty p) H).
Qed.

(* ------------------------------------------------------------------ the heads are code lines *)
Lemma wf_content_head : forall c t, isspace_c c = false -> c <> 34%N -> wf_content (c :: t).
Proof.
  intros c t Hs Hq. split; [exact Hs|]. unfold triple_quote. cbn [startswith].
  destruct (N.eqb_spec 34%N c) as [E|E]; [exfalso; apply Hq; symmetry; exact E|reflexivity].
Qed.

(* no command name of the palette begins with a double quote *)
Definition name_plain (nm : str) : bool := match nm with 34%N :: _ => false | _ => true end.
Lemma palette_names_plain :
  forallb (fun nc : str * cls => match snd nc with
                                 | Simple sc => forallb name_plain (s_names sc)
                                 | Block bc => forallb name_plain (b_names bc)
                                 end) palette = true.
Proof. vm_compute. reflexivity. Qed.

Lemma str_in_In' : forall (s : str) l, str_in s l = true -> In s l.
Proof.
  intros s. induction l as [|x r IH]; cbn [str_in]; intro H; [discriminate|].
  apply orb_true_iff in H. destruct H as [H|H]; [left; symmetry; apply str_eqb_eq; exact H|right; apply IH; exact H].
Qed.

Lemma find_command_found : forall pal cmd cb n c,
  find_command pal cmd cb = Some (n, c) -> In (n, c) pal /\ is_this_command c cmd cb = true.
Proof.
  induction pal as [|[n0 c0] r IH]; intros cmd cb n c H; [discriminate|].
  cbn [find_command] in H. destruct (is_this_command c0 cmd cb) eqn:E.
  - injection H as <- <-. split; [left; reflexivity|exact E].
  - destruct (IH cmd cb n c H) as [Hin Hc]. split; [right; exact Hin|exact Hc].
Qed.

Lemma found_simple_plain : forall w cn sc,
  find_command palette w None = Some (cn, Simple sc) ->
  name_plain (match upper w with 36%N :: r => r | _ => upper w end) = true.
Proof.
  intros w cn sc H. destruct (find_command_found palette w None cn (Simple sc) H) as [Hin Hc].
  pose proof palette_names_plain as Hp. rewrite forallb_forall in Hp. specialize (Hp (cn, Simple sc) Hin).
  cbn [snd] in Hp. rewrite forallb_forall in Hp. apply Hp.
  cbn [is_this_command] in Hc. destruct (s_names sc) as [|x l]; [discriminate|].
  apply str_in_In'. exact Hc.
Qed.

Lemma word_head : forall w, word_okb w = true -> exists c t, w = c :: t /\ isspace_c c = false.
Proof.
  intros w H. destruct (word_okb_facts w H) as (Hne & Hws & _ & _).
  destruct w as [|c t]; [contradiction|]. exists c, t. split; [reflexivity|].
  unfold ChainProofs.no_ws in Hws. cbn [forallb] in Hws. apply andb_true_iff in Hws. destruct Hws as [Hc _].
  apply negb_true_iff in Hc. exact Hc.
Qed.

Lemma emit_head_content : forall name text, emit_name_ok name = true -> wf_content (name ++ CoreLang.sp :: text).
Proof.
  intros name text H. unfold emit_name_ok in H. apply andb_true_iff in H. destruct H as [Hw Hcls].
  destruct (word_okb_facts name Hw) as (_ & _ & Hup & Hnd).
  destruct (word_head name Hw) as (c & t & -> & Hc).
  destruct (find_command palette (c :: t) None) as [[cn [sc|bc]]|] eqn:Ef; try discriminate.
  pose proof (found_simple_plain (c :: t) cn sc Ef) as Hp. rewrite Hup in Hp.
  cbn [app]. apply wf_content_head; [exact Hc|].
  intros ->. unfold starts_dollar in Hnd. cbn in Hp. discriminate.
Qed.

Lemma kw_content : forall c t rest, isspace_c c = false -> c <> 34%N -> wf_content ((c :: t) ++ rest).
Proof. intros c t rest H1 H2. cbn [app]. apply wf_content_head; assumption. Qed.

Definition lines_wf (s : stmt) : Prop := wf s -> wf_forest (stmt_nodes s).

Lemma leaf_forest : forall c, wf_content c -> wf_forest [Stmt c []].
Proof. intros c H. constructor; [|constructor]. constructor; [exact H|constructor]. Qed.

Lemma lines_wf_list : forall b, each lines_wf b -> wf_list b -> wf_forest (forest_of b).
Proof.
  induction b as [|s r IH]; intros Hl Hw; [constructor|].
  destruct Hl as [Hs Hr]. destruct Hw as [Ws Wr]. unfold forest_of. cbn [flat_map].
  apply wf_forest_app; [apply Hs; exact Ws|apply IH; assumption].
Qed.

Lemma block_forest : forall c b, wf_content c -> each lines_wf b -> wf_list b -> wf_forest [Stmt c (forest_of b)].
Proof.
  intros c b Hc Hl Hw. constructor; [|constructor]. constructor; [exact Hc|].
  exact (lines_wf_list b Hl Hw).
Qed.

Ltac kwc :=
  unfold kw_IF, kw_ELIF, kw_ELSE, kw_VAR, kw_REPEAT, kw_WHILE, kw_BREAKLOOP, kw_CONTINUELOOP;
  cbn [app]; apply wf_content_head; [reflexivity|discriminate].

Theorem stmt_lines_wf : forall s, lines_wf s.
Proof.
  apply stmt_ind2; unfold lines_wf.
  - intros name text (Hn & _). apply leaf_forest. apply emit_head_content. exact Hn.
  - intros name e _. apply leaf_forest. kwc.
  - intros x e _. apply leaf_forest. kwc.
  - intros arms els Ha He Hwf. apply wf_if_unfold in Hwf. destruct Hwf as (_ & Hwa & Hwe).
    rewrite stmt_nodes_if. generalize true as first.
    induction arms as [|[c b] r IH]; intro first.
    + cbn [arms_nodes_gen]. destruct els as [b|]; [|constructor]. destruct Hwe as [_ Hwb].
      apply block_forest; [kwc|exact He|exact Hwb].
    + destruct Ha as [Hb Hr]. destruct Hwa as [(_ & _ & Hwb) Hwr]. cbn [arms_nodes_gen].
      change (Stmt ?h (forest_of b) :: ?rest) with ([Stmt h (forest_of b)] ++ rest).
      apply wf_forest_app; [|apply IH; assumption].
      apply block_forest; [|exact Hb|exact Hwb].
      destruct first; kwc.
  - intros c e b Hb (_ & _ & _ & Hwb).
    apply (block_forest _ b); [kwc|exact Hb|exact Hwb].
  - intros c e b Hb (_ & _ & _ & Hwb).
    apply (block_forest _ b); [kwc|exact Hb|exact Hwb].
  - intros _. apply leaf_forest. kwc.
  - intros _. apply leaf_forest. kwc.
Qed.

Theorem wf_list_forest : forall p, wf_list p -> wf_forest (forest_of p).
Proof. intros p H. exact (lines_wf_list p (each_intro _ _ stmt_lines_wf p) H). Qed.
