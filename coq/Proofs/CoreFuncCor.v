(* Consequences of the reference semantics with functions (Spec/CoreFunc.v), proved ON THE
   SPECIFICATION ALONE: the clauses of C07 (arguments evaluated in the caller, positional binding,
   output at the call site, RETURN ends the innermost call only, latest definition wins, a
   definition made in a block is invisible after it, what a call does to the caller's variables,
   unknown names and wrong arity have no derivation), and that the depth index is an upper bound. *)
From Coq Require Import NArith ZArith List Bool Lia.
From DS Require Import Base PyStr Values Expr TabParse Tables Constants Interp ScopeProofs.
From DS Require Import ExprAst TreeProofs MoreProofs Spelling ScanSpelled RunProofs RunArgs FuncLift CoreLang CoreRefine CoreScope CoreFunc.
Import ListNotations.

Section Cor.
Variable fo : FloatOps.
Variable sys : store fo.
Notation value := (value fo).
Notation store := (store fo).
Notation names := (CoreScope.names fo).
Notation extends := (CoreScope.extends fo).

(* ================================================================== the depth is an upper bound *)
Theorem depth_mono_all :
  (forall d F f vs stm sg F' f' vs' out, exec fo sys d F f vs stm sg F' f' vs' out ->
     forall d', (d <= d')%nat -> exec fo sys d' F f vs stm sg F' f' vs' out) /\
  (forall d F f vs p sg F' f' vs' out, exec_list fo sys d F f vs p sg F' f' vs' out ->
     forall d', (d <= d')%nat -> exec_list fo sys d' F f vs p sg F' f' vs' out) /\
  (forall d F b vs arms els sg taken vs' out, exec_arms fo sys d F b vs arms els sg taken vs' out ->
     forall d', (d <= d')%nat -> exec_arms fo sys d' F b vs arms els sg taken vs' out) /\
  (forall d F f c e body k vs sg vs' out, exec_repeat fo sys d F f c e body k vs sg vs' out ->
     forall d', (d <= d')%nat -> exec_repeat fo sys d' F f c e body k vs sg vs' out) /\
  (forall d F c e body k vs sg vs' out, exec_while fo sys d F c e body k vs sg vs' out ->
     forall d', (d <= d')%nat -> exec_while fo sys d' F c e body k vs sg vs' out).
Proof.
  apply (exec_all_mind fo sys
    (fun d F f vs stm sg F' f' vs' out => forall d', (d <= d')%nat -> exec fo sys d' F f vs stm sg F' f' vs' out)
    (fun d F f vs p sg F' f' vs' out => forall d', (d <= d')%nat -> exec_list fo sys d' F f vs p sg F' f' vs' out)
    (fun d F b vs arms els sg taken vs' out => forall d', (d <= d')%nat -> exec_arms fo sys d' F b vs arms els sg taken vs' out)
    (fun d F f c e body k vs sg vs' out => forall d', (d <= d')%nat -> exec_repeat fo sys d' F f c e body k vs sg vs' out)
    (fun d F c e body k vs sg vs' out => forall d', (d <= d')%nat -> exec_while fo sys d' F c e body k vs sg vs' out)).
  - intros. apply E_Emit.
  - intros. eapply E_EmitEval; eassumption.
  - intros. eapply E_Var; eassumption.
  - intros d F f vs arms els sg taken vs' out _ IH d' Hle. apply E_If. apply IH. exact Hle.
  - intros d F f vs c e body sg vs' out _ IH d' Hle. apply E_Repeat. apply IH. exact Hle.
  - intros d F f vs c e body sg vs' out _ IH d' Hle. apply E_While. apply IH. exact Hle.
  - intros. apply E_Break.
  - intros. apply E_Continue.
  - intros. apply E_Return.
  - intros. apply E_Func.
  - intros d F f vs name args vals ps body sg F1 f1 vs1 out Ha Hl Hlen _ IH Hsg d' Hle.
    destruct d' as [|d']; [lia|]. eapply E_Run; try eassumption. apply IH. lia.
  - intros. apply L_Nil.
  - intros d F f vs s r F1 f1 vs1 o1 sg F2 f2 vs2 o2 _ IH1 _ IH2 d' Hle.
    eapply L_Cons; [apply IH1|apply IH2]; exact Hle.
  - intros d F f vs s r sg F1 f1 vs1 o1 _ IH1 Hsg d' Hle. eapply L_Stop; [apply IH1; exact Hle|exact Hsg].
  - intros d F b vs c body rest els v sg F1 f1 vs1 out Hv Ht _ IH Hlater d' Hle.
    destruct d' as [|d']; [lia|]. eapply A_Take; try eassumption. apply IH. lia.
  - intros d F b vs c body rest els v sg taken vs' out Hv Ht _ IH d' Hle.
    eapply A_Skip; try eassumption. apply IH. exact Hle.
  - intros d F b vs body sg F1 f1 vs1 out _ IH d' Hle.
    destruct d' as [|d']; [lia|]. eapply A_Else. apply IH. lia.
  - intros. apply A_None.
  - intros. eapply R_Done; eassumption.
  - intros d F f c e body k vs v n sg F1 f1 vs1 o1 sg' vs' o2 Hv Hn Hr Hk _ IHb Hsg _ IHr d' Hle.
    destruct d' as [|d']; [lia|]. eapply R_Iter; try eassumption; [apply IHb; lia|apply IHr; lia].
  - intros d F f c e body k vs v n sg F1 f1 vs1 o1 Hv Hn Hr Hk _ IHb Hsg d' Hle.
    destruct d' as [|d']; [lia|]. eapply R_Stop; try eassumption. apply IHb. lia.
  - intros d F c e body k vs v Hk Hv Ht d' Hle.
    destruct d' as [|d']; [lia|]. eapply W_Done; eassumption.
  - intros d F c e body k vs v sg F1 f1 vs1 o1 sg' vs' o2 Hk Hv Ht _ IHb Hsg _ IHw d' Hle.
    destruct d' as [|d']; [lia|]. eapply W_Iter; try eassumption; [apply IHb; lia|apply IHw; lia].
  - intros d F c e body k vs v sg F1 f1 vs1 o1 Hk Hv Ht _ IHb Hsg d' Hle.
    destruct d' as [|d']; [lia|]. eapply W_Stop; try eassumption. apply IHb. lia.
Qed.

Theorem depth_mono : forall d d' F f vs p sg F' f' vs' out,
  exec_list fo sys d F f vs p sg F' f' vs' out -> (d <= d')%nat ->
  exec_list fo sys d' F f vs p sg F' f' vs' out.
Proof. intros d d' F f vs p sg F' f' vs' out H Hle. destruct depth_mono_all as (_ & H2 & _). exact (H2 _ _ _ _ _ _ _ _ _ _ H d' Hle). Qed.

(* ================================================================== inversion of a call *)
(* everything a derivation of RUN contains (rule E_Run is the only one) *)
Theorem run_inv : forall d F f vs name args sg F' f' vs' out,
  exec fo sys d F f vs (FRun name args) sg F' f' vs' out ->
  exists d1 vals ps body sgb F1 f1 vs1,
    d = S d1 /\
    run_args fo sys f vs args vals /\                   (* the arguments, in the CALLER's flag and store *)
    lookup name F = Some (ps, body) /\                  (* the definition visible AT CALL TIME *)
    length ps = length vals /\
    exec_list fo sys d1 F None (bind_params fo ps vals vs) body sgb F1 f1 vs1 out /\   (* the body's lines ARE the call's lines *)
    (sgb = Normal \/ sgb = Returned) /\                 (* BREAKLOOP / CONTINUELOOP may not escape *)
    sg = Normal /\                                      (* RETURN ended the call, nothing more *)
    F' = F /\ f' = f /\ vs' = copy_back fo vs vs1.
Proof.
  intros d F f vs name args sg F' f' vs' out H. inversion H; subst.
  do 8 eexists. repeat split; eassumption.
Qed.

(* RETURN ends only the innermost call: the statements after the call run *)
Theorem return_ends_only_the_call : forall d F f vs name args vals ps body F1 f1 vs1 ob r sg F2 f2 vs2 o2,
  run_args fo sys f vs args vals -> lookup name F = Some (ps, body) -> length ps = length vals ->
  exec_list fo sys d F None (bind_params fo ps vals vs) body Returned F1 f1 vs1 ob ->
  exec_list fo sys (S d) F f (copy_back fo vs vs1) r sg F2 f2 vs2 o2 ->
  exec_list fo sys (S d) F f vs (FRun name args :: r) sg F2 f2 vs2 (ob ++ o2).
Proof.
  intros d F f vs name args vals ps body F1 f1 vs1 ob r sg F2 f2 vs2 o2 Ha Hl Hlen Hb Hr.
  eapply L_Cons; [|exact Hr]. eapply E_Run; try eassumption. right. reflexivity.
Qed.

(* the output of a call is placed at the call site: between what came before and what follows *)
Theorem output_at_call_site : forall d F f vs name args r sg F' f' vs' out,
  exec_list fo sys d F f vs (FRun name args :: r) sg F' f' vs' out ->
  exists d1 vals ps body sgb F1 f1 vs1 ob o2,
    d = S d1 /\ run_args fo sys f vs args vals /\ lookup name F = Some (ps, body) /\
    exec_list fo sys d1 F None (bind_params fo ps vals vs) body sgb F1 f1 vs1 ob /\
    exec_list fo sys d F f (copy_back fo vs vs1) r sg F' f' vs' o2 /\
    out = ob ++ o2.
Proof.
  intros d F f vs name args r sg F' f' vs' out H. inversion H; subst.
  - match goal with Hc : exec _ _ _ _ _ _ (FRun _ _) _ _ _ _ _ |- _ =>
      destruct (run_inv _ _ _ _ _ _ _ _ _ _ _ Hc) as (d1 & vals & ps & body & sgb & F1' & f1' & vs1' & Hd & Ha & Hl & _ & Hb & _ & _ & -> & -> & ->) end.
    exists d1, vals, ps, body, sgb, F1', f1', vs1'. do 2 eexists. repeat split; eassumption.
  - match goal with Hc : exec _ _ _ _ _ _ (FRun _ _) _ _ _ _ _ |- _ =>
      destruct (run_inv _ _ _ _ _ _ _ _ _ _ _ Hc) as (_ & _ & _ & _ & _ & _ & _ & _ & _ & _ & _ & _ & _ & _ & Hn & _) end.
    contradiction.
Qed.

(* ================================================================== the errors have no derivation *)
Theorem unknown_function_no_derivation : forall d F f vs name args sg F' f' vs' out,
  lookup name F = None -> ~ exec fo sys d F f vs (FRun name args) sg F' f' vs' out.
Proof.
  intros d F f vs name args sg F' f' vs' out Hl H.
  destruct (run_inv _ _ _ _ _ _ _ _ _ _ _ H) as (d1 & vals & ps & body & sgb & F1 & f1 & vs1 & _ & _ & Hl' & _).
  pose proof (eq_trans (eq_sym Hl') Hl) as E. discriminate E.
Qed.

Lemma run_args_functional : forall f vs args v1 v2,
  run_args fo sys f vs args v1 -> run_args fo sys f vs args v2 -> v1 = v2.
Proof.
  intros f vs [|a r] v1 v2 H1 H2; cbn in H1, H2; [subst; reflexivity|].
  destruct H1 as (x1 & E1 & ->). destruct H2 as (x2 & E2 & ->).
  unfold eval in E1, E2. rewrite E1 in E2. injection E2 as ->. reflexivity.
Qed.

Theorem wrong_arity_no_derivation : forall d F f vs name args vals ps body sg F' f' vs' out,
  lookup name F = Some (ps, body) -> run_args fo sys f vs args vals -> length ps <> length vals ->
  ~ exec fo sys d F f vs (FRun name args) sg F' f' vs' out.
Proof.
  intros d F f vs name args vals ps body sg F' f' vs' out Hl Ha Hlen H.
  destruct (run_inv _ _ _ _ _ _ _ _ _ _ _ H) as (d1 & vals' & ps' & body' & sgb & F1 & f1 & vs1 & _ & Ha' & Hl' & Hlen' & _).
  pose proof (eq_trans (eq_sym Hl') Hl) as E. injection E as -> ->.
  rewrite (run_args_functional f vs args vals vals' Ha Ha') in Hlen. contradiction.
Qed.

(* ================================================================== the function table *)
Lemma lookup_set_fun_same : forall x d F, lookup x (set_fun x d F) = Some d.
Proof.
  intros x d F. induction F as [|[y w] r IH]; cbn [set_fun lookup].
  - rewrite str_eqb_refl. reflexivity.
  - destruct (str_eqb x y) eqn:E; cbn [lookup]; [rewrite str_eqb_refl; reflexivity|rewrite E; exact IH].
Qed.

Lemma lookup_set_fun_other : forall x y d F, str_eqb y x = false -> lookup y (set_fun x d F) = lookup y F.
Proof.
  intros x y d F Hne. induction F as [|[z w] r IH]; cbn [set_fun lookup].
  - rewrite Hne. reflexivity.
  - destruct (str_eqb x z) eqn:E; cbn [lookup].
    + apply ScopeProofs.str_eqb_eq in E. subst z. rewrite Hne. reflexivity.
    + destruct (str_eqb y z); [reflexivity|exact IH].
Qed.

Lemma set_fun_twice : forall x d1 d2 F, set_fun x d2 (set_fun x d1 F) = set_fun x d2 F.
Proof.
  intros x d1 d2 F. induction F as [|[y w] r IH]; cbn [set_fun].
  - rewrite str_eqb_refl. reflexivity.
  - destruct (str_eqb x y) eqn:E; cbn [set_fun]; [rewrite str_eqb_refl; reflexivity|rewrite E, IH; reflexivity].
Qed.

(* the latest definition wins: after FUNC name .. b1 ; FUNC name .. b2 the table is as if only the
   second had been made, and a call runs b2 *)
Theorem latest_definition_wins : forall x d1 d2 F,
  lookup x (set_fun x d2 (set_fun x d1 F)) = Some d2 /\
  set_fun x d2 (set_fun x d1 F) = set_fun x d2 F.
Proof. intros. split; [apply lookup_set_fun_same|apply set_fun_twice]. Qed.

Theorem redefinition_replaces : forall d F f vs name ps1 b1 ps2 b2 r sg F' f' vs' out,
  exec_list fo sys d F f vs (FFunc name ps1 b1 :: FFunc name ps2 b2 :: r) sg F' f' vs' out ->
  exec_list fo sys d (set_fun name (ps2, b2) F) f vs r sg F' f' vs' out /\
  lookup name (set_fun name (ps2, b2) F) = Some (ps2, b2).
Proof.
  intros d F f vs name ps1 b1 ps2 b2 r sg F' f' vs' out H. split; [|apply lookup_set_fun_same].
  inversion H as [| ? ? ? ? ? ? ? ? ? ? ? ? ? ? ? H1 H2 | ? ? ? ? ? ? ? ? ? ? ? H1 Hn]; subst.
  - inversion H1; subst.
    inversion H2 as [| ? ? ? ? ? ? ? ? ? ? ? ? ? ? ? H3 H4 | ? ? ? ? ? ? ? ? ? ? ? H3 Hn]; subst.
    + inversion H3; subst. rewrite set_fun_twice in H4. cbn [app]. exact H4.
    + inversion H3; subst. contradiction.
  - inversion H1; subst. contradiction.
Qed.

(* only FUNC changes the table of its own stack: in particular a definition made inside an IF arm,
   a loop body or a function body is not visible after that block *)
Definition is_func (s : fstmt) : bool := match s with FFunc _ _ _ => true | _ => false end.

Theorem table_changes_only_by_func : forall d F f vs stm sg F' f' vs' out,
  exec fo sys d F f vs stm sg F' f' vs' out -> is_func stm = false -> F' = F.
Proof. intros d F f vs stm sg F' f' vs' out H Hf. inversion H; subst; try reflexivity. discriminate. Qed.

Theorem definition_invisible_after_block : forall d F f vs stm sg F' f' vs' out x,
  exec fo sys d F f vs stm sg F' f' vs' out -> is_func stm = false ->
  lookup x F' = lookup x F.
Proof. intros. rewrite (table_changes_only_by_func _ _ _ _ _ _ _ _ _ _ H H0). reflexivity. Qed.

(* ================================================================== the argument values *)
(* RUN name t1, t2, ..., tk (k >= 2 value tokens separated by top-level commas, any whitespace
   layout): argument i is the value of token i IN THE CALLER (its store and IF flag) *)
Theorem run_args_comma : forall f vs args lay t1 t2 ts,
  let vars := visible fo sys f vs in
  let toks := comma_toks t1 (t2 :: ts) in
  args <> [] -> comma_list args = spell lay toks ->
  is_sop t1 = false -> is_sop t2 = false -> value_toks ts ->
  well_formed fo vars toks -> layout_ok lay -> boundaries_ok fo vars lay toks ->
  not_list fo (val_of fo vars t1) ->
  run_args fo sys f vs args (map (val_of fo vars) (t1 :: t2 :: ts)).
Proof.
  intros f vs args lay t1 t2 ts vars toks Hne Hsp H1 H2 Hts Hw Hl Hb Hnl.
  destruct args as [|a0 ar]; [contradiction|]. cbn [run_args].
  exists (VList (val_of fo vars t1 :: val_of fo vars t2 :: map (val_of fo vars) ts)).
  split; [|reflexivity]. unfold eval. rewrite Hsp. apply comma_args_value; assumption.
Qed.

(* one argument text whose value is not a list is one argument; (!) a list value is spread *)
Theorem run_args_single : forall f vs a r v,
  eval fo sys f vs (comma_list (a :: r)) v ->
  run_args fo sys f vs (a :: r) (match v with VList xs => xs | _ => [v] end).
Proof. intros f vs a r v H. exists v. split; [exact H|reflexivity]. Qed.

(* ================================================================== binding *)
Lemma bind_params_upd_all : forall ps vals vs, bind_params fo ps vals vs = upd_all (combine ps vals) vs.
Proof. intros. unfold bind_params. apply overlay_upd_all. Qed.

(* positional: parameter i holds argument i (distinct parameter names) *)
Theorem binding_is_positional : forall ps vals vs i,
  NoDup ps -> length ps = length vals -> (i < length ps)%nat ->
  lookup (nth i ps []) (bind_params fo ps vals vs) = Some (nth i vals VNone).
Proof.
  intros ps vals vs i Hnd Hlen Hi. rewrite bind_params_upd_all.
  exact (RunProofs.bind_params_positional fo ps vals (mkEnv fo [] vs [] []) i Hnd Hlen Hi).
Qed.

(* every other variable of the caller is visible in the body with its value: dynamic scoping *)
Theorem body_sees_caller_variables : forall ps vals vs x,
  ~ In x ps -> lookup x (bind_params fo ps vals vs) = lookup x vs.
Proof.
  intros ps vals vs x Hx. rewrite bind_params_upd_all, lookup_upd_all.
  assert (Hn : lookup x (rev (combine ps vals)) = None).
  { destruct (lookup x (rev (combine ps vals))) as [v|] eqn:E; [|reflexivity]. exfalso. apply Hx.
    apply FuncLift.lookup_In_pair in E. apply in_rev in E. apply in_combine_l in E. exact E. }
  rewrite Hn. reflexivity.
Qed.

Lemma extends_overlay : forall (top vs : store), extends vs (overlay fo top vs).
Proof.
  induction top as [|[y w] top IH]; intro vs; [apply extends_refl|].
  unfold overlay. cbn [fold_left fst snd]. fold (overlay fo top (set_var fo y w vs)).
  exact (extends_trans fo _ _ _ (extends_set_var fo y w vs) (IH _)).
Qed.

(* ================================================================== scoping of variables *)
Definition is_scope (s : fstmt) : bool :=
  match s with FIf _ _ | FRepeat _ _ _ | FWhile _ _ _ | FRun _ _ => true | _ => false end.

Theorem fscope_all :
  (forall d F f vs stm sg F' f' vs' out, exec fo sys d F f vs stm sg F' f' vs' out ->
     extends vs vs' /\ (is_scope stm = true -> names vs' = names vs)) /\
  (forall d F f vs p sg F' f' vs' out, exec_list fo sys d F f vs p sg F' f' vs' out -> extends vs vs') /\
  (forall d F b vs arms els sg taken vs' out, exec_arms fo sys d F b vs arms els sg taken vs' out -> names vs' = names vs) /\
  (forall d F f c e body k vs sg vs' out, exec_repeat fo sys d F f c e body k vs sg vs' out -> names vs' = names vs) /\
  (forall d F c e body k vs sg vs' out, exec_while fo sys d F c e body k vs sg vs' out -> names vs' = names vs).
Proof.
  apply (exec_all_mind fo sys
           (fun d F f vs stm sg F' f' vs' out => extends vs vs' /\ (is_scope stm = true -> names vs' = names vs))
           (fun d F f vs p sg F' f' vs' out => extends vs vs')
           (fun d F b vs arms els sg taken vs' out => names vs' = names vs)
           (fun d F f c e body k vs sg vs' out => names vs' = names vs)
           (fun d F c e body k vs sg vs' out => names vs' = names vs)).
  - intros. split; [apply extends_refl|discriminate].
  - intros. split; [apply extends_refl|discriminate].
  - intros. split; [apply extends_set_var|discriminate].
  - intros d F f vs arms els sg taken vs' out _ IH. split; [apply extends_names; symmetry; exact IH|intros _; exact IH].
  - intros d F f vs c e body sg vs' out _ IH. split; [apply extends_names; symmetry; exact IH|intros _; exact IH].
  - intros d F f vs c e body sg vs' out _ IH. split; [apply extends_names; symmetry; exact IH|intros _; exact IH].
  - intros. split; [apply extends_refl|discriminate].
  - intros. split; [apply extends_refl|discriminate].
  - intros. split; [apply extends_refl|discriminate].
  - intros. split; [apply extends_refl|discriminate].
  - intros d F f vs name args vals ps body sg F1 f1 vs1 out _ _ _ _ IHb _.
    assert (Hn : names (copy_back fo vs vs1) = names vs).
    { apply names_copy_back. exact (extends_trans fo _ _ _ (extends_overlay _ vs) IHb). }
    split; [apply extends_names; symmetry; exact Hn|intros _; exact Hn].
  - intros. apply extends_refl.
  - intros d F f vs s r F1 f1 vs1 o1 sg F2 f2 vs2 o2 _ [IH1 _] _ IH2. exact (extends_trans fo _ _ _ IH1 IH2).
  - intros d F f vs s r sg F1 f1 vs1 o1 _ [IH1 _] _. exact IH1.
  - intros d F b vs c body rest els v sg F1 f1 vs1 out _ _ _ IHb _. apply names_copy_back. exact IHb.
  - intros d F b vs c body rest els v sg taken vs' out _ _ _ IH. exact IH.
  - intros d F b vs body sg F1 f1 vs1 out _ IHb. apply names_copy_back. exact IHb.
  - intros. reflexivity.
  - intros. reflexivity.
  - intros d F f c e body k vs v n sg F1 f1 vs1 o1 sg' vs' o2 _ _ _ _ _ IHb _ _ IHr.
    rewrite IHr. apply names_copy_back. exact (extends_trans fo _ _ _ (extends_with_counter fo c k vs) IHb).
  - intros d F f c e body k vs v n sg F1 f1 vs1 o1 _ _ _ _ _ IHb _.
    apply names_copy_back. exact (extends_trans fo _ _ _ (extends_with_counter fo c k vs) IHb).
  - intros d F c e body k vs v _ _ _. apply names_copy_back. apply extends_with_counter.
  - intros d F c e body k vs v sg F1 f1 vs1 o1 sg' vs' o2 _ _ _ _ IHb _ _ IHw.
    rewrite IHw. apply names_copy_back. exact (extends_trans fo _ _ _ (extends_with_counter fo c k vs) IHb).
  - intros d F c e body k vs v sg F1 f1 vs1 o1 _ _ _ _ IHb _.
    apply names_copy_back. exact (extends_trans fo _ _ _ (extends_with_counter fo c k vs) IHb).
Qed.

(* a call is a scope: the caller has exactly the same variables, in the same order, before and
   after: PARAMETERS AND VARIABLES CREATED BY THE BODY DO NOT LEAK *)
Theorem call_is_scope : forall d F f vs name args sg F' f' vs' out,
  exec fo sys d F f vs (FRun name args) sg F' f' vs' out -> names vs' = names vs.
Proof.
  intros d F f vs name args sg F' f' vs' out H. destruct fscope_all as (H1 & _).
  exact (proj2 (H1 _ _ _ _ _ _ _ _ _ _ H) eq_refl).
Qed.

(* ... and each of them has the value it had AT THE END OF THE BODY: (!) assignments made by the
   body to variables of the caller persist; (!) a parameter named like a variable of the caller
   overwrites it (with the parameter's final value) *)
Theorem call_values : forall d F f vs name args sg F' f' vs' out,
  exec fo sys d F f vs (FRun name args) sg F' f' vs' out ->
  exists d1 vals ps body sgb F1 f1 vs1,
    exec_list fo sys d1 F None (bind_params fo ps vals vs) body sgb F1 f1 vs1 out /\
    forall x, lookup x vs' = if has_key x vs then lookup x vs1 else None.
Proof.
  intros d F f vs name args sg F' f' vs' out H.
  destruct (run_inv _ _ _ _ _ _ _ _ _ _ _ H) as (d1 & vals & ps & body & sgb & F1 & f1 & vs1 & _ & _ & _ & _ & Hb & _ & _ & _ & _ & ->).
  exists d1, vals, ps, body, sgb, F1, f1, vs1. split; [exact Hb|]. intro x. apply copy_back_values.
Qed.

(* the caller's IF flag and function table are untouched by a call *)
Theorem call_keeps_flag_and_table : forall d F f vs name args sg F' f' vs' out,
  exec fo sys d F f vs (FRun name args) sg F' f' vs' out -> F' = F /\ f' = f /\ sg = Normal.
Proof.
  intros d F f vs name args sg F' f' vs' out H.
  destruct (run_inv _ _ _ _ _ _ _ _ _ _ _ H) as (d1 & vals & ps & body & sgb & F1 & f1 & vs1 & _ & _ & _ & _ & _ & _ & -> & -> & -> & _).
  repeat split.
Qed.

End Cor.
