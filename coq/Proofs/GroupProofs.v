(* C11: "writing arguments as an indented group, as separate one-argument lines, or as a first
   argument plus a group gives the same result" -- for the classes whose pipeline has no state
   effect: no tokenization, no plural check, the default run_compile.  Plain classes (STRING,
   STRINGLN, the unknown-command fall-back, ...) are the special case without validator. *)
From Coq Require Import NArith ZArith List Bool Lia.
From DS Require Import Base PyStr Values Expr TabParse Tables Constants Interp.
From DS Require Import PipelineProofs IgnoreProofs.
Import ListNotations.

Arguments IOk {A}. Arguments IErr {A}. Arguments ICrash {A}. Arguments IUnmod {A}.
Arguments s_g {fo}. Arguments s_env {fo}. Arguments s_line2 {fo}. Arguments mkSt {fo}.

(* ------------------------------------------------------------------ the classes *)
Definition stateless_class (sc : simple_cls) : Prop :=
  s_tokenize_args sc = false /\ s_flipper_only sc = false /\ s_verify_args sc = PVNone /\
  s_run sc = RKDefault /\ s_arg_type sc = ATStr.

Lemma plain_stateless : forall sc, plain_class sc -> stateless_class sc.
Proof. intros sc (Htok & Hflip & Hva & Hvas & Hfa & Hrun & Hat). repeat split; assumption. Qed.

(* per-argument functions, on the text of the argument *)
Definition norm (sc : simple_cls) (a : str) : str := if s_strip_args sc then strip a else a.

(* verdict of the validator and result of the formatter on the (normalised) text of an argument *)
Definition verdict (sc : simple_cls) (t : str) : res bool :=
  eval_validator (s_params sc) (s_verify_arg sc) (AStr t).

Definition formatted (sc : simple_cls) (t : str) : res acontent :=
  eval_formatter (s_params sc) (s_format_arg sc) (AStr t).

(* the argument text [a] passes: accepted, and formatted to [fm (norm a)] *)
Definition accepted (sc : simple_cls) (fm : str -> acontent) (a : str) : Prop :=
  verdict sc (norm sc a) = Ok true /\ formatted sc (norm sc a) = Ok (fm (norm sc a)).

Definition rejected (sc : simple_cls) (a : str) : Prop := verdict sc (norm sc a) = Ok false.

Definition out_line (tg : tag) (cmd : str) (t : acontent) : oline :=
  mkO tg (upper cmd ++ [32%N] ++ content_text t).

Definition data_of {S : Type} (r : S * ires cret) : option (list oline) :=
  match r with (_, IOk cr) => Some (cr_data cr) | _ => None end.

Definition failed {S : Type} (r : S * ires cret) : Prop :=
  match r with (_, IOk _) => False | _ => True end.

(* the lines listify_args builds *)
Definition arg_line (num : Z) (cur : preline) (a : str) : line := mkLine (AStr a) num cur.
Definition blk_line (cn : preline) : line := mkLine (AStr (fst cn)) (snd cn) cn.
Definition line_str (l : line) : str := match l_content l with AStr s => s | AInt _ => [] end.
Definition str_lines (ls : list line) : Prop := Forall (fun l => exists s, l_content l = AStr s) ls.

Section Group.
Variable fo : FloatOps.
Variable child : runner fo.
Variable cx : ctx.
Variable cur : preline.

Definition with_l2 (s : st fo) (l2 : option preline) : st fo := mkSt (s_g s) (s_env s) l2.

Lemma eta_line : forall l, mkLine (l_content l) (l_num l) (l_orig l) = l.
Proof. intros [c n o]. reflexivity. Qed.

Lemma check_types_all : forall ls s,
  exists l2, check_types fo cx cur ATStr (map (fun l => (l, Some (l_content l))) ls) s = (with_l2 s l2, IOk ls).
Proof.
  induction ls as [|l ls IH]; intro s; cbn [map check_types].
  - exists None. reflexivity.
  - unfold bindM at 1. unfold set_line2 at 1. unfold bindM at 1.
    destruct (IH (mkSt (s_g s) (s_env s) (Some (l_orig l)))) as [l2 E].
    rewrite E. exists l2. unfold ret, with_l2. cbn [Interp.s_g Interp.s_env]. rewrite eta_line. reflexivity.
Qed.

Lemma verify_each_all : forall params v ls s,
  Forall (fun l => eval_validator params v (l_content l) = Ok true) ls ->
  exists l2, verify_each fo cx cur params v ls s = (with_l2 s l2, IOk tt).
Proof.
  intros params v. induction ls as [|l ls IH]; intros s H; cbn [verify_each].
  - exists None. reflexivity.
  - inversion H as [|x r Hl Hr]; subst x r.
    unfold bindM at 1. unfold set_line2 at 1. unfold bindM at 1. rewrite Hl. unfold lift, ret.
    destruct (IH (mkSt (s_g s) (s_env s) (Some (l_orig l))) Hr) as [l2 E].
    rewrite E. exists l2. reflexivity.
Qed.

(* the first rejected argument stops the verification: nothing has been emitted yet *)
Lemma verify_each_rejects : forall params v pre l post s,
  Forall (fun l => eval_validator params v (l_content l) = Ok true) pre ->
  eval_validator params v (l_content l) = Ok false ->
  exists s' t, verify_each fo cx cur params v (pre ++ l :: post) s = (s', IErr EInvalidArguments t).
Proof.
  intros params v. induction pre as [|p pre IH]; intros l post s H Hl; cbn [app verify_each].
  - unfold bindM at 1. unfold set_line2 at 1. unfold bindM at 1. rewrite Hl. unfold lift, ret, raise.
    eexists. eexists. reflexivity.
  - inversion H as [|x r Hp Hr]; subst x r.
    unfold bindM at 1. unfold set_line2 at 1. unfold bindM at 1. rewrite Hp. unfold lift, ret.
    apply IH; assumption.
Qed.

Lemma format_each_all : forall params f (fm : line -> acontent) ls s,
  Forall (fun l => eval_formatter params f (l_content l) = Ok (fm l)) ls ->
  format_each fo cx cur params f ls s = (s, IOk (map (fun l => mkLine (fm l) (l_num l) (l_orig l)) ls)).
Proof.
  intros params f fm. induction ls as [|l ls IH]; intros s H; cbn [format_each map]; [reflexivity|].
  inversion H as [|x r Hl Hr]; subst x r.
  unfold bindM at 1. rewrite Hl. unfold lift at 1. unfold ret at 1. unfold bindM at 1.
  rewrite (IH s Hr). reflexivity.
Qed.

Lemma multi_comp_default : forall cname tg sc name ls acc s,
  s_run sc = RKDefault ->
  exists l2, multi_comp fo child cx cur cname tg sc name (map Some ls) acc s =
    (match ls with [] => s | _ => with_l2 s l2 end,
     IOk (mkCret (cr_data acc ++ map (fun l => mkO tg (name_line name (Some l))) ls) (cr_sig acc))).
Proof.
  intros cname tg sc name ls acc s Hr. revert acc s.
  induction ls as [|l ls IH]; intros acc s; cbn [map multi_comp].
  - exists None. rewrite app_nil_r. destruct acc. reflexivity.
  - unfold bindM at 1. unfold set_line2 at 1. unfold bindM at 1.
    unfold run_compile. rewrite Hr. unfold ret at 1.
    destruct (IH (mkCret (cr_data acc ++ map (mkO tg) [name_line name (Some l)]) (cr_sig acc))
                 (mkSt (s_g s) (s_env s) (Some (l_orig l)))) as [l2 E].
    rewrite E. cbn [cr_data cr_sig map]. rewrite <- app_assoc. cbn [app].
    destruct ls as [|l' ls'].
    + exists (Some (l_orig l)). reflexivity.
    + exists l2. reflexivity.
Qed.

(* ---------------------------------------------------------------- the pipeline on the listified lines *)
Definition strip_lines (sc : simple_cls) (ls : list line) : list line :=
  if s_strip_args sc then map strip_line ls else ls.

Lemma pipeline_accepts : forall cname tg sc cmd num argument code_block ls (fm : str -> acontent) s,
  stateless_class sc -> no_dollar cmd -> s_arg_req sc <> NotAllowed ->
  listify_args fo cx cur argument code_block num s = (s, IOk ls) -> ls <> [] ->
  Forall (fun l => eval_validator (s_params sc) (s_verify_arg sc) (l_content l) = Ok true /\
                   eval_formatter (s_params sc) (s_format_arg sc) (l_content l) = Ok (fm (line_str l)))
         (strip_lines sc ls) ->
  exists l2,
    simple_compile fo child cx cur cname tg sc cmd num argument code_block s =
    (with_l2 s l2, IOk (mkCret (map (fun l => out_line tg cmd (fm (line_str l))) (strip_lines sc ls)) SNormal)).
Proof.
  intros cname tg sc cmd num argument code_block ls fm s (Htok & Hflip & Hvas & Hrun & Hat) Hnd Hreq Hlist Hne Hall.
  unfold simple_compile, check_flipper. rewrite Hflip. cbn [andb].
  unfold no_dollar in Hnd.
  assert (Hd : (match upper cmd with 36%N :: _ => true | _ => false end) = false).
  { destruct (upper cmd) as [|c r]; [reflexivity|].
    destruct c as [|p]; [reflexivity|].
    repeat (destruct p as [p|p|]; try reflexivity). contradiction. }
  rewrite Hd, Htok. cbn [orb].
  unfold bindM at 1. unfold ret at 1. unfold bindM at 1. rewrite Hlist.
  fold (strip_lines sc ls). set (args1 := strip_lines sc ls) in *.
  assert (Hne1 : args1 <> []).
  { subst args1. unfold strip_lines. destruct (s_strip_args sc); [|exact Hne].
    destruct ls; [contradiction|discriminate]. }
  rewrite Hat, Hvas.
  unfold bindM at 1. unfold ret at 1.
  (* required / allowed *)
  unfold bindM at 1.
  assert (Hreq' : forall s0,
    (match map (fun l : line => (l, Some (l_content l))) args1, s_arg_req sc with
     | _ :: _, NotAllowed => raise fo cx cur EInvalidArguments
     | [], Required => raise fo cx cur EInvalidArguments
     | _, _ => ret fo tt
     end) s0 = (s0, IOk tt)).
  { intro s0. destruct args1 as [|x r]; [contradiction|]. cbn [map].
    destruct (s_arg_req sc); try reflexivity. contradiction. }
  rewrite Hreq'. clear Hreq'.
  (* types *)
  unfold bindM at 1. destruct (check_types_all args1 s) as [l2a Ea]. rewrite Ea.
  (* plural: none *)
  unfold bindM at 1. cbn [verify_plural]. unfold ret at 1.
  (* verify *)
  unfold bindM at 1.
  destruct (verify_each_all (s_params sc) (s_verify_arg sc) args1 (with_l2 s l2a)) as [l2b Eb].
  { eapply Forall_impl; [|exact Hall]. intros l [H _]. exact H. }
  rewrite Eb.
  (* format *)
  unfold bindM at 1.
  rewrite (format_each_all (s_params sc) (s_format_arg sc) (fun l => fm (line_str l)) args1).
  2:{ eapply Forall_impl; [|exact Hall]. intros l [_ H]. exact H. }
  (* emit *)
  set (args4 := map (fun l => mkLine (fm (line_str l)) (l_num l) (l_orig l)) args1).
  assert (Hne4 : args4 <> []) by (subst args4; destruct args1; [contradiction|discriminate]).
  replace (match args4 with [] => [None] | _ :: _ => map Some args4 end) with (map Some args4)
    by (destruct args4; [contradiction|reflexivity]).
  destruct (multi_comp_default cname tg sc cmd args4 (mkCret [] SNormal) (with_l2 (with_l2 s l2a) l2b) Hrun) as [l2c Ec].
  rewrite Ec. cbn [cr_data cr_sig app].
  destruct args4 as [|x4 r4] eqn:E4; [contradiction|]. rewrite <- E4.
  exists l2c. unfold with_l2. cbn [Interp.s_g Interp.s_env]. f_equal. f_equal. f_equal.
  subst args4. rewrite map_map. apply map_ext. intro l. reflexivity.
Qed.

Lemma pipeline_rejects : forall cname tg sc cmd num argument code_block ls pre l post s,
  stateless_class sc -> no_dollar cmd -> s_arg_req sc <> NotAllowed ->
  listify_args fo cx cur argument code_block num s = (s, IOk ls) ->
  strip_lines sc ls = pre ++ l :: post ->
  Forall (fun l => eval_validator (s_params sc) (s_verify_arg sc) (l_content l) = Ok true) pre ->
  eval_validator (s_params sc) (s_verify_arg sc) (l_content l) = Ok false ->
  exists s' t,
    simple_compile fo child cx cur cname tg sc cmd num argument code_block s = (s', IErr EInvalidArguments t).
Proof.
  intros cname tg sc cmd num argument code_block ls pre l post s (Htok & Hflip & Hvas & Hrun & Hat) Hnd Hreq Hlist Hsplit Hpre Hl.
  unfold simple_compile, check_flipper. rewrite Hflip. cbn [andb].
  unfold no_dollar in Hnd.
  assert (Hd : (match upper cmd with 36%N :: _ => true | _ => false end) = false).
  { destruct (upper cmd) as [|c r]; [reflexivity|].
    destruct c as [|p]; [reflexivity|].
    repeat (destruct p as [p|p|]; try reflexivity). contradiction. }
  rewrite Hd, Htok. cbn [orb].
  unfold bindM at 1. unfold ret at 1. unfold bindM at 1. rewrite Hlist.
  fold (strip_lines sc ls). set (args1 := strip_lines sc ls) in *.
  rewrite Hat, Hvas.
  unfold bindM at 1. unfold ret at 1.
  unfold bindM at 1.
  assert (Hreq' : forall s0,
    (match map (fun l : line => (l, Some (l_content l))) args1, s_arg_req sc with
     | _ :: _, NotAllowed => raise fo cx cur EInvalidArguments
     | [], Required => raise fo cx cur EInvalidArguments
     | _, _ => ret fo tt
     end) s0 = (s0, IOk tt)).
  { intro s0. rewrite Hsplit. destruct pre; cbn [app map];
    destruct (s_arg_req sc); try reflexivity; contradiction. }
  rewrite Hreq'. clear Hreq'.
  unfold bindM at 1. destruct (check_types_all args1 s) as [l2a Ea]. rewrite Ea.
  unfold bindM at 1. cbn [verify_plural]. unfold ret at 1.
  unfold bindM at 1. rewrite Hsplit.
  destruct (verify_each_rejects (s_params sc) (s_verify_arg sc) pre l post (with_l2 s l2a) Hpre Hl) as (s' & t & E).
  rewrite E. exists s', t. reflexivity.
Qed.

(* ---------------------------------------------------------------- listify_args for the three spellings *)
Lemma listify_first_and_group : forall (a1 : str) num rest s, a1 <> [] ->
  listify_args fo cx cur (Some a1) (Some (plain_block rest)) num s =
  (s, IOk (arg_line num cur a1 :: map blk_line rest)).
Proof.
  intros a1 num rest s Ha. unfold listify_args. rewrite block_lines_plain.
  destruct a1; [contradiction|]. reflexivity.
Qed.

Lemma listify_group : forall num all s,
  listify_args fo cx cur None (Some (plain_block all)) num s = (s, IOk (map blk_line all)).
Proof. intros num all s. unfold listify_args. rewrite block_lines_plain. reflexivity. Qed.

Lemma listify_single : forall (a : str) num s, a <> [] ->
  listify_args fo cx cur (Some a) None num s = (s, IOk [arg_line num cur a]).
Proof. intros a num s Ha. unfold listify_args. destruct a; [contradiction|]. reflexivity. Qed.

Lemma strip_lines_arg : forall sc num a,
  strip_lines sc [arg_line num cur a] = [arg_line num cur (norm sc a)].
Proof. intros sc num a. unfold strip_lines, norm. destruct (s_strip_args sc); reflexivity. Qed.

Lemma strip_lines_cons : forall sc l ls, strip_lines sc (l :: ls) = strip_lines sc [l] ++ strip_lines sc ls.
Proof. intros sc l ls. unfold strip_lines. destruct (s_strip_args sc); reflexivity. Qed.

Lemma strip_lines_blk : forall sc all,
  strip_lines sc (map blk_line all) = map (fun cn => mkLine (AStr (norm sc (fst cn))) (snd cn) cn) all.
Proof.
  intros sc all. unfold strip_lines, norm. destruct (s_strip_args sc); [rewrite map_map|]; reflexivity.
Qed.

End Group.

(* ------------------------------------------------------------------ C11: the three spellings *)
Section Expand.
Variable fo : FloatOps.
Variable child : runner fo.
Variable cx : ctx.

Section Class.
Variables (sc : simple_cls) (cname : str) (tg : tag) (cmd : str).
Hypothesis Hsc : stateless_class sc.
Hypothesis Hnd : no_dollar cmd.
Hypothesis Hreq : s_arg_req sc <> NotAllowed.

(* every argument accepted: the result is the concatenation of the per-argument results, in order *)
Section Accepted.
Variable fm : str -> acontent.

Definition expected_data (texts : list str) : list oline :=
  map (fun a => out_line tg cmd (fm (norm sc a))) texts.

Lemma accepted_blk_lines : forall all, Forall (accepted sc fm) (map fst all) ->
  Forall (fun l => eval_validator (s_params sc) (s_verify_arg sc) (l_content l) = Ok true /\
                   eval_formatter (s_params sc) (s_format_arg sc) (l_content l) = Ok (fm (line_str l)))
         (strip_lines sc (map blk_line all)).
Proof.
  intros all H. rewrite strip_lines_blk.
  induction all as [|[c n] all IH]; cbn [map]; [constructor|].
  cbn [map fst] in H. inversion H as [|x r Hc Hr]; subst x r.
  constructor; [|apply IH; exact Hr]. exact Hc.
Qed.

Lemma expected_blk_lines : forall all,
  map (fun l => out_line tg cmd (fm (line_str l))) (strip_lines sc (map blk_line all)) = expected_data (map fst all).
Proof.
  intros all. rewrite strip_lines_blk. unfold expected_data. rewrite !map_map. reflexivity.
Qed.

(* (iii) one argument on the line *)
Lemma single_argument : forall cur num (a : str) s, a <> [] -> accepted sc fm a ->
  exists l2, simple_compile fo child cx cur cname tg sc cmd num (Some a) None s =
             (with_l2 fo s l2, IOk (mkCret (expected_data [a]) SNormal)).
Proof.
  intros cur num a s Ha Hacc.
  destruct (pipeline_accepts fo child cx cur cname tg sc cmd num (Some a) None [arg_line num cur a]
              fm s Hsc Hnd Hreq (listify_single fo cx cur a num s Ha)) as [l2 E].
  - discriminate.
  - rewrite strip_lines_arg. constructor; [|constructor]. exact Hacc.
  - exists l2. rewrite E. rewrite strip_lines_arg. reflexivity.
Qed.

(* (ii) all the arguments as an indented group *)
Lemma group_only : forall cur num (all : list preline) s, all <> [] ->
  Forall (accepted sc fm) (map fst all) ->
  exists l2, simple_compile fo child cx cur cname tg sc cmd num None (Some (plain_block all)) s =
             (with_l2 fo s l2, IOk (mkCret (expected_data (map fst all)) SNormal)).
Proof.
  intros cur num all s Hne Hall.
  destruct (pipeline_accepts fo child cx cur cname tg sc cmd num None (Some (plain_block all)) (map blk_line all)
              fm s Hsc Hnd Hreq (listify_group fo cx cur num all s)) as [l2 E].
  - destruct all; [contradiction|discriminate].
  - apply accepted_blk_lines. exact Hall.
  - exists l2. rewrite E, expected_blk_lines. reflexivity.
Qed.

(* (i) the first argument on the line, the others as an indented group *)
Lemma first_plus_group : forall cur num (a1 : str) (rest : list preline) s,
  a1 <> [] -> Forall (accepted sc fm) (a1 :: map fst rest) ->
  exists l2, simple_compile fo child cx cur cname tg sc cmd num (Some a1) (Some (plain_block rest)) s =
             (with_l2 fo s l2, IOk (mkCret (expected_data (a1 :: map fst rest)) SNormal)).
Proof.
  intros cur num a1 rest s Ha Hall.
  inversion Hall as [|x r H1 Hr]; subst x r.
  destruct (pipeline_accepts fo child cx cur cname tg sc cmd num (Some a1) (Some (plain_block rest))
              (arg_line num cur a1 :: map blk_line rest)
              fm s Hsc Hnd Hreq (listify_first_and_group fo cx cur a1 num rest s Ha)) as [l2 E].
  - discriminate.
  - rewrite strip_lines_cons, strip_lines_arg. cbn [app]. constructor; [exact H1|].
    apply accepted_blk_lines. exact Hr.
  - exists l2. rewrite E. rewrite strip_lines_cons, strip_lines_arg. cbn [app map].
    rewrite expected_blk_lines. reflexivity.
Qed.

(* the statement of C11: the data of the three spellings *)
Theorem group_expand : forall cur num (a1 : str) n1 (rest : list preline) s s' (s'' : preline -> st fo),
  a1 <> [] -> Forall (fun a => a <> []) (map fst rest) ->
  Forall (accepted sc fm) (a1 :: map fst rest) ->
  let texts := a1 :: map fst rest in
  data_of (simple_compile fo child cx cur cname tg sc cmd num (Some a1) (Some (plain_block rest)) s)
    = Some (expected_data texts) /\
  data_of (simple_compile fo child cx cur cname tg sc cmd num None (Some (plain_block ((a1, n1) :: rest))) s')
    = Some (expected_data texts) /\
  Forall2 (fun (an : preline) d =>
             data_of (simple_compile fo child cx an cname tg sc cmd (snd an) (Some (fst an)) None (s'' an)) = Some d)
          ((a1, n1) :: rest) (map (fun a => [out_line tg cmd (fm (norm sc a))]) texts) /\
  concat (map (fun a => [out_line tg cmd (fm (norm sc a))]) texts) = expected_data texts.
Proof.
  intros cur num a1 n1 rest s s' s'' Ha Hne Hall texts.
  split; [|split; [|split]].
  - destruct (first_plus_group cur num a1 rest s Ha Hall) as [l2 E]. rewrite E. reflexivity.
  - destruct (group_only cur num ((a1, n1) :: rest) s' ltac:(discriminate) Hall) as [l2 E]. rewrite E. reflexivity.
  - subst texts.
    assert (Hgen : forall (l : list preline), Forall (fun a : str => a <> []) (map fst l) ->
              Forall (accepted sc fm) (map fst l) ->
              Forall2 (fun (an : preline) d =>
                data_of (simple_compile fo child cx an cname tg sc cmd (snd an) (Some (fst an)) None (s'' an)) = Some d)
                l (map (fun a => [out_line tg cmd (fm (norm sc a))]) (map fst l))).
    { induction l as [|[c n] l IH]; intros Hn Hacc; cbn [map fst]; [constructor|].
      cbn [map fst] in Hn, Hacc.
      inversion Hn as [|x r Hc Hr]; subst x r. inversion Hacc as [|x r Hac Har]; subst x r.
      constructor; [|apply IH; assumption].
      cbn [fst snd].
      destruct (single_argument (c, n) n c (s'' (c, n)) Hc Hac) as [l2 E]. rewrite E. reflexivity. }
    apply (Hgen ((a1, n1) :: rest)); cbn [map fst]; [constructor; assumption|exact Hall].
  - subst texts. unfold expected_data. generalize (a1 :: map fst rest). intro l.
    induction l as [|a l IH]; [reflexivity|]. cbn [map concat app]. rewrite IH. reflexivity.
Qed.

End Accepted.

(* some argument rejected: all three spellings fail.  In the group spellings nothing is emitted
   (verification of all arguments precedes run_compile); in the separate-lines spelling the lines
   before the offending one have already been emitted when its own line fails. *)
Lemma single_rejected : forall cur num (a : str) s, a <> [] -> rejected sc a ->
  exists s' t, simple_compile fo child cx cur cname tg sc cmd num (Some a) None s = (s', IErr EInvalidArguments t).
Proof.
  intros cur num a s Ha Hrej.
  apply (pipeline_rejects fo child cx cur cname tg sc cmd num (Some a) None [arg_line num cur a]
           [] (arg_line num cur (norm sc a)) [] s Hsc Hnd Hreq (listify_single fo cx cur a num s Ha)).
  - rewrite strip_lines_arg. reflexivity.
  - constructor.
  - exact Hrej.
Qed.

Definition passes (a : str) : Prop := verdict sc (norm sc a) = Ok true.

Lemma passes_blk_lines : forall all, Forall passes (map fst all) ->
  Forall (fun l => eval_validator (s_params sc) (s_verify_arg sc) (l_content l) = Ok true)
         (map (fun cn : preline => mkLine (AStr (norm sc (fst cn))) (snd cn) cn) all).
Proof.
  induction all as [|[c n] all IH]; intro H; cbn [map]; [constructor|].
  cbn [map fst] in H. inversion H as [|x r Hc Hr]; subst x r. constructor; [exact Hc|apply IH; exact Hr].
Qed.

Lemma group_rejected : forall cur num (pre : list preline) (bad : preline) (post : list preline) s,
  Forall passes (map fst pre) -> rejected sc (fst bad) ->
  exists s' t, simple_compile fo child cx cur cname tg sc cmd num None (Some (plain_block (pre ++ bad :: post))) s
               = (s', IErr EInvalidArguments t).
Proof.
  intros cur num pre bad post s Hpre Hbad.
  apply (pipeline_rejects fo child cx cur cname tg sc cmd num None (Some (plain_block (pre ++ bad :: post)))
           (map blk_line (pre ++ bad :: post))
           (map (fun cn : preline => mkLine (AStr (norm sc (fst cn))) (snd cn) cn) pre)
           (mkLine (AStr (norm sc (fst bad))) (snd bad) bad)
           (map (fun cn : preline => mkLine (AStr (norm sc (fst cn))) (snd cn) cn) post)
           s Hsc Hnd Hreq (listify_group fo cx cur num _ s)).
  - rewrite strip_lines_blk, map_app. reflexivity.
  - apply passes_blk_lines. exact Hpre.
  - exact Hbad.
Qed.

Lemma first_plus_group_rejected_first : forall cur num (a1 : str) (rest : list preline) s,
  a1 <> [] -> rejected sc a1 ->
  exists s' t, simple_compile fo child cx cur cname tg sc cmd num (Some a1) (Some (plain_block rest)) s
               = (s', IErr EInvalidArguments t).
Proof.
  intros cur num a1 rest s Ha Hbad.
  apply (pipeline_rejects fo child cx cur cname tg sc cmd num (Some a1) (Some (plain_block rest))
           (arg_line num cur a1 :: map blk_line rest)
           [] (arg_line num cur (norm sc a1))
           (map (fun cn : preline => mkLine (AStr (norm sc (fst cn))) (snd cn) cn) rest)
           s Hsc Hnd Hreq (listify_first_and_group fo cx cur a1 num rest s Ha)).
  - rewrite strip_lines_cons, strip_lines_arg, strip_lines_blk. reflexivity.
  - constructor.
  - exact Hbad.
Qed.

Lemma first_plus_group_rejected_later : forall cur num (a1 : str) (pre : list preline) (bad : preline) (post : list preline) s,
  a1 <> [] -> passes a1 -> Forall passes (map fst pre) -> rejected sc (fst bad) ->
  exists s' t, simple_compile fo child cx cur cname tg sc cmd num (Some a1) (Some (plain_block (pre ++ bad :: post))) s
               = (s', IErr EInvalidArguments t).
Proof.
  intros cur num a1 pre bad post s Ha H1 Hpre Hbad.
  apply (pipeline_rejects fo child cx cur cname tg sc cmd num (Some a1) (Some (plain_block (pre ++ bad :: post)))
           (arg_line num cur a1 :: map blk_line (pre ++ bad :: post))
           (arg_line num cur (norm sc a1) :: map (fun cn : preline => mkLine (AStr (norm sc (fst cn))) (snd cn) cn) pre)
           (mkLine (AStr (norm sc (fst bad))) (snd bad) bad)
           (map (fun cn : preline => mkLine (AStr (norm sc (fst cn))) (snd cn) cn) post)
           s Hsc Hnd Hreq (listify_first_and_group fo cx cur a1 num _ s Ha)).
  - rewrite strip_lines_cons, strip_lines_arg, strip_lines_blk, map_app. reflexivity.
  - constructor; [exact H1|]. apply passes_blk_lines. exact Hpre.
  - exact Hbad.
Qed.

(* all three spellings fail when some argument is rejected and those before it pass *)
Theorem group_expand_rejected : forall cur num (a1 : str) n1 (pre : list preline) (bad : preline) (post : list preline) s s' s'',
  let all := (a1, n1) :: pre ++ bad :: post in
  a1 <> [] -> passes a1 -> Forall passes (map fst pre) -> rejected sc (fst bad) -> fst bad <> [] ->
  failed (simple_compile fo child cx cur cname tg sc cmd num (Some a1) (Some (plain_block (pre ++ bad :: post))) s) /\
  failed (simple_compile fo child cx cur cname tg sc cmd num None (Some (plain_block all)) s') /\
  failed (simple_compile fo child cx bad cname tg sc cmd (snd bad) (Some (fst bad)) None s'').
Proof.
  intros cur num a1 n1 pre bad post s s' s'' all Ha H1 Hpre Hbad Hne.
  split; [|split].
  - destruct (first_plus_group_rejected_later cur num a1 pre bad post s Ha H1 Hpre Hbad) as (s1 & t & E).
    rewrite E. exact I.
  - subst all.
    destruct (group_rejected cur num ((a1, n1) :: pre) bad post s') as (s1 & t & E).
    + cbn [map fst]. constructor; assumption.
    + exact Hbad.
    + unfold failed.
      match goal with |- match ?x with _ => _ end =>
        replace x with (s1, @IErr cret EInvalidArguments t) by (symmetry; exact E) end.
      exact I.
  - destruct (single_rejected bad (snd bad) (fst bad) s'' Hne Hbad) as (s1 & t & E). rewrite E. exact I.
Qed.

End Class.

(* ------------------------------------------------------------------ plain classes: every argument passes unchanged *)
Lemma plain_accepts : forall sc a, plain_class sc -> accepted sc AStr a.
Proof.
  intros sc a (Htok & Hflip & Hva & Hvas & Hfa & Hrun & Hat).
  unfold accepted, verdict, formatted. rewrite Hva, Hfa. split; reflexivity.
Qed.

Definition plain_data (sc : simple_cls) (tg : tag) (cmd : str) (texts : list str) : list oline :=
  map (fun a => mkO tg (upper cmd ++ [32%N] ++ norm sc a)) texts.

Theorem plain_group_expand : forall sc cname tg cmd cur num (a1 : str) n1 (rest : list preline) s s' (s'' : preline -> st fo),
  plain_class sc -> no_dollar cmd -> s_arg_req sc <> NotAllowed ->
  a1 <> [] -> Forall (fun a => a <> []) (map fst rest) ->
  let texts := a1 :: map fst rest in
  data_of (simple_compile fo child cx cur cname tg sc cmd num (Some a1) (Some (plain_block rest)) s)
    = Some (plain_data sc tg cmd texts) /\
  data_of (simple_compile fo child cx cur cname tg sc cmd num None (Some (plain_block ((a1, n1) :: rest))) s')
    = Some (plain_data sc tg cmd texts) /\
  Forall2 (fun (an : preline) d =>
             data_of (simple_compile fo child cx an cname tg sc cmd (snd an) (Some (fst an)) None (s'' an)) = Some d)
          ((a1, n1) :: rest) (map (fun a => [mkO tg (upper cmd ++ [32%N] ++ norm sc a)]) texts) /\
  concat (map (fun a => [mkO tg (upper cmd ++ [32%N] ++ norm sc a)]) texts) = plain_data sc tg cmd texts.
Proof.
  intros sc cname tg cmd cur num a1 n1 rest s s' s'' Hp Hnd Hreq Ha Hne texts.
  apply (group_expand sc cname tg cmd (plain_stateless sc Hp) Hnd Hreq AStr cur num a1 n1 rest s s' s'' Ha Hne).
  clear - Hp. generalize (a1 :: map fst rest). intro l.
  induction l as [|a l IH]; constructor; [apply plain_accepts; exact Hp|exact IH].
Qed.

End Expand.

(* ------------------------------------------------------------------ the palette classes this covers *)
Definition is_statelessb (sc : simple_cls) : bool :=
  negb (s_tokenize_args sc) && negb (s_flipper_only sc)
  && match s_verify_args sc with PVNone => true | _ => false end
  && match s_run sc with RKDefault => true | _ => false end
  && match s_arg_type sc with ATStr => true | _ => false end.

Lemma is_statelessb_sound : forall sc, is_statelessb sc = true -> stateless_class sc.
Proof.
  intros sc H. unfold is_statelessb in H.
  repeat (apply andb_true_iff in H; destruct H as [H ?]).
  unfold stateless_class.
  destruct (s_tokenize_args sc); [discriminate|].
  destruct (s_flipper_only sc); [discriminate|].
  destruct (s_verify_args sc); try discriminate.
  destruct (s_run sc); try discriminate.
  destruct (s_arg_type sc); try discriminate.
  repeat split.
Qed.

Definition takes_args (sc : simple_cls) : bool := match s_arg_req sc with NotAllowed => false | _ => true end.

(* the command words of the generated palette whose class is stateless and takes arguments *)
Definition group_words : list str :=
  flat_map (fun nc => match snd nc with
                      | Simple sc => if is_statelessb sc && takes_args sc then s_names sc else []
                      | Block _ => [] end) palette.

(* pinned: ALT, CTRL/CONTROL, GUI/WINDOWS/META, SHIFT (validated) and STRING/STRINGLN (plain) *)
Lemma group_words_pinned : group_words =
  [ [65;76;84]; [67;84;82;76]; [67;79;78;84;82;79;76]; [71;85;73]; [87;73;78;68;79;87;83]; [77;69;84;65];
    [83;72;73;70;84]; [83;84;82;73;78;71]; [83;84;82;73;78;71;76;78] ]%N.
Proof. vm_compute. reflexivity. Qed.

Definition group_class_okb (k : str) (cb : option (list item)) : bool :=
  match find_command palette k cb with
  | Some (_, Simple sc) => is_statelessb sc && takes_args sc
  | _ => false
  end.

Lemma group_words_ok :
  forallb (fun k => group_class_okb k None && group_class_okb k (Some []) && group_class_okb k (Some [Ln [] 0%Z])
                    && str_eqb (upper k) k && negb (starts_dollar k)) group_words = true.
Proof. vm_compute. reflexivity. Qed.

(* whatever follows the line (nothing, an empty group, a group), the word is dispatched to a
   stateless class that takes arguments -- in any casing *)
Lemma find_group_class : forall k cmd cb, In k group_words -> upper cmd = k -> starts_dollar cmd = false ->
  exists cname sc, find_command palette cmd cb = Some (cname, Simple sc) /\
                   stateless_class sc /\ s_arg_req sc <> NotAllowed.
Proof.
  intros k cmd cb Hin Hu Hd.
  pose proof group_words_ok as Hall. rewrite forallb_forall in Hall. specialize (Hall k Hin).
  apply andb_true_iff in Hall. destruct Hall as [Hall Hnd].
  apply andb_true_iff in Hall. destruct Hall as [Hall Hup].
  apply andb_true_iff in Hall. destruct Hall as [Hall H3].
  apply andb_true_iff in Hall. destruct Hall as [H1 H2].
  apply PipelineProofs.str_eqb_eq in Hup. apply negb_true_iff in Hnd.
  assert (H : group_class_okb k cb = true).
  { destruct cb as [[|x r]|]; [exact H2| |exact H1].
    unfold group_class_okb in *. rewrite (find_command_block palette k x r (Ln [] 0%Z) []). exact H3. }
  unfold group_class_okb in H.
  rewrite <- (find_command_upper palette cmd k cb Hu Hup Hd Hnd) in H.
  destruct (find_command palette cmd cb) as [[cname [sc|bc]]|]; try discriminate.
  apply andb_true_iff in H. destruct H as [Hs Ht].
  exists cname, sc. split; [reflexivity|]. split; [apply is_statelessb_sound; exact Hs|].
  unfold takes_args in Ht. intro Hreq. rewrite Hreq in Ht. discriminate.
Qed.

Section ExecLine.
Variable fo : FloatOps.
Variable child : runner fo.
Variable cx : ctx.

(* a line dispatched to a simple class other than START is its SimpleCommand.compile *)
Lemma exec_line_simple : forall c n cb cmd more cname sc s,
  split_ws1 c = cmd :: more -> find_command palette cmd cb = Some (cname, Simple sc) ->
  s_run sc <> RKStart ->
  exec_line fo child cx c n cb s =
  simple_compile fo child cx (c, n) cname (ByCommand cname) sc cmd n
                 (match more with a :: _ => Some a | [] => None end) cb s.
Proof.
  intros c n cb cmd more cname sc s Hs Hf Hr. unfold exec_line. rewrite Hs, Hf.
  assert (Hst : is_start_class (Simple sc) = false).
  { cbn [is_start_class]. destruct (s_run sc); try reflexivity. contradiction. }
  rewrite Hst. reflexivity.
Qed.

(* an unknown word: the warning (unless suppressed), then the plain fall-back pipeline *)
Lemma exec_line_unknown_suppressed : forall c n cb cmd more s,
  split_ws1 c = cmd :: more -> find_command palette cmd cb = None ->
  supress_command_not_exist (c_opts cx) = true ->
  exec_line fo child cx c n cb s =
  simple_compile fo child cx (c, n) [] ByUnknown generic_simple cmd n
                 (match more with a :: _ => Some a | [] => None end) cb s.
Proof.
  intros c n cb cmd more s Hs Hf Hsup. unfold exec_line. rewrite Hs, Hf, Hsup. reflexivity.
Qed.

End ExecLine.

Lemma unknown_fallback_plain : plain_class generic_simple /\ s_arg_req generic_simple <> NotAllowed.
Proof. split; [exact generic_simple_plain|discriminate]. Qed.
