(* Concrete end-to-end witnesses (text -> output) for the C07 / C11 / C16 theorems, evaluated on the
   model with a dummy FloatOps: the hypotheses of the theorems are satisfiable and the conclusions
   are what the whole compiler does. *)
From Coq Require Import NArith ZArith List Bool.
From DS Require Import Base PyStr Values Expr TabParse Tables Constants Interp.
Import ListNotations.

Definition fo0 : FloatOps := {| F := unit; f_of_Z := fun _ => Some tt; f_of_dec := fun _ _ _ => tt;
  f_add := fun _ _ => tt; f_sub := fun _ _ => tt; f_mul := fun _ _ => tt; f_div := fun _ _ => tt;
  f_floordiv := fun _ _ => tt; f_mod := fun _ _ => tt; f_pow := fun _ _ => PowOk tt;
  f_is_integer := fun _ => false; f_to_Z := fun _ => 0%Z; f_eqb := fun _ _ => true; f_ltb := fun _ _ => false;
  f_is_zero := fun _ => false; f_repr := fun _ => [] |}.
Definition o0 : options := mkOptions 20 false false false false.

(* output texts and number of warnings, or the error class *)
Definition show (r : glob * ires (compiled fo0)) : (list str * nat) + option errcls :=
  match snd r with
  | IOk _ c => inl (map o_text (out fo0 c), length (warnings fo0 c))
  | IErr _ e _ => inr (Some e)
  | _ => inr None
  end.
Definition run_text (t : str) := show (compile_text fo0 o0 (fun _ => None) None t).

(* RUN binds positionally, splices the output, RETURN ends only the function *)
(* FUNC f a,b |     $STRING a |     RETURN |     STRING never | RUN f 1,2 | STRING after *)
Example ex_run_binds_splices_return : run_text [70;85;78;67;32;102;32;97;44;98;10;32;32;32;32;36;83;84;82;73;78;71;32;97;10;32;32;32;32;82;69;84;85;82;78;10;32;32;32;32;83;84;82;73;78;71;32;110;101;118;101;114;10;82;85;78;32;102;32;49;44;50;10;83;84;82;73;78;71;32;97;102;116;101;114]%N = inl ([[83;84;82;73;78;71;32;49]%N; [83;84;82;73;78;71;32;97;102;116;101;114]%N], 0).
Proof. vm_compute. reflexivity. Qed.

(* RUN g 1 *)
Example ex_run_undefined : run_text [82;85;78;32;103;32;49]%N = inr (Some EVarNonExistent).
Proof. vm_compute. reflexivity. Qed.

(* FUNC f a,b |     STRING x | RUN f 1 *)
Example ex_run_arity : run_text [70;85;78;67;32;102;32;97;44;98;10;32;32;32;32;83;84;82;73;78;71;32;120;10;82;85;78;32;102;32;49]%N = inr (Some EInvalidArguments).
Proof. vm_compute. reflexivity. Qed.

(* FUNC f |     BREAKLOOP | RUN f *)
Example ex_run_escape : run_text [70;85;78;67;32;102;10;32;32;32;32;66;82;69;65;75;76;79;79;80;10;82;85;78;32;102]%N = inr (Some EStackReturnType).
Proof. vm_compute. reflexivity. Qed.

(* FUNC f |     STRING one | FUNC f |     STRING two | RUN f *)
Example ex_latest_definition : run_text [70;85;78;67;32;102;10;32;32;32;32;83;84;82;73;78;71;32;111;110;101;10;70;85;78;67;32;102;10;32;32;32;32;83;84;82;73;78;71;32;116;119;111;10;82;85;78;32;102]%N = inl ([[83;84;82;73;78;71;32;116;119;111]%N], 0).
Proof. vm_compute. reflexivity. Qed.

(* a definition made inside a block is not visible after it *)
(* IF TRUE |     FUNC f |         STRING one | RUN f *)
Example ex_definition_local : run_text [73;70;32;84;82;85;69;10;32;32;32;32;70;85;78;67;32;102;10;32;32;32;32;32;32;32;32;83;84;82;73;78;71;32;111;110;101;10;82;85;78;32;102]%N = inr (Some EVarNonExistent).
Proof. vm_compute. reflexivity. Qed.

(* a repeated parameter name: the later position wins *)
(* FUNC f a,a |     $STRING a | RUN f 1,2 *)
Example ex_duplicate_parameter : run_text [70;85;78;67;32;102;32;97;44;97;10;32;32;32;32;36;83;84;82;73;78;71;32;97;10;82;85;78;32;102;32;49;44;50]%N = inl ([[83;84;82;73;78;71;32;50]%N], 0).
Proof. vm_compute. reflexivity. Qed.

(* a parameter named like a caller variable: the callee's final value is copied back *)
(* VAR x 5 | FUNC f x |     VAR x 7 | RUN f 1 | $STRING x *)
Example ex_parameter_writes_through : run_text [86;65;82;32;120;32;53;10;70;85;78;67;32;102;32;120;10;32;32;32;32;86;65;82;32;120;32;55;10;82;85;78;32;102;32;49;10;36;83;84;82;73;78;71;32;120]%N = inl ([[83;84;82;73;78;71;32;55]%N], 0).
Proof. vm_compute. reflexivity. Qed.

(* one argument whose value is a list is spread into several arguments *)
(* VAR l 1,2 | FUNC f a,b |     $STRING b | RUN f l *)
Example ex_list_variable_spread : run_text [86;65;82;32;108;32;49;44;50;10;70;85;78;67;32;102;32;97;44;98;10;32;32;32;32;36;83;84;82;73;78;71;32;98;10;82;85;78;32;102;32;108]%N = inl ([[83;84;82;73;78;71;32;50]%N], 0).
Proof. vm_compute. reflexivity. Qed.

(* RETURN in the main stack ends the program, no warning *)
(* STRING a | RETURN | STRING b *)
Example ex_return_top_level : run_text [83;84;82;73;78;71;32;97;10;82;69;84;85;82;78;10;83;84;82;73;78;71;32;98]%N = inl ([[83;84;82;73;78;71;32;97]%N], 0).
Proof. vm_compute. reflexivity. Qed.

(* C11 *)
(* STRING a |     b |     c *)
Example ex_group_first_plus_group : run_text [83;84;82;73;78;71;32;97;10;32;32;32;32;98;10;32;32;32;32;99]%N = inl ([[83;84;82;73;78;71;32;97]%N; [83;84;82;73;78;71;32;98]%N; [83;84;82;73;78;71;32;99]%N], 0).
Proof. vm_compute. reflexivity. Qed.

(* C11 *)
(* STRING |     a |     b |     c *)
Example ex_group_only : run_text [83;84;82;73;78;71;10;32;32;32;32;97;10;32;32;32;32;98;10;32;32;32;32;99]%N = inl ([[83;84;82;73;78;71;32;97]%N; [83;84;82;73;78;71;32;98]%N; [83;84;82;73;78;71;32;99]%N], 0).
Proof. vm_compute. reflexivity. Qed.

(* C11 *)
(* STRING a | STRING b | STRING c *)
Example ex_group_separate : run_text [83;84;82;73;78;71;32;97;10;83;84;82;73;78;71;32;98;10;83;84;82;73;78;71;32;99]%N = inl ([[83;84;82;73;78;71;32;97]%N; [83;84;82;73;78;71;32;98]%N; [83;84;82;73;78;71;32;99]%N], 0).
Proof. vm_compute. reflexivity. Qed.

(* C11: a rejected argument *)
(* ALT a |     zz *)
Example ex_group_rejected : run_text [65;76;84;32;97;10;32;32;32;32;122;122]%N = inr (Some EInvalidArguments).
Proof. vm_compute. reflexivity. Qed.

(* C11: a rejected argument *)
(* ALT a | ALT zz *)
Example ex_separate_rejected : run_text [65;76;84;32;97;10;65;76;84;32;122;122]%N = inr (Some EInvalidArguments).
Proof. vm_compute. reflexivity. Qed.

(* C16: verbatim, unchecked, one unit stripped *)
(* IGNORE |     ''' |       two more |     	Tab $x 1+ |     ''' | STRING z *)
Example ex_ignore_quoted : run_text [73;71;78;79;82;69;10;32;32;32;32;34;34;34;10;32;32;32;32;32;32;116;119;111;32;109;111;114;101;10;32;32;32;32;9;84;97;98;32;36;120;32;49;43;10;32;32;32;32;34;34;34;10;83;84;82;73;78;71;32;122]%N = inl ([[32;32;116;119;111;32;109;111;114;101]%N; [9;84;97;98;32;36;120;32;49;43]%N; [83;84;82;73;78;71;32;122]%N], 0).
Proof. vm_compute. reflexivity. Qed.

(* C16 *)
(* IGNORE x |     a *)
Example ex_ignore_argument : run_text [73;71;78;79;82;69;32;120;10;32;32;32;32;97]%N = inr (Some EInvalidArguments).
Proof. vm_compute. reflexivity. Qed.

