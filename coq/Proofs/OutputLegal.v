(* C02 (whole program): from the model-level invariant of Proofs/OutputInv.v to the pinned line
   grammar of Spec/LineGrammar.v. *)
From Coq Require Import NArith ZArith List Bool Lia.
From DS Require Import Base PyStr Values Expr TabParse Tables Constants Interp.
From DS Require Import CrashKinds CrashFree DuckyGrammar GrammarProofs LineGrammar OutputInv NoUnknown.
Import ListNotations.

Lemma spec_of_sound : forall cn c, spec_of cn = Some c -> cn = class_name c.
Proof.
  intros cn c H. unfold spec_of in H.
  repeat match type of H with
         | (if str_eqb cn ?n then _ else _) = _ =>
             let E := fresh "E" in
             destruct (str_eqb cn n) eqn:E;
             [apply GrammarProofs.str_eqb_eq in E; injection H as <-; exact E|]
         end.
  discriminate H.
Qed.

(* the facts about the generated classes that the translation needs *)
Lemma class_facts : forall c sc, find_class (class_name c) = Some sc ->
  s_names sc = match c with SWhitespace => s_names sc | _ => cmd_words c end
  /\ s_run sc = match c with SWhitespace => RKWhitespace | SDefaultDelay => RKDefaultDelay | _ => RKDefault end
  /\ (bare_ok c = false -> c <> SWhitespace -> s_arg_req sc = Required)
  /\ (forall a, CrashFree.typed (s_arg_type sc) a -> DuckyGrammar.typed c a).
Proof.
  intros c sc Hsc.
  destruct c; cbn [class_name] in Hsc; open_class Hsc;
    (split; [reflexivity|]); (split; [reflexivity|]);
    (split; [intros Hb Hw; first [discriminate Hb | reflexivity | contradiction Hw; reflexivity]|]);
    intros [s|z] Ht; cbn in Ht |- *; first [exact I | discriminate Ht].
Qed.

Lemma accepted_legal : forall c sc, find_class (class_name c) = Some sc ->
  forall a, DuckyGrammar.typed c a ->
  eval_validator (s_params sc) (s_verify_arg sc) a = Ok true -> legal_arg c a = true.
Proof.
  intros c sc Hsc a Ht Hv.
  assert (Hcases : c = SDefaultDelay \/ c <> SDefaultDelay).
  { destruct c; first [left; reflexivity | right; discriminate]. }
  destruct Hcases as [-> | Hne].
  - exact (default_delay_strict sc Hsc a Ht Hv).
  - exact (validator_strict c Hne sc Hsc a Ht Hv).
Qed.

Lemma validated_line_legal : forall c sc name text,
  find_class (class_name c) = Some sc -> In (upper name) (s_names sc) -> emits sc name text ->
  legal_line c text.
Proof.
  intros c sc name text Hsc Hname Hem.
  destruct (class_facts c sc Hsc) as [Hnames [Hrun [Hreq Htyped]]].
  unfold emits in Hem. rewrite Hrun in Hem.
  assert (Hw : c = SWhitespace \/ c <> SWhitespace).
  { destruct c; first [left; reflexivity | right; discriminate]. }
  destruct Hw as [-> | Hnw].
  - exact Hem.
  - assert (Hex : exists arg, arg_pre2 sc arg /\ text = name_line name arg).
    { destruct c; first [exact Hem | contradiction Hnw; reflexivity]. }
    assert (Hwords : In (upper name) (cmd_words c)).
    { rewrite Hnames in Hname. destruct c; first [exact Hname | contradiction Hnw; reflexivity]. }
    assert (Hgoal : exists w, In w (cmd_words c) /\
               ((exists a, legal_arg c a = true /\ text = w ++ [32%N] ++ content_text a)
                \/ (bare_ok c = true /\ text = w))).
    { destruct Hex as [[l|] [[Hpre _] ->]]; exists (upper name); (split; [exact Hwords|]).
      - left. exists (l_content l). split; [|reflexivity].
        destruct Hpre as [Htl [c0 [Ht0 [Hv Hf]]]].
        apply (formatter_legal c sc Hsc c0 (l_content l) (Htyped _ Ht0) Hf).
        exact (accepted_legal c sc Hsc c0 (Htyped _ Ht0) Hv).
      - right. split; [|reflexivity]. cbn [arg_pre] in Hpre.
        destruct (bare_ok c) eqn:Eb; [reflexivity|]. exfalso. exact (Hpre (Hreq eq_refl Hnw)). }
    destruct c; first [exact Hgoal | contradiction Hnw; reflexivity].
Qed.

(* the key classes without argument, and ENTER *)
Lemma bare_class_facts : forall cn ws, bare_words cn = Some ws ->
  exists sc, find_class cn = Some sc /\ s_names sc = ws
             /\ ((s_run sc = RKDefault /\ s_arg_req sc = NotAllowed) \/ (s_run sc = RKEnter /\ ws = [s_ENTER])).
Proof.
  intros cn ws H. unfold bare_words in H.
  repeat match type of H with
         | (if str_eqb cn ?n then _ else _) = _ =>
             let E := fresh "E" in
             destruct (str_eqb cn n) eqn:E;
             [apply GrammarProofs.str_eqb_eq in E; injection H as <-; subst cn;
              eexists; split; [vm_compute; reflexivity|]; split; [reflexivity|];
              first [left; split; reflexivity | right; split; reflexivity]|]
         end.
  discriminate H.
Qed.

Lemma bare_line_ok : forall cn ws sc name text,
  bare_words cn = Some ws -> find_class cn = Some sc -> In (upper name) (s_names sc) ->
  emits sc name text -> In text ws.
Proof.
  intros cn ws sc name text Hb Hsc Hname Hem.
  destruct (bare_class_facts cn ws Hb) as [sc' [Hsc' [Hnames Hkind]]].
  rewrite Hsc in Hsc'. injection Hsc' as <-. rewrite Hnames in Hname.
  unfold emits in Hem. destruct Hkind as [[Hrun Hreq] | [Hrun ->]]; rewrite Hrun in Hem.
  - destruct Hem as [arg [[_ Hnone] ->]]. rewrite (Hnone Hreq). exact Hname.
  - destruct Hem as [-> | ->]; [exact Hname | left; reflexivity].
Qed.

Theorem line_inv_ok : forall l, line_inv l -> line_ok l.
Proof.
  intros l H. unfold line_inv in H. unfold line_ok.
  destruct (o_tag l) as [cn| | |]; try exact I.
  destruct H as [sc [name [Hsc [Hname Hem]]]].
  destruct (spec_of cn) as [c|] eqn:Es.
  - apply spec_of_sound in Es. subst cn. exact (validated_line_legal c sc name _ Hsc Hname Hem).
  - destruct (bare_words cn) as [ws|] eqn:Eb; [|exact I].
    exact (bare_line_ok cn ws sc name _ Eb Hsc Hname Hem).
Qed.

Lemma Forall_line_ok : forall d, Forall line_inv d -> Forall line_ok d.
Proof. intros d H. apply (Forall_impl _ line_inv_ok). exact H. Qed.

Section Programs.
Variable fo : FloatOps.

Theorem program_outputs_legal : forall o fs file cmds g c,
  compile_items fo o fs file cmds = (g, IOk _ c) -> Forall line_ok (out fo c).
Proof. intros o fs file cmds g c H. apply Forall_line_ok. exact (compile_items_inv fo _ _ _ _ _ _ H). Qed.

Theorem program_outputs_legal_raw : forall o fs file lines g c,
  compile_raw fo o fs file lines = (g, IOk _ c) -> Forall line_ok (out fo c).
Proof. intros o fs file lines g c H. apply Forall_line_ok. exact (compile_raw_inv fo _ _ _ _ _ _ H). Qed.

Theorem program_outputs_legal_text : forall o fs file text g c,
  compile_text fo o fs file text = (g, IOk _ c) -> Forall line_ok (out fo c).
Proof. intros o fs file text g c H. apply Forall_line_ok. exact (compile_text_inv fo _ _ _ _ _ _ H). Qed.


(* no warning, unknown-command warning not suppressed: every line comes from a class of the
   palette (and is legal for it), or is a raw IGNORE line, or the legacy `REPEAT n` line *)
Definition from_palette (l : oline) : Prop :=
  match o_tag l with
  | ByCommand cn => (exists sc, find_class cn = Some sc) /\ line_ok l
  | ByIgnore | ByLegacyRepeat => True
  | ByUnknown => False
  end.

Lemma from_palette_intro : forall l, line_inv l -> o_tag l <> ByUnknown -> from_palette l.
Proof.
  intros l Hi Hu. unfold from_palette. pose proof (line_inv_ok l Hi) as Hok.
  unfold line_inv in Hi. destruct (o_tag l) as [cn| | |] eqn:Et; try exact I.
  - destruct Hi as [sc [name [Hsc _]]]. split; [exists sc; exact Hsc | exact Hok].
  - contradiction Hu. reflexivity.
Qed.

Theorem program_lines_from_palette : forall o fs file cmds g c,
  supress_command_not_exist o = false ->
  compile_items fo o fs file cmds = (g, IOk _ c) ->
  warnings fo c = [] ->
  Forall from_palette (out fo c).
Proof.
  intros o fs file cmds g c Hsup H Hw.
  pose proof (compile_items_inv fo _ _ _ _ _ _ H) as Hinv.
  pose proof (compile_items_no_unknown fo _ _ _ _ _ _ Hsup H Hw) as Hnu.
  rewrite Forall_forall in *. intros l Hl. exact (from_palette_intro l (Hinv l Hl) (Hnu l Hl)).
Qed.

Theorem program_lines_from_palette_text : forall o fs file text g c,
  supress_command_not_exist o = false ->
  compile_text fo o fs file text = (g, IOk _ c) ->
  warnings fo c = [] ->
  Forall from_palette (out fo c).
Proof.
  intros o fs file text g c Hsup H. unfold compile_text in H.
  destruct (prepare_text text) as [cmds|[| | | |]]; try discriminate H.
  exact (program_lines_from_palette _ _ _ _ _ _ Hsup H).
Qed.

End Programs.
