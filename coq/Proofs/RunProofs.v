(* C07: RUN / FUNC / RETURN.
   "RUN f a1,...,ak executes the body of the latest visible definition of f with each argument
    bound to the parameter in the same position, splices the body's output at the call site;
    RETURN ends only the function; calling an undefined function, passing the wrong number of
    arguments, or letting BREAKLOOP/CONTINUELOOP escape a function is a compile error." *)
From Coq Require Import NArith ZArith List Bool Lia.
From DS Require Import Base PyStr Values Expr TabParse Tables Constants Interp.
From DS Require Import ScopeProofs PipelineProofs StackLift PrintsMono CrashFree UnknownWarn.
Import ListNotations.

Arguments IOk {A}. Arguments IErr {A}. Arguments ICrash {A}. Arguments IUnmod {A}.
Arguments s_g {fo}. Arguments s_env {fo}. Arguments s_line2 {fo}. Arguments mkSt {fo}.

Section Run.
Variable fo : FloatOps.
Notation value := (value fo).
Notation env := (env fo).


(* ------------------------------------------------------------------ the pieces of a call *)
(* the argument values: nothing, or the value of the text after the name -- a list value
   (what top-level commas build) is spread, any other value is one argument *)
Definition spread (v : value) : list value := match v with VList xs => xs | _ => [v] end.

Definition arg_values (e : env) (var_string : option str) : res (list value) :=
  match var_string with
  | None => Ok []
  | Some vs => if is_blank vs then Ok [] else do v <- tokenize fo (all_vars fo e) vs; Ok (spread v)
  end.

(* parameters written, in order, into the user variables of the callee's (copied-in) environment *)
Definition bind_params (params : list str) (vals : list value) (ce : env) : env :=
  mkEnv fo (e_sys fo ce) (upd_all (combine params vals) (e_user fo ce)) (e_temp fo ce) (e_funcs fo ce).

Variable child : runner fo.
Variable cx : ctx.
Variable cur : preline.

Definition callee_file (f : func) : option path :=
  match fn_file f with Some p => Some p | None => c_file cx end.

Definition callee_ctx (f : func) (l2 : option preline) : ctx :=
  mkCtx (c_opts cx) (c_fs cx) (here cx cur l2) (callee_file f).

Definition callee_env (f : func) (vals : list value) (caller : env) : env :=
  bind_params (fn_args f) vals (append_env fo (empty_env fo) caller).

Definition stack_full : bool := cmp_eval stack_limit_op (pile_len cx) (stack_limit (c_opts cx)).

(* what a call does, in terms of the child runner only *)
Definition call_result (f : func) (vals : list value) (s : st fo) : st fo * ires rc :=
  if stack_full then (s, IErr EStackOverflow (Some (here cx cur (s_line2 s))))
  else
    match child (callee_ctx f (s_line2 s)) (s_g s) (callee_env f vals (s_env s)) (fn_code f) with
    | (g', IOk (cr, cenv2)) =>
        (mkSt g' (update_from_env fo (s_env s) cenv2) (s_line2 s),
         match cr_sig cr with
         | SBreak | SContinue => IErr EStackReturnType (Some (here cx cur (s_line2 s)))
         | _ => IOk (RComp (mkCret (cr_data cr) SNormal))
         end)
    | (g', IErr e t) => (mkSt g' (s_env s) (s_line2 s), IErr e t)
    | (g', ICrash k) => (mkSt g' (s_env s) (s_line2 s), ICrash k)
    | (g', IUnmod) => (mkSt g' (s_env s) (s_line2 s), IUnmod)
    end.

(* ------------------------------------------------------------------ run_compile for RKRun, completely *)
Lemma run_unfold : forall cname sc name a num orig fname var_string s,
  s_run sc = RKRun ->
  break_arg (content_text a) = (fname, var_string) ->
  run_compile fo child cx cur cname sc name (Some (mkLine a num orig)) s =
  match arg_values (s_env s) var_string with
  | Ok vals =>
      match lookup fname (e_funcs fo (s_env s)) with
      | None => (s, IErr EVarNonExistent (Some (here cx cur (s_line2 s))))
      | Some f =>
          if negb (Nat.eqb (length (fn_args f)) (length vals))
          then (s, IErr EInvalidArguments (Some (here cx cur (s_line2 s))))
          else call_result f vals s
      end
  | Err e => (s, IErr e (Some (here cx cur (s_line2 s))))
  | Crash k => (s, ICrash k)
  | Unmodelled => (s, IUnmod)
  end.
Proof.
  intros cname sc name a num orig fname var_string s Hr Hb.
  unfold run_compile. rewrite Hr. cbn [l_content]. rewrite Hb.
  assert (Hargs :
    (match var_string with
     | None => ret fo []
     | Some vs => if is_blank vs then ret fo [] else
                  bindM fo (tokenizeM fo cx cur vs) (fun v => ret fo (match v with VList xs => xs | _ => [v] end))
     end) s =
    match arg_values (s_env s) var_string with
    | Ok vals => (s, IOk vals)
    | Err e => (s, IErr e (Some (here cx cur (s_line2 s))))
    | Crash k => (s, ICrash k)
    | Unmodelled => (s, IUnmod)
    end).
  { unfold arg_values. destruct var_string as [vs|]; [|reflexivity].
    destruct (is_blank vs); [reflexivity|].
    unfold tokenizeM, bindM, get_env, lift, ret.
    destruct (tokenize fo (all_vars fo (s_env s)) vs) as [v|e|k|]; reflexivity. }
  unfold bindM at 1. rewrite Hargs. clear Hargs.
  destruct (arg_values (s_env s) var_string) as [vals|e|k|]; try reflexivity.
  unfold bindM at 1, get_env at 1.
  destruct (lookup fname (e_funcs fo (s_env s))) as [f|]; [|reflexivity].
  destruct (negb (Nat.eqb (length (fn_args f)) (length vals))); [reflexivity|].
  unfold call_result, stack_full, run_child, run_child_with, bindM.
  destruct (cmp_eval stack_limit_op (pile_len cx) (stack_limit (c_opts cx))); [reflexivity|].
  unfold callee_ctx, callee_env, callee_file, bind_params, upd_all.
  destruct (child _ _ _ _) as [g' [[cr cenv2]|e t|k|]]; try reflexivity.
  unfold ret. destruct (cr_sig cr); reflexivity.
Qed.

(* (a0) the arguments are evaluated first: their error wins, even for an undefined function *)
Lemma run_argument_error : forall cname sc name a num orig fname var_string s e,
  s_run sc = RKRun -> break_arg (content_text a) = (fname, var_string) ->
  arg_values (s_env s) var_string = Err e ->
  run_compile fo child cx cur cname sc name (Some (mkLine a num orig)) s =
  (s, IErr e (Some (here cx cur (s_line2 s)))).
Proof.
  intros cname sc name a num orig fname var_string s e Hr Hb Ha.
  rewrite (run_unfold cname sc name a num orig fname var_string s Hr Hb), Ha. reflexivity.
Qed.

(* (a) calling an undefined function *)
Lemma run_undefined : forall cname sc name a num orig fname var_string s vals,
  s_run sc = RKRun -> break_arg (content_text a) = (fname, var_string) ->
  arg_values (s_env s) var_string = Ok vals ->
  lookup fname (e_funcs fo (s_env s)) = None ->
  run_compile fo child cx cur cname sc name (Some (mkLine a num orig)) s =
  (s, IErr EVarNonExistent (Some (here cx cur (s_line2 s)))).
Proof.
  intros cname sc name a num orig fname var_string s vals Hr Hb Ha Hl.
  rewrite (run_unfold cname sc name a num orig fname var_string s Hr Hb), Ha, Hl. reflexivity.
Qed.

(* (b) wrong number of arguments *)
Lemma run_arity : forall cname sc name a num orig fname var_string s vals f,
  s_run sc = RKRun -> break_arg (content_text a) = (fname, var_string) ->
  arg_values (s_env s) var_string = Ok vals ->
  lookup fname (e_funcs fo (s_env s)) = Some f ->
  length (fn_args f) <> length vals ->
  run_compile fo child cx cur cname sc name (Some (mkLine a num orig)) s =
  (s, IErr EInvalidArguments (Some (here cx cur (s_line2 s)))).
Proof.
  intros cname sc name a num orig fname var_string s vals f Hr Hb Ha Hl Hn.
  rewrite (run_unfold cname sc name a num orig fname var_string s Hr Hb), Ha, Hl.
  apply Nat.eqb_neq in Hn. rewrite Hn. reflexivity.
Qed.

(* (c) the call itself *)
Lemma run_calls : forall cname sc name a num orig fname var_string s vals f,
  s_run sc = RKRun -> break_arg (content_text a) = (fname, var_string) ->
  arg_values (s_env s) var_string = Ok vals ->
  lookup fname (e_funcs fo (s_env s)) = Some f ->
  length (fn_args f) = length vals ->
  run_compile fo child cx cur cname sc name (Some (mkLine a num orig)) s = call_result f vals s.
Proof.
  intros cname sc name a num orig fname var_string s vals f Hr Hb Ha Hl Hn.
  rewrite (run_unfold cname sc name a num orig fname var_string s Hr Hb), Ha, Hl.
  apply Nat.eqb_eq in Hn. rewrite Hn. reflexivity.
Qed.

Definition escapes (sg : signal) : bool := match sg with SBreak | SContinue => true | _ => false end.

(* the body is run by the child with the function's code, the function's file (the caller's when
   the definition carries none), the copied-in environment with the parameters bound; its output
   is spliced (RComp) and its signal absorbed: SNormal and SReturn both give SNormal *)
Lemma run_binds : forall cname sc name a num orig fname var_string s vals f g' cr cenv2,
  s_run sc = RKRun -> break_arg (content_text a) = (fname, var_string) ->
  arg_values (s_env s) var_string = Ok vals ->
  lookup fname (e_funcs fo (s_env s)) = Some f ->
  length (fn_args f) = length vals ->
  stack_full = false ->
  child (callee_ctx f (s_line2 s)) (s_g s) (callee_env f vals (s_env s)) (fn_code f) = (g', IOk (cr, cenv2)) ->
  run_compile fo child cx cur cname sc name (Some (mkLine a num orig)) s =
  (mkSt g' (update_from_env fo (s_env s) cenv2) (s_line2 s),
   if escapes (cr_sig cr) then IErr EStackReturnType (Some (here cx cur (s_line2 s)))
   else IOk (RComp (mkCret (cr_data cr) SNormal))).
Proof.
  intros cname sc name a num orig fname var_string s vals f g' cr cenv2 Hr Hb Ha Hl Hn Hs Hc.
  rewrite (run_calls cname sc name a num orig fname var_string s vals f Hr Hb Ha Hl Hn).
  unfold call_result. rewrite Hs, Hc. destruct (cr_sig cr); reflexivity.
Qed.

(* "RETURN ends only the function" *)
Corollary run_absorbs_return : forall cname sc name a num orig fname var_string s vals f g' cr cenv2,
  s_run sc = RKRun -> break_arg (content_text a) = (fname, var_string) ->
  arg_values (s_env s) var_string = Ok vals ->
  lookup fname (e_funcs fo (s_env s)) = Some f ->
  length (fn_args f) = length vals ->
  stack_full = false ->
  child (callee_ctx f (s_line2 s)) (s_g s) (callee_env f vals (s_env s)) (fn_code f) = (g', IOk (cr, cenv2)) ->
  cr_sig cr = SNormal \/ cr_sig cr = SReturn ->
  run_compile fo child cx cur cname sc name (Some (mkLine a num orig)) s =
  (mkSt g' (update_from_env fo (s_env s) cenv2) (s_line2 s), IOk (RComp (mkCret (cr_data cr) SNormal))).
Proof.
  intros cname sc name a num orig fname var_string s vals f g' cr cenv2 Hr Hb Ha Hl Hn Hs Hc Hsig.
  rewrite (run_binds cname sc name a num orig fname var_string s vals f g' cr cenv2 Hr Hb Ha Hl Hn Hs Hc).
  destruct Hsig as [-> | ->]; reflexivity.
Qed.

(* BREAKLOOP / CONTINUELOOP escaping the function *)
Corollary run_loop_signal_escapes : forall cname sc name a num orig fname var_string s vals f g' cr cenv2,
  s_run sc = RKRun -> break_arg (content_text a) = (fname, var_string) ->
  arg_values (s_env s) var_string = Ok vals ->
  lookup fname (e_funcs fo (s_env s)) = Some f ->
  length (fn_args f) = length vals ->
  stack_full = false ->
  child (callee_ctx f (s_line2 s)) (s_g s) (callee_env f vals (s_env s)) (fn_code f) = (g', IOk (cr, cenv2)) ->
  cr_sig cr = SBreak \/ cr_sig cr = SContinue ->
  exists s', run_compile fo child cx cur cname sc name (Some (mkLine a num orig)) s =
             (s', IErr EStackReturnType (Some (here cx cur (s_line2 s)))).
Proof.
  intros cname sc name a num orig fname var_string s vals f g' cr cenv2 Hr Hb Ha Hl Hn Hs Hc Hsig.
  rewrite (run_binds cname sc name a num orig fname var_string s vals f g' cr cenv2 Hr Hb Ha Hl Hn Hs Hc).
  eexists. destruct Hsig as [-> | ->]; reflexivity.
Qed.

(* an error inside the body is the error of the call; the caller's environment is untouched *)
Lemma run_body_error : forall cname sc name a num orig fname var_string s vals f g' e t,
  s_run sc = RKRun -> break_arg (content_text a) = (fname, var_string) ->
  arg_values (s_env s) var_string = Ok vals ->
  lookup fname (e_funcs fo (s_env s)) = Some f ->
  length (fn_args f) = length vals ->
  stack_full = false ->
  child (callee_ctx f (s_line2 s)) (s_g s) (callee_env f vals (s_env s)) (fn_code f) = (g', IErr e t) ->
  run_compile fo child cx cur cname sc name (Some (mkLine a num orig)) s =
  (mkSt g' (s_env s) (s_line2 s), IErr e t).
Proof.
  intros cname sc name a num orig fname var_string s vals f g' e t Hr Hb Ha Hl Hn Hs Hc.
  rewrite (run_calls cname sc name a num orig fname var_string s vals f Hr Hb Ha Hl Hn).
  unfold call_result. rewrite Hs, Hc. reflexivity.
Qed.

(* too deep: the call is refused before anything runs *)
Lemma run_stack_overflow : forall cname sc name a num orig fname var_string s vals f,
  s_run sc = RKRun -> break_arg (content_text a) = (fname, var_string) ->
  arg_values (s_env s) var_string = Ok vals ->
  lookup fname (e_funcs fo (s_env s)) = Some f ->
  length (fn_args f) = length vals ->
  stack_full = true ->
  run_compile fo child cx cur cname sc name (Some (mkLine a num orig)) s =
  (s, IErr EStackOverflow (Some (here cx cur (s_line2 s)))).
Proof.
  intros cname sc name a num orig fname var_string s vals f Hr Hb Ha Hl Hn Hs.
  rewrite (run_calls cname sc name a num orig fname var_string s vals f Hr Hb Ha Hl Hn).
  unfold call_result. rewrite Hs. reflexivity.
Qed.

End Run.

(* ------------------------------------------------------------------ (c) positional binding *)
Section Binding.
Variable fo : FloatOps.
Notation value := (value fo).
Notation env := (env fo).

Lemma bind_params_frame : forall (params : list str) vals (ce : env),
  e_sys fo (bind_params fo params vals ce) = e_sys fo ce /\
  e_temp fo (bind_params fo params vals ce) = e_temp fo ce /\
  e_funcs fo (bind_params fo params vals ce) = e_funcs fo ce.
Proof. intros. repeat split. Qed.

(* in general: the LAST pair with that name wins; names that are not parameters keep the caller's value *)
Lemma bind_params_lookup : forall (params : list str) vals (ce : env) (x : str),
  lookup x (e_user fo (bind_params fo params vals ce)) =
  match lookup x (rev (combine params vals)) with
  | Some v => Some v
  | None => lookup x (e_user fo ce)
  end.
Proof. intros. cbn [bind_params e_user]. apply lookup_upd_all. Qed.

Lemma lookup_combine_None : forall (params : list str) (vals : list value) x,
  ~ In x params -> lookup x (rev (combine params vals)) = None.
Proof.
  intros params vals x Hn. apply lookup_None_notin. intro Hin. apply Hn.
  rewrite map_rev in Hin. apply in_rev in Hin.
  clear Hn. revert vals Hin. induction params as [|p ps IH]; intros [|v vs] Hin; cbn in Hin; try contradiction.
  destruct Hin as [<-|Hin]; [left; reflexivity|right; exact (IH vs Hin)].
Qed.

Lemma bind_params_other : forall (params : list str) vals (ce : env) (x : str),
  ~ In x params -> lookup x (e_user fo (bind_params fo params vals ce)) = lookup x (e_user fo ce).
Proof. intros params vals ce x Hn. rewrite bind_params_lookup, lookup_combine_None by exact Hn. reflexivity. Qed.

Lemma combine_nodup_keys : forall (params : list str) (vals : list value),
  NoDup params -> nodup_keys (combine params vals).
Proof.
  unfold nodup_keys. induction params as [|p ps IH]; intros vals Hnd; [constructor|].
  destruct vals as [|v vs]; [constructor|]. cbn [combine map fst].
  inversion Hnd as [|p' ps' Hp Hps]. subst. constructor; [|exact (IH vs Hps)].
  intro Hin. apply Hp. clear - Hin. revert vs Hin.
  induction ps as [|q qs IHq]; intros [|v vs] Hin; cbn in Hin; try contradiction.
  destruct Hin as [<-|Hin]; [left; reflexivity|right; exact (IHq vs Hin)].
Qed.

Lemma lookup_combine_nth : forall (params : list str) (vals : list value) i,
  NoDup params -> length params = length vals -> i < length params ->
  lookup (nth i params []) (combine params vals) = Some (nth i vals VNone).
Proof.
  induction params as [|p ps IH]; intros vals i Hnd Hlen Hi; cbn [length] in Hi; [lia|].
  destruct vals as [|v vs]; [discriminate|]. cbn [length] in Hlen. injection Hlen as Hlen.
  inversion Hnd as [|p' ps' Hp Hps]. subst.
  destruct i as [|i]; cbn [nth combine lookup].
  - rewrite str_eqb_refl. reflexivity.
  - assert (Hne : str_eqb (nth i ps []) p = false).
    { apply str_eqb_neq. intros Heq. apply Hp. rewrite <- Heq. apply nth_In. lia. }
    rewrite Hne. apply IH; [exact Hps|exact Hlen|lia].
Qed.

(* distinct parameter names: parameter i is bound to argument i *)
Theorem bind_params_positional : forall (params : list str) vals (ce : env) i,
  NoDup params -> length params = length vals -> i < length params ->
  lookup (nth i params []) (e_user fo (bind_params fo params vals ce)) = Some (nth i vals VNone).
Proof.
  intros params vals ce i Hnd Hlen Hi.
  rewrite bind_params_lookup, lookup_rev_nodup by (apply combine_nodup_keys; exact Hnd).
  rewrite (lookup_combine_nth params vals i Hnd Hlen Hi). reflexivity.
Qed.

(* a repeated parameter name: the later position wins (FUNC f a,a / RUN f 1,2 binds a = 2) *)
Lemma bind_params_duplicate_last : forall (ce : env) (p : str) (v1 v2 : value),
  lookup p (e_user fo (bind_params fo [p; p] [v1; v2] ce)) = Some v2.
Proof.
  intros ce p v1 v2. rewrite bind_params_lookup. cbn [combine rev app lookup]. rewrite str_eqb_refl. reflexivity.
Qed.

(* the callee starts from a copy of the caller: the caller's variables and functions are visible
   (unless shadowed by a parameter), its IF flag and other temporaries are not *)
Lemma callee_sees_caller_vars : forall f vals (caller : env) x,
  nodup_keys (e_user fo caller) -> ~ In x (fn_args f) ->
  lookup x (e_user fo (callee_env fo f vals caller)) = lookup x (e_user fo caller).
Proof.
  intros f vals caller x Hnd Hn. unfold callee_env.
  rewrite bind_params_other by exact Hn. apply entry_sees_outer. exact Hnd.
Qed.

Lemma callee_sees_caller_funcs : forall f vals (caller : env) x,
  nodup_keys (e_funcs fo caller) ->
  lookup x (e_funcs fo (callee_env fo f vals caller)) = lookup x (e_funcs fo caller).
Proof. intros f vals caller x Hnd. unfold callee_env. cbn [bind_params e_funcs]. apply entry_sees_outer_funcs. exact Hnd. Qed.

Lemma callee_temp_empty : forall f vals (caller : env), e_temp fo (callee_env fo f vals caller) = [].
Proof. reflexivity. Qed.

Theorem callee_param_bound : forall f vals (caller : env) i,
  NoDup (fn_args f) -> length (fn_args f) = length vals -> i < length (fn_args f) ->
  lookup (nth i (fn_args f) []) (e_user fo (callee_env fo f vals caller)) = Some (nth i vals VNone).
Proof. intros f vals caller i. unfold callee_env. apply bind_params_positional. Qed.

(* after the call: the caller keeps its own names; those the callee still has carry the callee's
   final values (so a parameter named like a caller variable writes through), what the callee
   created is gone, functions and temporaries are the caller's *)
Lemma caller_after_call : forall (caller cenv2 : env) x,
  lookup x (e_user fo (update_from_env fo caller cenv2)) =
  (if has_key x (e_user fo caller) then lookup x (e_user fo cenv2) else None) /\
  e_funcs fo (update_from_env fo caller cenv2) = e_funcs fo caller /\
  e_temp fo (update_from_env fo caller cenv2) = e_temp fo caller.
Proof. intros caller cenv2 x. split; [apply exit_values|split; reflexivity]. Qed.

End Binding.

(* ------------------------------------------------------------------ (d) the argument values *)
Section ArgValues.
Variable fo : FloatOps.
Notation value := (value fo).
Notation env := (env fo).

Lemma arg_values_none : forall e : env, arg_values fo e None = Ok [].
Proof. reflexivity. Qed.

Lemma arg_values_blank : forall (e : env) vs, is_blank vs = true -> arg_values fo e (Some vs) = Ok [].
Proof. intros e vs H. unfold arg_values. rewrite H. reflexivity. Qed.

Lemma arg_values_single : forall (e : env) vs v,
  is_blank vs = false -> tokenize fo (all_vars fo e) vs = Ok v ->
  (forall xs, v <> VList xs) -> arg_values fo e (Some vs) = Ok [v].
Proof.
  intros e vs v Hb Ht Hn. unfold arg_values. rewrite Hb, Ht. cbn [bind spread].
  destruct v; try reflexivity. exfalso. eapply Hn. reflexivity.
Qed.

Lemma arg_values_list : forall (e : env) vs xs,
  is_blank vs = false -> tokenize fo (all_vars fo e) vs = Ok (VList xs) ->
  arg_values fo e (Some vs) = Ok xs.
Proof. intros e vs xs Hb Ht. unfold arg_values. rewrite Hb, Ht. reflexivity. Qed.

End ArgValues.
