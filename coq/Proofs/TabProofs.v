(* C03: proofs about the indentation parser (Model/TabParse.v). *)
From Coq Require Import NArith ZArith List Bool Lia.
From DS Require Import Base PyStr TabParse BlockTree.
Import ListNotations.

(* ================================================================== string helpers *)

Lemma sp_isspace : isspace_c sp = true.
Proof. vm_compute. reflexivity. Qed.
Lemma tb_isspace : isspace_c tb = true.
Proof. vm_compute. reflexivity. Qed.

Lemma removeprefix_app : forall u c x, removeprefix u c = Some x -> c = u ++ x.
Proof.
  induction u as [|a u IH]; intros c x H; cbn [removeprefix] in H.
  - injection H as <-. reflexivity.
  - destruct c as [|y c]; [discriminate|].
    destruct (N.eqb_spec a y) as [->|Hne]; [|discriminate].
    cbn [app]. f_equal. apply IH. exact H.
Qed.

Lemma removeprefix_app_same : forall u x, removeprefix u (u ++ x) = Some x.
Proof.
  induction u as [|a u IH]; intro x; cbn [removeprefix app]; [reflexivity|].
  rewrite N.eqb_refl. apply IH.
Qed.

Lemma startswith_app_same : forall u x, startswith u (u ++ x) = true.
Proof.
  induction u as [|a u IH]; intro x; cbn [startswith app]; [reflexivity|].
  rewrite N.eqb_refl. cbn [andb]. apply IH.
Qed.

Lemma lstrip_ws_app : forall u x, forallb isspace_c u = true -> lstrip (u ++ x) = lstrip x.
Proof.
  induction u as [|a u IH]; intros x H; cbn [app]; [reflexivity|].
  cbn [forallb] in H. apply andb_true_iff in H. destruct H as [Ha Hu].
  cbn [lstrip]. rewrite Ha. apply IH. exact Hu.
Qed.

Lemma is_blank_ws_app : forall u x, forallb isspace_c u = true -> is_blank (u ++ x) = is_blank x.
Proof. intros u x H. unfold is_blank. rewrite lstrip_ws_app by exact H. reflexivity. Qed.

Lemma char_in_app : forall a u x, char_in a (u ++ x) = char_in a u || char_in a x.
Proof.
  induction u as [|b u IH]; intro x; cbn [app char_in]; [reflexivity|].
  rewrite IH. rewrite orb_assoc. reflexivity.
Qed.

Lemma discover_ws : forall c, forallb isspace_c (discover_tab_char c) = true.
Proof.
  induction c as [|a c IH]; cbn [discover_tab_char]; [reflexivity|].
  destruct (isspace_c a) eqn:Ha; [|reflexivity].
  cbn [forallb]. rewrite Ha. exact IH.
Qed.

Lemma discover_split : forall c, c = discover_tab_char c ++ lstrip c.
Proof.
  induction c as [|a c IH]; cbn [discover_tab_char lstrip]; [reflexivity|].
  destruct (isspace_c a); [|reflexivity].
  cbn [app]. f_equal. exact IH.
Qed.

Lemma discover_ws_app : forall u x,
  forallb isspace_c u = true ->
  match x with [] => False | a :: _ => isspace_c a = false end ->
  discover_tab_char (u ++ x) = u.
Proof.
  induction u as [|b u IH]; intros x Hu Hx; cbn [app].
  - destruct x as [|a x]; [contradiction|]. cbn [discover_tab_char]. rewrite Hx. reflexivity.
  - cbn [forallb] in Hu. apply andb_true_iff in Hu. destruct Hu as [Hb Hu].
    cbn [discover_tab_char]. rewrite Hb. f_equal. apply IH; assumption.
Qed.

Lemma no34_not_triple : forall c, char_in 34%N c = false -> startswith triple_quote c = false.
Proof.
  intros c H. unfold triple_quote. destruct c as [|y c]; cbn [startswith]; [reflexivity|].
  cbn [char_in] in H. apply orb_false_iff in H. destruct H as [H _]. rewrite H. reflexivity.
Qed.

Lemma ws_first_not_triple : forall a c, isspace_c a = true -> startswith triple_quote (a :: c) = false.
Proof.
  intros a c H. unfold triple_quote. cbn [startswith].
  destruct (N.eqb_spec 34%N a) as [<-|Hne]; [|reflexivity].
  vm_compute in H. discriminate.
Qed.

Lemma forallb_rev : forall (A : Type) (f : A -> bool) (l : list A), forallb f (rev l) = forallb f l.
Proof.
  intros A f. induction l as [|x l IH]; [reflexivity|].
  cbn [rev forallb]. rewrite forallb_app. cbn [forallb]. rewrite IH.
  rewrite andb_true_r. apply andb_comm.
Qed.

Lemma filter_all : forall (A : Type) (f : A -> bool) (l : list A), forallb f l = true -> filter f l = l.
Proof.
  intros A f. induction l as [|x l IH]; intro H; [reflexivity|].
  cbn [forallb] in H. apply andb_true_iff in H. destruct H as [Hx Hl].
  cbn [filter]. rewrite Hx. f_equal. apply IH. exact Hl.
Qed.

(* ================================================================== has_tab *)

(* whitespace-only indentation unit *)
Definition tab_ok (tab : option str) : Prop :=
  match tab with
  | Some u => forallb isspace_c u = true
  | None => True
  end.

(* what the line loses when it is moved into the pending block *)
Definition strip_unit (u c : str) : str :=
  match removeprefix u c with Some x => x | None => c end.

Lemma strip_unit_suffix : forall u c, exists p, c = p ++ strip_unit u c.
Proof.
  intros u c. unfold strip_unit. destruct (removeprefix u c) as [x|] eqn:E.
  - exists u. apply removeprefix_app. exact E.
  - exists []. reflexivity.
Qed.

Lemma strip_unit_blank : forall u c, forallb isspace_c u = true -> is_blank (strip_unit u c) = is_blank c.
Proof.
  intros u c Hu. unfold strip_unit. destruct (removeprefix u c) as [x|] eqn:E; [|reflexivity].
  apply removeprefix_app in E. subst c. symmetry. apply is_blank_ws_app. exact Hu.
Qed.

Lemma strip_unit_no34 : forall u c, char_in 34%N c = false -> char_in 34%N (strip_unit u c) = false.
Proof.
  intros u c H. destruct (strip_unit_suffix u c) as [p Hp]. rewrite Hp in H.
  rewrite char_in_app in H. apply orb_false_iff in H. tauto.
Qed.

(* the unit in force after an indented line is whitespace only *)
Lemma has_tab_unit_ws : forall c tab n k u,
  tab_ok tab ->
  has_tab c tab n = TOk k ->
  match k with NewTab u' => Some u' | _ => tab end = Some u ->
  k <> NoTab ->
  forallb isspace_c u = true.
Proof.
  intros c tab n k u Htab Hk Hu Hnt.
  destruct k as [| |u'].
  - contradiction.
  - subst tab. exact Htab.
  - injection Hu as ->.
    assert (Hd : forall r, match c return tabres tabkind with
                           | a :: _ => if (a =? sp)%N || (a =? tb)%N then TOk (NewTab (discover_tab_char c)) else TOk NoTab
                           | [] => TOk NoTab
                           end = @TOk tabkind (NewTab r) -> r = discover_tab_char c).
    { intros r H. destruct c as [|a c]; [discriminate|].
      destruct ((a =? sp)%N || (a =? tb)%N); [|discriminate]. injection H as <-. reflexivity. }
    unfold has_tab in Hk. destruct tab as [u0|].
    + destruct (startswith u0 c); [discriminate|].
      destruct c as [|a c].
      * discriminate.
      * destruct (isspace_c a); [discriminate|]. apply Hd in Hk. subst u. apply discover_ws.
    + apply Hd in Hk. subst u. apply discover_ws.
Qed.

(* ================================================================== T1: the fuel is sufficient *)

Lemma has_tab_err : forall c tab n e, has_tab c tab n = TErr e -> e = TabMismatch n.
Proof.
  intros c tab n e H. unfold has_tab in H.
  assert (Hd : forall e', match c return tabres tabkind with
                          | a :: _ => if (a =? sp)%N || (a =? tb)%N then TOk (NewTab (discover_tab_char c)) else TOk NoTab
                          | [] => TOk NoTab
                          end = TErr e' -> False).
  { intros e' H'. destruct c as [|a c]; [discriminate|].
    destruct ((a =? sp)%N || (a =? tb)%N); discriminate. }
  destruct tab as [u|].
  - destruct (startswith u c); [discriminate|].
    destruct c as [|a c].
    + discriminate.
    + destruct (isspace_c a).
      * injection H as <-. reflexivity.
      * apply Hd in H. contradiction.
  - apply Hd in H. contradiction.
Qed.

Section LoopFuel.
Variable rec : list preline -> option str -> tabres (list item).
Variable L : nat.
Hypothesis Hrec : forall t tab, length t < L -> rec t tab <> TErr TabFuel.

Lemma pd_loop_nofuel : forall text tab (newc : list preline) ret free (first : bool),
  length newc + length text + (if first then 0 else 1) <= L ->
  (first = true -> newc = []) ->
  pd_loop rec text tab newc ret free first <> TErr TabFuel.
Proof.
  induction text as [|[c n] rest IH]; intros tab newc ret free first Hlen Hfirst; cbn [pd_loop].
  - destruct (negb (free =? 0)%Z); [discriminate|].
    destruct newc as [|x newc']; [discriminate|].
    assert (Hl : length (rev (x :: newc')) < L).
    { rewrite rev_length. destruct first; [specialize (Hfirst eq_refl); discriminate|].
      cbn [length] in *. lia. }
    specialize (Hrec _ tab Hl).
    destruct (rec (rev (x :: newc')) tab) as [b|e]; [discriminate|exact Hrec].
  - cbn [length] in Hlen.
    destruct (is_blank c).
    { apply IH; [lia|exact Hfirst]. }
    destruct (startswith triple_quote c && (first || negb (free =? 0)%Z)).
    { apply IH; [destruct first; cbn [length] in *; lia|intro Hf; discriminate Hf]. }
    destruct (negb (free =? 0)%Z).
    { apply IH; [destruct first; lia|intro Hf; discriminate Hf]. }
    destruct (has_tab c tab n) as [k|e] eqn:Eh; [|apply has_tab_err in Eh; subst e; discriminate].
    assert (Hpush : forall tab',
      (if first then TErr (TabUnexpected n)
       else match tab' with
            | None => TErr TabImpossible
            | Some u => pd_loop rec rest tab' ((match removeprefix u c with Some x => x | None => c end, n) :: newc) ret free false
            end) <> TErr TabFuel).
    { intro tab'. destruct first; [discriminate|].
      destruct tab' as [u|]; [|discriminate].
      apply IH; [cbn [length]; lia|intro Hf; discriminate Hf]. }
    destruct k as [| |u'].
    + destruct newc as [|x newc'].
      * apply IH; [destruct first; cbn [length]; lia|intro Hf; discriminate Hf].
      * assert (Hl : length (rev (x :: newc')) < L).
        { rewrite rev_length. cbn [length] in *. destruct first; lia. }
        specialize (Hrec _ tab Hl).
        destruct (rec (rev (x :: newc')) tab) as [b|e]; [|exact Hrec].
        apply IH; [destruct first; cbn [length]; lia|intro Hf; discriminate Hf].
    + exact (Hpush tab).
    + exact (Hpush (Some u')).
Qed.
End LoopFuel.

Lemma parse_doc_fuel : forall fuel text tab, length text < fuel -> parse_doc fuel text tab <> TErr TabFuel.
Proof.
  induction fuel as [|f IH]; intros text tab Hlen; [lia|].
  cbn [parse_doc].
  apply pd_loop_nofuel with (L := f).
  - intros t tab' Ht. apply IH. exact Ht.
  - cbn [length]. lia.
  - reflexivity.
Qed.

Theorem parse_doc_total : forall text tab, parse_doc (S (length text)) text tab <> TErr TabFuel.
Proof. intros text tab. apply parse_doc_fuel. lia. Qed.

Theorem parse_document_total : forall text, parse_document text <> TErr TabFuel.
Proof. intro text. apply parse_doc_total. Qed.

(* ================================================================== T2: numbers and order are preserved *)

Lemma numbers_app : forall a b, numbers (a ++ b) = numbers a ++ numbers b.
Proof. intros a b. unfold numbers. apply flat_map_app. Qed.

Lemma numbers_snoc : forall x l, numbers (l ++ [x]) = numbers l ++ item_numbers x.
Proof.
  intros x l. rewrite numbers_app. f_equal.
  unfold numbers. cbn [flat_map]. apply app_nil_r.
Qed.

Lemma numbers_rev_cons : forall x ret, numbers (rev (x :: ret)) = numbers (rev ret) ++ item_numbers x.
Proof. intros x ret. cbn [rev]. apply numbers_snoc. Qed.

Lemma code_numbers_nonblank : forall t, forallb nonblank_line t = true -> code_numbers t = map snd t.
Proof. intros t H. unfold code_numbers. rewrite filter_all by exact H. reflexivity. Qed.

Lemma code_numbers_cons_blank : forall (l : preline) rest,
  is_blank (fst l) = true -> code_numbers (l :: rest) = code_numbers rest.
Proof.
  intros l rest H. unfold code_numbers. cbn [filter]. unfold nonblank_line at 1. rewrite H. reflexivity.
Qed.

Lemma code_numbers_cons_nonblank : forall (l : preline) rest,
  is_blank (fst l) = false -> code_numbers (l :: rest) = snd l :: code_numbers rest.
Proof.
  intros l rest H. unfold code_numbers. cbn [filter]. unfold nonblank_line at 1. rewrite H. reflexivity.
Qed.

Section LoopNumbers.
Variable rec : list preline -> option str -> tabres (list item).
Hypothesis Hrec : forall t tab b,
  tab_ok tab -> no_quote t = true -> rec t tab = TOk b -> numbers b = code_numbers t.

Lemma rec_numbers_pending : forall newc tab b,
  tab_ok tab -> no_quote newc = true -> forallb nonblank_line newc = true ->
  rec (rev newc) tab = TOk b -> numbers b = map snd (rev newc).
Proof.
  intros newc tab b Htab Hq Hnb Hb.
  rewrite <- code_numbers_nonblank by (rewrite forallb_rev; exact Hnb).
  apply Hrec with (tab := tab); [exact Htab| |exact Hb].
  unfold no_quote. rewrite forallb_rev. exact Hq.
Qed.

Lemma pd_loop_numbers : forall text tab newc ret first t,
  tab_ok tab -> no_quote text = true -> no_quote newc = true ->
  forallb nonblank_line newc = true ->
  pd_loop rec text tab newc ret 0%Z first = TOk t ->
  numbers t = numbers (rev ret) ++ map snd (rev newc) ++ code_numbers text.
Proof.
  induction text as [|[c n] rest IH]; intros tab newc ret first t Htab Hqt Hqn Hnb H; cbn [pd_loop] in H.
  - change (negb (0 =? 0)%Z) with false in H. cbv iota in H.
    unfold code_numbers. cbn [filter map]. rewrite app_nil_r.
    destruct newc as [|x newc'].
    + injection H as <-. cbn [rev map]. rewrite app_nil_r. reflexivity.
    + destruct (rec (rev (x :: newc')) tab) as [b|e] eqn:Eb; [|discriminate].
      injection H as <-. rewrite numbers_snoc. f_equal.
      apply rec_numbers_pending with (tab := tab); assumption.
  - unfold no_quote in Hqt. cbn [forallb fst] in Hqt. apply andb_true_iff in Hqt.
    destruct Hqt as [Hqc Hqr]. apply negb_true_iff in Hqc. fold (no_quote rest) in Hqr.
    destruct (is_blank c) eqn:Ebl.
    { rewrite (code_numbers_cons_blank (c, n) rest Ebl). apply IH with (tab := tab) (first := first); assumption. }
    rewrite (code_numbers_cons_nonblank (c, n) rest Ebl). cbn [snd].
    rewrite (no34_not_triple c Hqc) in H. cbn [andb] in H.
    change (negb (0 =? 0)%Z) with false in H. cbv iota in H.
    destruct (has_tab c tab n) as [k|e] eqn:Eh; [|discriminate].
    assert (Hpush : forall tab',
      tab' = match k with NewTab u => Some u | _ => tab end -> k <> NoTab ->
      (if first then TErr (TabUnexpected n)
       else match tab' with
            | None => TErr TabImpossible
            | Some u => pd_loop rec rest tab' ((strip_unit u c, n) :: newc) ret 0%Z false
            end) = TOk t ->
      numbers t = numbers (rev ret) ++ map snd (rev newc) ++ n :: code_numbers rest).
    { intros tab' Htab' Hnt Hp. destruct first; [discriminate|].
      destruct tab' as [u|]; [|discriminate].
      assert (Hws : forallb isspace_c u = true).
      { apply has_tab_unit_ws with (c := c) (tab := tab) (n := n) (k := k); auto. }
      apply IH in Hp.
      - rewrite Hp. cbn [rev]. rewrite map_app. cbn [map snd]. rewrite <- !app_assoc. reflexivity.
      - exact Hws.
      - exact Hqr.
      - unfold no_quote. cbn [forallb fst]. rewrite strip_unit_no34 by exact Hqc. exact Hqn.
      - cbn [forallb]. unfold nonblank_line at 1. cbn [fst]. rewrite strip_unit_blank by exact Hws.
        rewrite Ebl. exact Hnb. }
    destruct k as [| |u'].
    + destruct newc as [|x newc'].
      * apply IH in H; try assumption.
        rewrite H. rewrite numbers_rev_cons. cbn [rev map item_numbers app].
        rewrite <- app_assoc. reflexivity.
      * destruct (rec (rev (x :: newc')) tab) as [b|e] eqn:Eb; [|discriminate].
        apply IH in H; try assumption; try reflexivity.
        rewrite H. rewrite !numbers_rev_cons. cbn [item_numbers]. fold (numbers b).
        rewrite (rec_numbers_pending (x :: newc') tab b Htab Hqn Hnb Eb).
        cbn [rev map app]. rewrite <- !app_assoc. reflexivity.
    + exact (Hpush tab eq_refl ltac:(discriminate) H).
    + exact (Hpush (Some u') eq_refl ltac:(discriminate) H).
Qed.
End LoopNumbers.

Lemma parse_doc_numbers : forall fuel text tab t,
  tab_ok tab -> no_quote text = true ->
  parse_doc fuel text tab = TOk t -> numbers t = code_numbers text.
Proof.
  induction fuel as [|f IH]; intros text tab t Htab Hq H; [discriminate|].
  cbn [parse_doc] in H.
  apply pd_loop_numbers in H; try assumption; try reflexivity.
Qed.

Theorem parse_document_numbers : forall text t,
  forallb (fun l => negb (char_in 34%N (fst l))) text = true ->
  parse_document text = TOk t ->
  numbers t = map snd (filter (fun l => negb (is_blank (fst l))) text).
Proof.
  intros text t Hq H. unfold parse_document in H.
  apply parse_doc_numbers in H; [exact H|exact I|exact Hq].
Qed.

(* ================================================================== T3: content is only stripped of leading characters *)

Lemma items_flat_snoc : forall x l, items_flat (l ++ [x]) = items_flat l ++ item_lines x.
Proof.
  intros x l. unfold items_flat. rewrite flat_map_app. f_equal. cbn [flat_map]. apply app_nil_r.
Qed.

Lemma stripped_from_here : forall (c : str) (n : Z) rest, stripped_from ((c, n) :: rest) c n.
Proof. intros c n rest. exists []. left. reflexivity. Qed.

Lemma stripped_from_later : forall (x : preline) rest c n, stripped_from rest c n -> stripped_from (x :: rest) c n.
Proof. intros x rest c n [p Hp]. exists p. right. exact Hp. Qed.

Lemma stripped_from_rev : forall l c n, stripped_from (rev l) c n -> stripped_from l c n.
Proof. intros l c n [p Hp]. exists p. apply in_rev. exact Hp. Qed.

(* a line of the pending block was obtained from a line of the text by deleting a prefix *)
Lemma stripped_from_pushed : forall u (c0 : str) (n0 : Z) (newc rest : list preline) c n,
  stripped_from ((strip_unit u c0, n0) :: newc) c n ->
  stripped_from newc c n \/ stripped_from ((c0, n0) :: rest) c n.
Proof.
  intros u c0 n0 newc rest c n [p [Hp|Hp]].
  - right. injection Hp as Hc Hn. subst n0.
    destruct (strip_unit_suffix u c0) as [q Hq].
    exists (q ++ p). left. rewrite <- app_assoc. rewrite <- Hc. rewrite <- Hq. reflexivity.
  - left. exists p. exact Hp.
Qed.

Section LoopSource.
Variable rec : list preline -> option str -> tabres (list item).
Hypothesis Hrec : forall t tab b,
  rec t tab = TOk b -> forall c n, In (c, n) (items_flat b) -> stripped_from t c n.

Lemma pd_loop_source : forall text tab newc ret free first t,
  pd_loop rec text tab newc ret free first = TOk t ->
  forall c n, In (c, n) (items_flat t) ->
  In (c, n) (items_flat (rev ret)) \/ stripped_from newc c n \/ stripped_from text c n.
Proof.
  induction text as [|[c0 n0] rest IH]; intros tab newc ret free first t H c n Hin; cbn [pd_loop] in H.
  - destruct (negb (free =? 0)%Z); [discriminate|].
    destruct newc as [|x newc'].
    + injection H as <-. left. exact Hin.
    + destruct (rec (rev (x :: newc')) tab) as [b|e] eqn:Eb; [|discriminate].
      injection H as <-. rewrite items_flat_snoc in Hin. apply in_app_or in Hin.
      destruct Hin as [Hin|Hin]; [left; exact Hin|].
      right. left. apply stripped_from_rev. apply (Hrec _ _ _ Eb). exact Hin.
  - assert (Hstep : forall tab' newc' free' first',
      pd_loop rec rest tab' newc' (Ln c0 n0 :: ret) free' first' = TOk t ->
      (stripped_from newc' c n -> stripped_from newc c n) ->
      In (c, n) (items_flat (rev ret)) \/ stripped_from newc c n \/ stripped_from ((c0, n0) :: rest) c n).
    { intros tab' newc' free' first' Hp Hsub.
      destruct (IH _ _ _ _ _ _ Hp c n Hin) as [Hr|[Hr|Hr]].
      - cbn [rev] in Hr. rewrite items_flat_snoc in Hr. apply in_app_or in Hr.
        destruct Hr as [Hr|Hr]; [left; exact Hr|].
        cbn [item_lines] in Hr. destruct Hr as [Hr|[]]. injection Hr as <- <-.
        right. right. apply stripped_from_here.
      - right. left. apply Hsub. exact Hr.
      - right. right. apply stripped_from_later. exact Hr. }
    assert (Hskip : forall tab' free' first',
      pd_loop rec rest tab' newc ret free' first' = TOk t ->
      In (c, n) (items_flat (rev ret)) \/ stripped_from newc c n \/ stripped_from ((c0, n0) :: rest) c n).
    { intros tab' free' first' Hp.
      destruct (IH _ _ _ _ _ _ Hp c n Hin) as [Hr|[Hr|Hr]].
      - left. exact Hr.
      - right. left. exact Hr.
      - right. right. apply stripped_from_later. exact Hr. }
    destruct (is_blank c0).
    { apply (Hskip _ _ _ H). }
    destruct (startswith triple_quote c0 && (first || negb (free =? 0)%Z)).
    { apply (Hskip _ _ _ H). }
    destruct (negb (free =? 0)%Z).
    { apply (Hstep _ _ _ _ H). intro Hs. exact Hs. }
    destruct (has_tab c0 tab n0) as [k|e] eqn:Eh; [|discriminate].
    assert (Hpush : forall tab',
      (if first then TErr (TabUnexpected n0)
       else match tab' with
            | None => TErr TabImpossible
            | Some u => pd_loop rec rest tab' ((strip_unit u c0, n0) :: newc) ret free false
            end) = TOk t ->
      In (c, n) (items_flat (rev ret)) \/ stripped_from newc c n \/ stripped_from ((c0, n0) :: rest) c n).
    { intros tab' Hp. destruct first; [discriminate|].
      destruct tab' as [u|]; [|discriminate].
      destruct (IH _ _ _ _ _ _ Hp c n Hin) as [Hr|[Hr|Hr]].
      - left. exact Hr.
      - right. apply (stripped_from_pushed u c0 n0 newc rest c n). exact Hr.
      - right. right. apply stripped_from_later. exact Hr. }
    destruct k as [| |u'].
    + destruct newc as [|x newc'].
      * apply (Hstep _ _ _ _ H). intro Hs. exact Hs.
      * destruct (rec (rev (x :: newc')) tab) as [b|e] eqn:Eb; [|discriminate].
        destruct (IH _ _ _ _ _ _ H c n Hin) as [Hr|[Hr|Hr]].
        -- cbn [rev] in Hr. rewrite !items_flat_snoc in Hr. apply in_app_or in Hr.
           destruct Hr as [Hr|Hr].
           ++ apply in_app_or in Hr. destruct Hr as [Hr|Hr]; [left; exact Hr|].
              right. left. apply stripped_from_rev. apply (Hrec _ _ _ Eb). exact Hr.
           ++ cbn [item_lines] in Hr. destruct Hr as [Hr|[]]. injection Hr as <- <-.
              right. right. apply stripped_from_here.
        -- destruct Hr as [p []].
        -- right. right. apply stripped_from_later. exact Hr.
    + exact (Hpush tab H).
    + exact (Hpush (Some u') H).
Qed.
End LoopSource.

Lemma parse_doc_source : forall fuel text tab t,
  parse_doc fuel text tab = TOk t ->
  forall c n, In (c, n) (items_flat t) -> stripped_from text c n.
Proof.
  induction fuel as [|f IH]; intros text tab t H c n Hin; [discriminate|].
  cbn [parse_doc] in H.
  destruct (pd_loop_source (parse_doc f) IH _ _ _ _ _ _ _ H c n Hin) as [Hr|[Hr|Hr]].
  - destruct Hr.
  - destruct Hr as [p []].
  - exact Hr.
Qed.

Theorem parse_document_source : forall text t,
  parse_document text = TOk t ->
  forall c n, In (c, n) (items_flat t) -> exists c0 p, In (c0, n) text /\ c0 = p ++ c.
Proof.
  intros text t H c n Hin. unfold parse_document in H.
  destruct (parse_doc_source _ _ _ _ H c n Hin) as [p Hp].
  exists (p ++ c), p. split; [exact Hp|reflexivity].
Qed.

(* ================================================================== T4: an orphan indent is rejected *)

Lemma pd_loop_skip_blanks : forall rec blanks text tab newc ret free first,
  forallb (fun l : preline => is_blank (fst l)) blanks = true ->
  pd_loop rec (blanks ++ text) tab newc ret free first = pd_loop rec text tab newc ret free first.
Proof.
  intros rec. induction blanks as [|[c n] blanks IH]; intros text tab newc ret free first H; [reflexivity|].
  cbn [forallb fst] in H. apply andb_true_iff in H. destruct H as [Hc Hb].
  cbn [app pd_loop]. rewrite Hc. apply IH. exact Hb.
Qed.

Theorem orphan_indent_rejected : forall blanks a c n rest,
  forallb (fun l : preline => is_blank (fst l)) blanks = true ->
  is_blank (a :: c) = false ->
  a = sp \/ a = tb ->
  parse_document (blanks ++ (a :: c, n) :: rest) = TErr (TabUnexpected n).
Proof.
  intros blanks a c n rest Hb Hnb Ha. unfold parse_document. cbn [parse_doc].
  rewrite pd_loop_skip_blanks by exact Hb.
  cbn [pd_loop]. rewrite Hnb.
  assert (Hws : isspace_c a = true).
  { destruct Ha as [->| ->]; [apply sp_isspace|apply tb_isspace]. }
  rewrite (ws_first_not_triple a c Hws). cbn [andb].
  change (negb (0 =? 0)%Z) with false. cbv iota.
  unfold has_tab.
  assert (Hor : ((a =? sp)%N || (a =? tb)%N) = true).
  { destruct Ha as [->| ->]; reflexivity. }
  rewrite Hor. reflexivity.
Qed.

(* The no-quote hypothesis of T2 cannot be dropped: the two delimiter lines of a quotation
   are code lines of the input that do not appear in the tree. *)
Lemma quote_lines_dropped :
  let text := [(triple_quote, 1%Z); ([97%N], 2%Z); (triple_quote, 3%Z)] in
  parse_document text = TOk [Ln [97%N] 2%Z] /\
  code_numbers text = [1%Z; 2%Z; 3%Z].
Proof. split; vm_compute; reflexivity. Qed.
