(* From FILES ON DISK to the unified reference semantics (Spec/CoreAll.v):
     - the text round trip for ustmt: [utext_of u p] parses back to [uitems_from 1 p]
       (port of Proofs/CoreTextParse.v);
     - [prog_ok] discharged for the rendered file system [fs_of u dir prog];
     - the hypothesis-free end-to-end theorem [refinement_files]. *)
From Coq Require Import NArith ZArith List Bool Lia.
From DS Require Import Base PyStr Values Expr TabParse Tables Constants Interp ImportGraph.
From DS Require Import BlockTree TabProofs TabRoundTrip GraphText CoreLang CoreWf CoreRefine CoreText CoreTextForest CoreTextParse.
From DS Require Import CoreFunc CoreAll CoreAllText CoreAllLines CoreAllBase CoreAllRefine CoreAllTop CoreAllFs CoreAllTextForest.
Import ListNotations.

Arguments IOk {A}. Arguments IErr {A}. Arguments ICrash {A}. Arguments IUnmod {A}.
Arguments e_sys : clear implicits. Arguments e_user : clear implicits. Arguments e_temp : clear implicits.
Arguments e_funcs : clear implicits. Arguments mkEnv : clear implicits.

(* ================================================================== text -> lines *)
Theorem ulines_of_text_of : forall u p,
  no_nl u -> forallb node_one_line (uforest_of p) = true -> uforest_of p <> [] ->
  lines_of_text (utext_of u p) = render u (uforest_of p).
Proof.
  intros u p Hu Hp Hne. unfold lines_of_text, utext_of.
  pose proof (render_no_nl u Hu (uforest_of p) Hp) as Hall.
  assert (Hlen : length (render u (uforest_of p)) <> 0).
  { rewrite render_length. destruct (uforest_of p) as [|[c k] r]; [contradiction|].
    rewrite forest_size_cons, node_size_eq. lia. }
  destruct (render u (uforest_of p)) as [|l ls]; [contradiction|].
  apply split_join_lines. exact Hall.
Qed.

(* ================================================================== text -> tree *)
(* the general form: any statement list whose heads are proper code lines (no condition on spelling) *)
Theorem uprepare_text_forest : forall u p,
  wf_unit u -> no_nl u -> wf_forest (uforest_of p) -> forallb node_one_line (uforest_of p) = true ->
  prepare_text (utext_of u p) = TOk (expected_forest (uforest_of p) 1%Z).
Proof.
  intros u p Hu Hnl Hwf Hp. unfold prepare_text.
  destruct (uforest_of p) as [|k r] eqn:Ef.
  - unfold utext_of. rewrite Ef. reflexivity.
  - rewrite ulines_of_text_of; [|exact Hnl|rewrite Ef; exact Hp|rewrite Ef; discriminate].
    rewrite Ef. exact (parse_render_round_trip u (k :: r) Hu Hwf).
Qed.

(* THE TEXT ROUND TRIP: a well-formed statement list with plain heads, rendered with any indent
   unit without newline, parses back to its concrete form, line numbers included *)
Theorem uprepare_text : forall u p,
  wf_unit u -> no_nl u -> uwf_list p -> uheads_plain p = true ->
  prepare_text (utext_of u p) = TOk (uitems_from 1 p).
Proof.
  intros u p Hu Hnl Hwf Hp.
  rewrite (uprepare_text_forest u p Hu Hnl (uwf_list_forest p Hwf Hp) (uheads_plain_one_line _ Hp)).
  rewrite (uexpected_forest_items p 1%Z (uwf_list_blocks_nonempty p Hwf)). reflexivity.
Qed.

Theorem ucompile_text : forall fo o fs file u p,
  wf_unit u -> no_nl u -> uwf_list p -> uheads_plain p = true ->
  compile_text fo o fs file (utext_of u p) = compile_items fo o fs file (uitems_of p).
Proof.
  intros fo o fs file u p Hu Hnl Hwf Hp. unfold compile_text.
  rewrite (uprepare_text u p Hu Hnl Hwf Hp). reflexivity.
Qed.

(* unit independence of parsing: any two units give the same tree *)
Theorem uunit_independence : forall fo o fs file u1 u2 p,
  wf_unit u1 -> no_nl u1 -> wf_unit u2 -> no_nl u2 -> uwf_list p -> uheads_plain p = true ->
  compile_text fo o fs file (utext_of u1 p) = compile_text fo o fs file (utext_of u2 p).
Proof.
  intros fo o fs file u1 u2 p H1 N1 H2 N2 Hwf Hp.
  rewrite (ucompile_text fo o fs file u1 p H1 N1 Hwf Hp), (ucompile_text fo o fs file u2 p H2 N2 Hwf Hp).
  reflexivity.
Qed.

(* ================================================================== prog_ok, discharged *)
(* a program is well written: every file's statements are well spelled and have plain heads *)
Definition prog_wf (prog : program) : Prop :=
  forall m stmts, lookup m prog = Some stmts -> uwf_list stmts /\ uheads_plain stmts = true.

Theorem prog_ok_fs_of : forall u dir prog,
  wf_unit u -> no_nl u -> prog_wf prog -> prog_ok dir prog (fs_of u dir prog).
Proof.
  intros u dir prog Hu Hnl Hp. apply prog_ok_fs_of_partial. intros m stmts Hl.
  destruct (Hp m stmts Hl) as [Hwf Hpl]. split; [exact Hwf|]. exact (uprepare_text u stmts Hu Hnl Hwf Hpl).
Qed.

(* ================================================================== THE END-TO-END THEOREM *)
(* files on disk (the program's files rendered with the unit u in the folder dir, nothing else),
   the text of the entry file given to Compiler.compile: the result is what the reference
   semantics says *)
Theorem refinement_files : forall (fo : FloatOps) (u : str) (dir : path) (prog : program) o entry d sg Fs' f' vs' out ev,
  wf_unit u -> no_nl u -> prog_wf prog ->
  uruns fo prog (include_comments o) (supress_command_not_exist o) entry d sg Fs' f' vs' out ev ->
  (Z.of_nat d < stack_limit o)%Z ->
  exists stmts ol F', lookup entry prog = Some stmts /\
    map o_text ol = map line_text out /\ utab_rel dir Fs' F' /\
    compile_text fo o (fs_of u dir prog) (Some (file_of dir entry)) (utext_of u stmts) =
    (CoreAllBase.apply_evs dir ev (mkGlob [] []),
     IOk (mkCompiled fo ol
            (map (CoreAllBase.conc_warning dir) (warnings_of ev))
            (mkEnv fo (initial_sys fo) vs' (flag_var fo f') F')
            (map (CoreAllBase.conc_print dir) (prints_of ev)))).
Proof.
  intros fo u dir prog o entry d sg Fs' f' vs' out ev Hu Hnl Hp Hrun Hd.
  destruct (refine_compile_items fo dir prog (fs_of u dir prog) o entry d sg Fs' f' vs' out ev
              (prog_ok_fs_of u dir prog Hu Hnl Hp) Hrun Hd) as (stmts & ol & F' & Hlk & Ho & Htab & E).
  exists stmts, ol, F'. split; [exact Hlk|]. split; [exact Ho|]. split; [exact Htab|].
  destruct (Hp entry stmts Hlk) as [Hwf Hpl].
  rewrite (ucompile_text fo o (fs_of u dir prog) (Some (file_of dir entry)) u stmts Hu Hnl Hwf Hpl). exact E.
Qed.

(* the entry text is the file's own content on disk *)
Lemma entry_text_on_disk : forall u dir prog entry stmts, lookup entry prog = Some stmts ->
  fs_of u dir prog (file_of dir entry) = Some (utext_of u stmts).
Proof. intros u dir prog entry stmts H. rewrite fs_of_file, H. reflexivity. Qed.

(* ================================================================== the side conditions are needed *)
Definition S_q3x : str := [34;34;34;120]%N.     (* three double quotes, then x *)
Definition w_arg : str := [97]%N.

(* an unknown word may begin with three double quotes: it is well formed for the item-level
   theorem (C12d), but its TEXT opens a quotation: the parser fails *)
Definition prog_quote : list ustmt := [UUnknown S_q3x w_arg].

Lemma quote_word_is_wf : uwf_list prog_quote.
Proof.
  split; [|exact I]. split; [|split; [discriminate|split; reflexivity]].
  split; [discriminate|]. split; [reflexivity|]. split; [reflexivity|]. vm_compute. reflexivity.
Qed.

Lemma quote_word_counterexample :
  uheads_plain prog_quote = false /\
  prepare_text (utext_of [9]%N prog_quote) <> TOk (uitems_from 1 prog_quote).
Proof. split; [vm_compute; reflexivity|]. vm_compute. discriminate. Qed.

(* a newline inside a text cuts the line in two *)
Definition prog_unl : list ustmt := [UPrint [97; 10; 98]%N].
Lemma uhead_newline_counterexample :
  uwf_list prog_unl /\ uheads_plain prog_unl = false /\
  prepare_text (utext_of [9]%N prog_unl) = TOk [Ln (print_head [97]%N) 1%Z; Ln [98]%N 2%Z].
Proof.
  split; [|split; vm_compute; reflexivity].
  split; [|exact I]. split; [discriminate|]. split; vm_compute; reflexivity.
Qed.

(* ================================================================== [uheads_plain], decomposed *)
(* the "three double quotes" half of [uheads_plain] concerns unknown words only: for a well-formed
   list it follows from the heads of its UUnknown statements *)
Fixpoint uquote_free (s : ustmt) : Prop :=
  match s with
  | UIf arms els =>
      each (fun cb : str * list ustmt => let (_, b) := cb in each uquote_free b) arms /\
      match els with Some b => each uquote_free b | None => True end
  | URepeat _ _ b => each uquote_free b
  | UWhile _ _ b => each uquote_free b
  | UFunc _ _ b => each uquote_free b
  | UUnknown w a => startswith triple_quote (unknown_head w a) = false
  | _ => True
  end.

Lemma first_not_quote : forall c t, c <> 34%N -> startswith triple_quote (c :: t) = false.
Proof.
  intros c t H. unfold triple_quote. cbn [startswith].
  destruct (N.eqb_spec 34%N c) as [E|E]; [exfalso; apply H; symmetry; exact E|reflexivity].
Qed.

Lemma node_plain_of : forall c kids, char_in nl c = false -> startswith triple_quote c = false ->
  forallb unode_plain kids = true -> forallb unode_plain [Stmt c kids] = true.
Proof. intros c kids H1 H2 H3. cbn [forallb unode_plain]. rewrite H1, H2, H3. reflexivity. Qed.

Lemma one_line_block : forall c kids, forallb node_one_line [Stmt c kids] = true ->
  char_in nl c = false /\ forallb node_one_line kids = true.
Proof.
  intros c kids H. cbn [forallb node_one_line] in H. rewrite andb_true_r in H.
  apply andb_true_iff in H. destruct H as [H1 H2]. apply negb_true_iff in H1. split; assumption.
Qed.

Definition plain_from (s : ustmt) : Prop :=
  uwf s -> uquote_free s -> forallb node_one_line (ustmt_nodes s) = true -> forallb unode_plain (ustmt_nodes s) = true.

Lemma plain_from_list : forall b, each plain_from b -> uwf_list b -> each uquote_free b ->
  forallb node_one_line (uforest_of b) = true -> uheads_plain b = true.
Proof.
  induction b as [|s r IH]; intros Hp Hw Hq Ho; [reflexivity|].
  destruct Hp as [Hp1 Hp2]. destruct Hw as [Hw1 Hw2]. destruct Hq as [Hq1 Hq2].
  unfold uforest_of in Ho. cbn [flat_map] in Ho. rewrite forallb_app' in Ho. apply andb_true_iff in Ho.
  destruct Ho as [Ho1 Ho2]. rewrite uheads_plain_cons. apply andb_true_iff.
  split; [exact (Hp1 Hw1 Hq1 Ho1)|exact (IH Hp2 Hw2 Hq2 Ho2)].
Qed.

Lemma plain_block : forall c b, startswith triple_quote c = false -> each plain_from b -> uwf_list b -> each uquote_free b ->
  forallb node_one_line [Stmt c (uforest_of b)] = true -> forallb unode_plain [Stmt c (uforest_of b)] = true.
Proof.
  intros c b Hc Hp Hw Hq Ho. destruct (one_line_block _ _ Ho) as [H1 H2].
  apply node_plain_of; [exact H1|exact Hc|exact (plain_from_list b Hp Hw Hq H2)].
Qed.

Ltac kwq :=
  unfold if_head, repeat_head, while_head, func_head, run_head, print_head, print_eval_head, rem_head, start_head,
         kw_IF, kw_ELIF, kw_ELSE, kw_VAR, kw_REPEAT, kw_WHILE, kw_BREAKLOOP, kw_CONTINUELOOP,
         kw_FUNC, kw_RUN, kw_RETURN, kw_PRINT, kw_REM, dollar_c;
  cbn [app]; apply first_not_quote; discriminate.

Ltac leafq := intros; match goal with Ho : forallb node_one_line _ = true |- _ =>
  destruct (one_line_block _ _ Ho) as [?H1 _]; apply node_plain_of; [assumption| |reflexivity] end.

Theorem ustmt_plain_from : forall s, plain_from s.
Proof.
  apply ustmt_ind2; unfold plain_from.
  - intros name text (Hn & _) _ Ho. destruct (one_line_block _ _ Ho) as [H1 _].
    apply node_plain_of; [exact H1| |reflexivity]. exact (proj2 (emit_head_content name text Hn)).
  - leafq. kwq.
  - leafq. kwq.
  - intros arms els Ha He Hwf Hq. apply uwf_if_unfold in Hwf. destruct Hwf as (_ & Hwa & Hwe).
    cbn [uquote_free] in Hq. destruct Hq as [Hqa Hqe]. rewrite ustmt_nodes_if.
    cut (forall first, forallb node_one_line (uarms_nodes_gen uforest_of els first arms) = true ->
                       forallb unode_plain (uarms_nodes_gen uforest_of els first arms) = true); [intro HH; exact (HH true)|].
    induction arms as [|[c b] r IH]; intros first Ho.
    + cbn [uarms_nodes_gen] in Ho |- *. destruct els as [b|]; [|reflexivity]. destruct Hwe as [_ Hwb].
      apply plain_block; [kwq|exact He|exact Hwb|exact Hqe|exact Ho].
    + destruct Ha as [Hb Hr]. destruct Hwa as [(_ & _ & Hwb) Hwr]. destruct Hqa as [Hqb Hqr].
      cbn [uarms_nodes_gen] in Ho |- *.
      change (Stmt ?h (uforest_of b) :: ?rest) with ([Stmt h (uforest_of b)] ++ rest) in Ho |- *.
      rewrite forallb_app' in Ho |- *. apply andb_true_iff in Ho. destruct Ho as [Ho1 Ho2].
      apply andb_true_iff. split; [|exact (IH Hr Hwr Hqr false Ho2)].
      apply plain_block; [destruct first; kwq|exact Hb|exact Hwb|exact Hqb|exact Ho1].
  - intros c e b Hb (_ & _ & _ & Hwb) Hq Ho. apply plain_block; [kwq|exact Hb|exact Hwb|exact Hq|exact Ho].
  - intros c e b Hb (_ & _ & _ & Hwb) Hq Ho. apply plain_block; [kwq|exact Hb|exact Hwb|exact Hq|exact Ho].
  - leafq. kwq.
  - leafq. kwq.
  - intros name ps b Hb (_ & _ & _ & Hwb) Hq Ho. apply plain_block; [kwq|exact Hb|exact Hwb|exact Hq|exact Ho].
  - leafq. kwq.
  - leafq. kwq.
  - leafq. kwq.
  - leafq. kwq.
  - leafq. kwq.
  - intros w a _ Hq Ho. destruct (one_line_block _ _ Ho) as [H1 _].
    apply node_plain_of; [exact H1|exact Hq|reflexivity].
  - intros k m _ _ Ho. destruct (one_line_block _ _ Ho) as [H1 _].
    apply node_plain_of; [exact H1| |reflexivity]. destruct k; kwq.
Qed.

(* one-line heads + no unknown word opening a quotation = plain heads *)
Theorem uheads_plain_from : forall p, uwf_list p -> each uquote_free p ->
  forallb node_one_line (uforest_of p) = true -> uheads_plain p = true.
Proof. intros p Hw Hq Ho. exact (plain_from_list p (each_intro _ _ ustmt_plain_from p) Hw Hq Ho). Qed.
