(* C03 / C11: what the compiler does with a statement whose argument group is a quoted region:
   IGNORE and STRING / STRINGLN emit the lines verbatim; the unknown-word fall-back strips
   each line (its class has strip_args = True), so there the relative indentation is lost. *)
From Coq Require Import NArith ZArith List Bool Lia.
From DS Require Import Base PyStr Values Expr TabParse Tables Constants Interp.
From DS Require Import PipelineProofs IgnoreProofs GroupProofs BlockTree BlockTreeQ TabRoundTrip QuotedRoundTrip.
Import ListNotations.

Arguments IOk {A}. Arguments IErr {A}. Arguments ICrash {A}. Arguments IUnmod {A}.
Arguments s_g {fo}. Arguments s_env {fo}. Arguments s_line2 {fo}. Arguments mkSt {fo}.

Lemma lines_block_plain : forall ls, lines_block ls = plain_block ls.
Proof. reflexivity. Qed.

Lemma map_fst_number_from : forall ls m, map fst (number_from m ls) = ls.
Proof. induction ls as [|l ls IH]; intro m; [reflexivity|]. cbn [number_from map fst]. f_equal. apply IH. Qed.

Lemma number_from_nonempty : forall ls m, ls <> [] -> number_from m ls <> [].
Proof. intros [|l ls] m H; [contradiction|discriminate]. Qed.

(* STRING / STRINGLN followed by a non-empty group: plain classes that do not strip *)
Definition string_class_blk_ok (k : str) : bool :=
  match find_command palette k (Some [Ln [] 0%Z]) with
  | Some (_, Simple sc) => is_plainb sc && negb (s_strip_args sc) && takes_args sc
  | _ => false
  end.

Lemma string_classes_blk_ok : string_class_blk_ok s_STRING && string_class_blk_ok s_STRINGLN = true.
Proof. vm_compute. reflexivity. Qed.

Section QC.
Variable fo : FloatOps.
Variable child : runner fo.
Variable cx : ctx.

(* ------------------------------------------------------------------ a plain class given a group *)
Lemma exec_cmds_group_step : forall c n all rest acc s cname tg sc cmd g',
  is_blank c = false -> all <> [] ->
  plain_class sc -> no_dollar cmd -> s_arg_req sc <> NotAllowed ->
  (forall s0, s0 = mkSt (s_g s) (s_env s) None ->
     exec_line fo child cx c n (Some (plain_block all)) s0 =
     simple_compile fo child cx (c, n) cname tg sc cmd n None (Some (plain_block all))
                    (mkSt g' (s_env s) None)) ->
  exists l2,
    exec_cmds fo child cx (Ln c n :: Blk (plain_block all) :: rest) acc s =
    exec_cmds fo child cx rest (acc ++ plain_data sc tg cmd (map fst all)) (mkSt g' (s_env s) l2).
Proof.
  intros c n all rest acc s cname tg sc cmd g' Hb Hne Hp Hnd Hreq Hline.
  destruct (group_only fo child cx sc cname tg cmd (plain_stateless sc Hp) Hnd Hreq AStr (c, n) n all
              (mkSt g' (s_env s) None) Hne) as [l2 E].
  { clear - Hp. induction (map fst all) as [|a l IH]; constructor; [apply plain_accepts; exact Hp|exact IH]. }
  exists l2.
  cbn [exec_cmds]. rewrite Hb.
  unfold bindM at 1. unfold set_line2 at 1. unfold bindM at 1.
  rewrite (Hline _ eq_refl). rewrite E. cbn [cr_sig cr_data]. reflexivity.
Qed.

(* ------------------------------------------------------------------ STRING / STRINGLN *)
Theorem quoted_string_emits : forall k word ls n rest acc s,
  (k = s_STRING \/ k = s_STRINGLN) ->
  split_ws1 word = [word] -> is_blank word = false -> upper word = k -> starts_dollar word = false ->
  ls <> [] ->
  exists cname l2,
    exec_cmds fo child cx (expected_nodeq (QuotedQ word ls) n ++ rest) acc s =
    exec_cmds fo child cx rest
      (acc ++ map (fun l => mkO (ByCommand cname) (k ++ [32%N] ++ l)) ls)
      (mkSt (s_g s) (s_env s) l2).
Proof.
  intros k word ls n rest acc s Hk Hs Hb Hu Hd Hne.
  pose proof string_classes_blk_ok as Hall. apply andb_true_iff in Hall. destruct Hall as [H1 H2].
  assert (Hcls : string_class_blk_ok k = true) by (destruct Hk as [-> | ->]; assumption).
  assert (Hup : upper k = k) by (destruct Hk as [-> | ->]; reflexivity).
  assert (Hnd : starts_dollar k = false) by (destruct Hk as [-> | ->]; reflexivity).
  set (all := number_from (n + 2)%Z ls).
  assert (Hall : all <> []) by (apply number_from_nonempty; exact Hne).
  unfold string_class_blk_ok in Hcls.
  destruct all as [|x r] eqn:Eall; [contradiction|].
  rewrite (find_command_block palette k (Ln [] 0%Z) [] (Ln (fst x) (snd x)) (plain_block r)) in Hcls.
  change (Ln (fst x) (snd x) :: plain_block r) with (plain_block (x :: r)) in Hcls.
  rewrite <- (find_command_upper palette word k _ Hu Hup Hd Hnd) in Hcls.
  destruct (find_command palette word (Some (plain_block (x :: r)))) as [[cname [sc|bc]]|] eqn:Ef; try discriminate.
  apply andb_true_iff in Hcls. destruct Hcls as [Hcls Htakes].
  apply andb_true_iff in Hcls. destruct Hcls as [Hplain Hstrip].
  apply negb_true_iff in Hstrip. apply is_plainb_sound in Hplain.
  assert (Hreq : s_arg_req sc <> NotAllowed).
  { unfold takes_args in Htakes. intro Hr. rewrite Hr in Htakes. discriminate. }
  assert (Hrun : s_run sc <> RKStart).
  { destruct Hplain as (_ & _ & _ & _ & _ & Hrun & _). rewrite Hrun. discriminate. }
  exists cname.
  destruct (exec_cmds_group_step word n (x :: r) rest acc s cname (ByCommand cname) sc word (s_g s)
              Hb ltac:(discriminate) Hplain (starts_dollar_no_dollar word ltac:(rewrite Hu; exact Hnd)) Hreq) as [l2 E].
  { intros s0 ->. rewrite (exec_line_simple fo child cx word n _ word [] cname sc _ Hs Ef Hrun). reflexivity. }
  exists l2. cbn [expected_nodeq app]. fold all. rewrite Eall. rewrite lines_block_plain. rewrite E.
  f_equal. f_equal. unfold plain_data, norm. rewrite Hstrip, Hu. rewrite <- Eall. unfold all.
  rewrite map_fst_number_from. reflexivity.
Qed.

(* ------------------------------------------------------------------ IGNORE *)
Theorem quoted_ignore_emits : forall word ls n rest acc s,
  split_ws1 word = [word] -> is_blank word = false ->
  upper word = s_IGNORE -> starts_dollar word = false -> ls <> [] ->
  exec_cmds fo child cx (expected_nodeq (QuotedQ word ls) n ++ rest) acc s =
  exec_cmds fo child cx rest (acc ++ map (mkO ByIgnore) ls) (mkSt (s_g s) (s_env s) None).
Proof.
  intros word ls n rest acc s Hs Hb Hu Hd Hne.
  cbn [expected_nodeq app]. rewrite lines_block_plain.
  destruct (number_from (n + 2) ls) as [|l0 all] eqn:E.
  { exfalso. apply (number_from_nonempty ls (n + 2)%Z Hne). exact E. }
  rewrite (exec_cmds_ignore fo child cx word word n all l0 rest acc s Hb Hs Hu Hd).
  rewrite <- E. rewrite map_fst_number_from. reflexivity.
Qed.

(* ------------------------------------------------------------------ an unknown word
   NOT verbatim: the fall-back class strips every argument, so each line of the region loses
   its leading and trailing white space (the parser kept it, the pipeline removes it). *)
Theorem quoted_unknown_emits : forall word ls n rest acc s,
  split_ws1 word = [word] -> is_blank word = false ->
  find_command palette word (Some (lines_block (number_from (n + 2)%Z ls))) = None ->
  no_dollar word -> ls <> [] ->
  let g' := if supress_command_not_exist (c_opts cx) then s_g s
            else add_warning (mkWarn (unknown_warning_text n) (Some (here cx (word, n) None))) (s_g s) in
  exists l2,
    exec_cmds fo child cx (expected_nodeq (QuotedQ word ls) n ++ rest) acc s =
    exec_cmds fo child cx rest
      (acc ++ map (fun l => mkO ByUnknown (upper word ++ [32%N] ++ strip l)) ls)
      (mkSt g' (s_env s) l2).
Proof.
  intros word ls n rest acc s Hs Hb Hf Hnd Hne g'.
  assert (Hall : number_from (n + 2)%Z ls <> []) by (apply number_from_nonempty; exact Hne).
  destruct (exec_cmds_group_step word n (number_from (n + 2)%Z ls) rest acc s [] ByUnknown generic_simple word g'
              Hb Hall generic_simple_plain Hnd ltac:(discriminate)) as [l2 E].
  { intros s0 ->. unfold exec_line. rewrite Hs. rewrite <- lines_block_plain. rewrite Hf.
    subst g'. destruct (supress_command_not_exist (c_opts cx)); reflexivity. }
  exists l2. cbn [expected_nodeq app]. rewrite lines_block_plain. rewrite E.
  f_equal. f_equal. unfold plain_data, norm. cbn [s_strip_args generic_simple].
  rewrite map_fst_number_from. reflexivity.
Qed.

End QC.

(* ------------------------------------------------------------------ text -> output, one statement
   word / u QQQ / u<l1> ... u<lk> / u QQQ     (QQQ: the triple-quote delimiter) *)
Section Whole.
Variable fo : FloatOps.

Lemma run_quoted_ignore : forall d cx g e word ls,
  split_ws1 word = [word] -> is_blank word = false ->
  upper word = s_IGNORE -> starts_dollar word = false -> ls <> [] ->
  run fo d cx g e (expected_forestq [QuotedQ word ls] 1%Z) =
  (g, IOk (mkCret (map (mkO ByIgnore) ls) SNormal, e)).
Proof.
  intros d cx g e word ls Hs Hb Hu Hd Hne.
  assert (H : forall child, run_with fo child cx g e (expected_forestq [QuotedQ word ls] 1%Z) =
                            (g, IOk (mkCret (map (mkO ByIgnore) ls) SNormal, e))).
  { intro child. unfold run_with. cbn [expected_forestq].
    rewrite (quoted_ignore_emits fo child cx word ls 1%Z _ [] _ Hs Hb Hu Hd Hne). reflexivity. }
  destruct d as [|d]; cbn [run]; apply H.
Qed.

(* the whole pipeline on the parsed text of such a document *)
Theorem quoted_ignore_text_compiles : forall u o fs file word ls,
  wf_unit u -> wf_content word -> Forall region_line ls ->
  split_ws1 word = [word] -> upper word = s_IGNORE -> starts_dollar word = false -> ls <> [] ->
  exists cmds,
    parse_document (convert_to (renderq u [QuotedQ word ls])) = TOk cmds /\
    compile_items fo o fs file cmds =
    (mkGlob [] [], IOk (mkCompiled fo (map (mkO ByIgnore) ls) [] (initial_env fo) [])).
Proof.
  intros u o fs file word ls Hu Hw Hl Hs Hup Hd Hne.
  exists (expected_forestq [QuotedQ word ls] 1%Z). split.
  - apply parse_render_round_trip_q; [exact Hu|].
    constructor; [|constructor]. constructor; assumption.
  - unfold compile_items.
    rewrite (run_quoted_ignore _ _ _ _ word ls Hs (wf_content_nonblank word Hw) Hup Hd Hne).
    reflexivity.
Qed.

End Whole.
