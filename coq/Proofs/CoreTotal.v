(* TOTALITY of the reference semantics of the core fragment: for every program whose VAR names
   are identifiers and whose expressions stay inside the modelled evaluator ([tame]), from every
   flag, store and first line, EITHER there is a success derivation (Spec/CoreLang.v) OR there is
   a failure derivation (Spec/CoreErr.v).  Loops: the count of a REPEAT is at most 20000 whenever
   an iteration starts, a WHILE stops at the iteration bound (which is a failure), so the distance
   to [loop_max] decreases.  Proved on the specifications alone (first part); combined with the
   two refinement theorems it gives the CONVERSE of both (second part). *)
From Coq Require Import NArith ZArith List Bool Lia.
From DS Require Import Base PyStr Values Expr TabParse Tables Constants Interp ScopeProofs.
From DS Require Import ExprTotal CoreLang CoreWf CoreLines CoreRefine CoreErr CoreErrLines CoreErrRefine.
Import ListNotations.

Arguments IOk {A}. Arguments IErr {A}. Arguments ICrash {A}. Arguments IUnmod {A}.

Section Total.
Variable fo : FloatOps.

(* the evaluator answers Ok or Err on e, whatever the variables (not Crash, not Unmodelled) *)
Definition tame_expr (e : str) : Prop :=
  forall vars, (exists v, tokenize fo vars e = Ok v) \/ (exists er, tokenize fo vars e = Err er).
(* ... and its values can be printed *)
Definition prints (e : str) : Prop :=
  forall vars v, tokenize fo vars e = Ok v -> exists t, py_str fo v = Some t.

Fixpoint tame (s : stmt) : Prop :=
  match s with
  | SEmitEval _ e => tame_expr e /\ prints e
  | SVar _ e => tame_expr e
  | SIf arms els =>
      every (fun cb : str * list stmt => let (c, b) := cb in tame_expr c /\ every tame b) arms /\
      match els with Some b => every tame b | None => True end
  | SRepeat _ e b => tame_expr e /\ every tame b
  | SWhile _ e b => tame_expr e /\ every tame b
  | _ => True
  end.
Definition tame_list (p : list stmt) : Prop := every tame p.

Variable sys : store fo.

Definition outcome_stmt (f : option bool) (vs : store fo) (n : Z) (s : stmt) : Prop :=
  (exists sg f' vs' out, exec fo sys f vs s sg f' vs' out) \/
  (exists er a ch, fails fo sys f vs n s er a ch).

Definition outcome_list (f : option bool) (vs : store fo) (n : Z) (p : list stmt) : Prop :=
  (exists sg f' vs' out, exec_list fo sys f vs p sg f' vs' out) \/
  (exists er a ch, fails_list fo sys f vs n p er a ch).

Definition T (s : stmt) : Prop := names_ok s -> tame s -> forall f vs n, outcome_stmt f vs n s.

Lemma list_total : forall p, all_list T p -> names_ok_list p -> tame_list p ->
  forall f vs n, outcome_list f vs n p.
Proof.
  induction p as [|s r IH]; intros HP Hn Ht f vs n.
  - left. exists Normal, f, vs, []. constructor.
  - destruct HP as [Ha Hp]. destruct Hn as [Hna Hnp]. destruct Ht as [Hta Htp].
    destruct (Ha Hna Hta f vs n) as [(sg & f1 & vs1 & o1 & He)|(er & a0 & ch & Hf)].
    + destruct sg.
      * destruct (IH Hp Hnp Htp f1 vs1 (n + size s)%Z) as [(sg2 & f2 & vs2 & o2 & Hl)|(er & a0 & ch & Hf)].
        -- left. exists sg2, f2, vs2, (o1 ++ o2). eapply L_Cons; eassumption.
        -- right. exists er, a0, ch. eapply FL_Later; eassumption.
      * left. exists Broke, f1, vs1, o1. eapply L_Stop; [exact He|discriminate].
      * left. exists Continued, f1, vs1, o1. eapply L_Stop; [exact He|discriminate].
    + right. exists er, a0, ch. apply FL_Here. exact Hf.
Qed.

Lemma later_total : forall rest,
  every (fun cb : str * list stmt => let (c, b) := cb in tame_expr c /\ every tame b) rest ->
  forall vs n,
    Forall (fun cb : str * list stmt => exists v', eval fo sys (Some true) vs (fst cb) v') rest \/
    exists er m, later_fails fo sys vs n rest er m.
Proof.
  induction rest as [|[c b] r IH]; intros Ht vs n; [left; constructor|].
  destruct Ht as [[Hc _] Hr].
  destruct (Hc (visible fo sys (Some true) vs)) as [[v Hv]|[er He]].
  - destruct (IH Hr vs (n + 1 + sum_sizes size b)%Z) as [Hall|(er & m & Hl)].
    + left. constructor; [exists v; exact Hv|exact Hall].
    + right. exists er, m. eapply LF_Next; eassumption.
  - right. exists er, n. apply LF_Here. exact He.
Qed.

Lemma arms_total : forall els,
  match els with Some b0 => names_ok_list b0 /\ forall f vs n, outcome_list f vs n b0 | None => True end ->
  forall arms,
  all_list (fun cb : str * list stmt => all_list T (snd cb)) arms ->
  every (fun cb : str * list stmt => let (_, b) := cb in every names_ok b) arms ->
  every (fun cb : str * list stmt => let (c, b) := cb in tame_expr c /\ every tame b) arms ->
  forall b vs n,
    (exists sg taken vs' out, exec_arms fo sys b vs arms els sg taken vs' out) \/
    (exists er a ch, fails_arms fo sys b vs n arms els er a ch).
Proof.
  intros els Hels. induction arms as [|[c body] rest IH]; intros HP Hn Ht b vs n.
  - destruct els as [b0|].
    + destruct Hels as [_ Hels]. destruct (Hels None vs (n + 1)%Z) as [(sg & f1 & vs1 & out & Hl)|(er & a & ch & Hf)].
      * left. exists sg, true, (copy_back fo vs vs1), out. eapply A_Else. exact Hl.
      * right. exists er, a, (n :: ch). apply FA_Else. exact Hf.
    + left. exists Normal, false, vs, []. apply A_None.
  - destruct HP as [HPb HPr]. destruct Hn as [Hnb Hnr]. destruct Ht as [[Htc Htb] Htr]. cbn [snd] in HPb.
    destruct (Htc (visible fo sys (Some b) vs)) as [[v Hv]|[er He]];
      [|right; exists er, false, [n]; apply FA_Cond; exact He].
    destruct (truthy fo v) eqn:Et.
    + destruct (list_total body HPb Hnb Htb None vs (n + 1)%Z) as [(sg & f1 & vs1 & out & Hl)|(er & a & ch & Hf)];
        [|right; exists er, a, (n :: ch); eapply FA_Body; eassumption].
      destruct sg.
      * destruct (later_total rest Htr (copy_back fo vs vs1) (n + 1 + sum_sizes size body)%Z) as [Hall|(er & m & Hlf)].
        -- left. exists Normal, true, (copy_back fo vs vs1), out. eapply A_Take; try eassumption. intros _. exact Hall.
        -- right. exists er, false, [m]. eapply FA_Later; eassumption.
      * left. exists Broke, true, (copy_back fo vs vs1), out. eapply A_Take; try eassumption. intro H; discriminate H.
      * left. exists Continued, true, (copy_back fo vs vs1), out. eapply A_Take; try eassumption. intro H; discriminate H.
    + destruct (IH HPr Hnr Htr false vs (n + 1 + sum_sizes size body)%Z)
        as [(sg & taken & vs' & out & Ha)|(er & a & ch & Hf)].
      * left. exists sg, taken, vs', out. eapply A_Skip; eassumption.
      * right. exists er, a, ch. eapply FA_Skip; eassumption.
Qed.

Lemma repeat_total : forall f c e body n,
  (forall f vs n, outcome_list f vs n body) -> names_ok_list body -> tame_expr e ->
  forall fuel k vs, (loop_max - k < Z.of_nat fuel)%Z ->
    (exists vs' out, exec_repeat fo sys f c e body k vs vs' out) \/
    (exists er a ch, fails_repeat fo sys f c e body n k vs er a ch).
Proof.
  intros f c e body n Hbody Hnm Hte. induction fuel as [|fuel IH]; intros k vs Hfuel;
    (destruct (Hte (visible fo sys f vs)) as [[v Hv]|[er He]];
       [|right; exists er, false, [n]; apply FR_Count; exact He]);
    (destruct (count_of fo v) as [m|] eqn:Ec;
       [|right; exists EInvalidArguments, false, [n]; eapply FR_NotCount; eassumption]);
    (assert (Hd : (0 <= m <= loop_max)%Z \/ ~ (0 <= m <= loop_max)%Z) by lia;
     destruct Hd as [Hin|Hout];
       [|right; exists EInvalidArguments, false, [n]; eapply FR_Range; eassumption]);
    (destruct (Z_lt_le_dec k m) as [Hlt|Hge];
       [|left; exists vs, []; eapply R_Done; eassumption]).
  - exfalso. unfold loop_max in *. lia.
  - destruct (Hbody None (with_counter fo c k vs) (n + 1)%Z) as [(sg & f1 & vs1 & o1 & Hl)|(er & a & ch & Hf)];
      [|right; exists er, a, (n :: ch); eapply FR_Body; eassumption].
    destruct sg.
    + destruct (IH (k + 1)%Z (copy_back fo vs vs1) ltac:(lia)) as [(vs' & o2 & Hr)|(er & a & ch & Hf)].
      * left. exists vs', (o1 ++ o2). eapply R_Iter; try eassumption. discriminate.
      * right. exists er, a, ch. eapply FR_Iter; try eassumption. discriminate.
    + left. exists (copy_back fo vs vs1), o1. eapply R_Break; eassumption.
    + destruct (IH (k + 1)%Z (copy_back fo vs vs1) ltac:(lia)) as [(vs' & o2 & Hr)|(er & a & ch & Hf)].
      * left. exists vs', (o1 ++ o2). eapply R_Iter; try eassumption. discriminate.
      * right. exists er, a, ch. eapply FR_Iter; try eassumption. discriminate.
Qed.

Lemma while_total : forall c e body n,
  (forall f vs n, outcome_list f vs n body) -> names_ok_list body -> tame_expr e ->
  forall fuel k vs, (loop_max - k < Z.of_nat fuel)%Z ->
    (exists vs' out, exec_while fo sys c e body k vs vs' out) \/
    (exists er a ch, fails_while fo sys c e body n k vs er a ch).
Proof.
  intros c e body n Hbody Hnm Hte. induction fuel as [|fuel IH]; intros k vs Hfuel;
    (destruct (Z_le_gt_dec k loop_max) as [Hk|Hk];
       [|right; exists EExceededLimit, false, [n]; apply FW_Limit; lia]).
  - exfalso. lia.
  - destruct (Hte (visible fo sys None (with_counter fo c k vs))) as [[v Hv]|[er He]];
      [|right; exists er, false, [n]; apply FW_Cond; assumption].
    destruct (truthy fo v) eqn:Et;
      [|left; exists (copy_back fo vs (with_counter fo c k vs)), []; eapply W_Done; eassumption].
    destruct (Hbody None (with_counter fo c k vs) (n + 1)%Z) as [(sg & f1 & vs1 & o1 & Hl)|(er & a & ch & Hf)];
      [|right; exists er, a, (n :: ch); eapply FW_Body; eassumption].
    destruct sg.
    + destruct (IH (k + 1)%Z (copy_back fo vs vs1) ltac:(lia)) as [(vs' & o2 & Hr)|(er & a & ch & Hf)].
      * left. exists vs', (o1 ++ o2). eapply W_Iter; try eassumption. discriminate.
      * right. exists er, a, ch. eapply FW_Iter; try eassumption. discriminate.
    + left. exists (copy_back fo vs vs1), o1. eapply W_Break; eassumption.
    + destruct (IH (k + 1)%Z (copy_back fo vs vs1) ltac:(lia)) as [(vs' & o2 & Hr)|(er & a & ch & Hf)].
      * left. exists vs', (o1 ++ o2). eapply W_Iter; try eassumption. discriminate.
      * right. exists er, a, ch. eapply FW_Iter; try eassumption. discriminate.
Qed.

Lemma fuel_enough : forall k, (0 <= k)%Z -> (loop_max - k < Z.of_nat (Z.to_nat (loop_max + 1)))%Z.
Proof. intros k H. unfold loop_max. rewrite Z2Nat.id; lia. Qed.

Theorem stmt_total : forall s, T s.
Proof.
  apply (stmt_ind2 T); unfold T.
  - intros name text _ _ f vs n. left. exists Normal, f, vs, [name ++ sp :: text]. constructor.
  - intros name e _ [Hte Hpr] f vs n.
    destruct (Hte (visible fo sys f vs)) as [[v Hv]|[er He]].
    + destruct (Hpr _ _ Hv) as [t Ht]. left. exists Normal, f, vs, [name ++ sp :: t]. eapply E_EmitEval; eassumption.
    + right. exists er, true, [n]. apply F_EmitEval. exact He.
  - intros x e _ Hte f vs n.
    destruct (Hte (visible fo sys f vs)) as [[v Hv]|[er He]].
    + left. exists Normal, f, (set_var fo x v vs), []. apply E_Var. exact Hv.
    + right. exists er, true, [n]. apply F_VarExpr. exact He.
  - intros arms els IHa IHe Hn Ht f vs n. cbn [names_ok] in Hn. cbn [tame] in Ht.
    destruct Hn as [Hna Hne]. destruct Ht as [Hta Hte].
    assert (Hels : match els with
                   | Some b0 => names_ok_list b0 /\ forall f vs n, outcome_list f vs n b0
                   | None => True end).
    { destruct els as [b0|]; [|exact I]. split; [exact Hne|]. exact (list_total b0 IHe Hne Hte). }
    destruct (arms_total els Hels arms IHa Hna Hta (match f with Some b => b | None => false end) vs n)
      as [(sg & taken & vs' & out & Ha)|(er & a & ch & Hf)].
    + left. exists sg, (Some taken), vs', out. apply E_If. exact Ha.
    + right. exists er, a, ch. apply F_If. exact Hf.
  - intros c e b IHb Hn [Hte Htb] f vs n. cbn [names_ok] in Hn.
    destruct (repeat_total f c e b n (list_total b IHb Hn Htb) Hn Hte _ 0%Z vs (fuel_enough 0 ltac:(lia)))
      as [(vs' & out & Hr)|(er & a & ch & Hf)].
    + left. exists Normal, f, vs', out. apply E_Repeat. exact Hr.
    + right. exists er, a, ch. apply F_Repeat. exact Hf.
  - intros c e b IHb Hn [Hte Htb] f vs n. cbn [names_ok] in Hn.
    destruct (while_total c e b n (list_total b IHb Hn Htb) Hn Hte _ 0%Z vs (fuel_enough 0 ltac:(lia)))
      as [(vs' & out & Hr)|(er & a & ch & Hf)].
    + left. exists Normal, f, vs', out. apply E_While. exact Hr.
    + right. exists er, a, ch. apply F_While. exact Hf.
  - intros _ _ f vs n. left. exists Broke, f, vs, []. constructor.
  - intros _ _ f vs n. left. exists Continued, f, vs, []. constructor.
Qed.

Lemma all_T : forall p, all_list T p.
Proof. induction p as [|s r IH]; [exact I|split; [apply stmt_total|exact IH]]. Qed.

(* TOTALITY on the specifications alone *)
Theorem core_total : forall p, names_ok_list p -> tame_list p ->
  forall f vs n,
    (exists sg f' vs' out, exec_list fo sys f vs p sg f' vs' out) \/
    (exists er a ch, fails_list fo sys f vs n p er a ch).
Proof. intros p Hn Ht f vs n. exact (list_total p (all_T p) Hn Ht f vs n). Qed.

End Total.

(* the evaluator never crashes (Proofs/ExprTotal.v): "tame" only excludes the Unmodelled answer *)
Lemma tame_expr_of_modelled : forall fo e,
  (forall vars, tokenize fo vars e <> Unmodelled) -> tame_expr fo e.
Proof.
  intros fo e H vars. specialize (H vars).
  destruct (tokenize fo vars e) as [v|er|k|] eqn:E.
  - left. exists v. reflexivity.
  - right. exists er. reflexivity.
  - exfalso. exact (ExprTotal.tokenize_never_crashes fo vars e k E).
  - exfalso. apply H. reflexivity.
Qed.

(* ================================================================== with the refinement theorems *)
Section Converse.
Variable fo : FloatOps.

Theorem core_total_prog : forall p, wf_list p -> tame_list fo p ->
  (exists sg f' vs' out, runs fo p sg f' vs' out) \/ (exists er a ch, fails_prog fo p er a ch).
Proof.
  intros p Hwf Ht. exact (core_total fo (initial_sys fo) p (names_ok_list_of_wf p Hwf) Ht None [] 1%Z).
Qed.

(* the interpreter never crashes and never leaves the model on such a program: it returns the
   lines of a success derivation or the located error of a failure derivation *)
Theorem core_compile_total : forall o fs file p,
  wf_list p -> tame_list fo p -> (Z.of_nat (nesting_list p) < stack_limit o)%Z ->
  (exists sg f' vs' out ol, runs fo p sg f' vs' out /\ map o_text ol = out /\
     compile_items fo o fs file (items_of p) =
     (mkGlob [] (stray_warnings sg),
      IOk (mkCompiled fo ol (stray_warnings sg) (mkEnv fo (initial_sys fo) vs' (flag_var fo f') []) []))) \/
  (exists er a ch tr, fails_prog fo p er a ch /\ shape file a ch tr /\
     compile_items fo o fs file (items_of p) = (mkGlob [] [], IErr er (Some tr))).
Proof.
  intros o fs file p Hwf Ht Hn.
  destruct (core_total_prog p Hwf Ht) as [(sg & f' & vs' & out & Hr)|(er & a & ch & Hf)].
  - left. destruct (refine_compile_items fo o fs file p sg f' vs' out Hr Hwf Hn) as (ol & Ho & E).
    exists sg, f', vs', out, ol. split; [exact Hr|]. split; [exact Ho|exact E].
  - right. destruct (refine_fails_compile_items fo o fs file p er a ch Hf (wfx_list_of_wf p Hwf) Hn) as (tr & Hsh & E).
    exists er, a, ch, tr. split; [exact Hf|]. split; [exact Hsh|exact E].
Qed.

(* the CONVERSE of the success refinement: a compilation that succeeds has a success derivation *)
Theorem compile_ok_has_derivation : forall o fs file p g c,
  wf_list p -> tame_list fo p -> (Z.of_nat (nesting_list p) < stack_limit o)%Z ->
  compile_items fo o fs file (items_of p) = (g, IOk c) ->
  exists sg f' vs' out, runs fo p sg f' vs' out /\ map o_text (Interp.out fo c) = out /\
    final_env fo c = mkEnv fo (initial_sys fo) vs' (flag_var fo f') [].
Proof.
  intros o fs file p g c Hwf Ht Hn E.
  destruct (core_compile_total o fs file p Hwf Ht Hn)
    as [(sg & f' & vs' & out & ol & Hr & Ho & E')|(er & a & ch & tr & Hf & Hsh & E')];
    rewrite E in E'; [|discriminate E'].
  injection E' as _ ->. exists sg, f', vs', out. split; [exact Hr|]. split; [exact Ho|reflexivity].
Qed.

(* the CONVERSE of the failure refinement: a compilation that fails has a failure derivation with
   that class and that trace *)
Theorem compile_err_has_derivation : forall o fs file p g er t,
  wf_list p -> tame_list fo p -> (Z.of_nat (nesting_list p) < stack_limit o)%Z ->
  compile_items fo o fs file (items_of p) = (g, IErr er t) ->
  exists a ch tr, fails_prog fo p er a ch /\ t = Some tr /\ shape file a ch tr.
Proof.
  intros o fs file p g er t Hwf Ht Hn E.
  destruct (core_compile_total o fs file p Hwf Ht Hn)
    as [(sg & f' & vs' & out & ol & Hr & Ho & E')|(er' & a & ch & tr & Hf & Hsh & E')];
    rewrite E in E'; [discriminate E'|].
  injection E' as _ -> ->. exists a, ch, tr. split; [exact Hf|]. split; [reflexivity|exact Hsh].
Qed.

Theorem compile_never_crashes : forall o fs file p,
  wf_list p -> tame_list fo p -> (Z.of_nat (nesting_list p) < stack_limit o)%Z ->
  (forall k, snd (compile_items fo o fs file (items_of p)) <> ICrash k) /\
  snd (compile_items fo o fs file (items_of p)) <> IUnmod.
Proof.
  intros o fs file p Hwf Ht Hn.
  destruct (core_compile_total o fs file p Hwf Ht Hn)
    as [(sg & f' & vs' & out & ol & Hr & Ho & E')|(er' & a & ch & tr & Hf & Hsh & E')];
    rewrite E'; split; try intro k; discriminate.
Qed.

End Converse.

(* ================================================================== non-vacuity of [tame] *)
Section TameExample.
Variable fo : FloatOps.
Definition lit_ (l : list N) : str := l.

(*   1  REPEAT 2
     2      $STRING 1+1
     3  VAR x 7                                                                                  *)
Definition prog_tame : list stmt :=
  [ SRepeat None [50%N] [SEmitEval [83;84;82;73;78;71]%N [49;43;49]%N];
    SVar [120%N] [55%N] ].

Lemma prog_tame_tame : tame_list fo prog_tame.
Proof.
  unfold tame_list, prog_tame. cbn [every tame].
  repeat split; try exact I.
  - intro vars. left. eexists. vm_compute. reflexivity.
  - intro vars. left. eexists. vm_compute. reflexivity.
  - intros vars v H. vm_compute in H. injection H as <-. eexists. vm_compute. reflexivity.
  - intro vars. left. eexists. vm_compute. reflexivity.
Qed.

Lemma prog_tame_wf : wf_list prog_tame.
Proof. unfold prog_tame. cbn. repeat (first [exact I | discriminate | reflexivity | split]). Qed.

End TameExample.
