(* Non-vacuity of Proofs/CoreAllDepthTop.v:
   A. a program of minimal depth 3 (a call, an IF block, a REPEAT block; then a line at depth 0):
          1  FUNC g
          2      IF TRUE
          3          REPEAT 1
          4              STRING deep
          5  RUN g
          6  STRING after
      under the stack limit 4 it compiles, under the limit 3 it is the error StackOverflow: both by the
      theorems and by computation (vm_compute) on the interpreter;
   B. FUNC f / RUN f ; RUN f on a concrete file system: the hypotheses of the recursion theorems hold. *)
From Coq Require Import String Ascii NArith ZArith List Bool Lia.
From DS Require Import Base PyStr Values Expr TabParse Tables Constants Interp IdentSpec.
From DS Require Import ChainLoopExamples ImportGraph CoreLang CoreWf CoreRefine CoreFunc CoreFuncExample CoreErr.
From DS Require Import CoreAll CoreAllLines CoreAllBase CoreAllRefine CoreAllTop CoreAllExample.
From DS Require Import CoreAllErr CoreAllErrLines CoreAllErrRefine CoreAllErrExample CoreAllDet CoreAllTotal CoreAllConverse.
From DS Require Import CoreAllDepth CoreAllDepthTop.
Import ListNotations.
Open Scope string_scope.
Open Scope list_scope.

Arguments IOk {A}. Arguments IErr {A}.

Definition dp_main : list ustmt :=
  [UFunc (S_ "g") [] [UIf [(S_ "TRUE", [URepeat None (S_ "1") [UEmit (S_ "STRING") (S_ "deep")]])] None];
   URun (S_ "g") [];
   UEmit (S_ "STRING") (S_ "after")].
Definition dp_prog : program := [(n_main, dp_main); (n_lib, [])].
Definition dp_text : str :=
  prog ["FUNC g"; "    IF TRUE"; "        REPEAT 1"; "            STRING deep"; "RUN g"; "STRING after"].
Definition dp_fs : fsys := fs2 dp_text [].

Lemma dp_prog_ok : prog_ok ex_dir dp_prog dp_fs.
Proof.
  apply fs2_ok; try (vm_compute; reflexivity).
  unfold dp_main. cbn. wf_dec.
Qed.

Definition dp_opts (limit : Z) (inc sup : bool) : options :=
  mkOptions limit inc (flipper_commands default_options) sup (use_project_config default_options).

Definition dp_F : utable :=
  [(S_ "g", mkDef [] [UIf [(S_ "TRUE", [URepeat None (S_ "1") [UEmit (S_ "STRING") (S_ "deep")]])] None] n_main 1)].
Definition dp_out : list uline := [LCode (S_ "STRING deep"); LCode (S_ "STRING after")].

(* FUNC f / RUN g ; FUNC g / RUN f ; RUN f *)
Definition m_main : list ustmt := rec_mutual (S_ "f") (S_ "g").
Definition m_prog : program := [(n_main, m_main); (n_lib, [])].
Definition m_text : str := prog ["FUNC f"; "    RUN g"; "FUNC g"; "    RUN f"; "RUN f"].
Definition m_fs : fsys := fs2 m_text [].

Lemma m_prog_ok : prog_ok ex_dir m_prog m_fs.
Proof.
  apply fs2_ok; try (vm_compute; reflexivity).
  unfold m_main, rec_mutual. cbn. wf_dec.
Qed.

Section Ex.
Variable fo : FloatOps.

Lemma dp_runs_3 : forall inc sup, uruns fo dp_prog inc sup n_main 3 Normal dp_F None [] dp_out [].
Proof.
  intros inc sup.
  assert (H : exists F' f' vs' out ev, uruns fo dp_prog inc sup n_main 3 Normal F' f' vs' out ev /\
            F' = dp_F /\ f' = None /\ vs' = [] /\ out = dp_out /\ ev = []).
  { do 5 eexists. split.
    - unfold uruns. exists dp_main. eexists. split; [reflexivity|]. split; [|reflexivity].
      unfold dp_main. uderive.
    - repeat split; vm_compute; reflexivity. }
  destruct H as (F' & f' & vs' & out & ev & H & -> & -> & -> & -> & ->). exact H.
Qed.

Lemma dp_fails_2 : forall inc sup, exists ch ev, ufails fo dp_prog inc sup n_main 2 EStackOverflow ch ev.
Proof.
  intros inc sup. do 2 eexists. exists dp_main. split; [reflexivity|]. unfold dp_main.
  eapply FL_Later; [uderive|repeat split|].
  eapply FL_Here.
  eapply F_RunBody; [reflexivity|dec|reflexivity|]. cbn [d_body d_params d_file d_line].
  eapply FL_Here. eapply F_If.
  eapply FA_Body; [ev|dec|].
  eapply FL_Here. eapply F_Repeat.
  eapply FR_Overflow; [ev|dec|rng|lia].
Qed.

Lemma dp_names : prog_names_ok dp_prog.
Proof. exact (names_of_prog ex_dir dp_prog dp_fs dp_prog_ok). Qed.

(* the minimal depth is 3 *)
Lemma dp_min_depth : forall inc sup,
  min_depth (fun d => uruns fo dp_prog inc sup n_main d Normal dp_F None [] dp_out []) 3.
Proof.
  intros inc sup. split; [apply dp_runs_3|].
  intros d Hd Hr.
  apply (uruns_mono_le fo dp_prog inc sup n_main d 2) in Hr; [|lia].
  destruct Hr as (st & ev0 & L & D & _). destruct (dp_fails_2 inc sup) as (ch & ev & st' & L' & D').
  rewrite L in L'. injection L' as <-.
  assert (Hnil : tab_names_ok []) by constructor.
  exact (exec_list_fails_disjoint fo (initial_sys fo) dp_prog inc sup dp_names _ _ _ _ _ _ _ _ _ _ _ _ _ _ _ _ _
           Hnil (dp_names n_main st L) D D').
Qed.

(* limit 4: compiles (by the theorem) *)
Lemma dp_limit_4 : forall inc sup, exists g c,
  compile_items fo (dp_opts 4 inc sup) dp_fs (Some (file_of ex_dir n_main)) (uitems_of dp_main) = (g, IOk c).
Proof.
  intros inc sup.
  apply (limit_iff fo ex_dir dp_prog dp_fs dp_prog_ok (fs2_closed _ _ _ _) (dp_opts 4 inc sup) n_main dp_main 3
           Normal dp_F None [] dp_out []); [cbn; lia|reflexivity|exact (dp_min_depth inc sup)|cbn; lia].
Qed.

(* limit 3: StackOverflow (by the theorem) *)
Lemma dp_limit_3 : forall inc sup, exists ch ev', ch <> [] /\
  compile_items fo (dp_opts 3 inc sup) dp_fs (Some (file_of ex_dir n_main)) (uitems_of dp_main) =
  (CoreAllBase.apply_evs ex_dir ev' (mkGlob [] []), IErr EStackOverflow (Some (map (CoreAllBase.conc_frame ex_dir) ch))).
Proof.
  intros inc sup.
  destruct (limit_overflow fo ex_dir dp_prog dp_fs dp_prog_ok (fs2_closed _ _ _ _) (dp_opts 3 inc sup) n_main dp_main 3
              Normal dp_F None [] dp_out []) as (ch & ev' & Hne & _ & E); [cbn; lia|reflexivity|exact (dp_min_depth inc sup)|cbn; lia|].
  exists ch, ev'. split; [exact Hne|exact E].
Qed.

(* the same two facts by computation on the interpreter *)
Lemma dp_interpreter_4 :
  match compile_items fo (dp_opts 4 false false) dp_fs (Some (file_of ex_dir n_main)) (uitems_of dp_main) with
  | (_, IOk c) => map o_text (out fo c) = [S_ "STRING deep"; S_ "STRING after"]
  | _ => False
  end.
Proof. vm_compute. reflexivity. Qed.

Lemma dp_interpreter_3 :
  match compile_items fo (dp_opts 3 false false) dp_fs (Some (file_of ex_dir n_main)) (uitems_of dp_main) with
  | (_, IErr EStackOverflow (Some tr)) => map (fun fr => snd (fr_line fr)) tr = [5; 2; 3]%Z
  | _ => False
  end.
Proof. vm_compute. reflexivity. Qed.

Lemma dp_computed :
  (match compile_items fo (dp_opts 4 false false) dp_fs (Some (file_of ex_dir n_main)) (uitems_of dp_main) with
   | (_, IOk c) => map o_text (out fo c) = [S_ "STRING deep"; S_ "STRING after"]
   | _ => False
   end) /\
  (match compile_items fo (dp_opts 3 false false) dp_fs (Some (file_of ex_dir n_main)) (uitems_of dp_main) with
   | (_, IErr EStackOverflow (Some tr)) => map (fun fr => snd (fr_line fr)) tr = [5; 2; 3]%Z
   | _ => False
   end).
Proof. split; [exact dp_interpreter_4|exact dp_interpreter_3]. Qed.

Lemma dp_all : forall inc sup,
  prog_ok ex_dir dp_prog dp_fs /\
  min_depth (fun d => uruns fo dp_prog inc sup n_main d Normal dp_F None [] dp_out []) 3.
Proof. intros inc sup. exact (conj dp_prog_ok (dp_min_depth inc sup)). Qed.

(* ------------------------------------------------------------------ B: the recursive program *)
Lemma r_main_is_rec_self : r_main = rec_self (S_ "f").
Proof. reflexivity. Qed.

(* every stack limit: StackOverflow with a trace of exactly limit frames *)
Lemma r_every_limit : forall limit inc sup, (1 <= limit)%Z ->
  exists ch, length ch = Z.to_nat limit /\
    compile_items fo (dp_opts limit inc sup) r_fs (Some (file_of ex_dir n_main)) (uitems_of r_main) =
    (mkGlob [] [], IErr EStackOverflow (Some (map (CoreAllBase.conc_frame ex_dir) ch))).
Proof.
  intros limit inc sup Hl.
  exact (rec_self_interpreter fo ex_dir r_prog r_fs r_prog_ok (fs2_closed _ _ _ _) (dp_opts limit inc sup) n_main (S_ "f")
           Hl eq_refl).
Qed.

Lemma r_interpreter_limits :
  (match compile_items fo (dp_opts 1 false false) r_fs (Some (file_of ex_dir n_main)) (uitems_of r_main) with
   | (_, IErr EStackOverflow (Some tr)) => length tr = 1 | _ => False end) /\
  (match compile_items fo (dp_opts 5 false false) r_fs (Some (file_of ex_dir n_main)) (uitems_of r_main) with
   | (_, IErr EStackOverflow (Some tr)) => length tr = 5 | _ => False end) /\
  (match compile_items fo (dp_opts 40 false false) r_fs (Some (file_of ex_dir n_main)) (uitems_of r_main) with
   | (_, IErr EStackOverflow (Some tr)) => length tr = 40 | _ => False end).
Proof. vm_compute. repeat split. Qed.

(* the two-function ring, every limit *)
Lemma m_every_limit : forall limit inc sup, (1 <= limit)%Z ->
  exists ch, length ch = Z.to_nat limit /\
    compile_items fo (dp_opts limit inc sup) m_fs (Some (file_of ex_dir n_main)) (uitems_of m_main) =
    (mkGlob [] [], IErr EStackOverflow (Some (map (CoreAllBase.conc_frame ex_dir) ch))).
Proof.
  intros limit inc sup Hl.
  exact (rec_mutual_interpreter fo ex_dir m_prog m_fs m_prog_ok (fs2_closed _ _ _ _) (dp_opts limit inc sup) n_main
           (S_ "f") (S_ "g") Hl eq_refl eq_refl).
Qed.

Lemma m_all : forall limit inc sup, (1 <= limit)%Z ->
  prog_ok ex_dir m_prog m_fs /\
  exists ch, length ch = Z.to_nat limit /\
    compile_items fo (dp_opts limit inc sup) m_fs (Some (file_of ex_dir n_main)) (uitems_of m_main) =
    (mkGlob [] [], IErr EStackOverflow (Some (map (CoreAllBase.conc_frame ex_dir) ch))).
Proof. intros limit inc sup H. exact (conj m_prog_ok (m_every_limit limit inc sup H)). Qed.

Lemma m_interpreter_limit_6 :
  match compile_items fo (dp_opts 6 false false) m_fs (Some (file_of ex_dir n_main)) (uitems_of m_main) with
  | (_, IErr EStackOverflow (Some tr)) => map (fun fr => snd (fr_line fr)) tr = [5; 2; 4; 2; 4; 2]%Z
  | _ => False
  end.
Proof. vm_compute. reflexivity. Qed.

End Ex.
