(* C09 for the core fragment: a program with a [fails] derivation is, for the interpreter, a
   located compile error of the family of Proofs/CoreErrFacts.v. *)
From Coq Require Import NArith ZArith List Bool.
From DS Require Import Base PyStr Values Expr TabParse Tables Constants Interp ScopeProofs.
From DS Require Import CoreLang CoreWf CoreRefine CoreErr CoreErrLines CoreErrRefine CoreErrFacts.
Import ListNotations.

Arguments IOk {A}. Arguments IErr {A}.

Theorem failure_is_located_compile_error :
  forall fo o fs file p er a ch,
  fails_prog fo p er a ch -> wfx_list p -> (Z.of_nat (nesting_list p) < stack_limit o)%Z ->
  core_class fo er /\
  exists tr, tr <> [] /\
    compile_items fo o fs file (items_of p) = (mkGlob [] [], IErr er (Some tr)).
Proof.
  intros fo o fs file p er a ch Hf Hwf Hn. split.
  - destruct (fails_class_all fo (initial_sys fo)) as (_ & Hl & _). exact (proj1 (Hl _ _ _ _ _ _ _ Hf)).
  - destruct (refine_fails_compile_items fo o fs file p er a ch Hf Hwf Hn) as (tr & Hsh & E).
    exists tr. split; [exact (proj1 (shape_nonempty _ _ _ _ Hsh))|exact E].
Qed.
