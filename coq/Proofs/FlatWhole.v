(* C01 (whole script): from one line (Proofs/FlatProofs.v, flat_line) to Stack.run over the whole
   flat script and to Compiler.compile (compile_items); case / spacing independence. *)
From Coq Require Import NArith ZArith List Bool Lia.
From DS Require Import Base PyStr Values Expr TabParse Interp Tables Constants.
From DS Require Import ScopeProofs Spelling DuckyGrammar FlatScript FlatStrings FlatPipeline FlatProofs.
Import ListNotations.

Arguments IOk {A}. Arguments IErr {A}. Arguments ICrash {A}. Arguments IUnmod {A}.
Arguments s_g {fo}. Arguments s_env {fo}. Arguments s_line2 {fo}. Arguments mkSt {fo}.
Arguments e_sys {fo}. Arguments e_user {fo}. Arguments e_temp {fo}. Arguments e_funcs {fo}. Arguments mkEnv {fo}.
Arguments mkCompiled {fo}. Arguments out {fo}. Arguments warnings {fo}. Arguments prints {fo}.
Arguments final_env {fo}.

Definition env_after_all {fo} (ls : list vline) (e : env fo) : env fo :=
  fold_left (fun e l => env_after l e) ls e.

Definition script_flip_ok (o : options) (ls : list vline) : Prop :=
  flipper_commands o = true \/ Forall (fun l => needs_flipper l = false) ls.

Definition script_dd_ready {fo} (ls : list vline) (e : env fo) : Prop :=
  existsb is_default_delay ls = true -> has_key default_delay_var (e_sys e) = true.

Lemma flat_items_no_block : forall n r,
  match flat_items n r with Blk b :: _ => Some b | _ => None end = None.
Proof. intros n [|[s l] r]; reflexivity. Qed.

Lemma env_after_has_key : forall fo l (e : env fo),
  has_key default_delay_var (e_sys e) = true ->
  has_key default_delay_var (e_sys (env_after l e)) = true.
Proof.
  intros fo l e H. destruct l as [k|w t|t|c w a|c w|w t|c w ds]; try exact H.
  destruct c; try exact H. cbn [env_after e_sys]. rewrite has_key_upd. rewrite str_eqb_refl. reflexivity.
Qed.

Section Script.
Variable fo : FloatOps.
Variable child : runner fo.
Variable cx : ctx.

(* Stack.run over a flat script, from any state, for ANY child runner *)
Theorem flat_script_exec : forall (sc : script) n acc st0,
  script_ok sc -> script_flip_ok (c_opts cx) (lines_of sc) ->
  script_dd_ready (lines_of sc) (s_env st0) ->
  exists l2,
    exec_cmds fo child cx (flat_items n sc) acc st0 =
    (mkSt (s_g st0) (env_after_all (lines_of sc) (s_env st0)) l2,
     IOk (mkCret (acc ++ concat (map (olines (include_comments (c_opts cx))) (lines_of sc))) SNormal)).
Proof.
  induction sc as [|[s l] r IH]; intros n acc st0 Hok Hfl Hdd.
  - exists (s_line2 st0). cbn. rewrite app_nil_r. destruct st0; reflexivity.
  - inversion Hok as [|? ? [Hvl Hsp] Hok']; subst. cbn [fst snd] in Hvl, Hsp.
    assert (Hfl' : script_flip_ok (c_opts cx) (lines_of r)).
    { destruct Hfl as [Hfl|Hfl]; [left; exact Hfl|right].
      cbn [lines_of map] in Hfl. inversion Hfl; assumption. }
    assert (Hfl1 : flip_allowed cx l).
    { destruct Hfl as [Hfl|Hfl]; [right; exact Hfl|left].
      cbn [lines_of map snd] in Hfl. inversion Hfl; assumption. }
    assert (Hdd1 : dd_ready fo l (s_env st0)).
    { intro Hd. apply Hdd. cbn [lines_of map snd existsb]. rewrite Hd. reflexivity. }
    assert (Hdd' : script_dd_ready (lines_of r) (env_after l (s_env st0))).
    { intro Hd. apply env_after_has_key. apply Hdd. cbn [lines_of map snd existsb].
      unfold lines_of in Hd. rewrite Hd. apply orb_true_r. }
    destruct (IH (n + 1)%Z (acc ++ olines (include_comments (c_opts cx)) l)
                 (mkSt (s_g st0) (env_after l (s_env st0)) (Some (spell_line s l, n)))
                 Hok' Hfl' Hdd') as [l2 IHe].
    exists l2.
    pose proof (word_of_in l Hvl) as Hin.
    destruct (cmd_facts s l Hin Hsp) as (Hn & Hne & _ & _).
    cbn [flat_items exec_cmds].
    assert (Hb : is_blank (spell_line s l) = false) by (apply is_blank_word; assumption).
    rewrite Hb. rewrite flat_items_no_block.
    eapply bind_ok_eq; [reflexivity|]. cbv beta.
    eapply bind_ok_eq; [apply flat_line; assumption|]. cbv beta.
    cbn [cr_sig cr_data s_g s_env]. rewrite IHe. cbn [s_g s_env lines_of map snd concat].
    unfold env_after_all. cbn [fold_left]. rewrite app_assoc. reflexivity.
Qed.

End Script.

(* ------------------------------------------------------------------ Compiler.compile *)
Theorem flat_script_compile : forall fo o fs file (sc : script) n,
  script_ok sc -> script_flip_ok o (lines_of sc) ->
  compile_items fo o fs file (flat_items n sc) =
  (mkGlob [] [],
   IOk (mkCompiled (concat (map (olines (include_comments o)) (lines_of sc))) []
                   (env_after_all (lines_of sc) (initial_env fo)) [])).
Proof.
  intros fo o fs file sc n Hok Hfl. unfold compile_items.
  assert (Hdd : script_dd_ready (lines_of sc) (initial_env fo)) by (intros _; reflexivity).
  destruct (run_depth o) as [|d]; cbn [run]; unfold run_with.
  - destruct (flat_script_exec fo (no_child fo) (mkCtx o fs [] file) sc n []
                (mkSt (mkGlob [] []) (initial_env fo) None) Hok Hfl Hdd) as [l2 H].
    rewrite H. reflexivity.
  - destruct (flat_script_exec fo (run fo d) (mkCtx o fs [] file) sc n []
                (mkSt (mkGlob [] []) (initial_env fo) None) Hok Hfl Hdd) as [l2 H].
    rewrite H. reflexivity.
Qed.

(* the statement of C01: no error, no warning, no print; the output texts are the canonical lines *)
Theorem flat_script_passthrough : forall fo o fs file (sc : script) n,
  script_ok sc -> script_flip_ok o (lines_of sc) ->
  exists c,
    compile_items fo o fs file (flat_items n sc) = (mkGlob [] [], IOk c) /\
    map o_text (out c) = canon_script (include_comments o) (lines_of sc) /\
    warnings c = [] /\ prints c = [].
Proof.
  intros fo o fs file sc n Hok Hfl. eexists. split; [apply flat_script_compile; assumption|].
  cbn [out warnings prints]. split; [|split; reflexivity].
  unfold canon_script. clear Hok Hfl. induction (lines_of sc) as [|l ls IH]; [reflexivity|].
  cbn [map concat]. rewrite map_app, olines_text, IH. reflexivity.
Qed.

(* the result does not depend on how the lines are spelled: casing of the command words, number of
   blanks, trailing blanks, line numbers *)
Theorem case_independence : forall fo o fs file (sc1 sc2 : script) n1 n2,
  script_ok sc1 -> script_ok sc2 -> lines_of sc1 = lines_of sc2 ->
  script_flip_ok o (lines_of sc1) ->
  compile_items fo o fs file (flat_items n1 sc1) = compile_items fo o fs file (flat_items n2 sc2).
Proof.
  intros fo o fs file sc1 sc2 n1 n2 H1 H2 E Hfl.
  rewrite (flat_script_compile fo o fs file sc1 n1 H1 Hfl).
  rewrite E in Hfl. rewrite (flat_script_compile fo o fs file sc2 n2 H2 Hfl).
  rewrite E. reflexivity.
Qed.

(* ------------------------------------------------------------------ the final environment *)
Definition set_dd {fo} (z : Z) (e : env fo) : env fo :=
  mkEnv (upd default_delay_var (VInt z) (e_sys e)) (e_user e) (e_temp e) (e_funcs e).

Definition apply_dd {fo} (a : option Z) (e : env fo) : env fo :=
  match a with None => e | Some z => set_dd z e end.

Lemma upd_upd : forall A (k : str) (v1 v2 : A) l, upd k v2 (upd k v1 l) = upd k v2 l.
Proof.
  intros A k v1 v2 l. induction l as [|[k' v'] r IH]; cbn [upd].
  - rewrite str_eqb_refl. reflexivity.
  - destruct (str_eqb k k') eqn:E; cbn [upd].
    + rewrite str_eqb_refl. reflexivity.
    + rewrite E, IH. reflexivity.
Qed.

Lemma set_dd_apply : forall fo z a (e : env fo), set_dd z (apply_dd a e) = set_dd z e.
Proof.
  intros fo z [z0|] e; [|reflexivity]. unfold apply_dd, set_dd. cbn [e_sys e_user e_temp e_funcs].
  rewrite upd_upd. reflexivity.
Qed.

Lemma env_after_all_acc : forall fo ls a (e : env fo),
  env_after_all ls (apply_dd a e) = apply_dd (last_default_delay ls a) e.
Proof.
  intros fo ls. induction ls as [|l ls IH]; intros a e; [reflexivity|].
  unfold env_after_all. cbn [fold_left]. fold (env_after_all ls (env_after l (apply_dd a e))).
  destruct l as [k|w t|t|c w x|c w|w t|c w ds]; cbn [env_after last_default_delay]; try apply IH.
  destruct c; cbn [env_after last_default_delay]; try apply IH.
  fold (set_dd (Z.of_N (dec_value ds 0)) (apply_dd a e)). rewrite set_dd_apply.
  exact (IH (Some (Z.of_N (dec_value ds 0))) e).
Qed.

(* $DEFAULT_DELAY ends with the value of the last DEFAULT_DELAY line; nothing else changes *)
Theorem flat_final_env : forall fo ls (e : env fo),
  env_after_all ls e =
  match last_default_delay ls None with
  | None => e
  | Some z => mkEnv (upd default_delay_var (VInt z) (e_sys e)) (e_user e) (e_temp e) (e_funcs e)
  end.
Proof. intros fo ls e. exact (env_after_all_acc fo ls None e). Qed.
