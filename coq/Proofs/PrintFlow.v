(* C18 (2)(c)-(e): how REPEAT, RUN and START/STARTENV/STARTCODE contribute to the print list.
   General laws (the glob after the command is the glob returned by the child stack, whose
   [c_file] is the file the records are tagged with) and their instances for bodies made of
   inline PRINT lines. *)
From Coq Require Import NArith ZArith List Bool Lia.
From DS Require Import Base PyStr Values Expr TabParse Tables Constants Interp PipelineProofs
  ScopeProofs LoopUnroll RunProofs StartLaws PrintLines PrintOrder.
Import ListNotations.

(* newest-first concatenation of the per-iteration additions P 0, ..., P (n-1) *)
Definition prints_upto (P : nat -> list print_rec) (n : nat) : list print_rec :=
  concat (rev (map P (seq 0 n))).

Lemma prints_upto_S : forall P n, prints_upto P (S n) = P n ++ prints_upto P n.
Proof.
  intros P n. unfold prints_upto. rewrite seq_S, map_app, rev_app_distr. cbn [map rev app concat plus]. reflexivity.
Qed.

(* in execution order (oldest first) it is P 0 ++ P 1 ++ ... (each P k itself newest first) *)
Lemma prints_upto_rev : forall P n, rev (prints_upto P n) = concat (map (fun k => rev (P k)) (seq 0 n)).
Proof.
  intros P n. induction n as [|n IH].
  - reflexivity.
  - rewrite prints_upto_S, rev_app_distr, IH, seq_S, map_app, concat_app. cbn [map concat plus].
    rewrite app_nil_r. reflexivity.
Qed.

Section Flow.
Variable fo : FloatOps.
Notation st := (st fo).

Lemma chain_prints : forall (sts : nat -> st) P n,
  (forall k, (k < n)%nat -> g_prints (s_g (sts (S k))) = P k ++ g_prints (s_g (sts k))) ->
  g_prints (s_g (sts n)) = prints_upto P n ++ g_prints (s_g (sts 0%nat)).
Proof.
  intros sts P n H. induction n as [|n IH].
  - reflexivity.
  - rewrite prints_upto_S, <- app_assoc, <- IH by (intros k Hk; apply H; lia). apply H. lia.
Qed.

(* ------------------------------------------------------------------ (c) REPEAT *)
(* all n iterations run to their end: their prints, iteration 0 first *)
Theorem repeat_prints_in_order :
  forall (child : runner fo) cx cur var_name argument code n (sts : nat -> st) (crs : nat -> cret)
         (P : nat -> list print_rec),
  (forall k, (k <= n)%nat -> tokenize_count fo cx cur argument (sts k) = (sts k, IOk (Z.of_nat n))) ->
  (forall k, (k < n)%nat ->
     run_child fo child cx cur code (c_file cx) false (bind_counter fo var_name (Z.of_nat k)) (sts k)
     = (sts (S k), IOk (crs k))) ->
  (forall k, (k < n)%nat -> cr_sig (crs k) = SNormal \/ cr_sig (crs k) = SContinue) ->
  (forall k, (k < n)%nat -> g_prints (s_g (sts (S k))) = P k ++ g_prints (s_g (sts k))) ->
  forall extra acc, cr_sig acc = SNormal ->
  exists s',
    repeat_loop fo child cx cur (loop_fuel + extra) var_name argument code 0 acc (sts 0%nat) =
    (s', IOk (mkCret (cr_data acc ++ outputs crs n) SNormal)) /\
    g_prints (s_g s') = prints_upto P n ++ g_prints (s_g (sts 0%nat)).
Proof.
  intros child cx cur var_name argument code n sts crs P Hcount Hrun Hsig HP extra acc Hacc.
  exists (sts n). split.
  - exact (repeat_all_iterations_lemma fo child cx cur var_name argument code n sts crs Hcount Hrun Hsig extra acc Hacc).
  - apply chain_prints. exact HP.
Qed.

(* iteration j is the first to end in BREAK or RETURN: the prints of iterations 0..j, nothing later *)
Theorem repeat_prints_until_stop :
  forall (child : runner fo) cx cur var_name argument code n (sts : nat -> st) (crs : nat -> cret)
         (P : nat -> list print_rec) j,
  (forall k, (k <= n)%nat -> tokenize_count fo cx cur argument (sts k) = (sts k, IOk (Z.of_nat n))) ->
  (j < n)%nat ->
  (forall k, (k <= j)%nat ->
     run_child fo child cx cur code (c_file cx) false (bind_counter fo var_name (Z.of_nat k)) (sts k)
     = (sts (S k), IOk (crs k))) ->
  (forall k, (k < j)%nat -> cr_sig (crs k) = SNormal \/ cr_sig (crs k) = SContinue) ->
  (cr_sig (crs j) = SBreak \/ cr_sig (crs j) = SReturn) ->
  (forall k, (k <= j)%nat -> g_prints (s_g (sts (S k))) = P k ++ g_prints (s_g (sts k))) ->
  forall extra acc,
  exists s' cr,
    repeat_loop fo child cx cur (loop_fuel + extra) var_name argument code 0 acc (sts 0%nat) = (s', IOk cr) /\
    g_prints (s_g s') = prints_upto P (S j) ++ g_prints (s_g (sts 0%nat)).
Proof.
  intros child cx cur var_name argument code n sts crs P j Hcount Hj Hrun Hsig Hstop HP extra acc.
  exists (sts (S j)). eexists. split.
  - exact (repeat_stops_at_lemma fo child cx cur var_name argument code n sts crs Hcount j Hj Hrun Hsig Hstop extra acc).
  - apply chain_prints. intros k Hk. apply HP. lia.
Qed.

(* one iteration: what the body's stack printed is what the iteration printed *)
Lemma iteration_prints : forall (child : runner fo) cx cur code var_name k (s s' : st) cr,
  run_child fo child cx cur code (c_file cx) false (bind_counter fo var_name k) s = (s', IOk cr) ->
  exists cenv1 cenv2,
    child (mkCtx (c_opts cx) (c_fs cx) (here cx cur (s_line2 s)) (c_file cx)) (s_g s) cenv1 code
    = (s_g s', IOk (cr, cenv2)).
Proof.
  intros child cx cur code var_name k s s' cr H. unfold run_child in H. unfold bindM in H.
  destruct (run_child_with fo child cx cur code (c_file cx) false _ _ s) as [s1 [r| | |]] eqn:E; try discriminate.
  destruct r as [cr'|]; [|discriminate]. injection H as <- <-.
  apply run_child_with_inv in E. destruct E as (cenv1 & _ & [(Hr & _)|(cr2 & g' & cenv2 & Hr & _ & Hc & ->)]); [discriminate|].
  injection Hr as <-. exists cenv1, cenv2. exact Hc.
Qed.

(* ------------------------------------------------------------------ bodies made of inline PRINT lines *)
Inductive print_item (file : option path) : item -> print_rec -> Prop :=
| print_item_intro : forall c n cmd t, split_ws1 c = [cmd; t] -> upper cmd = s_PRINT ->
    print_item file (Ln c n) (mkPrint (strip t) n file).

Lemma print_body_exec : forall (child : runner fo) cx body recs,
  Forall2 (print_item (c_file cx)) body recs ->
  forall acc (s : st), exists l2,
    exec_cmds fo child cx body acc s =
    (mkSt (mkGlob (rev recs ++ g_prints (s_g s)) (g_warnings (s_g s))) (s_env s) l2, IOk (mkCret acc SNormal)).
Proof.
  intros child cx body recs H. induction H as [|it p body recs Hit Hrest IH]; intros acc s.
  - exists (s_line2 s). destruct s as [[pp w] e l2]. reflexivity.
  - destruct Hit as [c n cmd t Hs Hu]. cbn [exec_cmds].
    rewrite (split_ws1_not_blank _ _ _ Hs).
    replace (match body with Blk b :: _ => Some b | _ => None end) with (@None (list item))
      by (destruct Hrest as [|? ? ? ? [] _]; reflexivity).
    unfold bindM at 1. unfold set_line2 at 1. unfold bindM at 1.
    rewrite (print_inline_adds fo child cx c n cmd t _ Hs Hu). cbn [cr_sig cr_data s_g s_env].
    rewrite app_nil_r.
    destruct (IH acc (mkSt (mkGlob (mkPrint (strip t) n (c_file cx) :: g_prints (s_g s)) (g_warnings (s_g s))) (s_env s) (Some (c, n))))
      as [l2 E].
    exists l2. rewrite E. cbn [s_g s_env g_prints g_warnings rev]. rewrite <- app_assoc. reflexivity.
Qed.

Lemma print_body_run_with : forall (child : runner fo) cx body recs g e,
  Forall2 (print_item (c_file cx)) body recs ->
  run_with fo child cx g e body = (mkGlob (rev recs ++ g_prints g) (g_warnings g), IOk (mkCret [] SNormal, e)).
Proof.
  intros child cx body recs g e H. unfold run_with.
  destruct (print_body_exec child cx body recs H [] (mkSt g e None)) as [l2 E]. rewrite E. reflexivity.
Qed.

(* ------------------------------------------------------------------ (d) RUN *)
(* general: the glob after a completed RUN is the glob handed back by the stack that ran the
   function's code, and that stack's file is the DEFINING file when the definition carries one *)
Theorem run_glob_is_body_glob :
  forall (child : runner fo) cx cur cname sc name a num orig fname var_string (s : st) vals f g' cr cenv2,
  s_run sc = RKRun -> break_arg (content_text a) = (fname, var_string) ->
  arg_values fo (s_env s) var_string = Ok vals ->
  lookup fname (e_funcs fo (s_env s)) = Some f ->
  length (fn_args f) = length vals ->
  stack_full cx = false ->
  child (callee_ctx cx cur f (s_line2 s)) (s_g s) (callee_env fo f vals (s_env s)) (fn_code f) = (g', IOk (cr, cenv2)) ->
  exists s' r,
    run_compile fo child cx cur cname sc name (Some (mkLine a num orig)) s = (s', r) /\
    s_g s' = g' /\
    c_file (callee_ctx cx cur f (s_line2 s)) = match fn_file f with Some p => Some p | None => c_file cx end.
Proof.
  intros child cx cur cname sc name a num orig fname var_string s vals f g' cr cenv2 Hr Hb Ha Hl Hn Hs Hc.
  eexists. eexists. split; [|split].
  - exact (run_binds fo child cx cur cname sc name a num orig fname var_string s vals f g' cr cenv2 Hr Hb Ha Hl Hn Hs Hc).
  - reflexivity.
  - reflexivity.
Qed.

(* instance: a body of inline PRINT lines, run by a real stack: the records carry the file of the
   definition (of the caller only when the function was defined in a stack without a file) *)
Theorem run_prints_defining_file :
  forall (child' : runner fo) cx cur cname sc name a num orig fname var_string (s : st) vals f recs,
  s_run sc = RKRun -> break_arg (content_text a) = (fname, var_string) ->
  arg_values fo (s_env s) var_string = Ok vals ->
  lookup fname (e_funcs fo (s_env s)) = Some f ->
  length (fn_args f) = length vals ->
  stack_full cx = false ->
  Forall2 (print_item (callee_file cx f)) (fn_code f) recs ->
  exists env',
    run_compile fo (run_with fo child') cx cur cname sc name (Some (mkLine a num orig)) s =
    (mkSt (mkGlob (rev recs ++ g_prints (s_g s)) (g_warnings (s_g s))) env' (s_line2 s),
     IOk (RComp (mkCret [] SNormal))) /\
    Forall (fun p => p_file p = callee_file cx f) recs.
Proof.
  intros child' cx cur cname sc name a num orig fname var_string s vals f recs Hr Hb Ha Hl Hn Hs Hbody.
  eexists. split.
  - rewrite (run_binds fo (run_with fo child') cx cur cname sc name a num orig fname var_string s vals f
               _ _ _ Hr Hb Ha Hl Hn Hs
               (print_body_run_with child' (callee_ctx cx cur f (s_line2 s)) (fn_code f) recs _ _ Hbody)).
    cbn [cr_sig cr_data escapes]. reflexivity.
  - clear - Hbody. induction Hbody as [|it p body recs Hit _ IH]; constructor; [|exact IH].
    destruct Hit. reflexivity.
Qed.

(* ------------------------------------------------------------------ (e) START / STARTENV / STARTCODE *)
(* general: the glob after a completed import is the glob handed back by the stack of the imported
   file (plus the plain warning when that file was left with BREAK/CONTINUE): prints are kept by
   all three commands, STARTENV included -- it discards the output lines only *)
Theorem start_glob_is_file_glob :
  forall (child : runner fo) cx cur cname sc name l file target text commands (s : st) g' cr cenv,
  s_run sc = RKStart -> c_file cx = Some file ->
  resolve_start file (content_text (l_content l)) = Ok target ->
  c_fs cx target = Some text -> circ cx target = false -> prepare_text text = TOk commands ->
  below_stack_limit cx ->
  child (start_ctx cx cur (s_line2 s) target) (s_g s) (append_env fo (empty_env fo) (s_env s)) commands
    = (g', IOk (cr, cenv)) ->
  exists s',
    run_compile fo child cx cur cname sc name (Some l) s =
    (s', IOk (if str_eqb (upper name) s_STARTENV then RLines [] else RComp (mkCret (cr_data cr) SNormal))) /\
    g_prints (s_g s') = g_prints g' /\
    c_file (start_ctx cx cur (s_line2 s) target) = Some target.
Proof.
  intros child cx cur cname sc name l file target text commands s g' cr cenv Hr Hf Hres Hfs Hc Hp Hlim Hch.
  eexists. split; [|split].
  - exact (start_family_law fo child cx cur cname sc name l file target text commands s g' cr cenv
             Hr Hf Hres Hfs Hc Hp Hlim Hch).
  - cbn [s_g]. unfold sig_warned. destruct (s_sig_warning _); [|reflexivity].
    unfold add_warning. destruct (existsb _ _); reflexivity.
  - reflexivity.
Qed.

(* instance: the imported file consists of inline PRINT lines; whatever the command of the family
   (START, STARTENV, STARTCODE), its records are added, in order, tagged with the imported file *)
Theorem start_prints_imported_file :
  forall (child' : runner fo) cx cur cname sc name l file target text commands (s : st) recs,
  s_run sc = RKStart -> c_file cx = Some file ->
  resolve_start file (content_text (l_content l)) = Ok target ->
  c_fs cx target = Some text -> circ cx target = false -> prepare_text text = TOk commands ->
  below_stack_limit cx ->
  Forall2 (print_item (Some target)) commands recs ->
  exists env',
    run_compile fo (run_with fo child') cx cur cname sc name (Some l) s =
    (mkSt (mkGlob (rev recs ++ g_prints (s_g s)) (g_warnings (s_g s))) env' (s_line2 s),
     IOk (if str_eqb (upper name) s_STARTENV then RLines [] else RComp (mkCret [] SNormal))).
Proof.
  intros child' cx cur cname sc name l file target text commands s recs Hr Hf Hres Hfs Hc Hp Hlim Hbody.
  eexists.
  rewrite (start_family_law fo (run_with fo child') cx cur cname sc name l file target text commands s
             _ _ _ Hr Hf Hres Hfs Hc Hp Hlim
             (print_body_run_with child' (start_ctx cx cur (s_line2 s) target) commands recs _ _ Hbody)).
  cbn [cr_sig cr_data]. rewrite sig_warned_normal. reflexivity.
Qed.

End Flow.
