(* C03 / C11: the parser inverts the rendering of forests WITH quoted regions. *)
From Coq Require Import NArith ZArith List Bool Lia.
From DS Require Import Base PyStr TabParse BlockTree BlockTreeQ TabProofs TabRoundTrip.
Import ListNotations.

(* ================================================================== induction on nodes *)
Fixpoint nodeq_ind2 (P : nodeq -> Prop)
  (H1 : forall c kids, Forall P kids -> P (StmtQ c kids))
  (H2 : forall c ls, P (QuotedQ c ls)) (nd : nodeq) {struct nd} : P nd :=
  match nd with
  | StmtQ c kids =>
      H1 c kids ((fix go (l : list nodeq) : Forall P l :=
                    match l with
                    | [] => Forall_nil P
                    | k :: r => Forall_cons k (nodeq_ind2 P H1 H2 k) (go r)
                    end) kids)
  | QuotedQ c ls => H2 c ls
  end.

(* ================================================================== head and body of a node *)
Definition headq (nd : nodeq) : str := match nd with StmtQ c _ => c | QuotedQ c _ => c end.

(* the lines below the head, without their one unit of indentation *)
Definition body_lines (u : str) (nd : nodeq) : list str :=
  match nd with StmtQ _ kids => renderq u kids | QuotedQ _ ls => region ls end.

(* the block the body must be parsed to, when its first line has number [m] *)
Definition body_items (nd : nodeq) (m : Z) : list item :=
  match nd with
  | StmtQ _ kids => expected_forestq_b kids m
  | QuotedQ _ ls => lines_block (filter nonblank_line (number_from (m + 1)%Z ls))
  end.

Lemma render_nodeq_eq : forall u nd, render_nodeq u nd = headq nd :: map (app u) (body_lines u nd).
Proof. intros u [c kids|c ls]; reflexivity. Qed.

Lemma expected_goq_eq : forall l m,
  (fix go (l : list nodeq) (m : Z) {struct l} : list item :=
     match l with
     | [] => []
     | k :: r => expected_nodeq_b k m ++ go r (m + Z.of_nat (node_sizeq k))%Z
     end) l m = expected_forestq_b l m.
Proof. intros l m. reflexivity. Qed.

Lemma renderq_cons : forall u nd f, renderq u (nd :: f) = render_nodeq u nd ++ renderq u f.
Proof. reflexivity. Qed.

Lemma expected_nodeq_b_eq : forall u nd n,
  expected_nodeq_b nd n =
  Ln (headq nd) n :: match body_lines u nd with [] => [] | _ => [Blk (body_items nd (n + 1)%Z)] end.
Proof.
  intros u [c kids|c ls] n.
  - destruct kids as [|k r]; [reflexivity|].
    cbn [body_lines headq body_items]. rewrite renderq_cons, render_nodeq_eq. cbn [app].
    rewrite <- expected_goq_eq. reflexivity.
  - cbn [expected_nodeq_b body_lines region headq body_items].
    replace (n + 1 + 1)%Z with (n + 2)%Z by lia. reflexivity.
Qed.

Lemma forest_sizeq_cons : forall nd f, forest_sizeq (nd :: f) = node_sizeq nd + forest_sizeq f.
Proof. reflexivity. Qed.

Lemma region_length : forall ls, length (region ls) = S (S (length ls)).
Proof. intro ls. unfold region. cbn [length]. rewrite app_length. cbn [length]. lia. Qed.

Lemma renderq_length : forall u f, length (renderq u f) = forest_sizeq f.
Proof.
  intro u.
  assert (Hn : forall nd, length (render_nodeq u nd) = node_sizeq nd).
  { apply nodeq_ind2.
    - intros c kids IH. cbn [render_nodeq node_sizeq length]. f_equal.
      rewrite map_length. induction IH as [|k r Hk Hr IHr]; [reflexivity|].
      cbn [flat_map map]. rewrite app_length. rewrite Hk.
      change (list_sum (node_sizeq k :: map node_sizeq r)) with (node_sizeq k + list_sum (map node_sizeq r)).
      f_equal. exact IHr.
    - intros c ls. cbn [render_nodeq node_sizeq length]. rewrite map_length, region_length. reflexivity. }
  induction f as [|nd f IH]; [reflexivity|].
  rewrite renderq_cons, app_length, Hn, IH. reflexivity.
Qed.

Lemma node_sizeq_body : forall u nd, node_sizeq nd = S (length (body_lines u nd)).
Proof.
  intros u [c kids|c ls]; cbn [node_sizeq body_lines].
  - rewrite renderq_length. reflexivity.
  - rewrite region_length. reflexivity.
Qed.

(* ================================================================== first characters *)
Definition first_nonspace (l : str) : Prop :=
  match l with [] => False | x :: _ => isspace_c x = false end.

Lemma first_nonspace_nonblank : forall l, first_nonspace l -> is_blank l = false.
Proof.
  intros [|x l] H; [contradiction|]. unfold is_blank. cbn [lstrip]. unfold first_nonspace in H. rewrite H. reflexivity.
Qed.

Lemma triple_first_nonspace : first_nonspace triple_quote.
Proof. reflexivity. Qed.

Lemma body_first : forall u P nd, wf_nodeq P nd ->
  match body_lines u nd with [] => True | l :: _ => first_nonspace l end.
Proof.
  intros u P nd Hwf. inversion Hwf as [c kids Hc Hk|c ls Hc Hl]; subst nd.
  - cbn [body_lines]. destruct kids as [|k r]; [exact I|].
    rewrite renderq_cons, render_nodeq_eq. cbn [app].
    inversion Hk as [|k0 r0 Hk0 Hr0]. subst k0 r0.
    inversion Hk0 as [c' kids' Hc' Hk'|c' ls' Hc' Hl']; subst k; exact (proj1 Hc').
  - exact triple_first_nonspace.
Qed.

Lemma filter_nb_cons : forall (l : str) (m : Z) t,
  filter nonblank_line ((l, m) :: t) =
  if is_blank l then filter nonblank_line t else (l, m) :: filter nonblank_line t.
Proof. intros l m t. cbn [filter]. unfold nonblank_line at 1. cbn [fst]. destruct (is_blank l); reflexivity. Qed.

Lemma nonblank_number_from : forall ls m,
  (forall l, In l ls -> is_blank l = false) ->
  filter nonblank_line (number_from m ls) = number_from m ls.
Proof.
  induction ls as [|l ls IH]; intros m H; [reflexivity|].
  cbn [number_from]. rewrite filter_nb_cons.
  rewrite (H l (or_introl eq_refl)). f_equal. apply IH.
  intros l' Hl'. apply H. right. exact Hl'.
Qed.


(* ================================================================== the loop *)
Section Unit.
Variable u : str.
Hypothesis Hu : wf_unit u.

Lemma has_tab_first_nonspace : forall l n, first_nonspace l -> has_tab (u ++ l) None n = TOk (NewTab u).
Proof.
  intros l n Hl. unfold has_tab.
  rewrite discover_ws_app; [|apply (unit_ws u Hu)|exact Hl].
  destruct Hu as [H1 H2]. destruct u as [|x u']; [contradiction|]. cbn [app].
  assert (Hor : ((x =? sp)%N || (x =? tb)%N) = true) by (destruct H1 as [->| ->]; reflexivity).
  rewrite Hor. reflexivity.
Qed.

Section Loop.
Variable rec : list preline -> option str -> tabres (list item).

Lemma pd_loop_first_indented : forall l m rest tab newc ret,
  first_nonspace l -> tab_here u tab ->
  pd_loop rec ((u ++ l, m) :: rest) tab newc ret 0%Z false =
  pd_loop rec rest (Some u) ((l, m) :: newc) ret 0%Z false.
Proof.
  intros l m rest tab newc ret Hl Htab. cbn [pd_loop].
  rewrite is_blank_ws_app by apply (unit_ws u Hu). rewrite (first_nonspace_nonblank l Hl).
  rewrite (unit_not_triple u Hu). cbn [andb].
  change (negb (0 =? 0)%Z) with false. cbv iota.
  destruct Htab as [->| ->].
  - rewrite has_tab_first_nonspace by exact Hl. rewrite removeprefix_app_same. reflexivity.
  - rewrite (has_tab_indented u). rewrite removeprefix_app_same. reflexivity.
Qed.

(* indented lines are moved into the pending block minus one unit; blank ones are skipped *)
Lemma pd_loop_indented_b : forall ls m rest newc ret,
  pd_loop rec (number_from m (map (app u) ls) ++ rest) (Some u) newc ret 0%Z false =
  pd_loop rec rest (Some u) (rev (filter nonblank_line (number_from m ls)) ++ newc) ret 0%Z false.
Proof.
  induction ls as [|l ls IH]; intros m rest newc ret; [reflexivity|].
  cbn [map number_from app]. rewrite filter_nb_cons.
  cbn [pd_loop]. rewrite is_blank_ws_app by apply (unit_ws u Hu).
  destruct (is_blank l) eqn:Hb.
  - apply IH.
  - rewrite (unit_not_triple u Hu). cbn [andb].
    change (negb (0 =? 0)%Z) with false. cbv iota.
    rewrite (has_tab_indented u). rewrite removeprefix_app_same.
    rewrite IH. cbn [rev]. rewrite <- app_assoc. reflexivity.
Qed.

(* the whole body of a node is moved into the pending block *)
Lemma pd_loop_body : forall bl m rest tab ret,
  match bl with [] => True | l :: _ => first_nonspace l end -> tab_here u tab -> bl <> [] ->
  pd_loop rec (number_from m (map (app u) bl) ++ rest) tab [] ret 0%Z false =
  pd_loop rec rest (Some u) (rev (filter nonblank_line (number_from m bl))) ret 0%Z false.
Proof.
  intros bl m rest tab ret Hf Htab Hne. destruct bl as [|l bl]; [contradiction|].
  cbn [map number_from app].
  rewrite pd_loop_first_indented by assumption.
  rewrite pd_loop_indented_b.
  rewrite filter_nb_cons. rewrite (first_nonspace_nonblank l Hf).
  cbn [rev]. reflexivity.
Qed.

Variable bound : nat.
(* the recursive call on the (filtered) body of a node gives its block *)
Hypothesis Hrec : forall nd m,
  wf_nodeq region_line_b nd -> node_sizeq nd <= bound -> (0 < m)%Z -> body_lines u nd <> [] ->
  rec (filter nonblank_line (number_from m (body_lines u nd))) (Some u) = TOk (body_items nd m).

Definition flushq (pend : list preline) (pitems : list item) (ret : list item) : list item :=
  match pend with
  | [] => ret
  | _ => Blk pitems :: ret
  end.

Lemma flushq_eq : forall (A : Type) (K : list item -> A) (E : taberr -> A) pend pitems tab ret,
  (pend <> [] -> tab = Some u /\ rec pend (Some u) = TOk pitems) ->
  match rev pend with
  | [] => K ret
  | _ :: _ => match rec (rev (rev pend)) tab with
              | TOk b => K (Blk b :: ret)
              | TErr e => E e
              end
  end = K (flushq pend pitems ret).
Proof.
  intros A K E pend pitems tab ret Hp.
  destruct pend as [|x p]; [reflexivity|].
  destruct Hp as [-> Hr]; [discriminate|].
  destruct (rev (x :: p)) as [|y l] eqn:Erev.
  - apply (f_equal (@length preline)) in Erev. rewrite rev_length in Erev. discriminate.
  - rewrite <- Erev. rewrite rev_involutive. rewrite Hr. reflexivity.
Qed.

Lemma pd_loop_forestq : forall f n tab pend pitems ret first,
  wf_forestq_b f -> tab_here u tab ->
  (pend <> [] -> tab = Some u /\ rec pend (Some u) = TOk pitems) ->
  forest_sizeq f <= bound -> (0 < n)%Z ->
  pd_loop rec (number_from n (renderq u f)) tab (rev pend) ret 0%Z first =
  TOk (rev (flushq pend pitems ret) ++ expected_forestq_b f n).
Proof.
  induction f as [|nd r IH]; intros n tab pend pitems ret first Hwf Htab Hp Hsz Hn.
  - cbn [renderq flat_map number_from pd_loop].
    change (negb (0 =? 0)%Z) with false. cbv iota.
    refine (eq_trans (flushq_eq _ (fun x => TOk (rev x)) TErr pend pitems tab ret Hp) _).
    cbn [expected_forestq_b]. rewrite app_nil_r. reflexivity.
  - inversion Hwf as [|k0 r0 Hk Hr]. subst k0 r0.
    assert (Hc : wf_content (headq nd)).
    { inversion Hk as [c kids Hc Hkids|c ls Hc Hls]; subst nd; exact Hc. }
    rewrite renderq_cons, render_nodeq_eq. cbn [app number_from pd_loop].
    rewrite (wf_content_nonblank _ Hc). rewrite (proj2 Hc). cbn [andb].
    change (negb (0 =? 0)%Z) with false. cbv iota.
    rewrite (has_tab_stmt u Hu _ tab n Hc Htab).
    rewrite number_from_app. rewrite map_length.
    refine (eq_trans (flushq_eq _ (fun x => pd_loop rec _ tab [] (Ln (headq nd) n :: x) 0%Z false) TErr
                        pend pitems tab ret Hp) _).
    cbv beta.
    rewrite forest_sizeq_cons in Hsz.
    cbn [expected_forestq_b]. rewrite (expected_nodeq_b_eq u).
    rewrite (node_sizeq_body u nd).
    replace (n + Z.of_nat (S (length (body_lines u nd))))%Z
      with (n + 1 + Z.of_nat (length (body_lines u nd)))%Z by lia.
    pose proof (body_first u _ nd Hk) as Hfirst.
    destruct (body_lines u nd) as [|b0 bl] eqn:Ebody.
    + cbn [map number_from app length].
      change (@nil preline) with (rev (@nil preline)) at 1.
      rewrite (IH _ tab [] [] _ false).
      * cbn [flushq rev app]. rewrite <- app_assoc. reflexivity.
      * exact Hr.
      * exact Htab.
      * intro Hne. contradiction.
      * lia.
      * lia.
    + rewrite pd_loop_body; [|exact Hfirst|exact Htab|discriminate].
      assert (Hpne : filter nonblank_line (number_from (n + 1) (b0 :: bl)) <> []).
      { cbn [number_from]. rewrite filter_nb_cons.
        rewrite (first_nonspace_nonblank b0 Hfirst). discriminate. }
      rewrite (IH _ (Some u) _ (body_items nd (n + 1)%Z) _ false).
      * unfold flushq.
        destruct (filter nonblank_line (number_from (n + 1) (b0 :: bl))); [contradiction|].
        cbn [rev app]. rewrite <- !app_assoc. reflexivity.
      * exact Hr.
      * right. reflexivity.
      * intros _. split; [reflexivity|].
        rewrite <- Ebody. apply Hrec; [exact Hk|lia|lia|rewrite Ebody; discriminate].
      * lia.
      * lia.
Qed.
End Loop.

(* ================================================================== a quoted region on its own *)
Lemma pd_loop_quoted_b : forall rec ls m rest tab ret free,
  free <> 0%Z ->
  Forall region_line_b ls ->
  pd_loop rec (filter nonblank_line (number_from m ls) ++ rest) tab [] ret free false =
  pd_loop rec rest tab [] (rev (lines_block (filter nonblank_line (number_from m ls))) ++ ret) free false.
Proof.
  intros rec ls. induction ls as [|l ls IH]; intros m rest tab ret free Hf Hl; [reflexivity|].
  inversion Hl as [|l0 ls0 Hl0 Hls]. subst l0 ls0.
  cbn [number_from]. rewrite filter_nb_cons.
  destruct (is_blank l) eqn:Hb.
  - apply IH; assumption.
  - cbn [app pd_loop]. rewrite Hb.
    destruct Hl0 as [Hl0|Hl0]; [rewrite Hl0 in Hb; discriminate|]. rewrite Hl0. cbn [andb].
    apply Z.eqb_neq in Hf. rewrite Hf. cbn [negb]. apply Z.eqb_neq in Hf.
    rewrite IH by assumption.
    cbn [lines_block map rev fst snd]. rewrite <- app_assoc. reflexivity.
Qed.

Lemma parse_doc_region : forall fuel ls m tab,
  (0 < m)%Z -> Forall region_line_b ls ->
  parse_doc (S fuel) (filter nonblank_line (number_from m (region ls))) tab =
  TOk (lines_block (filter nonblank_line (number_from (m + 1)%Z ls))).
Proof.
  intros fuel ls m tab Hm Hl. unfold region.
  cbn [number_from]. rewrite filter_nb_cons.
  change (is_blank triple_quote) with false. cbv iota.
  rewrite number_from_app. rewrite filter_app.
  cbn [number_from]. rewrite filter_nb_cons.
  change (is_blank triple_quote) with false. cbv iota. cbn [filter].
  cbn [parse_doc pd_loop].
  change (is_blank triple_quote) with false. cbv iota.
  change (startswith triple_quote triple_quote) with true. cbn [andb orb].
  change (0 =? 0)%Z with true. cbv iota.
  assert (Hm0 : m <> 0%Z) by lia.
  rewrite (pd_loop_quoted_b (parse_doc fuel) ls (m + 1)%Z _ tab [] m Hm0 Hl).
  cbn [pd_loop].
  change (is_blank triple_quote) with false. cbv iota.
  change (startswith triple_quote triple_quote) with true.
  apply Z.eqb_neq in Hm0. rewrite Hm0. cbn [negb orb andb].
  change (negb (0 =? 0)%Z) with false. cbv iota.
  rewrite app_nil_r, rev_involutive. reflexivity.
Qed.

(* ================================================================== the recursion *)
Lemma renderq_first_nonblank : forall f, wf_forestq_b f ->
  forall m, filter nonblank_line (number_from m (renderq u f)) = [] -> f = [].
Proof.
  intros f Hwf m H. destruct f as [|nd r]; [reflexivity|].
  inversion Hwf as [|k0 r0 Hk Hr]. subst k0 r0.
  assert (Hc : wf_content (headq nd)).
  { inversion Hk as [c kids Hc Hkids|c ls Hc Hls]; subst nd; exact Hc. }
  rewrite renderq_cons, render_nodeq_eq in H. cbn [app number_from] in H.
  rewrite filter_nb_cons in H. rewrite (wf_content_nonblank _ Hc) in H. discriminate.
Qed.

(* the lines of a rendered forest that are dropped as blank can only sit inside regions; the
   loop never sees them twice: filtering before or after the first level is the same *)
Lemma pd_loop_filter : forall rec text tab newc ret free first,
  pd_loop rec (filter nonblank_line text) tab newc ret free first = pd_loop rec text tab newc ret free first.
Proof.
  intros rec text. induction text as [|[c n] text IH]; intros tab newc ret free first; [reflexivity|].
  rewrite filter_nb_cons.
  destruct (is_blank c) eqn:Hb.
  - cbn [pd_loop]. rewrite Hb. apply IH.
  - cbn [pd_loop]. rewrite Hb.
    destruct (startswith triple_quote c && (first || negb (free =? 0)%Z)); [apply IH|].
    destruct (negb (free =? 0)%Z); [apply IH|].
    destruct (has_tab c tab n) as [[| |u']|e]; try reflexivity.
    + destruct newc; [apply IH|]. destruct (rec _ tab); [apply IH|reflexivity].
    + destruct first; [reflexivity|]. destruct tab; [apply IH|reflexivity].
    + destruct first; [reflexivity|]. apply IH.
Qed.

Lemma parse_doc_filter : forall fuel text tab,
  parse_doc fuel (filter nonblank_line text) tab = parse_doc fuel text tab.
Proof. intros [|fuel] text tab; [reflexivity|]. cbn [parse_doc]. apply pd_loop_filter. Qed.

Lemma parse_doc_renderq : forall fuel f n tab,
  wf_forestq_b f -> tab_here u tab -> forest_sizeq f < fuel -> (0 < n)%Z ->
  parse_doc fuel (number_from n (renderq u f)) tab = TOk (expected_forestq_b f n).
Proof.
  induction fuel as [|fuel IH]; intros f n tab Hwf Htab Hsz Hn; [lia|].
  cbn [parse_doc].
  change (@nil preline) with (rev (@nil preline)) at 1.
  rewrite pd_loop_forestq with (bound := fuel) (pitems := []).
  - reflexivity.
  - intros nd m Hnd Hsize Hm Hne.
    inversion Hnd as [c kids Hc Hkids|c ls Hc Hls]; subst nd.
    + cbn [body_lines body_items] in *. rewrite parse_doc_filter.
      apply IH; [exact Hkids|right; reflexivity| |exact Hm].
      cbn [node_sizeq] in Hsize. unfold forest_sizeq. lia.
    + cbn [body_lines body_items] in *.
      destruct fuel as [|fuel']; [cbn [node_sizeq] in Hsize; lia|].
      apply parse_doc_region; assumption.
  - exact Hwf.
  - exact Htab.
  - intro Hne. contradiction.
  - lia.
  - exact Hn.
Qed.
End Unit.

(* ================================================================== the theorems *)
(* lax form: blank lines inside a region are dropped, everything else is as written *)
Theorem parse_render_round_trip_qb : forall u f,
  wf_unit u -> wf_forestq_b f ->
  parse_document (convert_to (renderq u f)) = TOk (expected_forestq_b f 1%Z).
Proof.
  intros u f Hu Hwf. unfold parse_document, convert_to.
  apply parse_doc_renderq.
  - exact Hu.
  - exact Hwf.
  - left. reflexivity.
  - rewrite number_from_length. rewrite renderq_length. lia.
  - lia.
Qed.

Lemma region_line_lax : forall l, region_line l -> region_line_b l.
Proof. intros l [_ H]. right. exact H. Qed.

Lemma wf_nodeq_mono : forall (P Q : str -> Prop), (forall l, P l -> Q l) ->
  forall nd, wf_nodeq P nd -> wf_nodeq Q nd.
Proof.
  intros P Q HPQ.
  apply (nodeq_ind2 (fun nd => wf_nodeq P nd -> wf_nodeq Q nd)).
  - intros c kids IH Hwf. inversion Hwf as [c' kids' Hc Hk|]; subst c' kids'.
    constructor; [exact Hc|].
    rewrite Forall_forall in *. intros k Hin. apply IH; [exact Hin|apply Hk; exact Hin].
  - intros c ls Hwf. inversion Hwf as [|c' ls' Hc Hl]; subst c' ls'.
    constructor; [exact Hc|]. eapply Forall_impl; [|exact Hl]. exact HPQ.
Qed.

Lemma wf_forestq_lax : forall f, wf_forestq f -> wf_forestq_b f.
Proof.
  intros f H. unfold wf_forestq, wf_forestq_b in *.
  eapply Forall_impl; [|exact H]. apply wf_nodeq_mono. exact region_line_lax.
Qed.

(* without blank lines in the regions the two expectations agree *)
Lemma expected_strict : forall f, wf_forestq f -> forall n, expected_forestq_b f n = expected_forestq f n.
Proof.
  assert (Hn : forall nd, wf_nodeq region_line nd -> forall n, expected_nodeq_b nd n = expected_nodeq nd n).
  { apply (nodeq_ind2 (fun nd => wf_nodeq region_line nd -> forall n, expected_nodeq_b nd n = expected_nodeq nd n)).
    - intros c kids IH Hwf n. inversion Hwf as [c' kids' Hc Hk|]; subst c' kids'.
      assert (Hgo : forall m, expected_forestq_b kids m = expected_forestq kids m).
      { clear n Hwf. induction IH as [|k r Hk0 Hr IHr]; intro m; [reflexivity|].
        inversion Hk as [|k' r' Hk1 Hr1]. subst k' r'.
        cbn [expected_forestq_b expected_forestq]. rewrite (Hk0 Hk1). f_equal. apply IHr. exact Hr1. }
      destruct kids as [|k0 r0]; [reflexivity|].
      change (expected_nodeq_b (StmtQ c (k0 :: r0)) n) with (Ln c n :: [Blk (expected_forestq_b (k0 :: r0) (n + 1)%Z)]).
      change (expected_nodeq (StmtQ c (k0 :: r0)) n) with (Ln c n :: [Blk (expected_forestq (k0 :: r0) (n + 1)%Z)]).
      rewrite Hgo. reflexivity.
    - intros c ls Hwf n. inversion Hwf as [|c' ls' Hc Hl]; subst c' ls'.
      cbn [expected_nodeq_b expected_nodeq]. rewrite nonblank_number_from; [reflexivity|].
      intros l Hin. rewrite Forall_forall in Hl. exact (proj1 (Hl l Hin)). }
  induction f as [|nd f IH]; intros Hwf n; [reflexivity|].
  inversion Hwf as [|k r Hk Hr]. subst k r.
  cbn [expected_forestq_b expected_forestq]. rewrite (Hn nd Hk). f_equal. apply IH. exact Hr.
Qed.

(* THE round trip: every unit, every forest with quoted regions *)
Theorem parse_render_round_trip_q : forall u f,
  wf_unit u -> wf_forestq f ->
  parse_document (convert_to (renderq u f)) = TOk (expected_forestq f 1%Z).
Proof.
  intros u f Hu Hwf.
  rewrite (parse_render_round_trip_qb u f Hu (wf_forestq_lax f Hwf)).
  rewrite (expected_strict f Hwf). reflexivity.
Qed.

(* the limitation, precisely: a blank line inside a region is not kept -- the block holds the
   non-blank lines only, each with its original number *)
Theorem quoted_blank_dropped : forall u c ls,
  wf_unit u -> wf_content c -> Forall region_line_b ls ->
  parse_document (convert_to (renderq u [QuotedQ c ls])) =
  TOk [Ln c 1%Z; Blk (lines_block (filter nonblank_line (number_from 3%Z ls)))].
Proof.
  intros u c ls Hu Hc Hl.
  rewrite (parse_render_round_trip_qb u [QuotedQ c ls] Hu).
  - reflexivity.
  - constructor; [|constructor]. constructor; assumption.
Qed.

(* ... and at the level of one step of the loop: whatever the mode (inside or outside a
   quotation), a blank line leaves no trace *)
Lemma blank_line_skipped : forall rec l m rest tab newc ret free first,
  is_blank l = true ->
  pd_loop rec ((l, m) :: rest) tab newc ret free first = pd_loop rec rest tab newc ret free first.
Proof. intros rec l m rest tab newc ret free first H. cbn [pd_loop]. rewrite H. reflexivity. Qed.

(* ================================================================== regions keep relative indentation *)
(* a region line is in the tree exactly as written below the delimiters: in particular its own
   leading white space (relative to the delimiter) is kept *)
Corollary region_keeps_indentation : forall u c (pre l : str) before after,
  wf_unit u -> wf_content c ->
  Forall region_line (before ++ (pre ++ l) :: after) ->
  parse_document (convert_to (renderq u [QuotedQ c (before ++ (pre ++ l) :: after)])) =
  TOk [Ln c 1%Z;
       Blk (lines_block (number_from 3%Z before) ++
            Ln (pre ++ l) (3 + Z.of_nat (length before))%Z ::
            lines_block (number_from (3 + Z.of_nat (length before) + 1)%Z after))].
Proof.
  intros u c pre l before after Hu Hc Hl.
  rewrite (parse_render_round_trip_q u [QuotedQ c _] Hu).
  - cbn [expected_forestq expected_nodeq app]. rewrite number_from_app. cbn [number_from].
    unfold lines_block. rewrite map_app. reflexivity.
  - constructor; [|constructor]. constructor; assumption.
Qed.

(* forests without regions: the embedding agrees with Spec/BlockTree.v *)
Lemma renderq_embed : forall u f, renderq u (map embed f) = render u f.
Proof.
  intro u.
  assert (Hn : forall nd, render_nodeq u (embed nd) = render_node u nd).
  { apply node_ind2. intros c kids IH. cbn [embed render_nodeq render_node]. f_equal. f_equal.
    induction IH as [|k r Hk Hr IHr]; [reflexivity|].
    cbn [map flat_map]. rewrite Hk, IHr. reflexivity. }
  induction f as [|nd f IH]; [reflexivity|].
  cbn [map]. rewrite renderq_cons. rewrite Hn, IH. reflexivity.
Qed.

(* the side condition on region lines is needed: a line that begins with the delimiter closes
   the region early -- the rest is parsed as ordinary lines and the real closing delimiter
   becomes a statement.   A / <tab>QQQ / <tab>QQQx / <tab>b / <tab>QQQ   (QQQ: the delimiter) *)
Lemma region_line_needed :
  let tq := triple_quote in
  parse_document (convert_to (renderq [tb] [QuotedQ [65%N] [tq ++ [120%N]; [98%N]]])) =
  TOk [Ln [65%N] 1%Z; Blk [Ln [98%N] 4%Z; Ln tq 5%Z]].
Proof. vm_compute. reflexivity. Qed.
