(* Consequences of the reference semantics (Spec/CoreLang.v) for scoping, proved on the
   specification alone: a statement never removes a variable; a block statement (IF chain,
   REPEAT, WHILE) leaves exactly the variables that existed before it, in the same order. *)
From Coq Require Import NArith ZArith List Bool Lia.
From DS Require Import Base PyStr Values Expr TabParse Tables Constants Interp ScopeProofs.
From DS Require Import CoreLang CoreRefine.
Import ListNotations.

Section Scope.
Variable fo : FloatOps.
Variable sys : store fo.

Definition names (vs : store fo) : list str := map fst vs.

(* vs' has the variables of vs, in the same order, then possibly new ones *)
Definition extends (vs vs' : store fo) : Prop := exists extra, names vs' = names vs ++ extra.

Lemma extends_refl : forall vs, extends vs vs.
Proof. intro vs. exists []. rewrite app_nil_r. reflexivity. Qed.

Lemma extends_trans : forall a b c, extends a b -> extends b c -> extends a c.
Proof. intros a b c [x Hx] [y Hy]. exists (x ++ y). rewrite Hy, Hx, app_assoc. reflexivity. Qed.

Lemma extends_names : forall a b, names a = names b -> extends a b.
Proof. intros a b H. exists []. rewrite app_nil_r. symmetry. exact H. Qed.

Lemma extends_set_var : forall x v vs, extends vs (set_var fo x v vs).
Proof.
  intros x v vs. unfold extends, names. rewrite set_var_upd, keys_upd.
  destruct (has_key x vs); [exists []; rewrite app_nil_r; reflexivity|exists [x]; reflexivity].
Qed.

Lemma extends_with_counter : forall c k vs, extends vs (with_counter fo c k vs).
Proof. intros [x|] k vs; [apply extends_set_var|apply extends_refl]. Qed.

Lemma names_copy_back : forall vs vs1, extends vs vs1 -> names (copy_back fo vs vs1) = names vs.
Proof.
  intros vs vs1 [extra H]. unfold names in *. rewrite copy_back_restrict.
  apply keys_restrict_from_all. intros k Hk. apply has_key_In. rewrite H. apply in_or_app. left.
  apply has_key_In. exact Hk.
Qed.

Definition is_block (s : stmt) : bool :=
  match s with SIf _ _ | SRepeat _ _ _ | SWhile _ _ _ => true | _ => false end.

Theorem scope_all :
  (forall f vs stm sg f' vs' out, exec fo sys f vs stm sg f' vs' out ->
     extends vs vs' /\ (is_block stm = true -> names vs' = names vs)) /\
  (forall f vs p sg f' vs' out, exec_list fo sys f vs p sg f' vs' out -> extends vs vs') /\
  (forall b vs arms els sg taken vs' out, exec_arms fo sys b vs arms els sg taken vs' out -> names vs' = names vs) /\
  (forall f c e body k vs vs' out, exec_repeat fo sys f c e body k vs vs' out -> names vs' = names vs) /\
  (forall c e body k vs vs' out, exec_while fo sys c e body k vs vs' out -> names vs' = names vs).
Proof.
  apply (exec_all_mind fo sys
           (fun f vs stm sg f' vs' out => extends vs vs' /\ (is_block stm = true -> names vs' = names vs))
           (fun f vs p sg f' vs' out => extends vs vs')
           (fun b vs arms els sg taken vs' out => names vs' = names vs)
           (fun f c e body k vs vs' out => names vs' = names vs)
           (fun c e body k vs vs' out => names vs' = names vs)).
  - intros. split; [apply extends_refl|discriminate].
  - intros. split; [apply extends_refl|discriminate].
  - intros. split; [apply extends_set_var|discriminate].
  - intros f vs arms els sg taken vs' out _ IH. split; [apply extends_names; symmetry; exact IH|intros _; exact IH].
  - intros f vs c e body vs' out _ IH. split; [apply extends_names; symmetry; exact IH|intros _; exact IH].
  - intros f vs c e body vs' out _ IH. split; [apply extends_names; symmetry; exact IH|intros _; exact IH].
  - intros. split; [apply extends_refl|discriminate].
  - intros. split; [apply extends_refl|discriminate].
  - intros. apply extends_refl.
  - intros f vs s r f1 vs1 o1 sg f2 vs2 o2 _ [IH1 _] _ IH2. exact (extends_trans _ _ _ IH1 IH2).
  - intros f vs s r sg f1 vs1 o1 _ [IH1 _] _. exact IH1.
  - intros b vs c body rest els v sg f1 vs1 out _ _ _ IHb _. apply names_copy_back. exact IHb.
  - intros b vs c body rest els v sg taken vs' out _ _ _ IH. exact IH.
  - intros b vs body sg f1 vs1 out _ IHb. apply names_copy_back. exact IHb.
  - intros. reflexivity.
  - intros. reflexivity.
  - intros f c e body k vs v n sg f1 vs1 o1 vs' o2 _ _ _ _ _ IHb _ _ IHr.
    rewrite IHr. apply names_copy_back. exact (extends_trans _ _ _ (extends_with_counter c k vs) IHb).
  - intros f c e body k vs v n f1 vs1 o1 _ _ _ _ _ IHb.
    apply names_copy_back. exact (extends_trans _ _ _ (extends_with_counter c k vs) IHb).
  - intros c e body k vs v _ _ _. apply names_copy_back. apply extends_with_counter.
  - intros c e body k vs v sg f1 vs1 o1 vs' o2 _ _ _ _ IHb _ _ IHw.
    rewrite IHw. apply names_copy_back. exact (extends_trans _ _ _ (extends_with_counter c k vs) IHb).
  - intros c e body k vs v f1 vs1 o1 _ _ _ _ IHb.
    apply names_copy_back. exact (extends_trans _ _ _ (extends_with_counter c k vs) IHb).
Qed.

(* a block statement is a scope: the same variables, in the same order, before and after *)
Theorem block_statement_is_scope : forall f vs stm sg f' vs' out,
  exec fo sys f vs stm sg f' vs' out -> is_block stm = true -> names vs' = names vs.
Proof. intros f vs stm sg f' vs' out H Hb. destruct scope_all as (H1 & _). exact (proj2 (H1 _ _ _ _ _ _ _ H) Hb). Qed.

(* no statement list removes or reorders a variable *)
Theorem statements_only_add : forall f vs p sg f' vs' out,
  exec_list fo sys f vs p sg f' vs' out -> extends vs vs'.
Proof. intros f vs p sg f' vs' out H. destruct scope_all as (_ & H2 & _). exact (H2 _ _ _ _ _ _ _ H). Qed.

(* the values on leaving a block *)
Theorem copy_back_values : forall (outer inner : store fo) x,
  lookup x (copy_back fo outer inner) = if has_key x outer then lookup x inner else None.
Proof. intros outer inner x. rewrite copy_back_restrict. apply lookup_restrict_from. Qed.

End Scope.

