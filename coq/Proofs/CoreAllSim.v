(* RELOCATION (and print erasure) on the unified reference semantics Spec/CoreAll.v, proved on the
   specification alone.

   A derivation for statements standing at (pile, file cf, line n) with function table F gives a
   derivation for the SAME statements (er = false) or for the statements WITHOUT THEIR PRINTS
   (er = true) standing anywhere else (pile2, cf2, n2), with a table F2 that has the same functions
   (bodies transformed likewise) possibly defined elsewhere -- provided the files live there are
   live here (so that every import allowed here is allowed there).  Same signal, flag, store,
   output; the events are the same UP TO LOCATIONS (minus the prints if er); the final tables are
   again related.  One mutual induction serves C12e (START as paste) and C18e (print erasure). *)
From Coq Require Import NArith ZArith List Bool Lia.
From DS Require Import Base PyStr Values Expr TabParse CoreLang CoreFunc CoreText CoreAll CoreAllErase.
Import ListNotations.

(* ================================================================== events *)
Lemma view_app : forall er a b, view er (a ++ b) = view er a ++ view er b.
Proof. intros [] a b; cbn; [apply filter_app|reflexivity]. Qed.

Lemma sim_ev_nil : forall er, sim_ev er [] [].
Proof. intros []; reflexivity. Qed.

Lemma sim_ev_app : forall er a a' b b', sim_ev er a a' -> sim_ev er b b' -> sim_ev er (a ++ b) (a' ++ b').
Proof. intros er a a' b b' H1 H2. unfold sim_ev in *. rewrite view_app, !map_app, H1, H2. reflexivity. Qed.

Lemma sim_ev_stray : forall er sg, sim_ev er (stray sg) (stray sg).
Proof. intros [] []; reflexivity. Qed.

Lemma sim_ev_if : forall er (b : bool) a a', sim_ev er a a' -> sim_ev er (if b then [] else a) (if b then [] else a').
Proof. intros er [] a a' H; [apply sim_ev_nil|exact H]. Qed.

Lemma sim_ev_unknown : forall er p f t n p' f' n',
  sim_ev er [EvWarn (WUnknown p f t n)] [EvWarn (WUnknown p' f' t n')].
Proof. intros []; reflexivity. Qed.

(* ================================================================== the transformation *)
Lemma trl_cons : forall er s r, trl er (s :: r) = tr er s ++ trl er r.
Proof. reflexivity. Qed.

Lemma tr_if : forall er arms els, tr er (UIf arms els) = [UIf (tr_arms er arms) (tr_els er els)].
Proof. reflexivity. Qed.

Lemma tr_arms_cons : forall er c b r, tr_arms er ((c, b) :: r) = (c, trl er b) :: tr_arms er r.
Proof. reflexivity. Qed.

Lemma tr_arms_conds : forall er (P : str -> Prop) arms,
  Forall (fun cb : str * list ustmt => P (fst cb)) arms -> Forall (fun cb : str * list ustmt => P (fst cb)) (tr_arms er arms).
Proof.
  intros er P arms H. induction H as [|[c b] r Hc Hr IH]; [constructor|].
  rewrite tr_arms_cons. constructor; [exact Hc|exact IH].
Qed.

(* ================================================================== tables *)
Section Sim.
Variable fo : FloatOps.
Variable sys : store fo.
Variable inc sup : bool.
Variable er : bool.              (* erase the prints? *)
Variable ks : list str.          (* files that stay live during the whole first run *)
Variable prog prog2 : program.
Hypothesis Hprog2 : forall m stmts, lookup m prog = Some stmts -> lookup m prog2 = Some (trl er stmts).

Notation exec := (CoreAll.exec fo sys prog inc sup).
Notation exec_list := (CoreAll.exec_list fo sys prog inc sup).
Notation exec_arms := (CoreAll.exec_arms fo sys prog inc sup).
Notation exec_repeat := (CoreAll.exec_repeat fo sys prog inc sup).
Notation exec_while := (CoreAll.exec_while fo sys prog inc sup).
Notation exec2 := (CoreAll.exec fo sys prog2 inc sup).
Notation exec_list2 := (CoreAll.exec_list fo sys prog2 inc sup).
Notation exec_arms2 := (CoreAll.exec_arms fo sys prog2 inc sup).
Notation exec_repeat2 := (CoreAll.exec_repeat fo sys prog2 inc sup).
Notation exec_while2 := (CoreAll.exec_while fo sys prog2 inc sup).

(* related definitions: same parameters, body transformed, defined in the same file or in one of ks *)
Definition rel_def (d1 d2 : udef) : Prop :=
  d_params d2 = d_params d1 /\ d_body d2 = trl er (d_body d1) /\ (d_file d2 = d_file d1 \/ In (d_file d2) ks).
Definition tsim (F1 F2 : utable) : Prop :=
  Forall2 (fun a b : str * udef => fst b = fst a /\ rel_def (snd a) (snd b)) F1 F2.

Lemma tsim_lookup : forall F1 F2 x d1, tsim F1 F2 -> lookup x F1 = Some d1 ->
  exists d2, lookup x F2 = Some d2 /\ rel_def d1 d2.
Proof.
  intros F1 F2 x d1 H. induction H as [|[y1 w1] [y2 w2] r1 r2 [Hk Hr] Hrest IH]; intro Hl; [discriminate|].
  cbn [fst snd] in Hk, Hr. subst y2. cbn [lookup] in Hl |- *. destruct (str_eqb x y1).
  - injection Hl as <-. exists w2. split; [reflexivity|exact Hr].
  - exact (IH Hl).
Qed.

Lemma tsim_set : forall F1 F2 x d1 d2, tsim F1 F2 -> rel_def d1 d2 -> tsim (set_def x d1 F1) (set_def x d2 F2).
Proof.
  intros F1 F2 x d1 d2 H Hd. induction H as [|[y1 w1] [y2 w2] r1 r2 [Hk Hr] Hrest IH].
  - constructor; [split; [reflexivity|exact Hd]|constructor].
  - cbn [fst snd] in Hk, Hr. subst y2. cbn [set_def]. destruct (str_eqb x y1).
    + constructor; [split; [reflexivity|exact Hd]|exact Hrest].
    + constructor; [split; [reflexivity|exact Hr]|exact IH].
Qed.

Lemma tsim_overlay : forall A B, tsim A B -> forall C D, tsim C D -> tsim (overlay_defs A C) (overlay_defs B D).
Proof.
  intros A B H. induction H as [|[y1 w1] [y2 w2] r1 r2 [Hk Hr] Hrest IH]; intros C D HCD; [exact HCD|].
  cbn [fst snd] in Hk, Hr. subst y2. unfold overlay_defs in *. cbn [fold_left fst snd].
  apply IH. apply tsim_set; assumption.
Qed.

(* ================================================================== places *)
Definition Loc (pile1 : list sframe) (cf1 : str) (pile2 : list sframe) (cf2 : str) : Prop :=
  incl ks (live_files pile1 cf1) /\ incl (live_files pile2 cf2) (live_files pile1 cf1) /\ (cf2 = cf1 \/ In cf2 ks).

Lemma live_push : forall pile fr g x, In x (live_files (pile ++ [fr]) g) <-> x = g \/ x = sf_file fr \/ In x (map sf_file pile).
Proof.
  intros pile fr g x. unfold live_files. rewrite map_app. cbn [map In]. rewrite in_app_iff. cbn [In].
  split; intro H.
  - destruct H as [H|[H|[H|[]]]]; [left; symmetry; exact H|right; right; exact H|right; left; symmetry; exact H].
  - destruct H as [H|[H|H]]; [left; symmetry; exact H|right; right; left; symmetry; exact H|right; left; exact H].
Qed.

Lemma Loc_push : forall pile1 cf1 pile2 cf2 t1 n1 b1 t2 n2 b2 g1 g2,
  Loc pile1 cf1 pile2 cf2 -> (g2 = g1 \/ In g2 ks) ->
  Loc (pile1 ++ [mkSF cf1 t1 n1 b1]) g1 (pile2 ++ [mkSF cf2 t2 n2 b2]) g2.
Proof.
  intros pile1 cf1 pile2 cf2 t1 n1 b1 t2 n2 b2 g1 g2 (Hk & Hl & Hc) Hg.
  assert (Hup : forall x, In x (live_files pile1 cf1) -> In x (live_files (pile1 ++ [mkSF cf1 t1 n1 b1]) g1)).
  { intros x Hx. apply live_push. cbn [sf_file]. unfold live_files in Hx. cbn [In] in Hx.
    destruct Hx as [Hx|Hx]; [right; left; symmetry; exact Hx|right; right; exact Hx]. }
  split; [|split].
  - intros x Hx. apply Hup. exact (Hk x Hx).
  - intros x Hx. apply live_push in Hx. cbn [sf_file] in Hx. destruct Hx as [Hx|[Hx|Hx]].
    + subst x. destruct Hg as [->|Hg]; [apply live_push; left; reflexivity|apply Hup; exact (Hk _ Hg)].
    + subst x. apply Hup. apply Hl. left. reflexivity.
    + apply Hup. apply Hl. right. exact Hx.
  - exact Hg.
Qed.

Lemma Loc_block : forall pile1 cf1 pile2 cf2 t1 n1 b1 t2 n2 b2,
  Loc pile1 cf1 pile2 cf2 -> Loc (pile1 ++ [mkSF cf1 t1 n1 b1]) cf1 (pile2 ++ [mkSF cf2 t2 n2 b2]) cf2.
Proof. intros pile1 cf1 pile2 cf2 t1 n1 b1 t2 n2 b2 H. apply Loc_push; [exact H|]. destruct H as (_ & _ & H). exact H. Qed.

Lemma Loc_not_live : forall pile1 cf1 pile2 cf2 x, Loc pile1 cf1 pile2 cf2 ->
  ~ In x (live_files pile1 cf1) -> ~ In x (live_files pile2 cf2).
Proof. intros pile1 cf1 pile2 cf2 x (_ & Hl & _) Hn Hx. exact (Hn (Hl x Hx)). Qed.

(* ================================================================== lists of statements *)
Lemma single : forall d pile cf n F f vs s sg F' f' vs' out ev,
  exec2 d pile cf n F f vs s sg F' f' vs' out ev -> exec_list2 d pile cf n F f vs [s] sg F' f' vs' out ev.
Proof.
  intros d pile cf n F f vs s sg F' f' vs' out ev H.
  assert (Hsg : sg = Normal \/ sg <> Normal) by (destruct sg; first [left; reflexivity|right; discriminate]).
  destruct Hsg as [->|Hsg].
  - rewrite <- (app_nil_r out), <- (app_nil_r ev). eapply L_Cons; [exact H|apply L_Nil].
  - apply L_Stop; assumption.
Qed.

Lemma exec_list_app : forall a b d pile cf n F f vs F1 f1 vs1 o1 e1 sg F2 f2 vs2 o2 e2,
  exec_list2 d pile cf n F f vs a Normal F1 f1 vs1 o1 e1 ->
  exec_list2 d pile cf (n + sum_sizes usize a) F1 f1 vs1 b sg F2 f2 vs2 o2 e2 ->
  exec_list2 d pile cf n F f vs (a ++ b) sg F2 f2 vs2 (o1 ++ o2) (e1 ++ e2).
Proof.
  induction a as [|s r IH]; intros b d pile cf n F f vs F1 f1 vs1 o1 e1 sg F2 f2 vs2 o2 e2 Ha Hb.
  - inversion Ha; subst. cbn [sum_sizes] in Hb. rewrite Z.add_0_r in Hb. exact Hb.
  - inversion Ha as [|? ? ? ? ? ? ? ? ? Fm fm vsm om em ? ? ? ? or er' Hs Hr|? ? ? ? ? ? ? ? ? ? ? ? ? ? ? Hs Hne]; subst.
    + cbn [app]. rewrite <- !app_assoc. eapply L_Cons; [exact Hs|].
      eapply IH; [exact Hr|]. cbn [sum_sizes] in Hb. rewrite Z.add_assoc in Hb. exact Hb.
    + exfalso. apply Hne. reflexivity.
Qed.

Lemma exec_list_app_stop : forall a b d pile cf n F f vs sg F1 f1 vs1 o1 e1,
  exec_list2 d pile cf n F f vs a sg F1 f1 vs1 o1 e1 -> sg <> Normal ->
  exec_list2 d pile cf n F f vs (a ++ b) sg F1 f1 vs1 o1 e1.
Proof.
  induction a as [|s r IH]; intros b d pile cf n F f vs sg F1 f1 vs1 o1 e1 Ha Hne.
  - inversion Ha; subst. exfalso. apply Hne. reflexivity.
  - inversion Ha as [|? ? ? ? ? ? ? ? ? Fm fm vsm om em ? ? ? ? or er' Hs Hr|? ? ? ? ? ? ? ? ? ? ? ? ? ? ? Hs Hne']; subst.
    + cbn [app]. eapply L_Cons; [exact Hs|]. apply IH; assumption.
    + cbn [app]. apply L_Stop; assumption.
Qed.

(* ================================================================== the simulation *)
Definition S_exec d pile cf (n : Z) F f vs s sg F' f' vs' out ev : Prop :=
  forall pile2 cf2 n2 F2, Loc pile cf pile2 cf2 -> tsim F F2 ->
  exists F2' ev2, exec_list2 d pile2 cf2 n2 F2 f vs (tr er s) sg F2' f' vs' out ev2 /\ tsim F' F2' /\ sim_ev er ev ev2.
Definition S_list d pile cf (n : Z) F f vs p sg F' f' vs' out ev : Prop :=
  forall pile2 cf2 n2 F2, Loc pile cf pile2 cf2 -> tsim F F2 ->
  exists F2' ev2, exec_list2 d pile2 cf2 n2 F2 f vs (trl er p) sg F2' f' vs' out ev2 /\ tsim F' F2' /\ sim_ev er ev ev2.
Definition S_arms d pile cf (first : bool) (n : Z) F b vs arms els sg taken vs' out ev : Prop :=
  forall pile2 cf2 first2 n2 F2, Loc pile cf pile2 cf2 -> tsim F F2 ->
  exists ev2, exec_arms2 d pile2 cf2 first2 n2 F2 b vs (tr_arms er arms) (tr_els er els) sg taken vs' out ev2 /\ sim_ev er ev ev2.
Definition S_repeat d pile cf (n : Z) F f c e body k vs sg vs' out ev : Prop :=
  forall pile2 cf2 n2 F2, Loc pile cf pile2 cf2 -> tsim F F2 ->
  exists ev2, exec_repeat2 d pile2 cf2 n2 F2 f c e (trl er body) k vs sg vs' out ev2 /\ sim_ev er ev ev2.
Definition S_while d pile cf (n : Z) F c e body k vs sg vs' out ev : Prop :=
  forall pile2 cf2 n2 F2, Loc pile cf pile2 cf2 -> tsim F F2 ->
  exists ev2, exec_while2 d pile2 cf2 n2 F2 c e (trl er body) k vs sg vs' out ev2 /\ sim_ev er ev ev2.

Ltac leaf C :=
  intros;
  match goal with
  | HT : tsim _ ?F2 |- _ =>
      exists F2; eexists; split; [apply single; eapply C; eassumption|split; [exact HT|apply sim_ev_nil]]
  end.

Theorem sim_all :
  (forall d pile cf n F f vs s sg F' f' vs' out ev,
     exec d pile cf n F f vs s sg F' f' vs' out ev -> S_exec d pile cf n F f vs s sg F' f' vs' out ev) /\
  (forall d pile cf n F f vs p sg F' f' vs' out ev,
     exec_list d pile cf n F f vs p sg F' f' vs' out ev -> S_list d pile cf n F f vs p sg F' f' vs' out ev) /\
  (forall d pile cf first n F b vs arms els sg taken vs' out ev,
     exec_arms d pile cf first n F b vs arms els sg taken vs' out ev ->
     S_arms d pile cf first n F b vs arms els sg taken vs' out ev) /\
  (forall d pile cf n F f c e body k vs sg vs' out ev,
     exec_repeat d pile cf n F f c e body k vs sg vs' out ev ->
     S_repeat d pile cf n F f c e body k vs sg vs' out ev) /\
  (forall d pile cf n F c e body k vs sg vs' out ev,
     exec_while d pile cf n F c e body k vs sg vs' out ev ->
     S_while d pile cf n F c e body k vs sg vs' out ev).
Proof.
  apply (CoreAll.exec_all_mind fo sys prog inc sup S_exec S_list S_arms S_repeat S_while);
    unfold S_exec, S_list, S_arms, S_repeat, S_while.
  - (* E_Emit *) leaf CoreAll.E_Emit.
  - (* E_EmitEval *) leaf CoreAll.E_EmitEval.
  - (* E_Var *) leaf CoreAll.E_Var.
  - (* E_If *)
    intros d pile cf n F f vs arms els sg taken vs' out ev _ IH pile2 cf2 n2 F2 HL HT.
    destruct (IH pile2 cf2 true n2 F2 HL HT) as (ev2 & H2 & Hev).
    exists F2, ev2. split; [|split; [exact HT|exact Hev]].
    rewrite tr_if. apply single. apply E_If. exact H2.
  - (* E_Repeat *)
    intros d pile cf n F f vs c e body sg vs' out ev _ IH pile2 cf2 n2 F2 HL HT.
    destruct (IH pile2 cf2 n2 F2 HL HT) as (ev2 & H2 & Hev).
    exists F2, ev2. split; [|split; [exact HT|exact Hev]].
    apply single. apply E_Repeat. exact H2.
  - (* E_While *)
    intros d pile cf n F f vs c e body sg vs' out ev _ IH pile2 cf2 n2 F2 HL HT.
    destruct (IH pile2 cf2 n2 F2 HL HT) as (ev2 & H2 & Hev).
    exists F2, ev2. split; [|split; [exact HT|exact Hev]].
    apply single. apply E_While. exact H2.
  - (* E_Break *) leaf CoreAll.E_Break.
  - (* E_Continue *) leaf CoreAll.E_Continue.
  - (* E_Return *) leaf CoreAll.E_Return.
  - (* E_Func *)
    intros d pile cf n F f vs name ps body pile2 cf2 n2 F2 HL HT.
    exists (set_def name (mkDef ps (trl er body) cf2 n2) F2), [].
    split; [apply single; apply E_Func|split; [|apply sim_ev_nil]].
    apply tsim_set; [exact HT|]. split; [reflexivity|]. split; [reflexivity|].
    destruct HL as (_ & _ & HL). exact HL.
  - (* E_Run *)
    intros d pile cf n F f vs name args vals df sg F1 f1 vs1 out ev Hargs Hlk Hlen _ IH Hsg pile2 cf2 n2 F2 HL HT.
    destruct (tsim_lookup F F2 name df HT Hlk) as (df2 & Hlk2 & Hp & Hb & Hf).
    destruct (IH (pile2 ++ [mkSF cf2 (run_head name args) n2 true]) (d_file df2) (d_line df2 + 1)%Z F2
                 (Loc_push _ _ _ _ _ _ _ _ _ _ _ _ HL Hf) HT) as (F2' & ev2 & H2 & _ & Hev).
    exists F2, ev2. split; [|split; [exact HT|exact Hev]].
    apply single. eapply E_Run; [exact Hargs|exact Hlk2|rewrite Hp; exact Hlen| |exact Hsg].
    rewrite Hp, Hb. exact H2.
  - (* E_Print *)
    intros d pile cf n F f vs text pile2 cf2 n2 F2 HL HT. cbn [tr].
    exists F2. unfold sim_ev, view. destruct er.
    + exists []. split; [apply L_Nil|split; [exact HT|reflexivity]].
    + exists [EvPrint text n2 cf2]. split; [apply single; apply E_Print|split; [exact HT|reflexivity]].
  - (* E_PrintEval *)
    intros d pile cf n F f vs e v t He Ht pile2 cf2 n2 F2 HL HT. cbn [tr].
    exists F2. unfold sim_ev, view. destruct er.
    + exists []. split; [apply L_Nil|split; [exact HT|reflexivity]].
    + exists [EvPrint t n2 cf2]. split; [apply single; eapply E_PrintEval; eassumption|split; [exact HT|reflexivity]].
  - (* E_Rem *) leaf CoreAll.E_Rem.
  - (* E_Unknown *)
    intros d pile cf n F f vs w args pile2 cf2 n2 F2 HL HT. exists F2. eexists.
    split; [apply single; apply E_Unknown|split; [exact HT|]].
    apply sim_ev_if. apply sim_ev_unknown.
  - (* E_Start *)
    intros d pile cf n F f vs k name stmts sg F1 f1 vs1 out ev Hlk Hnot _ IH pile2 cf2 n2 F2 HL HT.
    destruct (IH (pile2 ++ [mkSF cf2 (start_head k name) n2 true]) name 1%Z F2
                 (Loc_push _ _ _ _ _ _ _ _ _ _ _ _ HL (or_introl eq_refl)) HT) as (F2' & ev2 & H2 & HT' & Hev).
    exists (match k with KCode => F2 | _ => overlay_defs F2' F2 end), (ev2 ++ stray sg).
    split; [|split].
    + apply single. eapply E_Start; [exact (Hprog2 name stmts Hlk)|exact (Loc_not_live _ _ _ _ _ HL Hnot)|exact H2].
    + destruct k; [apply tsim_overlay; assumption|exact HT|apply tsim_overlay; assumption].
    + apply sim_ev_app; [exact Hev|apply sim_ev_stray].
  - (* L_Nil *)
    intros d pile cf n F f vs pile2 cf2 n2 F2 HL HT. exists F2, []. split; [apply L_Nil|split; [exact HT|apply sim_ev_nil]].
  - (* L_Cons *)
    intros d pile cf n F f vs s r F1 f1 vs1 o1 e1 sg F2' f2 vs2 o2 e2 _ IH1 _ IH2 pile2 cf2 n2 F2 HL HT.
    destruct (IH1 pile2 cf2 n2 F2 HL HT) as (Fa & eva & Ha & HTa & Heva).
    destruct (IH2 pile2 cf2 (n2 + sum_sizes usize (tr er s))%Z Fa HL HTa) as (Fb & evb & Hb & HTb & Hevb).
    exists Fb, (eva ++ evb). split; [|split; [exact HTb|apply sim_ev_app; assumption]].
    rewrite trl_cons. eapply exec_list_app; eassumption.
  - (* L_Stop *)
    intros d pile cf n F f vs s r sg F1 f1 vs1 o1 e1 _ IH1 Hne pile2 cf2 n2 F2 HL HT.
    destruct (IH1 pile2 cf2 n2 F2 HL HT) as (Fa & eva & Ha & HTa & Heva).
    exists Fa, eva. split; [|split; assumption].
    rewrite trl_cons. apply exec_list_app_stop; assumption.
  - (* A_Take *)
    intros d pile cf first n F b vs c body rest els v sg F1 f1 vs1 out ev Hc Ht _ IH Hrest pile2 cf2 first2 n2 F2 HL HT.
    destruct (IH (pile2 ++ [mkSF cf2 (if_head first2 c) n2 false]) cf2 (n2 + 1)%Z F2 (Loc_block _ _ _ _ _ _ _ _ _ _ HL) HT)
      as (F2' & ev2 & H2 & _ & Hev).
    exists ev2. split; [|exact Hev]. rewrite tr_arms_cons.
    eapply A_Take; [exact Hc|exact Ht|exact H2|].
    intro Hn. exact (tr_arms_conds er (fun c0 : str => exists v', eval fo sys (Some true) (copy_back fo vs vs1) c0 v') rest (Hrest Hn)).
  - (* A_Skip *)
    intros d pile cf first n F b vs c body rest els v sg taken vs' out ev Hc Ht _ IH pile2 cf2 first2 n2 F2 HL HT.
    destruct (IH pile2 cf2 false (n2 + 1 + sum_sizes usize (trl er body))%Z F2 HL HT) as (ev2 & H2 & Hev).
    exists ev2. split; [|exact Hev]. rewrite tr_arms_cons. eapply A_Skip; eassumption.
  - (* A_Else *)
    intros d pile cf first n F b vs body sg F1 f1 vs1 out ev _ IH pile2 cf2 first2 n2 F2 HL HT.
    destruct (IH (pile2 ++ [mkSF cf2 kw_ELSE n2 false]) cf2 (n2 + 1)%Z F2 (Loc_block _ _ _ _ _ _ _ _ _ _ HL) HT)
      as (F2' & ev2 & H2 & _ & Hev).
    exists ev2. split; [|exact Hev]. cbn [tr_arms tr_els map]. eapply A_Else. exact H2.
  - (* A_None *)
    intros d pile cf first n F b vs pile2 cf2 first2 n2 F2 HL HT. exists []. split; [apply A_None|apply sim_ev_nil].
  - (* R_Done *)
    intros d pile cf n F f c e body k vs v m He Hm Hr Hk pile2 cf2 n2 F2 HL HT.
    exists []. split; [eapply R_Done; eassumption|apply sim_ev_nil].
  - (* R_Iter *)
    intros d pile cf n F f c e body k vs v m sg F1 f1 vs1 o1 e1 sg' vs' o2 e2 He Hm Hr Hk _ IHb Hgo _ IHr pile2 cf2 n2 F2 HL HT.
    destruct (IHb (pile2 ++ [mkSF cf2 (repeat_head c e) n2 false]) cf2 (n2 + 1)%Z F2 (Loc_block _ _ _ _ _ _ _ _ _ _ HL) HT)
      as (F2' & eva & Ha & _ & Heva).
    destruct (IHr pile2 cf2 n2 F2 HL HT) as (evb & Hb & Hevb).
    exists (eva ++ evb). split; [|apply sim_ev_app; assumption].
    eapply R_Iter; eassumption.
  - (* R_Stop *)
    intros d pile cf n F f c e body k vs v m sg F1 f1 vs1 o1 e1 He Hm Hr Hk _ IHb Hst pile2 cf2 n2 F2 HL HT.
    destruct (IHb (pile2 ++ [mkSF cf2 (repeat_head c e) n2 false]) cf2 (n2 + 1)%Z F2 (Loc_block _ _ _ _ _ _ _ _ _ _ HL) HT)
      as (F2' & eva & Ha & _ & Heva).
    exists eva. split; [|exact Heva]. eapply R_Stop; eassumption.
  - (* W_Done *)
    intros d pile cf n F c e body k vs v Hk He Ht pile2 cf2 n2 F2 HL HT.
    exists []. split; [eapply W_Done; eassumption|apply sim_ev_nil].
  - (* W_Iter *)
    intros d pile cf n F c e body k vs v sg F1 f1 vs1 o1 e1 sg' vs' o2 e2 Hk He Ht _ IHb Hgo _ IHw pile2 cf2 n2 F2 HL HT.
    destruct (IHb (pile2 ++ [mkSF cf2 (while_head c e) n2 false]) cf2 (n2 + 1)%Z F2 (Loc_block _ _ _ _ _ _ _ _ _ _ HL) HT)
      as (F2' & eva & Ha & _ & Heva).
    destruct (IHw pile2 cf2 n2 F2 HL HT) as (evb & Hb & Hevb).
    exists (eva ++ evb). split; [|apply sim_ev_app; assumption].
    eapply W_Iter; eassumption.
  - (* W_Stop *)
    intros d pile cf n F c e body k vs v sg F1 f1 vs1 o1 e1 Hk He Ht _ IHb Hst pile2 cf2 n2 F2 HL HT.
    destruct (IHb (pile2 ++ [mkSF cf2 (while_head c e) n2 false]) cf2 (n2 + 1)%Z F2 (Loc_block _ _ _ _ _ _ _ _ _ _ HL) HT)
      as (F2' & eva & Ha & _ & Heva).
    exists eva. split; [|exact Heva]. eapply W_Stop; eassumption.
Qed.

Theorem sim_list : forall d pile cf n F f vs p sg F' f' vs' out ev pile2 cf2 n2 F2,
  exec_list d pile cf n F f vs p sg F' f' vs' out ev -> Loc pile cf pile2 cf2 -> tsim F F2 ->
  exists F2' ev2, exec_list2 d pile2 cf2 n2 F2 f vs (trl er p) sg F2' f' vs' out ev2 /\ tsim F' F2' /\ sim_ev er ev ev2.
Proof.
  intros d pile cf n F f vs p sg F' f' vs' out ev pile2 cf2 n2 F2 H HL HT.
  exact (proj1 (proj2 sim_all) _ _ _ _ _ _ _ _ _ _ _ _ _ _ H pile2 cf2 n2 F2 HL HT).
Qed.

End Sim.
