(* C20: an invariant on the NAMES held by the environment, lifted through every action of the
   interpreter for an arbitrary child runner that keeps the same invariant:
     - the keys of e_sys are a fixed duplicate-free list [ks]  (nothing ever adds or removes a
       system variable: the only write is DEFAULT_DELAY's update of an existing key);
     - every entry of e_user / e_temp / e_funcs satisfies a predicate (Pu / Pt / Pf) that the
       defining constructs establish (VAR, loop counters, FUNC, RUN parameters, the IF flag).
   Instances at the end: the pure frame property of e_sys (trivial predicates) and "every stored
   name is an identifier" (IdentSpec.identb). *)
From Coq Require Import NArith ZArith List Bool Lia.
From DS Require Import Base PyStr Values Expr TabParse Tables Constants Interp ScopeProofs IdentSpec IdentProofs.
Import ListNotations.

(* ------------------------------------------------------------------ association lists *)
Section Assoc2.
Context {A : Type}.
Implicit Types (l src dst self other : list (str * A)) (k : str) (v : A).

Lemma in_upd : forall k v l x, In x (upd k v l) -> x = (k, v) \/ In x l.
Proof.
  intros k v l x. induction l as [|[k' v'] r IH]; cbn [upd]; intro H.
  - destruct H as [H|[]]. left. symmetry. exact H.
  - destruct (str_eqb k k').
    + destruct H as [H|H]; [left; symmetry; exact H|right; right; exact H].
    + destruct H as [H|H]; [right; left; exact H|].
      destruct (IH H) as [H1|H1]; [left; exact H1|right; right; exact H1].
Qed.

Lemma Forall_upd : forall (P : str * A -> Prop) k v l, P (k, v) -> Forall P l -> Forall P (upd k v l).
Proof.
  intros P k v l Hkv Hl. rewrite Forall_forall in *. intros x Hx.
  destruct (in_upd _ _ _ _ Hx) as [->|Hin]; [exact Hkv|apply Hl; exact Hin].
Qed.

Lemma Forall_upd_all : forall (P : str * A -> Prop) src dst,
  Forall P src -> Forall P dst -> Forall P (upd_all src dst).
Proof.
  intros P src. unfold upd_all. induction src as [|[k v] src IH]; intros dst Hs Hd; cbn [fold_left fst snd].
  - exact Hd.
  - inversion Hs as [|x l Hkv Hs']; subst x l. apply IH; [exact Hs'|]. apply Forall_upd; assumption.
Qed.

Lemma lookup_In : forall k v l, lookup k l = Some v -> In (k, v) l.
Proof.
  intros k v l. induction l as [|[k' v'] r IH]; cbn [lookup]; intro H; [discriminate|].
  destruct (str_eqb k k') eqn:E.
  - apply str_eqb_eq in E. subst k'. injection H as ->. left. reflexivity.
  - right. apply IH. exact H.
Qed.

(* copy-back: every entry of the result is an entry of [other] *)
Lemma Forall_restrict_from : forall (P : str * A -> Prop) self other,
  Forall P other -> Forall P (restrict_from self other).
Proof.
  intros P self other Ho. unfold restrict_from. rewrite Forall_forall in *.
  intros x Hx. apply in_flat_map in Hx. destruct Hx as [[k v] [_ Hx]]. cbn [fst] in Hx.
  destruct (lookup k other) as [w|] eqn:E; [|destruct Hx].
  destruct Hx as [<-|[]]. apply Ho. apply lookup_In. exact E.
Qed.

Lemma keys_upd_all_in : forall src dst,
  (forall k, In k (map fst src) -> In k (map fst dst)) -> map fst (upd_all src dst) = map fst dst.
Proof.
  intros src. unfold upd_all. induction src as [|[k v] src IH]; intros dst H; cbn [fold_left fst snd].
  - reflexivity.
  - assert (Hk : has_key k dst = true) by (apply has_key_In; apply H; left; reflexivity).
    assert (Hkeys : map fst (upd k v dst) = map fst dst) by (rewrite keys_upd, Hk; reflexivity).
    rewrite IH; [exact Hkeys|].
    intros k' Hin. rewrite Hkeys. apply H. right. exact Hin.
Qed.

Lemma keys_upd_all_fresh : forall src dst,
  NoDup (map fst dst ++ map fst src) -> map fst (upd_all src dst) = map fst dst ++ map fst src.
Proof.
  intros src. unfold upd_all. induction src as [|[k v] src IH]; intros dst H; cbn [fold_left fst snd map].
  - rewrite app_nil_r. reflexivity.
  - cbn [map fst] in H.
    assert (Hk : has_key k dst = false).
    { apply has_key_false_notin. intro Hin. apply NoDup_remove_2 in H. apply H.
      apply in_or_app. left. exact Hin. }
    assert (Hkeys : map fst (upd k v dst) = map fst dst ++ [k]) by (rewrite keys_upd, Hk; reflexivity).
    rewrite IH; rewrite Hkeys, <- app_assoc; [reflexivity|exact H].
Qed.

Lemma keys_upd_all_nil : forall src, nodup_keys src -> map fst (upd_all src []) = map fst src.
Proof. intros src H. rewrite keys_upd_all_fresh; [reflexivity|exact H]. Qed.

End Assoc2.

(* ------------------------------------------------------------------ the invariant *)
Section Inv.
Variable fo : FloatOps.
Notation value := (value fo).
Notation env := (env fo).
Notation s_env := (s_env fo).
Notation M := (M fo).
Notation bindM := (bindM fo).
Notation ret := (ret fo).
Notation e_sys := (e_sys fo).
Notation e_user := (e_user fo).
Notation e_temp := (e_temp fo).
Notation e_funcs := (e_funcs fo).
Notation mkEnv := (mkEnv fo).

Variable ks : list str.
Hypothesis ks_nodup : NoDup ks.
Variable Pu : str * value -> Prop.
Variable Pt : str * value -> Prop.
Variable Pf : str * func -> Prop.
Hypothesis Pu_var : forall name v, is_var name false = true -> Pu (name, v).
Hypothesis Pt_flag : forall b, Pt (if_success, VBool b).
Hypothesis Pf_func : forall fname fvars code file,
  is_var fname false = true -> forallb (fun v => is_var v false) fvars = true ->
  Pf (fname, mkFunc fvars code file).
Hypothesis Pu_param : forall k f a v, Pf (k, f) -> In a (fn_args f) -> Pu (a, v).

Definition names_inv (e : env) : Prop :=
  map fst (e_sys e) = ks /\ Forall Pu (e_user e) /\ Forall Pt (e_temp e) /\ Forall Pf (e_funcs e).

Definition npres {A} (m : M A) : Prop :=
  forall s s' r, names_inv (s_env s) -> m s = (s', r) -> names_inv (s_env s').

Definition child_ok (child : runner fo) : Prop :=
  forall cx g e code g' cr e', names_inv e -> child cx g e code = (g', IOk _ (cr, e')) -> names_inv e'.

Definition setup_ok (setup : env -> res env) : Prop :=
  forall e e', names_inv e -> setup e = Ok e' -> names_inv e'.

Lemma npres_ret : forall A (a : A), npres (ret a).
Proof. intros A a s s' r H E. injection E as <- _. exact H. Qed.

Lemma npres_raise : forall cx cur A e, npres (@raise fo cx cur A e).
Proof. intros cx cur A e s s' r H E. injection E as <- _. exact H. Qed.

Lemma npres_crash : forall A k, npres (@crash fo A k).
Proof. intros A k s s' r H E. injection E as <- _. exact H. Qed.

Lemma npres_unmod : forall A, npres (@unmod fo A).
Proof. intros A s s' r H E. injection E as <- _. exact H. Qed.

Lemma npres_lift : forall cx cur A (x : res A), npres (lift fo cx cur x).
Proof. intros cx cur A x s s' r H E. apply lift_state in E. subst. exact H. Qed.

Lemma npres_bind : forall A B (m : M A) (f : A -> M B),
  npres m -> (forall a, npres (f a)) -> npres (bindM m f).
Proof.
  intros A B m f Hm Hf s s' r H E. unfold Interp.bindM in E.
  destruct (m s) as [s1 [a| | |]] eqn:Em; pose proof (Hm _ _ _ H Em) as H1.
  - eapply Hf; eassumption.
  - injection E as <- _. exact H1.
  - injection E as <- _. exact H1.
  - injection E as <- _. exact H1.
Qed.

Lemma npres_bind_get : forall B (f : env -> M B),
  (forall e, names_inv e -> npres (f e)) -> npres (bindM (get_env fo) f).
Proof. intros B f Hf s s' r H E. unfold Interp.bindM, get_env in E. eapply Hf; eassumption. Qed.

Lemma npres_set_env : forall e, names_inv e -> npres (set_env fo e).
Proof. intros e He s s' r H E. injection E as <- _. exact He. Qed.

Lemma npres_set_line2 : forall l, npres (set_line2 fo l).
Proof. intros l s s' r H E. injection E as <- _. exact H. Qed.

Lemma npres_mod_glob : forall f, npres (mod_glob fo f).
Proof. intros f s s' r H E. injection E as <- _. exact H. Qed.

Lemma npres_warn : forall cx cur t, npres (warn fo cx cur t).
Proof. intros cx cur t s s' r H E. injection E as <- _. exact H. Qed.

Lemma npres_tokenizeM : forall cx cur a, npres (tokenizeM fo cx cur a).
Proof. intros cx cur a s s' r H E. apply tokenizeM_state in E. subst. exact H. Qed.

(* entry: the copy handed to a child *)
Lemma names_inv_entry : forall parent, names_inv parent -> names_inv (append_env fo (empty_env fo) parent).
Proof.
  intros parent (H1 & H2 & H3 & H4). unfold append_env, names_inv. cbn.
  repeat split.
  - rewrite keys_upd_all_nil; [exact H1|]. unfold nodup_keys. rewrite H1. exact ks_nodup.
  - apply Forall_upd_all; [exact H2|constructor].
  - constructor.
  - apply Forall_upd_all; [exact H4|constructor].
Qed.

(* exit: copy-back (plain blocks, RUN, STARTCODE) or append (START, STARTENV) *)
Lemma names_inv_exit : forall (parallel : bool) parent cenv,
  names_inv parent -> names_inv cenv ->
  names_inv (if parallel then append_env fo parent cenv else update_from_env fo parent cenv).
Proof.
  intros parallel parent cenv (H1 & H2 & H3 & H4) (C1 & C2 & C3 & C4).
  destruct parallel; unfold append_env, update_from_env, names_inv; cbn; repeat split.
  - rewrite keys_upd_all_in; [exact H1|]. intros k Hk. rewrite H1, <- C1. exact Hk.
  - apply Forall_upd_all; assumption.
  - exact H3.
  - apply Forall_upd_all; assumption.
  - rewrite keys_restrict_from_all; [exact H1|].
    intros k Hk. apply has_key_In. apply has_key_In in Hk. rewrite C1, <- H1. exact Hk.
  - apply Forall_restrict_from. exact C2.
  - exact H3.
  - exact H4.
Qed.

Section Stack.
Variable child : runner fo.
Hypothesis Hchild : child_ok child.

Lemma npres_run_child_with : forall cx cur code file parallel setup pre,
  setup_ok setup ->
  npres (run_child_with fo child cx cur code file parallel setup pre).
Proof.
  intros cx cur code file parallel setup pre Hsetup s s' r Hinv H.
  unfold Interp.run_child_with in H.
  destruct (cmp_eval _ _ _); [injection H as <- <-; exact Hinv|].
  destruct (setup _) as [cenv1| | |] eqn:Es; try (injection H as <- <-; exact Hinv).
  assert (Hc1 : names_inv cenv1) by (eapply Hsetup; [apply names_inv_entry; exact Hinv|exact Es]).
  destruct (pre cenv1) as [[|]| | |]; try (injection H as <- <-; exact Hinv).
  - destruct (child _ _ _ _) as [g' [[cr cenv2]| | |]] eqn:Ec; injection H as <- <-; try exact Hinv.
    cbn [Interp.s_env]. apply names_inv_exit; [exact Hinv|]. eapply Hchild; eassumption.
  - injection H as <- <-. cbn [Interp.s_env]. apply names_inv_exit; assumption.
Qed.

Lemma setup_ok_id : setup_ok (fun e => Ok e).
Proof. intros e e' He H. injection H as <-. exact He. Qed.

Lemma names_inv_upd_user : forall e k v, names_inv e -> Pu (k, v) ->
  names_inv (mkEnv (e_sys e) (upd k v (e_user e)) (e_temp e) (e_funcs e)).
Proof.
  intros e k v (H1 & H2 & H3 & H4) Hk. unfold names_inv. cbn. repeat split; try assumption.
  apply Forall_upd; assumption.
Qed.

Lemma setup_ok_bind_counter : forall v count, setup_ok (bind_counter fo v count).
Proof.
  intros v count e e' He H. unfold bind_counter in H. destruct v as [v|]; [|injection H as <-; exact He].
  destruct (is_var v false) eqn:Ev; [|discriminate]. injection H as <-.
  apply names_inv_upd_user; [exact He|]. apply Pu_var. exact Ev.
Qed.

Lemma setup_ok_run_params : forall k f (vals : list value),
  Pf (k, f) ->
  setup_ok (fun ce => Ok (mkEnv (e_sys ce)
                            (fold_left (fun u nv => upd (fst nv) (snd nv) u) (combine (fn_args f) vals) (e_user ce))
                            (e_temp ce) (e_funcs ce))).
Proof.
  intros k f vals Hf e e' (H1 & H2 & H3 & H4) H. injection H as <-.
  unfold names_inv. cbn. repeat split; try assumption.
  apply (Forall_upd_all Pu (combine (fn_args f) vals) (e_user e)); [|exact H2].
  rewrite Forall_forall. intros [a v] Hin. apply in_combine_l in Hin. eapply Pu_param; eassumption.
Qed.

Ltac npres_step :=
  first
    [ apply npres_ret | apply npres_raise | apply npres_crash | apply npres_unmod | apply npres_lift
    | apply npres_set_line2 | apply npres_mod_glob | apply npres_warn | apply npres_tokenizeM
    | assumption
    | apply npres_bind_get; intros ? ?
    | apply npres_bind; [|intros ?]
    | match goal with
      | |- npres (if ?b then _ else _) => destruct b
      | |- npres (match ?x with _ => _ end) => destruct x
      | |- npres (let '(_, _) := ?x in _) => destruct x
      end ].
Ltac npres_tac := repeat npres_step.

Lemma npres_run_child : forall cx cur code file parallel setup,
  setup_ok setup -> npres (run_child fo child cx cur code file parallel setup).
Proof.
  intros cx cur code file parallel setup Hs. unfold run_child.
  apply npres_bind; [apply npres_run_child_with; exact Hs|intros r]. npres_tac.
Qed.

Lemma npres_new_var : forall cx cur name v, npres (new_var fo cx cur name v).
Proof.
  intros. unfold new_var. destruct (is_var name false) eqn:Ev; [|npres_tac].
  apply npres_bind_get; intros e He. apply npres_set_env. apply names_inv_upd_user; [exact He|].
  apply Pu_var. exact Ev.
Qed.

Lemma npres_listify_args : forall cx cur argument code_block num, npres (listify_args fo cx cur argument code_block num).
Proof. intros. unfold listify_args. npres_tac. Qed.

Lemma npres_evaluate_args : forall cx cur at_ args, npres (evaluate_args fo cx cur at_ args).
Proof. intros cx cur at_ args. induction args as [|l r IH]; cbn [evaluate_args]; npres_tac. Qed.

Lemma npres_check_types : forall cx cur at_ args, npres (check_types fo cx cur at_ args).
Proof. intros cx cur at_ args. induction args as [|[l oc] r IH]; cbn [check_types]; npres_tac. Qed.

Lemma npres_verify_each : forall cx cur params v args, npres (verify_each fo cx cur params v args).
Proof. intros cx cur params v args. induction args as [|l r IH]; cbn [verify_each]; npres_tac. Qed.

Lemma npres_verify_plural : forall cx cur pv n, npres (verify_plural fo cx cur pv n).
Proof. intros. unfold verify_plural. npres_tac. Qed.

Lemma npres_format_each : forall cx cur params f args, npres (format_each fo cx cur params f args).
Proof. intros cx cur params f args. induction args as [|l r IH]; cbn [format_each]; npres_tac. Qed.

Lemma npres_add_plain_warning : forall t, npres (add_plain_warning fo t).
Proof. intros. unfold add_plain_warning. npres_tac. Qed.

Lemma npres_check_flipper : forall cx cur b, npres (check_flipper fo cx cur b).
Proof. intros. unfold check_flipper. npres_tac. Qed.

Lemma npres_run_compile : forall cx cur cname sc name arg,
  npres (run_compile fo child cx cur cname sc name arg).
Proof.
  intros cx cur cname sc name arg. unfold run_compile.
  destruct (s_run sc).
  - npres_tac.
  - npres_tac.
  - npres_tac.
  - npres_tac.
  - (* DEFAULT_DELAY: the only write to e_sys -- an update of an EXISTING key *)
    destruct arg as [l|]; [|npres_tac].
    apply npres_bind_get; intros e He.
    destruct (l_content l) as [t|n]; [npres_tac|].
    destruct (has_key default_delay_var (e_sys e)) eqn:Ek; [|npres_tac].
    apply npres_bind; [|intros u; npres_tac].
    apply npres_set_env. destruct He as (H1 & H2 & H3 & H4). unfold names_inv. cbn.
    repeat split; try assumption. rewrite keys_upd, Ek. exact H1.
  - npres_tac.
  - npres_tac.
  - npres_tac.
  - npres_tac.
  - npres_tac.
  - (* RUN *)
    destruct arg as [l|]; [|npres_tac].
    destruct (break_arg _) as [fname var_string].
    apply npres_bind; [npres_tac|intros vals].
    apply npres_bind_get; intros e He.
    destruct (lookup fname (e_funcs e)) as [f|] eqn:Ef; [|npres_tac].
    destruct (negb _); [npres_tac|].
    apply npres_bind; [apply npres_run_child|intros cr; npres_tac].
    apply (setup_ok_run_params fname f vals).
    destruct He as (_ & _ & _ & H4). rewrite Forall_forall in H4. apply H4. apply lookup_In. exact Ef.
  - npres_tac. apply npres_new_var.
  - npres_tac.
  - npres_tac.
  - (* START *)
    destruct arg as [l|]; [|npres_tac]. destruct (c_file cx) as [file|]; [|npres_tac].
    apply npres_bind; [npres_tac|intros target].
    destruct (c_fs cx target) as [text|]; [|npres_tac].
    intros s s' r H E.
    destruct (existsb _ _); [injection E as <- _; exact H|].
    destruct (prepare_text text) as [commands|[| | | |]]; try (injection E as <- _; exact H).
    match type of E with ?m s = _ => assert (Hp : npres m) end; [|exact (Hp s s' r H E)].
    apply npres_bind; [apply npres_run_child; apply setup_ok_id|intros cr].
    apply npres_bind; [destruct (s_sig_warning _); [apply npres_add_plain_warning|npres_tac]|intros u].
    npres_tac.
Qed.

Lemma npres_multi_comp : forall cx cur cname tg sc name args acc,
  npres (multi_comp fo child cx cur cname tg sc name args acc).
Proof.
  intros cx cur cname tg sc name args. induction args as [|a r IH]; intro acc; cbn [multi_comp].
  - npres_tac.
  - apply npres_bind; [npres_tac|intros u].
    apply npres_bind; [apply npres_run_compile|intros c]. apply IH.
Qed.

Lemma npres_simple_compile : forall cx cur cname tg sc cmd num argument code_block,
  npres (simple_compile fo child cx cur cname tg sc cmd num argument code_block).
Proof.
  intros. unfold simple_compile.
  apply npres_bind; [apply npres_check_flipper|intros u0].
  apply npres_bind; [apply npres_listify_args|intros args0].
  apply npres_bind.
  { destruct (_ || _); [|npres_tac].
    apply npres_bind; [apply npres_evaluate_args|intros vs].
    induction vs as [|[l v] r IH]; npres_tac. }
  intros args2.
  apply npres_bind; [npres_tac|intros u1].
  apply npres_bind; [apply npres_check_types|intros args3].
  apply npres_bind; [apply npres_verify_plural|intros u2].
  apply npres_bind; [apply npres_verify_each|intros u3].
  apply npres_bind; [apply npres_format_each|intros args4].
  apply npres_multi_comp.
Qed.

Lemma npres_tokenize_count : forall cx cur a, npres (tokenize_count fo cx cur a).
Proof. intros. unfold tokenize_count. npres_tac. Qed.

Lemma npres_repeat_loop : forall cx cur fuel v a code count acc,
  npres (repeat_loop fo child cx cur fuel v a code count acc).
Proof.
  intros cx cur fuel. induction fuel as [|f IH]; intros v a code count acc; cbn [repeat_loop].
  - apply npres_bind; [apply npres_tokenize_count|intros n]. npres_tac.
  - apply npres_bind; [apply npres_tokenize_count|intros n].
    destruct (count <? n)%Z; [|npres_tac].
    apply npres_bind; [apply npres_run_child; apply setup_ok_bind_counter|intros cr].
    destruct (loop_signal _) as [sg brk]. destruct brk; [npres_tac|apply IH].
Qed.

Lemma npres_while_loop : forall cx cur fuel v a code count acc,
  npres (while_loop fo child cx cur fuel v a code count acc).
Proof.
  intros cx cur fuel. induction fuel as [|f IH]; intros v a code count acc; cbn [while_loop].
  - npres_tac.
  - destruct (cmp_eval _ _ _); [npres_tac|].
    apply npres_bind; [apply npres_run_child_with; apply setup_ok_bind_counter|intros [cr|]]; [|npres_tac].
    destruct (loop_signal _) as [sg brk]. destruct brk; [npres_tac|apply IH].
Qed.

Lemma npres_get_temp_flag : npres (get_temp_flag fo).
Proof. unfold get_temp_flag. npres_tac. Qed.

Lemma npres_set_temp_flag : forall b, npres (set_temp_flag fo b).
Proof.
  intros. unfold set_temp_flag. apply npres_bind_get; intros e (H1 & H2 & H3 & H4).
  apply npres_set_env. unfold names_inv. cbn. repeat split; try assumption.
  apply Forall_upd; [apply Pt_flag|exact H3].
Qed.

Lemma npres_block_compile : forall cx cur bc cname cmd num argument code_block,
  npres (block_compile fo child cx cur bc cname cmd num argument code_block).
Proof.
  intros. unfold block_compile.
  apply npres_bind; [apply npres_check_flipper|intros u0].
  apply npres_bind; [npres_tac|intros u1].
  set (arg' := if b_strip_arg bc then _ else _). clearbody arg'.
  destruct (b_kind bc).
  - apply npres_bind_get; intros e He.
    apply npres_bind; [destruct (has_key _ _); [npres_tac|apply npres_set_temp_flag]|intros u2].
    apply npres_bind; [npres_tac|intros u3].
    apply npres_bind; [npres_tac|intros tok].
    apply npres_bind; [apply npres_get_temp_flag|intros flag].
    apply npres_bind.
    { destruct (str_eqb _ _); [|npres_tac]. apply npres_bind; [apply npres_set_temp_flag|intros u4]. npres_tac. }
    intros skip. destruct skip; [npres_tac|]. destruct (_ && _); [npres_tac|].
    apply npres_bind; [apply npres_set_temp_flag|intros u5].
    apply npres_bind; [apply npres_run_child; apply setup_ok_id|intros cr]. npres_tac.
  - npres_tac.
  - destruct arg' as [a|]; [|npres_tac]. destruct (split_loop_arg a) as [var_name count_expr].
    destruct (match code_block with Some b => b | None => [] end); [npres_tac|].
    destruct (match var_name with Some v => _ | None => _ end); [|npres_tac].
    apply npres_bind; [apply npres_repeat_loop|intros cr]. npres_tac.
  - destruct arg' as [a|]; [|npres_tac]. destruct (split_loop_arg a) as [var_name cond].
    apply npres_bind; [apply npres_while_loop|intros cr]. npres_tac.
  - destruct arg' as [a|]; [|npres_tac]. destruct (break_arg a) as [fname var_string].
    destruct (_ && _) eqn:Eok; [|npres_tac].
    apply andb_true_iff in Eok. destruct Eok as [Ef Ev].
    apply npres_bind_get; intros e (H1 & H2 & H3 & H4).
    apply npres_bind; [|intros u2; npres_tac].
    apply npres_set_env. unfold names_inv. cbn. repeat split; try assumption.
    apply Forall_upd; [|exact H4]. apply Pf_func; assumption.
Qed.

Lemma npres_exec_line : forall cx c n code_block, npres (exec_line fo child cx c n code_block).
Proof.
  intros. unfold exec_line.
  destruct (split_ws1 c) as [|cmd more]; [npres_tac|].
  destruct (find_command _ _ _) as [[cname cl]|].
  - destruct (_ && _); [npres_tac|]. destruct cl as [sc|bc].
    + apply npres_simple_compile.
    + apply npres_bind; [apply npres_block_compile|intros r]. npres_tac.
  - apply npres_bind; [npres_tac|intros u]. apply npres_simple_compile.
Qed.

Theorem npres_exec_cmds : forall cx cmds acc, npres (exec_cmds fo child cx cmds acc).
Proof.
  intros cx cmds. induction cmds as [|[c n|b] rest IH]; intro acc; cbn [exec_cmds].
  - npres_tac.
  - destruct (is_blank c); [apply IH|].
    apply npres_bind; [npres_tac|intros u].
    apply npres_bind; [apply npres_exec_line|intros cr].
    destruct (cr_sig cr); try apply IH; npres_tac.
  - apply IH.
Qed.

Theorem run_with_names : child_ok (run_with fo child).
Proof.
  intros cx g e cmds g' cr e' He H. unfold run_with in H.
  destruct (exec_cmds _ _ _ _ _ _) as [s [c| | |]] eqn:E; try discriminate.
  injection H as _ _ <-. eapply (npres_exec_cmds _ _ _ _ _ _ _ E). Unshelve. exact He.
Qed.

End Stack.

Theorem run_names : forall d, child_ok (run fo d).
Proof.
  induction d as [|d IH]; cbn [run]; apply run_with_names.
  - intros cx g e code g' cr e' _ H. discriminate H.
  - exact IH.
Qed.

End Inv.
