(* Well-formed CoreFunc programs, and one lemma per NEW line form (FUNC, RUN, RETURN): what
   Stack.run (exec_cmds) does with the line written by CoreFunc.fstmt_items.  Strings and dispatch
   only; the semantics is in CoreFuncRefine.v.  The old line forms: Proofs/CoreLines.v. *)
From Coq Require Import NArith ZArith List Bool Lia.
From DS Require Import Base PyStr Values Expr TabParse Tables Constants Interp IdentSpec IdentProofs.
From DS Require Import ScopeProofs LimitProofs ChainProofs LoopUnroll LoopBlock.
From DS Require Import PipelineProofs GroupProofs DollarForm NameChecks UnknownWarn RunProofs FuncProofs GraphText.
From DS Require Import CoreLang CoreWf CoreLines CoreFunc.
Import ListNotations.

Arguments IOk {A}. Arguments IErr {A}. Arguments ICrash {A}. Arguments IUnmod {A}.
Arguments s_g {fo}. Arguments s_env {fo}. Arguments s_line2 {fo}. Arguments mkSt {fo}.

(* ================================================================== well-formedness *)
Fixpoint fwf (s : fstmt) : Prop :=
  match s with
  | FEmit name text => emit_ok name text
  | FEmitEval name e => eval_name_ok name = true /\ expr_ok e
  | FVar x e => identb x = true /\ expr_ok e
  | FIf arms els =>
      arms <> [] /\
      all_list (fun cb : str * list fstmt => let (c, b) := cb in expr_ok c /\ b <> [] /\ all_list fwf b) arms /\
      match els with Some b => b <> [] /\ all_list fwf b | None => True end
  | FRepeat c e b => CoreWf.counter_ok c /\ loop_expr_ok c e /\ b <> [] /\ all_list fwf b
  | FWhile c e b => CoreWf.counter_ok c /\ loop_expr_ok c e /\ b <> [] /\ all_list fwf b
  | FBreakLoop => True
  | FContinueLoop => True
  (* the name and the parameters are identifiers; the body is not empty *)
  | FFunc name ps b => identb name = true /\ all_list (fun p => identb p = true) ps /\ b <> [] /\ all_list fwf b
  (* the name is an identifier; the argument text, if any, is written without surrounding blanks *)
  | FRun name args => identb name = true /\ (args = [] \/ expr_ok (comma_list args))
  | FReturn => True
  end.

Definition fwf_list (p : list fstmt) : Prop := all_list fwf p.
Definition fwf_arm (cb : str * list fstmt) : Prop := let (c, b) := cb in expr_ok c /\ b <> [] /\ fwf_list b.
Definition fwf_else (els : option (list fstmt)) : Prop :=
  match els with Some b => b <> [] /\ fwf_list b | None => True end.

Lemma fwf_if_unfold : forall arms els,
  fwf (FIf arms els) <-> (arms <> [] /\ all_list fwf_arm arms /\ fwf_else els).
Proof. intros. reflexivity. Qed.

(* ================================================================== strings *)
Lemma no_ws_not_space : forall x, ChainProofs.no_ws x -> char_in space x = false.
Proof.
  induction x as [|c x IH]; intro H; [reflexivity|].
  unfold ChainProofs.no_ws in H. cbn [forallb] in H. apply andb_true_iff in H. destruct H as [Hc Hx].
  cbn [char_in]. rewrite (IH Hx), orb_false_r.
  destruct (space =? c)%N eqn:E; [|reflexivity].
  apply N.eqb_eq in E. subst c. discriminate.
Qed.

Lemma split_char1_app_sep : forall k x e, char_in k x = false -> split_char1 k (x ++ k :: e) = (x, Some e).
Proof.
  induction x as [|c x IH]; intros e H.
  - cbn [app split_char1]. rewrite N.eqb_refl. reflexivity.
  - cbn [char_in] in H. apply orb_false_iff in H. destruct H as [H1 H2].
    cbn [app split_char1]. rewrite N.eqb_sym, H1, (IH e H2). reflexivity.
Qed.

Lemma lstrip_no_ws' : forall s, ChainProofs.no_ws s -> lstrip s = s.
Proof.
  intros [|c r] H; [reflexivity|]. unfold ChainProofs.no_ws in H. cbn [forallb] in H.
  apply andb_true_iff in H. destruct H as [Hc _]. apply negb_true_iff in Hc.
  cbn [lstrip]. rewrite Hc. reflexivity.
Qed.

Lemma no_ws_rev' : forall s, ChainProofs.no_ws s -> ChainProofs.no_ws (rev s).
Proof.
  intros s H. unfold ChainProofs.no_ws in *. rewrite forallb_forall in *.
  intros c Hin. apply H. apply in_rev. exact Hin.
Qed.

Lemma rstrip_no_ws : forall s, ChainProofs.no_ws s -> rstrip s = s.
Proof.
  intros s H. unfold rstrip. rewrite (lstrip_no_ws' _ (no_ws_rev' s H)). apply rev_involutive.
Qed.

Lemma strip_no_ws' : forall s, ChainProofs.no_ws s -> strip s = s.
Proof. intros s H. unfold strip. rewrite (lstrip_no_ws' s H). apply rstrip_no_ws. exact H. Qed.

(* ---- "p1,...,pk" for identifiers *)
Lemma ident_no_comma : forall x, identb x = true -> char_in comma_c x = false.
Proof.
  intros x H. destruct (identb_chars x H) as [_ Hc]. clear H.
  induction x as [|c x IH]; [reflexivity|].
  cbn [forallb] in Hc. apply andb_true_iff in Hc. destruct Hc as [Hc Hx].
  cbn [char_in]. rewrite (IH Hx), orb_false_r. rewrite N.eqb_sym. exact (proj2 (ident_char_plain c Hc)).
Qed.

Lemma comma_list_cons2 : forall p q r, comma_list (p :: q :: r) = p ++ comma_c :: comma_list (q :: r).
Proof. reflexivity. Qed.

Lemma split_comma_list : forall ps, ps <> [] -> all_list (fun p => identb p = true) ps ->
  split_char comma (comma_list ps) = ps.
Proof.
  induction ps as [|p [|q r] IH]; intros Hne H; [contradiction| |].
  - destruct H as [Hp _]. unfold comma_list. cbn [join].
    apply split_char_none. exact (ident_no_comma p Hp).
  - destruct H as [Hp Hr]. rewrite comma_list_cons2.
    unfold comma. fold comma_c.
    rewrite (split_char_app_sep comma_c p _ (ident_no_comma p Hp)).
    f_equal. apply IH; [discriminate|exact Hr].
Qed.

Lemma map_strip_idents : forall ps, all_list (fun p => identb p = true) ps -> map strip ps = ps.
Proof.
  induction ps as [|p r IH]; intro H; [reflexivity|]. destruct H as [Hp Hr].
  cbn [map]. rewrite (strip_no_ws' p (ident_no_ws p Hp)), (IH Hr). reflexivity.
Qed.

Lemma comma_list_idents_ok : forall ps, ps <> [] -> all_list (fun p => identb p = true) ps ->
  expr_ok (comma_list ps).
Proof.
  induction ps as [|p [|q r] IH]; intros Hne H; [contradiction| |].
  - destruct H as [Hp _]. unfold comma_list. cbn [join]. pose proof (ident_no_ws p Hp) as Hws.
    split; [exact (proj1 (identb_chars p Hp))|]. split; [apply lstrip_no_ws'; exact Hws|apply rstrip_no_ws; exact Hws].
  - destruct H as [Hp Hr]. destruct (IH ltac:(discriminate) Hr) as (Hne' & Hl' & Hr').
    rewrite comma_list_cons2. destruct (ident_head p Hp) as (c0 & t & -> & Hc0).
    split; [discriminate|]. split.
    + apply lstrip_head_app. exact Hc0.
    + change ((c0 :: t) ++ comma_c :: comma_list (q :: r)) with ((c0 :: t) ++ [comma_c] ++ comma_list (q :: r)).
      rewrite app_assoc. apply rstrip_app; assumption.
Qed.

(* ---- "name" / "name args" *)
Definition args_opt (args : list str) : option str :=
  match args with [] => None | _ => Some (comma_list args) end.

Lemma name_args_facts : forall name args,
  identb name = true -> (args = [] \/ expr_ok (comma_list args)) ->
  name_args name args <> [] /\ lstrip (name_args name args) = name_args name args /\
  strip (name_args name args) = name_args name args /\
  break_arg (name_args name args) = (name, args_opt args).
Proof.
  intros name args Hn Ha. pose proof (ident_no_ws name Hn) as Hws.
  destruct (ident_head name Hn) as (c0 & t & Hname & Hc0).
  destruct args as [|a0 ar].
  - cbn [name_args args_opt]. split; [exact (proj1 (identb_chars name Hn))|].
    split; [apply lstrip_no_ws'; exact Hws|]. split; [apply strip_no_ws'; exact Hws|].
    unfold break_arg. rewrite (split_char1_none space name (no_ws_not_space name Hws)). reflexivity.
  - destruct Ha as [Ha|Ha]; [discriminate|]. cbn [name_args args_opt].
    set (tx := comma_list (a0 :: ar)) in *. destruct Ha as (Hne & Hl & Hr).
    assert (Hls : lstrip (name ++ sp :: tx) = name ++ sp :: tx).
    { rewrite Hname. apply lstrip_head_app. exact Hc0. }
    split; [rewrite Hname; discriminate|]. split; [exact Hls|]. split.
    + unfold strip. rewrite Hls. change (name ++ sp :: tx) with (name ++ [sp] ++ tx). rewrite app_assoc.
      apply rstrip_app; assumption.
    + unfold break_arg. unfold sp. fold space.
      rewrite (split_char1_app_sep space name tx (no_ws_not_space name Hws)).
      cbn [option_map]. unfold strip. rewrite Hl, Hr. reflexivity.
Qed.

(* ================================================================== the new lines in Stack.run *)
Section Lines.
Variable fo : FloatOps.
Variable child : runner fo.
Variable cx : ctx.

Notation exec_cmds := (exec_cmds fo child cx).
Notation clear_line2 := (clear_line2 fo).

Lemma head_ok_block_after : forall rest, head_ok rest -> block_after rest = None.
Proof. intros [|[c n|b] r] H; try reflexivity. contradiction. Qed.

(* ---- FUNC name p1,...,pk + block: the definition is stored; nothing is emitted; no stack *)
Lemma func_line : forall name ps n body rest acc s,
  identb name = true -> all_list (fun p => identb p = true) ps -> body <> [] ->
  exec_cmds (Ln (kw_FUNC ++ sp :: name_args name ps) n :: Blk body :: rest) acc s =
  exec_cmds rest acc
    (mkSt (s_g s) (define fo name (mkFunc ps body (c_file cx)) (s_env s)) None).
Proof.
  intros name ps n body rest acc s Hn Hps Hb.
  destruct body as [|x r]; [contradiction|].
  destruct (find_func kw_FUNC s_FUNC x r (or_introl eq_refl) eq_refl eq_refl) as (cname & bc & Hf & Hbc).
  assert (Hargs : ps = [] \/ expr_ok (comma_list ps)).
  { destruct ps as [|p0 pr]; [left; reflexivity|right]. apply comma_list_idents_ok; [discriminate|exact Hps]. }
  destruct (name_args_facts name ps Hn Hargs) as (Hne & Hl & Hs & Hbr).
  assert (Hsp : split_ws1 (kw_FUNC ++ sp :: name_args name ps) = [kw_FUNC; name_args name ps]).
  { apply word_arg_split; try assumption; [discriminate|vm_compute; reflexivity]. }
  rewrite (block_line_step fo child cx _ n (x :: r) rest acc s kw_FUNC [name_args name ps] cname bc Hsp Hf).
  unfold bindM.
  rewrite <- Hs in Hbr.
  assert (Hfp : func_params (args_opt ps) = ps).
  { destruct ps as [|p0 pr]; [reflexivity|]. unfold args_opt, func_params.
    destruct (comma_list_idents_ok (p0 :: pr) ltac:(discriminate) Hps) as (Hcne & _).
    destruct (comma_list (p0 :: pr)) as [|c0 t0] eqn:E; [contradiction|]. rewrite <- E.
    rewrite (split_comma_list (p0 :: pr) ltac:(discriminate) Hps). apply map_strip_idents. exact Hps. }
  assert (Hnames : names_ok name (func_params (args_opt ps)) = true).
  { unfold names_ok. rewrite is_var_spec_lemma, Hn. cbn [andb]. rewrite Hfp.
    clear - Hps. induction ps as [|p r IH]; [reflexivity|]. destruct Hps as [Hp Hr].
    cbn [forallb]. rewrite is_var_spec_lemma, Hp. apply IH. exact Hr. }
  pose proof (func_defines fo child cx (kw_FUNC ++ sp :: name_args name ps, n) bc cname kw_FUNC n
             (name_args name ps) (Some (x :: r)) name (args_opt ps) (clear_line2 s) Hbc Hne Hbr Hnames) as E.
  rewrite Hfp in E. unfold str in E |- *. rewrite E. reflexivity.
Qed.

(* ---- RUN name args: see FuncProofs.run_line_splices *)
Lemma run_line : forall name args n rest acc s vals f g' cr cenv2,
  let c := kw_RUN ++ sp :: name_args name args in
  identb name = true -> (args = [] \/ expr_ok (comma_list args)) -> head_ok rest ->
  arg_values fo (s_env s) (args_opt args) = Ok vals ->
  lookup name (e_funcs fo (s_env s)) = Some f ->
  length (fn_args f) = length vals ->
  stack_full cx = false ->
  child (callee_ctx cx (c, n) f (Some (c, n))) (s_g s) (callee_env fo f vals (s_env s)) (fn_code f)
    = (g', IOk (cr, cenv2)) ->
  cr_sig cr = SNormal \/ cr_sig cr = SReturn ->
  exec_cmds (Ln c n :: rest) acc s =
  exec_cmds rest (acc ++ cr_data cr) (mkSt g' (update_from_env fo (s_env s) cenv2) (Some (c, n))).
Proof.
  intros name args n rest acc s vals f g' cr cenv2 c Hn Ha Hh Hav Hl Hlen Hsf Hc Hsig.
  destruct (name_args_facts name args Hn Ha) as (Hne & Hls & Hs & Hbr).
  assert (Hsp : split_ws1 c = [kw_RUN; name_args name args]).
  { apply word_arg_split; try assumption; [discriminate|vm_compute; reflexivity]. }
  rewrite <- Hs in Hbr.
  assert (Hblank : is_blank c = false) by (apply is_blank_split; rewrite Hsp; discriminate).
  exact (run_line_splices fo child cx c kw_RUN (name_args name args) [] n rest acc s name (args_opt args) vals f g' cr cenv2
           Hblank Hsp eq_refl eq_refl Hne (head_ok_block_after rest Hh) Hbr Hav Hl Hlen Hsf Hc Hsig).
Qed.

(* ---- RUN name args: the three errors of a call *)
Lemma run_line_facts : forall name args (n : Z) rest,
  let c := kw_RUN ++ sp :: name_args name args in
  identb name = true -> (args = [] \/ expr_ok (comma_list args)) -> head_ok rest ->
  is_blank c = false /\ split_ws1 c = [kw_RUN; name_args name args] /\ name_args name args <> [] /\
  block_after rest = None /\ break_arg (strip (name_args name args)) = (name, args_opt args).
Proof.
  intros name args n rest c Hn Ha Hh.
  destruct (name_args_facts name args Hn Ha) as (Hne & Hls & Hs & Hbr).
  assert (Hsp : split_ws1 c = [kw_RUN; name_args name args]).
  { apply word_arg_split; try assumption; [discriminate|vm_compute; reflexivity]. }
  rewrite <- Hs in Hbr.
  split; [apply is_blank_split; rewrite Hsp; discriminate|]. split; [exact Hsp|]. split; [exact Hne|].
  split; [apply head_ok_block_after; exact Hh|exact Hbr].
Qed.

Lemma run_line_unknown : forall name args n rest acc s vals,
  let c := kw_RUN ++ sp :: name_args name args in
  identb name = true -> (args = [] \/ expr_ok (comma_list args)) -> head_ok rest ->
  arg_values fo (s_env s) (args_opt args) = Ok vals ->
  lookup name (e_funcs fo (s_env s)) = None ->
  exec_cmds (Ln c n :: rest) acc s =
  (mkSt (s_g s) (s_env s) (Some (c, n)), IErr EVarNonExistent (Some (here cx (c, n) (Some (c, n))))).
Proof.
  intros name args n rest acc s vals c Hn Ha Hh Hav Hl.
  destruct (run_line_facts name args n rest Hn Ha Hh) as (Hb & Hsp & Hne & Hp & Hbr).
  exact (run_line_undefined fo child cx c kw_RUN (name_args name args) [] n rest acc s name (args_opt args) vals
           Hb Hsp eq_refl eq_refl Hne Hp Hbr Hav Hl).
Qed.

Lemma run_line_wrong_arity : forall name args n rest acc s vals f,
  let c := kw_RUN ++ sp :: name_args name args in
  identb name = true -> (args = [] \/ expr_ok (comma_list args)) -> head_ok rest ->
  arg_values fo (s_env s) (args_opt args) = Ok vals ->
  lookup name (e_funcs fo (s_env s)) = Some f ->
  length (fn_args f) <> length vals ->
  exec_cmds (Ln c n :: rest) acc s =
  (mkSt (s_g s) (s_env s) (Some (c, n)), IErr EInvalidArguments (Some (here cx (c, n) (Some (c, n))))).
Proof.
  intros name args n rest acc s vals f c Hn Ha Hh Hav Hl Hlen.
  destruct (run_line_facts name args n rest Hn Ha Hh) as (Hb & Hsp & Hne & Hp & Hbr).
  exact (run_line_arity fo child cx c kw_RUN (name_args name args) [] n rest acc s name (args_opt args) vals f
           Hb Hsp eq_refl eq_refl Hne Hp Hbr Hav Hl Hlen).
Qed.

Lemma run_line_escapes : forall name args n rest acc s vals f g' cr cenv2,
  let c := kw_RUN ++ sp :: name_args name args in
  identb name = true -> (args = [] \/ expr_ok (comma_list args)) -> head_ok rest ->
  arg_values fo (s_env s) (args_opt args) = Ok vals ->
  lookup name (e_funcs fo (s_env s)) = Some f ->
  length (fn_args f) = length vals ->
  stack_full cx = false ->
  child (callee_ctx cx (c, n) f (Some (c, n))) (s_g s) (callee_env fo f vals (s_env s)) (fn_code f)
    = (g', IOk (cr, cenv2)) ->
  cr_sig cr = SBreak \/ cr_sig cr = SContinue ->
  exists s', exec_cmds (Ln c n :: rest) acc s =
             (s', IErr EStackReturnType (Some (here cx (c, n) (Some (c, n))))).
Proof.
  intros name args n rest acc s vals f g' cr cenv2 c Hn Ha Hh Hav Hl Hlen Hsf Hc Hsig.
  destruct (run_line_facts name args n rest Hn Ha Hh) as (Hb & Hsp & Hne & Hp & Hbr).
  exact (run_line_escape fo child cx c kw_RUN (name_args name args) [] n rest acc s name (args_opt args) vals f g' cr cenv2
           Hb Hsp eq_refl eq_refl Hne Hp Hbr Hav Hl Hlen Hsf Hc Hsig).
Qed.

(* ---- RETURN: the stack ends here with signal SReturn *)
Lemma return_line : forall n rest acc s, head_ok rest ->
  exec_cmds (Ln kw_RETURN n :: rest) acc s = (at_line fo (kw_RETURN, n) s, IOk (mkCret (acc ++ []) SReturn)).
Proof.
  intros n rest acc s Hh. rewrite app_nil_r.
  apply (exec_cmds_return fo child cx kw_RETURN kw_RETURN n rest acc s).
  - reflexivity.
  - reflexivity.
  - split; [left; reflexivity|reflexivity].
  - apply head_ok_block_after. exact Hh.
Qed.

End Lines.
