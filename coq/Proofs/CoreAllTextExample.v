(* Non-vacuity of [refinement_files] (Proofs/CoreAllTextParse.v): the two-file program of
   Proofs/CoreAllExample.v written to disk with a TAB and with TWO SPACES as indent unit; the
   theorem's conclusion, and the interpreter's result by computation from the rendered texts. *)
From Coq Require Import String Ascii NArith ZArith List Bool Lia.
From DS Require Import Base PyStr Values Expr TabParse Tables Constants Interp IdentSpec.
From DS Require Import BlockTree ChainLoopExamples ImportGraph CoreLang CoreWf CoreRefine CoreFunc CoreText CoreTextParse.
From DS Require Import CoreAll CoreAllText CoreAllLines CoreAllBase CoreAllRefine CoreAllTop CoreAllExample CoreAllFs.
From DS Require Import CoreAllTextForest CoreAllTextParse.
Import ListNotations.
Open Scope string_scope.
Open Scope list_scope.

Arguments IOk {A}. Arguments IErr {A}.
Arguments e_sys : clear implicits. Arguments e_user : clear implicits. Arguments e_temp : clear implicits.
Arguments e_funcs : clear implicits. Arguments mkEnv : clear implicits.

Definition u_tab : str := [9]%N.
Definition u_two : str := [32;32]%N.

Lemma u_tab_ok : wf_unit u_tab /\ no_nl u_tab.
Proof. split; [split; [right; reflexivity|reflexivity]|reflexivity]. Qed.
Lemma u_two_ok : wf_unit u_two /\ no_nl u_two.
Proof. split; [split; [left; reflexivity|reflexivity]|reflexivity]. Qed.

Lemma two_files_wf : prog_wf two_files.
Proof.
  intros m stmts Hl. destruct (two_files_ok m stmts Hl) as [Hwf _]. split; [exact Hwf|].
  unfold two_files in Hl. cbn [lookup] in Hl.
  destruct (str_eqb m n_main); [injection Hl as <-; vm_compute; reflexivity|].
  destruct (str_eqb m n_lib); [injection Hl as <-; vm_compute; reflexivity|discriminate].
Qed.

(* the rendered texts *)
Lemma lib_text_tab : utext_of u_tab lib_stmts =
  ChainLoopExamples.prog ["FUNC greet"; String (ascii_of_nat 9) "PRINT hello"; String (ascii_of_nat 9) "STRING hi"; "PRINT loaded"].
Proof. vm_compute. reflexivity. Qed.
Lemma lib_text_two : utext_of u_two lib_stmts =
  ChainLoopExamples.prog ["FUNC greet"; "  PRINT hello"; "  STRING hi"; "PRINT loaded"].
Proof. vm_compute. reflexivity. Qed.

Section Examples.
Variable fo : FloatOps.

(* ------------------------------------------------------------------ through the theorem *)
Lemma two_files_by_files_theorem : forall u, wf_unit u -> no_nl u -> forall inc sup, exists ol F',
  map o_text ol = map line_text (ex_out inc) /\
  utab_rel ex_dir [(CoreAllExample.S_ "greet", greet_def)] F' /\
  compile_text fo (ex_opts inc sup) (fs_of u ex_dir two_files) (Some (file_of ex_dir n_main)) (utext_of u main_stmts) =
  (CoreAllBase.apply_evs ex_dir (ex_events sup) (mkGlob [] []),
   IOk (mkCompiled fo ol
          (map (CoreAllBase.conc_warning ex_dir) (warnings_of (ex_events sup)))
          (mkEnv fo (initial_sys fo) [(CoreAllExample.S_ "x", VInt 5)] [] F')
          (map (CoreAllBase.conc_print ex_dir) (prints_of (ex_events sup))))).
Proof.
  intros u Hu Hnl inc sup.
  destruct (refinement_files fo u ex_dir two_files (ex_opts inc sup) n_main 1 Normal
              [(CoreAllExample.S_ "greet", greet_def)] None [(CoreAllExample.S_ "x", VInt 5)] (ex_out inc) (ex_events sup)
              Hu Hnl two_files_wf (two_files_derivation fo inc sup)) as (stmts & ol & F' & Hlk & Ho & Ht & E).
  { vm_compute. reflexivity. }
  injection Hlk as <-. exists ol, F'. split; [exact Ho|]. split; [exact Ht|exact E].
Qed.

Lemma two_files_tab_by_theorem : forall inc sup, exists ol F',
  map o_text ol = map line_text (ex_out inc) /\
  utab_rel ex_dir [(CoreAllExample.S_ "greet", greet_def)] F' /\
  compile_text fo (ex_opts inc sup) (fs_of u_tab ex_dir two_files) (Some (file_of ex_dir n_main)) (utext_of u_tab main_stmts) =
  (CoreAllBase.apply_evs ex_dir (ex_events sup) (mkGlob [] []),
   IOk (mkCompiled fo ol
          (map (CoreAllBase.conc_warning ex_dir) (warnings_of (ex_events sup)))
          (mkEnv fo (initial_sys fo) [(CoreAllExample.S_ "x", VInt 5)] [] F')
          (map (CoreAllBase.conc_print ex_dir) (prints_of (ex_events sup))))).
Proof. exact (two_files_by_files_theorem u_tab (proj1 u_tab_ok) (proj2 u_tab_ok)). Qed.

Lemma two_files_two_spaces_by_theorem : forall inc sup, exists ol F',
  map o_text ol = map line_text (ex_out inc) /\
  utab_rel ex_dir [(CoreAllExample.S_ "greet", greet_def)] F' /\
  compile_text fo (ex_opts inc sup) (fs_of u_two ex_dir two_files) (Some (file_of ex_dir n_main)) (utext_of u_two main_stmts) =
  (CoreAllBase.apply_evs ex_dir (ex_events sup) (mkGlob [] []),
   IOk (mkCompiled fo ol
          (map (CoreAllBase.conc_warning ex_dir) (warnings_of (ex_events sup)))
          (mkEnv fo (initial_sys fo) [(CoreAllExample.S_ "x", VInt 5)] [] F')
          (map (CoreAllBase.conc_print ex_dir) (prints_of (ex_events sup))))).
Proof. exact (two_files_by_files_theorem u_two (proj1 u_two_ok) (proj2 u_two_ok)). Qed.

(* ------------------------------------------------------------------ by computation *)
(* texts, prints, warnings, user variables, names of the functions: from the rendered FILES *)
Definition files_result (u : str) (inc sup : bool)
  : option (list str * list print_rec * list warning * list (str * value fo) * list str) :=
  match compile_text fo (ex_opts inc sup) (fs_of u ex_dir two_files) (Some (file_of ex_dir n_main)) (utext_of u main_stmts) with
  | (_, IOk c) => Some (map o_text (out fo c), prints fo c, warnings fo c, e_user fo (final_env fo c),
                        map fst (e_funcs fo (final_env fo c)))
  | _ => None
  end.

Definition expected_result (inc sup : bool) :=
  Some (map line_text (ex_out inc),
        map (CoreAllBase.conc_print ex_dir) (prints_of (ex_events sup)),
        map (CoreAllBase.conc_warning ex_dir) (warnings_of (ex_events sup)),
        [(CoreAllExample.S_ "x", @VInt fo 5)], [CoreAllExample.S_ "greet"]).

Lemma two_files_tab_computed : forall inc sup, files_result u_tab inc sup = expected_result inc sup.
Proof. intros [] []; vm_compute; reflexivity. Qed.

Lemma two_files_two_spaces_computed : forall inc sup, files_result u_two inc sup = expected_result inc sup.
Proof. intros [] []; vm_compute; reflexivity. Qed.

Lemma two_files_expected_spelled :
  expected_result true false =
  Some ([CoreAllExample.S_ "STRING hi"; CoreAllExample.S_ "FOO bar"; CoreAllExample.S_ "REM done"; CoreAllExample.S_ "STRING 5"],
        [mkPrint (CoreAllExample.S_ "loaded") 4 lib_path; mkPrint (CoreAllExample.S_ "hello") 2 lib_path],
        [mkWarn (unknown_warning_text 4) (Some [mkFrame main_path (CoreAllExample.S_ "FOO bar", 4%Z) None])],
        [(CoreAllExample.S_ "x", VInt 5)], [CoreAllExample.S_ "greet"]).
Proof. vm_compute. reflexivity. Qed.

End Examples.
