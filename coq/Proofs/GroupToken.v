(* C04 (end to end), stage 1: the scanner on a parenthesised group.  From a token-start state in value
   position whose text begins with "(" inner ")" or "!(" inner ")", inner balanced outside string
   literals, the scanner -- after String, Number, Boolean and Variable have given up on the first
   character -- appends PGroup inner neg and continues right after the matching parenthesis, whatever
   follows. *)
From Coq Require Import NArith ZArith List Bool Lia.
From DS Require Import Base Unicode PyStr Values Tables Constants Expr ExprSafety ExprFuel Spelling
  ScanRun ScanTokens ExprLang.
Import ListNotations.

(* ------------------------------------------------------------------ prun *)
Lemma prun_app : forall lim s1 s2 d ign,
  prun lim (s1 ++ s2) d ign =
  match prun lim s1 d ign with
  | Some (d', ign') => prun lim s2 d' ign'
  | None => None
  end.
Proof.
  intros lim. induction s1 as [|c s1 IH]; intros s2 d ign; [reflexivity|].
  cbn [app prun]. destruct ign; [apply IH|].
  destruct (c =? q)%N; [apply IH|].
  destruct (c =? lpar)%N.
  - destruct (S d <=? lim); [apply IH|reflexivity].
  - destruct (c =? rpar)%N; [|apply IH]. destruct d; [reflexivity|apply IH].
Qed.

Lemma prun_app_some : forall lim s1 s2 d ign d1 ign1 r,
  prun lim s1 d ign = Some (d1, ign1) -> prun lim s2 d1 ign1 = r ->
  prun lim (s1 ++ s2) d ign = r.
Proof. intros lim s1 s2 d ign d1 ign1 r H1 H2. rewrite prun_app, H1. exact H2. Qed.

(* ------------------------------------------------------------------ add_char on a group token *)
Lemma add_group_plain : forall D ign opp c, (0 < D)%Z ->
  ((c =? lpar) || (c =? rpar))%N = false \/ ign = true ->
  add_char (TGroup D ign false opp) c =
  Ok (TGroup D (if (c =? q)%N then negb ign else ign) false opp, ITrue).
Proof.
  intros D ign opp c HD H. cbn [add_char].
  assert (H0 : Z.eqb D 0 = false) by (apply Z.eqb_neq; lia). rewrite H0.
  destruct H as [H| ->].
  - rewrite H. reflexivity.
  - rewrite orb_true_r. reflexivity.
Qed.

Lemma add_group_open : forall D opp, (0 <= D)%Z -> (D + 1 <= 100)%Z ->
  add_char (TGroup D false false opp) lpar = Ok (TGroup (D + 1) false false opp, ITrue).
Proof.
  intros D opp HD Hlim. cbn [add_char].
  change ((lpar =? lpar)%N) with true. change ((lpar =? rpar)%N) with false. cbn [orb negb andb].
  assert (H1 : (D + 1 <? 0)%Z = false) by (apply Z.ltb_ge; lia). rewrite H1.
  unfold paren_limit_op, paren_limit, cmp_eval.
  assert (H2 : (100 <? D + 1)%Z = false) by (apply Z.ltb_ge; lia). rewrite H2.
  assert (H3 : (0 <? D + 1)%Z = true) by (apply Z.ltb_lt; lia). rewrite H3. reflexivity.
Qed.

Lemma add_group_close_inner : forall D opp, (1 < D)%Z -> (D <= 101)%Z ->
  add_char (TGroup D false false opp) rpar = Ok (TGroup (D - 1) false false opp, ITrue).
Proof.
  intros D opp HD Hlim. cbn [add_char].
  change ((rpar =? lpar)%N) with false. change ((rpar =? rpar)%N) with true. cbn [orb negb andb].
  assert (H1 : (D - 1 <? 0)%Z = false) by (apply Z.ltb_ge; lia). rewrite H1.
  unfold paren_limit_op, paren_limit, cmp_eval.
  assert (H2 : (100 <? D - 1)%Z = false) by (apply Z.ltb_ge; lia). rewrite H2.
  assert (H3 : (0 <? D - 1)%Z = true) by (apply Z.ltb_lt; lia). rewrite H3. reflexivity.
Qed.

Lemma add_group_close : forall opp,
  add_char (TGroup 1 false false opp) rpar = Ok (TGroup 0 false true opp, IContinue).
Proof. intro opp. reflexivity. Qed.

Lemma add_group_bang :
  add_char (TGroup 0 false false false) bang = Ok (TGroup 0 false false true, ITrueContinue).
Proof. reflexivity. Qed.

Lemma strip_parens_group : forall inner : str, strip_parens (lpar :: inner ++ [rpar]) = inner.
Proof.
  intro inner. unfold strip_parens. change ((lpar =? lpar)%N) with true. cbn iota.
  rewrite rev_app_distr. cbn [rev app]. change ((rpar =? rpar)%N) with true. cbn iota.
  apply rev_involutive.
Qed.

Section WithFloats.
Variable fo : FloatOps.
Notation value := (value fo).
Notation ptok := (ptok fo).
Notation sd := (sd fo).
Notation vars_t := (vars_t fo).
Notation mkSd := (Expr.mkSd fo).
Notation TS := (TS fo).
Notation leads := (leads fo).

Variable vars : vars_t.

(* ------------------------------------------------------------------ inside the group *)
(* the group token holds depth 1 + d (its own parenthesis is open) *)
Lemma group_run : forall s d ign d' ign' st r opp op sr out B,
  d <= group_limit -> prun group_limit s d ign = Some (d', ign') ->
  leads vars (mkSd st (s ++ r) (Some (TGroup (Z.of_nat (S d)) ign false opp)) op sr out B)
             (mkSd st r (Some (TGroup (Z.of_nat (S d')) ign' false opp)) op (rev s ++ sr) out B).
Proof.
  induction s as [|c s IH]; intros d ign d' ign' st r opp op sr out B Hd H.
  - cbn [prun] in H. injection H as <- <-. apply leads_refl.
  - cbn [prun] in H. cbn [rev app]. rewrite <- app_assoc. cbn [app].
    destruct ign.
    + eapply leads_trans; [|apply (IH _ _ _ _ _ _ _ _ _ _ _ Hd H)].
      apply leads_step. eapply step_true.
      rewrite add_group_plain; [|lia|right; reflexivity].
      destruct (c =? q)%N; reflexivity.
    + destruct (c =? q)%N eqn:Hq.
      * eapply leads_trans; [|apply (IH _ _ _ _ _ _ _ _ _ _ _ Hd H)].
        apply leads_step. eapply step_true.
        rewrite add_group_plain; [|lia|left].
        -- rewrite Hq. reflexivity.
        -- apply N.eqb_eq in Hq. subst c. reflexivity.
      * destruct (c =? lpar)%N eqn:Hl.
        -- apply N.eqb_eq in Hl. subst c.
           destruct (S d <=? group_limit) eqn:Hlim; [|discriminate H].
           apply Nat.leb_le in Hlim.
           eapply leads_trans; [|apply (IH _ _ _ _ _ _ _ _ _ _ _ Hlim H)].
           apply leads_step. eapply step_true.
           unfold group_limit in Hlim.
           rewrite add_group_open by lia.
           replace (Z.of_nat (S d) + 1)%Z with (Z.of_nat (S (S d))) by lia. reflexivity.
        -- destruct (c =? rpar)%N eqn:Hr.
           ++ apply N.eqb_eq in Hr. subst c. destruct d as [|d0]; [discriminate H|].
              assert (Hd0 : d0 <= group_limit) by lia.
              eapply leads_trans; [|apply (IH _ _ _ _ _ _ _ _ _ _ _ Hd0 H)].
              apply leads_step. eapply step_true.
              unfold group_limit in Hd.
              rewrite add_group_close_inner by lia.
              replace (Z.of_nat (S (S d0)) - 1)%Z with (Z.of_nat (S d0)) by lia. reflexivity.
           ++ eapply leads_trans; [|apply (IH _ _ _ _ _ _ _ _ _ _ _ Hd H)].
              apply leads_step. eapply step_true.
              rewrite add_group_plain; [|lia|left; rewrite Hl, Hr; reflexivity].
              rewrite Hq. reflexivity.
Qed.

(* ------------------------------------------------------------------ the first character *)
(* String, Number, Boolean and Variable are offered "(" or "!" and give up; Group is next *)
Lemma value_classes_give_up : forall c0 rest' out,
  c0 = lpar \/ c0 = bang ->
  (forall w, In w (map fst vars) -> startswith [c0] w = false) ->
  exists tk B,
    scan_step fo vars (TS (c0 :: rest') false out) =
      Some (verify_char fo vars (mkSd (c0 :: rest') (c0 :: rest') tk false [] out B) c0 rest' [CGroup]) /\
    in_black CGroup B = false.
Proof.
  intros c0 rest' out Hc Hno. set (st := c0 :: rest').
  assert (Hsp : isspace_c c0 = false) by (destruct Hc; subst c0; reflexivity).
  assert (Hstr : add_char (new_tok fo vars CStr) c0 = Ok (TStr false false, IFalse))
    by (destruct Hc; subst c0; reflexivity).
  assert (Hnum : add_char (new_tok fo vars CNum) c0 = Ok (TNum 0 false false true, IFalse))
    by (destruct Hc; subst c0; reflexivity).
  assert (Hbool : add_char (new_tok fo vars CBool) c0 =
                  Ok (TKw CBool (mkKw bool_keywords None [c0]), IResetContinue))
    by (destruct Hc; subst c0; reflexivity).
  assert (H0 : scan_step fo vars (TS st false out) =
    Some (verify_char fo vars (mkSd st st None false [] out [CBool]) c0 rest' [CVar; CGroup])).
  { unfold ScanRun.TS, st. rewrite step_first by exact Hsp. rewrite value_classes_eq.
    rewrite (vc_false fo vars _ _ _ _ _ _ _ _ _ CStr _ (TStr false false)); [|reflexivity|exact Hstr].
    rewrite (vc_false fo vars _ _ _ _ _ _ _ _ _ CNum _ (TNum 0 false false true)); [|reflexivity|exact Hnum].
    rewrite (vc_reset fo vars _ _ _ _ _ _ _ _ _ CBool _ (TKw CBool (mkKw bool_keywords None [c0])));
      [|reflexivity|exact Hbool].
    reflexivity. }
  destruct (map fst vars) as [|w0 L0] eqn:HL.
  - (* no variable defined: `if self.keywords:` is false, the class answers IFalse *)
    exists (Some (TKw CVar (mkKw [] None []))), [CBool]. split; [|reflexivity].
    rewrite H0. f_equal.
    apply (vc_false fo vars _ _ _ _ _ _ _ _ _ CVar _ (TKw CVar (mkKw [] None []))); [reflexivity|].
    cbn [new_tok]. rewrite HL. reflexivity.
  - exists None, [CVar; CBool]. split; [|reflexivity].
    rewrite H0. f_equal.
    assert (Hc0 : cands (w0 :: L0) ([] ++ [c0]) = []).
    { apply cands_empty. intros w Hw. apply Hno. exact Hw. }
    pose proof (kw_step_kwst (w0 :: L0) [] c0) as Hk. rewrite Hc0 in Hk.
    apply (vc_reset fo vars _ _ _ _ _ _ _ _ _ CVar _
             (TKw CVar (mkKw (w0 :: L0) (kw_expected (kwst (w0 :: L0) [])) ([] ++ [c0])))); [reflexivity|].
    cbn [new_tok]. rewrite HL. rewrite add_kw by discriminate.
    change (mkKw (w0 :: L0) None []) with (kwst (w0 :: L0) []). rewrite Hk. reflexivity.
Qed.

(* ------------------------------------------------------------------ the group token *)
Theorem group_token : forall (inner : str) (neg : bool) r out,
  balanced group_limit inner ->
  (forall w, In w (map fst vars) -> startswith [if neg then bang else lpar] w = false) ->
  leads vars (TS (spell_group inner neg ++ r) false out) (TS r true (PGroup inner neg :: out)).
Proof.
  intros inner neg r out Hbal Hno. unfold balanced in Hbal.
  assert (Hclose : forall st B,
    leads vars (mkSd st (inner ++ rpar :: r) (Some (TGroup 1 false false neg)) false [lpar] out B)
               (TS r true (PGroup inner neg :: out))).
  { intros st B. eapply leads_trans.
    - apply (group_run inner 0 false 0 false st (rpar :: r) neg false [lpar] out B);
        [unfold group_limit; lia|exact Hbal].
    - apply leads_step. change (Z.of_nat 1) with 1%Z.
      apply (step_cont fo vars st rpar r (TGroup 1 false false neg) false (rev inner ++ [lpar]) out B
               (TGroup 0 false true neg) (PGroup inner neg)); [apply add_group_close|].
      cbn [set_value rev]. rewrite rev_app_distr, rev_involutive. cbn [rev app].
      rewrite strip_parens_group. reflexivity. }
  unfold spell_group. destruct neg; cbn [app]; rewrite <- app_assoc; cbn [app].
  - (* "!(" *)
    destruct (value_classes_give_up bang (lpar :: inner ++ rpar :: r) out (or_intror eq_refl) Hno)
      as [tk [B [Hstep HB]]].
    eapply leads_trans.
    { apply leads_step. rewrite Hstep. f_equal.
      apply (vc_truecont fo vars _ _ _ _ _ _ _ _ _ CGroup _ (TGroup 0 false false true) HB).
      reflexivity. }
    eapply leads_trans.
    { apply leads_step. eapply step_true.
      apply (add_group_open 0 true); lia. }
    apply Hclose.
  - (* "(" *)
    destruct (value_classes_give_up lpar (inner ++ rpar :: r) out (or_introl eq_refl) Hno)
      as [tk [B [Hstep HB]]].
    eapply leads_trans.
    { apply leads_step. rewrite Hstep. f_equal.
      apply (vc_true fo vars _ _ _ _ _ _ _ _ _ CGroup _ (TGroup 1 false false false) HB).
      reflexivity. }
    apply Hclose.
Qed.

(* when every defined name is an identifier no name begins with "(" or "!" *)
Lemma ident_no_group_start : forall neg : bool, vars_ident fo vars ->
  forall w, In w (map fst vars) -> startswith [if neg then bang else lpar] w = false.
Proof.
  intros neg Hvi w Hw. apply in_map_iff in Hw. destruct Hw as [[k x] [Hk Hkx]]. cbn [fst] in Hk. subst k.
  unfold vars_ident in Hvi. rewrite Forall_forall in Hvi. specialize (Hvi _ Hkx). cbn [fst] in Hvi.
  destruct w as [|c w]; [discriminate Hvi|]. cbn [ident] in Hvi.
  apply andb_true_iff in Hvi. destruct Hvi as [Hs _].
  cbn [startswith]. destruct neg.
  - destruct (bang =? c)%N eqn:He; [|reflexivity]. apply N.eqb_eq in He. subst c. discriminate Hs.
  - destruct (lpar =? c)%N eqn:He; [|reflexivity]. apply N.eqb_eq in He. subst c. discriminate Hs.
Qed.

Corollary group_token_ident : forall inner neg r out,
  vars_ident fo vars -> balanced group_limit inner ->
  leads vars (TS (spell_group inner neg ++ r) false out) (TS r true (PGroup inner neg :: out)).
Proof.
  intros inner neg r out Hvi Hbal. apply group_token; [exact Hbal|].
  apply ident_no_group_start. exact Hvi.
Qed.

End WithFloats.
