(* Non-vacuity of the error judgement (Spec/CoreErr.v) and of its refinement theorem: concrete
   programs with a [fails] derivation, their relaxed well-formedness, and what the interpreter
   (Compiler.compile of the model, default options, vm_compute, ANY FloatOps) returns: the same
   class, and a trace whose line numbers are the chain. *)
From Coq Require Import String Ascii NArith ZArith List Bool Lia.
From DS Require Import Base PyStr Values Expr TabParse Tables Constants Interp IdentSpec.
From DS Require Import ChainLoopExamples CoreLang CoreWf CoreRefine CoreExample CoreErr CoreErrLines CoreErrRefine.
Import ListNotations.
Open Scope string_scope.
Open Scope list_scope.

Arguments IOk {A}. Arguments IErr {A}.

Ltac ev := unfold eval; vm_compute; reflexivity.
Ltac dec := vm_compute; reflexivity.
Ltac rng := unfold loop_max; lia.
Ltac ferr := unfold eval_err; vm_compute; reflexivity.
Ltac nm := cbn; repeat (first [exact I | reflexivity | split]).

(* success premises: the tactic of CoreExample.v *)
Ltac derive :=
  lazymatch goal with
  | |- exec _ _ _ _ (SEmit _ _) _ _ _ _ => eapply E_Emit
  | |- exec _ _ _ _ (SEmitEval _ _) _ _ _ _ => eapply E_EmitEval; [ev|dec]
  | |- exec _ _ _ _ (SVar _ _) _ _ _ _ => eapply E_Var; ev
  | |- exec _ _ _ _ (SIf _ _) _ _ _ _ => eapply E_If; derive
  | |- exec _ _ _ _ (SRepeat _ _ _) _ _ _ _ => eapply E_Repeat; derive
  | |- exec _ _ _ _ (SWhile _ _ _) _ _ _ _ => eapply E_While; derive
  | |- exec _ _ _ _ SBreakLoop _ _ _ _ => eapply E_Break
  | |- exec _ _ _ _ SContinueLoop _ _ _ _ => eapply E_Continue
  | |- exec_list _ _ _ _ [] _ _ _ _ => eapply L_Nil
  | |- exec_list _ _ _ _ (_ :: _) _ _ _ _ =>
      first [ eapply L_Cons; [solve [derive]|derive]
            | eapply L_Stop; [solve [derive]|discriminate] ]
  | |- exec_arms _ _ _ _ ((_, _) :: _) _ _ _ _ _ =>
      first [ eapply A_Take; [ev|dec|solve [derive]|intros _; repeat (constructor; [eexists; ev|]); constructor]
            | eapply A_Skip; [ev|dec|derive] ]
  | |- exec_arms _ _ _ _ [] (Some _) _ _ _ _ => eapply A_Else; derive
  | |- exec_arms _ _ _ _ [] None _ _ _ _ => eapply A_None
  | |- exec_repeat _ _ _ _ _ _ _ _ _ _ =>
      first [ eapply R_Done; [ev|dec|rng|lia]
            | eapply R_Iter; [ev|dec|rng|lia|solve [derive]|discriminate|derive]
            | eapply R_Break; [ev|dec|rng|lia|solve [derive]] ]
  | |- exec_while _ _ _ _ _ _ _ _ _ =>
      first [ eapply W_Done; [rng|ev|dec]
            | eapply W_Iter; [rng|ev|dec|solve [derive]|discriminate|derive]
            | eapply W_Break; [rng|ev|dec|solve [derive]] ]
  end.

Ltac lderive :=
  lazymatch goal with
  | |- later_fails _ _ _ _ ((_, _) :: _) _ _ =>
      first [ eapply LF_Here; ferr | eapply LF_Next; [ev|lderive] ]
  end.

Ltac fderive :=
  lazymatch goal with
  | |- fails _ _ _ _ _ (SEmitEval _ _) _ _ _ => eapply F_EmitEval; ferr
  | |- fails _ _ _ _ _ (SVar _ _) _ _ _ =>
      first [ eapply F_VarExpr; ferr | eapply F_VarName; [ev|dec] ]
  | |- fails _ _ _ _ _ (SIf _ _) _ _ _ => eapply F_If; fderive
  | |- fails _ _ _ _ _ (SRepeat _ _ _) _ _ _ => eapply F_Repeat; fderive
  | |- fails _ _ _ _ _ (SWhile _ _ _) _ _ _ => eapply F_While; fderive
  | |- fails_list _ _ _ _ _ (_ :: _) _ _ _ =>
      first [ eapply FL_Here; solve [fderive]
            | eapply FL_Later; [solve [derive]|nm|fderive] ]
  | |- fails_arms _ _ _ _ _ ((_, _) :: _) _ _ _ _ =>
      first [ eapply FA_Cond; ferr
            | eapply FA_Body; [ev|dec|solve [fderive]]
            | eapply FA_Later; [ev|dec|solve [derive]|nm|solve [lderive]]
            | eapply FA_Skip; [ev|dec|fderive] ]
  | |- fails_arms _ _ _ _ _ [] (Some _) _ _ _ => eapply FA_Else; fderive
  | |- fails_repeat _ _ _ _ _ _ _ _ _ _ _ _ =>
      first [ eapply FR_Count; ferr
            | eapply FR_NotCount; [ev|dec]
            | eapply FR_Range; [ev|dec|rng]
            | eapply FR_Body; [ev|dec|rng|lia|solve [fderive]]
            | eapply FR_Iter; [ev|dec|rng|lia|solve [derive]|discriminate|nm|fderive] ]
  | |- fails_while _ _ _ _ _ _ _ _ _ _ _ =>
      first [ eapply FW_Cond; [rng|ferr]
            | eapply FW_Body; [rng|ev|dec|solve [fderive]]
            | eapply FW_Iter; [rng|ev|dec|solve [derive]|discriminate|nm|fderive] ]
  end.

Ltac wfx_dec := repeat (first [exact I | discriminate | reflexivity | split]).

Section Examples.
Variable fo : FloatOps.

(* what Compiler.compile returns *)
Definition outcome (p : list stmt) : ires (compiled fo) :=
  snd (compile_items fo default_options (fun _ => None) None (items_of p)).

(* ------------------------------------------------------------------ 1. nested IF inside REPEAT, second iteration
     1  REPEAT i,3
     2      IF i==1
     3          $STRING nosuch          <- fails when i = 1 (the SECOND iteration)
     4      ELSE
     5          STRING ok
     6  STRING end                                                                              *)
Definition prog_nested : list stmt :=
  [ SRepeat (Some (S_ "i")) (S_ "3")
      [ SIf [ (S_ "i==1", [SEmitEval (S_ "STRING") (S_ "nosuch")]) ]
            (Some [SEmit (S_ "STRING") (S_ "ok")]) ];
    SEmit (S_ "STRING") (S_ "end") ].

Lemma nested_fails : fails_prog fo prog_nested EExpectedToken true [1; 2; 3]%Z.
Proof.
  assert (H : exists er a ch, fails_prog fo prog_nested er a ch /\ er = EExpectedToken /\ a = true /\ ch = [1; 2; 3]%Z).
  { eexists. eexists. eexists. split; [unfold fails_prog, prog_nested; fderive|].
    split; [reflexivity|]. split; [reflexivity|]. vm_compute. reflexivity. }
  destruct H as (er & a & ch & H & -> & -> & ->). exact H.
Qed.

Lemma nested_wfx : wfx_list prog_nested.
Proof. unfold prog_nested. cbn. wfx_dec. Qed.

(* the loop head (line 1) appears ONCE although the failure is in the second iteration; every
   frame is of the compiled file (here: none); the block heads carry no second line; the failing
   `$`-line carries itself as second line *)
Lemma nested_interpreter :
  outcome prog_nested =
  IErr EExpectedToken
    (Some [ mkFrame None (S_ "REPEAT i,3", 1%Z) None;
            mkFrame None (S_ "IF i==1", 2%Z) None;
            mkFrame None (S_ "$STRING nosuch", 3%Z) (Some (S_ "$STRING nosuch", 3%Z)) ]).
Proof. vm_compute. reflexivity. Qed.

Lemma nested_by_theorem : exists tr,
  shape None true [1; 2; 3]%Z tr /\
  compile_items fo default_options (fun _ => None) None (items_of prog_nested) =
  (mkGlob [] [], IErr EExpectedToken (Some tr)).
Proof.
  apply (refine_fails_compile_items fo default_options (fun _ => None) None prog_nested EExpectedToken true _
           nested_fails nested_wfx).
  vm_compute. reflexivity.
Qed.

(* ------------------------------------------------------------------ 2. a VAR with a bad name inside an ELSE arm
     1  VAR a 1
     2  IF a==2
     3      STRING x
     4  ELSE
     5      VAR 9z 5                    <- "9z" is not an identifier                            *)
Definition prog_badname : list stmt :=
  [ SVar (S_ "a") (S_ "1");
    SIf [ (S_ "a==2", [SEmit (S_ "STRING") (S_ "x")]) ]
        (Some [SVar (S_ "9z") (S_ "5")]) ].

Lemma badname_fails : fails_prog fo prog_badname EUnacceptableVarName true [4; 5]%Z.
Proof.
  assert (H : exists er a ch, fails_prog fo prog_badname er a ch /\ er = EUnacceptableVarName /\ a = true /\ ch = [4; 5]%Z).
  { eexists. eexists. eexists. split; [unfold fails_prog, prog_badname; fderive|].
    split; [reflexivity|]. split; [reflexivity|]. vm_compute. reflexivity. }
  destruct H as (er & a & ch & H & -> & -> & ->). exact H.
Qed.

Lemma badname_wfx : wfx_list prog_badname.
Proof. unfold prog_badname. cbn. wfx_dec. Qed.

(* the outer entry is the line of the ELSE (4), not of the IF (2) *)
Lemma badname_interpreter :
  outcome prog_badname =
  IErr EUnacceptableVarName
    (Some [ mkFrame None (S_ "ELSE", 4%Z) None;
            mkFrame None (S_ "VAR 9z 5", 5%Z) (Some (S_ "VAR 9z 5", 5%Z)) ]).
Proof. vm_compute. reflexivity. Qed.

(* ------------------------------------------------------------------ 3. an ELIF condition evaluated after the taken arm
     1  IF TRUE
     2      STRING a
     3  ELIF nope                       <- blamed on line 3, although the IF arm ran           *)
Lemma elif_fails : fails_prog fo (prog_elif) EExpectedToken false [3]%Z.
Proof.
  assert (H : exists er a ch, fails_prog fo prog_elif er a ch /\ er = EExpectedToken /\ a = false /\ ch = [3]%Z).
  { eexists. eexists. eexists. split; [unfold fails_prog, prog_elif; fderive|].
    split; [reflexivity|]. split; [reflexivity|]. vm_compute. reflexivity. }
  destruct H as (er & a & ch & H & -> & -> & ->). exact H.
Qed.

Lemma elif_interpreter :
  outcome prog_elif = IErr EExpectedToken (Some [mkFrame None (S_ "ELIF nope", 3%Z) None]).
Proof. vm_compute. reflexivity. Qed.


(* ------------------------------------------------------------------ 4. a WHILE condition that stops evaluating
     1  VAR n 0
     2  WHILE i,10//(1-i)>0              <- i = 1: division by zero; blamed on line 2 alone
     3      VAR n n+1                                                                           *)
Definition prog_whilecond : list stmt :=
  [ SVar (S_ "n") (S_ "0");
    SWhile (Some (S_ "i")) (S_ "10//(1-i)>0") [SVar (S_ "n") (S_ "n+1")] ].

Lemma whilecond_fails : exists er, fails_prog fo prog_whilecond er false [2]%Z /\ wfx_list prog_whilecond /\
  outcome prog_whilecond = IErr er (Some [mkFrame None (S_ "WHILE i,10//(1-i)>0", 2%Z) None]).
Proof.
  assert (H : exists er a ch, fails_prog fo prog_whilecond er a ch /\ a = false /\ ch = [2]%Z /\
              outcome prog_whilecond = IErr er (Some [mkFrame None (S_ "WHILE i,10//(1-i)>0", 2%Z) None])).
  { eexists. eexists. eexists. split; [unfold fails_prog, prog_whilecond; fderive|].
    split; [reflexivity|]. split; vm_compute; reflexivity. }
  destruct H as (er & a & ch & H & -> & -> & Ho). exists er. split; [exact H|]. split; [|exact Ho].
  clear H Ho. unfold prog_whilecond. cbn. wfx_dec.
Qed.

(* ------------------------------------------------------------------ 5. a REPEAT count out of range, found at the re-check
     1  VAR n 2
     2  REPEAT n
     3      VAR n 0-5                   <- after the first iteration the count is -5             *)
Definition prog_recount_bad : list stmt :=
  [ SVar (S_ "n") (S_ "2");
    SRepeat None (S_ "n") [SVar (S_ "n") (S_ "0-5")] ].

Lemma recount_fails :
  fails_prog fo prog_recount_bad EInvalidArguments false [2]%Z /\ wfx_list prog_recount_bad /\
  outcome prog_recount_bad = IErr EInvalidArguments (Some [mkFrame None (S_ "REPEAT n", 2%Z) None]).
Proof.
  split; [|split].
  - assert (H : exists er a ch, fails_prog fo prog_recount_bad er a ch /\ er = EInvalidArguments /\ a = false /\ ch = [2]%Z).
    { eexists. eexists. eexists. split; [unfold fails_prog, prog_recount_bad; fderive|].
      split; [reflexivity|]. split; [reflexivity|]. vm_compute. reflexivity. }
    destruct H as (er & a & ch & H & -> & -> & ->). exact H.
  - unfold prog_recount_bad. cbn. wfx_dec.
  - vm_compute. reflexivity.
Qed.

End Examples.
