(* C20: instances of the names invariant (e_sys keeps its keys; every stored name is an identifier),
   exact frame of e_sys for the commands that run no child stack, and readability of accepted names
   (expressions and EXIST). *)
From Coq Require Import NArith ZArith List Bool Lia.
From DS Require Import Base PyStr Values Expr TabParse Tables Constants Interp ScopeProofs ScopeInvariant
  IdentSpec IdentProofs NamesInv NameChecks ExprAst TreeProofs Spelling ScanRun ScanTokens ScanSpelled.
Import ListNotations.

Lemma Forall_True : forall (A : Type) (l : list A), Forall (fun _ => True) l.
Proof. intros A l. apply Forall_forall. intros x _. exact I. Qed.

(* identifiers of IdentSpec are identifiers of Spec/Spelling.v (which also allows a leading `$`) *)
Lemma identb_ident : forall n, identb n = true -> ident n = true.
Proof.
  intros [|c r] H; [discriminate H|]. unfold identb in H. unfold ident.
  apply andb_true_iff in H. destruct H as [H1 H2]. apply andb_true_iff. split; [|exact H2].
  unfold is_ident_start. unfold ident_start in H1. rewrite H1. reflexivity.
Qed.

Lemma sys_names_ident : ident default_delay_var = true /\ ident if_success = true.
Proof. split; vm_compute; reflexivity. Qed.

Section WithFloats.
Variable fo : FloatOps.
Notation value := (value fo).
Notation env := (env fo).
Notation st := (st fo).
Notation M := (M fo).
Notation s_env := (s_env fo).
Notation s_g := (s_g fo).
Notation s_line2 := (s_line2 fo).
Notation e_sys := (e_sys fo).
Notation e_user := (e_user fo).
Notation e_temp := (e_temp fo).
Notation e_funcs := (e_funcs fo).
Notation all_vars := (all_vars fo).
Notation run_compile := (run_compile fo).
Notation block_compile := (block_compile fo).

(* ================================================================== instance 1: keys of e_sys *)
Definition TTv (_ : str * value) : Prop := True.
Definition TTf (_ : str * func) : Prop := True.

Lemma sys_inv_iff : forall ks e, names_inv fo ks TTv TTv TTf e <-> map fst (e_sys e) = ks.
Proof.
  intros ks e. unfold names_inv. split; [intros (H & _); exact H|].
  intro H. repeat split; try exact H; apply Forall_True.
Qed.

(* a runner keeps the keys of e_sys (on environments that satisfy the dict invariant for e_sys) *)
Definition keeps_sys_keys (child : runner fo) : Prop :=
  forall cx g e code g' cr e', NoDup (map fst (e_sys e)) ->
  child cx g e code = (g', IOk _ (cr, e')) -> map fst (e_sys e') = map fst (e_sys e).

Definition keeps_sys_keys_M {A} (m : M A) : Prop :=
  forall s s' r, NoDup (map fst (e_sys (s_env s))) -> m s = (s', r) ->
  map fst (e_sys (s_env s')) = map fst (e_sys (s_env s)).

Lemma keeps_child_ok : forall child, keeps_sys_keys child ->
  forall ks, NoDup ks -> child_ok fo ks TTv TTv TTf child.
Proof.
  intros child H ks Hnd cx g e code g' cr e' He Hc. apply sys_inv_iff. apply sys_inv_iff in He.
  rewrite (H cx g e code g' cr e'); [exact He| |exact Hc]. rewrite He. exact Hnd.
Qed.

Lemma npres_keeps : forall A (m : M A),
  (forall ks, NoDup ks -> npres fo ks TTv TTv TTf m) -> keeps_sys_keys_M m.
Proof.
  intros A m H s s' r Hnd E.
  apply (sys_inv_iff (map fst (e_sys (s_env s)))). eapply (H _ Hnd); [|exact E].
  apply sys_inv_iff. reflexivity.
Qed.

Section Stack.
Variable child : runner fo.
Hypothesis Hchild : keeps_sys_keys child.

Theorem run_compile_keeps_sys_keys : forall cx cur cname sc name arg,
  keeps_sys_keys_M (run_compile child cx cur cname sc name arg).
Proof.
  intros. apply npres_keeps. intros ks Hnd.
  apply npres_run_compile; try exact Hnd; try (intros; exact I). apply keeps_child_ok; assumption.
Qed.

Theorem block_compile_keeps_sys_keys : forall cx cur bc cname cmd num argument code_block,
  keeps_sys_keys_M (block_compile child cx cur bc cname cmd num argument code_block).
Proof.
  intros. apply npres_keeps. intros ks Hnd.
  apply npres_block_compile; try exact Hnd; try (intros; exact I). apply keeps_child_ok; assumption.
Qed.

Theorem exec_line_keeps_sys_keys : forall cx c n code_block,
  keeps_sys_keys_M (exec_line fo child cx c n code_block).
Proof.
  intros. apply npres_keeps. intros ks Hnd.
  apply npres_exec_line; try exact Hnd; try (intros; exact I). apply keeps_child_ok; assumption.
Qed.

Theorem exec_cmds_keeps_sys_keys : forall cx cmds acc,
  keeps_sys_keys_M (exec_cmds fo child cx cmds acc).
Proof.
  intros. apply npres_keeps. intros ks Hnd.
  apply npres_exec_cmds; try exact Hnd; try (intros; exact I). apply keeps_child_ok; assumption.
Qed.

Theorem run_with_keeps_sys_keys : keeps_sys_keys (run_with fo child).
Proof.
  intros cx g e code g' cr e' Hnd H.
  apply (sys_inv_iff (map fst (e_sys e))).
  eapply (run_with_names fo _ Hnd TTv TTv TTf); try (intros; exact I); [|apply sys_inv_iff; reflexivity|exact H].
  apply keeps_child_ok; assumption.
Qed.
End Stack.

Theorem run_keeps_sys_keys : forall d, keeps_sys_keys (run fo d).
Proof.
  induction d as [|d IH]; cbn [run]; apply run_with_keeps_sys_keys.
  - intros cx g e code g' cr e' _ H. discriminate H.
  - exact IH.
Qed.

Theorem compile_items_sys_keys : forall o fs file cmds g c,
  compile_items fo o fs file cmds = (g, IOk _ c) ->
  map fst (e_sys (final_env fo c)) = [default_delay_var].
Proof.
  intros o fs file cmds g c H. unfold compile_items in H.
  destruct (run _ _ _ _ _ _) as [g0 [[cr e]| | |]] eqn:E; try discriminate.
  injection H as _ <-. cbn [final_env].
  apply run_keeps_sys_keys in E; [exact E|]. cbn. constructor; [intros []|constructor].
Qed.

(* ------------------------------------------------------------------ exact frame, commands without a child stack *)
Definition plain_kind (k : runkind) : bool :=
  match k with RKDefaultDelay | RKRun | RKStart => false | _ => true end.

Ltac frame_leaf H :=
  repeat match type of H with
         | (if ?b then _ else _) _ = _ => destruct b
         | match ?x with _ => _ end _ = _ => destruct x
         | match ?x with _ => _ end = _ => destruct x
         end;
  try (injection H as <- _; reflexivity).

Theorem run_compile_sys_exact : forall child cx cur cname sc name arg s s' r,
  plain_kind (s_run sc) = true ->
  run_compile child cx cur cname sc name arg s = (s', r) ->
  e_sys (s_env s') = e_sys (s_env s).
Proof.
  intros child cx cur cname sc name arg s s' r Hk H. unfold Interp.run_compile in H.
  destruct (s_run sc); try discriminate Hk; clear Hk.
  - frame_leaf H.
  - frame_leaf H.
  - frame_leaf H.
  - frame_leaf H.
  - frame_leaf H.
  - destruct arg as [l|]; [|frame_leaf H]. unfold bindM, mod_glob in H. injection H as <- _. reflexivity.
  - frame_leaf H.
  - frame_leaf H.
  - frame_leaf H.
  - (* VAR *)
    destruct arg as [l|]; [|frame_leaf H].
    destruct (split_ws1 _) as [|vname [|expr [|x y]]]; try solve [frame_leaf H].
    unfold bindM at 1 in H. destruct (tokenizeM fo cx cur expr s) as [s1 r1] eqn:Et.
    pose proof (tokenizeM_state fo _ _ _ _ _ _ Et) as ->.
    destruct r1 as [v|e t|k|]; try (injection H as <- _; reflexivity).
    unfold bindM at 1 in H. unfold new_var in H. destruct (is_var vname false).
    + cbn in H. injection H as <- _. reflexivity.
    + cbn in H. injection H as <- _. reflexivity.
  - destruct arg as [l|]; [|frame_leaf H]. unfold bindM, get_env in H. frame_leaf H.
  - destruct arg as [l|]; [|frame_leaf H]. unfold bindM, get_env in H. frame_leaf H.
Qed.

(* DEFAULT_DELAY: the one write -- the value of the existing key default_delay_var *)
Theorem default_delay_sys : forall child cx cur cname sc name arg s s' r,
  s_run sc = RKDefaultDelay ->
  run_compile child cx cur cname sc name arg s = (s', r) ->
  e_sys (s_env s') = e_sys (s_env s) \/
  exists n, has_key default_delay_var (e_sys (s_env s)) = true /\
            e_sys (s_env s') = upd default_delay_var (VInt n) (e_sys (s_env s)).
Proof.
  intros child cx cur cname sc name arg s s' r Hk H. unfold Interp.run_compile in H. rewrite Hk in H.
  destruct arg as [l|]; [|injection H as <- _; left; reflexivity].
  unfold bindM at 1, get_env at 1 in H.
  destruct (l_content l) as [t|n]; [injection H as <- _; left; reflexivity|].
  destruct (has_key default_delay_var (e_sys (s_env s))) eqn:Ek; [|injection H as <- _; left; reflexivity].
  cbn in H. injection H as <- _. right. exists n. split; [reflexivity|reflexivity].
Qed.

(* FUNC and IGNORE never touch e_sys either *)
Theorem block_compile_sys_exact : forall child cx cur bc cname cmd num argument cb s s' r,
  (b_kind bc = BKFunc \/ b_kind bc = BKIgnore) ->
  block_compile child cx cur bc cname cmd num argument cb s = (s', r) ->
  e_sys (s_env s') = e_sys (s_env s).
Proof.
  intros child cx cur bc cname cmd num argument cb s s' r Hk H. unfold Interp.block_compile in H.
  unfold bindM at 1 in H.
  destruct (check_flipper fo cx cur (b_flipper_only bc) s) as [s1 r1] eqn:E1.
  assert (s1 = s) as ->.
  { unfold check_flipper in E1. destruct (_ && _); injection E1 as <- _; reflexivity. }
  destruct r1 as [u| | |]; try (injection H as <- _; reflexivity).
  unfold bindM at 1 in H.
  match type of H with context [match ?m s with _ => _ end] => destruct (m s) as [s2 r2] eqn:E2 end.
  assert (s2 = s) as ->.
  { destruct (b_arg_req bc); try destruct (match argument with Some (_ :: _) => true | _ => false end);
      injection E2 as <- _; reflexivity. }
  destruct r2 as [u2| | |]; try (injection H as <- _; reflexivity).
  set (arg' := if b_strip_arg bc then _ else _) in H. clearbody arg'.
  destruct Hk as [Hk|Hk]; rewrite Hk in H.
  - destruct arg' as [a|]; [|injection H as <- _; reflexivity].
    destruct (break_arg a) as [fname var_string].
    destruct (_ && _); cbn in H; injection H as <- _; reflexivity.
  - destruct (block_lines _); injection H as <- _; reflexivity.
Qed.

(* ================================================================== instance 2: stored names are identifiers *)
Definition Pu_id (kv : str * value) : Prop := identb (fst kv) = true.
Definition Pt_id (kv : str * value) : Prop := fst kv = if_success.
Definition Pf_id (kf : str * func) : Prop :=
  identb (fst kf) = true /\ forallb identb (fn_args (snd kf)) = true.

Definition ident_inv (e : env) : Prop := names_inv fo [default_delay_var] Pu_id Pt_id Pf_id e.

Lemma ks_nodup1 : NoDup [default_delay_var].
Proof. constructor; [intros []|constructor]. Qed.

Lemma Pu_id_var : forall name (v : value), is_var name false = true -> Pu_id (name, v).
Proof. intros name v H. unfold Pu_id. cbn [fst]. rewrite <- is_var_spec_lemma. exact H. Qed.

Lemma Pt_id_flag : forall b, Pt_id (if_success, VBool b).
Proof. intro b. reflexivity. Qed.

Lemma Pf_id_func : forall fname fvars code file,
  is_var fname false = true -> forallb (fun v => is_var v false) fvars = true ->
  Pf_id (fname, mkFunc fvars code file).
Proof.
  intros fname fvars code file H1 H2. unfold Pf_id. cbn [fst snd fn_args].
  rewrite <- is_var_spec_lemma, <- forallb_is_var. split; assumption.
Qed.

Lemma Pu_id_param : forall k f a (v : value), Pf_id (k, f) -> In a (fn_args f) -> Pu_id (a, v).
Proof.
  intros k f a v [_ H] Hin. cbn [snd] in H. unfold Pu_id. cbn [fst].
  rewrite forallb_forall in H. apply H. exact Hin.
Qed.

Definition keeps_ident (child : runner fo) : Prop :=
  forall cx g e code g' cr e', ident_inv e -> child cx g e code = (g', IOk _ (cr, e')) -> ident_inv e'.

Theorem run_with_keeps_ident : forall child, keeps_ident child -> keeps_ident (run_with fo child).
Proof.
  intros child H.
  exact (run_with_names fo _ ks_nodup1 Pu_id Pt_id Pf_id Pu_id_var Pt_id_flag Pf_id_func Pu_id_param child H).
Qed.

Theorem run_keeps_ident : forall d, keeps_ident (run fo d).
Proof. exact (run_names fo _ ks_nodup1 Pu_id Pt_id Pf_id Pu_id_var Pt_id_flag Pf_id_func Pu_id_param). Qed.

Theorem exec_cmds_keeps_ident : forall child cx cmds acc s s' r,
  keeps_ident child -> ident_inv (s_env s) -> exec_cmds fo child cx cmds acc s = (s', r) -> ident_inv (s_env s').
Proof.
  intros child cx cmds acc s s' r H Hs E.
  exact (npres_exec_cmds fo _ ks_nodup1 Pu_id Pt_id Pf_id Pu_id_var Pt_id_flag Pf_id_func Pu_id_param child H
           cx cmds acc s s' r Hs E).
Qed.

Theorem exec_line_keeps_ident : forall child cx c n cb s s' r,
  keeps_ident child -> ident_inv (s_env s) -> exec_line fo child cx c n cb s = (s', r) -> ident_inv (s_env s').
Proof.
  intros child cx c n cb s s' r H Hs E.
  exact (npres_exec_line fo _ ks_nodup1 Pu_id Pt_id Pf_id Pu_id_var Pt_id_flag Pf_id_func Pu_id_param child H
           cx c n cb s s' r Hs E).
Qed.

Lemma ident_inv_initial : ident_inv (initial_env fo).
Proof. unfold ident_inv, names_inv. cbn. repeat split; constructor. Qed.

Theorem compile_items_ident_inv : forall o fs file cmds g c,
  compile_items fo o fs file cmds = (g, IOk _ c) -> ident_inv (final_env fo c).
Proof.
  intros o fs file cmds g c H. unfold compile_items in H.
  destruct (run _ _ _ _ _ _) as [g0 [[cr e]| | |]] eqn:E; try discriminate.
  injection H as _ <-. cbn [final_env].
  eapply run_keeps_ident; [|exact E]. apply ident_inv_initial.
Qed.

(* what the invariant says in plain words *)
Lemma ident_inv_user : forall e k v, ident_inv e -> lookup k (e_user e) = Some v -> identb k = true.
Proof.
  intros e k v (_ & H & _) Hl. rewrite Forall_forall in H. exact (H _ (lookup_In _ _ _ Hl)).
Qed.

Lemma ident_inv_funcs : forall e k f, ident_inv e -> lookup k (e_funcs e) = Some f ->
  identb k = true /\ forallb identb (fn_args f) = true.
Proof.
  intros e k f (_ & _ & _ & H) Hl. rewrite Forall_forall in H. exact (H _ (lookup_In _ _ _ Hl)).
Qed.

Lemma ident_inv_no_dollar_user : forall e r, ident_inv e -> has_key (36%N :: r) (e_user e) = false.
Proof.
  intros e r H. unfold has_key. destruct (lookup (36%N :: r) (e_user e)) as [v|] eqn:E; [|reflexivity].
  apply (ident_inv_user e _ v H) in E. rewrite dollar_not_ident in E. discriminate E.
Qed.

Lemma ident_inv_no_dollar_funcs : forall e r, ident_inv e -> has_key (36%N :: r) (e_funcs e) = false.
Proof.
  intros e r H. unfold has_key. destruct (lookup (36%N :: r) (e_funcs e)) as [f|] eqn:E; [|reflexivity].
  apply (ident_inv_funcs e _ f H) in E. destruct E as [E _]. rewrite dollar_not_ident in E. discriminate E.
Qed.

(* every name an expression can see is an identifier of Spec/Spelling.v *)
Theorem ident_inv_vars_ident : forall e, ident_inv e -> vars_ident fo (all_vars e).
Proof.
  intros e (H1 & H2 & H3 & H4). unfold vars_ident, Interp.all_vars.
  destruct sys_names_ident as [Hd Hi].
  apply Forall_upd_all; [|apply Forall_upd_all; [|apply Forall_upd_all; [|constructor]]].
  - rewrite Forall_forall in *. intros kv Hin. apply identb_ident. exact (H2 kv Hin).
  - rewrite Forall_forall in *. intros kv Hin. rewrite (H3 kv Hin). exact Hi.
  - rewrite Forall_forall. intros kv Hin.
    assert (Hk : In (fst kv) (map fst (e_sys e))) by (apply in_map; exact Hin).
    rewrite H1 in Hk. destruct Hk as [<-|[]]. exact Hd.
Qed.

(* ================================================================== readability *)
Lemma fold_pass_nil : forall rows (a : ptree fo),
  fold_left (fun '(a, r) row => pass fo row a r) rows (a, []) = (a, []).
Proof. induction rows as [|row rows IH]; intro a; cbn [fold_left pass]; [reflexivity|apply IH]. Qed.

Lemma value_of_single : forall vars n v, lookup n vars = Some v ->
  value_of_tokens fo vars [SVar n] = Ok (normalise fo v).
Proof.
  intros vars n v Hl. unfold value_of_tokens. cbn [map ptok_of]. rewrite Hl.
  unfold build_tree. cbn [structure structure_rest option_map]. rewrite fold_pass_nil. reflexivity.
Qed.

Lemma bool_safe_kw_free : forall n, bool_safe n = true -> kw_free n = true.
Proof.
  intros n H. unfold bool_safe, kw_free in *. rewrite forallb_forall in *. intros kw Hin.
  specialize (H kw Hin). apply andb_true_iff in H. apply H.
Qed.

Lemma ident_name_start : forall n, ident n = true -> name_start n = true.
Proof. intros [|c r] H; [discriminate H|]. cbn in *. apply andb_true_iff in H. apply H. Qed.

Lemma vars_ident_lookup : forall vars n v, vars_ident fo vars -> lookup n vars = Some v -> ident n = true.
Proof.
  intros vars n v Hvi Hl. unfold vars_ident in Hvi. rewrite Forall_forall in Hvi.
  exact (Hvi _ (lookup_In _ _ _ Hl)).
Qed.

(* the accepted name, alone or surrounded by any whitespace, evaluates to its (normalised) value,
   whatever other names are defined -- prefixes or extensions of it included *)
Theorem accepted_readable_ws : forall vars n v ws1 ws2,
  vars_ident fo vars -> lookup n vars = Some v -> bool_safe n = true ->
  forallb isspace_c ws1 = true -> forallb isspace_c ws2 = true ->
  tokenize fo vars (ws1 ++ n ++ ws2) = Ok (normalise fo v).
Proof.
  intros vars n v ws1 ws2 Hvi Hl Hbs H1 H2.
  pose proof (vars_ident_lookup vars n v Hvi Hl) as Hid.
  assert (Ha : alternating [SVar n]) by (cbn; auto).
  assert (Hw : well_formed fo vars [SVar n]).
  { constructor; [|constructor]. cbn [tok_ok]. repeat split.
    - apply ident_name_start. exact Hid.
    - apply bool_safe_kw_free. exact Hbs.
    - rewrite Hl. discriminate. }
  assert (Hst : strict [SVar n]) by (constructor; [split; assumption|constructor]).
  assert (Hlay : layout_ok [ws1; ws2]) by (repeat constructor; assumption).
  pose proof (tokenize_spelled fo vars [ws1; ws2] [SVar n] Ha Hw Hlay
                (boundaries_of_ident_alt fo vars [SVar n] [ws1; ws2] Hvi Ha Hw Hst Hlay)) as Ht.
  cbn [spell hd tl spell_tok] in Ht. rewrite Ht. apply value_of_single. exact Hl.
Qed.

Theorem accepted_readable : forall vars n v,
  vars_ident fo vars -> lookup n vars = Some v -> bool_safe n = true ->
  tokenize fo vars n = Ok (normalise fo v).
Proof.
  intros vars n v Hvi Hl Hbs.
  pose proof (accepted_readable_ws vars n v [] [] Hvi Hl Hbs eq_refl eq_refl) as H.
  cbn [app] in H. rewrite app_nil_r in H. exact H.
Qed.

(* stored values that came out of an expression are already normalised *)
Lemma normalise_idem : forall v : value, normalise fo (normalise fo v) = normalise fo v.
Proof.
  intros [z|f|s|b|l|]; cbn [normalise]; try reflexivity.
  destruct (f_is_integer fo f) eqn:E; cbn [normalise]; [reflexivity|rewrite E; reflexivity].
Qed.

Lemma tokenize_normalised : forall vars e v, tokenize fo vars e = Ok v -> normalise fo v = v.
Proof.
  intros vars e v H. unfold tokenize in H. cbn [tokenize_fuel] in H.
  destruct (convert_string fo vars e) as [toks| | |]; cbn [bind] in H; try discriminate.
  destruct (build_tree fo toks) as [tree| | |]; cbn [bind] in H; try discriminate.
  destruct (solve fo _ tree) as [w| | |]; cbn [bind] in H; try discriminate.
  injection H as <-. apply normalise_idem.
Qed.

(* ------------------------------------------------------------------ all_vars: the user table wins *)
Lemma all_vars_lookup_user : forall e k v, nodup_keys (e_user e) ->
  lookup k (e_user e) = Some v -> lookup k (all_vars e) = Some v.
Proof.
  intros e k v Hnd Hl. unfold Interp.all_vars. rewrite lookup_upd_all_nodup by exact Hnd.
  rewrite Hl. reflexivity.
Qed.

(* ------------------------------------------------------------------ EXIST / NOT_EXIST *)
Theorem exist_ok : forall child cx cur cname sc name l s,
  s_run sc = RKExist ->
  run_compile child cx cur cname sc name (Some l) s =
  (s, if has_key (content_text (l_content l)) (all_vars (s_env s)) then IOk _ RNone
      else IErr _ EGeneral (Some (here cx cur (s_line2 s)))).
Proof.
  intros child cx cur cname sc name l s Hk. unfold Interp.run_compile. rewrite Hk.
  unfold bindM, get_env. destruct (has_key _ _); reflexivity.
Qed.

Theorem not_exist_ok : forall child cx cur cname sc name l s,
  s_run sc = RKNotExist ->
  run_compile child cx cur cname sc name (Some l) s =
  (s, if has_key (content_text (l_content l)) (all_vars (s_env s))
      then IErr _ EGeneral (Some (here cx cur (s_line2 s))) else IOk _ RNone).
Proof.
  intros child cx cur cname sc name l s Hk. unfold Interp.run_compile. rewrite Hk.
  unfold bindM, get_env. destruct (has_key _ _); reflexivity.
Qed.

(* ------------------------------------------------------------------ end to end: VAR, then read / EXIST *)
Theorem var_then_readable : forall child cx cur cname sc name l vname expr s v,
  ident_inv (s_env s) -> nodup_keys (e_user (s_env s)) ->
  s_run sc = RKVar ->
  split_ws1 (content_text (l_content l)) = [vname; expr] ->
  tokenize fo (all_vars (s_env s)) expr = Ok v ->
  identb vname = true ->
  exists s',
    run_compile child cx cur cname sc name (Some l) s = (s', IOk _ RNone) /\
    ident_inv (s_env s') /\
    has_key vname (all_vars (s_env s')) = true /\
    (bool_safe vname = true -> tokenize fo (all_vars (s_env s')) vname = Ok v).
Proof.
  intros child cx cur cname sc name l vname expr s v Hinv Hnd Hk Hsp Htok Hid.
  exists (store_user fo vname v s). split; [eapply var_accept; eassumption|].
  assert (Hinv' : ident_inv (s_env (store_user fo vname v s))).
  { unfold store_user. cbn [Interp.s_env]. apply names_inv_upd_user; [exact Hinv|exact Hid]. }
  assert (Hl : lookup vname (all_vars (s_env (store_user fo vname v s))) = Some v).
  { apply all_vars_lookup_user; [|apply store_user_lookup_same].
    unfold store_user. cbn. apply nodup_keys_upd. exact Hnd. }
  split; [exact Hinv'|]. split; [unfold has_key; rewrite Hl; reflexivity|].
  intro Hbs. rewrite (accepted_readable _ vname v (ident_inv_vars_ident _ Hinv') Hl Hbs).
  rewrite (tokenize_normalised _ _ _ Htok). reflexivity.
Qed.

(* ------------------------------------------------------------------ the known finding *)
Theorem keyword_prefix_unreadable : forall vars name,
  In name [[84]; [84;82]; [84;82;85]; [70]; [70;65]; [70;65;76]; [70;65;76;83]]%N ->
  identb name = true /\ tokenize fo vars name = Err EExpectedToken.
Proof.
  intros vars name Hin. split.
  - cbn [In] in Hin. repeat (destruct Hin as [<-|Hin]; [reflexivity|]). contradiction.
  - unfold tokenize. cbn [tokenize_fuel].
    rewrite (reaches_convert fo vars name _ (keyword_prefix_name_at_end_fails fo vars name [] Hin)).
    reflexivity.
Qed.


(* names that START WITH a keyword are accepted by VAR as well, and can never be read: Boolean takes
   the keyword and the rest of the name is not an operator *)
Theorem keyword_prefixed_unreadable : forall vars,
  let TRUEX := [84;82;85;69;88]%N in
  let FALSE_1 := [70;65;76;83;69;95;49]%N in
  identb TRUEX = true /\ identb FALSE_1 = true /\
  tokenize fo vars TRUEX = Err EExpectedToken /\
  tokenize fo vars FALSE_1 = Err EExpectedToken /\
  tokenize fo vars (TRUEX ++ [43;49]%N) = Err EExpectedToken.
Proof. intros vars. repeat split; vm_compute; reflexivity. Qed.

(* VAR accepts exactly the identifiers *)
Theorem var_accepted_iff : forall child cx cur cname sc name l vname expr s v,
  s_run sc = RKVar ->
  split_ws1 (content_text (l_content l)) = [vname; expr] ->
  tokenize fo (all_vars (s_env s)) expr = Ok v ->
  ((exists s', run_compile child cx cur cname sc name (Some l) s = (s', IOk _ RNone)) <-> identb vname = true).
Proof.
  intros child cx cur cname sc name l vname expr s v Hk Hsp Htok. split.
  - intros [s' H]. destruct (identb vname) eqn:E; [reflexivity|].
    destruct (var_reject_any fo child cx cur cname sc name l vname expr s s' _ Hk Hsp E H) as [_ Hne].
    exfalso. exact (Hne RNone eq_refl).
  - intro Hid. eexists. eapply var_accept; eassumption.
Qed.

(* in an expression: name + 0 *)
Theorem accepted_readable_plus0 : forall vars n v,
  vars_ident fo vars -> lookup n vars = Some v -> bool_safe n = true ->
  tokenize fo vars (n ++ [43;48]%N) =
  (do r <- apply_op fo OCMath [43]%N v (VInt 0); Ok (normalise fo r)).
Proof.
  intros vars n v Hvi Hl Hbs.
  pose proof (vars_ident_lookup vars n v Hvi Hl) as Hid.
  set (toks := [SVar n; SOp OCMath [43]%N; SInt [48]%N]).
  assert (Ha : alternating toks) by (cbn; auto).
  assert (Hw : well_formed fo vars toks).
  { constructor; [|constructor; [|constructor; [|constructor]]].
    - cbn [tok_ok]. repeat split.
      + apply ident_name_start. exact Hid.
      + apply bool_safe_kw_free. exact Hbs.
      + rewrite Hl. discriminate.
    - cbn. auto.
    - reflexivity. }
  assert (Hst : strict toks) by (constructor; [split; assumption|repeat constructor]).
  assert (Hlay : layout_ok []) by constructor.
  pose proof (tokenize_spelled fo vars [] toks Ha Hw Hlay
                (boundaries_of_ident_alt fo vars toks [] Hvi Ha Hw Hst Hlay)) as Ht.
  cbn [toks spell hd tl spell_tok app] in Ht. rewrite Ht.
  unfold value_of_tokens. cbn [toks map ptok_of]. rewrite Hl.
  replace (build_tree fo [PVal v; POp OCMath [43]%N; PVal (VInt (Z.of_N (dec_value [48]%N 0)))])
    with (Ok (Node OCMath [43]%N (Leaf (PVal v)) (Leaf (PVal (@VInt fo 0))))) by (vm_compute; reflexivity).
  reflexivity.
Qed.

(* names that are prefixes of one another: both readable, each with its own value *)
Theorem prefix_names_both_readable : forall vars n m v w,
  vars_ident fo vars -> lookup n vars = Some v -> lookup (n ++ m) vars = Some w ->
  bool_safe n = true -> bool_safe (n ++ m) = true ->
  tokenize fo vars n = Ok (normalise fo v) /\ tokenize fo vars (n ++ m) = Ok (normalise fo w).
Proof. intros vars n m v w Hvi H1 H2 B1 B2. split; apply accepted_readable; assumption. Qed.

(* whole programs: the final environment only holds identifiers as user variable / function /
   parameter names -- in particular no `$`-name *)
Theorem compile_items_user_ident : forall o fs file cmds g c,
  compile_items fo o fs file cmds = (g, IOk _ c) ->
  (forall k v, lookup k (e_user (final_env fo c)) = Some v -> identb k = true) /\
  (forall k f, lookup k (e_funcs (final_env fo c)) = Some f ->
               identb k = true /\ forallb identb (fn_args f) = true) /\
  (forall r, has_key (36%N :: r) (e_user (final_env fo c)) = false) /\
  (forall r, has_key (36%N :: r) (e_funcs (final_env fo c)) = false).
Proof.
  intros o fs file cmds g c H. apply compile_items_ident_inv in H.
  split; [|split; [|split]].
  - intros k v Hl. exact (ident_inv_user _ k v H Hl).
  - intros k f Hl. exact (ident_inv_funcs _ k f H Hl).
  - intro r. apply ident_inv_no_dollar_user. exact H.
  - intro r. apply ident_inv_no_dollar_funcs. exact H.
Qed.

End WithFloats.
