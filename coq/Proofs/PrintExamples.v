(* C18: concrete witnesses, evaluated on the model with a dummy FloatOps.
   (1) the PRINT-erasure relation is inhabited by a non-trivial pair of programs and the two
       compilations are what the theorem says;
   (2) the two exclusions of the relation are necessary ($PRINT evaluates, a PRINT line inside an
       argument group is text);
   (3) the execution order of prints through REPEAT / RUN / START / STARTENV, with files;
   (4) prints of the completed prefix survive a failure. *)
From Coq Require Import NArith ZArith List Bool.
From DS Require Import Base PyStr Values Expr TabParse Tables Constants Interp C07Examples
  PipelineProofs PrintLines PrintErase.
Import ListNotations.

(* PRINT start | FUNC f |     PRINT in f |     STRING body | REPEAT 2 |     PRINT loop |     STRING x | IF TRUE |     PRINT yes | RUN f | PRINT end *)
Definition tA : str := [80;82;73;78;84;32;115;116;97;114;116;10;70;85;78;67;32;102;10;32;32;32;32;80;82;73;78;84;32;105;110;32;102;10;32;32;32;32;83;84;82;73;78;71;32;98;111;100;121;10;82;69;80;69;65;84;32;50;10;32;32;32;32;80;82;73;78;84;32;108;111;111;112;10;32;32;32;32;83;84;82;73;78;71;32;120;10;73;70;32;84;82;85;69;10;32;32;32;32;80;82;73;78;84;32;121;101;115;10;82;85;78;32;102;10;80;82;73;78;84;32;101;110;100]%N.
(* PASS | FUNC f |     print other text |     STRING body | REPEAT 2 |     PASS |     STRING x | IF TRUE |     PRINT yes | RUN f | Print END! *)
Definition tB : str := [80;65;83;83;10;70;85;78;67;32;102;10;32;32;32;32;112;114;105;110;116;32;111;116;104;101;114;32;116;101;120;116;10;32;32;32;32;83;84;82;73;78;71;32;98;111;100;121;10;82;69;80;69;65;84;32;50;10;32;32;32;32;80;65;83;83;10;32;32;32;32;83;84;82;73;78;71;32;120;10;73;70;32;84;82;85;69;10;32;32;32;32;80;82;73;78;84;32;121;101;115;10;82;85;78;32;102;10;80;114;105;110;116;32;69;78;68;33]%N.
(* $PRINT nosuchvar | STRING a *)
Definition tC1 : str := [36;80;82;73;78;84;32;110;111;115;117;99;104;118;97;114;10;83;84;82;73;78;71;32;97]%N.
(* PASS | STRING a *)
Definition tC2 : str := [80;65;83;83;10;83;84;82;73;78;71;32;97]%N.
(* STRING |     PRINT hello *)
Definition tD1 : str := [83;84;82;73;78;71;10;32;32;32;32;80;82;73;78;84;32;104;101;108;108;111]%N.
(* STRING |     PASS *)
Definition tD2 : str := [83;84;82;73;78;71;10;32;32;32;32;80;65;83;83]%N.
(* PRINT one | START lib | STARTENV lib | FUNC g |     PRINT in g | REPEAT 2 |     RUN g | RUN libf | PRINT last *)
Definition tMAIN : str := [80;82;73;78;84;32;111;110;101;10;83;84;65;82;84;32;108;105;98;10;83;84;65;82;84;69;78;86;32;108;105;98;10;70;85;78;67;32;103;10;32;32;32;32;80;82;73;78;84;32;105;110;32;103;10;82;69;80;69;65;84;32;50;10;32;32;32;32;82;85;78;32;103;10;82;85;78;32;108;105;98;102;10;80;82;73;78;84;32;108;97;115;116]%N.
(* PRINT in lib | FUNC libf |     PRINT in libf *)
Definition tLIB : str := [80;82;73;78;84;32;105;110;32;108;105;98;10;70;85;78;67;32;108;105;98;102;10;32;32;32;32;80;82;73;78;84;32;105;110;32;108;105;98;102]%N.
(* PRINT before | REPEAT 2 |     PRINT inside | STRING |     x |         y | PRINT never *)
Definition tFAIL : str := [80;82;73;78;84;32;98;101;102;111;114;101;10;82;69;80;69;65;84;32;50;10;32;32;32;32;80;82;73;78;84;32;105;110;115;105;100;101;10;83;84;82;73;78;71;10;32;32;32;32;120;10;32;32;32;32;32;32;32;32;121;10;80;82;73;78;84;32;110;101;118;101;114]%N.
Definition w_main_txt : str := [109;97;105;110;46;116;120;116]%N.
Definition w_lib_txt : str := [108;105;98;46;116;120;116]%N.
Definition w_start : str := [115;116;97;114;116]%N.
Definition w_loop : str := [108;111;111;112]%N.
Definition w_in_f : str := [105;110;32;102]%N.
Definition w_yes : str := [121;101;115]%N.
Definition w_end : str := [101;110;100]%N.
Definition w_other_text : str := [111;116;104;101;114;32;116;101;120;116]%N.
Definition w_ENDX : str := [69;78;68;33]%N.
Definition w_one : str := [111;110;101]%N.
Definition w_in_lib : str := [105;110;32;108;105;98]%N.
Definition w_in_g : str := [105;110;32;103]%N.
Definition w_in_libf : str := [105;110;32;108;105;98;102]%N.
Definition w_last : str := [108;97;115;116]%N.
Definition w_before : str := [98;101;102;111;114;101]%N.
Definition w_inside : str := [105;110;115;105;100;101]%N.
Definition w_STRING_x : str := [83;84;82;73;78;71;32;120]%N.
Definition w_STRING_body : str := [83;84;82;73;78;71;32;98;111;100;121]%N.
Definition w_main : str := [109;97;105;110]%N.
Definition w_lib : str := [108;105;98]%N.
Definition w_STRING_a : str := [83;84;82;73;78;71;32;97]%N.
Definition w_STRING_PRINT_hello : str := [83;84;82;73;78;71;32;80;82;73;78;84;32;104;101;108;108;111]%N.
Definition w_STRING_PASS : str := [83;84;82;73;78;71;32;80;65;83;83]%N.

Definition items_of (t : str) : list item := match prepare_text t with TOk c => c | TErr _ => [] end.

(* output texts, prints (text, line, file) in execution order; or the error class with the prints
   held by the glob at failure (oldest first) *)
Definition showp (r : glob * ires (compiled fo0)) :=
  match snd r with
  | IOk c => inl (map o_text (out fo0 c), map (fun p => (p_text p, p_num p, p_file p)) (prints fo0 c))
  | IErr e _ => inr (Some e, map (fun p => (p_text p, p_num p, p_file p)) (rev (g_prints (fst r))))
  | _ => inr (None, [])
  end.

(* ------------------------------------------------------------------ (1) *)
Definition pA := items_of tA.
Definition pB := items_of tB.
Definition EAB : option path -> Z -> Prop := fun _ n => In n [1; 3; 6; 11]%Z.

Ltac sil := first [ left; eexists; eexists; split; [vm_compute; reflexivity|vm_compute; reflexivity]
                  | right; eexists; split; [vm_compute; reflexivity|vm_compute; reflexivity] ].
Ltac silr := first [ left; eexists; split; [vm_compute; reflexivity|vm_compute; reflexivity]
                   | right; split; [exact I|sil] ].

Example pA_pB_related : perase EAB True None pA pB.
Proof.
  unfold pA, pB, items_of. vm_compute (prepare_text tA). vm_compute (prepare_text tB). cbv iota.
  apply pe_silent; [sil|silr|vm_compute; tauto|exact I|].
  apply pe_code; [vm_compute; reflexivity| |].
  { apply pe_silent; [sil|silr|vm_compute; tauto|exact I|]. apply pe_line. apply pe_nil. }
  apply pe_code; [vm_compute; reflexivity| |].
  { apply pe_silent; [sil|silr|vm_compute; tauto|exact I|]. apply pe_line. apply pe_nil. }
  apply pe_line. apply pe_blk. apply pe_line.
  apply pe_silent; [sil|silr|vm_compute; tauto|exact I|]. apply pe_nil.
Qed.

Example pA_result : showp (compile_items fo0 o0 (fun _ => None) None pA) =
  inl ([w_STRING_x; w_STRING_x; w_STRING_body],
       [(w_start, 1%Z, None); (w_loop, 6%Z, None); (w_loop, 6%Z, None); (w_yes, 9%Z, None);
        (w_in_f, 3%Z, None); (w_end, 11%Z, None)]).
Proof. vm_compute. reflexivity. Qed.

Example pB_result : showp (compile_items fo0 o0 (fun _ => None) None pB) =
  inl ([w_STRING_x; w_STRING_x; w_STRING_body],
       [(w_yes, 9%Z, None); (w_other_text, 3%Z, None); (w_ENDX, 11%Z, None)]).
Proof. vm_compute. reflexivity. Qed.


(* pure erasure ([Add := False]): lines 1 and 6 become PASS, nothing else changes *)
(* PASS | FUNC f |     PRINT in f |     STRING body | REPEAT 2 |     PASS |     STRING x | IF TRUE |     PRINT yes | RUN f | PRINT end *)
Definition tE : str := [80;65;83;83;10;70;85;78;67;32;102;10;32;32;32;32;80;82;73;78;84;32;105;110;32;102;10;32;32;32;32;83;84;82;73;78;71;32;98;111;100;121;10;82;69;80;69;65;84;32;50;10;32;32;32;32;80;65;83;83;10;32;32;32;32;83;84;82;73;78;71;32;120;10;73;70;32;84;82;85;69;10;32;32;32;32;80;82;73;78;84;32;121;101;115;10;82;85;78;32;102;10;80;82;73;78;84;32;101;110;100]%N.
Definition pE := items_of tE.

Example pA_pE_erased : perase EAB False None pA pE.
Proof.
  unfold pA, pE, items_of. vm_compute (prepare_text tA). vm_compute (prepare_text tE). cbv iota.
  apply pe_silent; [sil|left; eexists; split; [vm_compute; reflexivity|vm_compute; reflexivity]|vm_compute; tauto|exact I|].
  apply pe_line. apply pe_blk.
  apply pe_code; [vm_compute; reflexivity| |].
  { apply pe_silent; [sil|left; eexists; split; [vm_compute; reflexivity|vm_compute; reflexivity]|vm_compute; tauto|exact I|].
    apply pe_line. apply pe_nil. }
  apply perase_refl.
Qed.

Example pE_result : showp (compile_items fo0 o0 (fun _ => None) None pE) =
  inl ([w_STRING_x; w_STRING_x; w_STRING_body],
       [(w_yes, 9%Z, None); (w_in_f, 3%Z, None); (w_end, 11%Z, None)]).
Proof. vm_compute. reflexivity. Qed.

Example pA_pB_pE_results :
  showp (compile_items fo0 o0 (fun _ => None) None pA) =
    inl ([w_STRING_x; w_STRING_x; w_STRING_body],
         [(w_start, 1%Z, None); (w_loop, 6%Z, None); (w_loop, 6%Z, None); (w_yes, 9%Z, None);
          (w_in_f, 3%Z, None); (w_end, 11%Z, None)]) /\
  showp (compile_items fo0 o0 (fun _ => None) None pB) =
    inl ([w_STRING_x; w_STRING_x; w_STRING_body],
         [(w_yes, 9%Z, None); (w_other_text, 3%Z, None); (w_ENDX, 11%Z, None)]) /\
  showp (compile_items fo0 o0 (fun _ => None) None pE) =
    inl ([w_STRING_x; w_STRING_x; w_STRING_body],
         [(w_yes, 9%Z, None); (w_in_f, 3%Z, None); (w_end, 11%Z, None)]).
Proof. exact (conj pA_result (conj pB_result pE_result)). Qed.

(* ------------------------------------------------------------------ (2) the exclusions are necessary *)
(* $PRINT evaluates its argument: replacing it by PASS turns a failing compilation into a
   successful one *)
Example dollar_print_is_not_silent :
  showp (compile_items fo0 o0 (fun _ => None) None (items_of tC1)) = inr (Some EExpectedToken, []) /\
  showp (compile_items fo0 o0 (fun _ => None) None (items_of tC2)) = inl ([w_STRING_a], []).
Proof. split; vm_compute; reflexivity. Qed.

(* a PRINT line inside the argument group of STRING is text, not a command *)
Example print_in_argument_group_is_text :
  showp (compile_items fo0 o0 (fun _ => None) None (items_of tD1)) = inl ([w_STRING_PRINT_hello], []) /\
  showp (compile_items fo0 o0 (fun _ => None) None (items_of tD2)) = inl ([w_STRING_PASS], []).
Proof. split; vm_compute; reflexivity. Qed.

(* the relation keeps the SHAPE of the program (a silent line is replaced, never deleted): deleting
   the only line of a REPEAT body turns the block form into the legacy one-line REPEAT *)
(* REPEAT 2 |     PRINT x        vs        REPEAT 2 *)
Definition tF1 : str := [82;69;80;69;65;84;32;50;10;32;32;32;32;80;82;73;78;84;32;120]%N.
Definition tF2 : str := [82;69;80;69;65;84;32;50]%N.
Definition w_REPEAT_2 : str := [82;69;80;69;65;84;32;50]%N.
Definition w_x : str := [120]%N.
Example deleting_a_print_line_is_visible :
  showp (compile_items fo0 o0 (fun _ => None) None (items_of tF1)) = inl ([], [(w_x, 2%Z, None); (w_x, 2%Z, None)]) /\
  showp (compile_items fo0 o0 (fun _ => None) None (items_of tF2)) = inl ([w_REPEAT_2], []).
Proof. split; vm_compute; reflexivity. Qed.

(* ------------------------------------------------------------------ (3) order and files *)
Definition p_main : path := [w_main_txt].
Definition p_lib : path := [w_lib_txt].
Definition fs1 : fsys := fun p => if path_eqb p p_lib then Some tLIB else None.

(* main.txt:  PRINT one | START lib | STARTENV lib | FUNC g / PRINT in g | REPEAT 2 / RUN g | RUN libf | PRINT last
   lib.txt:   PRINT in lib | FUNC libf / PRINT in libf
   START and STARTENV both add the print of lib.txt, tagged lib.txt; g prints with main.txt on
   each of the two iterations; libf was defined in lib.txt: its print is tagged lib.txt although
   it is called from main.txt *)
Example order_and_files : showp (compile_items fo0 o0 fs1 (Some p_main) (items_of tMAIN)) =
  inl ([], [(w_one, 1%Z, Some p_main); (w_in_lib, 1%Z, Some p_lib); (w_in_lib, 1%Z, Some p_lib);
            (w_in_g, 5%Z, Some p_main); (w_in_g, 5%Z, Some p_main);
            (w_in_libf, 3%Z, Some p_lib); (w_last, 9%Z, Some p_main)]).
Proof. vm_compute. reflexivity. Qed.

(* ------------------------------------------------------------------ (4) failure *)
(* PRINT before | REPEAT 2 / PRINT inside | STRING with a nested group (refused) | PRINT never *)
Example prints_before_failure : showp (compile_items fo0 o0 (fun _ => None) None (items_of tFAIL)) =
  inr (Some EInvalidArguments, [(w_before, 1%Z, None); (w_inside, 3%Z, None); (w_inside, 3%Z, None)]).
Proof. vm_compute. reflexivity. Qed.
