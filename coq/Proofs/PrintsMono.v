(* T2 (C18): the shared glob only grows.  Prints: the list after any action is [added ++ before]
   (newest first, so earlier prints keep their relative order and are never dropped, also when the
   action fails).  Warnings: every old warning is still present. *)
From Coq Require Import NArith ZArith List Bool Lia.
From DS Require Import Base PyStr Values Expr TabParse Tables Constants Interp StackLift.
Import ListNotations.

Definition prints_ext (g g' : glob) : Prop := exists added, g_prints g' = added ++ g_prints g.
Definition warns_incl (g g' : glob) : Prop := incl (g_warnings g) (g_warnings g').

Lemma prints_ext_refl : forall g, prints_ext g g.
Proof. intro g. exists []. reflexivity. Qed.

Lemma prints_ext_trans : forall a b c, prints_ext a b -> prints_ext b c -> prints_ext a c.
Proof.
  intros a b c [x Hx] [y Hy]. exists (y ++ x). rewrite Hy, Hx. apply app_assoc.
Qed.

Lemma prints_ext_warn : forall w g, prints_ext g (add_warning w g).
Proof. intros w g. unfold add_warning. destruct (existsb _ _); exists []; reflexivity. Qed.

Lemma prints_ext_print : forall p g, prints_ext g (mkGlob (p :: g_prints g) (g_warnings g)).
Proof. intros p g. exists [p]. reflexivity. Qed.

Lemma warns_incl_refl : forall g, warns_incl g g.
Proof. intro g. apply incl_refl. Qed.

Lemma warns_incl_trans : forall a b c, warns_incl a b -> warns_incl b c -> warns_incl a c.
Proof. intros a b c H1 H2. eapply incl_tran; eassumption. Qed.

Lemma warns_incl_warn : forall w g, warns_incl g (add_warning w g).
Proof.
  intros w g. unfold add_warning, warns_incl. destruct (existsb _ _); cbn [g_warnings];
    [apply incl_refl|apply incl_tl, incl_refl].
Qed.

Lemma warns_incl_print : forall p g, warns_incl g (mkGlob (p :: g_prints g) (g_warnings g)).
Proof. intros p g. apply incl_refl. Qed.

(* ------------------------------------------------------------------ any glob preorder kept by
   add_warning and by PRINT is kept by the whole interpreter *)
Section Rel.
Variable fo : FloatOps.
Variable Rg : glob -> glob -> Prop.
Hypothesis Rg_refl : forall g, Rg g g.
Hypothesis Rg_trans : forall a b c, Rg a b -> Rg b c -> Rg a c.
Hypothesis Rg_warn : forall w g, Rg g (add_warning w g).
Hypothesis Rg_print : forall p g, Rg g (mkGlob (p :: g_prints g) (g_warnings g)).

Definition runner_rel (r : runner fo) : Prop :=
  forall cx g e c g' res, r cx g e c = (g', res) -> Rg g g'.

Let Et0 : preline -> option (list frame) -> Prop := fun _ _ => True.
Let Call0 : preline -> option path -> list item -> Prop := fun _ _ _ => True.

Lemma runner_rel_child : forall child cx, runner_rel child ->
  forall cur l2 file g e code g' r,
  Call0 cur file code ->
  child (mkCtx (c_opts cx) (c_fs cx) (here cx cur l2) file) g e code = (g', r) ->
  Rg g g' /\ res_sat Et0 cur r.
Proof.
  intros child cx Hc cur l2 file g e code g' r _ E. split; [eapply Hc; exact E|].
  destruct r; exact I.
Qed.

Theorem exec_line_rel : forall child cx, runner_rel child ->
  forall c n cb s s' r, exec_line fo child cx c n cb s = (s', r) -> Rg (s_g fo s) (s_g fo s').
Proof.
  intros child cx Hc c n cb s s' r E.
  eapply (sat_exec_line fo Rg Rg_refl Rg_trans Rg_warn Rg_print child cx Et0
            (fun _ _ => I) (fun _ => I) Call0 (runner_rel_child child cx Hc)) in E.
  - exact (proj1 E).
  - apply line_calls_all. intros cur file code. exact I.
Qed.

Theorem exec_cmds_rel : forall child cx, runner_rel child ->
  forall cmds acc s s' r, exec_cmds fo child cx cmds acc s = (s', r) -> Rg (s_g fo s) (s_g fo s').
Proof.
  intros child cx Hc cmds acc s s' r E.
  eapply (sat_exec_cmds fo Rg Rg_refl Rg_trans Rg_warn Rg_print child cx Et0
            (fun _ _ => I) (fun _ => I) Call0 (runner_rel_child child cx Hc)) in E.
  - exact (proj1 E).
  - apply cmds_calls_all. intros cur file code. exact I.
Qed.

Theorem run_with_rel : forall child, runner_rel child -> runner_rel (run_with fo child).
Proof.
  intros child Hc cx g e cmds g' res E.
  eapply (sat_run_with fo Rg Rg_refl Rg_trans Rg_warn Rg_print child cx Et0
            (fun _ _ => I) (fun _ => I) Call0 (runner_rel_child child cx Hc)) in E.
  - exact (proj1 E).
  - apply cmds_calls_all. intros cur file code. exact I.
Qed.

Lemma no_child_rel : runner_rel (no_child fo).
Proof. intros cx g e c g' res E. injection E as <- _. apply Rg_refl. Qed.

Theorem run_rel : forall d, runner_rel (run fo d).
Proof.
  induction d as [|d IH]; cbn [run]; apply run_with_rel; [apply no_child_rel|exact IH].
Qed.

(* whatever the outcome, the glob returned by compile_items extends the glob [g0] of the run of
   the main stack ... *)
Theorem compile_items_rel : forall o fs file cmds g res,
  compile_items fo o fs file cmds = (g, res) ->
  exists g0 res0,
    run fo (run_depth o) (mkCtx o fs [] file) (mkGlob [] []) (initial_env fo) cmds = (g0, res0) /\
    Rg g0 g /\ (forall e t, res = IErr _ e t -> g = g0).
Proof.
  intros o fs file cmds g res E. unfold compile_items in E.
  destruct (run _ _ _ _ _ _) as [g0 res0] eqn:Er. exists g0, res0. split; [reflexivity|].
  destruct res0 as [[cr e]|er t|k|]; injection E as <- <-.
  - split; [|discriminate]. destruct (s_sig_warning _); [apply Rg_warn|apply Rg_refl].
  - split; [apply Rg_refl|reflexivity].
  - split; [apply Rg_refl|reflexivity].
  - split; [apply Rg_refl|reflexivity].
Qed.

(* ... and a line that completed normally keeps its effect on the glob whatever happens on the
   following lines *)
Theorem exec_cmds_after_line : forall child cx, runner_rel child ->
  forall c n rest acc s s' r,
  is_blank c = false ->
  exec_cmds fo child cx (Ln c n :: rest) acc s = (s', r) ->
  exists s1 r1,
    exec_line fo child cx c n (match rest with Blk b :: _ => Some b | _ => None end)
              (mkSt fo (s_g fo s) (s_env fo s) None) = (s1, r1) /\
    Rg (s_g fo s) (s_g fo s1) /\ Rg (s_g fo s1) (s_g fo s').
Proof.
  intros child cx Hc c n rest acc s s' r Hb E. cbn [exec_cmds] in E. rewrite Hb in E.
  unfold bindM at 1, set_line2 at 1 in E. unfold bindM at 1 in E.
  destruct (exec_line _ _ _ _ _ _ _) as [s1 r1] eqn:El. exists s1, r1. split; [reflexivity|].
  split; [apply exec_line_rel in El; [exact El|exact Hc]|].
  destruct r1 as [cr|e t|k|]; try (injection E as <- _; apply Rg_refl).
  destruct (cr_sig cr); try (injection E as <- _; apply Rg_refl).
  eapply exec_cmds_rel; [exact Hc|exact E].
Qed.

End Rel.

(* ------------------------------------------------------------------ instances *)
Section Mono.
Variable fo : FloatOps.

Definition prints_runner (r : runner fo) : Prop :=
  forall cx g e c g' res, r cx g e c = (g', res) -> exists added, g_prints g' = added ++ g_prints g.
Definition warnings_runner (r : runner fo) : Prop :=
  forall cx g e c g' res, r cx g e c = (g', res) -> incl (g_warnings g) (g_warnings g').

Theorem prints_mono_line : forall child cx, prints_runner child ->
  forall c n cb s s' r, exec_line fo child cx c n cb s = (s', r) ->
  exists added, g_prints (s_g fo s') = added ++ g_prints (s_g fo s).
Proof.
  exact (exec_line_rel fo prints_ext prints_ext_refl prints_ext_trans prints_ext_warn prints_ext_print).
Qed.

Theorem prints_mono : forall child cx, prints_runner child ->
  forall cmds acc s s' r, exec_cmds fo child cx cmds acc s = (s', r) ->
  exists added, g_prints (s_g fo s') = added ++ g_prints (s_g fo s).
Proof.
  exact (exec_cmds_rel fo prints_ext prints_ext_refl prints_ext_trans prints_ext_warn prints_ext_print).
Qed.

Theorem run_with_prints_mono : forall child, prints_runner child -> prints_runner (run_with fo child).
Proof.
  exact (run_with_rel fo prints_ext prints_ext_refl prints_ext_trans prints_ext_warn prints_ext_print).
Qed.

Theorem run_prints_mono : forall d, prints_runner (run fo d).
Proof.
  exact (run_rel fo prints_ext prints_ext_refl prints_ext_trans prints_ext_warn prints_ext_print).
Qed.

Theorem warnings_mono_line : forall child cx, warnings_runner child ->
  forall c n cb s s' r, exec_line fo child cx c n cb s = (s', r) ->
  incl (g_warnings (s_g fo s)) (g_warnings (s_g fo s')).
Proof.
  exact (exec_line_rel fo warns_incl warns_incl_refl warns_incl_trans warns_incl_warn warns_incl_print).
Qed.

Theorem warnings_mono : forall child cx, warnings_runner child ->
  forall cmds acc s s' r, exec_cmds fo child cx cmds acc s = (s', r) ->
  incl (g_warnings (s_g fo s)) (g_warnings (s_g fo s')).
Proof.
  exact (exec_cmds_rel fo warns_incl warns_incl_refl warns_incl_trans warns_incl_warn warns_incl_print).
Qed.

Theorem run_with_warnings_mono : forall child, warnings_runner child -> warnings_runner (run_with fo child).
Proof.
  exact (run_with_rel fo warns_incl warns_incl_refl warns_incl_trans warns_incl_warn warns_incl_print).
Qed.

Theorem run_warnings_mono : forall d, warnings_runner (run fo d).
Proof.
  exact (run_rel fo warns_incl warns_incl_refl warns_incl_trans warns_incl_warn warns_incl_print).
Qed.

(* compile_items: the prints of the run of the main stack are exactly the prints reported, also
   when compilation fails; on success the record lists them oldest first *)
Theorem compile_items_prints : forall o fs file cmds g res,
  compile_items fo o fs file cmds = (g, res) ->
  exists g0 res0,
    run fo (run_depth o) (mkCtx o fs [] file) (mkGlob [] []) (initial_env fo) cmds = (g0, res0) /\
    g_prints g = g_prints g0 /\ incl (g_warnings g0) (g_warnings g) /\
    (forall c, res = IOk _ c -> prints fo c = rev (g_prints g0)).
Proof.
  intros o fs file cmds g res E. unfold compile_items in E.
  destruct (run _ _ _ _ _ _) as [g0 res0] eqn:Er. exists g0, res0. split; [reflexivity|].
  destruct res0 as [[cr e]|er t|k|]; injection E as <- <-;
    try (split; [reflexivity|split; [apply incl_refl|discriminate]]).
  assert (Hp : forall w, g_prints (add_warning w g0) = g_prints g0).
  { intro w. unfold add_warning. destruct (existsb _ _); reflexivity. }
  destruct (s_sig_warning _) as [w|].
  - split; [apply Hp|]. split; [apply warns_incl_warn|]. intros c Hc. injection Hc as <-. cbn [prints].
    rewrite Hp. reflexivity.
  - split; [reflexivity|]. split; [apply incl_refl|]. intros c Hc. injection Hc as <-. reflexivity.
Qed.

(* the prints made by a line that completed survive everything that follows it in the stack,
   failure included, and stay below (= before, in execution order) the later ones *)
Theorem prints_survive_failure : forall child cx, prints_runner child ->
  forall c n rest acc s s' r,
  is_blank c = false ->
  exec_cmds fo child cx (Ln c n :: rest) acc s = (s', r) ->
  exists s1 r1 added1 added2,
    exec_line fo child cx c n (match rest with Blk b :: _ => Some b | _ => None end)
              (mkSt fo (s_g fo s) (s_env fo s) None) = (s1, r1) /\
    g_prints (s_g fo s1) = added1 ++ g_prints (s_g fo s) /\
    g_prints (s_g fo s') = added2 ++ added1 ++ g_prints (s_g fo s).
Proof.
  intros child cx Hc c n rest acc s s' r Hb E.
  destruct (exec_cmds_after_line fo prints_ext prints_ext_refl prints_ext_trans prints_ext_warn prints_ext_print
              child cx Hc c n rest acc s s' r Hb E) as (s1 & r1 & El & [a1 H1] & [a2 H2]).
  exists s1, r1, a1, a2. split; [exact El|]. split; [exact H1|]. rewrite H2, H1. reflexivity.
Qed.

End Mono.
