(* C02 (no DucklingScript keyword reaches the output unnoticed): in a compilation that succeeds
   WITHOUT any warning, with the unknown-command warning not suppressed, no output line comes from
   the unknown-command fall-back -- every line was emitted by a class of the palette, or is a raw
   IGNORE line / a legacy `REPEAT n` line.
   Two facts are carried through every action of Model/Interp.v:
     - warnings are never removed (de-duplication never drops the last copy);
     - whenever a ByUnknown line is produced, a warning has been recorded. *)
From Coq Require Import NArith ZArith List Bool Lia.
From DS Require Import Base PyStr Values Expr TabParse Tables Constants Interp.
Import ListNotations.

Lemma add_warning_nonempty : forall w g, g_warnings (add_warning w g) <> [].
Proof.
  intros w g. unfold add_warning. destruct (existsb (warning_eqb w) (g_warnings g)) eqn:E.
  - destruct (g_warnings g); [discriminate E | discriminate].
  - cbn [g_warnings]. discriminate.
Qed.

Definition nounk (d : list oline) : Prop := Forall (fun l => o_tag l <> ByUnknown) d.

Lemma nounk_app : forall a b, nounk a -> nounk b -> nounk (a ++ b).
Proof. intros a b Ha Hb. apply Forall_app. split; assumption. Qed.

Lemma nounk_map : forall tg ls, tg <> ByUnknown -> nounk (map (mkO tg) ls).
Proof.
  intros tg ls H. apply Forall_forall. intros l Hl. apply in_map_iff in Hl.
  destruct Hl as [t [<- _]]. exact H.
Qed.

Section NU.
Variable fo : FloatOps.

(* some warning has been recorded *)
Definition W (s : st fo) : Prop := g_warnings (s_g fo s) <> [].

(* on success: warnings recorded before are still there, and either some warning is recorded or
   the result satisfies P *)
Definition wp {A} (P : A -> Prop) (m : M fo A) : Prop :=
  forall s s' a, m s = (s', IOk _ a) -> (W s -> W s') /\ (W s' \/ P a).

Notation mono m := (wp (fun _ => True) m).

Lemma wp_ret : forall A (P : A -> Prop) (a : A), P a -> wp P (ret fo a).
Proof. intros A P a H s s' a' E. injection E as <- <-. split; [auto | right; exact H]. Qed.

Lemma wp_raise : forall cx cur A (P : A -> Prop) e, wp P (raise fo cx cur (A:=A) e).
Proof. intros cx cur A P e s s' a E. discriminate E. Qed.

Lemma wp_crash : forall A (P : A -> Prop) k, wp P (crash fo (A:=A) k).
Proof. intros A P k s s' a E. discriminate E. Qed.

Lemma wp_unmod : forall A (P : A -> Prop), wp P (unmod fo (A:=A)).
Proof. intros A P s s' a E. discriminate E. Qed.

Lemma wp_lift : forall cx cur A (r : res A), mono (lift fo cx cur r).
Proof.
  intros cx cur A r. destruct r as [a|e|k|]; cbn [lift];
    [apply wp_ret; exact I | apply wp_raise | apply wp_crash | apply wp_unmod].
Qed.

Lemma wp_weaken : forall A (P Q : A -> Prop) (m : M fo A),
  (forall a, P a -> Q a) -> wp P m -> wp Q m.
Proof.
  intros A P Q m HPQ H s s' a E. destruct (H _ _ _ E) as [H1 [H2|H2]].
  - split; [exact H1 | left; exact H2].
  - split; [exact H1 | right; exact (HPQ _ H2)].
Qed.

Lemma wp_mono : forall A (P : A -> Prop) (m : M fo A), wp P m -> mono m.
Proof. intros A P m H. apply (wp_weaken _ P); [intros a _; exact I | exact H]. Qed.

Lemma wp_bind : forall A B (P : A -> Prop) (Q : B -> Prop) (m : M fo A) (f : A -> M fo B),
  wp P m -> (forall a, wp (fun b => P a -> Q b) (f a)) -> wp Q (bindM fo m f).
Proof.
  intros A B P Q m f Hm Hf s s' b E. unfold bindM in E.
  destruct (m s) as [s1 [a|e t|k|]] eqn:Em; try discriminate E.
  destruct (Hm _ _ _ Em) as [M1 R1]. destruct (Hf a _ _ _ E) as [M2 R2].
  split; [auto|].
  destruct R1 as [R1|R1]; [left; auto|].
  destruct R2 as [R2|R2]; [left; exact R2 | right; exact (R2 R1)].
Qed.

Lemma wp_bind_any : forall A B (Q : B -> Prop) (m : M fo A) (f : A -> M fo B),
  mono m -> (forall a, wp Q (f a)) -> wp Q (bindM fo m f).
Proof.
  intros A B Q m f Hm Hf. apply (wp_bind _ _ (fun _ => True)); [exact Hm|].
  intro a. apply (wp_weaken _ Q); [intros b Hb _; exact Hb | apply Hf].
Qed.

(* after an action that leaves a warning behind, anything that keeps warnings will do *)
Lemma wp_bind_after : forall A B (Q : B -> Prop) (m : M fo A) (f : A -> M fo B),
  (forall s s' a, m s = (s', IOk _ a) -> W s') -> (forall a, mono (f a)) -> wp Q (bindM fo m f).
Proof.
  intros A B Q m f Hm Hf s s' b E. unfold bindM in E.
  destruct (m s) as [s1 [a|e t|k|]] eqn:Em; try discriminate E.
  pose proof (Hm _ _ _ Em) as W1. destruct (Hf a _ _ _ E) as [M2 _].
  split; [intros _; auto | left; auto].
Qed.

Lemma wp_get_env : mono (get_env fo).
Proof. intros s s' a E. injection E as <- _. split; [auto | right; exact I]. Qed.

Lemma wp_set_env : forall e, mono (set_env fo e).
Proof. intros e s s' a E. injection E as <- _. split; [auto | right; exact I]. Qed.

Lemma wp_set_line2 : forall l, mono (set_line2 fo l).
Proof. intros l s s' a E. injection E as <- _. split; [auto | right; exact I]. Qed.

Lemma wp_mod_glob : forall f, (forall g, g_warnings g <> [] -> g_warnings (f g) <> []) -> mono (mod_glob fo f).
Proof. intros f Hf s s' a E. injection E as <- _. split; [apply Hf | right; exact I]. Qed.

Lemma warn_W : forall cx cur t s s' a, warn fo cx cur t s = (s', IOk _ a) -> W s'.
Proof. intros cx cur t s s' a E. injection E as <- _. apply add_warning_nonempty. Qed.

Lemma wp_warn : forall cx cur t, mono (warn fo cx cur t).
Proof.
  intros cx cur t s s' a E. pose proof (warn_W _ _ _ _ _ _ E) as H. split; [intros _; exact H | left; exact H].
Qed.

Lemma wp_add_plain_warning : forall t, mono (add_plain_warning fo t).
Proof. intro t. unfold add_plain_warning. apply wp_mod_glob. intros g _. apply add_warning_nonempty. Qed.

Lemma wp_tokenizeM : forall cx cur a, mono (tokenizeM fo cx cur a).
Proof. intros cx cur a. unfold tokenizeM. apply wp_bind_any; [apply wp_get_env | intro e; apply wp_lift]. Qed.

Ltac mono_step :=
  first
    [ apply wp_ret; exact I | apply wp_raise | apply wp_crash | apply wp_unmod | apply wp_lift
    | apply wp_get_env | apply wp_set_env | apply wp_set_line2 | apply wp_warn | apply wp_tokenizeM
    | apply wp_add_plain_warning
    | assumption
    | apply wp_bind_any; [|intros ?]
    | match goal with
      | |- wp _ (if ?b then _ else _) => destruct b
      | |- wp _ (match ?x with _ => _ end) => destruct x
      | |- wp _ (let '(_, _) := ?x in _) => destruct x
      end ].
Ltac mono_tac := repeat mono_step.

Lemma wp_new_var : forall cx cur name v, mono (new_var fo cx cur name v).
Proof. intros cx cur name v. unfold new_var. mono_tac. Qed.

Lemma wp_listify_args : forall cx cur argument code_block num, mono (listify_args fo cx cur argument code_block num).
Proof. intros cx cur argument code_block num. unfold listify_args. mono_tac. Qed.

Lemma wp_evaluate_args : forall cx cur at_ args, mono (evaluate_args fo cx cur at_ args).
Proof. intros cx cur at_ args. induction args as [|l r IH]; cbn [evaluate_args]; mono_tac. Qed.

Lemma wp_check_types : forall cx cur at_ args, mono (check_types fo cx cur at_ args).
Proof. intros cx cur at_ args. induction args as [|[l oc] r IH]; cbn [check_types]; mono_tac. Qed.

Lemma wp_verify_each : forall cx cur params v args, mono (verify_each fo cx cur params v args).
Proof. intros cx cur params v args. induction args as [|l r IH]; cbn [verify_each]; mono_tac. Qed.

Lemma wp_verify_plural : forall cx cur pv n, mono (verify_plural fo cx cur pv n).
Proof. intros cx cur pv n. unfold verify_plural. mono_tac. Qed.

Lemma wp_format_each : forall cx cur params f args, mono (format_each fo cx cur params f args).
Proof. intros cx cur params f args. induction args as [|l r IH]; cbn [format_each]; mono_tac. Qed.

Lemma wp_check_flipper : forall cx cur b, mono (check_flipper fo cx cur b).
Proof. intros cx cur b. unfold check_flipper. mono_tac. Qed.

Lemma wp_tokenize_count : forall cx cur a, mono (tokenize_count fo cx cur a).
Proof. intros cx cur a. unfold tokenize_count. mono_tac. Qed.

Lemma wp_get_temp_flag : mono (get_temp_flag fo).
Proof. unfold get_temp_flag. mono_tac. Qed.

Lemma wp_set_temp_flag : forall b, mono (set_temp_flag fo b).
Proof. intro b. unfold set_temp_flag. mono_tac. Qed.

(* ------------------------------------------------------------------ runners *)
Definition cretP (cr : cret) : Prop := nounk (cr_data cr).

Definition runner_nu (r : runner fo) : Prop :=
  forall cx g e code g' cr e',
    supress_command_not_exist (c_opts cx) = false ->
    r cx g e code = (g', IOk _ (cr, e')) ->
    (g_warnings g <> [] -> g_warnings g' <> []) /\ (g_warnings g' <> [] \/ cretP cr).

Section Stack.
Variable child : runner fo.
Variable cx : ctx.
Hypothesis Hchild : runner_nu child.
Hypothesis Hsup : supress_command_not_exist (c_opts cx) = false.

Lemma wp_run_child_with : forall cur code file parallel setup pre,
  wp (fun r => match r with Some cr => cretP cr | None => True end)
     (run_child_with fo child cx cur code file parallel setup pre).
Proof.
  intros cur code file parallel setup pre s s' r E. unfold run_child_with in E.
  destruct (cmp_eval _ _ _); [discriminate E|].
  destruct (setup _) as [cenv1|er|k|]; try discriminate E.
  destruct (pre cenv1) as [[|]|er|k|]; try discriminate E.
  - destruct (child _ _ _ _) as [g' [[cr cenv2]|er t|k|]] eqn:Ec; try discriminate E.
    injection E as <- <-. unfold W. cbn [s_g].
    refine (Hchild _ _ _ _ _ _ _ _ Ec). exact Hsup.
  - injection E as <- <-. unfold W. cbn [s_g]. split; [auto | right; exact I].
Qed.

Lemma wp_run_child : forall cur code file parallel setup,
  wp cretP (run_child fo child cx cur code file parallel setup).
Proof.
  intros cur code file parallel setup. unfold run_child.
  apply (wp_bind _ _ _ _ _ _ (wp_run_child_with cur code file parallel setup _)).
  intros [cr|]; [apply wp_ret; intro H; exact H | apply wp_crash].
Qed.

Definition rcP (r : rc) : Prop := match r with RComp cr => cretP cr | _ => True end.

Lemma nounk_nil : nounk [].
Proof. constructor. Qed.

Lemma wp_run_compile : forall cur cname sc name arg,
  wp rcP (run_compile fo child cx cur cname sc name arg).
Proof.
  intros cur cname sc name arg. unfold run_compile.
  destruct (s_run sc).
  - apply wp_ret. exact I.
  - destruct arg as [l|]; [|apply wp_ret; exact I].
    destruct (l_content l); [apply wp_crash|]. destruct (_ <=? _)%Z; [apply wp_ret; exact I | apply wp_unmod].
  - destruct arg as [l|]; [|apply wp_ret; exact I].
    destruct (l_content l); [apply wp_crash|]. destruct (_ <=? _)%Z; [apply wp_ret; exact I | apply wp_unmod].
  - destruct (include_comments _); apply wp_ret; exact I.
  - destruct arg as [l|]; [|apply wp_crash].
    apply wp_bind_any; [apply wp_get_env|]. intro e.
    destruct (l_content l); [apply wp_unmod|]. destruct (has_key _ _); [|apply wp_raise].
    apply wp_bind_any; [apply wp_set_env|]. intros _. apply wp_ret. exact I.
  - apply wp_ret. exact I.
  - destruct arg as [l|]; [|apply wp_ret; exact I].
    apply wp_bind_any; [apply wp_mod_glob; intros g H; exact H|]. intros _. apply wp_ret. exact nounk_nil.
  - apply wp_ret. exact nounk_nil.
  - apply wp_ret. exact nounk_nil.
  - apply wp_ret. exact nounk_nil.
  - (* RUN *)
    destruct arg as [l|]; [|apply wp_crash].
    destruct (break_arg _) as [fname var_string].
    apply wp_bind_any; [mono_tac|]. intro vals.
    apply wp_bind_any; [apply wp_get_env|]. intro e.
    destruct (lookup _ _) as [f|]; [|apply wp_raise].
    destruct (negb _); [apply wp_raise|].
    apply (wp_bind _ _ _ _ _ _ (wp_run_child cur _ _ _ _)). intro cr.
    destruct (cr_sig cr); first [apply wp_raise | apply wp_ret; intro H; exact H].
  - (* VAR *)
    destruct arg as [l|]; [|apply wp_crash].
    destruct (split_ws1 _) as [|vname [|expr [|x y]]]; try apply wp_crash.
    apply wp_bind_any; [apply wp_tokenizeM|]. intro v.
    apply wp_bind_any; [apply wp_new_var|]. intros _. apply wp_ret. exact I.
  - destruct arg as [l|]; [|apply wp_crash].
    apply wp_bind_any; [apply wp_get_env|]. intro e.
    destruct (has_key _ _); [apply wp_ret; exact I | apply wp_raise].
  - destruct arg as [l|]; [|apply wp_crash].
    apply wp_bind_any; [apply wp_get_env|]. intro e.
    destruct (has_key _ _); [apply wp_raise | apply wp_ret; exact I].
  - (* START *)
    destruct arg as [l|]; [|apply wp_crash]. destruct (c_file cx) as [file|]; [|apply wp_crash].
    apply wp_bind_any; [apply wp_lift|]. intro target.
    destruct (c_fs cx target) as [text|]; [|apply wp_raise].
    intro s. destruct (existsb _ _); [intros s' a E; discriminate E|].
    destruct (prepare_text text) as [commands|[| | | |]]; try (intros s' a E; discriminate E).
    revert s.
    apply (wp_bind _ _ _ _ _ _ (wp_run_child cur _ _ _ _)). intro cr.
    apply wp_bind_any; [destruct (s_sig_warning _); [apply wp_add_plain_warning | apply wp_ret; exact I]|].
    intros _. destruct (str_eqb _ _); apply wp_ret; [intros _; exact I | intro H; exact H].
Qed.

Lemma wp_multi_comp : forall cur cname tg sc name args acc,
  wp (fun cr => tg <> ByUnknown -> cretP acc -> cretP cr)
     (multi_comp fo child cx cur cname tg sc name args acc).
Proof.
  intros cur cname tg sc name args. induction args as [|a r IH]; intro acc; cbn [multi_comp].
  - apply wp_ret. intros _ H. exact H.
  - apply wp_bind_any; [apply wp_set_line2|]. intros _.
    apply (wp_bind _ _ _ _ _ _ (wp_run_compile cur cname sc name a)). intro c.
    refine (wp_weaken _ _ _ _ _ (IH _)). intros cr Hcr Hc Htg Hacc. apply (Hcr Htg).
    destruct c as [|ls|cr0]; cbn [rcP] in Hc.
    + exact Hacc.
    + unfold cretP. cbn [cr_data]. apply nounk_app; [exact Hacc | exact (nounk_map tg ls Htg)].
    + unfold cretP. cbn [cr_data]. apply nounk_app; [exact Hacc | exact Hc].
Qed.

Lemma wp_simple_compile : forall cur cname tg sc cmd num argument code_block,
  wp (fun cr => tg <> ByUnknown -> cretP cr)
     (simple_compile fo child cx cur cname tg sc cmd num argument code_block).
Proof.
  intros cur cname tg sc cmd num argument code_block. unfold simple_compile.
  apply wp_bind_any; [apply wp_check_flipper|intros u0].
  apply wp_bind_any; [apply wp_listify_args|intros args0].
  apply wp_bind_any.
  { destruct (_ || _); [|apply wp_ret; exact I].
    apply wp_bind_any; [apply wp_evaluate_args|intros vs].
    induction vs as [|[l v] r IH]; mono_tac. }
  intros args2.
  apply wp_bind_any; [mono_tac|intros u1].
  apply wp_bind_any; [apply wp_check_types|intros args3].
  apply wp_bind_any; [apply wp_verify_plural|intros u2].
  apply wp_bind_any; [apply wp_verify_each|intros u3].
  apply wp_bind_any; [apply wp_format_each|intros args4].
  refine (wp_weaken _ _ _ _ _ (wp_multi_comp _ _ _ _ _ _ _)).
  intros cr H Htg. exact (H Htg nounk_nil).
Qed.

Lemma wp_repeat_loop : forall cur fuel v a code count acc,
  wp (fun cr => cretP acc -> cretP cr) (repeat_loop fo child cx cur fuel v a code count acc).
Proof.
  intros cur fuel. induction fuel as [|f IH]; intros v a code count acc; cbn [repeat_loop];
    (apply wp_bind_any; [apply wp_tokenize_count|intros n]);
    (destruct (count <? n)%Z; [|apply wp_ret; intro H; exact H]).
  - apply wp_crash.
  - apply (wp_bind _ _ _ _ _ _ (wp_run_child cur _ _ _ _)). intro cr.
    destruct (loop_signal _) as [sg brk].
    destruct brk.
    + apply wp_ret. intros Hcr Hacc. unfold cretP. cbn [cr_data]. apply nounk_app; assumption.
    + refine (wp_weaken _ _ _ _ _ (IH _ _ _ _ _)). intros cr' H Hcr Hacc. apply H.
      unfold cretP. cbn [cr_data]. apply nounk_app; assumption.
Qed.

Lemma wp_while_loop : forall cur fuel v a code count acc,
  wp (fun cr => cretP acc -> cretP cr) (while_loop fo child cx cur fuel v a code count acc).
Proof.
  intros cur fuel. induction fuel as [|f IH]; intros v a code count acc; cbn [while_loop];
    (destruct (cmp_eval _ _ _); [apply wp_raise|]).
  - apply wp_crash.
  - apply (wp_bind _ _ _ _ _ _ (wp_run_child_with cur _ _ _ _ _)). intros [cr|].
    + destruct (loop_signal _) as [sg brk].
      destruct brk.
      * apply wp_ret. intros Hcr Hacc. unfold cretP. cbn [cr_data]. apply nounk_app; assumption.
      * refine (wp_weaken _ _ _ _ _ (IH _ _ _ _ _)). intros cr' H Hcr Hacc. apply H.
        unfold cretP. cbn [cr_data]. apply nounk_app; assumption.
    + apply wp_ret. intros _ H. exact H.
Qed.

Definition brcP (r : rc) : Prop :=
  match r with RNone => True | RLines ls => ls = [] | RComp cr => cretP cr end.

Lemma wp_block_compile : forall cur bc cname cmd num argument code_block,
  wp brcP (block_compile fo child cx cur bc cname cmd num argument code_block).
Proof.
  intros cur bc cname cmd num argument code_block. unfold block_compile.
  apply wp_bind_any; [apply wp_check_flipper|intros u0].
  apply wp_bind_any; [mono_tac|intros u1].
  set (arg' := if b_strip_arg bc then _ else _). clearbody arg'.
  destruct (b_kind bc).
  - apply wp_bind_any; [apply wp_get_env|intros e].
    apply wp_bind_any; [destruct (has_key _ _); [apply wp_ret; exact I | apply wp_set_temp_flag]|intros u2].
    apply wp_bind_any; [mono_tac|intros u3].
    apply wp_bind_any; [mono_tac|intros tok].
    apply wp_bind_any; [apply wp_get_temp_flag|intros flag].
    apply wp_bind_any.
    { destruct (str_eqb _ _); [|apply wp_ret; exact I].
      apply wp_bind_any; [apply wp_set_temp_flag|intros u4]. apply wp_ret. exact I. }
    intros skip. destruct skip; [apply wp_ret; exact I|]. destruct (_ && _); [apply wp_ret; exact I|].
    apply wp_bind_any; [apply wp_set_temp_flag|intros u5].
    apply (wp_bind _ _ _ _ _ _ (wp_run_child cur _ _ _ _)). intro cr. apply wp_ret. intro H. exact H.
  - destruct (block_lines _) as [ls|]; [|apply wp_raise]. apply wp_ret.
    cbn [brcP]. unfold cretP. cbn [cr_data]. apply Forall_forall. intros l Hl.
    apply in_map_iff in Hl. destruct Hl as [x [<- _]]. discriminate.
  - destruct arg' as [a|]; [|apply wp_crash]. destruct (split_loop_arg a) as [var_name count_expr].
    destruct (match code_block with Some b => b | None => [] end).
    + destruct var_name; [apply wp_raise|]. apply wp_ret.
      cbn [brcP]. unfold cretP. cbn [cr_data]. constructor; [discriminate | constructor].
    + destruct (match var_name with Some v => _ | None => _ end); [|apply wp_raise].
      apply (wp_bind _ _ _ _ _ _ (wp_repeat_loop cur _ _ _ _ _ _)). intro cr.
      apply wp_ret. intro H. exact (H nounk_nil).
  - destruct arg' as [a|]; [|apply wp_crash]. destruct (split_loop_arg a) as [var_name cond].
    apply (wp_bind _ _ _ _ _ _ (wp_while_loop cur _ _ _ _ _ _)). intro cr.
    apply wp_ret. intro H. exact (H nounk_nil).
  - destruct arg' as [a|]; [|apply wp_crash]. destruct (break_arg a) as [fname var_string].
    destruct (_ && _); [|apply wp_raise].
    apply wp_bind_any; [apply wp_get_env|intros e].
    apply wp_bind_any; [apply wp_set_env|intros u2]. apply wp_ret. exact I.
Qed.

Lemma wp_exec_line : forall c n code_block, wp cretP (exec_line fo child cx c n code_block).
Proof.
  intros c n code_block. unfold exec_line.
  destruct (split_ws1 c) as [|cmd more]; [apply wp_crash|].
  destruct (find_command _ _ _) as [[cname cl]|].
  - destruct (_ && _); [apply wp_raise|]. destruct cl as [sc|bc].
    + refine (wp_weaken _ _ _ _ _ (wp_simple_compile _ _ _ _ _ _ _ _)).
      intros cr H. apply H. discriminate.
    + apply (wp_bind _ _ _ _ _ _ (wp_block_compile (c, n) bc cname cmd n _ code_block)).
      intros [|ls|cr]; apply wp_ret; cbn [brcP].
      * intros _. exact nounk_nil.
      * intros ->. exact nounk_nil.
      * intro H. exact H.
  - rewrite Hsup.
    apply wp_bind_after; [apply warn_W|].
    intros _. exact (wp_mono _ _ _ (wp_simple_compile _ _ _ _ _ _ _ _)).
Qed.

Theorem wp_exec_cmds : forall cmds acc,
  wp (fun cr => nounk acc -> cretP cr) (exec_cmds fo child cx cmds acc).
Proof.
  intros cmds. induction cmds as [|[c n|b] rest IH]; intro acc; cbn [exec_cmds].
  - apply wp_ret. intro H. exact H.
  - destruct (is_blank c); [apply IH|].
    apply wp_bind_any; [apply wp_set_line2|intros u].
    apply (wp_bind _ _ _ _ _ _ (wp_exec_line c n _)). intro cr.
    destruct (cr_sig cr);
      first [ refine (wp_weaken _ _ _ _ _ (IH _)); intros cr' H Hcr Hacc; apply H; apply nounk_app; assumption
            | apply wp_ret; intros Hcr Hacc; unfold cretP; cbn [cr_data]; apply nounk_app; assumption ].
  - apply IH.
Qed.

End Stack.

Lemma run_with_nu : forall child, runner_nu child -> runner_nu (run_with fo child).
Proof.
  intros child Hc cx g e cmds g' cr e' Hsup H. unfold run_with in H.
  destruct (exec_cmds fo child cx cmds [] _) as [s [cr0|er t|k|]] eqn:E; try discriminate H.
  injection H as <- <- _.
  destruct (wp_exec_cmds child cx Hc Hsup cmds [] _ _ _ E) as [M1 R1].
  unfold W in M1, R1. cbn [s_g] in M1. split; [exact M1|].
  destruct R1 as [R1|R1]; [left; exact R1 | right; exact (R1 nounk_nil)].
Qed.

Lemma no_child_nu : runner_nu (no_child fo).
Proof. intros cx g e cmds g' cr e' _ H. discriminate H. Qed.

Lemma run_nu : forall d, runner_nu (run fo d).
Proof. induction d as [|d IH]; cbn [run]; apply run_with_nu; [exact no_child_nu | exact IH]. Qed.

Lemma rev_nil_inv : forall A (l : list A), rev l = [] -> l = [].
Proof. intros A l H. rewrite <- (rev_involutive l), H. reflexivity. Qed.

Theorem compile_items_no_unknown : forall o fs file cmds g c,
  supress_command_not_exist o = false ->
  compile_items fo o fs file cmds = (g, IOk _ c) ->
  warnings fo c = [] ->
  Forall (fun l => o_tag l <> ByUnknown) (out fo c).
Proof.
  intros o fs file cmds g c Hsup H Hw. unfold compile_items in H.
  destruct (run fo (run_depth o) _ _ _ cmds) as [g1 [[cr e1]|er t|k1|]] eqn:Hrun; try discriminate H.
  injection H as _ <-. cbn [out warnings] in *. apply rev_nil_inv in Hw.
  assert (Hg1 : g_warnings g1 = []).
  { destruct (s_sig_warning (cr_sig cr)) as [w|]; [|exact Hw].
    exfalso. exact (add_warning_nonempty _ _ Hw). }
  assert (Hnu : (g_warnings (mkGlob [] []) <> [] -> g_warnings g1 <> []) /\ (g_warnings g1 <> [] \/ cretP cr)).
  { refine (run_nu _ _ _ _ _ _ _ _ _ Hrun). exact Hsup. }
  destruct Hnu as [_ [R|R]]; [contradiction (R Hg1) | exact R].
Qed.

Theorem compile_raw_no_unknown : forall o fs file lines g c,
  supress_command_not_exist o = false ->
  compile_raw fo o fs file lines = (g, IOk _ c) ->
  warnings fo c = [] ->
  Forall (fun l => o_tag l <> ByUnknown) (out fo c).
Proof. intros o fs file lines g c. apply compile_items_no_unknown. Qed.

Theorem compile_text_no_unknown : forall o fs file text g c,
  supress_command_not_exist o = false ->
  compile_text fo o fs file text = (g, IOk _ c) ->
  warnings fo c = [] ->
  Forall (fun l => o_tag l <> ByUnknown) (out fo c).
Proof.
  intros o fs file text g c Hsup H. unfold compile_text in H.
  destruct (prepare_text text) as [cmds|[| | | |]]; try discriminate H.
  exact (compile_items_no_unknown _ _ _ _ _ _ Hsup H).
Qed.

End NU.
