(* C19c non-vacuity.  The two-file program of Proofs/CoreAllExample.v (main: VAR x 5 / START lib /
   RUN greet / FOO bar / REM done / $STRING x;  lib: FUNC greet ... / PRINT loaded) rendered with a
   TAB in the folder proj/ of a CLI world whose project config is PARTIAL ({include_comments: true})
   and which has NO global config; `compile proj/main.txt out/payload.txt`:
     - through the theorem: RSuccess 1, the output is the specification's lines joined by "\n";
     - by computation (vm_compute of cli_step with the dummy FloatOps dfo): the same.
   And the failing program A of Proofs/CoreAllErrExample.v (division by zero inside an imported
   function, second iteration): RError EDivideByZero 4, the stale output file untouched. *)
From Coq Require Import String Ascii NArith ZArith List Bool Lia.
From DS Require Import Base PyStr Values Expr TabParse Tables Constants Interp Options Cli CliWorld ImportGraph.
From DS Require Import FlatExamples CliWorldSpec CliWorldProofs CliWorldHistory.
From DS Require Import BlockTree ChainLoopExamples CoreLang CoreFunc CoreText CoreTextParse.
From DS Require Import CoreAll CoreAllText CoreAllLines CoreAllBase CoreAllRefine CoreAllTop CoreAllExample CoreAllFs.
From DS Require Import CoreAllTextForest CoreAllTextParse CoreAllTextExample CoreAllErr CoreAllErrRefine CoreAllErrExample.
From DS Require Import CoreAllConverse CliSpecCompose.
Import ListNotations.
Open Scope string_scope.
Open Scope list_scope.

Definition partial_comments : yaml_opts := mkYaml None (Some true) None None None.
Definition out_path : path := [S_ "out"; S_ "payload.txt"].
Definition stale : str := S_ "OLD PAYLOAD".

(* a world: the program's files (TAB-indented) in proj/, a stale output elsewhere *)
Definition world_of (prog : program) : cworld :=
  mkCW (fun p => if path_eqb p out_path then Some stale else fs_of u_tab ex_dir prog p)
       (fun d => if path_eqb d ex_dir then Some partial_comments else None)
       None
       [ex_dir; [S_ "out"]].

Lemma out_path_not_script : forall m, path_eqb (file_of ex_dir m) out_path = false.
Proof.
  intro m. apply path_eqb_neq. unfold file_of, ex_dir, out_path. cbn [app]. intro H.
  injection H as H _. vm_compute in H. discriminate H.
Qed.

Lemma world_on_disk : forall prog, on_disk (world_of prog) u_tab ex_dir prog.
Proof.
  intros prog m stmts Hl. unfold world_of. cbn [w_files]. rewrite out_path_not_script.
  rewrite fs_of_file, Hl. reflexivity.
Qed.

Lemma world_closed : forall prog, prog_closed ex_dir prog (w_files (world_of prog)).
Proof.
  intros prog m _ Hl. unfold world_of. cbn [w_files]. rewrite out_path_not_script.
  rewrite fs_of_file, Hl. reflexivity.
Qed.

Lemma world_wf : forall prog, configs_in_existing_dirs (world_of prog).
Proof.
  intros prog d y H. unfold world_of in H. cbn [w_cfg] in H.
  destruct (path_eqb d ex_dir) eqn:E; [|discriminate].
  unfold dir_exists, world_of. cbn [w_dirs existsb]. rewrite E. reflexivity.
Qed.

(* the options the compile runs with: the defaults, with comments (from the PARTIAL project file) *)
Lemma world_options : forall prog entry,
  effective_options (world_of prog) (file_of ex_dir entry) None None = ex_opts true false.
Proof. intros prog entry. rewrite effective_options_file_of. vm_compute. reflexivity. Qed.

Lemma world_hypotheses : forall prog,
  on_disk (world_of prog) u_tab ex_dir prog /\ prog_closed ex_dir prog (w_files (world_of prog)) /\
  configs_in_existing_dirs (world_of prog) /\
  (forall entry, effective_options (world_of prog) (file_of ex_dir entry) None None = ex_opts true false).
Proof. exact (fun prog => conj (world_on_disk prog) (conj (world_closed prog) (conj (world_wf prog) (world_options prog)))). Qed.

Definition compile_main : cli_op := OpCompile (file_of ex_dir n_main) out_path None None.

Section Examples.
Variable fo : FloatOps.

(* ------------------------------------------------------------------ success, through the theorem *)
Lemma two_files_cli_by_theorem : exists w',
  cli_step fo (world_of two_files) compile_main = (w', RSuccess 1) /\
  w_files w' out_path = Some (ChainLoopExamples.prog ["STRING hi"; "FOO bar"; "REM done"; "STRING 5"]) /\
  (forall q, q <> out_path -> w_files w' q = w_files (world_of two_files) q).
Proof.
  destruct (cli_writes_spec_output fo (world_of two_files) u_tab ex_dir two_files n_main out_path None None 1 Normal
              [(CoreAllExample.S_ "greet", greet_def)] None [(CoreAllExample.S_ "x", VInt 5)] (ex_out true) (ex_events false)
              (proj1 u_tab_ok) (proj2 u_tab_ok) two_files_wf (world_on_disk two_files))
    as (w' & E & Ho & Hq).
  - rewrite world_options. exact (two_files_derivation fo true false).
  - rewrite world_options. vm_compute. reflexivity.
  - exists w'. split; [exact E|]. split; [rewrite Ho; vm_compute; reflexivity|exact Hq].
Qed.

(* ------------------------------------------------------------------ failure, through the theorem *)
Lemma a_prog_wf : prog_wf a_prog.
Proof.
  intros m stmts Hl. destruct (a_prog_ok m stmts Hl) as [Hwf _]. split; [exact Hwf|].
  unfold a_prog in Hl. cbn [lookup] in Hl.
  destruct (str_eqb m n_main); [injection Hl as <-; vm_compute; reflexivity|].
  destruct (str_eqb m n_lib); [injection Hl as <-; vm_compute; reflexivity|discriminate].
Qed.

Lemma a_cli_by_theorem : exists w',
  cli_step fo (world_of a_prog) compile_main = (w', RError EDivideByZero 4) /\
  w_files w' = w_files (world_of a_prog) /\ w_files w' out_path = Some stale.
Proof.
  destruct (cli_failure_leaves_output fo (world_of a_prog) u_tab ex_dir a_prog n_main out_path None None
              EDivideByZero a_chain a_events
              (proj1 u_tab_ok) (proj2 u_tab_ok) a_prog_wf (world_on_disk a_prog) (world_closed a_prog))
    as (w' & E & Hf & Ho).
  - rewrite world_options. vm_compute. discriminate.
  - rewrite world_options. exact (a_derivation fo true false).
  - exists w'. split; [exact E|]. split; [exact Hf|]. rewrite Ho. reflexivity.
Qed.

(* ------------------------------------------------------------------ a history, through the theorem *)
Definition ex_pre : list cli_op := [OpNew [S_ "elsewhere"] (S_ "P"); OpCompile (file_of ex_dir n_lib) [S_ "out"; S_ "lib.txt"] None None].

Lemma ex_pre_untouched : forall m, ~ In (file_of ex_dir m) (touched_paths ex_pre).
Proof.
  intros m H. vm_compute in H. destruct H as [H|[H|[]]]; injection H as H _; discriminate H.
Qed.

Lemma two_files_history_by_theorem : forall post,
  nth_error (snd (cli_run fo (world_of two_files) (ex_pre ++ compile_main :: post))) 2 = Some (RSuccess 1) /\
  w_files (fst (cli_run fo (world_of two_files) (ex_pre ++ [compile_main]))) out_path =
    Some (ChainLoopExamples.prog ["STRING hi"; "FOO bar"; "REM done"; "STRING 5"]).
Proof.
  intro post.
  destruct (cli_history_success fo ex_pre post (world_of two_files) u_tab ex_dir two_files n_main out_path None None 1 Normal
              [(CoreAllExample.S_ "greet", greet_def)] None [(CoreAllExample.S_ "x", VInt 5)] (ex_out true) (ex_events false)
              (proj1 u_tab_ok) (proj2 u_tab_ok) two_files_wf (world_on_disk two_files)
              (fun m _ _ => ex_pre_untouched m) (world_wf two_files)) as (H1 & H2 & _).
  - intro Hn. vm_compute in Hn. discriminate Hn.
  - rewrite world_options. exact (two_files_derivation fo true false).
  - rewrite world_options. vm_compute. reflexivity.
  - split; [exact H1|]. unfold compile_main. rewrite H2. vm_compute. reflexivity.
Qed.

End Examples.

(* ------------------------------------------------------------------ by computation (dummy FloatOps) *)
Example two_files_cli_computed :
  snd (cli_step dfo (world_of two_files) compile_main) = RSuccess 1 /\
  w_files (fst (cli_step dfo (world_of two_files) compile_main)) out_path =
    Some (ChainLoopExamples.prog ["STRING hi"; "FOO bar"; "REM done"; "STRING 5"]) /\
  w_files (world_of two_files) out_path = Some stale /\
  (* the partial project config was rewritten in full, the global config created *)
  w_cfg (fst (cli_step dfo (world_of two_files) compile_main)) ex_dir = Some (yaml_of_options (ex_opts true false)) /\
  w_global (fst (cli_step dfo (world_of two_files) compile_main)) = Some (yaml_of_options default_options).
Proof. repeat split; vm_compute; reflexivity. Qed.

Example a_cli_computed :
  snd (cli_step dfo (world_of a_prog) compile_main) = RError EDivideByZero 4 /\
  w_files (fst (cli_step dfo (world_of a_prog) compile_main)) out_path = Some stale.
Proof. split; vm_compute; reflexivity. Qed.

(* a history: the failing compile of A does not disturb ... itself compiled twice; the second
   compile of the two-file program after an unrelated `new` reports the same *)
Example two_files_history_computed :
  snd (cli_run dfo (world_of two_files) [OpNew [S_ "elsewhere"] (S_ "P"); compile_main; compile_main]) =
  [RNewCreated; RSuccess 1; RSuccess 1].
Proof. vm_compute. reflexivity. Qed.
