(* SPEC-LEVEL PRINT ERASURE (C18e), on the unified reference semantics alone: a derivation of p
   gives a derivation of [erase_prints p] (in the program with every file erased, with every
   function body of the table erased) with the same signal, flag, store and output; its events
   are the events of p MINUS THE PRINTS, up to locations (the line numbers move up when lines are
   removed).  Instance er = true of the simulation of Proofs/CoreAllSim.v. *)
From Coq Require Import NArith ZArith List Bool Lia.
From DS Require Import Base PyStr Values Expr TabParse ScopeProofs CoreLang CoreWf CoreFunc CoreText CoreTextForest CoreAll CoreAllErase.
From DS Require Import BlockTree CoreAllText CoreAllLines CoreAllTextForest CoreAllSim.
Import ListNotations.

(* every function body erased; names, parameters, defining file and line kept *)
Definition erase_def (d : udef) : udef := mkDef (d_params d) (erase_prints (d_body d)) (d_file d) (d_line d).
Definition erase_tab (F : utable) : utable := map (fun xd : str * udef => (fst xd, erase_def (snd xd))) F.

Lemma tsim_erase_tab : forall ks F, tsim true ks F (erase_tab F).
Proof.
  intros ks F. induction F as [|[x d] F IH]; [constructor|]. constructor; [|exact IH].
  split; [reflexivity|]. split; [reflexivity|]. split; [reflexivity|left; reflexivity].
Qed.

Lemma lookup_erase_prog : forall prog m stmts, lookup m prog = Some stmts ->
  lookup m (erase_prog prog) = Some (trl true stmts).
Proof.
  induction prog as [|[k s] r IH]; intros m stmts H; [discriminate|].
  cbn [erase_prog map lookup fst snd] in *. destruct (str_eqb m k).
  - injection H as <-. reflexivity.
  - exact (IH m stmts H).
Qed.

(* an event list whose shapes are those of a print-free list has no print *)
Lemma shapes_no_print : forall ev ev2, map shape (no_prints ev) = map shape ev2 -> prints_of ev2 = [].
Proof.
  induction ev as [|e ev IH]; intros ev2 H.
  - destruct ev2; [reflexivity|discriminate].
  - unfold no_prints in H. cbn [filter] in H. destruct e as [t n f|w]; cbn [is_print negb] in H.
    + exact (IH ev2 H).
    + destruct ev2 as [|e2 ev2]; [discriminate|]. cbn [map] in H. injection H as H1 H2.
      destruct e2 as [t2 n2 f2|w2].
      * destruct w as [p f t n|b]; discriminate.
      * unfold prints_of. cbn [flat_map app]. exact (IH ev2 H2).
Qed.

Section Erase.
Variable fo : FloatOps.
Variable sys : store fo.
Variable prog : program.
Variable inc sup : bool.

(* THE ERASURE THEOREM, for a statement list anywhere *)
Theorem erase_list : forall d pile cf n F f vs p sg F' f' vs' out ev,
  CoreAll.exec_list fo sys prog inc sup d pile cf n F f vs p sg F' f' vs' out ev ->
  exists F2' ev2,
    CoreAll.exec_list fo sys (erase_prog prog) inc sup d pile cf n (erase_tab F) f vs (erase_prints p) sg F2' f' vs' out ev2 /\
    tsim true [] F' F2' /\ map shape (no_prints ev) = map shape ev2 /\ prints_of ev2 = [].
Proof.
  intros d pile cf n F f vs p sg F' f' vs' out ev H.
  assert (HL : Loc [] pile cf pile cf).
  { split; [intros x []|]. split; [apply incl_refl|left; reflexivity]. }
  destruct (sim_list fo sys inc sup true [] prog (erase_prog prog) (lookup_erase_prog prog)
              d pile cf n F f vs p sg F' f' vs' out ev pile cf n (erase_tab F) H HL (tsim_erase_tab [] F))
    as (F2' & ev2 & H2 & HT & Hev).
  exists F2', ev2. split; [exact H2|]. split; [exact HT|]. split; [exact Hev|].
  exact (shapes_no_print ev ev2 Hev).
Qed.

End Erase.

(* ... for whole programs *)
Theorem erase_uruns : forall fo prog inc sup entry d sg F' f' vs' out ev,
  uruns fo prog inc sup entry d sg F' f' vs' out ev ->
  exists F2' ev2,
    uruns fo (erase_prog prog) inc sup entry d sg F2' f' vs' out ev2 /\
    tsim true [] F' F2' /\ map shape (no_prints ev) = map shape ev2 /\ prints_of ev2 = [].
Proof.
  intros fo prog inc sup entry d sg F' f' vs' out ev (stmts & ev0 & Hlk & Hrun & ->).
  destruct (erase_list fo (initial_sys fo) prog inc sup _ _ _ _ _ _ _ _ _ _ _ _ _ _ Hrun) as (F2' & ev2 & H2 & HT & Hev & Hp).
  exists F2', (ev2 ++ stray sg). split; [|split; [exact HT|split]].
  - exists (erase_prints stmts), ev2. split; [exact (lookup_erase_prog prog entry stmts Hlk)|]. split; [exact H2|reflexivity].
  - unfold no_prints in *. rewrite filter_app, !map_app, Hev. f_equal. destruct sg; reflexivity.
  - unfold prints_of in *. rewrite flat_map_app, Hp. destruct sg; reflexivity.
Qed.

(* ================================================================== erased programs can be written *)
(* [erase_safe]: no body consists of prints only.  Then the erased list is still well formed
   (uwf: every body non-empty), so it has a text (C12e) and the refinement theorem applies. *)
Lemma all_list_app : forall (A : Type) (P : A -> Prop) a b, all_list P a -> all_list P b -> all_list P (a ++ b).
Proof. intros A P a b Ha Hb. induction a as [|x a IH]; [exact Hb|]. destruct Ha as [Hx Ha]. split; [exact Hx|exact (IH Ha)]. Qed.

Definition erase_wf (s : ustmt) : Prop := uwf s -> erase_safe s -> all_list uwf (tr true s).

Lemma erase_wf_list : forall b, each erase_wf b -> uwf_list b -> each erase_safe b -> uwf_list (erase_prints b).
Proof.
  induction b as [|s r IH]; intros He Hw Hs; [exact I|].
  destruct He as [He1 He2]. destruct Hw as [Hw1 Hw2]. destruct Hs as [Hs1 Hs2].
  unfold erase_prints. rewrite trl_cons. apply all_list_app; [exact (He1 Hw1 Hs1)|exact (IH He2 Hw2 Hs2)].
Qed.

Theorem ustmt_erase_wf : forall s, erase_wf s.
Proof.
  apply ustmt_ind2; unfold erase_wf; try (intros; cbn [tr all_list]; split; [assumption|exact I]).
  - (* UIf *)
    intros arms els Ha He Hwf Hs. apply uwf_if_unfold in Hwf. destruct Hwf as (Hne & Hwa & Hwe).
    cbn [erase_safe] in Hs. destruct Hs as [Hsa Hse].
    rewrite tr_if. split; [|exact I]. apply uwf_if_unfold. split; [|split].
    + destruct arms; [contradiction|discriminate].
    + clear Hne. induction arms as [|[c b] r IH]; [exact I|].
      destruct Ha as [Hb Hr]. destruct Hwa as [(Hc & _ & Hwb) Hwr]. destruct Hsa as [[Hbne Hsb] Hsr].
      rewrite tr_arms_cons. split; [|exact (IH Hr Hwr Hsr)].
      split; [exact Hc|]. split; [exact Hbne|exact (erase_wf_list b Hb Hwb Hsb)].
    + destruct els as [b|]; [|exact I]. destruct Hwe as [_ Hwb]. destruct Hse as [Hbne Hsb].
      cbn [tr_els uwf_else]. split; [exact Hbne|exact (erase_wf_list b He Hwb Hsb)].
  - (* URepeat *)
    intros c e b Hb (Hc & He & _ & Hwb) [Hbne Hsb]. cbn [tr]. split; [|exact I].
    split; [exact Hc|]. split; [exact He|]. split; [exact Hbne|exact (erase_wf_list b Hb Hwb Hsb)].
  - (* UWhile *)
    intros c e b Hb (Hc & He & _ & Hwb) [Hbne Hsb]. cbn [tr]. split; [|exact I].
    split; [exact Hc|]. split; [exact He|]. split; [exact Hbne|exact (erase_wf_list b Hb Hwb Hsb)].
  - (* UFunc *)
    intros name ps b Hb (Hn & Hps & _ & Hwb) [Hbne Hsb]. cbn [tr]. split; [|exact I].
    split; [exact Hn|]. split; [exact Hps|]. split; [exact Hbne|exact (erase_wf_list b Hb Hwb Hsb)].
  - (* UPrint *) intros t _ _. exact I.
  - (* UPrintEval *) intros e _ _. exact I.
Qed.

Theorem erase_prints_wf : forall p, uwf_list p -> erase_safe_list p -> uwf_list (erase_prints p).
Proof. intros p Hw Hs. exact (erase_wf_list p (each_intro _ _ ustmt_erase_wf p) Hw Hs). Qed.

(* the restriction is needed: a body made of prints only becomes empty, which cannot be written *)
Definition prog_only_print : list ustmt := [URepeat None [51]%N [UPrint [97]%N]].
Lemma erase_empty_body :
  erase_prints prog_only_print = [URepeat None [51]%N []] /\ ~ erase_safe_list prog_only_print /\
  ~ uwf_list (erase_prints prog_only_print).
Proof.
  split; [reflexivity|]. split.
  - intros [[H _] _]. apply H. reflexivity.
  - intros [(_ & _ & H & _) _]. apply H. reflexivity.
Qed.

(* ================================================================== ... and their heads stay plain *)
Lemma uforest_of_app : forall a b, uforest_of (a ++ b) = uforest_of a ++ uforest_of b.
Proof. intros a b. unfold uforest_of. apply flat_map_app. Qed.

Lemma block_plain_iff : forall c kids,
  forallb unode_plain [Stmt c kids] = true <->
  (negb (char_in nl c) && negb (startswith triple_quote c) = true /\ forallb unode_plain kids = true).
Proof.
  intros c kids. cbn [forallb unode_plain]. rewrite andb_true_r. apply andb_true_iff.
Qed.

Definition erase_plain (s : ustmt) : Prop :=
  forallb unode_plain (ustmt_nodes s) = true -> forallb unode_plain (uforest_of (tr true s)) = true.

Lemma erase_plain_list : forall b, each erase_plain b -> uheads_plain b = true -> uheads_plain (erase_prints b) = true.
Proof.
  induction b as [|s r IH]; intros He Hp; [reflexivity|].
  destruct He as [He1 He2]. rewrite uheads_plain_cons in Hp. apply andb_true_iff in Hp. destruct Hp as [Hp1 Hp2].
  unfold erase_prints, uheads_plain. rewrite trl_cons, uforest_of_app, forallb_app'.
  apply andb_true_iff. split; [exact (He1 Hp1)|exact (IH He2 Hp2)].
Qed.

Lemma erase_plain_block : forall h b, each erase_plain b ->
  forallb unode_plain [Stmt h (uforest_of b)] = true -> forallb unode_plain [Stmt h (uforest_of (trl true b))] = true.
Proof.
  intros h b He Hp. apply block_plain_iff in Hp. destruct Hp as [Hh Hk]. apply block_plain_iff.
  split; [exact Hh|exact (erase_plain_list b He Hk)].
Qed.

Lemma single_forest : forall s, uforest_of [s] = ustmt_nodes s.
Proof. intro s. unfold uforest_of. cbn [flat_map]. apply app_nil_r. Qed.

Theorem ustmt_erase_plain : forall s, erase_plain s.
Proof.
  apply ustmt_ind2; unfold erase_plain;
    try (intros; cbn [tr]; rewrite single_forest; assumption).
  - (* UIf *)
    intros arms els Ha He Hp. rewrite tr_if, single_forest. rewrite ustmt_nodes_if in Hp |- *.
    revert Hp.
    cut (forall first, forallb unode_plain (uarms_nodes_gen uforest_of els first arms) = true ->
           forallb unode_plain (uarms_nodes_gen uforest_of (tr_els true els) first (tr_arms true arms)) = true);
      [intro HH; exact (HH true)|].
    induction arms as [|[c b] r IH]; intros first Hp.
    + cbn [tr_arms map uarms_nodes_gen] in Hp |- *. destruct els as [b|]; [|reflexivity].
      cbn [tr_els]. exact (erase_plain_block kw_ELSE b He Hp).
    + destruct Ha as [Hb Hr]. rewrite tr_arms_cons. cbn [uarms_nodes_gen] in Hp |- *.
      change (Stmt ?h ?k :: ?rest) with ([Stmt h k] ++ rest) in Hp |- *.
      rewrite forallb_app' in Hp |- *. apply andb_true_iff in Hp. destruct Hp as [Hp1 Hp2].
      apply andb_true_iff. split; [exact (erase_plain_block _ b Hb Hp1)|exact (IH Hr false Hp2)].
  - intros c e b Hb Hp. cbn [tr]. rewrite single_forest. exact (erase_plain_block _ b Hb Hp).
  - intros c e b Hb Hp. cbn [tr]. rewrite single_forest. exact (erase_plain_block _ b Hb Hp).
  - intros name ps b Hb Hp. cbn [tr]. rewrite single_forest. exact (erase_plain_block _ b Hb Hp).
  - intros t _. reflexivity.
  - intros e _. reflexivity.
Qed.

Theorem erase_prints_plain : forall p, uheads_plain p = true -> uheads_plain (erase_prints p) = true.
Proof. intros p H. exact (erase_plain_list p (each_intro _ _ ustmt_erase_plain p) H). Qed.
