(* Compiler.compile of a CoreAll program: the prints and warnings of the compiled result are the
   prints and the (de-duplicated) warnings of the derivation's events. *)
From Coq Require Import NArith ZArith List Bool Lia.
From DS Require Import Base PyStr Values Expr TabParse Tables Constants Interp IdentSpec IdentProofs.
From DS Require Import ScopeProofs LimitProofs ChainProofs UnknownWarn StartLaws ImportGraph GraphText.
From DS Require Import CoreLang CoreWf CoreLines CoreRefine CoreFunc CoreFuncLines CoreFuncRefine.
From DS Require Import CoreAll CoreAllLines CoreAllBase CoreAllRefine.
Import ListNotations.

Arguments IOk {A}. Arguments IErr {A}. Arguments ICrash {A}. Arguments IUnmod {A}.
Arguments e_sys : clear implicits. Arguments e_user : clear implicits. Arguments e_temp : clear implicits.
Arguments e_funcs : clear implicits. Arguments mkEnv : clear implicits.

(* ================================================================== equality tests *)
Lemma list_eqb_refl : forall A (eqb : A -> A -> bool), (forall x, eqb x x = true) -> forall l, list_eqb eqb l l = true.
Proof. intros A eqb H l. induction l as [|x l IH]; [reflexivity|]. cbn. rewrite H, IH. reflexivity. Qed.

Lemma opt_eqb_refl : forall A (eqb : A -> A -> bool), (forall x, eqb x x = true) -> forall o, opt_eqb eqb o o = true.
Proof. intros A eqb H [x|]; [apply H|reflexivity]. Qed.

Lemma preline_eqb_refl : forall l, preline_eqb l l = true.
Proof. intros [c n]. unfold preline_eqb. cbn. rewrite str_eqb_refl, Z.eqb_refl. reflexivity. Qed.

Lemma frame_eqb_refl : forall fr, frame_eqb fr fr = true.
Proof.
  intros [f l l2]. unfold frame_eqb. cbn.
  rewrite (opt_eqb_refl _ _ (list_eqb_refl _ _ str_eqb_refl)), preline_eqb_refl, (opt_eqb_refl _ _ preline_eqb_refl).
  reflexivity.
Qed.

Lemma warning_eqb_refl : forall w, warning_eqb w w = true.
Proof.
  intros [t tr]. unfold warning_eqb. cbn.
  rewrite str_eqb_refl, (opt_eqb_refl _ _ (list_eqb_refl _ _ frame_eqb_refl)). reflexivity.
Qed.

Lemma sframe_eqb_eq : forall a b, sframe_eqb a b = true <-> a = b.
Proof.
  intros [f t n i] [f' t' n' i']. unfold sframe_eqb. cbn. split.
  - intro H. repeat (apply andb_true_iff in H; destruct H as [H ?]).
    apply ScopeProofs.str_eqb_eq in H. apply ScopeProofs.str_eqb_eq in H2. apply Z.eqb_eq in H1. apply Bool.eqb_prop in H0.
    subst. reflexivity.
  - intro H. injection H as -> -> -> ->. rewrite !str_eqb_refl, Z.eqb_refl, Bool.eqb_reflx. reflexivity.
Qed.

Lemma pile_eqb_eq : forall a b, pile_eqb a b = true <-> a = b.
Proof.
  induction a as [|x a IH]; intros [|y b]; cbn; split; intro H; try reflexivity; try discriminate.
  - apply andb_true_iff in H. destruct H as [H1 H2]. apply sframe_eqb_eq in H1. apply IH in H2. subst. reflexivity.
  - injection H as -> ->. apply andb_true_iff. split; [apply sframe_eqb_eq|apply IH]; reflexivity.
Qed.

Lemma uwarning_eqb_eq : forall a b, uwarning_eqb a b = true <-> a = b.
Proof.
  intros [p f t n|x] [p' f' t' n'|y]; cbn; split; intro H; try discriminate.
  - repeat (apply andb_true_iff in H; destruct H as [H ?]).
    apply pile_eqb_eq in H. apply ScopeProofs.str_eqb_eq in H2. apply ScopeProofs.str_eqb_eq in H1. apply Z.eqb_eq in H0.
    subst. reflexivity.
  - injection H as -> -> -> ->. rewrite (proj2 (pile_eqb_eq p' p') eq_refl), !str_eqb_refl, Z.eqb_refl. reflexivity.
  - apply Bool.eqb_prop in H. subst. reflexivity.
  - injection H as ->. apply Bool.eqb_reflx.
Qed.

(* ================================================================== reading back *)
Section Conc.
Variable dir : path.
Notation conc_frame := (CoreAllBase.conc_frame dir).
Notation conc_warning := (CoreAllBase.conc_warning dir).
Notation conc_print := (CoreAllBase.conc_print dir).
Notation apply_evs := (CoreAllBase.apply_evs dir).
Notation apply_ev := (CoreAllBase.apply_ev dir).

Lemma conc_frame_inj : forall a b, conc_frame a = conc_frame b -> a = b.
Proof.
  intros [f t n i] [f' t' n' i'] H. unfold CoreAllBase.conc_frame in H. cbn in H.
  injection H as Hf Ht Hn Hi. apply file_of_inj in Hf. subst.
  destruct i, i'; try discriminate; reflexivity.
Qed.

Lemma map_conc_frame_inj : forall a b, map conc_frame a = map conc_frame b -> a = b.
Proof.
  induction a as [|x a IH]; intros [|y b] H; try discriminate; [reflexivity|].
  cbn [map] in H. remember (conc_frame x) as cx' eqn:Ex. remember (conc_frame y) as cy' eqn:Ey.
  injection H as Hx Hr. subst cx' cy'. apply conc_frame_inj in Hx. apply IH in Hr. subst. reflexivity.
Qed.

Lemma stray_text_differ : stray_text true <> stray_text false.
Proof. vm_compute. discriminate. Qed.

Lemma conc_warning_inj : forall a b, conc_warning a = conc_warning b -> a = b.
Proof.
  intros [p f t n|x] [p' f' t' n'|y] H; cbn [CoreAllBase.conc_warning] in H; try discriminate.
  - injection H as _ Htr. apply app_inj_tail in Htr. destruct Htr as [Hp Hfr].
    apply map_conc_frame_inj in Hp. injection Hfr as Hf Ht Hn. apply file_of_inj in Hf. subst. reflexivity.
  - injection H as Ht. destruct x, y; try reflexivity; exfalso.
    + exact (stray_text_differ Ht).
    + exact (stray_text_differ (eq_sym Ht)).
Qed.

Lemma conc_eqb : forall a b, warning_eqb (conc_warning a) (conc_warning b) = uwarning_eqb a b.
Proof.
  intros a b. destruct (uwarning_eqb a b) eqn:E.
  - apply uwarning_eqb_eq in E. subst. apply warning_eqb_refl.
  - destruct (warning_eqb (conc_warning a) (conc_warning b)) eqn:E2; [|reflexivity].
    apply warning_eqb_true in E2. apply conc_warning_inj in E2. subst.
    rewrite (proj2 (uwarning_eqb_eq b b) eq_refl) in E. discriminate.
Qed.

Lemma existsb_rev' : forall A (f : A -> bool) l, existsb f (rev l) = existsb f l.
Proof.
  intros A f l. induction l as [|x l IH]; [reflexivity|].
  cbn [rev existsb]. rewrite existsb_app, IH. cbn [existsb]. rewrite orb_false_r. apply orb_comm.
Qed.

(* the prints: newest first in the glob *)
Lemma prints_glob : forall ev g,
  g_prints (apply_evs ev g) = rev (map conc_print (prints_of ev)) ++ g_prints g.
Proof.
  induction ev as [|e ev IH]; intro g; [reflexivity|].
  unfold CoreAllBase.apply_evs in *. cbn [fold_left]. rewrite IH.
  destruct e as [t n f|w].
  - cbn [CoreAllBase.apply_ev g_prints prints_of flat_map app map rev CoreAllBase.conc_print].
    rewrite <- app_assoc. reflexivity.
  - cbn [prints_of flat_map app]. f_equal.
    unfold CoreAllBase.apply_ev, add_warning. destruct (existsb _ _); reflexivity.
Qed.

(* the warnings: newest first in the glob, de-duplicated as in the spec *)
Definition warn_step (ws : list uwarning) (e : event) : list uwarning :=
  match e with EvWarn w => add_uwarning w ws | EvPrint _ _ _ => ws end.

Lemma warnings_glob : forall ev g ws,
  g_warnings g = rev (map conc_warning ws) ->
  g_warnings (apply_evs ev g) = rev (map conc_warning (fold_left warn_step ev ws)).
Proof.
  induction ev as [|e ev IH]; intros g ws Hg; [exact Hg|].
  unfold CoreAllBase.apply_evs in *. cbn [fold_left]. apply IH.
  destruct e as [t n f|w]; [exact Hg|].
  cbn [CoreAllBase.apply_ev warn_step]. unfold add_warning, add_uwarning.
  rewrite Hg, existsb_rev', existsb_map.
  assert (Hex : existsb (fun x => warning_eqb (conc_warning w) (conc_warning x)) ws = existsb (uwarning_eqb w) ws).
  { clear. induction ws as [|x ws IH]; [reflexivity|]. cbn [existsb]. rewrite conc_eqb, IH. reflexivity. }
  rewrite Hex. destruct (existsb (uwarning_eqb w) ws).
  - rewrite <- Hg. reflexivity.
  - cbn [g_warnings]. rewrite map_app, rev_app_distr. reflexivity.
Qed.

Lemma warnings_of_glob : forall ev,
  rev (g_warnings (apply_evs ev (mkGlob [] []))) = map conc_warning (warnings_of ev).
Proof.
  intro ev. rewrite (warnings_glob ev (mkGlob [] []) [] eq_refl), rev_involutive. reflexivity.
Qed.

Lemma prints_of_glob : forall ev,
  rev (g_prints (apply_evs ev (mkGlob [] []))) = map conc_print (prints_of ev).
Proof. intro ev. rewrite prints_glob. cbn [g_prints]. rewrite app_nil_r, rev_involutive. reflexivity. Qed.

End Conc.

(* ================================================================== Compiler.compile *)
Section Top.
Variable fo : FloatOps.
Variable dir : path.
Variable prog : program.
Variable fs : fsys.

(* THE REFINEMENT THEOREM: a derivation for the entry file within the stack limit is what
   Compiler.compile computes: output texts, prints, warnings, final variables and functions *)
Theorem refine_compile_items : forall o entry d sg Fs' f' vs' out ev,
  prog_ok dir prog fs ->
  uruns fo prog (include_comments o) (supress_command_not_exist o) entry d sg Fs' f' vs' out ev ->
  (Z.of_nat d < stack_limit o)%Z ->
  exists stmts ol F', lookup entry prog = Some stmts /\
    map o_text ol = map line_text out /\ utab_rel dir Fs' F' /\
    compile_items fo o fs (Some (file_of dir entry)) (uitems_of stmts) =
    (CoreAllBase.apply_evs dir ev (mkGlob [] []),
     IOk (mkCompiled fo ol
            (map (CoreAllBase.conc_warning dir) (warnings_of ev))
            (mkEnv fo (initial_sys fo) vs' (flag_var fo f') F')
            (map (CoreAllBase.conc_print dir) (prints_of ev)))).
Proof.
  intros o entry d sg Fs' f' vs' out ev Hprog (stmts & ev0 & Hlk & Hrun & ->) Hd.
  set (cx := mkCtx o fs [] (Some (file_of dir entry))).
  assert (Hfit : fits (run_depth o) cx d).
  { unfold fits, run_depth. cbn [c_pile c_opts length cx]. split; lia. }
  assert (Hcx : cx_ok dir (include_comments o) (supress_command_not_exist o) fs [] entry cx).
  { repeat split. }
  destruct (Hprog entry stmts Hlk) as (Hwf & _).
  destruct (refine_run fo (initial_sys fo) (initial_sys_nodup fo) dir prog (include_comments o)
              (supress_command_not_exist o) fs Hprog d [] entry 1%Z [] [] stmts sg Fs' f' vs' out ev0
              (run_depth o) cx (mkGlob [] []) [] Hrun Hwf Hfit Hcx) as (ol & F' & Ho & Htab & E).
  { constructor. }
  { exact (utab_rel_nil dir). }
  exists stmts, ol, F'. split; [exact Hlk|]. split; [exact Ho|]. split; [exact Htab|].
  unfold compile_items. rewrite initial_env_eq. unfold uitems_of. fold cx. rewrite E.
  rewrite <- warnings_of_glob, <- prints_of_glob.
  rewrite <- (stray_glob dir sg ev0 (mkGlob [] [])).
  unfold sig_warned. destruct sg; reflexivity.
Qed.

End Top.
