(* C02 (whole program), on the TEXT of the output alone: the tags of the model are not needed to
   recognise the lines of a validated command.  Any output line that is not a raw IGNORE line and
   whose first word (up to the first space) is a command word of a validated command is legal for
   that command; likewise a line whose first word is a no-argument key is exactly that key. *)
From Coq Require Import NArith ZArith List Bool Lia.
From DS Require Import Base Unicode PyStr Values Expr TabParse Tables Constants Interp.
From DS Require Import CrashKinds CrashFree DuckyGrammar GrammarProofs LineGrammar OutputInv OutputLegal.
Import ListNotations.

(* ================================================================== upper() creates no space *)
Definition multi_nospace : bool :=
  forallb (fun m : N * list N => forallb (fun x => negb (x =? 32)%N) (snd m)) upper_multi.
Lemma multi_nospace_true : multi_nospace = true.
Proof. vm_compute. reflexivity. Qed.

Lemma upper_run_gt36 : forall runs c u,
  forallb (fun r : N * N * Z => let '(lo, hi, d) := r in (36 <? Z.of_N lo + d)%Z) runs = true ->
  upper_run c runs = Some u -> (36 < u)%N.
Proof.
  induction runs as [|[[lo hi] d] r IH]; intros c u Hall Hu; cbn [upper_run] in Hu; [discriminate Hu|].
  cbn [forallb] in Hall. apply andb_true_iff in Hall. destruct Hall as [Hh Hr].
  destruct ((lo <=? c)%N && (c <=? hi)%N) eqn:Ein.
  - injection Hu as <-. apply andb_true_iff in Ein. destruct Ein as [Hlo _].
    apply N.leb_le in Hlo. apply Z.ltb_lt in Hh. lia.
  - exact (IH c u Hr Hu).
Qed.

Lemma upper_mul_nospace : forall m c u,
  forallb (fun m : N * list N => forallb (fun x => negb (x =? 32)%N) (snd m)) m = true ->
  upper_mul c m = Some u -> char_in 32 u = false.
Proof.
  induction m as [|[k v] r IH]; intros c u Hall Hu; cbn [upper_mul] in Hu; [discriminate Hu|].
  cbn [forallb snd] in Hall. apply andb_true_iff in Hall. destruct Hall as [Hh Hr].
  destruct (k =? c)%N.
  - injection Hu as <-. clear -Hh. induction v as [|x t IHt]; [reflexivity|].
    cbn [forallb] in Hh. apply andb_true_iff in Hh. destruct Hh as [Hx Ht].
    cbn [char_in]. rewrite (IHt Ht). apply negb_true_iff in Hx. rewrite N.eqb_sym, Hx. reflexivity.
  - exact (IH c u Hr Hu).
Qed.

Lemma upper_c_nospace : forall c, c <> 32%N -> char_in 32 (upper_c c) = false.
Proof.
  intros c Hc. unfold upper_c. destruct (c <? 128)%N eqn:Elt.
  - destruct ((97 <=? c)%N && (c <=? 122)%N) eqn:Elow; cbn [char_in]; rewrite orb_false_r; apply N.eqb_neq.
    + apply andb_true_iff in Elow. destruct Elow as [Ha _]. apply N.leb_le in Ha. lia.
    + intro H. apply Hc. symmetry. exact H.
  - apply N.ltb_ge in Elt.
    destruct (upper_run c upper_runs) as [u|] eqn:Er.
    + pose proof (upper_run_gt36 _ _ _ runs_ok_true Er) as Hu.
      cbn [char_in]. rewrite orb_false_r. apply N.eqb_neq. lia.
    + destruct (upper_mul c upper_multi) as [u|] eqn:Em.
      * exact (upper_mul_nospace _ _ _ multi_nospace_true Em).
      * cbn [char_in]. rewrite orb_false_r. apply N.eqb_neq. lia.
Qed.

Lemma char_in_app : forall c a b, char_in c (a ++ b) = char_in c a || char_in c b.
Proof.
  intros c a b. induction a as [|x a IH]; [reflexivity|]. cbn [app char_in]. rewrite IH. apply orb_assoc.
Qed.

Lemma space_isspace : isspace_c 32 = true.
Proof. vm_compute. reflexivity. Qed.

Lemma upper_nospace : forall s, no_ws s -> char_in 32 (upper s) = false.
Proof.
  induction s as [|c r IH]; intro H; [reflexivity|].
  unfold no_ws in H. cbn [forallb] in H. apply andb_true_iff in H. destruct H as [Hc Hr].
  unfold upper. cbn [flat_map]. rewrite char_in_app.
  assert (Hne : c <> 32%N).
  { intro E. subst c. rewrite space_isspace in Hc. discriminate Hc. }
  rewrite (upper_c_nospace c Hne). exact (IH Hr).
Qed.

(* ================================================================== the first word of a line *)
Definition first_word (t : str) : str := fst (split_char1 32 t).

Lemma first_word_app : forall u r, char_in 32 u = false -> first_word (u ++ 32%N :: r) = u.
Proof.
  unfold first_word. induction u as [|x u IH]; intros r H.
  - reflexivity.
  - cbn [char_in] in H. apply orb_false_iff in H. destruct H as [Hx Hu].
    cbn [app split_char1]. rewrite N.eqb_sym, Hx.
    specialize (IH r Hu). destruct (split_char1 32 (u ++ 32%N :: r)) as [a b]. cbn [fst] in *.
    rewrite IH. reflexivity.
Qed.

Lemma first_word_self : forall u, char_in 32 u = false -> first_word u = u.
Proof.
  unfold first_word. induction u as [|x u IH]; intro H; [reflexivity|].
  cbn [char_in] in H. apply orb_false_iff in H. destruct H as [Hx Hu].
  cbn [split_char1]. rewrite N.eqb_sym, Hx.
  specialize (IH Hu). destruct (split_char1 32 u) as [a b]. cbn [fst] in *. rewrite IH. reflexivity.
Qed.

Lemma first_word_name_line : forall name arg, char_in 32 (upper name) = false ->
  first_word (name_line name arg) = upper name.
Proof.
  intros name [l|] H; cbn [name_line].
  - exact (first_word_app _ _ H).
  - exact (first_word_self _ H).
Qed.

(* ================================================================== who owns a word *)
(* [ws] are words of class [cn] only: no other simple class of the palette answers to one of them *)
Definition owner_okb (ws : list str) (cn : str) : bool :=
  forallb (fun nc : str * cls =>
             match snd nc with
             | Simple sc => forallb (fun w => implb (str_in w ws) (str_eqb (fst nc) cn)) (s_names sc)
             | Block _ => true
             end) palette.

Lemma owner_ok : forall ws cn, owner_okb ws cn = true ->
  forall n sc w, In (n, Simple sc) palette -> In w (s_names sc) -> In w ws -> n = cn.
Proof.
  intros ws cn H n sc w Hin Hw Hws. unfold owner_okb in H. rewrite forallb_forall in H.
  specialize (H _ Hin). cbn [snd fst] in H. rewrite forallb_forall in H. specialize (H _ Hw).
  rewrite (In_str_in _ _ Hws) in H. cbn [implb] in H. exact (GrammarProofs.str_eqb_eq _ _ H).
Qed.

Lemma cmd_words_owner : forall c, owner_okb (cmd_words c) (class_name c) = true.
Proof. intros []; vm_compute; reflexivity. Qed.

(* no name of a simple class contains a space *)
Definition names_nospace : bool :=
  forallb (fun nc : str * cls =>
             match snd nc with
             | Simple sc => forallb (fun w => negb (char_in 32 w)) (s_names sc)
             | Block _ => true
             end) palette.
Lemma names_nospace_true : names_nospace = true.
Proof. vm_compute. reflexivity. Qed.

Lemma class_name_nospace : forall n sc w, In (n, Simple sc) palette -> In w (s_names sc) -> char_in 32 w = false.
Proof.
  intros n sc w Hin Hw. pose proof names_nospace_true as H. unfold names_nospace in H.
  rewrite forallb_forall in H. specialize (H _ Hin). cbn [snd] in H. rewrite forallb_forall in H.
  apply negb_true_iff. exact (H _ Hw).
Qed.

Lemma find_class_In : forall cn sc, find_class cn = Some sc -> In (cn, Simple sc) palette.
Proof.
  intros cn sc H. unfold find_class in H.
  destruct (find (fun p : str * cls => str_eqb (fst p) cn) palette) as [[n [sc'|bc]]|] eqn:E; try discriminate H.
  injection H as <-. apply find_some in E. destruct E as [Hin Hn]. cbn [fst] in Hn.
  apply GrammarProofs.str_eqb_eq in Hn. subst n. exact Hin.
Qed.

(* the first word of a line emitted by a palette class is the upper-cased command word, or ENTER, or
   nothing *)
Lemma emitted_first_word : forall cn sc name text,
  find_class cn = Some sc -> In (upper name) (s_names sc) -> emits sc name text ->
  first_word text = upper name \/ text = s_ENTER \/ text = [].
Proof.
  intros cn sc name text Hsc Hname Hem.
  pose proof (class_name_nospace _ _ _ (find_class_In _ _ Hsc) Hname) as Hns.
  unfold emits in Hem. destruct (s_run sc); try contradiction Hem.
  - destruct Hem as [arg [_ ->]]. left. exact (first_word_name_line name arg Hns).
  - destruct Hem as [-> | ->]; [left; exact (first_word_self _ Hns) | right; left; reflexivity].
  - right. right. exact Hem.
  - destruct Hem as [arg [_ ->]]. left. exact (first_word_name_line name arg Hns).
  - destruct Hem as [arg [_ ->]]. left. exact (first_word_name_line name arg Hns).
Qed.

Lemma s_ENTER_not_validated : forall c, ~ In s_ENTER (cmd_words c).
Proof. intros [] H; cbn in H; repeat (destruct H as [H|H]; [discriminate H|]); exact H. Qed.

Lemma nil_not_validated : forall c, ~ In [] (cmd_words c).
Proof. intros [] H; cbn in H; repeat (destruct H as [H|H]; [discriminate H|]); exact H. Qed.

Lemma s_REPEAT_not_validated : forall c, ~ In s_REPEAT (cmd_words c).
Proof. intros [] H; cbn in H; repeat (destruct H as [H|H]; [discriminate H|]); exact H. Qed.

(* ================================================================== the text-level property of a line *)
Definition text_ok (text : str) : Prop :=
  forall c, In (first_word text) (cmd_words c) -> legal_line c text.

Theorem line_inv_text_ok : forall l, line_inv l -> o_tag l <> ByIgnore -> text_ok (o_text l).
Proof.
  intros l H Hni c Hfw. unfold line_inv in H. destruct (o_tag l) as [cn| | |].
  - destruct H as [sc [name [Hsc [Hname Hem]]]].
    destruct (emitted_first_word cn sc name _ Hsc Hname Hem) as [E | [E | E]].
    + rewrite E in Hfw.
      pose proof (owner_ok _ _ (cmd_words_owner c) _ _ _ (find_class_In _ _ Hsc) Hname Hfw) as ->.
      exact (validated_line_legal c sc name _ Hsc Hname Hem).
    + rewrite E in Hfw. exfalso. exact (s_ENTER_not_validated c Hfw).
    + rewrite E in Hfw. exfalso. exact (nil_not_validated c Hfw).
  - destruct H as [name [arg [Hws [Hunk E]]]]. exfalso.
    rewrite E, (first_word_name_line name arg (upper_nospace _ Hws)) in Hfw.
    destruct (class_found c) as [sc Hsc].
    destruct (class_facts c sc Hsc) as [Hnames _].
    apply (Hunk _ _ (find_class_In _ _ Hsc)).
    rewrite Hnames. destruct c; first [exact Hfw | contradiction Hfw].
  - contradiction Hni. reflexivity.
  - destruct H as [a E]. exfalso. rewrite E in Hfw.
    assert (Hr : first_word (s_REPEAT ++ [space] ++ a) = s_REPEAT) by (apply first_word_app; reflexivity).
    rewrite Hr in Hfw. exact (s_REPEAT_not_validated c Hfw).
Qed.

(* the no-argument keys and ENTER, on the text alone *)
Definition bare_text_ok (text : str) : Prop :=
  forall cn ws, bare_words cn = Some ws -> In (first_word text) ws -> In text ws.

Lemma bare_words_owner : forall cn ws, bare_words cn = Some ws -> owner_okb ws cn = true.
Proof.
  intros cn ws H. unfold bare_words in H.
  repeat match type of H with
         | (if str_eqb cn ?n then _ else _) = _ =>
             let E := fresh "E" in
             destruct (str_eqb cn n) eqn:E;
             [apply GrammarProofs.str_eqb_eq in E; injection H as <-; subst cn; vm_compute; reflexivity|]
         end.
  discriminate H.
Qed.

Lemma bare_words_not : forall cn ws, bare_words cn = Some ws -> ~ In [] ws /\ ~ In s_REPEAT ws.
Proof.
  intros cn ws H. unfold bare_words in H.
  repeat match type of H with
         | (if str_eqb cn ?n then _ else _) = _ =>
             destruct (str_eqb cn n);
             [injection H as <-; split; intro Hin; cbn in Hin;
              repeat (destruct Hin as [Hin|Hin]; [discriminate Hin|]); exact Hin|]
         end.
  discriminate H.
Qed.

Theorem line_inv_bare_text_ok : forall l, line_inv l -> o_tag l <> ByIgnore -> bare_text_ok (o_text l).
Proof.
  intros l H Hni cn0 ws Hb Hfw. unfold line_inv in H. destruct (o_tag l) as [cn| | |].
  - destruct H as [sc [name [Hsc [Hname Hem]]]].
    destruct (emitted_first_word cn sc name _ Hsc Hname Hem) as [E | [E | E]].
    + rewrite E in Hfw.
      pose proof (owner_ok _ _ (bare_words_owner _ _ Hb) _ _ _ (find_class_In _ _ Hsc) Hname Hfw) as ->.
      exact (bare_line_ok cn0 ws sc name _ Hb Hsc Hname Hem).
    + (* an ENTER line of the count form: the Enter class *)
      rewrite E in Hfw |- *. assert (Hf : first_word s_ENTER = s_ENTER) by reflexivity.
      rewrite Hf in Hfw. exact Hfw.
    + rewrite E in Hfw. exfalso. exact (proj1 (bare_words_not _ _ Hb) Hfw).
  - destruct H as [name [arg [Hws [Hunk E]]]]. exfalso.
    rewrite E, (first_word_name_line name arg (upper_nospace _ Hws)) in Hfw.
    destruct (bare_class_facts cn0 ws Hb) as [sc [Hsc [Hnames _]]].
    apply (Hunk _ _ (find_class_In _ _ Hsc)). rewrite Hnames. exact Hfw.
  - contradiction Hni. reflexivity.
  - destruct H as [a E]. exfalso. rewrite E in Hfw.
    assert (Hr : first_word (s_REPEAT ++ [space] ++ a) = s_REPEAT) by (apply first_word_app; reflexivity).
    rewrite Hr in Hfw. exact (proj2 (bare_words_not _ _ Hb) Hfw).
Qed.

Section Programs.
Variable fo : FloatOps.

Theorem program_text_legal : forall o fs file cmds g c,
  compile_items fo o fs file cmds = (g, IOk _ c) ->
  Forall (fun l => o_tag l <> ByIgnore -> text_ok (o_text l) /\ bare_text_ok (o_text l)) (out fo c).
Proof.
  intros o fs file cmds g c H. pose proof (compile_items_inv fo _ _ _ _ _ _ H) as Hinv.
  rewrite Forall_forall in *. intros l Hl Hni.
  split; [exact (line_inv_text_ok l (Hinv l Hl) Hni) | exact (line_inv_bare_text_ok l (Hinv l Hl) Hni)].
Qed.

Theorem program_text_legal_text : forall o fs file text g c,
  compile_text fo o fs file text = (g, IOk _ c) ->
  Forall (fun l => o_tag l <> ByIgnore -> text_ok (o_text l) /\ bare_text_ok (o_text l)) (out fo c).
Proof.
  intros o fs file text g c H. unfold compile_text in H.
  destruct (prepare_text text) as [cmds|[| | | |]]; try discriminate H.
  exact (program_text_legal _ _ _ _ _ _ H).
Qed.

End Programs.
