(* START AS PASTE, on the unified reference semantics (Spec/CoreAll.v) alone.
   `START f` against the statements of f written in its place:
     [start_paste]        from the import rule (C12d_start_rule): the statements of f have, AT THE
                          PLACE OF THE START, a derivation with the same output, the same final
                          store, the same functions (up to where they are defined), the same events
                          up to locations -- but started with NO IF flag, ending with the file's own
                          flag and the file's own signal (the import ends Normal, keeps the
                          importer's flag, and turns a stray BREAKLOOP/CONTINUELOOP into a warning);
     [paste_in_context]   the paste equation inside a statement list: when the file ends Normal
                          and leaves no flag,  START f :: rest  and  stmts(f) ++ rest  agree.
   Uses the relocation theorem (Proofs/CoreAllSim.v) and "names are never lost" (CoreAllKeys.v). *)
From Coq Require Import NArith ZArith List Bool Lia.
From DS Require Import Base PyStr Values Expr TabParse ScopeProofs CoreLang CoreFunc CoreText CoreAll CoreAllErase.
From DS Require Import CoreAllTextForest CoreAllSim CoreAllKeys CoreAllImports.
Import ListNotations.

(* ================================================================== tr false = identity *)
Lemma trl_false_each : forall b, each (fun s => tr false s = [s]) b -> trl false b = b.
Proof.
  induction b as [|s r IH]; intro H; [reflexivity|]. destruct H as [Hs Hr].
  rewrite trl_cons, Hs, (IH Hr). reflexivity.
Qed.

Lemma tr_false : forall s, tr false s = [s].
Proof.
  apply ustmt_ind2; try reflexivity.
  - intros arms els Ha He. rewrite tr_if. f_equal. f_equal.
    + clear He. induction arms as [|[c b] r IH]; [reflexivity|]. destruct Ha as [Hb Hr].
      rewrite tr_arms_cons, (trl_false_each b Hb), (IH Hr). reflexivity.
    + destruct els as [b|]; [|reflexivity]. cbn [tr_els]. rewrite (trl_false_each b He). reflexivity.
  - intros c e b Hb. cbn [tr]. fold (trl false b). rewrite (trl_false_each b Hb). reflexivity.
  - intros c e b Hb. cbn [tr]. fold (trl false b). rewrite (trl_false_each b Hb). reflexivity.
  - intros name ps b Hb. cbn [tr]. fold (trl false b). rewrite (trl_false_each b Hb). reflexivity.
Qed.

Lemma trl_false : forall p, trl false p = p.
Proof. intro p. apply trl_false_each. apply CoreTextForest.each_intro. exact tr_false. Qed.

Section Paste.
Variable fo : FloatOps.
Variable sys : store fo.
Variable prog : program.
Variable inc sup : bool.

Notation exec := (CoreAll.exec fo sys prog inc sup).
Notation exec_list := (CoreAll.exec_list fo sys prog inc sup).
Notation exec_arms := (CoreAll.exec_arms fo sys prog inc sup).
Notation exec_repeat := (CoreAll.exec_repeat fo sys prog inc sup).
Notation exec_while := (CoreAll.exec_while fo sys prog inc sup).

(* ================================================================== more stacks never hurt *)
Theorem depth_mono_all :
  (forall d pile cf n F f vs s sg F' f' vs' out ev,
     exec d pile cf n F f vs s sg F' f' vs' out ev -> exec (S d) pile cf n F f vs s sg F' f' vs' out ev) /\
  (forall d pile cf n F f vs p sg F' f' vs' out ev,
     exec_list d pile cf n F f vs p sg F' f' vs' out ev -> exec_list (S d) pile cf n F f vs p sg F' f' vs' out ev) /\
  (forall d pile cf first n F b vs arms els sg taken vs' out ev,
     exec_arms d pile cf first n F b vs arms els sg taken vs' out ev ->
     exec_arms (S d) pile cf first n F b vs arms els sg taken vs' out ev) /\
  (forall d pile cf n F f c e body k vs sg vs' out ev,
     exec_repeat d pile cf n F f c e body k vs sg vs' out ev ->
     exec_repeat (S d) pile cf n F f c e body k vs sg vs' out ev) /\
  (forall d pile cf n F c e body k vs sg vs' out ev,
     exec_while d pile cf n F c e body k vs sg vs' out ev ->
     exec_while (S d) pile cf n F c e body k vs sg vs' out ev).
Proof.
  apply (CoreAll.exec_all_mind fo sys prog inc sup
           (fun d pile cf n F f vs s sg F' f' vs' out ev => exec (S d) pile cf n F f vs s sg F' f' vs' out ev)
           (fun d pile cf n F f vs p sg F' f' vs' out ev => exec_list (S d) pile cf n F f vs p sg F' f' vs' out ev)
           (fun d pile cf first n F b vs arms els sg taken vs' out ev =>
              exec_arms (S d) pile cf first n F b vs arms els sg taken vs' out ev)
           (fun d pile cf n F f c e body k vs sg vs' out ev => exec_repeat (S d) pile cf n F f c e body k vs sg vs' out ev)
           (fun d pile cf n F c e body k vs sg vs' out ev => exec_while (S d) pile cf n F c e body k vs sg vs' out ev));
    intros; econstructor; eauto.
Qed.

Lemma depth_mono_list : forall d pile cf n F f vs p sg F' f' vs' out ev,
  exec_list d pile cf n F f vs p sg F' f' vs' out ev -> exec_list (S d) pile cf n F f vs p sg F' f' vs' out ev.
Proof. exact (proj1 (proj2 depth_mono_all)). Qed.

(* ================================================================== relocation, same program *)
Lemma prog_self : forall m stmts, lookup m prog = Some stmts -> lookup m prog = Some (trl false stmts).
Proof. intros m stmts H. rewrite trl_false. exact H. Qed.

(* the statements p moved from (pile, cf, n) to (pile2, cf2, n2), with the functions of F possibly
   defined elsewhere (F2): same run up to locations *)
Theorem relocate : forall ks d pile cf n F f vs p sg F' f' vs' out ev pile2 cf2 n2 F2,
  exec_list d pile cf n F f vs p sg F' f' vs' out ev ->
  Loc ks pile cf pile2 cf2 -> tsim false ks F F2 ->
  exists F2' ev2, exec_list d pile2 cf2 n2 F2 f vs p sg F2' f' vs' out ev2 /\
                  tsim false ks F' F2' /\ map shape ev = map shape ev2.
Proof.
  intros ks d pile cf n F f vs p sg F' f' vs' out ev pile2 cf2 n2 F2 H HL HT.
  destruct (sim_list fo sys inc sup false ks prog prog prog_self d pile cf n F f vs p sg F' f' vs' out ev pile2 cf2 n2 F2 H HL HT)
    as (F2' & ev2 & H2 & HT' & Hev).
  rewrite trl_false in H2. exists F2', ev2. split; [exact H2|]. split; [exact HT'|exact Hev].
Qed.

Lemma tsim_refl : forall ks F, tsim false ks F F.
Proof.
  intros ks F. induction F as [|[x d] F IH]; [constructor|]. constructor; [|exact IH].
  split; [reflexivity|]. split; [reflexivity|]. split; [rewrite trl_false; reflexivity|left; reflexivity].
Qed.

Lemma Loc_unstack : forall pile cf t n b f, Loc [cf] (pile ++ [mkSF cf t n b]) f pile cf.
Proof.
  intros pile cf t n b f. split; [|split].
  - intros x [<-|[]]. apply live_push. right. left. reflexivity.
  - intros x Hx. apply live_push. cbn [sf_file]. unfold live_files in Hx. cbn [In] in Hx.
    destruct Hx as [Hx|Hx]; [right; left; symmetry; exact Hx|right; right; exact Hx].
  - right. left. reflexivity.
Qed.

Lemma Loc_same : forall ks pile cf, incl ks (live_files pile cf) -> Loc ks pile cf pile cf.
Proof. intros ks pile cf H. split; [exact H|]. split; [apply incl_refl|left; reflexivity]. Qed.

(* ================================================================== START f  vs  the statements of f *)
(* FROM THE IMPORT RULE.  Every derivation of `START f` (at line n of cf, under pile, with flag fl)
   yields a derivation of the statements of f AT THAT PLACE, one stack lower, with
     - the same output lines and the same final store;
     - a final function table F2 with the same functions as the import's (same names, parameters,
       bodies), those defined by f now defined in cf instead of f (tsim false [cf]);
     - the same events up to locations ([shape]: line, file and pile of each print / warning dropped),
       EXCEPT the stray warning, which the inlined list does not raise: it ends with the file's
       signal sg1 instead (the import ends Normal);
     - started with NO flag and ending with the file's flag f1 (the import starts the file with no
       flag whatever fl is, and leaves fl). *)
Theorem start_paste : forall d pile cf n F fl vs f sg F' f' vs' out ev,
  exec d pile cf n F fl vs (UStart KStart f) sg F' f' vs' out ev -> nodup_keys vs -> nodup_keys F ->
  exists d' stmts sg1 f1 F2 ev2,
    d = S d' /\ lookup f prog = Some stmts /\ sg = Normal /\ f' = fl /\
    exec_list d' pile cf n F None vs stmts sg1 F2 f1 vs' out ev2 /\
    tsim false [cf] F' F2 /\ map shape ev = map shape (ev2 ++ stray sg1).
Proof.
  intros d pile cf n F fl vs f sg F' f' vs' out ev H Hv HF.
  apply (start_iff fo sys prog inc sup) in H.
  destruct H as (d' & stmts & sg1 & F1 & f1 & vs1 & out1 & ev1 & -> & Hlk & Hnot & Hrun & -> & -> & -> & -> & -> & ->).
  destruct (overlay_after_run fo sys prog inc sup _ _ _ _ _ _ _ _ _ _ _ _ _ _ Hrun Hv HF) as [Eo Ed].
  rewrite Eo, Ed.
  destruct (relocate [cf] _ _ _ _ _ _ _ _ _ _ _ _ _ _ pile cf n F Hrun (Loc_unstack pile cf _ n true f) (tsim_refl [cf] F))
    as (F2 & ev2 & H2 & HT & Hev).
  exists d', stmts, sg1, f1, F2, ev2. repeat (split; [reflexivity|]).
  split; [exact Hlk|]. repeat (split; [reflexivity|]).
  split; [exact H2|]. split; [exact HT|]. rewrite !map_app, Hev. reflexivity.
Qed.

(* the same for the three commands: STARTCODE keeps only the assignments to existing variables
   (copy_back) and no function; STARTENV drops the output lines.  vs1, out1, F1: the file's own
   final store, output and table, which the inlined statements produce as they are. *)
Theorem start_paste_any : forall d pile cf n F fl vs k f sg F' f' vs' out ev,
  exec d pile cf n F fl vs (UStart k f) sg F' f' vs' out ev -> nodup_keys vs -> nodup_keys F ->
  exists d' stmts sg1 f1 F1 vs1 out1 F2 ev2,
    d = S d' /\ lookup f prog = Some stmts /\ sg = Normal /\ f' = fl /\
    exec_list d' pile cf n F None vs stmts sg1 F2 f1 vs1 out1 ev2 /\
    tsim false [cf] F1 F2 /\ map shape ev = map shape (ev2 ++ stray sg1) /\
    F' = (match k with KCode => F | _ => F1 end) /\
    vs' = (match k with KCode => copy_back fo vs vs1 | _ => vs1 end) /\
    out = (match k with KEnv => [] | _ => out1 end).
Proof.
  intros d pile cf n F fl vs k f sg F' f' vs' out ev H Hv HF.
  apply (start_iff fo sys prog inc sup) in H.
  destruct H as (d' & stmts & sg1 & F1 & f1 & vs1 & out1 & ev1 & -> & Hlk & Hnot & Hrun & -> & -> & -> & -> & -> & ->).
  destruct (overlay_after_run fo sys prog inc sup _ _ _ _ _ _ _ _ _ _ _ _ _ _ Hrun Hv HF) as [Eo Ed].
  rewrite Eo, Ed.
  destruct (relocate [cf] _ _ _ _ _ _ _ _ _ _ _ _ _ _ pile cf n F Hrun (Loc_unstack pile cf _ n true f) (tsim_refl [cf] F))
    as (F2 & ev2 & H2 & HT & Hev).
  exists d', stmts, sg1, f1, F1, vs1, out1, F2, ev2. repeat (split; [reflexivity|]).
  split; [exact Hlk|]. repeat (split; [reflexivity|]).
  split; [exact H2|]. split; [exact HT|]. split; [rewrite !map_app, Hev; reflexivity|].
  repeat split.
Qed.

(* THE PASTE EQUATION in a statement list: if the file runs (as an import: one stack up, no flag)
   to Normal and leaves no flag, then `START f` followed by rest, and the statements of f followed
   by rest, both have derivations with the same signal, flag, store and output; the function
   tables agree up to where the functions of f are defined, the events up to locations. *)
Theorem paste_in_context : forall d pile cf n F vs f stmts F1 vs1 o1 e1 rest sg F' f' vs' o2 e2,
  lookup f prog = Some stmts -> ~ In f (live_files pile cf) -> nodup_keys vs -> nodup_keys F ->
  exec_list d (pile ++ [mkSF cf (start_head KStart f) n true]) f 1 F None vs stmts Normal F1 None vs1 o1 e1 ->
  exec_list (S d) pile cf (n + 1) F1 None vs1 rest sg F' f' vs' o2 e2 ->
  exec_list (S d) pile cf n F None vs (UStart KStart f :: rest) sg F' f' vs' (o1 ++ o2) (e1 ++ e2) /\
  exists F2 ev2,
    exec_list (S d) pile cf n F None vs (stmts ++ rest) sg F2 f' vs' (o1 ++ o2) ev2 /\
    tsim false [cf] F' F2 /\ map shape (e1 ++ e2) = map shape ev2.
Proof.
  intros d pile cf n F vs f stmts F1 vs1 o1 e1 rest sg F' f' vs' o2 e2 Hlk Hnot Hv HF Hfile Hrest.
  destruct (overlay_after_run fo sys prog inc sup _ _ _ _ _ _ _ _ _ _ _ _ _ _ Hfile Hv HF) as [Eo Ed].
  split.
  - eapply L_Cons; [|exact Hrest].
    pose proof (E_Start fo sys prog inc sup d pile cf n F None vs KStart f stmts Normal F1 None vs1 o1 e1 Hlk Hnot Hfile) as HS.
    cbv iota in HS. rewrite Eo, Ed in HS. cbn [stray] in HS. rewrite app_nil_r in HS. exact HS.
  - destruct (relocate [cf] _ _ _ _ _ _ _ _ _ _ _ _ _ _ pile cf n F Hfile (Loc_unstack pile cf _ n true f) (tsim_refl [cf] F))
      as (F2a & eva & Ha & HTa & Heva).
    assert (HL : Loc [cf] pile cf pile cf).
    { apply Loc_same. intros x [<-|[]]. left. reflexivity. }
    destruct (relocate [cf] _ _ _ _ _ _ _ _ _ _ _ _ _ _ pile cf (n + sum_sizes usize stmts)%Z F2a Hrest HL HTa)
      as (F2b & evb & Hb & HTb & Hevb).
    exists F2b, (eva ++ evb). split; [|split; [exact HTb|rewrite !map_app, Heva, Hevb; reflexivity]].
    eapply (exec_list_app fo sys inc sup prog); [exact (depth_mono_list _ _ _ _ _ _ _ _ _ _ _ _ _ _ Ha)|exact Hb].
Qed.

(* ... after any statements pre that end Normal and leave no flag (no IF chain at their level) *)
Theorem paste_after_prefix : forall d pile cf n0 F0 f0 vs0 pre o0 e0 F vs f stmts F1 vs1 o1 e1 rest sg F' f' vs' o2 e2,
  lookup f prog = Some stmts -> ~ In f (live_files pile cf) -> nodup_keys vs0 -> nodup_keys F0 ->
  exec_list (S d) pile cf n0 F0 f0 vs0 pre Normal F None vs o0 e0 ->
  exec_list d (pile ++ [mkSF cf (start_head KStart f) (n0 + sum_sizes usize pre) true]) f 1 F None vs stmts Normal F1 None vs1 o1 e1 ->
  exec_list (S d) pile cf (n0 + sum_sizes usize pre + 1) F1 None vs1 rest sg F' f' vs' o2 e2 ->
  exec_list (S d) pile cf n0 F0 f0 vs0 (pre ++ UStart KStart f :: rest) sg F' f' vs' (o0 ++ o1 ++ o2) (e0 ++ e1 ++ e2) /\
  exists F2 ev2,
    exec_list (S d) pile cf n0 F0 f0 vs0 (pre ++ stmts ++ rest) sg F2 f' vs' (o0 ++ o1 ++ o2) (e0 ++ ev2) /\
    tsim false [cf] F' F2 /\ map shape (e1 ++ e2) = map shape ev2.
Proof.
  intros d pile cf n0 F0 f0 vs0 pre o0 e0 F vs f stmts F1 vs1 o1 e1 rest sg F' f' vs' o2 e2 Hlk Hnot Hv0 HF0 Hpre Hfile Hrest.
  destruct (keys_list fo sys prog inc sup _ _ _ _ _ _ _ _ _ _ _ _ _ _ Hpre) as (Nv & _ & NF & _).
  destruct (paste_in_context d pile cf (n0 + sum_sizes usize pre)%Z F vs f stmts F1 vs1 o1 e1 rest sg F' f' vs' o2 e2
              Hlk Hnot (Nv Hv0) (NF HF0) Hfile Hrest) as (Himp & F2 & ev2 & Hinl & HT & Hev).
  split.
  - exact (exec_list_app fo sys inc sup prog _ _ _ _ _ _ _ _ _ _ _ _ _ _ _ _ _ _ _ _ Hpre Himp).
  - exists F2, ev2. split; [|split; [exact HT|exact Hev]].
    exact (exec_list_app fo sys inc sup prog _ _ _ _ _ _ _ _ _ _ _ _ _ _ _ _ _ _ _ _ Hpre Hinl).
Qed.

(* the two rule-level facts behind the side conditions *)
Lemma start_keeps_flag_and_normal : forall d pile cf n F fl vs k f sg F' f' vs' out ev,
  exec d pile cf n F fl vs (UStart k f) sg F' f' vs' out ev -> sg = Normal /\ f' = fl.
Proof.
  intros d pile cf n F fl vs k f sg F' f' vs' out ev H. apply (start_iff fo sys prog inc sup) in H.
  destruct H as (d' & stmts & sg1 & F1 & f1 & vs1 & out1 & ev1 & _ & _ & _ & _ & -> & -> & _). split; reflexivity.
Qed.

Lemma if_sets_flag : forall d pile cf n F fl vs arms els sg F' f' vs' out ev,
  exec d pile cf n F fl vs (UIf arms els) sg F' f' vs' out ev -> exists taken, f' = Some taken.
Proof.
  intros d pile cf n F fl vs arms els sg F' f' vs' out ev H. inversion H; subst. eexists. reflexivity.
Qed.

End Paste.
