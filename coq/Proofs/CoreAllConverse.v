(* TOTALITY, CONVERSE and INDEPENDENCE for the unified reference semantics, with the interpreter:
   - combined with the two refinement theorems (CoreAllTop.refine_compile_items,
     CoreAllErrRefine.refine_fails_compile_items) the totality theorem of Proofs/CoreAllTotal.v says
     that Compiler.compile returns EXACTLY the success of a derivation or the located error of a
     derivation -- never ICrash, never IUnmod -- and conversely;
   - [spec_result_is]: the result of compiling (prog, options, entry) AS DEFINED BY THE JUDGEMENTS;
     it exists (totality), is unique (determinism + disjointness, Proofs/CoreAllDet.v), and is what
     the interpreter returns, whatever the rest of the file system and whatever the history of
     earlier compilations (C17). *)
From Coq Require Import NArith ZArith List Bool Lia.
From DS Require Import Base PyStr Values Expr TabParse Tables Constants Interp IdentSpec World SmallProofs.
From DS Require Import ScopeProofs ImportGraph GraphText CoreLang CoreWf CoreRefine CoreFunc CoreErr.
From DS Require Import CoreAll CoreAllLines CoreAllBase CoreAllRefine CoreAllTop.
From DS Require Import CoreAllErr CoreAllErrLines CoreAllErrRefine CoreAllErrFacts CoreAllDet CoreAllTotal.
Import ListNotations.

Arguments IOk {A}. Arguments IErr {A}. Arguments ICrash {A}. Arguments IUnmod {A}.
Arguments e_sys : clear implicits. Arguments e_user : clear implicits. Arguments e_temp : clear implicits.
Arguments e_funcs : clear implicits. Arguments mkEnv : clear implicits.

(* every expression of every file stays inside the modelled evaluator *)
Definition tame_prog (fo : FloatOps) (prog : program) : Prop :=
  forall m stmts, lookup m prog = Some stmts -> every (utame fo) stmts.

(* ================================================================== the result according to the specification *)
(* what compiling a program yields: a success with everything the success judgement determines, or
   a failure with class, chain and events *)
Inductive uresult (fo : FloatOps) :=
| UOk (sg : fsig) (F' : utable) (f' : option bool) (vs' : store fo) (out : list uline) (ev : list event)
| UFail (er : errcls) (chain : list sframe) (ev : list event).
Arguments UOk {fo}. Arguments UFail {fo}.

(* ... as DEFINED BY THE JUDGEMENTS, from (program, options, entry) alone *)
Definition spec_result_is (fo : FloatOps) (prog : program) (o : options) (entry : str) (r : uresult fo) : Prop :=
  match r with
  | UOk sg F' f' vs' out ev =>
      uruns fo prog (include_comments o) (supress_command_not_exist o) entry (room_of_limit (stack_limit o)) sg F' f' vs' out ev
  | UFail er ch ev =>
      ufails fo prog (include_comments o) (supress_command_not_exist o) entry (room_of_limit (stack_limit o)) er ch ev
  end.

(* how a result of the interpreter is read as such a result: output texts, final variables, flag
   and function table (utab_rel), prints, de-duplicated warnings, glob; class, trace, glob *)
Definition observes (fo : FloatOps) (dir : path) (res : glob * ires (compiled fo)) (r : uresult fo) : Prop :=
  match r with
  | UOk sg F' f' vs' out ev =>
      exists ol Fi, map o_text ol = map line_text out /\ utab_rel dir F' Fi /\
        res = (CoreAllBase.apply_evs dir ev (mkGlob [] []),
               IOk (mkCompiled fo ol (map (CoreAllBase.conc_warning dir) (warnings_of ev))
                      (mkEnv fo (initial_sys fo) vs' (flag_var fo f') Fi)
                      (map (CoreAllBase.conc_print dir) (prints_of ev))))
  | UFail er ch ev =>
      res = (CoreAllBase.apply_evs dir ev (mkGlob [] []), IErr er (Some (map (CoreAllBase.conc_frame dir) ch)))
  end.

Lemma spec_result_meaning : forall fo prog o entry,
  (forall sg F' f' vs' out ev,
     spec_result_is fo prog o entry (UOk sg F' f' vs' out ev) <->
     uruns fo prog (include_comments o) (supress_command_not_exist o) entry (room_of_limit (stack_limit o)) sg F' f' vs' out ev) /\
  (forall er ch ev,
     spec_result_is fo prog o entry (UFail er ch ev) <->
     ufails fo prog (include_comments o) (supress_command_not_exist o) entry (room_of_limit (stack_limit o)) er ch ev).
Proof. intros. split; intros; reflexivity. Qed.

Lemma observes_meaning : forall fo dir res,
  (forall sg F' f' vs' out ev,
     observes fo dir res (UOk sg F' f' vs' out ev) <->
     exists ol Fi, map o_text ol = map line_text out /\ utab_rel dir F' Fi /\
       res = (CoreAllBase.apply_evs dir ev (mkGlob [] []),
              IOk (mkCompiled fo ol (map (CoreAllBase.conc_warning dir) (warnings_of ev))
                     (mkEnv fo (initial_sys fo) vs' (flag_var fo f') Fi)
                     (map (CoreAllBase.conc_print dir) (prints_of ev))))) /\
  (forall er ch ev,
     observes fo dir res (UFail er ch ev) <->
     res = (CoreAllBase.apply_evs dir ev (mkGlob [] []), IErr er (Some (map (CoreAllBase.conc_frame dir) ch)))).
Proof. intros. split; intros; reflexivity. Qed.

Section Converse.
Variable fo : FloatOps.
Variable dir : path.
Variable prog : program.

Lemma room_lt_limit : forall o, (1 <= stack_limit o)%Z -> (Z.of_nat (room_of_limit (stack_limit o)) < stack_limit o)%Z.
Proof. intros o H. unfold room_of_limit. lia. Qed.

Section WithFs.
Variable fs : fsys.
Hypothesis Hprog : prog_ok dir prog fs.

Lemma prog_ok_names : prog_names_ok prog.
Proof. intros m stmts H. destruct (Hprog m stmts H) as (Hwf & _). exact (unames_ok_list_of_uwf stmts Hwf). Qed.

Lemma prog_ok_good : tame_prog fo prog -> good_prog fo prog.
Proof. intros Ht m stmts H. split; [exact (prog_ok_names m stmts H)|exact (Ht m stmts H)]. Qed.

(* TOTALITY on the specifications: the result exists *)
Theorem spec_result_exists : forall o entry stmts,
  tame_prog fo prog -> lookup entry prog = Some stmts -> exists r, spec_result_is fo prog o entry r.
Proof.
  intros o entry stmts Ht Hlk.
  destruct (uprogram_total fo prog (include_comments o) (supress_command_not_exist o) entry
              (room_of_limit (stack_limit o)) stmts (prog_ok_good Ht) Hlk)
    as [(sg & F' & f' & vs' & out & ev & H)|(er & ch & ev & H)].
  - exists (UOk sg F' f' vs' out ev). exact H.
  - exists (UFail er ch ev). exact H.
Qed.

(* DETERMINISM + DISJOINTNESS: the result is unique *)
Theorem spec_result_unique : forall o entry r1 r2,
  spec_result_is fo prog o entry r1 -> spec_result_is fo prog o entry r2 -> r1 = r2.
Proof.
  intros o entry r1 r2 H1 H2.
  pose proof prog_ok_names as Hn.
  assert (Hnil : tab_names_ok []) by constructor.
  destruct r1 as [sg1 F1 f1 vs1 o1 e1|er1 ch1 e1]; destruct r2 as [sg2 F2 f2 vs2 o2 e2|er2 ch2 e2]; cbn [spec_result_is] in H1, H2.
  - destruct H1 as (st1 & ev1 & L1 & D1 & ->). destruct H2 as (st2 & ev2 & L2 & D2 & ->).
    rewrite L1 in L2. injection L2 as <-.
    destruct (exec_list_det fo (initial_sys fo) prog _ _ _ _ _ _ _ _ _ _ _ _ _ _ _ _ _ _ _ _ _ _ D1 D2)
      as (-> & -> & -> & -> & -> & ->). reflexivity.
  - exfalso. destruct H1 as (st1 & ev1 & L1 & D1 & _). destruct H2 as (st2 & L2 & D2).
    rewrite L1 in L2. injection L2 as <-.
    exact (exec_list_fails_disjoint fo (initial_sys fo) prog _ _ Hn _ _ _ _ _ _ _ _ _ _ _ _ _ _ _ _ _ Hnil
             (Hn entry st1 L1) D1 D2).
  - exfalso. destruct H2 as (st1 & ev1 & L1 & D1 & _). destruct H1 as (st2 & L2 & D2).
    rewrite L1 in L2. injection L2 as <-.
    exact (exec_list_fails_disjoint fo (initial_sys fo) prog _ _ Hn _ _ _ _ _ _ _ _ _ _ _ _ _ _ _ _ _ Hnil
             (Hn entry st1 L1) D1 D2).
  - destruct H1 as (st1 & L1 & D1). destruct H2 as (st2 & L2 & D2).
    rewrite L1 in L2. injection L2 as <-.
    destruct (fails_list_det fo (initial_sys fo) prog _ _ Hn _ _ _ _ _ _ _ _ _ _ _ _ _ _ Hnil (Hn entry st1 L1) D1 D2)
      as (-> & -> & ->). reflexivity.
Qed.

Hypothesis Hmiss : prog_closed dir prog fs.

(* REFINEMENT, both judgements: the interpreter returns the result of the specification *)
Theorem compile_is_spec_result : forall o entry stmts r,
  (1 <= stack_limit o)%Z -> lookup entry prog = Some stmts -> spec_result_is fo prog o entry r ->
  observes fo dir (compile_items fo o fs (Some (file_of dir entry)) (uitems_of stmts)) r.
Proof.
  intros o entry stmts r Hlim Hlk Hr. destruct r as [sg F' f' vs' out ev|er ch ev]; cbn [spec_result_is observes] in *.
  - destruct (refine_compile_items fo dir prog fs o entry _ sg F' f' vs' out ev Hprog Hr (room_lt_limit o Hlim))
      as (stmts' & ol & Fi & Hlk' & Ho & Ht & E).
    rewrite Hlk in Hlk'. injection Hlk' as <-. exists ol, Fi. split; [exact Ho|]. split; [exact Ht|exact E].
  - destruct (refine_fails_compile_items fo dir prog fs o entry er ch ev Hprog Hmiss Hlim Hr) as (stmts' & Hlk' & E).
    rewrite Hlk in Hlk'. injection Hlk' as <-. exact E.
Qed.

(* TOTALITY for the interpreter: on a tame program Compiler.compile returns the success of a
   derivation or the located error of a derivation *)
Theorem compile_total : forall o entry stmts,
  tame_prog fo prog -> (1 <= stack_limit o)%Z -> lookup entry prog = Some stmts ->
  exists r, spec_result_is fo prog o entry r /\
    observes fo dir (compile_items fo o fs (Some (file_of dir entry)) (uitems_of stmts)) r.
Proof.
  intros o entry stmts Ht Hlim Hlk. destruct (spec_result_exists o entry stmts Ht Hlk) as (r & Hr).
  exists r. split; [exact Hr|exact (compile_is_spec_result o entry stmts r Hlim Hlk Hr)].
Qed.

(* the CONVERSE of the success refinement *)
Theorem compile_ok_has_derivation : forall o entry stmts g c,
  tame_prog fo prog -> (1 <= stack_limit o)%Z -> lookup entry prog = Some stmts ->
  compile_items fo o fs (Some (file_of dir entry)) (uitems_of stmts) = (g, IOk c) ->
  exists sg F' f' vs' outl ev Fi,
    uruns fo prog (include_comments o) (supress_command_not_exist o) entry (room_of_limit (stack_limit o)) sg F' f' vs' outl ev /\
    map o_text (Interp.out fo c) = map line_text outl /\ utab_rel dir F' Fi /\
    final_env fo c = mkEnv fo (initial_sys fo) vs' (flag_var fo f') Fi /\
    prints fo c = map (CoreAllBase.conc_print dir) (prints_of ev) /\
    warnings fo c = map (CoreAllBase.conc_warning dir) (warnings_of ev) /\
    g = CoreAllBase.apply_evs dir ev (mkGlob [] []).
Proof.
  intros o entry stmts g c Ht Hlim Hlk E.
  destruct (compile_total o entry stmts Ht Hlim Hlk) as (r & Hr & Hobs).
  destruct r as [sg F' f' vs' outl ev|er ch ev]; cbn [spec_result_is observes] in *.
  - destruct Hobs as (ol & Fi & Ho & Htab & E'). rewrite E in E'. injection E' as -> ->.
    exists sg, F', f', vs', outl, ev, Fi. split; [exact Hr|]. split; [exact Ho|]. split; [exact Htab|].
    repeat (split; [reflexivity|]). reflexivity.
  - rewrite E in Hobs. discriminate Hobs.
Qed.

(* the CONVERSE of the failure refinement: class, trace = chain, glob = events *)
Theorem compile_err_has_derivation : forall o entry stmts g er t,
  tame_prog fo prog -> (1 <= stack_limit o)%Z -> lookup entry prog = Some stmts ->
  compile_items fo o fs (Some (file_of dir entry)) (uitems_of stmts) = (g, IErr er t) ->
  exists ch ev,
    ufails fo prog (include_comments o) (supress_command_not_exist o) entry (room_of_limit (stack_limit o)) er ch ev /\
    t = Some (map (CoreAllBase.conc_frame dir) ch) /\ ch <> [] /\
    g = CoreAllBase.apply_evs dir ev (mkGlob [] []) /\
    uall_class fo er.
Proof.
  intros o entry stmts g er t Ht Hlim Hlk E.
  destruct (compile_total o entry stmts Ht Hlim Hlk) as (r & Hr & Hobs).
  destruct r as [sg F' f' vs' outl ev|er' ch ev]; cbn [spec_result_is observes] in *.
  - destruct Hobs as (ol & Fi & _ & _ & E'). rewrite E in E'. discriminate E'.
  - rewrite E in Hobs. injection Hobs as -> -> ->. exists ch, ev.
    destruct Hr as (st & L & D).
    destruct (ufails_class_all fo (initial_sys fo) prog (include_comments o) (supress_command_not_exist o)) as (_ & Hl & _).
    destruct (Hl _ _ _ _ _ _ _ _ _ _ _ D) as [Hc Hne].
    split; [exists st; split; assumption|]. split; [reflexivity|]. split; [exact Hne|]. split; [reflexivity|exact Hc].
Qed.

(* C09: never a crash, never outside the model *)
Theorem compile_never_crashes : forall o entry stmts,
  tame_prog fo prog -> (1 <= stack_limit o)%Z -> lookup entry prog = Some stmts ->
  (forall k, snd (compile_items fo o fs (Some (file_of dir entry)) (uitems_of stmts)) <> ICrash k) /\
  snd (compile_items fo o fs (Some (file_of dir entry)) (uitems_of stmts)) <> IUnmod /\
  (forall er, snd (compile_items fo o fs (Some (file_of dir entry)) (uitems_of stmts)) <> IErr er None).
Proof.
  intros o entry stmts Ht Hlim Hlk.
  destruct (compile_total o entry stmts Ht Hlim Hlk) as (r & Hr & Hobs).
  destruct r as [sg F' f' vs' outl ev|er' ch ev]; cbn [observes] in Hobs.
  - destruct Hobs as (ol & Fi & _ & _ & E'). rewrite E'. repeat split; intros; discriminate.
  - rewrite Hobs. repeat split; intros; discriminate.
Qed.

End WithFs.

(* ================================================================== INDEPENDENCE (C17b) *)
(* the rest of the file system does not matter: two file systems that both hold the program (and
   nothing else that a START could name) give results that read as the SAME specification result *)
Theorem compile_independent_of_fs : forall fs1 fs2 o entry stmts,
  prog_ok dir prog fs1 -> prog_closed dir prog fs1 -> prog_ok dir prog fs2 -> prog_closed dir prog fs2 ->
  tame_prog fo prog -> (1 <= stack_limit o)%Z -> lookup entry prog = Some stmts ->
  exists r, spec_result_is fo prog o entry r /\
    observes fo dir (compile_items fo o fs1 (Some (file_of dir entry)) (uitems_of stmts)) r /\
    observes fo dir (compile_items fo o fs2 (Some (file_of dir entry)) (uitems_of stmts)) r.
Proof.
  intros fs1 fs2 o entry stmts H1 M1 H2 M2 Ht Hlim Hlk.
  destruct (spec_result_exists fs1 H1 o entry stmts Ht Hlk) as (r & Hr). exists r. split; [exact Hr|]. split.
  - exact (compile_is_spec_result fs1 H1 M1 o entry stmts r Hlim Hlk Hr).
  - exact (compile_is_spec_result fs2 H2 M2 o entry stmts r Hlim Hlk Hr).
Qed.

(* a compilation job for the entry file of the program *)
Definition job_for (j : job) (entry : str) : Prop :=
  prog_ok dir prog (j_fs j) /\ prog_closed dir prog (j_fs j) /\
  j_file j = Some (file_of dir entry) /\ j_fs j (file_of dir entry) = Some (j_text j) /\
  (1 <= stack_limit (j_opts j))%Z.

Lemma job_result : forall j entry r,
  job_for j entry -> spec_result_is fo prog (j_opts j) entry r -> observes fo dir (run_job fo j) r.
Proof.
  intros j entry r (Hp & Hm & Hfile & Htext & Hlim) Hr.
  assert (Hlk : exists stmts, lookup entry prog = Some stmts).
  { destruct r as [sg F' f' vs' out ev|er ch ev]; cbn [spec_result_is] in Hr.
    - destruct Hr as (st & _ & L & _). exists st. exact L.
    - destruct Hr as (st & L & _). exists st. exact L. }
  destruct Hlk as (stmts & Hlk).
  destruct (Hp entry stmts Hlk) as (_ & text & Hfs & Hparse).
  rewrite Htext in Hfs. injection Hfs as <-.
  unfold run_job, compile_text. rewrite Hparse, Hfile.
  exact (compile_is_spec_result (j_fs j) Hp Hm (j_opts j) entry stmts r Hlim Hlk Hr).
Qed.

(* in ANY history of compilations, the result of such a job is the specification's result for
   (program, options, entry): a function of these alone *)
Theorem history_result_is_spec_result : forall pre post j w entry r,
  job_for j entry -> spec_result_is fo prog (j_opts j) entry r ->
  exists res, nth_error (snd (run_history fo w (pre ++ j :: post))) (length pre) = Some res /\
              observes fo dir res r.
Proof.
  intros pre post j w entry r Hj Hr. exists (run_job fo j).
  split; [apply history_independent_lemma|exact (job_result j entry r Hj Hr)].
Qed.

(* two histories, two jobs for the same (program, options, entry): the same specification result *)
Theorem two_histories_same_result : forall pre1 post1 w1 j1 pre2 post2 w2 j2 entry,
  job_for j1 entry -> job_for j2 entry -> j_opts j1 = j_opts j2 -> tame_prog fo prog ->
  (exists stmts, lookup entry prog = Some stmts) ->
  exists r res1 res2,
    spec_result_is fo prog (j_opts j1) entry r /\
    (forall r', spec_result_is fo prog (j_opts j1) entry r' -> r' = r) /\
    nth_error (snd (run_history fo w1 (pre1 ++ j1 :: post1))) (length pre1) = Some res1 /\
    nth_error (snd (run_history fo w2 (pre2 ++ j2 :: post2))) (length pre2) = Some res2 /\
    observes fo dir res1 r /\ observes fo dir res2 r.
Proof.
  intros pre1 post1 w1 j1 pre2 post2 w2 j2 entry Hj1 Hj2 Ho Ht (stmts & Hlk).
  pose proof Hj1 as (Hp1 & _).
  destruct (spec_result_exists (j_fs j1) Hp1 (j_opts j1) entry stmts Ht Hlk) as (r & Hr).
  exists r, (run_job fo j1), (run_job fo j2).
  split; [exact Hr|]. split; [intros r' Hr'; exact (spec_result_unique (j_fs j1) Hp1 (j_opts j1) entry r' r Hr' Hr)|].
  split; [apply history_independent_lemma|]. split; [apply history_independent_lemma|].
  split; [exact (job_result j1 entry r Hj1 Hr)|]. rewrite Ho in Hr. exact (job_result j2 entry r Hj2 Hr).
Qed.

End Converse.
