(* C15 (3b): the Flipper gate, with output evidence.
   The naive statement "if the enabled run succeeds and no output line is tagged by a Flipper-only
   class, the disabled run gives the same result" is FALSE of the model: STARTENV runs a file and
   discards its output, so a Flipper-only command executed inside a STARTENV'd file leaves no tagged
   line (counterexample [startenv_hides_flipper] below).  It holds when no file can be imported
   ([fs] has no files): [flipper_gate_no_imports_partial].
   The proof is a second two-run simulation (equal states, or the disabled run is refused while the
   enabled run, if it succeeds, carries a Flipper-tagged line), which needs unary "output is never
   dropped" lemmas for the enabled run after the point of refusal. *)
From Coq Require Import String Ascii NArith ZArith List Bool Lia.
From DS Require Import Base PyStr Values Expr TabParse Tables Constants Interp.
From DS Require Import SmallProofs RelLift TwoRuns DuckyGrammar.
Import ListNotations.
Arguments IOk {A}. Arguments IErr {A}. Arguments ICrash {A}. Arguments IUnmod {A}.

(* names of the Flipper-only classes of the generated palette *)
Definition flipper_class_names : list str :=
  map fst (filter (fun p => cls_flipper_only (snd p)) palette).

Definition is_flip_tag (t : tag) : bool :=
  match t with ByCommand n => str_in n flipper_class_names | _ => false end.

Definition has_flip (d : list oline) : Prop := exists l, In l d /\ is_flip_tag (o_tag l) = true.

Lemma has_flip_app_l : forall a b, has_flip a -> has_flip (a ++ b).
Proof. intros a b (l & Hin & Hl). exists l. split; [apply in_or_app; left; exact Hin|exact Hl]. Qed.
Lemma has_flip_app_r : forall a b, has_flip b -> has_flip (a ++ b).
Proof. intros a b (l & Hin & Hl). exists l. split; [apply in_or_app; right; exact Hin|exact Hl]. Qed.

Definition flip_name_check (p : str * cls) : bool :=
  if cls_flipper_only (snd p) then str_in (fst p) flipper_class_names else true.
Lemma flip_name_palette : forallb flip_name_check palette = true.
Proof. vm_compute. reflexivity. Qed.

Lemma found_flipper_tag : forall cmd cb cname cl, find_command palette cmd cb = Some (cname, cl) ->
  cls_flipper_only cl = true -> is_flip_tag (ByCommand cname) = true.
Proof.
  intros cmd cb cname cl H Hf. pose proof (palette_In_check flip_name_check flip_name_palette _ _ _ _ H) as Hc.
  unfold flip_name_check in Hc. cbn [fst snd] in Hc. rewrite Hf in Hc. exact Hc.
Qed.

Section Ev.
Variable fo : FloatOps.
Notation M := (M fo).
Notation st := (st fo).
Notation env := (env fo).
Notation bindM := (bindM fo).
Notation ret := (ret fo).

Definition esc2 {A} (r : ires A) : Prop := match r with IErr e t => flipper_refusal e t | _ => False end.
Definition ev {A} (EV : A -> Prop) (r : ires A) : Prop := match r with IOk a => EV a | _ => True end.

Definition relF {A} (EV : A -> Prop) (m1 m2 : M A) : Prop :=
  forall s, m1 s = m2 s \/ (esc2 (snd (m2 s)) /\ ev EV (snd (m1 s))).

Definition EVc (c : cret) : Prop := has_flip (cr_data c).
Definition EVo (c : option cret) : Prop := match c with Some c => EVc c | None => False end.
Definition EVrc (r : rc) : Prop := match r with RComp c => EVc c | _ => False end.
Definition EVn {A} (a : A) : Prop := False.

Definition postF (x1 x2 : glob * ires (cret * env)) : Prop :=
  x1 = x2 \/ (esc2 (snd x2) /\ ev (fun p : cret * env => EVc (fst p)) (snd x1)).

(* ---------------------------------------------------------------- unary facts (any runner, any context) *)
Lemma bind_ok : forall A B (m : M A) (f : A -> M B) s s' b,
  bindM m f s = (s', IOk b) -> exists a s1, m s = (s1, IOk a) /\ f a s1 = (s', IOk b).
Proof.
  intros A B m f s s' b H. unfold Interp.bindM in H. destruct (m s) as [s1 [a|e t|k|]]; try discriminate.
  exists a, s1. split; [reflexivity|exact H].
Qed.

Section Unary.
Variable child : runner fo.
Variable cx : ctx.

Lemma multi_comp_prefix : forall cur cname tg sc name args acc s s' cr,
  multi_comp fo child cx cur cname tg sc name args acc s = (s', IOk cr) ->
  exists d, cr_data cr = cr_data acc ++ d.
Proof.
  intros cur cname tg sc name args. induction args as [|a r IH]; intros acc s s' cr H; cbn [multi_comp] in H.
  - injection H as _ <-. exists []. rewrite app_nil_r. reflexivity.
  - apply bind_ok in H. destruct H as (u & s1 & _ & H). apply bind_ok in H. destruct H as (c & s2 & _ & H).
    apply IH in H. destruct H as (d & Hd). rewrite Hd.
    destruct c as [|ls|c]; cbn [cr_data].
    + exists d. reflexivity.
    + exists (map (mkO tg) ls ++ d). rewrite app_assoc. reflexivity.
    + exists (cr_data c ++ d). rewrite app_assoc. reflexivity.
Qed.

Lemma multi_comp_default_emits : forall cur cname tg sc name a r acc s s' cr,
  s_run sc = RKDefault ->
  multi_comp fo child cx cur cname tg sc name (a :: r) acc s = (s', IOk cr) ->
  exists l, In l (cr_data cr) /\ o_tag l = tg.
Proof.
  intros cur cname tg sc name a r acc s s' cr Hk H. cbn [multi_comp] in H.
  apply bind_ok in H. destruct H as (u & s1 & _ & H). apply bind_ok in H. destruct H as (c & s2 & Hc & H).
  unfold run_compile in Hc. rewrite Hk in Hc. injection Hc as _ <-.
  apply multi_comp_prefix in H. destruct H as (d & Hd). rewrite Hd. cbn [cr_data map].
  exists (mkO tg (name_line name a)). split; [|reflexivity].
  apply in_or_app. left. apply in_or_app. right. left. reflexivity.
Qed.

(* what follows check_flipper in simple_compile: if it succeeds for a class with the default
   run_compile, the output has a line with the tag of the class *)
Lemma simple_compile_default_emits : forall cur cname tg sc cmd num argument code_block s s' cr,
  s_run sc = RKDefault -> s_flipper_only sc = true -> flipper_commands (c_opts cx) = true ->
  simple_compile fo child cx cur cname tg sc cmd num argument code_block s = (s', IOk cr) ->
  exists l, In l (cr_data cr) /\ o_tag l = tg.
Proof.
  intros cur cname tg sc cmd num argument code_block s s' cr Hk Hf Ho H. unfold simple_compile in H.
  apply bind_ok in H. destruct H as (u0 & s0 & _ & H).
  apply bind_ok in H. destruct H as (args0 & s1 & _ & H).
  apply bind_ok in H. destruct H as (args2 & s2 & _ & H).
  apply bind_ok in H. destruct H as (u1 & s3 & _ & H).
  apply bind_ok in H. destruct H as (args3 & s4 & _ & H).
  apply bind_ok in H. destruct H as (u2 & s5 & _ & H).
  apply bind_ok in H. destruct H as (u3 & s6 & _ & H).
  apply bind_ok in H. destruct H as (args4 & s7 & _ & H).
  destruct args4 as [|x xs]; cbn [map] in H; eapply multi_comp_default_emits; eassumption.
Qed.

Lemma repeat_loop_prefix : forall cur fuel v a code count acc s s' cr,
  repeat_loop fo child cx cur fuel v a code count acc s = (s', IOk cr) ->
  exists d, cr_data cr = cr_data acc ++ d.
Proof.
  intros cur fuel. induction fuel as [|f IH]; intros v a code count acc s s' cr H; cbn [repeat_loop] in H.
  - apply bind_ok in H. destruct H as (n & s1 & _ & H). destruct (count <? n)%Z; [discriminate|].
    injection H as _ <-. exists []. rewrite app_nil_r. reflexivity.
  - apply bind_ok in H. destruct H as (n & s1 & _ & H). destruct (count <? n)%Z.
    2:{ injection H as _ <-. exists []. rewrite app_nil_r. reflexivity. }
    apply bind_ok in H. destruct H as (c & s2 & _ & H). destruct (loop_signal _) as [sg brk]. destruct brk.
    + injection H as _ <-. cbn [cr_data]. exists (cr_data c). reflexivity.
    + apply IH in H. destruct H as (d & Hd). rewrite Hd. cbn [cr_data]. exists (cr_data c ++ d).
      rewrite app_assoc. reflexivity.
Qed.

Lemma while_loop_prefix : forall cur fuel v a code count acc s s' cr,
  while_loop fo child cx cur fuel v a code count acc s = (s', IOk cr) ->
  exists d, cr_data cr = cr_data acc ++ d.
Proof.
  intros cur fuel. induction fuel as [|f IH]; intros v a code count acc s s' cr H; cbn [while_loop] in H.
  - destruct (cmp_eval _ _ _); discriminate.
  - destruct (cmp_eval _ _ _); [discriminate|].
    apply bind_ok in H. destruct H as ([c|] & s2 & _ & H).
    2:{ injection H as _ <-. exists []. rewrite app_nil_r. reflexivity. }
    destruct (loop_signal _) as [sg brk]. destruct brk.
    + injection H as _ <-. cbn [cr_data]. exists (cr_data c). reflexivity.
    + apply IH in H. destruct H as (d & Hd). rewrite Hd. cbn [cr_data]. exists (cr_data c ++ d).
      rewrite app_assoc. reflexivity.
Qed.

Lemma exec_cmds_prefix : forall cmds acc s s' cr,
  exec_cmds fo child cx cmds acc s = (s', IOk cr) -> exists d, cr_data cr = acc ++ d.
Proof.
  intros cmds. induction cmds as [|[c n|b] rest IH]; intros acc s s' cr H; cbn [exec_cmds] in H.
  - injection H as _ <-. exists []. rewrite app_nil_r. reflexivity.
  - destruct (is_blank c); [exact (IH _ _ _ _ H)|].
    apply bind_ok in H. destruct H as (u & s1 & _ & H). apply bind_ok in H. destruct H as (c1 & s2 & _ & H).
    assert (Hk : (exists d, cr_data cr = (acc ++ cr_data c1) ++ d) -> exists d, cr_data cr = acc ++ d).
    { intros (d & Hd). exists (cr_data c1 ++ d). rewrite Hd, app_assoc. reflexivity. }
    destruct (cr_sig c1); try (injection H as _ <-; cbn [cr_data]; exists (cr_data c1); reflexivity).
    apply Hk. exact (IH _ _ _ _ H).
  - exact (IH _ _ _ _ H).
Qed.

End Unary.

(* ---------------------------------------------------------------- the simulation *)
Variable o : options.
Notation o1 := (set_flipper o true).
Notation o2 := (set_flipper o false).

Section Stack.
Variables child1 child2 : runner fo.
Variable fs : fsys.
Hypothesis Hfs : forall target, fs target = None.
Variable pile : list frame.
Variable file : option path.
Notation cx1 := (mkCtx o1 fs pile file).
Notation cx2 := (mkCtx o2 fs pile file).

Hypothesis Hchild : forall cur l2 file' g e code,
  postF (child1 (mkCtx o1 fs (here cx1 cur l2) file') g e code)
        (child2 (mkCtx o2 fs (here cx2 cur l2) file') g e code).

Lemma relF_same : forall A (EV : A -> Prop) (m1 m2 : M A), (forall s, m1 s = m2 s) -> relF EV m1 m2.
Proof. intros A EV m1 m2 H s. left. apply H. Qed.

Lemma relF_ret : forall A (EV : A -> Prop) (a : A), relF EV (ret a) (ret a).
Proof. intros. apply relF_same. reflexivity. Qed.

Lemma relF_bind : forall A B (EVA : A -> Prop) (EVB : B -> Prop) (m1 m2 : M A) (f1 f2 : A -> M B),
  relF EVA m1 m2 -> (forall a, relF EVB (f1 a) (f2 a)) ->
  (forall a s s' r, EVA a -> f1 a s = (s', r) -> ev EVB r) ->
  relF EVB (bindM m1 f1) (bindM m2 f2).
Proof.
  intros A B EVA EVB m1 m2 f1 f2 Hm Hf Hev s. unfold Interp.bindM.
  destruct (Hm s) as [E|[He Hv]].
  - rewrite E. destruct (m2 s) as [s' [a|e t|k|]]; [apply Hf|left; reflexivity..].
  - destruct (m2 s) as [s2 [a2|e2 t2|k2|]]; cbn [snd esc2] in He; try contradiction.
    right. split; [exact He|]. destruct (m1 s) as [s1 [a1|e1 t1|k1|]]; cbn [snd ev] in Hv |- *; try exact I.
    destruct (f1 a1 s1) as [s1' r1] eqn:Ef. cbn [snd]. exact (Hev a1 s1 s1' r1 Hv Ef).
Qed.

Lemma relF_bind_ne : forall A B (EVB : B -> Prop) (m1 m2 : M A) (f1 f2 : A -> M B),
  relF EVn m1 m2 -> (forall a, relF EVB (f1 a) (f2 a)) -> relF EVB (bindM m1 f1) (bindM m2 f2).
Proof.
  intros A B EVB m1 m2 f1 f2 Hm Hf. eapply relF_bind; [exact Hm|exact Hf|].
  intros a s s' r []. 
Qed.

Lemma relF_raise : forall cur A (EV : A -> Prop) e, relF EV (@raise fo cx1 cur A e) (@raise fo cx2 cur A e).
Proof. intros. apply relF_same. reflexivity. Qed.
Lemma relF_crash : forall A (EV : A -> Prop) k, relF EV (@crash fo A k) (@crash fo A k).
Proof. intros. apply relF_same. reflexivity. Qed.
Lemma relF_unmod : forall A (EV : A -> Prop), relF EV (@unmod fo A) (@unmod fo A).
Proof. intros. apply relF_same. reflexivity. Qed.
Lemma relF_lift : forall cur A (EV : A -> Prop) (x : res A), relF EV (lift fo cx1 cur x) (lift fo cx2 cur x).
Proof. intros cur A EV x. destruct x; apply relF_same; reflexivity. Qed.
Lemma relF_get_env : forall EV, relF EV (get_env fo) (get_env fo).
Proof. intros. apply relF_same. reflexivity. Qed.
Lemma relF_set_env : forall EV e, relF EV (set_env fo e) (set_env fo e).
Proof. intros. apply relF_same. reflexivity. Qed.
Lemma relF_set_line2 : forall EV l, relF EV (set_line2 fo l) (set_line2 fo l).
Proof. intros. apply relF_same. reflexivity. Qed.
Lemma relF_warn : forall EV cur t, relF EV (warn fo cx1 cur t) (warn fo cx2 cur t).
Proof. intros. apply relF_same. reflexivity. Qed.
Lemma relF_mod_glob : forall EV f, relF EV (mod_glob fo f) (mod_glob fo f).
Proof. intros. apply relF_same. reflexivity. Qed.
Lemma relF_add_plain_warning : forall EV t, relF EV (add_plain_warning fo t) (add_plain_warning fo t).
Proof. intros. apply relF_same. reflexivity. Qed.
Lemma relF_tokenizeM : forall EV cur a, relF EV (tokenizeM fo cx1 cur a) (tokenizeM fo cx2 cur a).
Proof. intros. apply relF_same. reflexivity. Qed.

Ltac relF_step :=
  first
    [ apply relF_ret | apply relF_raise | apply relF_crash | apply relF_unmod | apply relF_lift
    | apply relF_get_env | apply relF_set_env | apply relF_set_line2 | apply relF_warn
    | apply relF_mod_glob | apply relF_add_plain_warning | apply relF_tokenizeM
    | assumption
    | apply relF_bind_ne; [|intros ?]
    | match goal with
      | |- relF _ (if ?b then _ else _) (if ?b then _ else _) => destruct b
      | |- relF _ (match ?x with _ => _ end) (match ?x with _ => _ end) => destruct x
      | |- relF _ (let '(_, _) := ?x in _) (let '(_, _) := ?x in _) => destruct x
      end ].
Ltac relF_tac := repeat relF_step.

Lemma relF_run_child_with : forall cur code file' parallel setup pre,
  relF EVo (run_child_with fo child1 cx1 cur code file' parallel setup pre)
           (run_child_with fo child2 cx2 cur code file' parallel setup pre).
Proof.
  intros cur code file' parallel setup pre [g e l]. unfold run_child_with.
  cbn [c_opts c_fs set_flipper stack_limit Interp.s_g Interp.s_env Interp.s_line2].
  change (pile_len cx2) with (pile_len cx1).
  destruct (cmp_eval _ _ _); [left; reflexivity|].
  destruct (setup _) as [cenv1|er|k|]; try (left; reflexivity).
  destruct (pre cenv1) as [[|]|er|k|]; try (left; reflexivity).
  specialize (Hchild cur l file' g cenv1 code).
  destruct Hchild as [E|[He Hv]].
  - left. change (here cx2 cur l) with (here cx1 cur l). rewrite E. reflexivity.
  - right. change (here cx2 cur l) with (here cx1 cur l) in He |- *.
    destruct (child2 _ _ _ _) as [g2 [[cr2 ce2]|e2 t2|k2|]]; cbn [snd esc2] in He; try contradiction.
    split; [exact He|].
    destruct (child1 _ _ _ _) as [g1 [[cr1 ce1]|e1 t1|k1|]]; cbn [snd ev fst] in Hv |- *; try exact I.
    exact Hv.
Qed.

Lemma relF_run_child : forall cur code file' parallel setup,
  relF EVc (run_child fo child1 cx1 cur code file' parallel setup)
           (run_child fo child2 cx2 cur code file' parallel setup).
Proof.
  intros. unfold run_child. eapply relF_bind; [apply relF_run_child_with| |].
  - intros [c|]; relF_tac.
  - intros [c|] s s' r Hv E; [|destruct Hv]. injection E as _ <-. exact Hv.
Qed.

Lemma relF_new_var : forall EV cur name v, relF EV (new_var fo cx1 cur name v) (new_var fo cx2 cur name v).
Proof. intros. apply relF_same. reflexivity. Qed.
Lemma relF_listify_args : forall EV cur argument code_block num,
  relF EV (listify_args fo cx1 cur argument code_block num) (listify_args fo cx2 cur argument code_block num).
Proof. intros. apply relF_same. reflexivity. Qed.
Lemma relF_evaluate_args : forall cur at_ args,
  relF EVn (evaluate_args fo cx1 cur at_ args) (evaluate_args fo cx2 cur at_ args).
Proof. intros cur at_ args. induction args as [|l r IH]; cbn [evaluate_args]; relF_tac. Qed.
Lemma relF_check_types : forall cur at_ args,
  relF EVn (check_types fo cx1 cur at_ args) (check_types fo cx2 cur at_ args).
Proof. intros cur at_ args. induction args as [|[l oc] r IH]; cbn [check_types]; relF_tac. Qed.
Lemma relF_verify_each : forall cur params v args,
  relF EVn (verify_each fo cx1 cur params v args) (verify_each fo cx2 cur params v args).
Proof. intros cur params v args. induction args as [|l r IH]; cbn [verify_each]; relF_tac. Qed.
Lemma relF_verify_plural : forall cur pv n,
  relF EVn (verify_plural fo cx1 cur pv n) (verify_plural fo cx2 cur pv n).
Proof. intros. unfold verify_plural. relF_tac. Qed.
Lemma relF_format_each : forall cur params f args,
  relF EVn (format_each fo cx1 cur params f args) (format_each fo cx2 cur params f args).
Proof. intros cur params f args. induction args as [|l r IH]; cbn [format_each]; relF_tac. Qed.

(* check_flipper: equal, or refused with the (not yet materialised) evidence [b = true] *)
Lemma relF_check_flipper : forall cur b, (b = true -> flipper_line cur) ->
  relF (fun _ : unit => b = true) (check_flipper fo cx1 cur b) (check_flipper fo cx2 cur b).
Proof.
  intros cur b Hb s. unfold check_flipper. cbn [c_opts set_flipper flipper_commands negb].
  destruct b; cbn [andb]; [|left; reflexivity].
  right. split; [|reflexivity]. cbn [snd Interp.raise esc2]. split; [reflexivity|].
  exists pile, (mkFrame file cur (s_line2 fo s)). split; [reflexivity|]. apply Hb. reflexivity.
Qed.

Lemma relF_run_compile : forall cur cname sc name arg,
  relF EVrc (run_compile fo child1 cx1 cur cname sc name arg) (run_compile fo child2 cx2 cur cname sc name arg).
Proof.
  intros cur cname sc name arg. unfold run_compile. cbn [c_opts set_flipper include_comments].
  destruct (s_run sc) eqn:Ek; try solve [relF_tac].
  - (* RUN *)
    destruct arg as [l|]; [|relF_tac].
    destruct (break_arg _) as [fname var_string].
    apply relF_bind_ne.
    { destruct var_string as [vs|]; [|relF_tac]. destruct (is_blank vs); relF_tac. }
    intros vals. apply relF_bind_ne; [relF_tac|intros e].
    destruct (lookup fname (e_funcs fo e)) as [f|]; [|relF_tac].
    destruct (negb _); [relF_tac|]. cbn [c_file].
    eapply relF_bind; [apply relF_run_child| |].
    + intros cr. relF_tac.
    + intros cr s s' r Hv E. destruct (cr_sig cr); injection E as _ <-; cbn [ev EVrc]; try exact I; exact Hv.
  - destruct arg as [l|]; [|relF_tac].
    destruct (split_ws1 _) as [|vname [|expr [|x y]]]; try solve [relF_tac].
    apply relF_bind_ne; [relF_tac|intros v]. apply relF_bind_ne; [apply relF_new_var|intros u]. relF_tac.
  - (* START: nothing can be imported *)
    change (c_file cx2) with (c_file cx1). change (c_fs cx2) with (c_fs cx1).
    destruct arg as [l|]; [|relF_tac]. destruct (c_file cx1) as [thefile|]; [|relF_tac].
    apply relF_bind_ne; [relF_tac|intros target]. cbn [c_fs]. rewrite Hfs. relF_tac.
Qed.

Lemma relF_multi_comp : forall cur cname tg sc name args acc,
  relF EVc (multi_comp fo child1 cx1 cur cname tg sc name args acc)
           (multi_comp fo child2 cx2 cur cname tg sc name args acc).
Proof.
  intros cur cname tg sc name args. induction args as [|a r IH]; intros acc; cbn [multi_comp].
  - relF_tac.
  - apply relF_bind_ne; [relF_tac|intros u].
    eapply relF_bind; [apply relF_run_compile|intros c; apply IH|].
    intros [|ls|c] s s' res Hv E; cbn [EVrc] in Hv; try contradiction.
    destruct res as [cr|e t|k|]; cbn [ev]; try exact I.
    apply multi_comp_prefix in E. destruct E as (d & Hd). unfold EVc. rewrite Hd. cbn [cr_data].
    apply has_flip_app_l. apply has_flip_app_r. exact Hv.
Qed.

Lemma relF_simple_compile : forall cur cname tg sc cmd num argument code_block,
  (s_flipper_only sc = true -> flipper_line cur /\ s_run sc = RKDefault /\ is_flip_tag tg = true) ->
  relF EVc (simple_compile fo child1 cx1 cur cname tg sc cmd num argument code_block)
           (simple_compile fo child2 cx2 cur cname tg sc cmd num argument code_block).
Proof.
  intros cur cname tg sc cmd num argument code_block HF.
  assert (Hrest : forall s s' r,
    simple_compile fo child1 cx1 cur cname tg sc cmd num argument code_block s = (s', r) ->
    s_flipper_only sc = true -> ev EVc r).
  { intros s s' r E Hf. destruct r as [cr|e t|k|]; cbn [ev]; try exact I.
    destruct (HF Hf) as (_ & Hk & Ht).
    destruct (simple_compile_default_emits child1 cx1 cur cname tg sc cmd num argument code_block s s' cr Hk Hf eq_refl E)
      as (l & Hin & Hl).
    exists l. split; [exact Hin|]. rewrite Hl. exact Ht. }
  unfold simple_compile in Hrest |- *.
  eapply relF_bind; [apply relF_check_flipper; intro Hf; apply (HF Hf)| |].
  2:{ intros [] s s' r Hf E. cbn beta in Hf. apply (Hrest s s' r); [|exact Hf].
      unfold Interp.bindM at 1, check_flipper. cbn [c_opts set_flipper flipper_commands negb].
      rewrite andb_false_r. exact E. }
  intros u0.
  apply relF_bind_ne; [apply relF_listify_args|intros args0].
  apply relF_bind_ne.
  { destruct (_ || _); [|relF_tac].
    apply relF_bind_ne; [apply relF_evaluate_args|intros vs].
    induction vs as [|[l v] r IH]; relF_tac. }
  intros args2.
  apply relF_bind_ne; [relF_tac|intros u1].
  apply relF_bind_ne; [apply relF_check_types|intros args3].
  apply relF_bind_ne; [apply relF_verify_plural|intros u2].
  apply relF_bind_ne; [apply relF_verify_each|intros u3].
  apply relF_bind_ne; [apply relF_format_each|intros args4].
  apply relF_multi_comp.
Qed.

Lemma relF_tokenize_count : forall cur a, relF EVn (tokenize_count fo cx1 cur a) (tokenize_count fo cx2 cur a).
Proof. intros. apply relF_same. reflexivity. Qed.

Lemma relF_repeat_loop : forall cur fuel v a code count acc,
  relF EVc (repeat_loop fo child1 cx1 cur fuel v a code count acc)
           (repeat_loop fo child2 cx2 cur fuel v a code count acc).
Proof.
  intros cur fuel. induction fuel as [|f IH]; intros v a code count acc; cbn [repeat_loop].
  - apply relF_bind_ne; [apply relF_tokenize_count|intros n]. relF_tac.
  - apply relF_bind_ne; [apply relF_tokenize_count|intros n].
    destruct (count <? n)%Z; [|relF_tac]. cbn [c_file].
    eapply relF_bind; [apply relF_run_child| |].
    + intros cr. destruct (loop_signal _) as [sg brk]. destruct brk; [relF_tac|apply IH].
    + intros cr s s' r Hv E. destruct r as [cr'|e t|k|]; cbn [ev]; try exact I.
      destruct (loop_signal _) as [sg brk]. destruct brk.
      * injection E as _ <-. unfold EVc. cbn [cr_data]. apply has_flip_app_r. exact Hv.
      * apply repeat_loop_prefix in E. destruct E as (d & Hd). unfold EVc. rewrite Hd. cbn [cr_data].
        apply has_flip_app_l. apply has_flip_app_r. exact Hv.
Qed.

Lemma relF_while_loop : forall cur fuel v a code count acc,
  relF EVc (while_loop fo child1 cx1 cur fuel v a code count acc)
           (while_loop fo child2 cx2 cur fuel v a code count acc).
Proof.
  intros cur fuel. induction fuel as [|f IH]; intros v a code count acc; cbn [while_loop].
  - relF_tac.
  - destruct (cmp_eval _ _ _); [relF_tac|]. cbn [c_file].
    eapply relF_bind; [apply relF_run_child_with| |].
    + intros [cr|]; [|relF_tac]. destruct (loop_signal _) as [sg brk]. destruct brk; [relF_tac|apply IH].
    + intros [cr|] s s' r Hv E; [|destruct Hv]. cbn [EVo] in Hv.
      destruct r as [cr'|e t|k|]; cbn [ev]; try exact I.
      destruct (loop_signal _) as [sg brk]. destruct brk.
      * injection E as _ <-. unfold EVc. cbn [cr_data]. apply has_flip_app_r. exact Hv.
      * apply while_loop_prefix in E. destruct E as (d & Hd). unfold EVc. rewrite Hd. cbn [cr_data].
        apply has_flip_app_l. apply has_flip_app_r. exact Hv.
Qed.

Lemma relF_block_compile : forall cur bc cname cmd num argument code_block,
  b_flipper_only bc = false ->
  relF EVrc (block_compile fo child1 cx1 cur bc cname cmd num argument code_block)
            (block_compile fo child2 cx2 cur bc cname cmd num argument code_block).
Proof.
  intros cur bc cname cmd num argument code_block HF. unfold block_compile. rewrite HF.
  apply relF_bind_ne; [apply relF_same; reflexivity|intros u0].
  apply relF_bind_ne; [relF_tac|intros u1].
  set (arg' := if b_strip_arg bc then _ else _). clearbody arg'. cbn [c_file].
  destruct (b_kind bc).
  - apply relF_bind_ne; [relF_tac|intros e].
    apply relF_bind_ne; [apply relF_same; reflexivity|intros u2].
    apply relF_bind_ne; [relF_tac|intros u3].
    apply relF_bind_ne; [apply relF_same; reflexivity|intros tok].
    apply relF_bind_ne; [apply relF_same; reflexivity|intros flag].
    apply relF_bind_ne; [apply relF_same; reflexivity|intros skip].
    destruct skip; [relF_tac|]. destruct (_ && _); [relF_tac|].
    apply relF_bind_ne; [apply relF_same; reflexivity|intros u5].
    eapply relF_bind; [apply relF_run_child|intros cr; relF_tac|].
    intros cr s s' r Hv E. injection E as _ <-. exact Hv.
  - relF_tac.
  - destruct arg' as [a|]; [|relF_tac]. destruct (split_loop_arg a) as [var_name count_expr].
    destruct (match code_block with Some b => b | None => [] end) eqn:Ecode; [relF_tac|].
    destruct (match var_name with Some v => _ | None => _ end); [|relF_tac].
    eapply relF_bind; [apply relF_repeat_loop|intros cr; relF_tac|].
    intros cr s s' r Hv E. injection E as _ <-. exact Hv.
  - destruct arg' as [a|]; [|relF_tac]. destruct (split_loop_arg a) as [var_name cond].
    eapply relF_bind; [apply relF_while_loop|intros cr; relF_tac|].
    intros cr s s' r Hv E. injection E as _ <-. exact Hv.
  - destruct arg' as [a|]; [|relF_tac]. destruct (break_arg a) as [fname var_string].
    destruct (_ && _); relF_tac.
Qed.

Theorem relF_exec_line : forall c n code_block,
  relF EVc (exec_line fo child1 cx1 c n code_block) (exec_line fo child2 cx2 c n code_block).
Proof.
  intros c n code_block. unfold exec_line.
  destruct (split_ws1 c) as [|cmd more] eqn:Es; [relF_tac|].
  destruct (find_command _ _ _) as [[cname cl]|] eqn:Ef.
  - cbn [c_file]. destruct (_ && _); [relF_tac|].
    pose proof (palette_In_check flipper_class_check flipper_class_palette _ _ _ _ Ef) as Hc.
    unfold flipper_class_check in Hc. cbn [snd] in Hc.
    destruct cl as [sc|bc].
    + apply relF_simple_compile. intro Hf. rewrite Hf in Hc. split; [|split].
      * exists cmd, more, code_block, cname, (Simple sc). cbn [fst cls_flipper_only]. repeat split; assumption.
      * destruct (s_run sc); try discriminate. reflexivity.
      * exact (found_flipper_tag _ _ _ _ Ef Hf).
    + apply negb_true_iff in Hc.
      eapply relF_bind; [apply relF_block_compile; exact Hc|intros [|ls|cr]; relF_tac|].
      intros [|ls|cr] s s' r Hv E; cbn [EVrc] in Hv; try contradiction. injection E as _ <-. exact Hv.
  - cbn [c_opts set_flipper supress_command_not_exist].
    apply relF_bind_ne; [relF_tac|intros u]. apply relF_simple_compile. cbn [generic_simple s_flipper_only]. discriminate.
Qed.

Theorem relF_exec_cmds : forall cmds acc,
  relF EVc (exec_cmds fo child1 cx1 cmds acc) (exec_cmds fo child2 cx2 cmds acc).
Proof.
  intros cmds. induction cmds as [|[c n|b] rest IH]; intros acc; cbn [exec_cmds].
  - relF_tac.
  - destruct (is_blank c); [apply IH|].
    apply relF_bind_ne; [relF_tac|intros u].
    eapply relF_bind; [apply relF_exec_line| |].
    + intros cr. destruct (cr_sig cr); try relF_tac. apply IH.
    + intros cr s s' r Hv E. destruct r as [cr'|e t|k|]; cbn [ev]; try exact I.
      assert (Hacc : has_flip (acc ++ cr_data cr)) by (apply has_flip_app_r; exact Hv).
      destruct (cr_sig cr); try (injection E as _ <-; exact Hacc).
      apply exec_cmds_prefix in E. destruct E as (d & Hd). unfold EVc. rewrite Hd. apply has_flip_app_l. exact Hacc.
  - apply IH.
Qed.

Theorem relF_run_with : forall g e cmds,
  postF (run_with fo child1 cx1 g e cmds) (run_with fo child2 cx2 g e cmds).
Proof.
  intros g e cmds. unfold run_with.
  destruct (relF_exec_cmds cmds [] (mkSt fo g e None)) as [E|[He Hv]].
  - left. rewrite E. reflexivity.
  - right. destruct (exec_cmds fo child2 _ _ _ _) as [s2 [cr2|e2 t2|k2|]]; cbn [snd esc2] in He; try contradiction.
    split; [exact He|].
    destruct (exec_cmds fo child1 _ _ _ _) as [s1 [cr1|e1 t1|k1|]]; cbn [snd ev fst] in Hv |- *; try exact I.
    exact Hv.
Qed.

End Stack.

Theorem relF_run : forall fs, (forall target, fs target = None) ->
  forall d pile file g e cmds,
  postF (run fo d (mkCtx o1 fs pile file) g e cmds) (run fo d (mkCtx o2 fs pile file) g e cmds).
Proof.
  intros fs Hfs. induction d as [|d IH]; intros pile file g e cmds; cbn [run].
  - apply relF_run_with; [exact Hfs|]. intros. left. reflexivity.
  - apply relF_run_with; [exact Hfs|]. intros. apply IH.
Qed.

End Ev.

(* ------------------------------------------------------------------ Compiler.compile *)
Theorem flipper_gate_no_imports_partial :
  forall (fo : FloatOps) (o : options) (fs : fsys) (file : option path) (cmds : list item) g1 r1 g2 r2,
  (forall target, fs target = None) ->
  compile_items fo (set_flipper o true) fs file cmds = (g1, r1) ->
  compile_items fo (set_flipper o false) fs file cmds = (g2, r2) ->
  forall c1, r1 = IOk c1 -> (forall l, In l (out fo c1) -> is_flip_tag (o_tag l) = false) ->
  g2 = g1 /\ r2 = r1.
Proof.
  intros fo o fs file cmds g1 r1 g2 r2 Hfs E1 E2 c1 Hr Hno. unfold compile_items in E1, E2.
  change (run_depth (set_flipper o false)) with (run_depth (set_flipper o true)) in E2.
  destruct (relF_run fo o fs Hfs (run_depth (set_flipper o true)) [] file (mkGlob [] []) (initial_env fo) cmds)
    as [E|[He Hv]].
  - rewrite E in E1. rewrite E1 in E2. injection E2 as <- <-. split; reflexivity.
  - exfalso. destruct (run fo _ (mkCtx (set_flipper o true) _ _ _) _ _ _) as [g1' [[cr e]|er t|k|]];
      try (injection E1 as _ <-; discriminate Hr).
    cbn [snd ev fst] in Hv. injection E1 as _ <-. injection Hr as <-. cbn [out] in Hno.
    destruct Hv as (l & Hin & Hl). rewrite (Hno l Hin) in Hl. discriminate.
Qed.

(* ------------------------------------------------------------------ the counterexample *)
(* main.txt:  STARTENV lib / STRING x      lib.txt:  ALTCHAR 65
   enabled: succeeds with the single line "STRING x" (no Flipper-tagged line);
   disabled: refused inside lib.txt. *)
Definition cex_fs : fsys :=
  fun p => if path_eqb p [DuckyGrammar.lit "lib.txt"] then Some (DuckyGrammar.lit "ALTCHAR 65") else None.
Definition cex_opts : options := mkOptions 20 false true false false.
Definition cex_prog : list item := [Ln (DuckyGrammar.lit "STARTENV lib") 1; Ln (DuckyGrammar.lit "STRING x") 2].

Example startenv_hides_flipper : forall fo : FloatOps,
  exists g1 c1 g2 t,
    compile_items fo (set_flipper cex_opts true) cex_fs (Some [DuckyGrammar.lit "main.txt"]) cex_prog = (g1, IOk c1)
    /\ map o_text (out fo c1) = [DuckyGrammar.lit "STRING x"]
    /\ existsb (fun l => is_flip_tag (o_tag l)) (out fo c1) = false
    /\ compile_items fo (set_flipper cex_opts false) cex_fs (Some [DuckyGrammar.lit "main.txt"]) cex_prog
       = (g2, IErr EInvalidCommand t).
Proof.
  intro fo. eexists. eexists. eexists. eexists.
  split; [vm_compute; reflexivity|]. split; [vm_compute; reflexivity|]. split; vm_compute; reflexivity.
Qed.

(* ------------------------------------------------------------------ the disabled run emits no Flipper-tagged line
   (a diagonal instance of RelLift.v: both runs are the same run) *)
Definition flip_name_check2 (p : str * cls) : bool :=
  Bool.eqb (str_in (fst p) flipper_class_names) (cls_flipper_only (snd p)).
Lemma flip_name_palette2 : forallb flip_name_check2 palette = true.
Proof. vm_compute. reflexivity. Qed.

Definition noflip (l : oline) : Prop := is_flip_tag (o_tag l) = false.
Definition Rd_nf (d1 d2 : list oline) : Prop := d1 = d2 /\ Forall noflip d1.
Definition TS_nf (tg : tag) (sc : simple_cls) : Prop :=
  is_flip_tag tg = false \/ (s_flipper_only sc = true /\ s_run sc = RKDefault).

Theorem disabled_no_flipper_output :
  forall (fo : FloatOps) (o : options) (fs : fsys) (file : option path) (cmds : list item) g c,
  flipper_commands o = false ->
  compile_items fo o fs file cmds = (g, IOk c) ->
  forall l, In l (out fo c) -> is_flip_tag (o_tag l) = false.
Proof.
  intros fo o fs file cmds g c Ho E.
  assert (H : (g = g /\ rres (Rcomp fo Rd_nf g g) (IOk c) (IOk c)) \/ esc (fun _ _ => False) (IOk c)).
  { apply (rel_compile_items fo o o eq_refl eq Rd_nf)
      with (GT := fun tg => is_flip_tag tg = false) (FL := fun _ => True) (Wok := fun _ => True)
           (TS := TS_nf) (fs := fs) (file := file) (cmds := cmds); try exact E.
    - split; [reflexivity|constructor].
    - intros a1 a2 b1 b2 [<- Ha] [<- Hb]. split; [reflexivity|]. apply Forall_app. split; assumption.
    - intros d H. split; [reflexivity|exact H].
    - reflexivity.
    - reflexivity.
    - intros p g1' g2' <-. reflexivity.
    - intros t tr g1' g2' _ <-. reflexivity.
    - intros; exact I.
    - left. reflexivity.
    - intros cmd cb cname sc H.
      pose proof (palette_In_check flip_name_check2 flip_name_palette2 _ _ _ _ H) as Hn.
      pose proof (palette_In_check flipper_class_check flipper_class_palette _ _ _ _ H) as Hc.
      unfold flip_name_check2 in Hn. unfold flipper_class_check in Hc. cbn [fst snd cls_flipper_only] in Hn, Hc.
      apply eqb_prop in Hn. unfold TS_nf. cbn [is_flip_tag]. rewrite Hn.
      destruct (s_flipper_only sc); [right|left; reflexivity].
      split; [reflexivity|]. destruct (s_run sc); try discriminate. reflexivity.
    - intros; exact I.
    - intros tg sc [Ht|[Hf Hk]] Hr; [left; exact Ht|right]. split; [exact Hf|split; exact Ho].
    - intros tg sc [Ht|[Hf Hk]] Hr l; [|rewrite Hk in Hr; discriminate].
      intros a1 a2 [[Hd Hfa] Hs]. destruct (include_comments o); cbn [accum]; [|split; [split; assumption|exact Hs]].
      split; [|exact Hs]. cbn [cr_data]. rewrite Hd. split; [reflexivity|]. rewrite <- Hd.
      apply Forall_app. split; [exact Hfa|]. constructor; [exact Ht|constructor].
    - left. reflexivity.
    - intros; exact I.
    - left. split; [reflexivity|intros; exact I].
    - reflexivity. }
  destruct H as [[_ Hr]|[]]. cbn [rres] in Hr. destruct Hr as ([_ Hf] & _).
  rewrite Forall_forall in Hf. exact Hf.
Qed.

(* for programs that cannot import files: when the enabled run succeeds, the disabled run agrees
   with it exactly when the enabled output has no Flipper-tagged line -- and otherwise it is
   refused with InvalidCommand at a Flipper-only line *)
Theorem flipper_gate_iff_no_imports_partial :
  forall (fo : FloatOps) (o : options) (fs : fsys) (file : option path) (cmds : list item) g1 c1 g2 r2,
  (forall target, fs target = None) ->
  compile_items fo (set_flipper o true) fs file cmds = (g1, IOk c1) ->
  compile_items fo (set_flipper o false) fs file cmds = (g2, r2) ->
  ((forall l, In l (out fo c1) -> is_flip_tag (o_tag l) = false) <-> (g2 = g1 /\ r2 = IOk c1)) /\
  ((exists l, In l (out fo c1) /\ is_flip_tag (o_tag l) = true) ->
   exists t pile fr, r2 = IErr EInvalidCommand t /\ t = Some (pile ++ [fr]) /\ flipper_line (fr_line fr)).
Proof.
  intros fo o fs file cmds g1 c1 g2 r2 Hfs E1 E2.
  assert (Hback : g2 = g1 /\ r2 = IOk c1 -> forall l, In l (out fo c1) -> is_flip_tag (o_tag l) = false).
  { intros [-> ->]. exact (disabled_no_flipper_output fo (set_flipper o false) fs file cmds g1 c1 eq_refl E2). }
  split; [split|].
  - intro Hno. exact (flipper_gate_no_imports_partial fo o fs file cmds g1 _ g2 r2 Hfs E1 E2 c1 eq_refl Hno).
  - exact Hback.
  - intros (l & Hin & Hl). destruct (flipper_gate fo o fs file cmds g1 _ g2 r2 E1 E2) as [[Hg Hr]|H]; [|exact H].
    exfalso. symmetry in Hg, Hr. rewrite (Hback (conj Hg Hr) l Hin) in Hl. discriminate.
Qed.
