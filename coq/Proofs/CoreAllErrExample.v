(* Non-vacuity of the ERROR judgement of Spec/CoreAllErr.v and of its refinement theorem
   (Proofs/CoreAllErrRefine.v) on three programs:

   A. a failure inside the body of an IMPORTED function called from a LOOP, at the second
      iteration: the chain crosses two files, the prints made before the failure are kept

        main.txt                          lib.txt
          1  START lib                      1  FUNC boom k
          2  REPEAT i,2                     2      PRINT inside
          3      PRINT go                   3      $STRING 5%(1-k)
          4      RUN boom i

   B. a circular import:     main.txt: 1 START lib         lib.txt: 1 PRINT here / 2 START main

   C. stack overflow by recursion under the stack limit 8:
        main.txt   1  FUNC f
                   2      RUN f
                   3  RUN f

   For each: the failure derivation, and the interpreter's answer both by vm_compute and through
   the refinement theorem. *)
From Coq Require Import String Ascii NArith ZArith List Bool Lia.
From DS Require Import Base PyStr Values Expr TabParse Tables Constants Interp IdentSpec.
From DS Require Import ChainLoopExamples ImportGraph CoreLang CoreWf CoreRefine CoreFunc CoreFuncExample CoreErr.
From DS Require Import CoreAll CoreAllLines CoreAllBase CoreAllRefine CoreAllTop CoreAllExample.
From DS Require Import CoreAllErr CoreAllErrLines CoreAllErrRefine.
Import ListNotations.
Open Scope string_scope.
Open Scope list_scope.

Arguments IOk {A}. Arguments IErr {A}.

Ltac everr := unfold CoreErr.eval_err; vm_compute; reflexivity.

(* a file system of two files *)
Definition fs2 (main_text lib_text : str) : fsys := fun p =>
  if path_eqb p (file_of ex_dir n_main) then Some main_text
  else if path_eqb p (file_of ex_dir n_lib) then Some lib_text else None.

Lemma fs2_closed : forall stm stl tm tl, prog_closed ex_dir [(n_main, stm); (n_lib, stl)] (fs2 tm tl).
Proof.
  intros stm stl tm tl m _ H. cbn [lookup] in H.
  destruct (str_eqb m n_main) eqn:E1; [discriminate|]. destruct (str_eqb m n_lib) eqn:E2; [discriminate|].
  unfold fs2.
  destruct (path_eqb (file_of ex_dir m) (file_of ex_dir n_main)) eqn:P1.
  { apply StartLaws.list_eqb_str_eq in P1. apply GraphText.file_of_inj in P1. subst m.
    rewrite ScopeProofs.str_eqb_refl in E1. discriminate. }
  destruct (path_eqb (file_of ex_dir m) (file_of ex_dir n_lib)) eqn:P2; [|reflexivity].
  apply StartLaws.list_eqb_str_eq in P2. apply GraphText.file_of_inj in P2. subst m.
  rewrite ScopeProofs.str_eqb_refl in E2. discriminate.
Qed.

Lemma fs2_ok : forall stm stl tm tl,
  uwf_list stm -> uwf_list stl ->
  prepare_text tm = TOk (uitems_from 1 stm) -> prepare_text tl = TOk (uitems_from 1 stl) ->
  prog_ok ex_dir [(n_main, stm); (n_lib, stl)] (fs2 tm tl).
Proof.
  intros stm stl tm tl Hwm Hwl Hpm Hpl m stmts H. cbn [lookup] in H.
  destruct (str_eqb m n_main) eqn:E1.
  - apply ScopeProofs.str_eqb_eq in E1. subst m. injection H as <-. split; [exact Hwm|].
    exists tm. split; [vm_compute; reflexivity|exact Hpm].
  - destruct (str_eqb m n_lib) eqn:E2; [|discriminate].
    apply ScopeProofs.str_eqb_eq in E2. subst m. injection H as <-. split; [exact Hwl|].
    exists tl. split; [vm_compute; reflexivity|exact Hpl].
Qed.

(* ================================================================== A *)
Definition a_main : list ustmt :=
  [UStart KStart n_lib;
   URepeat (Some (S_ "i")) (S_ "2") [UPrint (S_ "go"); URun (S_ "boom") [S_ "i"]]].
Definition a_lib : list ustmt :=
  [UFunc (S_ "boom") [S_ "k"] [UPrint (S_ "inside"); UEmitEval (S_ "STRING") (S_ "5%(1-k)")]].
Definition a_prog : program := [(n_main, a_main); (n_lib, a_lib)].
Definition a_main_text : str := prog ["START lib"; "REPEAT i,2"; "    PRINT go"; "    RUN boom i"].
Definition a_lib_text : str := prog ["FUNC boom k"; "    PRINT inside"; "    $STRING 5%(1-k)"].
Definition a_fs : fsys := fs2 a_main_text a_lib_text.

Lemma a_prog_ok : prog_ok ex_dir a_prog a_fs.
Proof.
  apply fs2_ok; try (vm_compute; reflexivity).
  - unfold a_main. cbn. wf_dec.
  - unfold a_lib. cbn. wf_dec.
Qed.

Definition a_chain : list sframe :=
  [mkSF n_main (S_ "REPEAT i,2") 2 false; mkSF n_main (S_ "RUN boom i") 4 true;
   mkSF n_lib (S_ "$STRING 5%(1-k)") 3 true].
Definition a_events : list event :=
  [EvPrint (S_ "go") 3 n_main; EvPrint (S_ "inside") 2 n_lib; EvPrint (S_ "go") 3 n_main; EvPrint (S_ "inside") 2 n_lib].

Section Examples.
Variable fo : FloatOps.

Lemma a_derivation : forall inc sup,
  ufails fo a_prog inc sup n_main (room_of_limit 20) EDivideByZero a_chain a_events.
Proof.
  intros inc sup.
  assert (H : exists er ch ev, ufails fo a_prog inc sup n_main (room_of_limit 20) er ch ev /\
            er = EDivideByZero /\ ch = a_chain /\ ev = a_events).
  { do 3 eexists. split.
    - exists a_main. split; [reflexivity|]. unfold a_main, a_lib. change (room_of_limit 20) with 19%nat.
      eapply FL_Later; [uderive|exact I|].
      eapply FL_Here. eapply F_Repeat.
      eapply FR_Iter; [ev|dec|rng|lia|solve [uderive]|sgl|repeat split|].
      eapply FR_Body; [ev|dec|rng|lia|].
      eapply FL_Later; [uderive|exact I|].
      eapply FL_Here.
      eapply F_RunBody; [eexists; split; [ev|reflexivity]|dec|reflexivity|].
      cbn [d_body d_params d_file d_line].
      eapply FL_Later; [uderive|exact I|].
      eapply FL_Here. eapply F_EmitEval. everr.
    - repeat split; vm_compute; reflexivity. }
  destruct H as (er & ch & ev & H & -> & -> & ->). exact H.
Qed.

(* the chain crosses the two files; the prints of both iterations survive *)
Lemma a_chain_lines : chain_lines a_chain = [(n_main, 2%Z); (n_main, 4%Z); (n_lib, 3%Z)].
Proof. reflexivity. Qed.

Lemma a_prints : prints_of a_events =
  [(S_ "go", 3%Z, n_main); (S_ "inside", 2%Z, n_lib); (S_ "go", 3%Z, n_main); (S_ "inside", 2%Z, n_lib)].
Proof. reflexivity. Qed.

Lemma a_by_theorem : forall inc sup,
  compile_items fo (ex_opts inc sup) a_fs (Some (file_of ex_dir n_main)) (uitems_of a_main) =
  (CoreAllBase.apply_evs ex_dir a_events (mkGlob [] []),
   IErr EDivideByZero (Some (map (CoreAllBase.conc_frame ex_dir) a_chain))).
Proof.
  intros inc sup.
  destruct (refine_fails_compile_items fo ex_dir a_prog a_fs (ex_opts inc sup) n_main EDivideByZero a_chain a_events
              a_prog_ok (fs2_closed _ _ _ _) ltac:(vm_compute; discriminate) (a_derivation inc sup))
    as (stmts & Hlk & E).
  injection Hlk as <-. exact E.
Qed.

Lemma a_interpreter :
  compile_items fo (ex_opts false false) a_fs (Some (file_of ex_dir n_main)) (uitems_of a_main) =
  (mkGlob [mkPrint (S_ "inside") 2 lib_path; mkPrint (S_ "go") 3 main_path;
           mkPrint (S_ "inside") 2 lib_path; mkPrint (S_ "go") 3 main_path] [],
   IErr EDivideByZero
     (Some [mkFrame main_path (S_ "REPEAT i,2", 2%Z) None;
            mkFrame main_path (S_ "RUN boom i", 4%Z) (Some (S_ "RUN boom i", 4%Z));
            mkFrame lib_path (S_ "$STRING 5%(1-k)", 3%Z) (Some (S_ "$STRING 5%(1-k)", 3%Z))])).
Proof. vm_compute. reflexivity. Qed.

(* ================================================================== B *)
Definition b_main : list ustmt := [UStart KStart n_lib].
Definition b_lib : list ustmt := [UPrint (S_ "here"); UStart KStart n_main].
Definition b_prog : program := [(n_main, b_main); (n_lib, b_lib)].
Definition b_main_text : str := prog ["START lib"].
Definition b_lib_text : str := prog ["PRINT here"; "START main"].
Definition b_fs : fsys := fs2 b_main_text b_lib_text.

Lemma b_prog_ok : prog_ok ex_dir b_prog b_fs.
Proof.
  apply fs2_ok; try (vm_compute; reflexivity).
  - unfold b_main. cbn. wf_dec.
  - unfold b_lib. cbn. wf_dec.
Qed.

Definition b_chain : list sframe := [mkSF n_main (S_ "START lib") 1 true; mkSF n_lib (S_ "START main") 2 true].

Lemma b_derivation : forall inc sup,
  ufails fo b_prog inc sup n_main (room_of_limit 20) ECircular b_chain [EvPrint (S_ "here") 1 n_lib].
Proof.
  intros inc sup. exists b_main. split; [reflexivity|]. unfold b_main. change (room_of_limit 20) with 19%nat.
  eapply FL_Here.
  apply (F_StartBody fo (initial_sys fo) b_prog inc sup 18 [] n_main 1 [] None [] KStart n_lib b_lib ECircular
           [mkSF n_lib (S_ "START main") 2 true] [EvPrint (S_ "here") 1 n_lib]); [reflexivity|notin|].
  unfold b_lib.
  apply (FL_Later fo (initial_sys fo) b_prog inc sup 18 _ n_lib 1 [] None [] (UPrint (S_ "here")) _ [] None [] []
           [EvPrint (S_ "here") 1 n_lib] ECircular _ []); [apply E_Print|exact I|].
  eapply FL_Here. eapply F_StartCircular; [reflexivity|]. vm_compute. right. left. reflexivity.
Qed.

Lemma b_by_theorem : forall inc sup,
  compile_items fo (ex_opts inc sup) b_fs (Some (file_of ex_dir n_main)) (uitems_of b_main) =
  (CoreAllBase.apply_evs ex_dir [EvPrint (S_ "here") 1 n_lib] (mkGlob [] []),
   IErr ECircular (Some (map (CoreAllBase.conc_frame ex_dir) b_chain))).
Proof.
  intros inc sup.
  destruct (refine_fails_compile_items fo ex_dir b_prog b_fs (ex_opts inc sup) n_main ECircular b_chain _
              b_prog_ok (fs2_closed _ _ _ _) ltac:(vm_compute; discriminate) (b_derivation inc sup))
    as (stmts & Hlk & E).
  injection Hlk as <-. exact E.
Qed.

Lemma b_interpreter :
  compile_items fo (ex_opts false false) b_fs (Some (file_of ex_dir n_main)) (uitems_of b_main) =
  (mkGlob [mkPrint (S_ "here") 1 lib_path] [],
   IErr ECircular
     (Some [mkFrame main_path (S_ "START lib", 1%Z) (Some (S_ "START lib", 1%Z));
            mkFrame lib_path (S_ "START main", 2%Z) (Some (S_ "START main", 2%Z))])).
Proof. vm_compute. reflexivity. Qed.

(* ================================================================== C *)
Definition r_main : list ustmt := [UFunc (S_ "f") [] [URun (S_ "f") []]; URun (S_ "f") []].
Definition r_prog : program := [(n_main, r_main); (n_lib, [])].
Definition r_main_text : str := prog ["FUNC f"; "    RUN f"; "RUN f"].
Definition r_fs : fsys := fs2 r_main_text [].

Lemma r_prog_ok : prog_ok ex_dir r_prog r_fs.
Proof.
  apply fs2_ok; try (vm_compute; reflexivity).
  unfold r_main. cbn. wf_dec.
Qed.

Definition r_opts (inc sup : bool) : options :=
  mkOptions 8 inc (flipper_commands default_options) sup (use_project_config default_options).

Definition call_frame : sframe := mkSF n_main (S_ "RUN f") 2 true.
Definition r_chain : list sframe := mkSF n_main (S_ "RUN f") 3 true :: repeat call_frame 7.

Lemma r_derivation : forall inc sup,
  ufails fo r_prog inc sup n_main (room_of_limit 8) EStackOverflow r_chain [].
Proof.
  intros inc sup.
  assert (H : exists ch ev, ufails fo r_prog inc sup n_main (room_of_limit 8) EStackOverflow ch ev /\
            ch = r_chain /\ ev = []).
  { do 2 eexists. split.
    - exists r_main. split; [reflexivity|]. unfold r_main. change (room_of_limit 8) with 7%nat.
      eapply FL_Later; [uderive|repeat split|].
      eapply FL_Here.
      do 7 (eapply F_RunBody; [reflexivity|dec|reflexivity|]; cbn [d_body d_params d_file d_line]; eapply FL_Here).
      eapply F_RunOverflow; [reflexivity|dec|reflexivity].
    - split; vm_compute; reflexivity. }
  destruct H as (ch & ev & H & -> & ->). exact H.
Qed.

Lemma r_by_theorem : forall inc sup,
  compile_items fo (r_opts inc sup) r_fs (Some (file_of ex_dir n_main)) (uitems_of r_main) =
  (mkGlob [] [], IErr EStackOverflow (Some (map (CoreAllBase.conc_frame ex_dir) r_chain))).
Proof.
  intros inc sup.
  destruct (refine_fails_compile_items fo ex_dir r_prog r_fs (r_opts inc sup) n_main EStackOverflow r_chain []
              r_prog_ok (fs2_closed _ _ _ _) ltac:(vm_compute; discriminate) (r_derivation inc sup))
    as (stmts & Hlk & E).
  injection Hlk as <-. exact E.
Qed.

Lemma r_interpreter :
  match compile_items fo (r_opts false false) r_fs (Some (file_of ex_dir n_main)) (uitems_of r_main) with
  | (_, IErr EStackOverflow (Some tr)) => map (fun fr => snd (fr_line fr)) tr = [3; 2; 2; 2; 2; 2; 2; 2]%Z
  | _ => False
  end.
Proof. vm_compute. reflexivity. Qed.

(* one more stack and the same program overflows one call later: the chain has limit many frames *)
Lemma r_chain_length : length r_chain = 8%nat.
Proof. reflexivity. Qed.

Lemma a_all : forall inc sup,
  ufails fo a_prog inc sup n_main (room_of_limit 20) EDivideByZero a_chain a_events /\
  chain_lines a_chain = [(n_main, 2%Z); (n_main, 4%Z); (n_lib, 3%Z)] /\
  prints_of a_events =
    [(S_ "go", 3%Z, n_main); (S_ "inside", 2%Z, n_lib); (S_ "go", 3%Z, n_main); (S_ "inside", 2%Z, n_lib)] /\
  prog_ok ex_dir a_prog a_fs /\
  compile_items fo (ex_opts inc sup) a_fs (Some (file_of ex_dir n_main)) (uitems_of a_main) =
  (CoreAllBase.apply_evs ex_dir a_events (mkGlob [] []),
   IErr EDivideByZero (Some (map (CoreAllBase.conc_frame ex_dir) a_chain))).
Proof.
  intros inc sup. split; [apply a_derivation|]. split; [apply a_chain_lines|]. split; [apply a_prints|].
  split; [apply a_prog_ok|apply a_by_theorem].
Qed.

Lemma b_all : forall inc sup,
  ufails fo b_prog inc sup n_main (room_of_limit 20) ECircular b_chain [EvPrint (S_ "here") 1 n_lib] /\
  b_chain = [mkSF n_main (S_ "START lib") 1 true; mkSF n_lib (S_ "START main") 2 true] /\
  prog_ok ex_dir b_prog b_fs /\
  compile_items fo (ex_opts inc sup) b_fs (Some (file_of ex_dir n_main)) (uitems_of b_main) =
  (CoreAllBase.apply_evs ex_dir [EvPrint (S_ "here") 1 n_lib] (mkGlob [] []),
   IErr ECircular (Some (map (CoreAllBase.conc_frame ex_dir) b_chain))).
Proof.
  intros inc sup. split; [apply b_derivation|]. split; [reflexivity|]. split; [apply b_prog_ok|apply b_by_theorem].
Qed.

Lemma r_all : forall inc sup,
  ufails fo r_prog inc sup n_main (room_of_limit 8) EStackOverflow r_chain [] /\
  chain_lines r_chain = (n_main, 3%Z) :: repeat (n_main, 2%Z) 7 /\
  prog_ok ex_dir r_prog r_fs /\
  compile_items fo (r_opts inc sup) r_fs (Some (file_of ex_dir n_main)) (uitems_of r_main) =
  (mkGlob [] [], IErr EStackOverflow (Some (map (CoreAllBase.conc_frame ex_dir) r_chain))).
Proof.
  intros inc sup. split; [apply r_derivation|]. split; [reflexivity|]. split; [apply r_prog_ok|apply r_by_theorem].
Qed.

End Examples.
